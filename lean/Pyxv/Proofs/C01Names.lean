import Pyxv.Proofs.C01Tables
/-!
# C01: element names that reach the instance are valid names, from the row level

`Rows.nameOrErr` accepts a `name` cell only if `is_xml_tag` does; the names the converter *generates* beside
a row — `<repeat>_count`, `<select>_other` — are the row's name with a suffix of name characters, and
`is_xml_tag` is closed under such suffixes (`isXmlTag_append`, by induction over the regex model's fuel,
through the typo-literal branch as well).  For colon-free names this is all `validate_xml_document` asks
of an element name (`nameValid_of_isXmlTag_nocolon`), so the hypothesis "the element names are valid" of
`instance_children_valid` / `validator_complete_form` is a derived fact for them.
-/
namespace Pyxv.C01
open Pyxv Pyxv.Xml Pyxv.Asm Pyxv.Rows Pyxv.Form

theorem startsWith_append_left (s p t : Str) (h : startsWith s p = true) : startsWith (s ++ t) p = true := by
  induction p generalizing s with
  | nil => cases s <;> cases t <;> simp [startsWith]
  | cons c r ih =>
    cases s with
    | nil => simp [startsWith] at h
    | cons d u =>
      simp only [startsWith, Bool.and_eq_true] at h
      simp only [List.cons_append, startsWith, Bool.and_eq_true]
      exact ⟨h.1, ih u h.2⟩

theorem typo_length (c : Char) (cs : Str) (h : startsWith (c :: cs) typoLit = true) : 3 ≤ cs.length := by
  match cs with
  | [] => simp [startsWith, typoLit] at h
  | [_] => simp [startsWith, typoLit] at h
  | [_, _] => simp [startsWith, typoLit] at h
  | _ :: _ :: _ :: r => simp

theorem drop_append_of_le (cs t : Str) (n : Nat) (h : n ≤ cs.length) : (cs ++ t).drop n = cs.drop n ++ t := by
  rw [List.drop_append_of_le_length h]

/-- a run of name characters is consumed entirely -/
theorem ncTail_all (f : Nat) (t : Str) (hf : t.length ≤ f) (ht : t.all nmOk = true) : ncTail f t = [] := by
  induction f generalizing t with
  | zero =>
    have : t = [] := List.eq_nil_of_length_eq_zero (Nat.le_zero.mp hf)
    subst this; simp [ncTail]
  | succ f ih =>
    cases t with
    | nil => simp [ncTail]
    | cons c r =>
      simp only [List.all_cons, Bool.and_eq_true] at ht
      have hc : (isNameStart1 c || isNameExtra c) = true := ht.1
      rw [ncTail, if_pos hc]
      exact ih r (by simpa using hf) ht.2

/-- if the name characters of `s` are consumed entirely, so are those of `s ++ t` -/
theorem ncTail_append_nil (f : Nat) (s t : Str) (hf : s.length ≤ f) (ht : t.all nmOk = true)
    (h : ncTail f s = []) : ncTail (f + t.length) (s ++ t) = [] := by
  induction f generalizing s with
  | zero =>
    have : s = [] := List.eq_nil_of_length_eq_zero (Nat.le_zero.mp hf)
    subst this
    exact ncTail_all _ t (by simp) ht
  | succ f ih =>
    cases s with
    | nil => exact ncTail_all _ t (by simp) ht
    | cons c cs =>
      have hcs : cs.length ≤ f := by simpa using hf
      have hfuel : f + 1 + t.length = (f + t.length) + 1 := by omega
      rw [ncTail] at h
      rw [List.cons_append, hfuel, ncTail]
      by_cases hc : (isNameStart1 c || isNameExtra c) = true
      · rw [if_pos hc] at h ⊢
        exact ih cs hcs h
      · rw [if_neg hc] at h ⊢
        by_cases hty : startsWith (c :: cs) typoLit = true
        · rw [if_pos hty] at h
          have hty' : startsWith (c :: (cs ++ t)) typoLit = true := by
            have := startsWith_append_left (c :: cs) typoLit t hty
            simpa using this
          rw [if_pos hty', drop_append_of_le cs t 3 (typo_length c cs hty)]
          exact ih (cs.drop 3) (by rw [List.length_drop]; omega) h
        · rw [if_neg hty] at h
          cases h

/-- if the scan of `s` stops at a colon, the scan of `s ++ t` stops at the same colon -/
theorem ncTail_append_colon (f : Nat) (s t r : Str) (hf : s.length ≤ f)
    (h : ncTail f s = ':' :: r) : ncTail (f + t.length) (s ++ t) = ':' :: r ++ t := by
  induction f generalizing s with
  | zero =>
    have : s = [] := List.eq_nil_of_length_eq_zero (Nat.le_zero.mp hf)
    subst this
    simp [ncTail] at h
  | succ f ih =>
    cases s with
    | nil => simp [ncTail] at h
    | cons c cs =>
      have hcs : cs.length ≤ f := by simpa using hf
      have hfuel : f + 1 + t.length = (f + t.length) + 1 := by omega
      rw [ncTail] at h
      rw [List.cons_append, hfuel, ncTail]
      by_cases hc : (isNameStart1 c || isNameExtra c) = true
      · rw [if_pos hc] at h ⊢
        exact ih cs hcs h
      · rw [if_neg hc] at h ⊢
        by_cases hty : startsWith (c :: cs) typoLit = true
        · rw [if_pos hty] at h
          have hty' : startsWith (c :: (cs ++ t)) typoLit = true := by
            have := startsWith_append_left (c :: cs) typoLit t hty
            simpa using this
          rw [if_pos hty', drop_append_of_le cs t 3 (typo_length c cs hty)]
          exact ih (cs.drop 3) (by rw [List.length_drop]; omega) h
        · rw [if_neg hty] at h
          injection h with h1 h2
          subst h1; subst h2
          have hty' : startsWith (':' :: (cs ++ t)) typoLit = false := by simp [startsWith, typoLit]
          rw [if_neg (by rw [hty']; simp)]
          rfl

theorem ncName_append_nil (s t : Str) (ht : t.all nmOk = true) (h : ncName s = some []) :
    ncName (s ++ t) = some [] := by
  cases s with
  | nil => simp [ncName] at h
  | cons c cs =>
    simp only [ncName] at h
    simp only [List.cons_append, ncName, List.length_append]
    by_cases hc : isNameStart1 c = true
    · rw [if_pos hc] at h ⊢
      injection h with h
      rw [ncTail_append_nil cs.length cs t (Nat.le_refl _) ht h]
    · rw [if_neg hc] at h ⊢
      by_cases hty : startsWith (c :: cs) typoLit = true
      · rw [if_pos hty] at h
        injection h with h
        have hty' : startsWith (c :: (cs ++ t)) typoLit = true := by
          have := startsWith_append_left (c :: cs) typoLit t hty
          simpa using this
        rw [if_pos hty', drop_append_of_le cs t 3 (typo_length c cs hty)]
        rw [ncTail_append_nil cs.length (cs.drop 3) t (by rw [List.length_drop]; omega) ht h]
      · rw [if_neg hty] at h
        cases h

theorem ncName_append_colon (s t r : Str) (h : ncName s = some (':' :: r)) :
    ncName (s ++ t) = some (':' :: r ++ t) := by
  cases s with
  | nil => simp [ncName] at h
  | cons c cs =>
    simp only [ncName] at h
    simp only [List.cons_append, ncName, List.length_append]
    by_cases hc : isNameStart1 c = true
    · rw [if_pos hc] at h ⊢
      injection h with h
      rw [ncTail_append_colon cs.length cs t r (Nat.le_refl _) h]; rfl
    · rw [if_neg hc] at h ⊢
      by_cases hty : startsWith (c :: cs) typoLit = true
      · rw [if_pos hty] at h
        injection h with h
        have hty' : startsWith (c :: (cs ++ t)) typoLit = true := by
          have := startsWith_append_left (c :: cs) typoLit t hty
          simpa using this
        rw [if_pos hty', drop_append_of_le cs t 3 (typo_length c cs hty)]
        rw [ncTail_append_colon cs.length (cs.drop 3) t r (by rw [List.length_drop]; omega) h]; rfl
      · rw [if_neg hty] at h
        cases h

/-- **`is_xml_tag` is closed under suffixes of name characters** (for every string it accepts, including the
    ones it accepts through the typo literal) -/
theorem isXmlTag_append (s t : Str) (ht : t.all nmOk = true) (h : isXmlTag s = true) : isXmlTag (s ++ t) = true := by
  unfold isXmlTag at h ⊢
  split at h
  · cases h
  · rename_i h1
    rw [ncName_append_nil s t ht h1]
  · rename_i r h1
    rw [ncName_append_colon s t r h1]
    split at h
    · rename_i h2
      simp only [List.cons_append, ncName_append_nil r t ht h2]
    · cases h
  · cases h

/-- **the generated helper names are valid whenever the row's name is** -/
theorem generated_names_valid (n : Str) (h : isXmlTag n = true) :
    isXmlTag (n ++ "_count".toList) = true ∧ isXmlTag (n ++ "_other".toList) = true :=
  ⟨isXmlTag_append n _ (by decide) h, isXmlTag_append n _ (by decide) h⟩

/-- **a `name` cell accepted by the row classifier is a valid name** -/
theorem nameOrErr_valid (r : Cells) (t : Str) (n : Nat) (nm : Str) (hcell : (Rows.get r "name").isSome = true)
    (h : nameOrErr r t n = .ok nm) : isXmlTag nm = true := by
  unfold nameOrErr at h
  cases hg : Rows.get r "name" with
  | none => rw [hg] at hcell; cases hcell
  | some x =>
    rw [hg] at h
    simp only [] at h
    split at h
    · rename_i hx; injection h with h; subst h; exact hx
    · cases h

/-- the `_count` helper of a repeat carries a valid name when the repeat does -/
theorem countHelper_valid (name : Str) (r : Cells) (q : QData) (hn : isXmlTag name = true)
    (h : countHelper name r = some q) : isXmlTag q.name = true := by
  unfold countHelper at h
  split at h
  · split at h
    · cases h
    · injection h with h; subst h; exact (generated_names_valid name hn).1
  · cases h

/-- for a colon-free name, `is_xml_tag` is everything `validate_xml_document` asks of an element name -/
theorem nameValid_of_isXmlTag_nocolon (R : List Str) (x : Str) (h : isXmlTag x = true)
    (hc : x.contains ':' = false) : (nameValid R x && elemPrefixOk x) = true := by
  have hp := partitionColon_nocolon x hc
  simp [nameValid, elemPrefixOk, h, hp]

theorem nocolon_append (x t : Str) (hx : x.contains ':' = false) (ht : t.contains ':' = false) :
    (x ++ t).contains ':' = false := by
  simp only [List.contains_eq_mem, decide_eq_false_iff_not, List.mem_append, not_or] at *
  exact ⟨hx, ht⟩

/-- **row level → what `instance_children_valid` needs**: a colon-free `name` cell the classifier accepted,
    and the `_count` / `_other` names generated from it, satisfy the element-name condition of the validator in
    every scope -/
theorem row_names_valid (R : List Str) (r : Cells) (t : Str) (n : Nat) (nm : Str)
    (hcell : (Rows.get r "name").isSome = true) (h : nameOrErr r t n = .ok nm) (hc : nm.contains ':' = false) :
    (nameValid R nm && elemPrefixOk nm) = true ∧
    (nameValid R (nm ++ "_count".toList) && elemPrefixOk (nm ++ "_count".toList)) = true ∧
    (nameValid R (nm ++ "_other".toList) && elemPrefixOk (nm ++ "_other".toList)) = true := by
  have hv := nameOrErr_valid r t n nm hcell h
  have hg := generated_names_valid nm hv
  exact ⟨nameValid_of_isXmlTag_nocolon R nm hv hc,
    nameValid_of_isXmlTag_nocolon R _ hg.1 (nocolon_append nm _ hc (by decide)),
    nameValid_of_isXmlTag_nocolon R _ hg.2 (nocolon_append nm _ hc (by decide))⟩

#print axioms row_names_valid

-- non-vacuity
example : isXmlTag "kids".toList = true ∧ isXmlTag "kids_count".toList = true ∧ isXmlTag "esri:q_other".toList = true := by
  decide +kernel
example : isXmlTag ("esri:q".toList ++ "_other".toList) = true :=
  (generated_names_valid "esri:q".toList (by decide +kernel)).2
example : isXmlTag (typoLit ++ "_count".toList) = true := (generated_names_valid typoLit (by decide +kernel)).1
theorem ex_nameOrErr : nameOrErr [("name".toList, "kids".toList)] "text".toList 2 = .ok "kids".toList := by
  have hx : isXmlTag "kids".toList = true := by decide +kernel
  have hg : Rows.get [("name".toList, "kids".toList)] "name" = some "kids".toList := by decide +kernel
  simp only [nameOrErr, hg, hx, if_true]
example : (nameValid [] "kids_count".toList && elemPrefixOk "kids_count".toList) = true :=
  (row_names_valid [] [("name".toList, "kids".toList)] "text".toList 2 "kids".toList (by decide +kernel) ex_nameOrErr
    (by decide)).2.1

end Pyxv.C01
