import Pyxv.Model.Defaults
/-!
# Lemmas about `Pyxv.Defaults` (property C10)

Specifications (`exp…`): separate, shorter definitions that emit exactly one item per relevant
question in ONE document-order traversal; the lemmas relate what the mechanism model writes into
`<model>` / `<repeat>` / controls / binds / the instance to these.
-/
namespace Pyxv.Defaults
open Pyxv List

variable (dyn : Q → Bool) (sub : Path → Str → Str)

/-! ## spec: first-load setvalues -/

/-- the one setvalue a question with a dynamic default must have: located at its nearest repeat
    ancestor `near` (`none` = `<model>`), fired on first load, and also for new repeat instances
    when inside a repeat -/
def expSet (pre : Path) (near : Option Path) (d : Q) : List SetFact :=
  if hasDynDefault dyn d then
    [{ loc := near,
       set := { tag := "setvalue".toList, ref := pre ++ [d.name],
                event := if near.isSome then evNewRepeat else evFirstLoad,
                value := some (sub (pre ++ [d.name]) d.default) } }]
  else []

/-- spec: one traversal, `near` = nearest repeat ancestor -/
def expSets (pre : Path) (near : Option Path) : List El → List SetFact
  | [] => []
  | .q d :: rest => expSet dyn sub pre near d ++ expSets pre near rest
  | .grp n ks :: rest => expSets (pre ++ [n]) near ks ++ expSets pre near rest
  | .rep n ks :: rest => expSets (pre ++ [n]) (some (pre ++ [n])) ks ++ expSets pre near rest

theorem perm4 {α} (a b c d : List α) : ((a ++ b) ++ (c ++ d)).Perm ((a ++ c) ++ (b ++ d)) := by
  have h : (b ++ (c ++ d)).Perm (c ++ (b ++ d)) := by
    rw [← List.append_assoc, ← List.append_assoc]
    exact List.Perm.append_right d List.perm_append_comm
  rw [List.append_assoc, List.append_assoc]
  exact List.Perm.append_left a h

theorem perm3 {α} (a x c : List α) : (a ++ (x ++ c)).Perm (x ++ (a ++ c)) := by
  rw [← List.append_assoc, ← List.append_assoc]
  exact List.Perm.append_right c List.perm_append_comm

theorem bodySetsL_append (a b : List Body) : bodySetsL (a ++ b) = bodySetsL a ++ bodySetsL b := by
  induction a with
  | nil => simp [bodySetsL]
  | cons x xs ih => simp [bodySetsL, ih]

theorem bodySetsL_qCtl (paths : Str → Path) (tbl : List Trig) (pre : Path) (d : Q) :
    bodySetsL (qCtl sub paths tbl pre d) = [] := by
  unfold qCtl
  split <;> simp [bodySetsL, bodySets]

theorem dynSet_map (pre : Path) (near : Option Path) (d : Q) :
    (dynSet dyn sub pre near.isSome d).map (fun s => ({ loc := near, set := s } : SetFact)) =
      expSet dyn sub pre near d := by
  unfold dynSet expSet
  split <;> simp

/-- inside a repeat `r`: what `_dynamic_defaults_helper` appends to `<repeat nodeset=r>` plus what
    nested repeats carry is exactly the spec for nearest-repeat `r` -/
theorem repeat_sets (paths : Str → Path) (tbl : List Trig) (r : Path) :
    ∀ (els : List El) (pre : Path),
      (((helperSets dyn sub pre els).map fun s => ({ loc := some r, set := s } : SetFact)) ++
        bodySetsL (body dyn sub paths tbl pre els)).Perm (expSets dyn sub pre (some r) els)
  | [], pre => by simp [helperSets, body, bodySetsL, expSets]
  | .q d :: rest, pre => by
    have ih := repeat_sets paths tbl r rest pre
    have hd := dynSet_map dyn sub pre (some r) d
    simp only [Option.isSome_some] at hd
    simp only [helperSets, body, expSets, List.map_append, bodySetsL_append, bodySetsL_qCtl,
      List.nil_append, hd, List.append_assoc]
    exact List.Perm.append_left _ ih
  | .grp n ks :: rest, pre => by
    have ih1 := repeat_sets paths tbl r ks (pre ++ [n])
    have ih2 := repeat_sets paths tbl r rest pre
    simp only [helperSets, body, expSets, List.map_append, bodySetsL, bodySets]
    exact (perm4 _ _ _ _).trans (List.Perm.append ih1 ih2)
  | .rep n ks :: rest, pre => by
    have ih1 := repeat_sets paths tbl (pre ++ [n]) ks (pre ++ [n])
    have ih2 := repeat_sets paths tbl r rest pre
    simp only [helperSets, body, expSets, bodySetsL, bodySets]
    have h1 : (bodySetsL (body dyn sub paths tbl (pre ++ [n]) ks) ++
        (helperSets dyn sub (pre ++ [n]) ks).map fun s => ({ loc := some (pre ++ [n]), set := s } : SetFact)).Perm
        (expSets dyn sub (pre ++ [n]) (some (pre ++ [n])) ks) := List.perm_append_comm.trans ih1
    have h2 : (List.map (fun s => ({ loc := some r, set := s } : SetFact)) (helperSets dyn sub pre rest) ++
        ((bodySetsL (body dyn sub paths tbl (pre ++ [n]) ks) ++
          List.map (fun s => ({ loc := some (pre ++ [n]), set := s } : SetFact)) (helperSets dyn sub (pre ++ [n]) ks)) ++
        bodySetsL (body dyn sub paths tbl pre rest))).Perm
        ((bodySetsL (body dyn sub paths tbl (pre ++ [n]) ks) ++
          List.map (fun s => ({ loc := some (pre ++ [n]), set := s } : SetFact)) (helperSets dyn sub (pre ++ [n]) ks)) ++
        (List.map (fun s => ({ loc := some r, set := s } : SetFact)) (helperSets dyn sub pre rest) ++
        bodySetsL (body dyn sub paths tbl pre rest))) := perm3 _ _ _
    exact h2.trans (List.Perm.append h1 ih2)

/-- outside repeats: `<model>` setvalues plus everything the body's repeats carry -/
theorem model_sets (paths : Str → Path) (tbl : List Trig) :
    ∀ (els : List El) (pre : Path),
      (((modelSets dyn sub pre els).map fun s => ({ loc := none, set := s } : SetFact)) ++
        bodySetsL (body dyn sub paths tbl pre els)).Perm (expSets dyn sub pre none els)
  | [], pre => by simp [modelSets, body, bodySetsL, expSets]
  | .q d :: rest, pre => by
    have ih := model_sets paths tbl rest pre
    have hd := dynSet_map dyn sub pre none d
    simp only [Option.isSome_none] at hd
    simp only [modelSets, body, expSets, List.map_append, bodySetsL_append, bodySetsL_qCtl,
      List.nil_append, hd, List.append_assoc]
    exact List.Perm.append_left _ ih
  | .grp n ks :: rest, pre => by
    have ih1 := model_sets paths tbl ks (pre ++ [n])
    have ih2 := model_sets paths tbl rest pre
    simp only [modelSets, body, expSets, List.map_append, bodySetsL, bodySets]
    exact (perm4 _ _ _ _).trans (List.Perm.append ih1 ih2)
  | .rep n ks :: rest, pre => by
    have ih1 := repeat_sets dyn sub paths tbl (pre ++ [n]) ks (pre ++ [n])
    have ih2 := model_sets paths tbl rest pre
    simp only [modelSets, body, expSets, bodySetsL, bodySets]
    have h1 : (bodySetsL (body dyn sub paths tbl (pre ++ [n]) ks) ++
        (helperSets dyn sub (pre ++ [n]) ks).map fun s => ({ loc := some (pre ++ [n]), set := s } : SetFact)).Perm
        (expSets dyn sub (pre ++ [n]) (some (pre ++ [n])) ks) := List.perm_append_comm.trans ih1
    have h2 : (List.map (fun s => ({ loc := none, set := s } : SetFact)) (modelSets dyn sub pre rest) ++
        ((bodySetsL (body dyn sub paths tbl (pre ++ [n]) ks) ++
          List.map (fun s => ({ loc := some (pre ++ [n]), set := s } : SetFact)) (helperSets dyn sub (pre ++ [n]) ks)) ++
        bodySetsL (body dyn sub paths tbl pre rest))).Perm
        ((bodySetsL (body dyn sub paths tbl (pre ++ [n]) ks) ++
          List.map (fun s => ({ loc := some (pre ++ [n]), set := s } : SetFact)) (helperSets dyn sub (pre ++ [n]) ks)) ++
        (List.map (fun s => ({ loc := none, set := s } : SetFact)) (modelSets dyn sub pre rest) ++
        bodySetsL (body dyn sub paths tbl pre rest))) := perm3 _ _ _
    exact h2.trans (List.Perm.append h1 ih2)


/-! ## questions with their paths; binds; trigger table; nested set-nodes -/

/-- every question with its absolute path, document order -/
def qwp (pre : Path) : List El → List (Path × Q)
  | [] => []
  | .q d :: rest => (pre ++ [d.name], d) :: qwp pre rest
  | .grp n ks :: rest => qwp (pre ++ [n]) ks ++ qwp pre rest
  | .rep n ks :: rest => qwp (pre ++ [n]) ks ++ qwp pre rest

/-- spec: the bind of a question carries `calculate` iff it has a calculation and NO trigger (the text with the
    yes/no → `true()`/`false()` conversion of `xml_bindings`); the nested set-node of a triggered calculation carries
    the raw text — never both -/
def expBind (x : Path × Q) : Bind :=
  { path := x.1, calculate := if !x.2.trigger.isEmpty || x.2.calcu.isEmpty then none else some (sub x.1 (bindConv x.2.calcu)) }

theorem binds_eq : ∀ (els : List El) (pre : Path),
    binds sub pre els = (qwp pre els).flatMap fun x => if x.2.hasBind then [expBind sub x] else []
  | [], _ => by simp [binds, qwp]
  | .q d :: rest, pre => by
    simp only [binds, qwp, List.flatMap_cons, binds_eq rest pre]
    cases d.hasBind <;> simp [qBind, expBind]
  | .grp n ks :: rest, pre => by simp [binds, qwp, binds_eq ks (pre ++ [n]), binds_eq rest pre]
  | .rep n ks :: rest, pre => by simp [binds, qwp, binds_eq ks (pre ++ [n]), binds_eq rest pre]

/-- the trigger table holds exactly one entry per question that has a trigger cell, in document order -/
theorem trigTable_eq : ∀ (els : List El) (pre : Path),
    trigTable els = (qwp pre els).flatMap fun x => saveTrigger x.2
  | [], _ => by simp [trigTable, qwp]
  | .q d :: rest, pre => by simp [trigTable, qwp, trigTable_eq rest pre]
  | .grp n ks :: rest, pre => by simp [trigTable, qwp, trigTable_eq ks (pre ++ [n]), trigTable_eq rest pre]
  | .rep n ks :: rest, pre => by simp [trigTable, qwp, trigTable_eq ks (pre ++ [n]), trigTable_eq rest pre]

/-- spec: the set-nodes nested in the control of question `t` at path `p`: one per table entry
    whose key is exactly `${t}` — setvalues first, then setgeopoints — each targeting its entry's
    question with event `xforms-value-changed` -/
def expNested (paths : Str → Path) (tbl : List Trig) (x : Path × Q) : List TrigFact :=
  if shown x.2 then
    ((triggered tbl x.2.name false).map fun e =>
      ({ ctl := x.1, set := { tag := "setvalue".toList, ref := paths e.target, event := evChanged,
                              value := if e.value.isEmpty then none else some (sub (paths e.target) e.value) } } : TrigFact)) ++
    ((triggered tbl x.2.name true).map fun e =>
      ({ ctl := x.1, set := { tag := "odk:setgeopoint".toList, ref := paths e.target, event := evChanged,
                              value := if e.value.isEmpty then none else some (sub (paths e.target) e.value) } } : TrigFact))
  else []

theorem bodyTrigsL_append (a b : List Body) : bodyTrigsL (a ++ b) = bodyTrigsL a ++ bodyTrigsL b := by
  induction a with
  | nil => simp [bodyTrigsL]
  | cons x xs ih => simp [bodyTrigsL, ih]

theorem bodyTrigsL_qCtl (paths : Str → Path) (tbl : List Trig) (pre : Path) (d : Q) :
    bodyTrigsL (qCtl sub paths tbl pre d) = expNested sub paths tbl (pre ++ [d.name], d) := by
  unfold qCtl expNested
  split <;> simp [bodyTrigsL, bodyTrigs, nestSets, List.map_append, Function.comp_def]

/-- all nested set-nodes of the body = the spec, control by control in document order -/
theorem trigs_eq (paths : Str → Path) (tbl : List Trig) : ∀ (els : List El) (pre : Path),
    bodyTrigsL (body dyn sub paths tbl pre els) = (qwp pre els).flatMap (expNested sub paths tbl)
  | [], _ => by simp [body, bodyTrigsL, qwp]
  | .q d :: rest, pre => by
    simp [body, qwp, bodyTrigsL_append, bodyTrigsL_qCtl, trigs_eq paths tbl rest pre]
  | .grp n ks :: rest, pre => by
    simp [body, qwp, bodyTrigsL, bodyTrigs, trigs_eq paths tbl ks (pre ++ [n]), trigs_eq paths tbl rest pre]
  | .rep n ks :: rest, pre => by
    simp [body, qwp, bodyTrigsL, bodyTrigs, trigs_eq paths tbl ks (pre ++ [n]), trigs_eq paths tbl rest pre]


/-! ## instance text -/

theorem leaves_node_cons (pre : Path) (inT : Bool) (n : Str) (t : Bool) (txt : Str) (k : IT) (ks : List IT) :
    leaves pre inT (.node n t txt (k :: ks)) = leavesL (pre ++ [n]) (inT || t) (k :: ks) := by
  simp [leaves]

theorem leaves_node_of_ne (pre : Path) (inT : Bool) (n : Str) (t : Bool) (txt : Str) (ks : List IT)
    (h : ks ≠ []) : leaves pre inT (.node n t txt ks) = leavesL (pre ++ [n]) (inT || t) ks := by
  cases ks with
  | nil => exact absurd rfl h
  | cons k ks => exact leaves_node_cons ..

theorem instKids_ne (app : Bool) (els : List El) (h : els ≠ []) : instKids dyn app els ≠ [] := by
  cases els with
  | nil => exact absurd rfl h
  | cons e rest =>
    cases e with
    | q d => simp [instKids]
    | grp n ks => simp [instKids]
    | rep n ks => cases app <;> simp [instKids]

theorem tmplKids_ne (els : List El) (h : els ≠ []) : tmplKids dyn els ≠ [] := by
  cases els with
  | nil => exact absurd rfl h
  | cons e rest => cases e <;> simp [tmplKids]

theorem qwp_ne {pre : Path} {els : List El} {x : Path × Q} (h : x ∈ qwp pre els) : els ≠ [] := by
  intro h0; subst h0; simp [qwp] at h

/-- the node a question must have: its text is the default iff the default is static -/
def expLeaf (inT : Bool) (x : Path × Q) : Leaf := { path := x.1, tmpl := inT, text := instText dyn x.2 }

/-- coverage, instance copies: every question has a node with the prescribed text in any copy of
    its section written by `Section.xml_instance` -/
theorem inst_covers : ∀ (els : List El) (pre : Path) (inT app : Bool) (x : Path × Q),
    x ∈ qwp pre els → expLeaf dyn inT x ∈ leavesL pre inT (instKids dyn app els)
  | [], _, _, _, x => by simp [qwp]
  | .q d :: rest, pre, inT, app, x => by
    intro h
    simp only [qwp, List.mem_cons] at h
    simp only [instKids, leavesL, List.mem_append]
    rcases h with h | h
    · left; subst h; simp [qNode, leaves, expLeaf]
    · right; exact inst_covers rest pre inT app x h
  | .grp n ks :: rest, pre, inT, app, x => by
    intro h
    simp only [qwp, List.mem_append] at h
    simp only [instKids, leavesL, List.mem_append]
    rcases h with h | h
    · left
      rw [leaves_node_of_ne _ _ _ _ _ _ (instKids_ne dyn app ks (qwp_ne h))]
      simpa using inst_covers ks (pre ++ [n]) inT app x h
    · right; exact inst_covers rest pre inT app x h
  | .rep n ks :: rest, pre, inT, app, x => by
    intro h
    simp only [qwp, List.mem_append] at h
    cases app with
    | true =>
      simp only [instKids, if_true, leavesL, List.mem_append]
      rcases h with h | h
      · left
        rw [leaves_node_of_ne _ _ _ _ _ _ (instKids_ne dyn true ks (qwp_ne h))]
        simpa using inst_covers ks (pre ++ [n]) inT true x h
      · right; exact inst_covers rest pre inT true x h
    | false =>
      simp only [instKids, Bool.false_eq_true, if_false, leavesL, List.mem_append]
      rcases h with h | h
      · right; left
        rw [leaves_node_of_ne _ _ _ _ _ _ (instKids_ne dyn true ks (qwp_ne h))]
        simpa using inst_covers ks (pre ++ [n]) inT true x h
      · right; right; exact inst_covers rest pre inT false x h

/-- coverage inside a template: every question below a `jr:template` node has a template copy with
    the prescribed text -/
theorem tmpl_covers : ∀ (els : List El) (pre : Path) (x : Path × Q),
    x ∈ qwp pre els → expLeaf dyn true x ∈ leavesL pre true (tmplKids dyn els)
  | [], _, x => by simp [qwp]
  | .q d :: rest, pre, x => by
    intro h
    simp only [qwp, List.mem_cons] at h
    simp only [tmplKids, leavesL, List.mem_append]
    rcases h with h | h
    · left; subst h; simp [qNode, leaves, expLeaf]
    · right; exact tmpl_covers rest pre x h
  | .grp n ks :: rest, pre, x => by
    intro h
    simp only [qwp, List.mem_append] at h
    simp only [tmplKids, leavesL, List.mem_append]
    rcases h with h | h
    · left
      rw [leaves_node_of_ne _ _ _ _ _ _ (instKids_ne dyn false ks (qwp_ne h))]
      simpa using inst_covers dyn ks (pre ++ [n]) true false x h
    · right; exact tmpl_covers rest pre x h
  | .rep n ks :: rest, pre, x => by
    intro h
    simp only [qwp, List.mem_append] at h
    simp only [tmplKids, leavesL, List.mem_append]
    rcases h with h | h
    · left
      rw [leaves_node_of_ne _ _ _ _ _ _ (tmplKids_ne dyn ks (qwp_ne h))]
      simpa using tmpl_covers ks (pre ++ [n]) x h
    · right; exact tmpl_covers rest pre x h

/-- questions that have a repeat ancestor (relative to the list) -/
def qInRepeat (pre : Path) : List El → List (Path × Q)
  | [] => []
  | .q _ :: rest => qInRepeat pre rest
  | .grp n ks :: rest => qInRepeat (pre ++ [n]) ks ++ qInRepeat pre rest
  | .rep n ks :: rest => qwp (pre ++ [n]) ks ++ qInRepeat pre rest

/-- coverage, template copies: a question with a repeat ancestor also has a copy inside a
    `jr:template` subtree, with the same prescribed text -/
theorem template_covers : ∀ (els : List El) (pre : Path) (x : Path × Q),
    x ∈ qInRepeat pre els → expLeaf dyn true x ∈ leavesL pre false (instKids dyn false els)
  | [], _, x => by simp [qInRepeat]
  | .q d :: rest, pre, x => by
    intro h
    simp only [qInRepeat] at h
    simp only [instKids, leavesL, List.mem_append]
    right; exact template_covers rest pre x h
  | .grp n ks :: rest, pre, x => by
    intro h
    simp only [qInRepeat, List.mem_append] at h
    simp only [instKids, leavesL, List.mem_append]
    rcases h with h | h
    · left
      have hne : ks ≠ [] := by intro h0; subst h0; simp [qInRepeat] at h
      rw [leaves_node_of_ne _ _ _ _ _ _ (instKids_ne dyn false ks hne)]
      simpa using template_covers ks (pre ++ [n]) x h
    · right; exact template_covers rest pre x h
  | .rep n ks :: rest, pre, x => by
    intro h
    simp only [qInRepeat, List.mem_append] at h
    simp only [instKids, Bool.false_eq_true, if_false, leavesL, List.mem_append]
    rcases h with h | h
    · left
      rw [leaves_node_of_ne _ _ _ _ _ _ (tmplKids_ne dyn ks (qwp_ne h))]
      simpa using tmpl_covers dyn ks (pre ++ [n]) x h
    · right; right; exact template_covers rest pre x h

/-- no section is empty (an empty group crashes the implementation: finding F13, property C17) -/
def secsNonEmpty : List El → Bool
  | [] => true
  | .q _ :: rest => secsNonEmpty rest
  | .grp _ ks :: rest => !ks.isEmpty && secsNonEmpty ks && secsNonEmpty rest
  | .rep _ ks :: rest => !ks.isEmpty && secsNonEmpty ks && secsNonEmpty rest

theorem ne_of_not_isEmpty {α} {l : List α} (h : (!l.isEmpty) = true) : l ≠ [] := by
  cases l <;> simp_all

/-- soundness: every leaf of the instance (any copy, template or not) is the node of a question at
    that path and carries exactly the prescribed text -/
theorem leaves_sound : ∀ (els : List El), secsNonEmpty els = true →
    (∀ (pre : Path) (inT app : Bool) (l : Leaf), l ∈ leavesL pre inT (instKids dyn app els) →
      ∃ x ∈ qwp pre els, l.path = x.1 ∧ l.text = instText dyn x.2) ∧
    (∀ (pre : Path) (inT : Bool) (l : Leaf), l ∈ leavesL pre inT (tmplKids dyn els) →
      ∃ x ∈ qwp pre els, l.path = x.1 ∧ l.text = instText dyn x.2)
  | [], _ => by simp [instKids, tmplKids, leavesL]
  | .q d :: rest, hne => by
    have ih := leaves_sound rest (by simpa [secsNonEmpty] using hne)
    constructor
    · intro pre inT app l hl
      simp only [instKids, leavesL, List.mem_append] at hl
      rcases hl with hl | hl
      · simp [qNode, leaves] at hl
        exact ⟨(pre ++ [d.name], d), by simp [qwp], by simp [hl]⟩
      · obtain ⟨x, hx, h⟩ := ih.1 pre inT app l hl
        exact ⟨x, by simp [qwp, hx], h⟩
    · intro pre inT l hl
      simp only [tmplKids, leavesL, List.mem_append] at hl
      rcases hl with hl | hl
      · simp [qNode, leaves] at hl
        exact ⟨(pre ++ [d.name], d), by simp [qwp], by simp [hl]⟩
      · obtain ⟨x, hx, h⟩ := ih.2 pre inT l hl
        exact ⟨x, by simp [qwp, hx], h⟩
  | .grp n ks :: rest, hne => by
    simp only [secsNonEmpty, Bool.and_eq_true] at hne
    have hk := ne_of_not_isEmpty hne.1.1
    have ih1 := leaves_sound ks hne.1.2
    have ih2 := leaves_sound rest hne.2
    constructor
    · intro pre inT app l hl
      simp only [instKids, leavesL, List.mem_append] at hl
      rcases hl with hl | hl
      · rw [leaves_node_of_ne _ _ _ _ _ _ (instKids_ne dyn app ks hk)] at hl
        obtain ⟨x, hx, h⟩ := ih1.1 (pre ++ [n]) (inT || false) app l hl
        exact ⟨x, by simp [qwp, hx], h⟩
      · obtain ⟨x, hx, h⟩ := ih2.1 pre inT app l hl
        exact ⟨x, by simp [qwp, hx], h⟩
    · intro pre inT l hl
      simp only [tmplKids, leavesL, List.mem_append] at hl
      rcases hl with hl | hl
      · rw [leaves_node_of_ne _ _ _ _ _ _ (instKids_ne dyn false ks hk)] at hl
        obtain ⟨x, hx, h⟩ := ih1.1 (pre ++ [n]) (inT || false) false l hl
        exact ⟨x, by simp [qwp, hx], h⟩
      · obtain ⟨x, hx, h⟩ := ih2.2 pre inT l hl
        exact ⟨x, by simp [qwp, hx], h⟩
  | .rep n ks :: rest, hne => by
    simp only [secsNonEmpty, Bool.and_eq_true] at hne
    have hk := ne_of_not_isEmpty hne.1.1
    have ih1 := leaves_sound ks hne.1.2
    have ih2 := leaves_sound rest hne.2
    constructor
    · intro pre inT app l hl
      cases app with
      | true =>
        simp only [instKids, if_true, leavesL, List.mem_append] at hl
        rcases hl with hl | hl
        · rw [leaves_node_of_ne _ _ _ _ _ _ (instKids_ne dyn true ks hk)] at hl
          obtain ⟨x, hx, h⟩ := ih1.1 (pre ++ [n]) (inT || false) true l hl
          exact ⟨x, by simp [qwp, hx], h⟩
        · obtain ⟨x, hx, h⟩ := ih2.1 pre inT true l hl
          exact ⟨x, by simp [qwp, hx], h⟩
      | false =>
        simp only [instKids, Bool.false_eq_true, if_false, leavesL, List.mem_append] at hl
        rcases hl with hl | hl | hl
        · rw [leaves_node_of_ne _ _ _ _ _ _ (tmplKids_ne dyn ks hk)] at hl
          obtain ⟨x, hx, h⟩ := ih1.2 (pre ++ [n]) (inT || true) l hl
          exact ⟨x, by simp [qwp, hx], h⟩
        · rw [leaves_node_of_ne _ _ _ _ _ _ (instKids_ne dyn true ks hk)] at hl
          obtain ⟨x, hx, h⟩ := ih1.1 (pre ++ [n]) (inT || false) true l hl
          exact ⟨x, by simp [qwp, hx], h⟩
        · obtain ⟨x, hx, h⟩ := ih2.1 pre inT false l hl
          exact ⟨x, by simp [qwp, hx], h⟩
    · intro pre inT l hl
      simp only [tmplKids, leavesL, List.mem_append] at hl
      rcases hl with hl | hl
      · rw [leaves_node_of_ne _ _ _ _ _ _ (tmplKids_ne dyn ks hk)] at hl
        obtain ⟨x, hx, h⟩ := ih1.2 (pre ++ [n]) (inT || true) l hl
        exact ⟨x, by simp [qwp, hx], h⟩
      · obtain ⟨x, hx, h⟩ := ih2.2 pre inT l hl
        exact ⟨x, by simp [qwp, hx], h⟩


/-! ## per-question reading under unique paths -/

/-- questions with path and nearest repeat ancestor (`none` = no repeat ancestor) -/
def qwn (pre : Path) (near : Option Path) : List El → List (Path × Option Path × Q)
  | [] => []
  | .q d :: rest => (pre ++ [d.name], near, d) :: qwn pre near rest
  | .grp n ks :: rest => qwn (pre ++ [n]) near ks ++ qwn pre near rest
  | .rep n ks :: rest => qwn (pre ++ [n]) (some (pre ++ [n])) ks ++ qwn pre near rest

/-- `expSet` by path -/
def expSetP (y : Path × Option Path × Q) : List SetFact :=
  if hasDynDefault dyn y.2.2 then
    [{ loc := y.2.1,
       set := { tag := "setvalue".toList, ref := y.1,
                event := if y.2.1.isSome then evNewRepeat else evFirstLoad,
                value := some (sub y.1 y.2.2.default) } }]
  else []

theorem expSets_eq_flatMap : ∀ (els : List El) (pre : Path) (near : Option Path),
    expSets dyn sub pre near els = (qwn pre near els).flatMap (expSetP dyn sub)
  | [], _, _ => by simp [expSets, qwn]
  | .q d :: rest, pre, near => by
    simp only [expSets, qwn, List.flatMap_cons, expSets_eq_flatMap rest pre near]
    rfl
  | .grp n ks :: rest, pre, near => by
    simp [expSets, qwn, expSets_eq_flatMap ks (pre ++ [n]) near, expSets_eq_flatMap rest pre near]
  | .rep n ks :: rest, pre, near => by
    simp [expSets, qwn, expSets_eq_flatMap ks (pre ++ [n]) (some (pre ++ [n])), expSets_eq_flatMap rest pre near]

theorem qwn_forget : ∀ (els : List El) (pre : Path) (near : Option Path),
    (qwn pre near els).map (fun y => (y.1, y.2.2)) = qwp pre els
  | [], _, _ => by simp [qwn, qwp]
  | .q d :: rest, pre, near => by simp [qwn, qwp, qwn_forget rest pre near]
  | .grp n ks :: rest, pre, near => by simp [qwn, qwp, qwn_forget ks (pre ++ [n]) near, qwn_forget rest pre near]
  | .rep n ks :: rest, pre, near => by
    simp [qwn, qwp, qwn_forget ks (pre ++ [n]) (some (pre ++ [n])), qwn_forget rest pre near]

/-- inside a repeat every question's nearest repeat is defined -/
theorem qwn_some : ∀ (els : List El) (pre r : Path) (y : Path × Option Path × Q),
    y ∈ qwn pre (some r) els → y.2.1.isSome = true
  | [], _, _, y => by simp [qwn]
  | .q d :: rest, pre, r, y => by
    intro h
    simp only [qwn, List.mem_cons] at h
    rcases h with h | h
    · subst h; rfl
    · exact qwn_some rest pre r y h
  | .grp n ks :: rest, pre, r, y => by
    intro h
    simp only [qwn, List.mem_append] at h
    rcases h with h | h
    · exact qwn_some ks (pre ++ [n]) r y h
    · exact qwn_some rest pre r y h
  | .rep n ks :: rest, pre, r, y => by
    intro h
    simp only [qwn, List.mem_append] at h
    rcases h with h | h
    · exact qwn_some ks (pre ++ [n]) (pre ++ [n]) y h
    · exact qwn_some rest pre r y h

/-- outside repeats: the nearest repeat is defined exactly for the questions with a repeat ancestor -/
theorem qwn_inRepeat : ∀ (els : List El) (pre : Path) (y : Path × Option Path × Q),
    y ∈ qwn pre none els → y.2.1.isSome = true → (y.1, y.2.2) ∈ qInRepeat pre els
  | [], _, y => by simp [qwn]
  | .q d :: rest, pre, y => by
    intro h hs
    simp only [qwn, List.mem_cons] at h
    simp only [qInRepeat]
    rcases h with h | h
    · subst h; simp at hs
    · exact qwn_inRepeat rest pre y h hs
  | .grp n ks :: rest, pre, y => by
    intro h hs
    simp only [qwn, List.mem_append] at h
    simp only [qInRepeat, List.mem_append]
    rcases h with h | h
    · left; exact qwn_inRepeat ks (pre ++ [n]) y h hs
    · right; exact qwn_inRepeat rest pre y h hs
  | .rep n ks :: rest, pre, y => by
    intro h hs
    simp only [qwn, List.mem_append] at h
    simp only [qInRepeat, List.mem_append]
    rcases h with h | h
    · left
      rw [← qwn_forget ks (pre ++ [n]) (some (pre ++ [n]))]
      exact List.mem_map.2 ⟨y, h, rfl⟩
    · right; exact qwn_inRepeat rest pre y h hs

/-- facts keyed by unique paths: filtering a flatMap by one key leaves that key's facts -/
theorem filter_flatMap_unique {α β γ} [DecidableEq γ] (key : α → γ) (r : β → γ) (g : α → List β)
    (hg : ∀ z f, f ∈ g z → r f = key z) :
    ∀ (l : List α), (l.map key).Nodup → ∀ y ∈ l,
      (l.flatMap g).filter (fun f => decide (r f = key y)) = g y
  | [], _, y, hy => by simp at hy
  | z :: rest, hnd, y, hy => by
    simp only [List.map_cons, List.nodup_cons] at hnd
    simp only [List.flatMap_cons, List.filter_append]
    rcases List.mem_cons.1 hy with h | h
    · subst h
      have h1 : (g y).filter (fun f => decide (r f = key y)) = g y :=
        List.filter_eq_self.2 (fun f hf => by simp [hg y f hf])
      have h2 : (rest.flatMap g).filter (fun f => decide (r f = key y)) = [] := by
        apply List.filter_eq_nil_iff.2
        intro f hf
        obtain ⟨z', hz', hfz⟩ := List.mem_flatMap.1 hf
        have hne : key z' ≠ key y := fun e => hnd.1 (e ▸ List.mem_map_of_mem hz')
        simp [hg z' f hfz, hne]
      rw [h1, h2, List.append_nil]
    · have hne : key z ≠ key y := fun e => hnd.1 (e ▸ List.mem_map_of_mem h)
      have h1 : (g z).filter (fun f => decide (r f = key y)) = [] := by
        apply List.filter_eq_nil_iff.2
        intro f hf
        simp [hg z f hf, hne]
      rw [h1, List.nil_append]
      exact filter_flatMap_unique key r g hg rest hnd.2 y h

theorem nodup_key_unique {α γ} (key : α → γ) : ∀ (l : List α), (l.map key).Nodup →
    ∀ a ∈ l, ∀ b ∈ l, key a = key b → a = b
  | [], _, a, ha, _, _, _ => by simp at ha
  | z :: rest, hnd, a, ha, b, hb, hk => by
    simp only [List.map_cons, List.nodup_cons] at hnd
    rcases List.mem_cons.1 ha with ha' | ha'
    · rcases List.mem_cons.1 hb with hb' | hb'
      · rw [ha', hb']
      · subst ha'; exact absurd (hk ▸ List.mem_map_of_mem hb') hnd.1
    · rcases List.mem_cons.1 hb with hb' | hb'
      · subst hb'; exact absurd (hk ▸ List.mem_map_of_mem ha') hnd.1
      · exact nodup_key_unique key rest hnd.2 a ha' b hb' hk


/-! ## name → path lookup, trigger table per target -/

theorem lookup_mem {β} (k : Str) : ∀ (l : List (Str × β)) (v : β), lookup k l = some v → (k, v) ∈ l
  | [], _, h => by simp [lookup] at h
  | (k', v') :: rest, v, h => by
    simp only [lookup] at h
    split at h
    · rename_i hk; simp only [Option.some.injEq] at h; subst hk; subst h; simp
    · exact List.mem_cons_of_mem _ (lookup_mem k rest v h)

theorem lookup_isSome_of_mem {β} (k : Str) : ∀ (l : List (Str × β)) (v : β), (k, v) ∈ l → ∃ v', lookup k l = some v'
  | [], _, h => by simp at h
  | (k', v') :: rest, v, h => by
    simp only [lookup]
    split
    · exact ⟨v', rfl⟩
    · rename_i hk
      rcases List.mem_cons.1 h with h | h
      · simp only [Prod.mk.injEq] at h; exact absurd h.1 hk
      · exact lookup_isSome_of_mem k rest v h

/-- every entry of the name → path table ends in its name -/
theorem qPaths_last : ∀ (els : List El) (pre : Path) (x : Str × Path), x ∈ qPaths pre els → x.2.getLast? = some x.1
  | [], _, x => by simp [qPaths]
  | .q d :: rest, pre, x => by
    intro h
    simp only [qPaths, List.mem_cons] at h
    rcases h with h | h
    · subst h; simp
    · exact qPaths_last rest pre x h
  | .grp n ks :: rest, pre, x => by
    intro h
    simp only [qPaths, List.mem_cons, List.mem_append] at h
    rcases h with h | h | h
    · subst h; simp
    · exact qPaths_last ks (pre ++ [n]) x h
    · exact qPaths_last rest pre x h
  | .rep n ks :: rest, pre, x => by
    intro h
    simp only [qPaths, List.mem_cons, List.mem_append] at h
    rcases h with h | h | h
    · subst h; simp
    · exact qPaths_last ks (pre ++ [n]) x h
    · exact qPaths_last rest pre x h

theorem qwp_in_qPaths : ∀ (els : List El) (pre : Path) (x : Path × Q), x ∈ qwp pre els → (x.2.name, x.1) ∈ qPaths pre els
  | [], _, x => by simp [qwp]
  | .q d :: rest, pre, x => by
    intro h
    simp only [qwp, List.mem_cons] at h
    simp only [qPaths, List.mem_cons]
    rcases h with h | h
    · subst h; left; rfl
    · right; exact qwp_in_qPaths rest pre x h
  | .grp n ks :: rest, pre, x => by
    intro h
    simp only [qwp, List.mem_append] at h
    simp only [qPaths, List.mem_cons, List.mem_append]
    rcases h with h | h
    · right; left; exact qwp_in_qPaths ks (pre ++ [n]) x h
    · right; right; exact qwp_in_qPaths rest pre x h
  | .rep n ks :: rest, pre, x => by
    intro h
    simp only [qwp, List.mem_append] at h
    simp only [qPaths, List.mem_cons, List.mem_append]
    rcases h with h | h
    · right; left; exact qwp_in_qPaths ks (pre ++ [n]) x h
    · right; right; exact qwp_in_qPaths rest pre x h

/-- the lookup separates the names of questions: equal paths, equal names -/
theorem pathOf_inj (els : List El) (pre : Path) (x y : Path × Q)
    (hx : x ∈ qwp pre els) (hy : y ∈ qwp pre els)
    (h : pathOf (qPaths pre els) x.2.name = pathOf (qPaths pre els) y.2.name) : x.2.name = y.2.name := by
  obtain ⟨v1, h1⟩ := lookup_isSome_of_mem _ _ _ (qwp_in_qPaths els pre x hx)
  obtain ⟨v2, h2⟩ := lookup_isSome_of_mem _ _ _ (qwp_in_qPaths els pre y hy)
  have l1 := qPaths_last els pre _ (lookup_mem _ _ _ h1)
  have l2 := qPaths_last els pre _ (lookup_mem _ _ _ h2)
  simp only [pathOf, h1, h2, Option.getD_some] at h
  subst h
  simp only at l1 l2
  rw [l1] at l2
  exact Option.some.inj l2

theorem saveTrigger_target (d : Q) (e : Trig) (h : e ∈ saveTrigger d) : e.target = d.name := by
  unfold saveTrigger at h
  split at h
  · simp at h
  · simp only [List.mem_singleton] at h; subst h; rfl

/-- with unique question names the table has exactly the one entry of `q` for target `q` -/
theorem tbl_filter_target (els : List El) (pre : Path) (y : Path × Q) (hy : y ∈ qwp pre els)
    (hn : ((qwp pre els).map fun x => x.2.name).Nodup) :
    (trigTable els).filter (fun e => decide (e.target = y.2.name)) = saveTrigger y.2 := by
  rw [trigTable_eq els pre]
  exact filter_flatMap_unique (fun x : Path × Q => x.2.name) (·.target) (fun x => saveTrigger x.2)
    (fun z f hf => saveTrigger_target z.2 f hf) _ hn y hy

theorem tbl_target_is_question (els : List El) (pre : Path) (e : Trig) (h : e ∈ trigTable els) :
    ∃ x ∈ qwp pre els, e.target = x.2.name := by
  rw [trigTable_eq els pre] at h
  obtain ⟨x, hx, hf⟩ := List.mem_flatMap.1 h
  exact ⟨x, hx, saveTrigger_target x.2 e hf⟩

theorem refOf_inj {a b : Str} (h : refOf a = refOf b) : a = b := by
  simpa [refOf] using h

/-- only one member of a list with unique keys contributes -/
theorem flatMap_single {α β γ} (key : α → γ) (g : α → List β) : ∀ (l : List α), (l.map key).Nodup →
    ∀ y ∈ l, (∀ x ∈ l, key x ≠ key y → g x = []) → l.flatMap g = g y
  | [], _, y, hy, _ => by simp at hy
  | z :: rest, hnd, y, hy, hz => by
    simp only [List.map_cons, List.nodup_cons] at hnd
    simp only [List.flatMap_cons]
    rcases List.mem_cons.1 hy with h | h
    · subst h
      have : rest.flatMap g = [] := by
        apply List.flatMap_eq_nil_iff.2
        intro x hx
        exact hz x (List.mem_cons_of_mem _ hx) (fun e => hnd.1 (e ▸ List.mem_map_of_mem hx))
      rw [this, List.append_nil]
    · have hne : key z ≠ key y := fun e => hnd.1 (e ▸ List.mem_map_of_mem h)
      rw [hz z (by simp) hne, List.nil_append]
      exact flatMap_single key g rest hnd.2 y h (fun x hx => hz x (List.mem_cons_of_mem _ hx))


/-! ## nested set-nodes per target -/

/-- the table entry of a question with a trigger cell -/
def entryOf (q : Q) : Trig :=
  { key := strip q.trigger, target := q.name, value := q.calcu, geo := q.type == "background-geopoint".toList }

theorem saveTrigger_of_trigger (q : Q) (h : q.trigger.isEmpty = false) : saveTrigger q = [entryOf q] := by
  simp [saveTrigger, h, entryOf]

/-- one half (setvalue or setgeopoint table) of the nodes nested in the control named `n`, restricted to
    the nodes that target `q` -/
theorem nested_half_filter (els : List El) (pre : Path) (y : Path × Q) (hy : y ∈ qwp pre els)
    (hn : ((qwp pre els).map fun x => x.2.name).Nodup) (htrig : y.2.trigger.isEmpty = false)
    (n : Str) (g : Bool) (mk : Trig → TrigFact)
    (hmk : ∀ e, (mk e).set.ref = pathOf (qPaths pre els) e.target) :
    ((triggered (trigTable els) n g).map mk).filter
        (fun f => decide (f.set.ref = pathOf (qPaths pre els) y.2.name)) =
      if (entryOf y.2).key == refOf n && (entryOf y.2).geo == g then [mk (entryOf y.2)] else [] := by
  have hcongr : ∀ e ∈ trigTable els,
      (decide ((mk e).set.ref = pathOf (qPaths pre els) y.2.name) && (e.key == refOf n && e.geo == g)) =
      ((e.key == refOf n && e.geo == g) && decide (e.target = y.2.name)) := by
    intro e he
    obtain ⟨x, hx, hxe⟩ := tbl_target_is_question els pre e he
    have : decide ((mk e).set.ref = pathOf (qPaths pre els) y.2.name) = decide (e.target = y.2.name) := by
      rw [hmk e]
      by_cases h : e.target = y.2.name
      · simp [h]
      · have : pathOf (qPaths pre els) e.target ≠ pathOf (qPaths pre els) y.2.name := by
          intro hp
          rw [hxe] at hp h
          exact h (pathOf_inj els pre x y hx hy hp)
        simp [h, this]
    rw [this, Bool.and_comm]
  rw [List.filter_map]
  unfold triggered
  rw [List.filter_filter]
  have h1 : (trigTable els).filter
      (fun e => ((fun f => decide (f.set.ref = pathOf (qPaths pre els) y.2.name)) ∘ mk) e && (e.key == refOf n && e.geo == g)) =
      (trigTable els).filter (fun e => (e.key == refOf n && e.geo == g) && decide (e.target = y.2.name)) :=
    List.filter_congr hcongr
  rw [h1, ← List.filter_filter, tbl_filter_target els pre y hy hn, saveTrigger_of_trigger y.2 htrig]
  by_cases hk : ((entryOf y.2).key == refOf n && (entryOf y.2).geo == g) = true
  · simp [List.filter, hk]
  · simp [List.filter, hk]


/-- question names are a sublist of all element names (in the name → path table's order) -/
theorem qwp_names_sublist : ∀ (els : List El) (pre : Path),
    ((qwp pre els).map fun x => x.2.name).Sublist ((qPaths pre els).map (·.1))
  | [], _ => by simp [qwp, qPaths]
  | .q d :: rest, pre => by
    simp only [qwp, qPaths, List.map_cons]
    exact (qwp_names_sublist rest pre).cons_cons _
  | .grp n ks :: rest, pre => by
    simp only [qwp, qPaths, List.map_cons, List.map_append]
    exact ((qwp_names_sublist ks (pre ++ [n])).append (qwp_names_sublist rest pre)).cons _
  | .rep n ks :: rest, pre => by
    simp only [qwp, qPaths, List.map_cons, List.map_append]
    exact ((qwp_names_sublist ks (pre ++ [n])).append (qwp_names_sublist rest pre)).cons _

/-- with unique element names the lookup returns the question's own path -/
theorem pathOf_question (els : List El) (pre : Path) (y : Path × Q) (hy : y ∈ qwp pre els)
    (hn : ((qPaths pre els).map (·.1)).Nodup) : pathOf (qPaths pre els) y.2.name = y.1 := by
  have hm := qwp_in_qPaths els pre y hy
  obtain ⟨v, hv⟩ := lookup_isSome_of_mem _ _ _ hm
  have := nodup_key_unique (·.1) _ hn _ (lookup_mem _ _ _ hv) _ hm rfl
  simp only [Prod.mk.injEq, true_and] at this
  simp [pathOf, hv, this]


/-! ## acceptance: a converted form's triggers are references to visible questions -/

theorem firstErr_none {α} (f : α → Option Err) : ∀ (l : List α), firstErr f l = none → ∀ a ∈ l, f a = none
  | [], _, a, ha => by simp at ha
  | x :: rest, h, a, ha => by
    simp only [firstErr] at h
    split at h
    · cases h
    · rename_i hx
      rcases List.mem_cons.1 ha with rfl | ha
      · exact hx
      · exact firstErr_none f rest h a ha

theorem questions_eq : ∀ (els : List El) (pre : Path), questions els = (qwp pre els).map (·.2)
  | [], _ => by simp [questions, qwp]
  | .q d :: rest, pre => by simp [questions, qwp, questions_eq rest pre]
  | .grp n ks :: rest, pre => by simp [questions, qwp, questions_eq ks (pre ++ [n]), questions_eq rest pre]
  | .rep n ks :: rest, pre => by simp [questions, qwp, questions_eq ks (pre ++ [n]), questions_eq rest pre]

theorem check_none_parts (els : List El) (h : check dyn els = none) :
    firstErr (usableErr (questions els) (trigTable els)) (trigTable els) = none ∧
    firstErr (ctlErr (trigTable els)) (questions els) = none := by
  unfold check at h
  dsimp only at h
  split at h
  · cases h
  split at h
  · cases h
  split at h
  · cases h
  split at h
  · cases h
  split at h
  · cases h
  split at h
  · cases h
  split at h
  · cases h
  exact ⟨by assumption, h⟩

/-- an accepted form's trigger cells are exactly one reference to a question that renders a control
    (the F8 repair, `Survey._is_usable_trigger` + the "not user-visible" error of `Question.xml_control`) -/
theorem accepted_trigger_visible_aux (els : List El) (pre : Path) (h : check dyn els = none)
    (y : Path × Q) (hy : y ∈ qwp pre els) (htrig : y.2.trigger.isEmpty = false) :
    ∃ x ∈ qwp pre els, strip y.2.trigger = refOf x.2.name ∧ shown x.2 = true := by
  obtain ⟨hu, hc⟩ := check_none_parts dyn els h
  have hmem : entryOf y.2 ∈ trigTable els := by
    rw [trigTable_eq els pre]
    exact List.mem_flatMap.2 ⟨y, hy, by simp [saveTrigger_of_trigger y.2 htrig]⟩
  have hue := firstErr_none _ _ hu _ hmem
  unfold usableErr at hue
  split at hue
  · cases hue
  · rename_i t hfind
    have htq : t ∈ questions els := List.mem_of_find?_eq_some hfind
    have hkey : (refOf t.name == (entryOf y.2).key) = true := by
      have := List.find?_some hfind
      simpa using this
    have hct := firstErr_none _ _ hc t htq
    rw [questions_eq els pre] at htq
    obtain ⟨x, hx, rfl⟩ := List.mem_map.1 htq
    refine ⟨x, hx, ?_, ?_⟩
    · have : refOf x.2.name = (entryOf y.2).key := by simpa using hkey
      exact this.symm
    · unfold ctlErr at hct
      by_cases hh : hiddenQ x.2 = true
      · simp only [hh, if_true] at hue hct
        split at hct
        · cases hct
        · rename_i hnil
          simp [hnil] at hue
      · have hh' : hiddenQ x.2 = false := by simpa using hh
        simp only [hh', Bool.false_eq_true, if_false] at hue
        split at hue
        · rename_i hctl; simp [shown, hh', hctl]
        · cases hue


/-! ## interface lemmas for composition (`Pyxv.Convert`): the four parts of `gen` -/

@[simp] theorem gen_inst (root : Str) (els : List El) :
    (gen dyn sub root els).inst = .node root false [] (instKids dyn false els) := rfl
@[simp] theorem gen_modelSets (root : Str) (els : List El) :
    (gen dyn sub root els).modelSets = modelSets dyn sub [root] els := rfl
@[simp] theorem gen_binds (root : Str) (els : List El) :
    (gen dyn sub root els).binds = binds sub [root] els := rfl
@[simp] theorem gen_body (root : Str) (els : List El) :
    (gen dyn sub root els).body = body dyn sub (pathOf (qPaths [root] els)) (trigTable els) [root] els := rfl

end Pyxv.Defaults
