import Pyxv.Proofs.Convert
import Pyxv.Proofs.C01Names
/-!
# `GoodNames` of the end-to-end composition, from the name cells

`convert_c03_partial` / `convert_c03_exprs_partial` (Proofs/Convert.lean) carry `Refs.GoodNames` — every name on an
element's path is non-empty and has no `/` — as a hypothesis on the element list.  Here it is discharged for every
workbook the model converts: a name on a path is either a `name` cell the row classifier accepted
(`Rows.nameOrErr`, hence `is_xml_tag`: `C01.nameOrErr_valid`), or generated from one (`_count`, `_other`:
`C01.generated_names_valid`), or `generated_note_name_<row>`, or one of the meta block's literals, or the root name,
which `validate_xml_document` (`Asm.validDoc`, last step of `convertDoc`) checked as the tag of the primary
instance's child.
-/
namespace Pyxv.ConvertP
open Pyxv Pyxv.Form Pyxv.Rows Pyxv.Xml Pyxv.Asm Pyxv.Convert Pyxv.C01

/-- what `Refs.GoodNames` asks of one name -/
def GoodName (s : Str) : Prop := '/' ∉ s ∧ s ≠ []

/-! ## 1. `is_xml_tag` names are good -/

theorem ncTail_split : ∀ (f : Nat) (s : Str), ∃ pre, s = pre ++ ncTail f s ∧ '/' ∉ pre
  | 0, s => ⟨[], by simp [ncTail]⟩
  | _ + 1, [] => ⟨[], by simp [ncTail]⟩
  | f + 1, c :: cs => by
    rw [ncTail]
    split
    · rename_i hc
      obtain ⟨pre, hs, hp⟩ := ncTail_split f cs
      refine ⟨c :: pre, by rw [List.cons_append, ← hs], ?_⟩
      intro hm
      rcases List.mem_cons.1 hm with h | h
      · subst h; revert hc; decide
      · exact hp h
    · split
      · rename_i hst
        obtain ⟨pre, hs, hp⟩ := ncTail_split f (cs.drop 3)
        have hd := startsWith_decomp (c :: cs) typoLit hst
        have hlen : typoLit.length = 4 := by decide
        rw [hlen] at hd
        have hd' : (c :: cs).drop 4 = cs.drop 3 := by simp
        rw [hd'] at hd
        refine ⟨typoLit ++ pre, ?_, ?_⟩
        · rw [List.append_assoc, ← hs]; exact hd
        · intro hm
          rcases List.mem_append.1 hm with h | h
          · revert h; decide
          · exact hp h
      · exact ⟨[], by simp⟩

theorem ncName_split (s rest : Str) (h : ncName s = some rest) : ∃ pre, s = pre ++ rest ∧ '/' ∉ pre ∧ pre ≠ [] := by
  cases s with
  | nil => simp [ncName] at h
  | cons c cs =>
    simp only [ncName] at h
    split at h
    · rename_i hc
      injection h with h
      obtain ⟨pre, hs, hp⟩ := ncTail_split cs.length cs
      refine ⟨c :: pre, by rw [List.cons_append, ← h, ← hs], ?_, by simp⟩
      intro hm
      rcases List.mem_cons.1 hm with h' | h'
      · subst h'; revert hc; decide
      · exact hp h'
    · split at h
      · rename_i hst
        injection h with h
        obtain ⟨pre, hs, hp⟩ := ncTail_split cs.length (cs.drop 3)
        have hd := startsWith_decomp (c :: cs) typoLit hst
        have hlen : typoLit.length = 4 := by decide
        rw [hlen] at hd
        have hd' : (c :: cs).drop 4 = cs.drop 3 := by simp
        rw [hd'] at hd
        refine ⟨typoLit ++ pre, ?_, ?_, ?_⟩
        · rw [List.append_assoc, ← h, ← hs]; exact hd
        · intro hm
          rcases List.mem_append.1 hm with h' | h'
          · revert h'; decide
          · exact hp h'
        · intro he
          have := congrArg List.length he
          simp [hlen] at this
      · cases h

/-- **a name `is_xml_tag` accepts is non-empty and has no `/`** -/
theorem goodName_of_isXmlTag (s : Str) (h : isXmlTag s = true) : GoodName s := by
  unfold isXmlTag at h
  split at h
  · cases h
  · rename_i hn
    obtain ⟨pre, hs, hp, hne⟩ := ncName_split s [] hn
    rw [List.append_nil] at hs
    subst hs
    exact ⟨hp, hne⟩
  · rename_i r hn
    obtain ⟨pre, hs, hp, hne⟩ := ncName_split s _ hn
    split at h
    · rename_i hr
      obtain ⟨pre2, hs2, hp2, _⟩ := ncName_split r [] hr
      rw [List.append_nil] at hs2
      subst hs2
      subst hs
      refine ⟨?_, by simp [hne]⟩
      intro hm
      rcases List.mem_append.1 hm with h' | h'
      · exact hp h'
      · rcases List.mem_cons.1 h' with h'' | h''
        · cases h''
        · exact hp2 h''
    · cases h
  · cases h

theorem goodName_append (s t : Str) (hs : GoodName s) (ht : '/' ∉ t) : GoodName (s ++ t) := by
  refine ⟨?_, by simp [hs.2]⟩
  intro hm
  rcases List.mem_append.1 hm with h | h
  · exact hs.1 h
  · exact ht h

/-- decimal digits have no `/` -/
theorem natToStr_noSlash (n : Nat) : '/' ∉ natToStr n := by
  intro h
  have h' : '/' ∈ Nat.toDigits 10 n := by
    simpa [natToStr, Nat.repr] using h
  have := Nat.isDigit_of_mem_toDigits (by decide) (by decide) h'
  revert this; decide

/-! ## 2. the names a classified row carries are good -/

def optGood : Option QData → Prop
  | some d => GoodName d.name
  | none => True

/-- the names a row contributes to the tree: its own and the generated companion's -/
def kGood : RowK → Prop
  | .q d other => GoodName d.name ∧ optGood other
  | .begin_ _ name _ helper => GoodName name ∧ optGood helper
  | _ => True

theorem nameOrErr_good (r : Cells) (t : Str) (n : Nat) (nm : Str) (h : nameOrErr r t n = .ok nm) : GoodName nm := by
  cases hg : Rows.get r "name" with
  | some x => exact goodName_of_isXmlTag nm (nameOrErr_valid r t n nm (by rw [hg]; rfl) h)
  | none =>
    unfold nameOrErr at h
    rw [hg] at h
    simp only [] at h
    split at h
    · injection h with h; subst h
      exact goodName_append _ _ ⟨by decide, by decide⟩ (natToStr_noSlash n)
    · cases h

theorem qdata_name (name t : Str) (r : Cells) (d : QData) (h : qdata name t r = some d) : d.name = name := by
  unfold qdata at h
  split at h
  · injection h with h; subst h; rfl
  · split at h
    · cases h
    · injection h with h; subst h; rfl

theorem countHelper_good (name : Str) (r : Cells) (hn : GoodName name) : optGood (countHelper name r) := by
  unfold countHelper
  split
  · split
    · exact True.intro
    · exact goodName_append _ _ hn (by decide)
  · exact True.intro

theorem classifyBegin_good (r : Cells) (name c : Str) (k : RowK) (hn : GoodName name)
    (h : classifyBegin r name c = .row k) : kGood k := by
  unfold classifyBegin at h
  repeat' split at h
  all_goals first
    | (cases h; done)
    | (injection h with h; subst h; exact ⟨hn, countHelper_good name r hn⟩)

theorem classifySelect_good (lists : List Str) (r : Cells) (name sel ln : Str) (other : Bool) (k : RowK)
    (hn : GoodName name) (h : classifySelect lists r name sel ln other = .row k) : kGood k := by
  unfold classifySelect at h
  simp only [] at h
  repeat' split at h
  all_goals first
    | (cases h; done)
    | (injection h with h; subst h; first
        | exact True.intro
        | exact ⟨hn, True.intro⟩
        | exact ⟨hn, goodName_append _ _ hn (by decide)⟩)

theorem classifyNamed_good (lists : List Str) (r : Cells) (t name : Str) (k : RowK) (hn : GoodName name)
    (h : classifyNamed lists r t name = .row k) : kGood k := by
  unfold classifyNamed at h
  repeat' split at h
  all_goals first
    | (cases h; done)
    | exact classifyBegin_good _ _ _ _ hn h
    | exact classifySelect_good _ _ _ _ _ _ _ hn h
    | (injection h with h; subst h; first
        | exact ⟨hn, True.intro⟩
        | exact ⟨by rw [qdata_name _ _ _ _ (by assumption)]; exact hn, True.intro⟩)

theorem classifyTyped_good (lists : List Str) (n : Nat) (r : Cells) (t : Str) (k : RowK)
    (h : classifyTyped lists n r t = .row k) : kGood k := by
  unfold classifyTyped at h
  repeat' split at h
  all_goals first
    | (cases h; done)
    | exact classifyNamed_good _ _ _ _ _ (nameOrErr_good _ _ _ _ (by assumption)) h
    | (injection h with h; subst h; exact True.intro)

/-- **every name a classified row carries is good** (`nameOrErr` is the only source of names) -/
theorem classify_good (lists : List Str) (n : Nat) (r : Cells) (k : RowK) (h : classify lists n r = .row k) :
    kGood k := by
  unfold classify at h
  simp only [] at h
  repeat' split at h
  all_goals first
    | (cases h; done)
    | exact classifyTyped_good _ _ _ _ _ h
    | (injection h with h; subst h; exact True.intro)

#print axioms classify_good

/-! ## 3. the decorated tree carries good names -/

mutual
def dGood : DItem → Prop
  | .q d _ => GoodName d.name
  | .sec _ n _ _ ks => GoodName n ∧ dGoodL ks
def dGoodL : List DItem → Prop
  | [] => True
  | k :: ks => dGood k ∧ dGoodL ks
end

theorem dGood_q (d : QData) (p : Pay) (h : GoodName d.name) : dGood (.q d p) := by simp only [dGood]; exact h
theorem dGood_sec (ct : Ctl) (n : Str) (b : Bool) (p : Pay) (ks : List DItem) (hn : GoodName n) (hk : dGoodL ks) :
    dGood (.sec ct n b p ks) := by simp only [dGood]; exact ⟨hn, hk⟩
theorem dGoodL_nil : dGoodL [] := by simp only [dGoodL]
theorem dGoodL_cons (k : DItem) (ks : List DItem) (h : dGood k) (hs : dGoodL ks) : dGoodL (k :: ks) := by
  simp only [dGoodL]; exact ⟨h, hs⟩
theorem dGoodL_head {k : DItem} {ks : List DItem} (h : dGoodL (k :: ks)) : dGood k := by
  simp only [dGoodL] at h; exact h.1
theorem dGoodL_tail {k : DItem} {ks : List DItem} (h : dGoodL (k :: ks)) : dGoodL ks := by
  simp only [dGoodL] at h; exact h.2
theorem dGood_sec_name {ct : Ctl} {n : Str} {b : Bool} {p : Pay} {ks : List DItem} (h : dGood (.sec ct n b p ks)) :
    GoodName n ∧ dGoodL ks := by simp only [dGood] at h; exact h
theorem dGood_q_name {d : QData} {p : Pay} (h : dGood (.q d p)) : GoodName d.name := by simp only [dGood] at h; exact h

theorem dGoodL_append : ∀ (a b : List DItem), dGoodL a → dGoodL b → dGoodL (a ++ b)
  | [], _, _, hb => hb
  | x :: a, b, ha, hb => by
    rw [List.cons_append]
    exact dGoodL_cons _ _ (dGoodL_head ha) (dGoodL_append a b (dGoodL_tail ha) hb)

def stGood (st : DSt) : Prop := dGoodL st.1 ∧ ∀ f ∈ st.2, GoodName f.name ∧ dGoodL f.kids

theorem dpush_good (t : DItem) (ht : dGood t) : ∀ st : DSt, stGood st → stGood (dpush t st)
  | (root, []), h => ⟨dGoodL_append _ _ h.1 (dGoodL_cons _ _ ht dGoodL_nil), by intro f hf; cases hf⟩
  | (root, f :: fs), h => by
    refine ⟨h.1, ?_⟩
    intro g hg
    simp only [dpush, List.mem_cons] at hg
    rcases hg with rfl | hg
    · exact ⟨(h.2 f (by simp)).1, dGoodL_append _ _ (h.2 f (by simp)).2 (dGoodL_cons _ _ ht dGoodL_nil)⟩
    · exact h.2 g (by simp [hg])

theorem dpushOpt_good (t : Option QData) (hp : Pay) (ht : optGood t) (st : DSt) (h : stGood st) :
    stGood (dpushOpt t hp st) := by
  cases t with
  | none => exact h
  | some d => exact dpush_good (.q d hp) (dGood_q _ _ ht) st h

theorem dstep_good (st st' : DSt) (n : Nat) (p : Pay) (k : RowK) (hk : kGood k) (h : stGood st)
    (hs : dstep st n p k = .ok st') : stGood st' := by
  cases k with
  | skip => simp only [dstep] at hs; injection hs with hs; subst hs; exact h
  | bad e => simp [dstep] at hs
  | q d other =>
    simp only [dstep] at hs; injection hs with hs; subst hs
    exact dpushOpt_good _ _ hk.2 _ (dpush_good _ (dGood_q _ _ hk.1) _ h)
  | begin_ ct name bind helper =>
    simp only [dstep] at hs; injection hs with hs; subst hs
    have h' := dpushOpt_good helper (helperPay p) hk.2 st h
    refine ⟨h'.1, ?_⟩
    intro g hg
    rcases List.mem_cons.1 hg with rfl | hg
    · exact ⟨hk.1, dGoodL_nil⟩
    · exact h'.2 g hg
  | end_ ct =>
    obtain ⟨root, fs⟩ := st
    cases fs with
    | nil => simp [dstep] at hs
    | cons f fs =>
      simp only [dstep] at hs
      split at hs
      · injection hs with hs; subst hs
        have hf := h.2 f (by simp)
        exact dpush_good _ (dGood_sec _ _ _ _ _ hf.1 hf.2) _ ⟨h.1, fun g hg => h.2 g (by simp [hg])⟩
      · cases hs

theorem drun_good : ∀ (rows : List ((Nat × RowK) × Pay)) (st st' : DSt), (∀ x ∈ rows, kGood x.1.2) → stGood st →
    drun st rows = .ok st' → stGood st'
  | [], st, st', _, h, hr => by simp only [drun] at hr; injection hr with hr; subst hr; exact h
  | ((n, r), p) :: rs, st, st', hk, h, hr => by
    simp only [drun] at hr
    split at hr
    · rename_i st1 hst1
      exact drun_good rs st1 st' (fun x hx => hk x (by simp [hx])) (dstep_good st st1 n p r (hk ((n, r), p) (by simp)) h hst1) hr
    · cases hr

theorem dparse_good (rows : List ((Nat × RowK) × Pay)) (ditems : List DItem) (hk : ∀ x ∈ rows, kGood x.1.2)
    (h : dparse rows = .ok ditems) : dGoodL ditems := by
  unfold dparse at h
  split at h
  · rename_i root hr
    injection h with h; subst h
    exact (drun_good rows _ _ hk ⟨dGoodL_nil, by intro f hf; cases hf⟩ hr).1
  · cases h
  · cases h

theorem decorateAll_good (lists : List Str) : ∀ (rows : List Cells) (n : Nat) (ds : List ((Nat × RowK) × Pay)),
    decorateAll lists n rows = .ok ds → ∀ x ∈ ds, kGood x.1.2
  | [], n, ds, h => by simp only [decorateAll] at h; injection h with h; subst h; intro x hx; cases hx
  | r :: rs, n, ds, h => by
    simp only [decorateAll] at h
    split at h
    · cases h
    · rename_i k p hd
      split at h
      · rename_i ds' hds
        injection h with h; subst h
        intro x hx
        rcases List.mem_cons.1 hx with rfl | hx
        · exact classify_good lists n r k (decorate_classify lists n r k p hd)
        · exact decorateAll_good lists rs (n + 1) ds' hds x hx
      · cases h

theorem metaKids_good (rows : List Cells) : ∀ d ∈ metaKids rows [], GoodName d.name := by
  intro d hd
  have he : metaKids rows [] = (rows.filter isAuditRow).map (fun _ => auditQ) ++
      [({ name := "instanceID".toList, bind := true, control := false, node := true } : QData)] := by
    simp [metaKids, Rows.get, has, lookup]
  rw [he] at hd
  rcases List.mem_append.1 hd with h | h
  · obtain ⟨_, _, rfl⟩ := List.mem_map.1 h
    exact ⟨by decide, by decide⟩
  · rcases List.mem_singleton.1 h with rfl
    exact ⟨by decide, by decide⟩

theorem dGoodL_map_q (f : QData → Pay) : ∀ (mk : List QData), (∀ d ∈ mk, GoodName d.name) →
    dGoodL (mk.map fun d => DItem.q d (f d))
  | [], _ => dGoodL_nil
  | d :: mk, h => dGoodL_cons _ _ (dGood_q _ _ (h d (by simp))) (dGoodL_map_q f mk (fun d' hd' => h d' (by simp [hd'])))

theorem dWithMeta_good (root : Str) (rows : List Cells) (ditems : List DItem) (h : dGoodL ditems) :
    dGoodL (dWithMeta root rows ditems) := by
  unfold dWithMeta
  simp only []
  split
  · exact h
  · exact dGoodL_append _ _ h (dGoodL_cons _ _ (dGood_sec _ _ _ _ _ ⟨by decide, by decide⟩ (dGoodL_map_q _ _ (metaKids_good rows))) dGoodL_nil)

/-! ## 4. good names on the tree → `GoodNames` on every chain -/

theorem goodNames_snoc (pre : Refs.Chain) (n : Str) (k : Refs.Kind) (hp : Refs.GoodNames pre.path) (hn : GoodName n) :
    Refs.GoodNames (Refs.Chain.path (pre ++ [(n, k)])) := by
  intro s hs
  simp only [Refs.Chain.path, List.map_append, List.map_cons, List.map_nil, List.mem_append, List.mem_singleton] at hs
  rcases hs with hs | rfl
  · exact hp s hs
  · exact hn

mutual
theorem chains_good (pre : Refs.Chain) (hp : Refs.GoodNames pre.path) : (e : DItem) → dGood e →
    ∀ c ∈ (toEl e).chains pre, Refs.GoodNames c.path
  | .q d _, hd, c, hc => by
    simp only [toEl, Refs.El.chains, Refs.chainsL, List.mem_cons, List.not_mem_nil, or_false] at hc
    subst hc
    exact goodNames_snoc pre _ _ hp (dGood_q_name hd)
  | .sec ct n _ _ ks, hd, c, hc => by
    simp only [toEl, Refs.El.chains, List.mem_cons] at hc
    rcases hc with rfl | hc
    · exact goodNames_snoc pre _ _ hp (dGood_sec_name hd).1
    · exact chainsL_good _ (goodNames_snoc pre _ _ hp (dGood_sec_name hd).1) ks (dGood_sec_name hd).2 c hc
theorem chainsL_good (pre : Refs.Chain) (hp : Refs.GoodNames pre.path) : (es : List DItem) → dGoodL es →
    ∀ c ∈ Refs.chainsL pre (toElL es), Refs.GoodNames c.path
  | [], _, c, hc => by simp [toElL, Refs.chainsL] at hc
  | e :: es, hd, c, hc => by
    simp only [toElL, Refs.chainsL, List.mem_append] at hc
    rcases hc with hc | hc
    · exact chains_good pre hp e (dGoodL_head hd) c hc
    · exact chainsL_good pre hp es (dGoodL_tail hd) c hc
end

theorem elsOf_good (root : Str) (dall : List DItem) (hr : GoodName root) (hd : dGoodL dall) :
    ∀ t ∈ elsOf root dall, Refs.GoodNames t.path := by
  intro t ht
  have hroot : Refs.GoodNames (Refs.Chain.path ([] ++ [(root, Refs.Kind.group)])) :=
    goodNames_snoc [] root .group (by intro s hs; cases hs) hr
  simp only [elsOf, Refs.El.chains, List.mem_cons] at ht
  rcases ht with rfl | ht
  · exact hroot
  · exact chainsL_good _ hroot dall hd t ht

/-! ## 5. the root name: `validate_xml_document` checked it -/

theorem validKids_mem (S : List Str) : ∀ (ks : List Node), validKids S ks = true → ∀ k ∈ ks, validDoc S k = true
  | [], _, k, hk => by cases hk
  | x :: ks, h, k, hk => by
    simp only [validKids, Bool.and_eq_true] at h
    rcases List.mem_cons.1 hk with rfl | hk
    · exact h.1
    · exact validKids_mem S ks h.2 k hk

theorem validDoc_kid (S : List Str) (t : Str) (a : List (Str × Str)) (ks : List Node)
    (h : validDoc S (.elem t a ks) = true) (k : Node) (hk : k ∈ ks) : ∃ S', validDoc S' k = true := by
  simp only [validDoc, Bool.and_eq_true] at h
  exact ⟨_, validKids_mem _ ks h.1.2 k hk⟩

theorem validDoc_tag (S : List Str) (t : Str) (a : List (Str × Str)) (ks : List Node)
    (h : validDoc S (.elem t a ks) = true) : isXmlTag t = true := by
  simp only [validDoc, nameValid, Bool.and_eq_true] at h
  exact h.1.1.1.2.1

/-- the root name of a document that passed `validate_xml_document` is a valid tag -/
theorem root_valid (f : Fields) (rk rest bk : List Node) (h : validDoc [] (assemble f none rk rest bk) = true) :
    isXmlTag f.name = true := by
  unfold assemble pyNode at h
  obtain ⟨S1, h1⟩ := validDoc_kid _ _ _ _ h _ (List.mem_cons_self ..)
  obtain ⟨S2, h2⟩ := validDoc_kid _ _ _ _ h1 _ (List.mem_cons_of_mem _ (List.mem_cons_self ..))
  obtain ⟨S3, h3⟩ := validDoc_kid _ _ _ _ h2 (pyNode "instance".toList [] [.elem f.name (rootAttrs f) rk])
    (by simp [modelKids])
  unfold pyNode at h3
  obtain ⟨S4, h4⟩ := validDoc_kid _ _ _ _ h3 _ (List.mem_cons_self ..)
  exact validDoc_tag _ _ _ _ h4

/-! ## 6. `GoodNames` discharged for every converted workbook -/

/-- **the hypothesis of `convert_c03_partial` / `convert_c03_exprs_partial` holds**: in a successful conversion
    every element path (root, rows' own and generated elements, meta block) consists of non-empty, `/`-free names. -/
theorem trace_goodNames {wb : Workbook} {doc : Node} {f : Fields} {lists : List (Str × List Choices.Choice)}
    {rows : List Cells} {drows : List ((Nat × RowK) × Pay)} {o : FormOut} {ditems : List DItem}
    (T : Trace wb doc f lists rows drows o ditems) :
    ∀ t ∈ elsOf f.name (dWithMeta f.name rows ditems), Refs.GoodNames t.path := by
  have hroot : GoodName f.name := goodName_of_isXmlTag _ (by have := T.hvalid; rw [T.hdoc] at this; exact root_valid _ _ _ _ this)
  exact elsOf_good _ _ hroot
    (dWithMeta_good _ _ _ (dparse_good drows ditems (decorateAll_good _ _ _ _ T.hdec) T.hpar))

#print axioms trace_goodNames

mutual
theorem bindElems_good (pc : Refs.Chain) (hp : Refs.GoodNames pc.path) : (e : DItem) → dGood e →
    ∀ cq ∈ bindElems pc e, Refs.GoodNames cq.1.path
  | .q d p, hd, cq, hc => by
    simp only [bindElems] at hc
    split at hc
    · rcases List.mem_singleton.1 hc with rfl
      exact goodNames_snoc pc _ _ hp (dGood_q_name hd)
    · cases hc
  | .sec ct n b p ks, hd, cq, hc => by
    simp only [bindElems, List.mem_append] at hc
    rcases hc with hc | hc
    · split at hc
      · rcases List.mem_singleton.1 hc with rfl
        exact goodNames_snoc pc _ _ hp (dGood_sec_name hd).1
      · cases hc
    · exact bindElemsL_good _ (goodNames_snoc pc _ _ hp (dGood_sec_name hd).1) ks (dGood_sec_name hd).2 cq hc
theorem bindElemsL_good (pc : Refs.Chain) (hp : Refs.GoodNames pc.path) : (es : List DItem) → dGoodL es →
    ∀ cq ∈ bindElemsL pc es, Refs.GoodNames cq.1.path
  | [], _, cq, hc => by simp [bindElemsL] at hc
  | e :: es, hd, cq, hc => by
    simp only [bindElemsL, List.mem_append] at hc
    rcases hc with hc | hc
    · exact bindElems_good pc hp e (dGoodL_head hd) cq hc
    · exact bindElemsL_good pc hp es (dGoodL_tail hd) cq hc
end

/-- the chain `ctxOf` finds is one of the list's, or empty -/
theorem ctxOf_good (els : List Refs.Chain) (hv : ∀ t ∈ els, Refs.GoodNames t.path) (path : List Str) :
    Refs.GoodNames (ctxOf els path).path := by
  unfold ctxOf
  cases hf : els.find? (fun c => c.path == path) with
  | none => intro s hs; simp [Refs.Chain.path] at hs
  | some c => exact hv c (List.mem_of_find?_eq_some hf)

/-- **C03 for the whole conversion, binds** (full: `convert_c03_partial` with its `GoodNames` hypotheses discharged).
    In a successful conversion every element path consists of non-empty `/`-free names, and every bind of every
    element (generated `_count` / `_other` / `instanceID` included) carries its dict entries with all references
    resolved by `Refs.refFor`; each reference, evaluated from the element's node, reaches the element it names. -/
theorem convert_c03 (wb : Workbook) (doc : Node) (h : convertDoc wb = .ok doc) :
    ∃ (els : List Refs.Chain) (root : Str) (dall : List DItem), els = elsOf root dall ∧
      (∀ t ∈ els, Refs.GoodNames t.path) ∧
      ∀ cq ∈ bindElemsL [(root, .group)] dall,
        ∃ a b, bindAttrs els cq.1 cq.2 = some a ∧ bindDict cq.2 = some b ∧
          ∀ kv ∈ b, ∃ s s', Binds.convVal cq.1.xpath kv.1 kv.2 = some s ∧
            Refs.insertXpaths els (some cq.1) {} s = some s' ∧ (kv.1, s') ∈ a ∧ HolesResolve els cq.1 s := by
  obtain ⟨f, lists, rows, drows, o, ditems, T⟩ := convertDoc_trace wb doc h
  have hv := trace_goodNames T
  have hroot : GoodName f.name :=
    goodName_of_isXmlTag _ (by have := T.hvalid; rw [T.hdoc] at this; exact root_valid _ _ _ _ this)
  have hd : dGoodL (dWithMeta f.name rows ditems) :=
    dWithMeta_good _ _ _ (dparse_good drows ditems (decorateAll_good _ _ _ _ T.hdec) T.hpar)
  refine ⟨_, f.name, dWithMeta f.name rows ditems, rfl, hv, ?_⟩
  intro cq hcq
  have hc : Refs.GoodNames cq.1.path :=
    bindElemsL_good [(f.name, .group)] (goodNames_snoc [] f.name .group (by intro s hs; cases hs) hroot) _ hd cq hcq
  obtain ⟨a, ha⟩ := Option.isSome_iff_exists.mp (bindsOkL_elems _ _ _ T.hbinds cq hcq)
  obtain ⟨b, hb, hall⟩ := bind_holes_resolve _ hv cq.1 hc cq.2 a ha
  exact ⟨a, b, ha, hb, hall⟩

#print axioms convert_c03

/-- **C03 for dynamic defaults and repeat counts** (full: `convert_c03_exprs_partial` with its `GoodNames` hypotheses
    discharged).  Every dynamic default (the `value` of its `setvalue`) and every control attribute of a repeat
    (`jr:count`) was substituted by `Refs.refFor` from the element's own node, and every `${name}` in it, evaluated
    from that node, reaches the element it names. -/
theorem convert_c03_exprs (wb : Workbook) (doc : Node) (h : convertDoc wb = .ok doc) :
    ∃ (els : List Refs.Chain) (root : Str) (ditems : List DItem),
      (∀ t ∈ els, Refs.GoodNames t.path) ∧ ∀ pe ∈ exprCellsL [root] ditems,
        (∃ out, Refs.insertXpaths els (some (ctxOf els pe.1)) {} pe.2 = some out) ∧
          HolesResolve els (ctxOf els pe.1) pe.2 := by
  obtain ⟨f, lists, rows, drows, o, ditems, T⟩ := convertDoc_trace wb doc h
  have hv := trace_goodNames T
  refine ⟨elsOf f.name (dWithMeta f.name rows ditems), f.name, ditems, hv, ?_⟩
  intro pe hpe
  obtain ⟨out, hout⟩ := textsErrL_exprs _ _ _ T.htexts pe hpe
  exact ⟨⟨out, hout⟩, insertXpaths_holes _ hv _ (ctxOf_good _ hv _) _ out hout⟩

#print axioms convert_c03_exprs

/-! ## 7. Non-vacuity -/

example : GoodName "kids".toList := goodName_of_isXmlTag _ (by decide +kernel)
example : GoodName ("generated_note_name_".toList ++ natToStr 17) :=
  goodName_append _ _ ⟨by decide, by decide⟩ (natToStr_noSlash 17)
example : ¬ GoodName "a/b".toList := fun h => h.1 (by decide)
example : ¬ GoodName [] := fun h => h.2 rfl
example : kGood (.q { name := "q".toList, bind := true, control := true, node := true, tag := "input".toList } none) :=
  classify_good [] 2 [("type".toList, "text".toList), ("name".toList, "q".toList)] _ (by rfl)
example : isXmlTag "data".toList = true :=
  root_valid { name := "data".toList, title := [], idString := [], version := [] } [] [] [] (by decide +kernel)
-- the theorems applied to the workbook whose text `ex_convert` pins (first case of every harness run)
example : ∃ doc, convertDoc exWb = .ok doc ∧ ∃ els root dall, els = elsOf root dall ∧
    (∀ t ∈ els, Refs.GoodNames t.path) ∧ ∀ cq ∈ bindElemsL [(root, .group)] dall,
      ∃ a b, bindAttrs els cq.1 cq.2 = some a ∧ bindDict cq.2 = some b ∧
        ∀ kv ∈ b, ∃ s s', Binds.convVal cq.1.xpath kv.1 kv.2 = some s ∧
          Refs.insertXpaths els (some cq.1) {} s = some s' ∧ (kv.1, s') ∈ a ∧ HolesResolve els cq.1 s := by
  obtain ⟨doc, hd, -⟩ := convert_ok exWb false exText ex_convert
  exact ⟨doc, hd, convert_c03 exWb doc hd⟩
example : ∃ doc, convertDoc exWb = .ok doc ∧ ∃ els root ditems,
    (∀ t ∈ els, Refs.GoodNames t.path) ∧ ∀ pe ∈ exprCellsL [root] ditems,
      (∃ out, Refs.insertXpaths els (some (ctxOf els pe.1)) {} pe.2 = some out) ∧
        HolesResolve els (ctxOf els pe.1) pe.2 := by
  obtain ⟨doc, hd, -⟩ := convert_ok exWb false exText ex_convert
  exact ⟨doc, hd, convert_c03_exprs exWb doc hd⟩

end Pyxv.ConvertP
