import Pyxv.Proofs.Convert
import Pyxv.Proofs.C01Names
/-!
# `GoodNames` of the end-to-end composition, from the name cells

`convert_c03_partial` / `convert_c03_exprs_partial` (Proofs/Convert.lean) carry `Refs.GoodNames` — every name on an
element's path is non-empty and has no `/` — as a hypothesis on the element list.  Here it is discharged for every
workbook the model converts: a name on a path is either a `name` cell the row classifier accepted
(`Rows.nameOrErr`, hence `is_xml_tag`: `C01.nameOrErr_valid`), or generated from one (`_count`, `_other`:
`C01.generated_names_valid`), or `generated_note_name_<row>`, or one of the meta block's literals, or the root name,
which `validate_xml_document` (`Asm.validDoc`, last step of `convertDoc`) checked as the tag of the primary
instance's child.
-/
namespace Pyxv.ConvertP
open Pyxv Pyxv.Form Pyxv.Rows Pyxv.Xml Pyxv.Asm Pyxv.Convert Pyxv.C01

/-- what `Refs.GoodNames` asks of one name -/
def GoodName (s : Str) : Prop := '/' ∉ s ∧ s ≠ []

/-! ## 1. `is_xml_tag` names are good -/

theorem ncTail_split : ∀ (f : Nat) (s : Str), ∃ pre, s = pre ++ ncTail f s ∧ '/' ∉ pre
  | 0, s => ⟨[], by simp [ncTail]⟩
  | _ + 1, [] => ⟨[], by simp [ncTail]⟩
  | f + 1, c :: cs => by
    rw [ncTail]
    split
    · rename_i hc
      obtain ⟨pre, hs, hp⟩ := ncTail_split f cs
      refine ⟨c :: pre, by rw [List.cons_append, ← hs], ?_⟩
      intro hm
      rcases List.mem_cons.1 hm with h | h
      · subst h; revert hc; decide
      · exact hp h
    · split
      · rename_i hst
        obtain ⟨pre, hs, hp⟩ := ncTail_split f (cs.drop 3)
        have hd := startsWith_decomp (c :: cs) typoLit hst
        have hlen : typoLit.length = 4 := by decide
        rw [hlen] at hd
        have hd' : (c :: cs).drop 4 = cs.drop 3 := by simp
        rw [hd'] at hd
        refine ⟨typoLit ++ pre, ?_, ?_⟩
        · rw [List.append_assoc, ← hs]; exact hd
        · intro hm
          rcases List.mem_append.1 hm with h | h
          · revert h; decide
          · exact hp h
      · exact ⟨[], by simp⟩

theorem ncName_split (s rest : Str) (h : ncName s = some rest) : ∃ pre, s = pre ++ rest ∧ '/' ∉ pre ∧ pre ≠ [] := by
  cases s with
  | nil => simp [ncName] at h
  | cons c cs =>
    simp only [ncName] at h
    split at h
    · rename_i hc
      injection h with h
      obtain ⟨pre, hs, hp⟩ := ncTail_split cs.length cs
      refine ⟨c :: pre, by rw [List.cons_append, ← h, ← hs], ?_, by simp⟩
      intro hm
      rcases List.mem_cons.1 hm with h' | h'
      · subst h'; revert hc; decide
      · exact hp h'
    · split at h
      · rename_i hst
        injection h with h
        obtain ⟨pre, hs, hp⟩ := ncTail_split cs.length (cs.drop 3)
        have hd := startsWith_decomp (c :: cs) typoLit hst
        have hlen : typoLit.length = 4 := by decide
        rw [hlen] at hd
        have hd' : (c :: cs).drop 4 = cs.drop 3 := by simp
        rw [hd'] at hd
        refine ⟨typoLit ++ pre, ?_, ?_, ?_⟩
        · rw [List.append_assoc, ← h, ← hs]; exact hd
        · intro hm
          rcases List.mem_append.1 hm with h' | h'
          · revert h'; decide
          · exact hp h'
        · intro he
          have := congrArg List.length he
          simp [hlen] at this
      · cases h

/-- **a name `is_xml_tag` accepts is non-empty and has no `/`** -/
theorem goodName_of_isXmlTag (s : Str) (h : isXmlTag s = true) : GoodName s := by
  unfold isXmlTag at h
  split at h
  · cases h
  · rename_i hn
    obtain ⟨pre, hs, hp, hne⟩ := ncName_split s [] hn
    rw [List.append_nil] at hs
    subst hs
    exact ⟨hp, hne⟩
  · rename_i r hn
    obtain ⟨pre, hs, hp, hne⟩ := ncName_split s _ hn
    split at h
    · rename_i hr
      obtain ⟨pre2, hs2, hp2, _⟩ := ncName_split r [] hr
      rw [List.append_nil] at hs2
      subst hs2
      subst hs
      refine ⟨?_, by simp [hne]⟩
      intro hm
      rcases List.mem_append.1 hm with h' | h'
      · exact hp h'
      · rcases List.mem_cons.1 h' with h'' | h''
        · cases h''
        · exact hp2 h''
    · cases h
  · cases h

theorem goodName_append (s t : Str) (hs : GoodName s) (ht : '/' ∉ t) : GoodName (s ++ t) := by
  refine ⟨?_, by simp [hs.2]⟩
  intro hm
  rcases List.mem_append.1 hm with h | h
  · exact hs.1 h
  · exact ht h

/-- decimal digits have no `/` -/
theorem natToStr_noSlash (n : Nat) : '/' ∉ natToStr n := by
  intro h
  have h' : '/' ∈ Nat.toDigits 10 n := by
    simpa [natToStr, Nat.repr] using h
  have := Nat.isDigit_of_mem_toDigits (by decide) (by decide) h'
  revert this; decide

/-! ## 2. the names a classified row carries are good -/

def optGood : Option QData → Prop
  | some d => GoodName d.name
  | none => True

/-- the names a row contributes to the tree: its own and the generated companion's -/
def kGood : RowK → Prop
  | .q d other => GoodName d.name ∧ optGood other
  | .begin_ _ name _ helper => GoodName name ∧ optGood helper
  | _ => True

theorem nameOrErr_good (r : Cells) (t : Str) (n : Nat) (nm : Str) (h : nameOrErr r t n = .ok nm) : GoodName nm := by
  cases hg : Rows.get r "name" with
  | some x => exact goodName_of_isXmlTag nm (nameOrErr_valid r t n nm (by rw [hg]; rfl) h)
  | none =>
    unfold nameOrErr at h
    rw [hg] at h
    simp only [] at h
    split at h
    · injection h with h; subst h
      exact goodName_append _ _ ⟨by decide, by decide⟩ (natToStr_noSlash n)
    · cases h

theorem qdata_name (name t : Str) (r : Cells) (d : QData) (h : qdata name t r = some d) : d.name = name := by
  unfold qdata at h
  split at h
  · injection h with h; subst h; rfl
  · split at h
    · cases h
    · injection h with h; subst h; rfl

theorem countHelper_good (name : Str) (r : Cells) (hn : GoodName name) : optGood (countHelper name r) := by
  unfold countHelper
  split
  · split
    · exact True.intro
    · exact goodName_append _ _ hn (by decide)
  · exact True.intro

theorem classifyBegin_good (r : Cells) (name c : Str) (k : RowK) (hn : GoodName name)
    (h : classifyBegin r name c = .row k) : kGood k := by
  unfold classifyBegin at h
  repeat' split at h
  all_goals first
    | (cases h; done)
    | (injection h with h; subst h; exact ⟨hn, countHelper_good name r hn⟩)

theorem classifySelect_good (lists : List Str) (r : Cells) (name sel ln : Str) (other : Bool) (k : RowK)
    (hn : GoodName name) (h : classifySelect lists r name sel ln other = .row k) : kGood k := by
  unfold classifySelect at h
  simp only [] at h
  repeat' split at h
  all_goals first
    | (cases h; done)
    | (injection h with h; subst h; first
        | exact True.intro
        | exact ⟨hn, True.intro⟩
        | exact ⟨hn, goodName_append _ _ hn (by decide)⟩)

theorem classifyNamed_good (lists : List Str) (r : Cells) (t name : Str) (k : RowK) (hn : GoodName name)
    (h : classifyNamed lists r t name = .row k) : kGood k := by
  unfold classifyNamed at h
  repeat' split at h
  all_goals first
    | (cases h; done)
    | exact classifyBegin_good _ _ _ _ hn h
    | exact classifySelect_good _ _ _ _ _ _ _ hn h
    | (injection h with h; subst h; first
        | exact ⟨hn, True.intro⟩
        | exact ⟨by rw [qdata_name _ _ _ _ (by assumption)]; exact hn, True.intro⟩)

theorem classifyTyped_good (lists : List Str) (n : Nat) (r : Cells) (t : Str) (k : RowK)
    (h : classifyTyped lists n r t = .row k) : kGood k := by
  unfold classifyTyped at h
  repeat' split at h
  all_goals first
    | (cases h; done)
    | exact classifyNamed_good _ _ _ _ _ (nameOrErr_good _ _ _ _ (by assumption)) h
    | (injection h with h; subst h; exact True.intro)

/-- **every name a classified row carries is good** (`nameOrErr` is the only source of names) -/
theorem classify_good (lists : List Str) (n : Nat) (r : Cells) (k : RowK) (h : classify lists n r = .row k) :
    kGood k := by
  unfold classify at h
  simp only [] at h
  repeat' split at h
  all_goals first
    | (cases h; done)
    | exact classifyTyped_good _ _ _ _ _ h
    | (injection h with h; subst h; exact True.intro)

#print axioms classify_good

end Pyxv.ConvertP
