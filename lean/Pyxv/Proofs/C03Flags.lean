import Pyxv.Proofs.C03Text
import Pyxv.Proofs.C03Tree
/-!
# C03: the occurrence flags computed from the cell text, and `insert_xpaths` from the text alone
-/
namespace Pyxv.Refs
open Pyxv

/-! ### bracket depth (the predicate test since 63a5727) -/

theorem bracketDepth_append (d : Nat) (x y : Str) :
    bracketDepth d (x ++ y) = bracketDepth (bracketDepth d x) y := by
  induction x generalizing d with
  | nil => rfl
  | cons c r ih =>
    simp only [List.cons_append, bracketDepth]
    split
    · exact ih _
    · split <;> exact ih _

/-- text in which no `]` closes a bracket that was open before it (nested `[...]` pairs are fine) -/
def NoUnderflow (b : Str) : Prop := ∀ d, d + 1 ≤ bracketDepth (d + 1) b

/-- **in_predicate_after_nested** (the guard of finding F44 as a full statement): in a text that has an
`instance(` path, an occurrence that follows an opening `[` and any text whose brackets are nested pairs — however
many — is inside the predicate as soon as a `]` follows it. -/
theorem in_predicate_after_nested (a b occ rest : Str) (hinst : reInstanceSearch (a ++ '[' :: b ++ occ ++ rest) = true)
    (hb : NoUnderflow b) (hrest : ']' ∈ rest) :
    inPredicateAt (a ++ '[' :: b ++ occ ++ rest) (a ++ '[' :: b).length ((a ++ '[' :: b).length + occ.length) = true := by
  unfold inPredicateAt
  have htake : (a ++ '[' :: b ++ occ ++ rest).take (a ++ '[' :: b).length = a ++ '[' :: b := by
    rw [List.append_assoc, List.take_left']
    rfl
  have hdrop : (a ++ '[' :: b ++ occ ++ rest).drop ((a ++ '[' :: b).length + occ.length) = rest := by
    have : (a ++ '[' :: b).length + occ.length = (a ++ '[' :: b ++ occ).length := by
      simp only [List.length_append, List.length_cons]
    rw [this, List.drop_left']
    rfl
  have hdepth : 0 < bracketDepth 0 (a ++ '[' :: b) := by
    rw [bracketDepth_append]
    have h1 : bracketDepth (bracketDepth 0 a) ('[' :: b) = bracketDepth (bracketDepth 0 a + 1) b := by
      simp [bracketDepth]
    rw [h1]
    have := hb (bracketDepth 0 a)
    omega
  rw [hinst, htake, hdrop]
  simp [hdepth, hrest]

/-- outside every bracket nothing is a predicate -/
theorem not_in_predicate_at_depth_zero (whole : Str) (start end_ : Nat)
    (h : bracketDepth 0 (whole.take start) = 0) : inPredicateAt whole start end_ = false := by
  simp [inPredicateAt, h]

/-! ### indexed-repeat: texts without the call are never forced absolute -/

theorem indexedRepeatMatches_nil (fuel pos : Nat) (s : Str) (h : isInfix indexedTag s = false) :
    indexedRepeatMatches fuel pos s = [] := by
  induction fuel generalizing pos s with
  | zero => rfl
  | succ fuel ih =>
    cases s with
    | nil => rfl
    | cons c r =>
      have h' : startsWith (c :: r) indexedTag = false ∧ isInfix indexedTag r = false := by
        simpa [isInfix] using h
      rw [indexedRepeatMatches]
      simp only [h'.1, Bool.false_eq_true, ↓reduceIte]
      exact ih _ _ h'.2

/-- **no_indexed_repeat_relative**: in a cell without `indexed-repeat(` no occurrence is absolute-by-design
(`is_indexed_repeat` is false, `_is_return_relative_path` returns True for every ordinary reference). -/
theorem no_indexed_repeat_relative (whole : Str) (start end_ : Nat) (name : Str)
    (h : isInfix indexedTag whole = false) : indexedArgAt whole start end_ name = some false := by
  unfold indexedArgAt
  rw [indexedRepeatMatches_nil _ _ _ h]
  rfl

/-- since 9564302 (`re.DOTALL` on RE_FUNCTION_ARGS) the indexed-repeat verdict exists for every cell text: the model
never answers `unsupported` for it -/
theorem indexedArgAt_isSome (whole : Str) (start end_ : Nat) (name : Str) :
    (indexedArgAt whole start end_ name).isSome = true := by
  unfold indexedArgAt
  split
  · rfl
  · simp only
    split <;> rfl

/-- consequently every occurrence gets a replacement verdict (`ok`, `unknown` or `ambiguous`) -/
theorem replAt_isSome (els : List Chain) (ctx : Option Chain) (uc rp : Bool) (whole atStart rest : Str) (ls : Bool)
    (name : Str) : (replAt els ctx uc rp whole atStart rest ls name).isSome = true := by
  unfold replAt
  have h := indexedArgAt_isSome whole (whole.length - atStart.length) (whole.length - rest.length) name
  cases hia : indexedArgAt whole (whole.length - atStart.length) (whole.length - rest.length) name with
  | none => rw [hia] at h; cases h
  | some ia => simp only [hia]; rfl

/-! ### `insert_xpaths` from the cell text: no `${` survives -/

theorem dollar_notin_joinWith (sep : Str) (p : List Str) (hs : '$' ∉ sep) (hp : ∀ s ∈ p, '$' ∉ s) :
    '$' ∉ joinWith sep p := by
  induction p with
  | nil => simp [joinWith]
  | cons a r ih =>
    cases r with
    | nil => simpa [joinWith] using hp a (by simp)
    | cons b r' =>
      have := ih (fun s hs' => hp s (by simp [hs']))
      simp only [joinWith, List.mem_append, not_or]
      exact ⟨⟨hp a (by simp), hs⟩, this⟩

theorem dollar_notin_pathStr (p : List Str) (hp : ∀ s ∈ p, '$' ∉ s) : '$' ∉ pathStr p := by
  have hsep : '$' ∉ (['/'] : Str) := by
    intro h; rcases List.mem_cons.1 h with h | h
    · exact absurd h (by decide)
    · cases h
  have := dollar_notin_joinWith ['/'] p hsep hp
  intro h
  rw [pathStr] at h
  rcases List.mem_cons.1 h with h | h
  · exact absurd h (by decide)
  · exact this h

theorem dollar_notin_render (e : Emitted)
    (h : match e with
      | .abs p => ∀ s ∈ p, '$' ∉ s
      | .lastSaved p => ∀ s ∈ p, '$' ∉ s
      | .rel _ d => ∀ s ∈ d, '$' ∉ s) : '$' ∉ e.render := by
  cases e with
  | abs p => exact dollar_notin_pathStr p h
  | lastSaved p =>
    show '$' ∉ lsTag ++ pathStr p
    have hl : '$' ∉ lsTag := by decide +kernel
    intro hm
    rcases List.mem_append.1 hm with hm | hm
    · exact hl hm
    · exact dollar_notin_pathStr p h hm
  | rel k d =>
    show '$' ∉ joinWith ['/'] (List.replicate k "..".toList) ++ pathStr d
    rw [List.mem_append, not_or]
    have hsep : '$' ∉ (['/'] : Str) := by
      intro h; rcases List.mem_cons.1 h with h | h
      · exact absurd h (by decide)
      · cases h
    refine ⟨dollar_notin_joinWith _ _ hsep ?_, dollar_notin_pathStr d h⟩
    intro s hs
    rw [List.eq_of_mem_replicate hs]; decide +kernel

/-- the text emitted for a reference contains no `$` when no element name does -/
theorem dollar_notin_text (els : List Chain) (hv : ∀ t ∈ els, GoodNames t.path) (hd : ∀ t ∈ els, ∀ s ∈ t.path, '$' ∉ s)
    (ctx : Option Chain) (hc : ∀ c, ctx = some c → GoodNames c.path) (name : Str) (fl : Flags) (v : Str)
    (h : (refFor els ctx name fl).text = some v) : '$' ∉ v := by
  cases hr : refFor els ctx name fl with
  | unknown n => rw [hr] at h; simp [Out.text] at h
  | ambiguous n => rw [hr] at h; simp [Out.text] at h
  | ok cur e =>
    rw [hr] at h
    simp only [Out.text, Option.some.injEq] at h
    subst h
    have hren : '$' ∉ e.render := by
      apply dollar_notin_render
      cases ctx with
      | none =>
        obtain ⟨t, ht, _, he⟩ := ref_no_context_absolute els name fl cur e hr
        have htm : t ∈ els := (List.mem_filter.1 (by rw [ht]; simp : t ∈ els.filter (named name))).1
        subst he
        cases fl.lastSaved <;> exact hd t htm
      | some c =>
        obtain ⟨t, ht, hres⟩ := ref_resolves els hv c (hc c rfl) name fl cur e hr
        have htm : t ∈ els := (List.mem_filter.1 (by rw [ht]; simp : t ∈ els.filter (named name))).1
        cases e with
        | abs p => simp only [resolve, Option.some.injEq] at hres; subst hres; exact hd t htm
        | lastSaved p => simp only [resolve, Option.some.injEq] at hres; subst hres; exact hd t htm
        | rel k d =>
          simp only [resolve] at hres
          split at hres
          · simp only [Option.some.injEq] at hres
            intro s hs
            exact hd t htm s (by rw [← hres]; exact List.mem_append_right _ hs)
          · cases hres
    have hcur : '$' ∉ (if cur = true then "current()/".toList else []) := by cases cur <;> decide +kernel
    simp only [List.cons_append, List.mem_cons, List.mem_append, not_or]
    exact ⟨by decide, ⟨hcur, hren⟩, by decide, by simp⟩

/-- **insert_xpaths_no_token.**  `Survey.insert_xpaths` computed from the cell text alone (regex scan, last-saved
group, indexed-repeat verdict, predicate depth, relative/absolute path): if every `${` of the cell opens a reference and
the call succeeds, no `${` is left in the result — any tree, any context, any text. -/
theorem insert_xpaths_no_token (els : List Chain) (hv : ∀ t ∈ els, GoodNames t.path)
    (hd : ∀ t ∈ els, ∀ s ∈ t.path, '$' ∉ s) (ctx : Option Chain) (hc : ∀ c, ctx = some c → GoodNames c.path)
    (uc rp : Bool) (whole out : Str) (hclosed : refsClosed (whole.length + 1) whole = true)
    (h : insertXpathsText els ctx uc rp whole = some out) : isInfix tok out = false := by
  refine (no_ref_survives _ ?_ _ whole out hclosed h).1
  intro a b ls n v hv'
  simp only [replAt] at hv'
  split at hv'
  · next o ho =>
    split at ho
    · cases ho
    · simp only [Option.some.injEq] at ho
      subst ho
      refine ⟨dollar_notin_text els hv hd ctx hc n _ v hv', ?_⟩
      cases hr : refFor els ctx n _ with
      | ok cur e => rw [hr] at hv'; simp only [Out.text, Option.some.injEq] at hv'; subst hv'; rfl
      | unknown m => rw [hr] at hv'; simp [Out.text] at hv'
      | ambiguous m => rw [hr] at hv'; simp [Out.text] at hv'
  · cases hv'

/-- **relative_when_enclosed_text.**  From the cell text alone: in a cell without `indexed-repeat(`, a plain
`${name}` whose target's innermost enclosing repeat also encloses the referrer is replaced by a relative path, anchored
with `current()` exactly when the call site asks for it or the occurrence sits in an instance predicate — for every
well-formed tree (only what pyxform validates is assumed). -/
theorem relative_when_enclosed_text (tree : El) (hwf : tree.WF) (hroot : tree.kind ≠ .rep)
    (c t : Chain) (hc : c ∈ tree.chains []) (name : Str)
    (hlook : (tree.chains []).filter (named name) = [t])
    (r : Nat) (hrt : r < t.length) (hrc : r < c.length)
    (hrep : Chain.isRep (t.take r) = true)
    (hinner : ∀ j, r < j → j < t.length → Chain.isRep (t.take j) = false)
    (henc : c.take r = t.take r)
    (uc rp : Bool) (whole atStart rest : Str) (hir : isInfix indexedTag whole = false) :
    ∃ k d, replAt (tree.chains []) (some c) uc rp whole atStart rest false name =
      some (.ok (uc || inPredicateAt whole (whole.length - atStart.length) (whole.length - rest.length)) (.rel k d)) := by
  unfold replAt
  simp only [no_indexed_repeat_relative whole _ _ name hir]
  obtain ⟨k, d, h⟩ := relative_when_enclosed_tree tree hwf hroot c t hc name
    { lastSaved := false, indexedArg := false,
      inPredicate := inPredicateAt whole (whole.length - atStart.length) (whole.length - rest.length),
      useCurrent := uc, referenceParent := rp } hlook r hrt hrc hrep hinner henc rfl rfl
  exact ⟨k, d, by rw [h]⟩

/-! ### non-vacuity and the shapes of the repaired findings -/

set_option maxRecDepth 8000

/-- F44's shape: the second reference follows a nested `[...]` -/
example : inPredicateAt "instance('l')/root/item[name = instance('l')/root/item[name = ${a}]/label and label = ${b}]/label".toList
    85 89 = true := by decide
example : NoUnderflow "name = instance('l')/root/item[name = ${a}]/label and label = ".toList := by
  intro d; simp [bracketDepth]
example : inPredicateAt "${a} + instance('l')/root/item[name = 1]/label".toList 0 4 = false := by decide
/-- F40's shape: a reference after two indexed-repeat( calls is an ordinary one -/
example : indexedArgAt "indexed-repeat(${a}, ${R}, 1) + indexed-repeat(${a}, ${R}, 2) + ${b}".toList 64 68 "b".toList =
    some false := by decide
example : indexedArgAt "indexed-repeat(${a}, ${R}, ${b})".toList 15 19 "a".toList = some true := by decide
/-- arguments spread over several lines (the shape of C06's F46) -/
example : indexedArgAt "indexed-repeat(${a},\n ${R},\n ${b})".toList 29 33 "b".toList = some false := by decide
example : indexedArgAt "indexed-repeat(${a}, ${R}, ${b})".toList 27 31 "b".toList = some false := by decide
example : insertXpathsText exEls (some exC) false false
    "instance('l')/root/item[name = ${t}]/label + indexed-repeat(${t}, ${R}, ${c}) + ${last-saved#t2}".toList =
    some ("instance('l')/root/item[name =  current()/../../../abcde_r2/t ]/label + " ++
      "indexed-repeat( /data/R/abcde_r2/t ,  /data/R ,  ../c ) +  instance('__last-saved')/data/t2 ").toList := by decide
example : refsClosed 200 "instance('l')/root/item[name = ${t}]/label + ${t2}".toList = true := by decide

end Pyxv.Refs
