import Pyxv.Proofs.C17
/-!
# C17 (row-level part) — catalogue mutations on whole sheets

`Pyxv.Proofs.C17` is about classified rows (`RowK`).  Here the row-level checks of
`xls2json.workbook_to_json` as mirrored by `Rows.classify` are lifted to whole sheets of *cells*:
for every sheet `pre ++ r :: post`, whatever its size, in which the rows before `r` are accepted by
the row loop and `r` carries the catalogued defect, the pipeline `Rows.formOut` answers the located
error `[row : 2 + pre.length]` (header = row 1, first data row = row 2).

The hypothesis on `post` (`classifyAll … post = .ok _`) only says that the rest of the sheet is inside
the modelled fragment (the model answers `unsupported` otherwise); it does not ask `post` to be valid —
the row loop stops at the first offending row.

`formOut` has no outcome for an internal exception: every partial operation of the modelled code is
an explicit `Option`/`Except` in the model.  What that does and does not establish is stated at
`formOut_outcomes` below.
-/
namespace Pyxv.C17
open Pyxv Pyxv.Form Pyxv.Rows

/-! ### sheets -/

theorem classifyAll_split (lists : List Str) (pre : List Cells) (r : Cells) (post : List Cells) :
    ∀ (n : Nat) (ks ks' : List (Nat × RowK)) (k : RowK),
      classifyAll lists n pre = .ok ks →
      classify lists (n + pre.length) r = .row k →
      classifyAll lists (n + pre.length + 1) post = .ok ks' →
      classifyAll lists n (pre ++ r :: post) = .ok (ks ++ (n + pre.length, k) :: ks') := by
  induction pre with
  | nil =>
    intro n ks ks' k h1 h2 h3
    simp only [classifyAll] at h1
    injection h1 with h1; subst h1
    simp only [List.length_nil, Nat.add_zero] at h2 h3
    simp [classifyAll, h2, h3]
  | cons p ps ih =>
    intro n ks ks' k h1 h2 h3
    have hlen : n + (p :: ps).length = (n + 1) + ps.length := by simp only [List.length_cons]; omega
    rw [hlen] at h2 h3
    simp only [classifyAll] at h1
    cases hp : classify lists n p with
    | unsupported w => rw [hp] at h1; simp at h1
    | row k0 =>
      rw [hp] at h1
      cases hps : classifyAll lists (n + 1) ps with
      | error w => rw [hps] at h1; simp at h1
      | ok ks0 =>
        rw [hps] at h1
        simp only [] at h1
        injection h1 with h1; subst h1
        have := ih (n + 1) ks0 ks' k hps h2 h3
        simp only [List.cons_append, classifyAll, hp, this, hlen]

/-- **Located rejection of a row-level error.**  If the rows before `r` are accepted by the row loop
    and `r` classifies as the row-level error `e`, the whole sheet is rejected with `e` citing exactly
    the row of `r` — for every prefix, suffix and settings sheet. -/
theorem row_error_rejected (root : Str) (lists : List Str) (settings : Cells)
    (pre : List Cells) (r : Cells) (post : List Cells)
    (ks ks' : List (Nat × RowK)) (st : St) (e : RowErr)
    (h1 : classifyAll lists 2 pre = .ok ks)
    (hrun : run ([], []) ks = .ok st)
    (h2 : classify lists (2 + pre.length) r = .row (.bad e))
    (h3 : classifyAll lists (2 + pre.length + 1) post = .ok ks') :
    formOut root lists (pre ++ r :: post) settings = .error (.err (.row (2 + pre.length) e)) := by
  unfold formOut
  rw [classifyAll_split lists pre r post 2 ks ks' _ h1 h2 h3]
  simp only []
  rw [bad_row_rejected ks ks' st _ e hrun]

/-- the same for a stray / mismatched `end` row: rejected citing its own row when the rows before it
    form a balanced sheet (stray) -/
theorem stray_end_row_rejected (root : Str) (lists : List Str) (settings : Cells)
    (pre : List Cells) (r : Cells) (post : List Cells)
    (ks ks' : List (Nat × RowK)) (ts : List Item) (ct : Ctl)
    (h1 : classifyAll lists 2 pre = .ok ks)
    (hbal : parseRows ks = .ok ts)
    (h2 : classify lists (2 + pre.length) r = .row (.end_ ct))
    (h3 : classifyAll lists (2 + pre.length + 1) post = .ok ks') :
    formOut root lists (pre ++ r :: post) settings = .error (.err (.unmatchedEnd (2 + pre.length))) := by
  unfold formOut
  rw [classifyAll_split lists pre r post 2 ks ks' _ h1 h2 h3]
  simp only []
  rw [stray_end_rejected ks ks' ts _ ct hbal]

/-! ### cells -/

theorem filter_of_lookup_none (k : Str) : ∀ (r : Cells), lookup k r = none →
    r.filter (fun kv => kv.1 ≠ k) = r := by
  intro r
  induction r with
  | nil => intro _; rfl
  | cons kv rest ih =>
    intro h
    obtain ⟨k', v⟩ := kv
    simp only [lookup] at h
    split at h
    · simp at h
    · rename_i hne
      have hne' : k' ≠ k := fun hh => hne hh.symm
      rw [List.filter_cons_of_pos (by simp [hne']), ih h]

/-- removing a column from a row -/
def dropKey (k : String) (r : Cells) : Cells := r.filter fun kv => kv.1 ≠ k.toList

theorem lookup_dropKey_self (k : Str) : ∀ (r : Cells), lookup k (r.filter fun kv => kv.1 ≠ k) = none := by
  intro r
  induction r with
  | nil => rfl
  | cons kv rest ih =>
    obtain ⟨k', v⟩ := kv
    by_cases h : k' = k
    · rw [List.filter_cons_of_neg (by simp [h])]; exact ih
    · have hne : ¬ k = k' := fun hh => h hh.symm
      rw [List.filter_cons_of_pos (by simp [h])]
      simp only [lookup]
      rw [if_neg hne]; exact ih

theorem lookup_dropKey_other (k k2 : Str) (hk : k2 ≠ k) : ∀ (r : Cells),
    lookup k2 (r.filter fun kv => kv.1 ≠ k) = lookup k2 r := by
  intro r
  induction r with
  | nil => rfl
  | cons kv rest ih =>
    obtain ⟨k', v⟩ := kv
    by_cases h : k' = k
    · have hne : ¬ k2 = k' := by rw [h]; exact hk
      rw [List.filter_cons_of_neg (by simp [h]), ih]
      simp only [lookup]
      rw [if_neg hne]
    · rw [List.filter_cons_of_pos (by simp [h])]
      simp only [lookup]
      rw [ih]

theorem get_dropKey_self (k : String) (r : Cells) : Rows.get (dropKey k r) k = none :=
  lookup_dropKey_self k.toList r

theorem get_dropKey_other (k k2 : String) (hk : k2.toList ≠ k.toList) (r : Cells) :
    Rows.get (dropKey k r) k2 = get r k2 :=
  lookup_dropKey_other k.toList k2.toList hk r

/-! ### row-level checks (`Rows.classify`) -/

/-- xls2json.py 578-592: a row without type that has a name or a label → "Question with no type" -/
theorem classify_noType (lists : List Str) (n : Nat) (r : Cells)
    (hd : Rows.get r "disabled" = none) (ht : Rows.get r "type" = none)
    (hn : has r "name" = true ∨ has r "label" = true ∨ hasPrefix r "label::" = true) :
    classify lists n r = .row (.bad .noType) := by
  have hf : r.filter (fun kv => kv.1 ≠ "disabled".toList) = r := filter_of_lookup_none _ r hd
  have hne : r.isEmpty = false := by
    cases r with
    | nil => simp [has, Rows.get, lookup, hasPrefix] at hn
    | cons _ _ => rfl
  unfold classify
  simp only [hf, hd, ht, hne]
  rcases hn with h | h | h <;> simp [h]

/-- a row that is not disabled and has a type cell goes to `classifyTyped` -/
theorem classify_typed (lists : List Str) (n : Nat) (r : Cells) (t : Str)
    (hd : Rows.get r "disabled" = none) (ht : Rows.get r "type" = some t) :
    classify lists n r = classifyTyped lists n r t := by
  have hf : r.filter (fun kv => kv.1 ≠ "disabled".toList) = r := filter_of_lookup_none _ r hd
  have hne : r.isEmpty = false := by
    cases r with
    | nil => simp [Rows.get, lookup] at ht
    | cons _ _ => rfl
  unfold classify
  simp only [hf, hd, ht, hne]
  simp

/-- the typed-row prelude of `classifyTyped` (audit, parameters, calculate, settings types, `end`) does
    not fire for this row -/
structure PlainTyped (r : Cells) (t : Str) : Prop where
  disabled : Rows.get r "disabled" = none
  type : Rows.get r "type" = some t
  notAudit : t ≠ "audit".toList
  noParams : has r "parameters" = false
  calcOk : (t = "calculate".toList && !has r "bind::calculate") = false
  notSetting : settingsTypes.contains t = false
  notEnd : matchControl "end" false t = none

theorem classify_plainTyped (lists : List Str) (n : Nat) (r : Cells) (t : Str) (h : PlainTyped r t) :
    classify lists n r =
      (match nameOrErr r t n with
       | .error e => .row (.bad e)
       | .ok name => classifyNamed lists r t name) := by
  rw [classify_typed lists n r t h.disabled h.type]
  unfold classifyTyped
  rw [if_neg h.notAudit]
  simp only [h.noParams, h.calcOk, h.notSetting, h.notEnd, Bool.false_eq_true, ↓reduceIte]
  cases nameOrErr r t n <;> rfl

/-- xls2json.py 797-808: no name on a row that is not a note → "Question or group with no name" -/
theorem classify_noName (lists : List Str) (n : Nat) (r : Cells) (t : Str) (h : PlainTyped r t)
    (hname : Rows.get r "name" = none) (hnote : t ≠ "note".toList) :
    classify lists n r = .row (.bad .noName) := by
  rw [classify_plainTyped lists n r t h]
  simp only [nameOrErr, hname, if_neg hnote]

/-- xls2json.py 809-816: a name that is not an XML tag → "Invalid question name" -/
theorem classify_badName (lists : List Str) (n : Nat) (r : Cells) (t nm : Str) (h : PlainTyped r t)
    (hname : Rows.get r "name" = some nm) (hbad : isXmlTag nm = false) :
    classify lists n r = .row (.bad .badName) := by
  rw [classify_plainTyped lists n r t h]
  simp only [nameOrErr, hname, hbad, Bool.false_eq_true, ↓reduceIte]

/-- xls2json.py 752-760: `calculate` without calculation or default → "Missing calculation" -/
theorem classify_missingCalculation (lists : List Str) (n : Nat) (r : Cells)
    (hd : Rows.get r "disabled" = none) (ht : Rows.get r "type" = some "calculate".toList)
    (hp : has r "parameters" = false) (hc : has r "bind::calculate" = false) (hdef : has r "default" = false) :
    classify lists n r = .row (.bad .missingCalculation) := by
  rw [classify_typed lists n r _ hd ht]
  unfold classifyTyped
  rw [if_neg (by decide : ¬ "calculate".toList = "audit".toList)]
  simp only [hp, hc, hdef, Bool.false_eq_true, ↓reduceIte, decide_true, Bool.not_false, Bool.and_self]

/-- xls2json.py 599-607: an `audit` row with a name other than `audit` -/
theorem classify_auditNamed (lists : List Str) (n : Nat) (r : Cells) (nm : Str)
    (hd : Rows.get r "disabled" = none) (ht : Rows.get r "type" = some "audit".toList)
    (hname : Rows.get r "name" = some nm) (hnm : nm ≠ "audit".toList) :
    classify lists n r = .row (.bad (.other "audit name".toList)) := by
  rw [classify_typed lists n r _ hd ht]
  unfold classifyTyped
  simp only [↓reduceIte, hname, if_neg hnm]

/-! ### catalogue mutations, for every sheet and site -/

section
variable (root : Str) (lists : List Str) (settings : Cells)
  (pre : List Cells) (r : Cells) (post : List Cells) (ks ks' : List (Nat × RowK)) (st : St)

/-- **blank the type** of a row that has a name or an (unsuffixed) label -/
theorem blank_type_rejected
    (h1 : classifyAll lists 2 pre = .ok ks) (hrun : run ([], []) ks = .ok st)
    (h3 : classifyAll lists (2 + pre.length + 1) post = .ok ks')
    (hd : Rows.get r "disabled" = none) (hn : has r "name" = true ∨ has r "label" = true) :
    formOut root lists (pre ++ dropKey "type" r :: post) settings
      = .error (.err (.row (2 + pre.length) .noType)) := by
  apply row_error_rejected root lists settings pre _ post ks ks' st _ h1 hrun _ h3
  apply classify_noType
  · rw [get_dropKey_other "type" "disabled" (by decide)]; exact hd
  · exact get_dropKey_self "type" r
  · rcases hn with h | h
    · left; unfold has at *; rw [get_dropKey_other "type" "name" (by decide)]; exact h
    · right; left; unfold has at *; rw [get_dropKey_other "type" "label" (by decide)]; exact h

/-- **blank the name** of a non-note question or of a group (`r` is the row before the mutation) -/
theorem blank_name_rejected (t : Str)
    (h1 : classifyAll lists 2 pre = .ok ks) (hrun : run ([], []) ks = .ok st)
    (h3 : classifyAll lists (2 + pre.length + 1) post = .ok ks')
    (h : PlainTyped r t) (hnote : t ≠ "note".toList) :
    formOut root lists (pre ++ dropKey "name" r :: post) settings
      = .error (.err (.row (2 + pre.length) .noName)) := by
  apply row_error_rejected root lists settings pre _ post ks ks' st _ h1 hrun _ h3
  have hp : PlainTyped (dropKey "name" r) t :=
    { disabled := by rw [get_dropKey_other "name" "disabled" (by decide)]; exact h.disabled
      type := by rw [get_dropKey_other "name" "type" (by decide)]; exact h.type
      notAudit := h.notAudit
      noParams := by
        have := h.noParams; unfold has at *
        rw [get_dropKey_other "name" "parameters" (by decide)]; exact this
      calcOk := by
        have := h.calcOk; unfold has at *
        rw [get_dropKey_other "name" "bind::calculate" (by decide)]; exact this
      notSetting := h.notSetting
      notEnd := h.notEnd }
  exact classify_noName lists _ _ t hp (get_dropKey_self "name" r) hnote

/-- **invalid name** (leading digit, space, `$`, `/`, …): the row as mutated carries `nm` -/
theorem invalid_name_rejected (t nm : Str)
    (h1 : classifyAll lists 2 pre = .ok ks) (hrun : run ([], []) ks = .ok st)
    (h3 : classifyAll lists (2 + pre.length + 1) post = .ok ks')
    (h : PlainTyped r t) (hname : Rows.get r "name" = some nm) (hbad : isXmlTag nm = false) :
    formOut root lists (pre ++ r :: post) settings
      = .error (.err (.row (2 + pre.length) .badName)) :=
  row_error_rejected root lists settings pre r post ks ks' st _ h1 hrun
    (classify_badName lists _ r t nm h hname hbad) h3

/-- **calculate without calculation** (and without default) -/
theorem calc_no_calculation_rejected
    (h1 : classifyAll lists 2 pre = .ok ks) (hrun : run ([], []) ks = .ok st)
    (h3 : classifyAll lists (2 + pre.length + 1) post = .ok ks')
    (hd : Rows.get r "disabled" = none) (ht : Rows.get r "type" = some "calculate".toList)
    (hp : has r "parameters" = false) (hc : has r "bind::calculate" = false) (hdef : has r "default" = false) :
    formOut root lists (pre ++ r :: post) settings
      = .error (.err (.row (2 + pre.length) .missingCalculation)) :=
  row_error_rejected root lists settings pre r post ks ks' st _ h1 hrun
    (classify_missingCalculation lists _ r hd ht hp hc hdef) h3

/-- **audit with a name** -/
theorem audit_named_rejected (nm : Str)
    (h1 : classifyAll lists 2 pre = .ok ks) (hrun : run ([], []) ks = .ok st)
    (h3 : classifyAll lists (2 + pre.length + 1) post = .ok ks')
    (hd : Rows.get r "disabled" = none) (ht : Rows.get r "type" = some "audit".toList)
    (hname : Rows.get r "name" = some nm) (hnm : nm ≠ "audit".toList) :
    formOut root lists (pre ++ r :: post) settings
      = .error (.err (.row (2 + pre.length) (.other "audit name".toList))) :=
  row_error_rejected root lists settings pre r post ks ks' st _ h1 hrun
    (classify_auditNamed lists _ r nm hd ht hname hnm) h3
end

/-! ### outcomes of the pipeline

`formOut : … → Except FormErr FormOut` is total and `FormErr` has exactly three constructors, so the model
can only answer: a result, a located error, an unknown-type error, or `unsupported`.  That is a
statement about the *model*: it establishes "no internal exception" for the implementation only as far
as the correspondence run shows the implementation agreeing with the model on the fragment
(`unsupported` marks the inputs on which nothing is claimed; the confirmed crash classes F13/F14/F20/F22/
F31–F34/F40–F42 all lie outside the fragment or are caught by the harness's oracle).  The partial
operations of the modelled code that the model makes explicit, each dominated by a check:
`lookup` of a cell (`get`, always through `Option`), the type table lookup (`typeEntry`, `none` → unknown
type error), popping the control stack (`step` on `([], [])` → `unmatchedEnd`), the list-name lookup of a
select (`lists.contains`, else the located error "list not in choices").  Assumed, not modelled: the
dictionary accesses of `add_choices_info_to_question`, header grouping, settings merging, translation
setup, XML generation. -/
theorem formOut_outcomes (root : Str) (lists : List Str) (rows : List Cells) (settings : Cells) :
    (∃ o, formOut root lists rows settings = .ok o) ∨
    (∃ e, formOut root lists rows settings = .error (.err e)) ∨
    (∃ n, formOut root lists rows settings = .error (.unknownType n)) ∨
    (∃ w, formOut root lists rows settings = .error (.unsupported w)) := by
  cases h : formOut root lists rows settings with
  | ok o => exact Or.inl ⟨o, rfl⟩
  | error e =>
    cases e with
    | unsupported w => exact Or.inr (Or.inr (Or.inr ⟨w, rfl⟩))
    | err e => exact Or.inr (Or.inl ⟨e, rfl⟩)
    | unknownType n => exact Or.inr (Or.inr (Or.inl ⟨n, rfl⟩))

/-- every error of the row stage of `formOut` that cites a row cites a row of the sheet
    (rows are numbered 2 … length + 1) -/
theorem classifyAll_rows (lists : List Str) : ∀ (rows : List Cells) (n : Nat) (ks : List (Nat × RowK)),
    classifyAll lists n rows = .ok ks → ∀ m k, (m, k) ∈ ks → n ≤ m ∧ m < n + rows.length := by
  intro rows
  induction rows with
  | nil => intro n ks h m k hm; simp [classifyAll] at h; subst h; simp at hm
  | cons r rs ih =>
    intro n ks h m k hm
    simp only [classifyAll] at h
    cases hr : classify lists n r with
    | unsupported w => rw [hr] at h; simp at h
    | row k0 =>
      rw [hr] at h
      cases hrs : classifyAll lists (n + 1) rs with
      | error w => rw [hrs] at h; simp at h
      | ok ks0 =>
        rw [hrs] at h
        simp only [] at h
        injection h with h; subst h
        simp only [List.mem_cons, Prod.mk.injEq] at hm
        rcases hm with ⟨h1, _⟩ | hm
        · subst h1; simp only [List.length_cons]; omega
        · have := ih (n + 1) ks0 hrs m k hm
          simp only [List.length_cons]; omega

/-- every error of the row loop that cites a row cites a row of the sheet: rows are numbered
    2 … length + 1 (header = row 1) -/
theorem row_stage_error_in_sheet (lists : List Str) (rows : List Cells) (ks : List (Nat × RowK))
    (n : Nat) (hc : classifyAll lists 2 rows = .ok ks)
    (h : (∃ e, parseRows ks = .error (.row n e)) ∨ parseRows ks = .error (.unmatchedEnd n)) :
    2 ≤ n ∧ n < 2 + rows.length := by
  rcases h with ⟨e, h⟩ | h
  · rcases error_located ks _ h with ⟨n', re, heq, hmem⟩ | ⟨n', ct, heq, _⟩ | ⟨ct, name, heq⟩
    · injection heq with h1 h2; subst h1
      exact classifyAll_rows lists rows 2 ks hc _ _ hmem
    · cases heq
    · cases heq
  · rcases error_located ks _ h with ⟨n', re, heq, _⟩ | ⟨n', ct, heq, hmem⟩ | ⟨ct, name, heq⟩
    · cases heq
    · injection heq with h1; subst h1
      exact classifyAll_rows lists rows 2 ks hc _ _ hmem
    · cases heq

/-! ### Non-vacuity: a concrete sheet meets the hypotheses, and the conclusions compute -/

def c (k v : String) : Str × Str := (k.toList, v.toList)
def exPre : List Cells :=
  [[c "type" "text", c "name" "a", c "label" "A"], [c "type" "begin group", c "name" "g", c "label" "G"]]
def exRow : Cells := [c "type" "integer", c "name" "b", c "label" "B", c "bind::relevant" "${a} > 1"]
def exPost : List Cells := [[c "type" "end group"], [c "type" "note", c "label" "bye"]]

/-- the prefix is accepted by the row loop (with a group left open), the suffix is inside the fragment -/
example : (match classifyAll [] 2 exPre with
    | .ok ks => (match run ([], []) ks with | .ok (_, [_]) => true | _ => false)
    | .error _ => false) = true := by decide +kernel
example : (match classifyAll [] (2 + exPre.length + 1) exPost with | .ok ks => ks.length == 2 | _ => false) = true := by
  decide +kernel
example : PlainTyped exRow "integer".toList :=
  ⟨by decide +kernel, by decide +kernel, by decide +kernel, by decide +kernel, by decide +kernel,
   by decide +kernel, by decide +kernel⟩
example : (has exRow "name" = true ∨ has exRow "label" = true) ∧ Rows.get exRow "disabled" = none :=
  ⟨Or.inl (by decide +kernel), by decide +kernel⟩
example : isXmlTag "1abc".toList = false ∧ isXmlTag "a b".toList = false ∧ isXmlTag "$a".toList = false
    ∧ isXmlTag "a/b".toList = false := by decide +kernel

def isRowErr (n : Nat) (e : RowErr) : Except FormErr FormOut → Bool
  | .error (.err (.row m e')) => m == n && e' == e
  | _ => false

-- the sheet itself is accepted; each mutation of row 4 is rejected citing row 4
example : (match formOut "data".toList [] (exPre ++ exRow :: exPost) [] with | .ok _ => true | _ => false) = true := by
  decide +kernel
example : isRowErr 4 .noType (formOut "data".toList [] (exPre ++ dropKey "type" exRow :: exPost) []) = true := by
  decide +kernel
example : isRowErr 4 .noName (formOut "data".toList [] (exPre ++ dropKey "name" exRow :: exPost) []) = true := by
  decide +kernel
example : isRowErr 4 .badName (formOut "data".toList []
    (exPre ++ (c "name" "1abc" :: dropKey "name" exRow) :: exPost) []) = true := by decide +kernel
example : isRowErr 4 .missingCalculation (formOut "data".toList []
    (exPre ++ [c "type" "calculate", c "name" "k"] :: exPost) []) = true := by decide +kernel
example : isRowErr 4 (.other "audit name".toList) (formOut "data".toList []
    (exPre ++ [c "type" "audit", c "name" "my_audit"] :: exPost) []) = true := by decide +kernel
example : (match formOut "data".toList [] ([[c "type" "text", c "name" "a"]] ++ [c "type" "end group"] :: exPost) [] with
    | .error (.err (.unmatchedEnd 3)) => true | _ => false) = true := by decide +kernel

end Pyxv.C17
