import Pyxv.Model.Spell
/-! Lemmas about `Pyxv.Spell` (whitespace splitting, lower-casing, cleaning). -/
namespace Pyxv.Spell
open Pyxv

theorem toNat_ofNat_small (m : Nat) (h : m < 0xD800) : (Char.ofNat m).toNat = m := by
  have hv : m.isValidChar := Or.inl h
  simp [Char.ofNat, hv, Char.ofNatAux, Char.toNat]

theorem spaceNat (c : Char) : pyIsSpace c = true ↔
    (9 ≤ c.toNat ∧ c.toNat ≤ 13) ∨ (28 ≤ c.toNat ∧ c.toNat ≤ 32) ∨ c.toNat = 0x85 ∨ c.toNat = 0xA0 ∨ c.toNat = 0x1680 ∨
    (0x2000 ≤ c.toNat ∧ c.toNat ≤ 0x200A) ∨ c.toNat = 0x2028 ∨ c.toNat = 0x2029 ∨ c.toNat = 0x202F ∨ c.toNat = 0x205F ∨ c.toNat = 0x3000 := by
  simp [pyIsSpace, or_assoc]

/-- lower-casing never turns a whitespace character into a non-whitespace one or back -/
theorem lowerChar_space (c : Char) : pyIsSpace (lowerChar c) = pyIsSpace c := by
  unfold lowerChar
  simp only
  split
  · rename_i h
    have e := toNat_ofNat_small (c.toNat + 32) (by omega)
    rw [Bool.eq_iff_iff, spaceNat, spaceNat, e]
    omega
  · split
    · rename_i h
      have e := toNat_ofNat_small (c.toNat + 32) (by omega)
      rw [Bool.eq_iff_iff, spaceNat, spaceNat, e]
      omega
    · rfl

/-! ### `splitWs` -/

theorem splitWs_space (c : Char) (cs : Str) (h : pyIsSpace c = true) : splitWs (c :: cs) = splitWs cs := by
  simp [splitWs, h]

theorem splitWs_single (c : Char) (h : pyIsSpace c = false) : splitWs [c] = [[c]] := by
  simp [splitWs, h]

theorem splitWs_ns_sp (c d : Char) (ds : Str) (hc : pyIsSpace c = false) (hd : pyIsSpace d = true) :
    splitWs (c :: d :: ds) = [c] :: splitWs (d :: ds) := by
  rw [splitWs]; simp [hc, hd]

theorem splitWs_ns_ns (c d : Char) (ds : Str) (hc : pyIsSpace c = false) (hd : pyIsSpace d = false) :
    splitWs (c :: d :: ds) =
      (match splitWs (d :: ds) with | w :: ws => (c :: w) :: ws | [] => [[c]]) := by
  rw [splitWs]; simp only [hc, hd]
  cases splitWs (d :: ds) <;> simp

theorem splitWs_ne_nil (c : Char) (cs : Str) (h : pyIsSpace c = false) : splitWs (c :: cs) ≠ [] := by
  cases cs with
  | nil => simp [splitWs_single c h]
  | cons d ds =>
    by_cases hd : pyIsSpace d = true
    · simp [splitWs_ns_sp c d ds h hd]
    · have hd' : pyIsSpace d = false := by simpa using hd
      rw [splitWs_ns_ns c d ds h hd']
      cases splitWs (d :: ds) <;> simp

/-- a whitespace character separates cleanly: the words left of it and the words right of it -/
theorem splitWs_append_space (a : Str) (s : Char) (b : Str) (hs : pyIsSpace s = true) :
    splitWs (a ++ s :: b) = splitWs a ++ splitWs b := by
  induction a with
  | nil => simp [splitWs_space _ _ hs, splitWs]
  | cons c a' ih =>
    by_cases hc : pyIsSpace c = true
    · simp [splitWs_space _ _ hc, ih]
    · have hc' : pyIsSpace c = false := by simpa using hc
      cases a' with
      | nil =>
        simp only [List.cons_append, List.nil_append]
        rw [splitWs_ns_sp c s b hc' hs, splitWs_space _ _ hs, splitWs_single c hc']; simp
      | cons d a'' =>
        simp only [List.cons_append] at ih ⊢
        by_cases hd : pyIsSpace d = true
        · rw [splitWs_ns_sp c d _ hc' hd, splitWs_ns_sp c d _ hc' hd, ih]; simp
        · have hd' : pyIsSpace d = false := by simpa using hd
          rw [splitWs_ns_ns c d _ hc' hd', splitWs_ns_ns c d _ hc' hd', ih]
          have hne := splitWs_ne_nil d a'' hd'
          cases h : splitWs (d :: a'') with
          | nil => exact absurd h hne
          | cons w ws => simp

/-- replacing characters by characters of the same "space-ness" commutes with splitting -/
theorem splitWs_map (f : Char → Char) (hf : ∀ c, pyIsSpace (f c) = pyIsSpace c) (s : Str) :
    splitWs (s.map f) = (splitWs s).map (·.map f) := by
  induction s with
  | nil => simp [splitWs]
  | cons c cs ih =>
    by_cases hc : pyIsSpace c = true
    · have : pyIsSpace (f c) = true := by rw [hf]; exact hc
      simp only [List.map_cons]
      rw [splitWs_space _ _ this, splitWs_space _ _ hc, ih]
    · have hc' : pyIsSpace c = false := by simpa using hc
      have hfc : pyIsSpace (f c) = false := by rw [hf]; exact hc'
      cases cs with
      | nil => simp [splitWs_single _ hc', splitWs_single _ hfc]
      | cons d ds =>
        simp only [List.map_cons] at ih ⊢
        by_cases hd : pyIsSpace d = true
        · have hfd : pyIsSpace (f d) = true := by rw [hf]; exact hd
          rw [splitWs_ns_sp _ _ _ hfc hfd, splitWs_ns_sp _ _ _ hc' hd, ih]; simp
        · have hd' : pyIsSpace d = false := by simpa using hd
          have hfd : pyIsSpace (f d) = false := by rw [hf]; exact hd'
          rw [splitWs_ns_ns _ _ _ hfc hfd, splitWs_ns_ns _ _ _ hc' hd', ih]
          have hne := splitWs_ne_nil d ds hd'
          cases h : splitWs (d :: ds) with
          | nil => exact absurd h hne
          | cons w ws => simp

theorem pyLower_joinWith (l : List Str) :
    pyLower (joinWith ['_'] l) = joinWith ['_'] (l.map pyLower) := by
  induction l with
  | nil => simp [joinWith, pyLower]
  | cons x xs ih =>
    cases xs with
    | nil => simp [joinWith]
    | cons y ys =>
      simp only [joinWith, List.map_cons] at ih ⊢
      simp only [pyLower, List.map_append] at ih ⊢
      rw [ih]
      have : List.map lowerChar ['_'] = ['_'] := by decide
      rw [this]

/-- `to_snake_case` may lower-case first and split afterwards -/
theorem toSnake_lower_first (s : Str) : toSnake s = joinWith ['_'] (splitWs (pyLower s)) := by
  unfold toSnake
  rw [pyLower_joinWith]
  unfold pyLower
  rw [splitWs_map lowerChar lowerChar_space]

end Pyxv.Spell
