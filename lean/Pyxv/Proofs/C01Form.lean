import Pyxv.Proofs.C01Complete
import Pyxv.Model.Form
/-!
# C01 ∘ Form: the instance children computed by the `Form` slice satisfy the parts hypotheses

`Pyxv.Form.instKids` (the model of `Section.xml_instance` / `generate_repeating_template` behind C02/C04)
yields the name tree of the primary instance.  As DOM nodes (`ntNodes`: one element per node, the
repeat templates carrying `jr:template=""`) these children are accepted by `validate_xml_document`
as soon as every question / section *name* is — so for the structural part of the instance the
hypothesis `PartsValid.rk` of `validator_complete` reduces to a condition on the name cells.
-/
namespace Pyxv.C01
open Pyxv Pyxv.Xml Pyxv.Asm Pyxv.Rows Pyxv.Form

mutual
/-- the instance name tree as DOM nodes -/
def ntNode : NT → Node
  | .node n t ks => .elem n (if t then [("jr:template".toList, [])] else []) (ntNodes ks)
def ntNodes : List NT → List Node
  | [] => []
  | k :: ks => ntNode k :: ntNodes ks
end

mutual
/-- every name in the tree satisfies `p` -/
def ntAll (p : Str → Bool) : NT → Bool
  | .node n _ ks => p n && ntAllL p ks
def ntAllL (p : Str → Bool) : List NT → Bool
  | [] => true
  | k :: ks => ntAll p k && ntAllL p ks
end

theorem ntAllL_append (p : Str → Bool) (a b : List NT) : ntAllL p (a ++ b) = (ntAllL p a && ntAllL p b) := by
  induction a with
  | nil => simp [ntAllL]
  | cons k r ih => simp [ntAllL, ih, Bool.and_assoc]

theorem ntAllL_cons (p : Str → Bool) (k : NT) (ks : List NT) : ntAllL p (k :: ks) = (ntAll p k && ntAllL p ks) := by
  simp [ntAllL]

theorem ntAll_node (p : Str → Bool) (n : Str) (t : Bool) (ks : List NT) :
    ntAll p (.node n t ks) = (p n && ntAllL p ks) := by simp [ntAll]

theorem all_append_iff {p : Str → Bool} {a b : List Str} (h : ∀ x ∈ a ++ b, p x = true) :
    (∀ x ∈ a, p x = true) ∧ (∀ x ∈ b, p x = true) :=
  ⟨fun x hx => h x (List.mem_append_left _ hx), fun x hx => h x (List.mem_append_right _ hx)⟩

mutual
/-- the instance (and template) children only use names of the element tree -/
theorem ntAll_instKids (p : Str → Bool) : ∀ (app : Bool) (items : List Item),
    (∀ x ∈ allNamesL items, p x = true) → ntAllL p (instKids app items) = true
  | _, [], _ => by simp [instKids, ntAllL]
  | app, .q d :: rest, h => by
    simp only [allNamesL, allNames] at h
    obtain ⟨h1, h2⟩ := all_append_iff h
    simp only [instKids, ntAllL_append, Bool.and_eq_true]
    refine ⟨?_, ntAll_instKids p app rest h2⟩
    split
    · rename_i hn
      simp only [hn, if_true] at h1
      simp [ntAllL, ntAll, h1 d.name (List.mem_singleton.mpr rfl)]
    · simp [ntAllL]
  | app, .sec .rep n b ks :: rest, h => by
    simp only [allNamesL, allNames] at h
    obtain ⟨h1, h2⟩ := all_append_iff h
    have hn : p n = true := h1 n (List.mem_cons_self ..)
    have hks : ∀ x ∈ allNamesL ks, p x = true := fun x hx => h1 x (List.mem_cons_of_mem _ hx)
    simp only [instKids]
    split
    · simp only [ntAllL_cons, ntAll_node, hn, Bool.true_and, Bool.and_eq_true]
      exact ⟨ntAll_instKids p true ks hks, ntAll_instKids p true rest h2⟩
    · simp only [ntAllL_cons, ntAll_node, hn, Bool.true_and, Bool.and_eq_true]
      exact ⟨ntAll_tmplKids p ks hks, ntAll_instKids p true ks hks, ntAll_instKids p false rest h2⟩
  | app, .sec .group n b ks :: rest, h => by
    simp only [allNamesL, allNames] at h
    obtain ⟨h1, h2⟩ := all_append_iff h
    have hn : p n = true := h1 n (List.mem_cons_self ..)
    have hks : ∀ x ∈ allNamesL ks, p x = true := fun x hx => h1 x (List.mem_cons_of_mem _ hx)
    simp only [instKids, ntAllL_cons, ntAll_node, hn, Bool.true_and, Bool.and_eq_true]
    exact ⟨ntAll_instKids p app ks hks, ntAll_instKids p app rest h2⟩
  | app, .sec .loop n b ks :: rest, h => by
    simp only [allNamesL, allNames] at h
    obtain ⟨h1, h2⟩ := all_append_iff h
    have hn : p n = true := h1 n (List.mem_cons_self ..)
    have hks : ∀ x ∈ allNamesL ks, p x = true := fun x hx => h1 x (List.mem_cons_of_mem _ hx)
    simp only [instKids, ntAllL_cons, ntAll_node, hn, Bool.true_and, Bool.and_eq_true]
    exact ⟨ntAll_instKids p app ks hks, ntAll_instKids p app rest h2⟩
theorem ntAll_tmplKids (p : Str → Bool) : ∀ (items : List Item),
    (∀ x ∈ allNamesL items, p x = true) → ntAllL p (tmplKids items) = true
  | [], _ => by simp [tmplKids, ntAllL]
  | .q d :: rest, h => by
    simp only [allNamesL, allNames] at h
    obtain ⟨h1, h2⟩ := all_append_iff h
    simp only [tmplKids, ntAllL_append, Bool.and_eq_true]
    refine ⟨?_, ntAll_tmplKids p rest h2⟩
    split
    · rename_i hn
      simp only [hn, if_true] at h1
      simp [ntAllL, ntAll, h1 d.name (List.mem_singleton.mpr rfl)]
    · simp [ntAllL]
  | .sec .rep n b ks :: rest, h => by
    simp only [allNamesL, allNames] at h
    obtain ⟨h1, h2⟩ := all_append_iff h
    have hn : p n = true := h1 n (List.mem_cons_self ..)
    have hks : ∀ x ∈ allNamesL ks, p x = true := fun x hx => h1 x (List.mem_cons_of_mem _ hx)
    simp only [tmplKids, ntAllL_cons, ntAll_node, hn, Bool.true_and, Bool.and_eq_true]
    exact ⟨ntAll_tmplKids p ks hks, ntAll_tmplKids p rest h2⟩
  | .sec .group n b ks :: rest, h => by
    simp only [allNamesL, allNames] at h
    obtain ⟨h1, h2⟩ := all_append_iff h
    have hn : p n = true := h1 n (List.mem_cons_self ..)
    have hks : ∀ x ∈ allNamesL ks, p x = true := fun x hx => h1 x (List.mem_cons_of_mem _ hx)
    simp only [tmplKids, ntAllL_cons, ntAll_node, hn, Bool.true_and, Bool.and_eq_true]
    exact ⟨ntAll_instKids p false ks hks, ntAll_tmplKids p rest h2⟩
  | .sec .loop n b ks :: rest, h => by
    simp only [allNamesL, allNames] at h
    obtain ⟨h1, h2⟩ := all_append_iff h
    have hn : p n = true := h1 n (List.mem_cons_self ..)
    have hks : ∀ x ∈ allNamesL ks, p x = true := fun x hx => h1 x (List.mem_cons_of_mem _ hx)
    simp only [tmplKids, ntAllL_cons, ntAll_node, hn, Bool.true_and, Bool.and_eq_true]
    exact ⟨ntAll_instKids p false ks hks, ntAll_tmplKids p rest h2⟩
end

/-! ## name-valid trees are valid, `]`-free, reserved-free DOM nodes -/

def ntTmplAttrs (t : Bool) : List (Str × Str) := if t then [("jr:template".toList, [])] else []

theorem ntNode_eq (n : Str) (t : Bool) (ks : List NT) : ntNode (.node n t ks) = .elem n (ntTmplAttrs t) (ntNodes ks) := by
  simp only [ntNode, ntTmplAttrs]

theorem ntTmplAttrs_scope (t : Bool) : (ntTmplAttrs t).filterMap pyDeclared = [] := by
  cases t <;> decide

theorem ntTmplAttrs_valid (R : List Str) (t : Bool) (hjr : R.contains "jr".toList = true) :
    (ntTmplAttrs t).all (attrValid R) = true := by
  cases t
  · rfl
  · simp only [ntTmplAttrs, if_true, List.all_cons, List.all_nil, Bool.and_true]
    exact attrValid_intro R _ _ (pyDeclOk_of_not_decl _ _ (by decide))
      (nameValid_prefixed R _ "jr".toList (by decide) (by decide) hjr) rfl

mutual
theorem valid_ntNode (R : List Str) (hjr : R.contains "jr".toList = true) :
    ∀ (t : NT), ntAll (fun x => nameValid R x && elemPrefixOk x) t = true → validDoc R (ntNode t) = true
  | .node n t ks, h => by
    rw [ntAll_node, Bool.and_eq_true, Bool.and_eq_true] at h
    rw [ntNode_eq]
    exact validDoc_elem0 (ntTmplAttrs_scope t) (ntTmplAttrs_valid R t hjr) h.1.1 (valid_ntNodes R hjr ks h.2) h.1.2
theorem valid_ntNodes (R : List Str) (hjr : R.contains "jr".toList = true) :
    ∀ (ts : List NT), ntAllL (fun x => nameValid R x && elemPrefixOk x) ts = true → validKids R (ntNodes ts) = true
  | [], _ => by simp [ntNodes, validKids]
  | k :: ks, h => by
    rw [ntAllL_cons, Bool.and_eq_true] at h
    simp only [ntNodes]
    exact validKids_cons (valid_ntNode R hjr k h.1) (valid_ntNodes R hjr ks h.2)
end

mutual
theorem noBr_ntNode : ∀ (t : NT), ntAll noBr t = true → noBrTree (ntNode t) = true
  | .node n t ks, h => by
    rw [ntAll_node, Bool.and_eq_true] at h
    rw [ntNode_eq]
    simp only [noBrTree, h.1, noBr_ntNodes ks h.2, Bool.true_and, Bool.and_true]
    cases t <;> decide
theorem noBr_ntNodes : ∀ (ts : List NT), ntAllL noBr ts = true → noBrKids (ntNodes ts) = true
  | [], _ => by simp [ntNodes, noBrKids]
  | k :: ks, h => by
    rw [ntAllL_cons, Bool.and_eq_true] at h
    simp only [ntNodes, noBrKids, noBr_ntNode k h.1, noBr_ntNodes ks h.2, Bool.and_self]
end

mutual
theorem isDom_ntNode : ∀ (t : NT), isDom (ntNode t) = true
  | .node n t ks => by
    rw [ntNode_eq]
    simp only [isDom, isDom_ntNodes ks, Bool.and_true]
    cases t <;> decide
theorem isDom_ntNodes : ∀ (ts : List NT), isDomKids (ntNodes ts) = true
  | [] => by simp [ntNodes, isDomKids]
  | k :: ks => by simp only [ntNodes, isDomKids, isDom_ntNode k, isDom_ntNodes ks, Bool.and_self]
end

mutual
theorem noReserved_ntNode : ∀ (t : NT), ntAll tagFree t = true → noReserved (ntNode t) = true
  | .node n t ks, h => by
    rw [ntAll_node, Bool.and_eq_true] at h
    rw [ntNode_eq]
    simp only [noReserved, h.1, noReserved_ntNodes ks h.2, Bool.true_and, Bool.and_true]
    cases t <;> decide
theorem noReserved_ntNodes : ∀ (ts : List NT), ntAllL tagFree ts = true → noReservedKids (ntNodes ts) = true
  | [], _ => by simp [ntNodes, noReservedKids]
  | k :: ks, h => by
    rw [ntAllL_cons, Bool.and_eq_true] at h
    simp only [ntNodes, noReservedKids, noReserved_ntNode k h.1, noReserved_ntNodes ks h.2, Bool.and_self]
end

/-- **Form ∘ Assemble.**  The children of the primary instance root that the `Form` slice computes
    from the element tree (`instKids false items`: nodes, repeat templates with `jr:template=""`)
    are accepted by `validate_xml_document` in the scope below the root — the hypothesis on the part
    `rk` becomes a condition on the *names* of the element tree (each is a name for pyxform's regex
    whose prefix, if any, is declared and is not `xmlns`) plus `jr` being in scope, which it always is. -/
theorem instance_children_valid (f : Fields) (items : List Item)
    (hnames : ∀ x ∈ allNamesL items, (nameValid (pyR f) x && elemPrefixOk x) = true) :
    validKids (pyR f) (ntNodes (instKids false items)) = true := by
  have hjr : (pyR f).contains "jr".toList = true :=
    contains_of_right _ _ _ (pyScope_static f _ (by decide +kernel) (by decide +kernel))
  exact valid_ntNodes (pyR f) hjr _ (ntAll_instKids _ false items hnames)

/-- the same children are `]`-free / reserved-free when the names are, and are always DOM trees -/
theorem instance_children_side (items : List Item)
    (h1 : ∀ x ∈ allNamesL items, noBr x = true) (h2 : ∀ x ∈ allNamesL items, tagFree x = true) :
    noBrKids (ntNodes (instKids false items)) = true ∧ noReservedKids (ntNodes (instKids false items)) = true ∧
    isDomKids (ntNodes (instKids false items)) = true :=
  ⟨noBr_ntNodes _ (ntAll_instKids _ false items h1), noReserved_ntNodes _ (ntAll_instKids _ false items h2),
    isDom_ntNodes _⟩

/-- **rows → element tree → instance → accepted document**: with the instance children taken from the
    `Form` model, the document is accepted when the header is valid, the names of the element tree are
    valid names, and the remaining parts (itext, binds/secondary instances, body) are valid. -/
theorem validator_complete_form (f : Fields) (items : List Item) (itext : Option (List Node)) (rest bk : List Node)
    (H : HeaderValid f) (hnames : ∀ x ∈ allNamesL items, (nameValid (pyR f) x && elemPrefixOk x) = true)
    (hitext : ∀ ks, itext = some ks → validKids (pyS f) ks = true)
    (hrest : validKids (pyS f) rest = true) (hbk : validKids (pyS f) bk = true) :
    validDoc [] (assemble f itext (ntNodes (instKids false items)) rest bk) = true :=
  validator_complete f itext _ rest bk H ⟨hitext, instance_children_valid f items hnames, hrest, hbk⟩

#print axioms validator_complete_form

-- non-vacuity: a group with a question, a repeat (template + instance), a prefixed name declared by the header
def exItems : List Item :=
  [ .q { name := "q".toList, bind := true, control := true, node := true },
    .sec .group "g".toList false [ .q { name := "esri:geo".toList, bind := true, control := true, node := true } ],
    .sec .rep "r".toList false [ .q { name := "k".toList, bind := true, control := true, node := true } ] ]
example : (ntNodes (instKids false exItems)).length = 4 := by decide +kernel
example : validDoc [] (assemble exFields none (ntNodes (instKids false exItems)) [] []) = true :=
  validator_complete_form exFields exItems none [] [] exHeaderValid (by decide +kernel)
    (fun ks h => by cases h) (by decide +kernel) (by decide +kernel)

end Pyxv.C01
