import Pyxv.Model.Binds
/-! Helper lemmas for the bind slice (C05): dict operations, `to_snake_case`, splitting, the walk. -/
namespace Pyxv.Binds
open Pyxv

/-! ### association lists -/

theorem lookup_eq_none {β} (k : Str) (d : List (Str × β)) (h : k ∉ d.map (·.1)) : lookup k d = none := by
  induction d with
  | nil => rfl
  | cons p rest ih =>
    obtain ⟨k0, v0⟩ := p
    simp only [List.map_cons, List.mem_cons, not_or] at h
    simp only [lookup]
    rw [if_neg h.1]
    exact ih h.2

theorem lookup_dictSet {β} (d : List (Str × β)) (k k' : Str) (v : β) :
    lookup k (dictSet d k' v) = if k = k' then some v else lookup k d := by
  induction d with
  | nil => simp [dictSet, lookup]
  | cons p rest ih =>
    obtain ⟨k0, v0⟩ := p
    simp only [dictSet]
    by_cases h1 : k' = k0
    · subst h1
      simp only [if_true, lookup]
      by_cases h2 : k = k' <;> simp [h2]
    · simp only [if_neg h1, lookup, ih]
      by_cases h2 : k = k0
      · subst h2
        have : ¬ k = k' := fun e => h1 e.symm
        simp [this]
      · simp [h2]

theorem dictSet_keys {β} (d : List (Str × β)) (k : Str) (v : β) :
    (dictSet d k v).map (·.1) = if k ∈ d.map (·.1) then d.map (·.1) else d.map (·.1) ++ [k] := by
  induction d with
  | nil => simp [dictSet]
  | cons p rest ih =>
    obtain ⟨k0, v0⟩ := p
    simp only [dictSet]
    by_cases h1 : k = k0
    · subst h1; simp
    · rw [if_neg h1]
      simp only [List.map_cons, List.mem_cons, h1, false_or]
      rw [ih]
      by_cases h2 : k ∈ rest.map (·.1) <;> simp [h2]

theorem dictSet_nodup {β} (d : List (Str × β)) (k : Str) (v : β) (h : (d.map (·.1)).Nodup) :
    ((dictSet d k v).map (·.1)).Nodup := by
  rw [dictSet_keys]
  by_cases h2 : k ∈ d.map (·.1)
  · simpa [h2] using h
  · simp only [if_neg h2]
    rw [List.nodup_append]
    refine ⟨h, by simp, ?_⟩
    intro a ha b hb
    simp only [List.mem_singleton] at hb
    subst hb
    intro e; subst e; exact h2 ha

theorem dictUpdate_nodup {β} (e d : List (Str × β)) (h : (d.map (·.1)).Nodup) :
    ((dictUpdate d e).map (·.1)).Nodup := by
  induction e generalizing d with
  | nil => simpa [dictUpdate] using h
  | cons p rest ih =>
    obtain ⟨k, v⟩ := p
    simp only [dictUpdate]
    exact ih _ (dictSet_nodup d k v h)

/-- `d.update(e)`: a key of `e` wins, other keys keep the value of `d` -/
theorem lookup_dictUpdate {β} (e d : List (Str × β)) (k : Str) (hn : (e.map (·.1)).Nodup) :
    lookup k (dictUpdate d e) = (lookup k e).or (lookup k d) := by
  induction e generalizing d with
  | nil => simp [dictUpdate, lookup]
  | cons p rest ih =>
    obtain ⟨k', v⟩ := p
    simp only [List.map_cons, List.nodup_cons] at hn
    simp only [dictUpdate, lookup]
    rw [ih _ hn.2, lookup_dictSet]
    by_cases h : k = k'
    · subst h
      simp [lookup_eq_none k rest hn.1]
    · simp [h]

theorem lookup_map_s (k : Str) (tt : List (Str × Str)) :
    lookup k (tt.map fun (k, v) => (k, BVal.s v)) = (lookup k tt).map BVal.s := by
  induction tt with
  | nil => rfl
  | cons p rest ih =>
    obtain ⟨k0, v0⟩ := p
    simp only [List.map_cons, lookup, ih]
    by_cases h : k = k0 <;> simp [h]

/-! ### `setBind` / `processRow` keep the keys of the row's bind dict distinct -/

def bindNodup (r : PRow) : Prop := ((r.bind.getD []).map (·.1)).Nodup

theorem setBind_nodup (dl : Str) (b b' : BindDict) (a : Str) (v : BVal)
    (h : (b.map (·.1)).Nodup) (hs : setBind dl b a v = some b') : (b'.map (·.1)).Nodup := by
  unfold setBind at hs
  split at hs
  · next hl =>
    simp only [Option.some.injEq] at hs
    subst hs
    have hm : a ∉ b.map (·.1) := by
      intro hm
      clear h
      induction b with
      | nil => simp at hm
      | cons p rest ih =>
        obtain ⟨k0, v0⟩ := p
        simp only [lookup] at hl
        by_cases h0 : a = k0
        · simp [h0] at hl
        · simp only [if_neg h0] at hl
          simp only [List.map_cons, List.mem_cons, h0, false_or] at hm
          exact ih hl hm
    rw [List.map_append, List.nodup_append]
    refine ⟨h, by simp, ?_⟩
    intro x hx y hy
    simp only [List.map_cons, List.map_nil, List.mem_singleton] at hy
    subst hy
    intro e; subst e; exact hm hx
  · next old hl =>
    cases hm : mergeVal dl old v with
    | none => simp [hm] at hs
    | some nv =>
      simp only [hm, Option.map_some, Option.some.injEq] at hs
      subst hs
      exact dictSet_nodup b a nv h

theorem stepScalar_bind (r r' : PRow) (k v : Str) (h : stepScalar r k v = .ok r') : r'.bind = r.bind := by
  unfold stepScalar at h
  by_cases hd : k = "disabled".toList
  · repeat' split at h
    all_goals first | (cases h; done) | (simp only [Except.ok.injEq] at h; subst h; simp)
  · repeat' split at h
    all_goals first | (cases h; done) | (simp only [Except.ok.injEq] at h; subst h; simp)

theorem stepOther_bind (r r' : PRow) (k a : Str) (rest : List Str) (v : Str)
    (h : stepOther r k a rest v = .ok r') : r'.bind = r.bind := by
  unfold stepOther at h
  repeat' split at h
  all_goals first | (cases h; done) | (simp only [Except.ok.injEq] at h; subst h; rfl)

theorem stepBindCell_nodup (dl : Str) (r r' : PRow) (a : Str) (rest : List Str) (v : Str)
    (hn : bindNodup r) (h : stepBindCell dl r a rest v = .ok r') : bindNodup r' := by
  unfold stepBindCell at h
  simp only at h
  split at h
  · cases h
  · next nv _ =>
    split at h
    · cases h
    · next b hb =>
      simp only [Except.ok.injEq] at h
      subst h
      simp only [bindNodup, Option.getD_some]
      exact setBind_nodup dl _ _ _ _ hn hb

theorem stepCell_nodup (dl : Str) (key : List (Str × List Str)) (r r' : PRow) (h v : Str)
    (hn : bindNodup r) (hs : stepCell dl key r h v = .ok r') : bindNodup r' := by
  unfold stepCell at hs
  simp only at hs
  split at hs
  · cases hs
  split at hs
  · cases hs
  split at hs
  · cases hs
  · next toks _ =>
    unfold stepTokens at hs
    split at hs
    · cases hs
    · unfold bindNodup; rw [stepScalar_bind _ _ _ _ hs]; exact hn
    · split at hs
      · exact stepBindCell_nodup dl _ _ _ _ _ hn hs
      · unfold bindNodup; rw [stepOther_bind _ _ _ _ _ _ hs]; exact hn

theorem processRow_nodup (dl : Str) (key : List (Str × List Str)) (cells : List (Str × Str)) :
    ∀ (r r' : PRow), bindNodup r → processRow dl key r cells = .ok r' → bindNodup r' := by
  induction cells with
  | nil => intro r r' hn h; simp only [processRow, Except.ok.injEq] at h; subst h; exact hn
  | cons c rest ih =>
    intro r r' hn h
    obtain ⟨hd, v⟩ := c
    simp only [processRow] at h
    split at h
    · next r1 h1 => exact ih r1 r' (stepCell_nodup dl key r r1 hd v hn h1) h
    · cases h

end Pyxv.Binds

namespace Pyxv.Binds
open Pyxv

/-! ### the walk -/

theorem nodup_of_map {α β} (f : α → β) (l : List α) (h : (l.map f).Nodup) : l.Nodup :=
  List.Pairwise.of_map f (fun _ _ hne e => hne (congrArg f e)) h

theorem mkElem_last (root : Str) (st : List (Str × Bool)) (q : Q) :
    (mkElem root st q).path.getLast? = some q.name := by
  show (root :: ((st.map (·.1)).reverse ++ [q.name])).getLast? = some q.name
  rw [← List.cons_append, List.getLast?_concat]

/-- the elements the walk emits are, in order, the names the rows introduce -/
theorem walk_lasts (root : Str) : ∀ (ks : List RK) (st : List (Str × Bool)) (es : List Elem),
    walk root st ks = some es → es.map (fun e => e.path.getLast?) = (ks.flatMap rkNames).map some := by
  intro ks
  induction ks with
  | nil =>
    intro st es h
    unfold walk at h
    split at h
    · simp only [Option.some.injEq] at h; subst h; rfl
    · cases h
  | cons k rest ih =>
    intro st es h
    cases k with
    | skip =>
      unfold walk at h
      simpa [rkNames] using ih st es h
    | qs l =>
      unfold walk at h
      cases hr : walk root st rest with
      | none => rw [hr] at h; cases h
      | some es' =>
        rw [hr] at h
        simp only [Option.map_some, Option.some.injEq] at h
        subst h
        simp only [List.map_append, List.map_map, List.flatMap_cons, rkNames, ih st es' hr]
        congr 1
        apply List.map_congr_left
        intro q _
        exact mkElem_last root st q
    | begin_ rep pre q =>
      unfold walk at h
      cases hr : walk root ((q.name, rep) :: st) rest with
      | none => rw [hr] at h; cases h
      | some es' =>
        rw [hr] at h
        simp only [Option.map_some, Option.some.injEq] at h
        subst h
        simp only [List.map_append, List.map_map, List.flatMap_cons, rkNames, ih _ es' hr,
          List.map_cons, List.map_nil]
        congr 1
        congr 1
        · apply List.map_congr_left
          intro q' _
          exact mkElem_last root st q'
        · simp only [mkElem_last]
    | end_ rep =>
      cases st with
      | nil => unfold walk at h; cases h
      | cons f st' =>
        obtain ⟨n, rep'⟩ := f
        unfold walk at h
        split at h
        · simpa [rkNames] using ih st' es h
        · cases h
    | unsupported w => unfold walk at h; cases h

theorem renderAll_paths (root : Str) (tops : List Str) :
    ∀ (es : List Elem) (bs : List Bind), renderAll root tops es = some bs →
      (bs.map (·.path)).Sublist (es.map (·.path)) := by
  intro es
  induction es with
  | nil => intro bs h; simp only [renderAll, Option.some.injEq] at h; subst h; simp
  | cons e rest ih =>
    intro bs h
    unfold renderAll at h
    split at h
    · cases h
    · next ob hx =>
      split at h
      · cases h
      · next bs' hr =>
        simp only [Option.some.injEq] at h
        subst h
        have := ih bs' hr
        cases ob with
        | none => exact this.cons _
        | some b =>
          have hp : b.path = e.path := by
            unfold xmlBind at hx
            split at hx
            · cases hx
            · split at hx
              · cases hx
              · cases ha : attrsOf root tops (Form.xpathStr e.path) e.q.trigger _ with
                | none => rw [ha] at hx; cases hx
                | some a =>
                  rw [ha] at hx
                  simp only [Option.map_some, Option.some.injEq] at hx
                  rw [← hx]
          simp only [List.map_cons, hp]
          exact this.cons_cons _

end Pyxv.Binds

namespace Pyxv.Binds
open Pyxv

/-! ### `split()`, `strip()`, `split("::")` -/

theorem splitWsAux_dropWhile (s : Str) : splitWsAux [] (s.dropWhile pyIsSpace) = splitWsAux [] s := by
  induction s with
  | nil => rfl
  | cons c cs ih =>
    by_cases hc : pyIsSpace c = true
    · rw [List.dropWhile_cons_of_pos hc, ih]
      conv => rhs; unfold splitWsAux
      simp [hc]
    · rw [List.dropWhile_cons_of_neg hc]

theorem splitWsAux_spaces (ws : Str) (hws : ∀ c ∈ ws, pyIsSpace c = true) :
    ∀ cur, splitWsAux cur ws = if cur.isEmpty then [] else [cur.reverse] := by
  induction ws with
  | nil => intro cur; unfold splitWsAux; rfl
  | cons c cs ih =>
    intro cur
    have hc : pyIsSpace c = true := hws c (List.mem_cons_self ..)
    have ih' := ih (fun x hx => hws x (List.mem_cons_of_mem _ hx))
    unfold splitWsAux
    simp only [hc, if_true]
    rw [ih' []]
    cases cur <;> simp

theorem splitWsAux_append_spaces (ws : Str) (hws : ∀ c ∈ ws, pyIsSpace c = true) :
    ∀ (a cur : Str), splitWsAux cur (a ++ ws) = splitWsAux cur a := by
  intro a
  induction a with
  | nil =>
    intro cur
    rw [List.nil_append, splitWsAux_spaces ws hws cur]
    unfold splitWsAux
    rfl
  | cons c cs ih =>
    intro cur
    rw [List.cons_append]
    unfold splitWsAux
    rw [ih, ih]

theorem rstrip_decomp (s : Str) : ∃ ws, (∀ c ∈ ws, pyIsSpace c = true) ∧ s = rstrip s ++ ws := by
  refine ⟨(s.reverse.takeWhile pyIsSpace).reverse, ?_, ?_⟩
  · intro c hc
    rw [List.mem_reverse] at hc
    have := List.all_takeWhile (p := pyIsSpace) (l := s.reverse)
    exact List.all_eq_true.mp this c hc
  · unfold rstrip
    rw [← List.reverse_append, List.takeWhile_append_dropWhile, List.reverse_reverse]

theorem splitWs_strip (s : Str) : splitWs (strip s) = splitWs s := by
  unfold splitWs strip
  obtain ⟨ws, hws, hd⟩ := rstrip_decomp (lstrip s)
  have h1 : splitWsAux [] (rstrip (lstrip s)) = splitWsAux [] (lstrip s) := by
    conv => rhs; rw [hd]
    rw [splitWsAux_append_spaces ws hws]
  rw [h1]
  exact splitWsAux_dropWhile s

theorem toSnakeCase_strip (s : Str) : toSnakeCase (strip s) = toSnakeCase s := by
  unfold toSnakeCase
  rw [splitWs_strip]

theorem splitOn2_none (d : Char) : ∀ (h : Str), (∀ c ∈ h, c ≠ d) → splitOn2 d h = [h] := by
  intro h
  induction h with
  | nil => intro _; rfl
  | cons c1 t ih =>
    intro hc
    cases t with
    | nil => rfl
    | cons c2 cs =>
      have h1 : c1 ≠ d := hc c1 (List.mem_cons_self ..)
      have iht := ih (fun x hx => hc x (List.mem_cons_of_mem _ hx))
      unfold splitOn2
      rw [if_neg (fun h => h1 h.1), iht]

theorem splitOnChar_none (d : Char) : ∀ (h : Str), (∀ c ∈ h, c ≠ d) → splitOnChar d h = [h] := by
  intro h
  induction h with
  | nil => intro _; rfl
  | cons c t ih =>
    intro hc
    have h1 : c ≠ d := hc c (List.mem_cons_self ..)
    have iht := ih (fun x hx => hc x (List.mem_cons_of_mem _ hx))
    unfold splitOnChar
    rw [iht]
    simp [h1]

theorem isInfix_dcolon_none : ∀ (h : Str), (∀ c ∈ h, c ≠ ':') → isInfix "::".toList h = false := by
  intro h
  induction h with
  | nil => intro _; rfl
  | cons c t ih =>
    intro hc
    have h1 : c ≠ ':' := hc c (List.mem_cons_self ..)
    have iht := ih (fun x hx => hc x (List.mem_cons_of_mem _ hx))
    unfold isInfix
    rw [iht, Bool.or_false]
    show startsWith (c :: t) [':', ':'] = false
    unfold startsWith
    simp [h1]

end Pyxv.Binds

namespace Pyxv.Binds
open Pyxv

/-! ### frame lemmas for the walk (noninterference) -/

/-- two rows that occupy the same place in the structure: same kind, same names -/
def sameShape : RK → RK → Prop
  | .skip, .skip => True
  | .qs l, .qs l' => l.map (·.name) = l'.map (·.name)
  | .begin_ rep pre q, .begin_ rep' pre' q' =>
    rep = rep' ∧ pre.map (·.name) = pre'.map (·.name) ∧ q.name = q'.name
  | .end_ a, .end_ b => a = b
  | _, _ => False

theorem mkElem_paths (root : Str) (st : List (Str × Bool)) (l : List Q) :
    (l.map (mkElem root st)).map (·.path) =
      (l.map (·.name)).map (fun n => root :: ((st.map (·.1)).reverse ++ [n])) := by
  simp [List.map_map, mkElem, Function.comp_def]

theorem sameShape_names (r r' : RK) (h : sameShape r r') : rkNames r = rkNames r' := by
  cases r <;> cases r' <;> simp only [sameShape] at h <;> simp_all [rkNames]

theorem walk_some_map {root : Str} {st : List (Str × Bool)} {rs : List RK} {pre es : List Elem}
    (h : (walk root st rs).map (pre ++ ·) = some es) : ∃ B, walk root st rs = some B ∧ es = pre ++ B := by
  cases hw : walk root st rs with
  | none => rw [hw] at h; cases h
  | some B => rw [hw] at h; simp only [Option.map_some, Option.some.injEq] at h; exact ⟨B, rfl, h.symm⟩

/-- replacing one row by a row of the same shape changes only that row's own elements, and not
    their paths -/
theorem walk_frame (root : Str) : ∀ (pre : List RK) (st : List (Str × Bool)) (r r' : RK) (post : List RK)
    (es : List Elem), sameShape r r' → walk root st (pre ++ r :: post) = some es →
    ∃ A M M' B, es = A ++ M ++ B ∧ walk root st (pre ++ r' :: post) = some (A ++ M' ++ B) ∧
      M.length = (rkNames r).length ∧ M'.length = (rkNames r').length ∧
      M.map (·.path) = M'.map (·.path) := by
  intro pre
  induction pre with
  | nil =>
    intro st r r' post es hs h
    simp only [List.nil_append] at h ⊢
    cases r <;> cases r' <;> simp only [sameShape] at hs
    · -- skip
      unfold walk at h ⊢
      exact ⟨[], [], [], es, by simp, by simpa using h, rfl, rfl, rfl⟩
    · -- qs
      next l l' =>
      unfold walk at h ⊢
      obtain ⟨B, hB, rfl⟩ := walk_some_map h
      refine ⟨[], l.map (mkElem root st), l'.map (mkElem root st), B, by simp, by simp [hB], by simp [rkNames],
        by simp [rkNames], ?_⟩
      rw [mkElem_paths, mkElem_paths, hs]
    · -- begin
      next rep p q rep' p' q' =>
      obtain ⟨h1, h2, h3⟩ := hs
      subst h1
      unfold walk at h ⊢
      obtain ⟨B, hB, rfl⟩ := walk_some_map h
      refine ⟨[], (p ++ [q]).map (mkElem root st), (p' ++ [q']).map (mkElem root st), B, by simp,
        by rw [← h3]; simp [hB], by simp [rkNames], by simp [rkNames], ?_⟩
      rw [mkElem_paths, mkElem_paths]
      simp [h2, h3]
    · -- end
      subst hs
      cases st with
      | nil => unfold walk at h; cases h
      | cons f st' =>
        obtain ⟨n, rp⟩ := f
        unfold walk at h ⊢
        exact ⟨[], [], [], es, by simp, by simpa using h, rfl, rfl, rfl⟩
  | cons x pre ih =>
    intro st r r' post es hs h
    simp only [List.cons_append] at h ⊢
    cases x with
    | skip =>
      unfold walk at h ⊢
      exact ih st r r' post es hs h
    | qs l =>
      unfold walk at h ⊢
      obtain ⟨B, hB, rfl⟩ := walk_some_map h
      obtain ⟨A, M, M', B', rfl, hw, h1, h2, h3⟩ := ih st r r' post B hs hB
      exact ⟨l.map (mkElem root st) ++ A, M, M', B', by simp, by simp [hw], h1, h2, h3⟩
    | begin_ rep p q =>
      unfold walk at h ⊢
      obtain ⟨B, hB, rfl⟩ := walk_some_map h
      obtain ⟨A, M, M', B', rfl, hw, h1, h2, h3⟩ := ih _ r r' post B hs hB
      exact ⟨(p ++ [q]).map (mkElem root st) ++ A, M, M', B', by simp, by simp [hw], h1, h2, h3⟩
    | end_ rep =>
      cases st with
      | nil => unfold walk at h; cases h
      | cons f st' =>
        obtain ⟨n, rp⟩ := f
        unfold walk at h ⊢
        split at h
        · next he => rw [if_pos he]; exact ih st' r r' post es hs h
        · cases h
    | unsupported w => unfold walk at h; cases h

theorem renderAll_append (root : Str) (tops : List Str) : ∀ (x y : List Elem) (bs : List Bind),
    renderAll root tops (x ++ y) = some bs →
    ∃ bx by_, renderAll root tops x = some bx ∧ renderAll root tops y = some by_ ∧ bs = bx ++ by_ := by
  intro x
  induction x with
  | nil => intro y bs h; exact ⟨[], bs, rfl, by simpa using h, rfl⟩
  | cons e rest ih =>
    intro y bs h
    rw [List.cons_append] at h
    unfold renderAll at h
    split at h
    · cases h
    · next ob hx =>
      split at h
      · cases h
      · next bs' hr =>
        simp only [Option.some.injEq] at h
        obtain ⟨bx, by_, h1, h2, rfl⟩ := ih y bs' hr
        subst h
        cases ob with
        | none => exact ⟨bx, by_, by simp only [renderAll, hx, h1], h2, rfl⟩
        | some b => exact ⟨b :: bx, by_, by simp only [renderAll, hx, h1], h2, rfl⟩

theorem renderAll_length (root : Str) (tops : List Str) (es : List Elem) (bs : List Bind)
    (h : renderAll root tops es = some bs) : bs.length ≤ es.length := by
  have := (renderAll_paths root tops es bs h).length_le
  simpa using this

theorem topNames_frame : ∀ (pre : List RK) (d : Nat) (r r' : RK) (post : List RK), sameShape r r' →
    topNames d (pre ++ r :: post) = topNames d (pre ++ r' :: post) := by
  intro pre
  induction pre with
  | nil =>
    intro d r r' post hs
    cases r <;> cases r' <;> simp only [sameShape] at hs <;> simp only [List.nil_append, topNames]
    · rw [hs]
    · rw [hs.2.1]
  | cons x pre ih =>
    intro d r r' post hs
    cases x <;> simp only [List.cons_append, topNames, ih _ r r' post hs]

end Pyxv.Binds

namespace Pyxv.Binds
open Pyxv

/-! ### lemmas for the `bind::x` / `bind:x` spellings -/

theorem mem_splitWsAux (c : Char) (hc : pyIsSpace c = false) :
    ∀ (s cur : Str), (c ∈ cur ∨ c ∈ s) → ∃ w ∈ splitWsAux cur s, c ∈ w := by
  intro s
  induction s with
  | nil =>
    intro cur h
    have hm : c ∈ cur := by rcases h with h | h; exact h; cases h
    unfold splitWsAux
    cases cur with
    | nil => cases hm
    | cons x xs => exact ⟨(x :: xs).reverse, by simp, List.mem_reverse.mpr hm⟩
  | cons d ds ih =>
    intro cur h
    unfold splitWsAux
    by_cases hd : pyIsSpace d = true
    · have hne : c ≠ d := by intro e; subst e; rw [hd] at hc; cases hc
      rw [if_pos hd]
      cases cur with
      | nil =>
        simp only [List.isEmpty_nil, if_true]
        apply ih []
        rcases h with h | h
        · cases h
        · rcases List.mem_cons.mp h with h | h
          · exact absurd h hne
          · exact Or.inr h
      | cons x xs =>
        simp only [List.isEmpty_cons, Bool.false_eq_true, if_false]
        rcases h with h | h
        · exact ⟨(x :: xs).reverse, List.mem_cons_self .., List.mem_reverse.mpr h⟩
        · rcases List.mem_cons.mp h with h | h
          · exact absurd h hne
          · obtain ⟨w, hw, hcw⟩ := ih [] (Or.inr h)
            exact ⟨w, List.mem_cons_of_mem _ hw, hcw⟩
    · rw [if_neg hd]
      apply ih (d :: cur)
      rcases h with h | h
      · exact Or.inl (List.mem_cons_of_mem _ h)
      · rcases List.mem_cons.mp h with h | h
        · exact Or.inl (by rw [h]; exact List.mem_cons_self ..)
        · exact Or.inr h

theorem mem_joinWith (sep : Str) (c : Char) : ∀ (l : List Str) (w : Str), w ∈ l → c ∈ w → c ∈ joinWith sep l := by
  intro l
  induction l with
  | nil => intro w h; cases h
  | cons x rest ih =>
    intro w hw hc
    cases rest with
    | nil =>
      simp only [List.mem_singleton] at hw
      subst hw
      simpa [joinWith] using hc
    | cons y r2 =>
      unfold joinWith
      rcases List.mem_cons.mp hw with h | h
      · subst h; simp [hc]
      · have := ih w h hc
        simp [this]

/-- a character that is neither whitespace nor an ASCII capital survives `to_snake_case` -/
theorem mem_toSnakeCase (c : Char) (h : Str) (hm : c ∈ h) (hs : pyIsSpace c = false)
    (hu : ¬ ('A' ≤ c ∧ c ≤ 'Z')) : c ∈ toSnakeCase h := by
  unfold toSnakeCase lowerAscii
  obtain ⟨w, hw, hcw⟩ := mem_splitWsAux c hs h [] (Or.inr hm)
  have := mem_joinWith ['_'] c (splitWs h) w hw hcw
  exact List.mem_map.mpr ⟨c, this, by simp [hu]⟩

theorem splitOn2_cons2 (d c1 c2 : Char) (cs : Str) :
    splitOn2 d (c1 :: c2 :: cs) =
      if c1 = d ∧ c2 = d then [] :: splitOn2 d cs
      else match splitOn2 d (c2 :: cs) with
        | [] => [[c1]]
        | f :: fs => (c1 :: f) :: fs := by
  first
    | exact splitOn2.eq_3 d c1 c2 cs
    | (rw [splitOn2]; split <;> rfl)

theorem splitOn2_of_noDouble : ∀ (a : Str), isInfix "::".toList a = false → splitOn2 ':' a = [a] := by
  intro a
  induction a with
  | nil => intro _; rfl
  | cons c1 t ih =>
    intro h
    cases t with
    | nil => rfl
    | cons c2 cs =>
      unfold isInfix at h
      have h1 : startsWith (c1 :: c2 :: cs) "::".toList = false := by
        cases hs : startsWith (c1 :: c2 :: cs) "::".toList with
        | false => rfl
        | true => rw [hs] at h; cases h
      have h2 : isInfix "::".toList (c2 :: cs) = false := by
        cases hs : isInfix "::".toList (c2 :: cs) with
        | false => rfl
        | true => rw [hs, Bool.or_true] at h; cases h
      have hne : ¬ (c1 = ':' ∧ c2 = ':') := by
        intro ⟨e1, e2⟩
        subst e1 e2
        simp [startsWith] at h1
      unfold splitOn2
      rw [if_neg hne, ih h2]

theorem splitOn2_prefix (a : Str) : ∀ (pre : Str), (∀ c ∈ pre, c ≠ ':') →
    splitOn2 ':' (pre ++ ':' :: ':' :: a) = pre :: splitOn2 ':' a := by
  intro pre
  induction pre with
  | nil => intro _; simp only [List.nil_append]; rw [splitOn2_cons2]; simp
  | cons c p ih =>
    intro hc
    have h1 : c ≠ ':' := hc c (List.mem_cons_self ..)
    have ihp := ih (fun x hx => hc x (List.mem_cons_of_mem _ hx))
    cases p with
    | nil =>
      simp only [List.cons_append, List.nil_append] at ihp ⊢
      rw [splitOn2_cons2, if_neg (fun h => h1 h.1), ihp]
    | cons c2 p2 =>
      simp only [List.cons_append] at ihp ⊢
      rw [splitOn2_cons2, if_neg (fun h => h1 h.1), ihp]

theorem isInfix_dcolon_prefix (a : Str) : ∀ (pre : Str), isInfix "::".toList (pre ++ ':' :: ':' :: a) = true := by
  intro pre
  induction pre with
  | nil => simp only [List.nil_append]; unfold isInfix; simp [startsWith]
  | cons c p ih => simp only [List.cons_append]; unfold isInfix; rw [ih]; exact Bool.or_true _

theorem isInfix_dcolon_single (a : Str) (ha : ∀ c ∈ a, c ≠ ':') : ∀ (pre : Str), (∀ c ∈ pre, c ≠ ':') →
    isInfix "::".toList (pre ++ ':' :: a) = false := by
  intro pre
  induction pre with
  | nil =>
    intro _
    simp only [List.nil_append]
    unfold isInfix
    rw [isInfix_dcolon_none a ha, Bool.or_false]
    cases a with
    | nil => simp [startsWith]
    | cons x xs =>
      have : x ≠ ':' := ha x (List.mem_cons_self ..)
      simp [startsWith, this]
  | cons c p ih =>
    intro hc
    have h1 : c ≠ ':' := hc c (List.mem_cons_self ..)
    simp only [List.cons_append]
    unfold isInfix
    rw [ih (fun x hx => hc x (List.mem_cons_of_mem _ hx)), Bool.or_false]
    show startsWith (c :: (p ++ ':' :: a)) [':', ':'] = false
    unfold startsWith
    simp [h1]

theorem splitOnChar_prefix (a : Str) (ha : ∀ c ∈ a, c ≠ ':') : ∀ (pre : Str), (∀ c ∈ pre, c ≠ ':') →
    splitOnChar ':' (pre ++ ':' :: a) = [pre, a] := by
  intro pre
  induction pre with
  | nil =>
    intro _
    simp only [List.nil_append]
    unfold splitOnChar
    rw [splitOnChar_none ':' a ha]
    simp
  | cons c p ih =>
    intro hc
    have h1 : c ≠ ':' := hc c (List.mem_cons_self ..)
    simp only [List.cons_append]
    unfold splitOnChar
    rw [ih (fun x hx => hc x (List.mem_cons_of_mem _ hx))]
    simp [h1]

end Pyxv.Binds

namespace Pyxv.Binds
open Pyxv

/-! ### the row loop is a fold whose only carried state is the row number and `table_list` -/

theorem processRows_frame (dl : Str) (key : List (Str × List Str)) (lists : List Str) :
    ∀ (pre : List (List (Str × Str))) (n : Nat) (tl : TL) (c : List (Str × Str)) (post : List (List (Str × Str)))
      (ks : List RK), processRows dl key lists n tl (pre ++ c :: post) = .ok ks →
    ∃ kpre kc kpost tl1 tl2, rowRKs dl key lists (n + pre.length) tl1 c = .ok (kc, tl2) ∧
      ks = kpre ++ kc ++ kpost ∧
      ∀ c' kc', rowRKs dl key lists (n + pre.length) tl1 c' = .ok (kc', tl2) →
        processRows dl key lists n tl (pre ++ c' :: post) = .ok (kpre ++ kc' ++ kpost) := by
  intro pre
  induction pre with
  | nil =>
    intro n tl c post ks h
    simp only [List.nil_append] at h
    unfold processRows at h
    split at h
    · cases h
    · next kc tl2 hc =>
      split at h
      · next kpost hp =>
        simp only [Except.ok.injEq] at h
        refine ⟨[], kc, kpost, tl, tl2, by simpa using hc, by simp [h], ?_⟩
        intro c' kc' hc'
        simp only [List.length_nil, Nat.add_zero] at hc'
        simp only [List.nil_append]
        unfold processRows
        rw [hc']
        simp only [hp]
      · cases h
  | cons x pre ih =>
    intro n tl c post ks h
    simp only [List.cons_append] at h
    unfold processRows at h
    split at h
    · cases h
    · next kx tlx hx =>
      split at h
      · next ks1 h1 =>
        simp only [Except.ok.injEq] at h
        obtain ⟨kpre, kc, kpost, tl1, tl2, hc, hk, hall⟩ := ih (n + 1) tlx c post ks1 h1
        have e : n + 1 + pre.length = n + (x :: pre).length := by simp only [List.length_cons]; omega
        rw [e] at hc
        refine ⟨kx ++ kpre, kc, kpost, tl1, tl2, hc, by rw [← h, hk]; simp, ?_⟩
        intro c' kc' hc'
        rw [← e] at hc'
        have := hall c' kc' hc'
        simp only [List.cons_append]
        unfold processRows
        rw [hx]
        simp only [this, List.append_assoc]
      · cases h

end Pyxv.Binds

namespace Pyxv.Binds
open Pyxv

/-! ### single-colon headers with more than one colon (`bind:jr:constraintMsg`) -/

theorem splitOnChar_prefix' (rest : Str) : ∀ (pre : Str), (∀ c ∈ pre, c ≠ ':') →
    splitOnChar ':' (pre ++ ':' :: rest) = pre :: splitOnChar ':' rest := by
  intro pre
  induction pre with
  | nil =>
    intro _
    simp only [List.nil_append]
    rw [splitOnChar]
    cases h : splitOnChar ':' rest with
    | nil => simp
    | cons f fs => simp
  | cons c p ih =>
    intro hc
    have h1 : c ≠ ':' := hc c (List.mem_cons_self ..)
    simp only [List.cons_append]
    rw [splitOnChar, ih (fun x hx => hc x (List.mem_cons_of_mem _ hx))]
    simp [h1]

theorem splitOnChar_ne_nil (d : Char) : ∀ (s : Str), splitOnChar d s ≠ [] := by
  intro s
  induction s with
  | nil => simp [splitOnChar]
  | cons c t ih =>
    rw [splitOnChar]
    cases h : splitOnChar d t with
    | nil => exact absurd h ih
    | cons f fs => by_cases hc : c = d <;> simp [hc]

/-- a colon-free prefix and one colon do not create a `::` unless the rest starts with a colon -/
theorem isInfix_dcolon_step (rest : Str) (hr : rest.head? ≠ some ':') : ∀ (pre : Str), (∀ c ∈ pre, c ≠ ':') →
    isInfix "::".toList (pre ++ ':' :: rest) = isInfix "::".toList rest := by
  intro pre
  induction pre with
  | nil =>
    intro _
    simp only [List.nil_append]
    rw [isInfix]
    have : startsWith (':' :: rest) "::".toList = false := by
      cases rest with
      | nil => simp [startsWith]
      | cons x xs =>
        have : x ≠ ':' := by intro e; subst e; simp at hr
        simp [startsWith, this]
    rw [this, Bool.false_or]
  | cons c p ih =>
    intro hc
    have h1 : c ≠ ':' := hc c (List.mem_cons_self ..)
    simp only [List.cons_append]
    rw [isInfix, ih (fun x hx => hc x (List.mem_cons_of_mem _ hx))]
    have : startsWith (c :: (p ++ ':' :: rest)) "::".toList = false := by
      show startsWith (c :: (p ++ ':' :: rest)) [':', ':'] = false
      unfold startsWith
      simp [h1]
    rw [this, Bool.false_or]

end Pyxv.Binds
