import Pyxv.Model.BackendsTyped
import Pyxv.Proofs.C12
/-!
# C12 — typed cells of both spreadsheet backends (boolean, number, date/time, error)

Theorems about `Pyxv.Backends.Typed` (`xlsx_clean_cell`/`xlsx_value_to_str` and
`xls_clean_cell`/`xls_value_to_unicode`, branch by branch) for all cell values.
-/
namespace Pyxv.Backends.Typed
open Pyxv Pyxv.Backends

/-! ## booleans -/

/-- xlsx: a boolean cell reads as TRUE / FALSE. -/
theorem xlsx_bool (b : Bool) : xlsxCellText (.bool b) = some (if b then "TRUE".toList else "FALSE".toList) := by
  cases b <;> rfl
example : xlsxCellText (.bool false) = some "FALSE".toList := xlsx_bool false

/-- xls: a BOOLEAN cell reads as TRUE iff its value is truthy (non-zero), FALSE otherwise — `0` is not
mistaken for an empty cell. -/
theorem xls_bool (v : Nat) : xlsCellText (.bool v) = .ok (some (if v ≠ 0 then "TRUE".toList else "FALSE".toList)) := rfl
example : xlsCellText (.bool 0) = .ok (some "FALSE".toList) := xls_bool 0

/-- booleans: both backends read the same text. -/
theorem bool_container_independent (b : Bool) (fr : Int → Str) :
    xlsCellText (toXls fr (.bool b)) = .ok (xlsxCellText (toXlsx (.bool b))) := by
  cases b <;> rfl
example : xlsCellText (toXls (fun _ => []) (.bool true)) = .ok (some "TRUE".toList) := by
  rw [bool_container_independent]; rfl

/-! ## numbers -/

/-- xlsx: an integral float reads as the integer's text, whatever `str(float)` would be. -/
theorem xlsx_integralFloat (n : Int) (r : Str) : xlsxCellText (.float (some n) r) = some (intText n) := rfl
example : xlsxCellText (.float (some 3) "3.0".toList) = some "3".toList := by rw [xlsx_integralFloat]; decide

/-- xls: an integral NUMBER reads as the integer's text, whatever `str(float)` would be. -/
theorem xls_integralNumber (n : Int) (r : Str) : xlsCellText (.number (some n) r) = .ok (some (intText n)) := rfl
example : xlsCellText (.number (some (-7)) "-7.0".toList) = .ok (some "-7".toList) := by rw [xls_integralNumber]; decide

/-- xls: a non-integral NUMBER reads as `str(float)` (the parameter), untouched. -/
theorem xls_decimal (r : Str) : xlsCellText (.number none r) = .ok (some r) := rfl
example : xlsCellText (.number none "1.5".toList) = .ok (some "1.5".toList) := xls_decimal _

theorem replaceNbsp_of_not_mem : ∀ (r : Str), nbsp ∉ r → replaceNbsp r = r
  | [], _ => rfl
  | c :: r, h => by
    have hc : c ≠ nbsp := fun e => h (by simp [e])
    have hr : nbsp ∉ r := fun m => h (List.mem_cons_of_mem _ m)
    have ih := replaceNbsp_of_not_mem r hr
    simp only [replaceNbsp, List.map_cons] at ih ⊢
    rw [ih]; simp [hc]
example : replaceNbsp "1.5".toList = "1.5".toList := replaceNbsp_of_not_mem _ (by decide)

/-- xlsx: a non-integral float goes through the `else` branch (`str(value)`, U+00A0 replaced); with a
`str(float)` free of U+00A0 — every real one — it reads as `str(float)`. -/
theorem xlsx_decimal (r : Str) (h : nbsp ∉ r) : xlsxCellText (.float none r) = some r := by
  show some (replaceNbsp r) = some r
  rw [replaceNbsp_of_not_mem r h]
example : xlsxCellText (.float none "0.1".toList) = some "0.1".toList := xlsx_decimal _ (by decide)

/-! ## the shared kinds: the per-backend models refine `cellText` -/

/-- side condition on the `str(float)` parameter: no U+00A0 (true of every Python float repr) -/
def ReprClean : Cell → Prop
  | .float none r => nbsp ∉ r
  | _ => True

instance : (c : Cell) → Decidable (ReprClean c)
  | .float none r => inferInstanceAs (Decidable (nbsp ∉ r))
  | .float (some _) _ => isTrue trivial
  | .none => isTrue trivial | .text _ => isTrue trivial | .int _ => isTrue trivial | .bool _ => isTrue trivial

/-- `xlsx_clean_cell` on openpyxl's value of a shared-kind cell is the (already tied) `cellText`. -/
theorem xlsx_refines_cellText (c : Cell) (h : ReprClean c) : xlsxCellText (toXlsx c) = cellText c := by
  cases c with
  | none => rfl
  | text s => rfl
  | int n => rfl
  | bool b => cases b <;> rfl
  | float i r =>
    cases i with
    | some n => rfl
    | none => exact (xlsx_decimal r h).trans (cellText_decimal r).symm

/-- `xls_clean_cell` on xlrd's cell of a shared-kind cell is `cellText`, for any `str(float)`. -/
theorem xls_refines_cellText (fr : Int → Str) (c : Cell) : xlsCellText (toXls fr c) = .ok (cellText c) := by
  cases c with
  | none => rfl
  | text s =>
    show (if allSpace (strip s) then _ else _) = Except.ok (if allSpace (strip s) then _ else _)
    split <;> rfl
  | int n => rfl
  | bool b => cases b <;> rfl
  | float i r => cases i <;> rfl

/-- container independence for every shared cell kind — blank, text (stripped, U+00A0 → space), int,
integral / non-integral float, boolean: xlrd's and openpyxl's rendering of the same cell read the same. -/
theorem typed_container_independent (fr : Int → Str) (c : Cell) (h : ReprClean c) :
    xlsCellText (toXls fr c) = .ok (xlsxCellText (toXlsx c)) := by
  rw [xls_refines_cellText, xlsx_refines_cellText c h]
example : xlsCellText (toXls (fun _ => "2.0".toList) (.int 2)) = .ok (xlsxCellText (toXlsx (.int 2))) :=
  typed_container_independent _ _ trivial
example : xlsxCellText (toXlsx (.text [' ', 'a', nbsp, 'b', ' '])) = some ['a', ' ', 'b'] := by decide

/-! ## date / time cells -/

/-- xls, "must be time only": a DATE cell whose tuple starts (0,0,0) reads as `HH:MM:SS`. -/
theorem xls_timeOnly (h mi s : Nat) :
    xlsCellText (.date (.tuple 0 0 0 h mi s)) = .ok (some (isoTime h mi s 0)) := rfl
example : xlsCellText (.date (.tuple 0 0 0 13 5 9)) = .ok (some "13:05:09".toList) := by decide

/-- xls: any other DATE cell reads as `YYYY-MM-DD HH:MM:SS`. -/
theorem xls_datetime (y mo d h mi s : Nat) (hd : (y, mo, d) ≠ (0, 0, 0)) :
    xlsCellText (.date (.tuple y mo d h mi s)) = .ok (some (isoDateTime y mo d h mi s 0)) := by
  show Except.map some (if (y, mo, d) = (0, 0, 0) then _ else _) = _
  rw [if_neg hd]; rfl
example : xlsCellText (.date (.tuple 2024 2 29 0 0 0)) = .ok (some "2024-02-29 00:00:00".toList) := by decide

/-- xls: the only cells that fail are DATE cells on which `xldate_as_tuple` raised — `XLDateAmbiguous`
becomes the PyXFormError, any other date error escapes; every other cell of every kind is read. -/
theorem xls_error_iff (v : XlsVal) (e : XlsErr) :
    xlsCellText v = .error e ↔
      (v = .date .ambiguous ∧ e = .dateAmbiguous) ∨ (v = .date .invalid ∧ e = .dateInvalid) := by
  constructor
  · intro h
    cases v with
    | empty => cases h
    | text s =>
      revert h
      show (if allSpace (strip s) then _ else _) = _ → _
      split <;> intro h <;> cases h
    | number i r => cases i <;> cases h
    | bool v => cases h
    | error c => cases h
    | date t =>
      cases t with
      | ambiguous => cases h; exact .inl ⟨rfl, rfl⟩
      | invalid => cases h; exact .inr ⟨rfl, rfl⟩
      | tuple y mo d h' mi s =>
        revert h
        show Except.map some (if (y, mo, d) = (0, 0, 0) then _ else _) = _ → _
        split <;> intro h <;> cases h
  · rintro (⟨rfl, rfl⟩ | ⟨rfl, rfl⟩) <;> rfl
example : xlsCellText (.date .ambiguous) = .error .dateAmbiguous := (xls_error_iff _ _).2 (.inl ⟨rfl, rfl⟩)

/-- date/time container independence: a DATE cell of xlrd and the `datetime.time` / `datetime.datetime`
(whole seconds) openpyxl delivers for the same moment read the same text. -/
theorem datetime_container_independent (y mo d h mi s : Nat) :
    xlsCellText (.date (.tuple y mo d h mi s)) =
      .ok (xlsxCellText (if (y, mo, d) = (0, 0, 0) then .time h mi s 0 else .datetime y mo d h mi s 0)) := by
  by_cases hd : (y, mo, d) = (0, 0, 0)
  · rw [if_pos hd]
    obtain ⟨rfl, rfl, rfl⟩ : y = 0 ∧ mo = 0 ∧ d = 0 := by simpa using hd
    rfl
  · rw [if_neg hd, xls_datetime _ _ _ _ _ _ hd]; rfl
example : xlsCellText (.date (.tuple 1999 12 31 23 59 58)) = .ok (xlsxCellText (.datetime 1999 12 31 23 59 58 0)) :=
  datetime_container_independent ..

/-- the text of a datetime has the fixed shape `dddd-dd-dd dd:dd:dd` (19 characters) when the microsecond
is zero, 26 otherwise; of a time 8 / 15. -/
theorem isoDateTime_length (y mo d h mi s us : Nat) :
    (isoDateTime y mo d h mi s us).length = if us = 0 then 19 else 26 := by
  by_cases hu : us = 0 <;> simp [isoDateTime, isoDate, isoTime, d2, d4, d6, hu]
theorem isoTime_length (h mi s us : Nat) : (isoTime h mi s us).length = if us = 0 then 8 else 15 := by
  by_cases hu : us = 0 <;> simp [isoTime, d2, d6, hu]
example : (isoDateTime 2024 1 2 3 4 5 0).length = 19 := by decide
example : isoDateTime 2024 1 2 3 4 5 678 = "2024-01-02 03:04:05.000678".toList := by decide
example : (isoTime 3 4 5 6).length = 15 := by decide

/-- a date / time cell is never read as blank, in either backend. -/
theorem xlsx_datetime_some (y mo d h mi s us : Nat) :
    xlsxCellText (.datetime y mo d h mi s us) = some (isoDateTime y mo d h mi s us) ∧
    xlsxCellText (.time h mi s us) = some (isoTime h mi s us) := ⟨rfl, rfl⟩
example : xlsxCellText (.time 7 8 9 0) = some "07:08:09".toList := by decide

/-! ## error cells, other objects -/

/-- xls: an ERROR cell reads as the decimal spelling of its error code (never blank, never raises). -/
theorem xls_errorCell (code : Nat) : xlsCellText (.error code) = .ok (some (replaceNbsp (intText code))) := rfl
example : xlsCellText (.error 7) = .ok (some "7".toList) := by decide

/-- xlsx: an error cell arrives as its text (`#DIV/0!` …) and reads as that text, like any string.
So the two backends do NOT agree on error cells (xls: the code `7`, xlsx: `#DIV/0!`). -/
theorem xlsx_errorCell_is_text (s : Str) : xlsxCellText (.str s) = cellText (.text s) := rfl
example : xlsxCellText (.str "#DIV/0!".toList) = some "#DIV/0!".toList ∧
    xlsCellText (.error 7) ≠ .ok (xlsxCellText (.str "#DIV/0!".toList)) := by decide

/-- xlsx: any other object (`datetime.date`, `timedelta`, …) reads as `str(value)` with U+00A0 → space. -/
theorem xlsx_other (r : Str) : xlsxCellText (.other r) = some (replaceNbsp r) := rfl
example : xlsxCellText (.other "2024-01-02".toList) = some "2024-01-02".toList := by decide

/-- a non-text, non-empty value is never read as blank (xlsx) -/
theorem xlsx_typed_some (v : XlsxVal) (h1 : v ≠ .none) (h2 : ∀ s, v ≠ .str s) : (xlsxCellText v).isSome = true := by
  cases v with
  | none => exact absurd rfl h1
  | str s => exact absurd rfl (h2 s)
  | bool b => cases b <;> rfl
  | float i r => cases i <;> rfl
  | _ => rfl
example : (xlsxCellText (.int 0)).isSome = true := xlsx_typed_some _ (by decide) (by intro s; exact fun h => by cases h)

end Pyxv.Backends.Typed
