import Pyxv.Proofs.ValidatorLemmas
import Pyxv.Proofs.ValidatorLines
import Pyxv.Proofs.ExtChoicesLemmas
/-!
# C18 — validator verdicts are honoured and failures leave no residue

Theorems about the model `Pyxv.Validator` (lean/Pyxv/Model/Validator.lean).  All of them quantify over every
validator outcome (`Env`: java missing, or any return code / watchdog flag / stderr text), every conversion
outcome (`Form`), every flag combination (`Args`) and every initial file system, unless a hypothesis says
otherwise.  `t` is the number of the temporary file `NamedTemporaryFile` creates; `FS.read fs (.tmp t) = none`
says that it is fresh (what `O_EXCL` guarantees).
-/
namespace Pyxv.Validator

/-! ## facts about the regenerated tables (re-checked against the current source on every run) -/

/-- the codes the property names: 100 / 101 / 999 -/
theorem cli_codes : codeOk = 100 ∧ codeWarn = 101 ∧ codeFail = 999 := by decide

theorem slash_not_seg : isSeg '/' = false := by decide +kernel

/-- the characters XLSForm names are commonly made of are path-segment characters; `$ { }` and blanks are not -/
theorem seg_chars_ascii :
    ("abcdefghijklmnopqrstuvwxyzABCDEFGHIJKLMNOPQRSTUVWXYZ0123456789_-".toList.all isSeg) = true ∧
    ("${} \t\n.,[]()='\"".toList.any isSeg) = false := by decide +kernel

/-- the shape of ERROR_MESSAGE_REGEX the token scan relies on (probed on the compiled regex) -/
theorem regex_shape : Gen.c18RegexShape.all (fun p => p.2) = true := by decide

theorem cleaner_tables_nonempty :
    noiseMarkers ≠ [] ∧ (noiseMarkers.all fun m => m ≠ []) ∧ (excPrefixes.all fun m => m ≠ []) ∧ jarfilePhrase ≠ [] := by
  decide +kernel

/-- the model's `isLineBreak` is Python's `str.splitlines()` boundary set (probed over every code point) -/
theorem isLineBreak_table (c : Char) : isLineBreak c = Gen.c18LineBreaks.contains c.toNat := by
  have h : Gen.c18LineBreaks = [10, 11, 12, 13, 28, 29, 30, 133, 8232, 8233] := by decide
  rw [h, Bool.eq_iff_iff]
  simp [isLineBreak]
  omega

/-- the blanks the strip lemmas reason about are exactly what Python's `str.strip()` removes (probed) -/
theorem strip_blanks_table : Gen.c18StripBlanks = spaceNats := by decide

/-- … and `pyIsSpace` (Base) accepts exactly those code points -/
theorem pyIsSpace_table (c : Char) : pyIsSpace c = Gen.c18StripBlanks.contains c.toNat := by
  rw [strip_blanks_table, Bool.eq_iff_iff]
  simp [pyIsSpace, spaceNats]
  omega

theorem watchdog_positive : 0 < Gen.c18ValidatorTimeout := by decide

/-! ## the state machine -/

/-- `to_xml` leaves the file system exactly as it found it, whatever happens inside (`finally`). -/
theorem toXml_fs (form : Form) (t : Nat) (v p : Bool) (env : Env) (fs : FS) (hfresh : FS.read fs (.tmp t) = none) :
    (toXml form t v p env fs).fs = fs := by
  have h := unlink_fresh fs (.tmp t) hfresh
  unfold toXml printXformToFile
  cases form <;> simp only [] <;> (try split) <;> (try split) <;>
    simp [unlink_write, unlink_unlink, h]

/-- Library call: under every validator outcome, every form outcome and both values of `validate`, the file
system after `convert` equals the file system before (so in particular no temporary file survives). -/
theorem no_temp_survives_lib (form : Form) (t : Nat) (v p : Bool) (env : Env) (fs : FS)
    (hfresh : FS.read fs (.tmp t) = none) : (convert form t v p env fs).fs = fs := by
  have h := toXml_fs form t v p env fs hfresh
  unfold convert
  cases form <;> simp only [] <;> split <;> simp_all

/-- shorthand: the library call `main_cli` ends up making -/
abbrev libCall (raw : Args) (form : Form) (t : Nat) (env : Env) (fs : FS) : LibOut :=
  convert form t (validatorArgsLogic raw).odkValidate (validatorArgsLogic raw).prettyPrint env fs

theorem temps_written (fs : FS) (d n : Str) (cr : ConvertResult) : FS.temps (written fs d n cr) = FS.temps fs := by
  unfold written
  split <;> simp [temps_write_file]

theorem xls2xformConvert_temps (form : Form) (t : Nat) (d n : Str) (v p : Bool) (env : Env) (fs : FS)
    (hfresh : FS.read fs (.tmp t) = none) :
    FS.temps (xls2xformConvert form t d n v p env fs).fs = FS.temps fs := by
  have h := no_temp_survives_lib form t v p env fs hfresh
  unfold xls2xformConvert
  split <;> simp [h, temps_written]

theorem jsonReport_fs (x : ConvOut) : (jsonReport x).fs = x.fs := by
  unfold jsonReport; split <;> rfl

theorem plainReport_temps (x : ConvOut) (d n : Str) : FS.temps (plainReport x d n).fs = FS.temps x.fs := by
  unfold plainReport; split <;> simp [temps_unlink_file]

theorem mainCli_eq (raw : Args) (inDir inName : Str) (out : Option (Str × Str)) (form : Form) (t : Nat)
    (env : Env) (fs : FS) (r : CliOut) (h : mainCli raw inDir inName out form t env fs = some r) :
    (validatorArgsLogic raw).enketoValidate = false ∧
    r = (if (validatorArgsLogic raw).json then
          jsonReport (xls2xformConvert form t (outPathOf inDir inName out).1 (outPathOf inDir inName out).2
            (validatorArgsLogic raw).odkValidate (validatorArgsLogic raw).prettyPrint env fs)
        else
          plainReport (xls2xformConvert form t (outPathOf inDir inName out).1 (outPathOf inDir inName out).2
            (validatorArgsLogic raw).odkValidate (validatorArgsLogic raw).prettyPrint env fs)
            (outPathOf inDir inName out).1 (outPathOf inDir inName out).2) := by
  unfold mainCli at h
  by_cases he : (validatorArgsLogic raw).enketoValidate = true
  · simp [he] at h
  · simp only [he, Bool.false_eq_true, ↓reduceIte, Option.some.injEq] at h
    exact ⟨by simpa using he, h.symm⟩

theorem mainCli_some (raw : Args) (inDir inName : Str) (out : Option (Str × Str)) (form : Form) (t : Nat)
    (env : Env) (fs : FS) (he : (validatorArgsLogic raw).enketoValidate = false) :
    mainCli raw inDir inName out form t env fs = some
      (if (validatorArgsLogic raw).json then
          jsonReport (xls2xformConvert form t (outPathOf inDir inName out).1 (outPathOf inDir inName out).2
            (validatorArgsLogic raw).odkValidate (validatorArgsLogic raw).prettyPrint env fs)
        else
          plainReport (xls2xformConvert form t (outPathOf inDir inName out).1 (outPathOf inDir inName out).2
            (validatorArgsLogic raw).odkValidate (validatorArgsLogic raw).prettyPrint env fs)
            (outPathOf inDir inName out).1 (outPathOf inDir inName out).2) := by
  simp [mainCli, he]

/-- **no_temp_survives** — command line: for every flag combination, validator outcome, form outcome,
pre-existing files and output path, the temporary files after `main_cli` are those before it. -/
theorem no_temp_survives (raw : Args) (inDir inName : Str) (out : Option (Str × Str)) (form : Form) (t : Nat)
    (env : Env) (fs : FS) (r : CliOut) (hfresh : FS.read fs (.tmp t) = none)
    (h : mainCli raw inDir inName out form t env fs = some r) : FS.temps r.fs = FS.temps fs := by
  obtain ⟨_, rfl⟩ := mainCli_eq raw inDir inName out form t env fs r h
  split
  · rw [jsonReport_fs]; exact xls2xformConvert_temps _ _ _ _ _ _ _ _ hfresh
  · rw [plainReport_temps]; exact xls2xformConvert_temps _ _ _ _ _ _ _ _ hfresh

/-- corollary in the form of the property text: an empty temp directory stays empty -/
theorem no_temp_survives_empty (raw : Args) (inDir inName : Str) (out : Option (Str × Str)) (form : Form) (t : Nat)
    (env : Env) (fs : FS) (r : CliOut) (hempty : FS.temps fs = [])
    (h : mainCli raw inDir inName out form t env fs = some r) : FS.temps r.fs = [] := by
  have hfresh : FS.read fs (.tmp t) = none := by
    rw [read_none_iff]
    intro e he heq
    have : e ∈ FS.temps fs := by simp [FS.temps, he, heq, Path.isTmp]
    rw [hempty] at this
    exact absurd this (by simp)
  rw [no_temp_survives raw inDir inName out form t env fs r hfresh h, hempty]

/-- a validator verdict "reject": the process ran to completion with a positive return code -/
def Rejects (env : Env) (stderr : Str) : Prop := ∃ rc : Int, rc > 0 ∧ env = .ran ⟨rc, false, stderr⟩

theorem checkXform_reject (env : Env) (stderr : Str) (h : Rejects env stderr) :
    checkXform env = .error (.odkValidate (msgErrorsPrefix ++ odkValidate stderr)) := by
  obtain ⟨rc, hrc, rfl⟩ := h
  simp [checkXform, hrc]

/-- **reject_raises** — `convert(validate=True)` on a convertible form raises ODKValidateError carrying the
cleaned diagnostic, for every positive return code and every stderr text. -/
theorem reject_raises (ugly pretty : Str) (items : Option Str) (preW postW : List Str) (t : Nat) (p : Bool)
    (env : Env) (stderr : Str) (fs : FS) (h : Rejects env stderr) :
    (convert (.ok ugly pretty items preW postW) t true p env fs).res
      = .error (.odkValidate (msgErrorsPrefix ++ odkValidate stderr)) := by
  simp [convert, toXml, printXformToFile, checkXform_reject env stderr h]

/-- validation is requested on the command line: no `--skip_validate`, no `--enketo_validate` -/
def OdkRequested (raw : Args) : Prop := raw.skipValidate = true ∧ raw.enketoValidate = false

theorem odkRequested_logic (raw : Args) (h : OdkRequested raw) :
    (validatorArgsLogic raw).odkValidate = true ∧ (validatorArgsLogic raw).enketoValidate = false ∧
    (validatorArgsLogic raw).json = raw.json ∧ (validatorArgsLogic raw).prettyPrint = raw.prettyPrint := by
  obtain ⟨h1, h2⟩ := h
  rcases raw with ⟨j, s, o, e, pp⟩
  simp only at h1 h2
  subst h1 h2
  cases o <;> simp [validatorArgsLogic]

/-- **reject_cli_json_999_no_output_written** — `--json`, validator rejects: code 999 with the cleaned
diagnostic as message, no warnings, nothing raised, and the file system is *unchanged* (no XForm, no
itemsets.csv, a pre-existing output file keeps its content). -/
theorem reject_cli_json_999_no_output_written (raw : Args) (inDir inName : Str) (out : Option (Str × Str))
    (ugly pretty : Str) (items : Option Str) (preW postW : List Str) (t : Nat) (env : Env) (stderr : Str) (fs : FS)
    (hreq : OdkRequested raw) (hjson : raw.json = true) (hrej : Rejects env stderr)
    (hfresh : FS.read fs (.tmp t) = none) :
    ∃ r, mainCli raw inDir inName out (.ok ugly pretty items preW postW) t env fs = some r ∧
      r.json = some ⟨codeFail, msgErrorsPrefix ++ odkValidate stderr, []⟩ ∧ r.raised = none ∧ r.fs = fs ∧
      codeFail = 999 := by
  obtain ⟨ho, he, hj, _⟩ := odkRequested_logic raw hreq
  have hl := no_temp_survives_lib (.ok ugly pretty items preW postW) t true (validatorArgsLogic raw).prettyPrint env fs hfresh
  have hr := reject_raises ugly pretty items preW postW t (validatorArgsLogic raw).prettyPrint env stderr fs hrej
  refine ⟨_, mainCli_some raw inDir inName out _ t env fs he, ?_, ?_, ?_, cli_codes.2.2⟩ <;>
    simp [hj, hjson, ho, xls2xformConvert, hr, jsonReport, Exc.msg, hl]

/-- **reject_cli_plain_unlinks** — plain mode, validator rejects: an error is logged (with the exception),
nothing propagates, and the output path does not exist afterwards — also when it existed before. The rest of
the file system is untouched. -/
theorem reject_cli_plain_unlinks (raw : Args) (inDir inName : Str) (out : Option (Str × Str))
    (ugly pretty : Str) (items : Option Str) (preW postW : List Str) (t : Nat) (env : Env) (stderr : Str) (fs : FS)
    (hreq : OdkRequested raw) (hjson : raw.json = false) (hrej : Rejects env stderr)
    (hfresh : FS.read fs (.tmp t) = none) :
    ∃ r, mainCli raw inDir inName out (.ok ugly pretty items preW postW) t env fs = some r ∧
      FS.read r.fs (.file (outPathOf inDir inName out).1 (outPathOf inDir inName out).2) = none ∧
      r.fs = FS.unlink fs (.file (outPathOf inDir inName out).1 (outPathOf inDir inName out).2) ∧
      r.logs = [.exception (plainLogFor "ODKValidateError") "ODKValidateError"] ∧ r.raised = none ∧ r.json = none := by
  obtain ⟨ho, he, hj, _⟩ := odkRequested_logic raw hreq
  have hl := no_temp_survives_lib (.ok ugly pretty items preW postW) t true (validatorArgsLogic raw).prettyPrint env fs hfresh
  have hr := reject_raises ugly pretty items preW postW t (validatorArgsLogic raw).prettyPrint env stderr fs hrej
  refine ⟨_, mainCli_some raw inDir inName out _ t env fs he, ?_, ?_, ?_, ?_, ?_⟩ <;>
    simp [hj, hjson, ho, xls2xformConvert, hr, plainReport, hl, read_unlink_same, Exc.cls]

/-- a validator verdict "accept": return code 0, watchdog silent -/
def Accepts (env : Env) (stderr : Str) : Prop := env = .ran ⟨0, false, stderr⟩

/-- the warnings `convert(validate=True)` returns when the validator accepts: conversion warnings, then the
validator's stderr (one entry, only if non-empty), then the language-tag warning -/
def acceptWarnings (preW postW : List Str) (stderr : Str) : List Str :=
  preW ++ (if stderr ≠ [] then [msgWarningsPrefix ++ stderr] else []) ++ postW

theorem convert_accept (ugly pretty : Str) (items : Option Str) (preW postW : List Str) (t : Nat) (p : Bool)
    (env : Env) (stderr : Str) (fs : FS) (h : Accepts env stderr) :
    (convert (.ok ugly pretty items preW postW) t true p env fs).res
      = .ok ⟨if p then pretty else ugly, acceptWarnings preW postW stderr, items⟩ := by
  subst h
  by_cases hs : stderr = [] <;> simp [convert, toXml, printXformToFile, checkXform, acceptWarnings, hs]

/-- **accept_warnings_codes** — `--json`, validator accepts: the response carries exactly the warnings of the
library call (the validator's stderr among them iff it is non-empty), and the code is 101 iff that list is
non-empty, else 100. -/
theorem accept_warnings_codes (raw : Args) (inDir inName : Str) (out : Option (Str × Str))
    (ugly pretty : Str) (items : Option Str) (preW postW : List Str) (t : Nat) (env : Env) (stderr : Str) (fs : FS)
    (hreq : OdkRequested raw) (hjson : raw.json = true) (hacc : Accepts env stderr) :
    ∃ r j, mainCli raw inDir inName out (.ok ugly pretty items preW postW) t env fs = some r ∧ r.json = some j ∧
      r.raised = none ∧ j.warnings = acceptWarnings preW postW stderr ∧
      (j.code = 101 ↔ j.warnings ≠ []) ∧ (j.code = 100 ↔ j.warnings = []) ∧
      (stderr ≠ [] → (msgWarningsPrefix ++ stderr) ∈ j.warnings ∧ j.code = 101) := by
  obtain ⟨ho, he, hj, _⟩ := odkRequested_logic raw hreq
  have hc := convert_accept ugly pretty items preW postW t (validatorArgsLogic raw).prettyPrint env stderr fs hacc
  obtain ⟨c100, c101, _⟩ := cli_codes
  by_cases hw : acceptWarnings preW postW stderr = []
  · refine ⟨_, ⟨codeOk, msgOk, []⟩, mainCli_some raw inDir inName out _ t env fs he, ?_, ?_, ?_, ?_, ?_, ?_⟩
    · simp [hj, hjson, ho, xls2xformConvert, hc, jsonReport, hw]
    · simp [hj, hjson, ho, xls2xformConvert, hc, jsonReport, hw]
    · simp [hw]
    · simp [c100]
    · simp [c100]
    · intro hs
      exfalso
      simp [acceptWarnings, hs] at hw
  · refine ⟨_, ⟨codeWarn, msgOkWarn, acceptWarnings preW postW stderr⟩, mainCli_some raw inDir inName out _ t env fs he,
      ?_, ?_, ?_, ?_, ?_, ?_⟩
    · simp [hj, hjson, ho, xls2xformConvert, hc, jsonReport, hw]
    · simp [hj, hjson, ho, xls2xformConvert, hc, jsonReport, hw]
    · rfl
    · simp [c101, hw]
    · simp [c101, hw]
    · intro hs
      exact ⟨by simp [acceptWarnings, hs], c101⟩

theorem jsonReport_ok_fs (x : ConvOut) : (jsonReport x).fs = x.fs := jsonReport_fs x

theorem plainReport_ok_fs (x : ConvOut) (d n : Str) (w : List Str) (h : x.res = .ok w) : (plainReport x d n).fs = x.fs := by
  unfold plainReport; simp [h]

/-- **file_equals_library_result** — every mode (plain or `--json`, with or without validation), every
validator outcome: whenever the library call with the same effective flags returns a result, the file at the
output path holds exactly `result.xform` — provided the output is not itself named like the itemsets file
while external choices exist (finding C18-F3 is the complement of this hypothesis). -/
theorem file_equals_library_result (raw : Args) (inDir inName : Str) (out : Option (Str × Str)) (form : Form) (t : Nat)
    (env : Env) (fs : FS) (r : CliOut) (cr : ConvertResult)
    (h : mainCli raw inDir inName out form t env fs = some r)
    (hlib : (libCall raw form t env fs).res = .ok cr)
    (hname : (outPathOf inDir inName out).2 ≠ itemsetsName ∨ cr.itemsets = none) :
    FS.read r.fs (.file (outPathOf inDir inName out).1 (outPathOf inDir inName out).2) = some cr.xform := by
  obtain ⟨_, rfl⟩ := mainCli_eq raw inDir inName out form t env fs r h
  simp only [libCall] at hlib
  have hx : (xls2xformConvert form t (outPathOf inDir inName out).1 (outPathOf inDir inName out).2
      (validatorArgsLogic raw).odkValidate (validatorArgsLogic raw).prettyPrint env fs)
      = ⟨written (libCall raw form t env fs).fs (outPathOf inDir inName out).1 (outPathOf inDir inName out).2 cr,
         (libCall raw form t env fs).seen, itemsLogs (outPathOf inDir inName out).1 cr, .ok cr.warnings⟩ := by
    simp [xls2xformConvert, hlib, libCall]
  have hread : FS.read (written (libCall raw form t env fs).fs (outPathOf inDir inName out).1 (outPathOf inDir inName out).2 cr)
      (.file (outPathOf inDir inName out).1 (outPathOf inDir inName out).2) = some cr.xform := by
    unfold written
    cases hi : cr.itemsets with
    | none => exact read_write_same _ _ _
    | some items =>
      have hne : (outPathOf inDir inName out).2 ≠ itemsetsName := by
        rcases hname with hn | hn
        · exact hn
        · rw [hi] at hn; exact absurd hn (by simp)
      simp only []
      rw [read_write_other _ _ _ _ (by intro e; injection e with _ e2; exact hne e2)]
      exact read_write_same _ _ _
  split
  · rw [jsonReport_fs, hx]; exact hread
  · rw [plainReport_ok_fs _ _ _ cr.warnings (by rw [hx]), hx]; exact hread

/-- **itemsets_beside** — whenever the library call returns external choices, `itemsets.csv` in the directory
of the output path holds exactly `result.itemsets` (no side condition: it is written last). -/
theorem itemsets_beside (raw : Args) (inDir inName : Str) (out : Option (Str × Str)) (form : Form) (t : Nat)
    (env : Env) (fs : FS) (r : CliOut) (cr : ConvertResult) (items : Str)
    (h : mainCli raw inDir inName out form t env fs = some r)
    (hlib : (libCall raw form t env fs).res = .ok cr)
    (hitems : cr.itemsets = some items) :
    FS.read r.fs (.file (outPathOf inDir inName out).1 itemsetsName) = some items := by
  obtain ⟨_, rfl⟩ := mainCli_eq raw inDir inName out form t env fs r h
  simp only [libCall] at hlib
  have hx : (xls2xformConvert form t (outPathOf inDir inName out).1 (outPathOf inDir inName out).2
      (validatorArgsLogic raw).odkValidate (validatorArgsLogic raw).prettyPrint env fs)
      = ⟨written (libCall raw form t env fs).fs (outPathOf inDir inName out).1 (outPathOf inDir inName out).2 cr,
         (libCall raw form t env fs).seen, itemsLogs (outPathOf inDir inName out).1 cr, .ok cr.warnings⟩ := by
    simp [xls2xformConvert, hlib, libCall]
  have hread : FS.read (written (libCall raw form t env fs).fs (outPathOf inDir inName out).1 (outPathOf inDir inName out).2 cr)
      (.file (outPathOf inDir inName out).1 itemsetsName) = some items := by
    simp only [written, hitems]
    exact read_write_same _ _ _
  split
  · rw [jsonReport_fs, hx]; exact hread
  · rw [plainReport_ok_fs _ _ _ cr.warnings (by rw [hx]), hx]; exact hread

/-- the temp-file write inside `print_xform_to_file` fails: disk fault (OSError) or unencodable text -/
def writeFailure (form : Form) (e : Exc) : Prop :=
  (∃ m, form = .diskFault m ∧ e = .osError m) ∨ (∃ m, form = .unencodable m ∧ e = .encode m)

theorem convert_writeFailure (form : Form) (e : Exc) (t : Nat) (v p : Bool) (env : Env) (fs : FS)
    (h : writeFailure form e) :
    (convert form t v p env fs).res = .error e ∧ (convert form t v p env fs).seen = [] := by
  rcases h with ⟨m, rfl, rfl⟩ | ⟨m, rfl, rfl⟩ <;> simp [convert, toXml, printXformToFile]

/-- **write_failure_cli** — crash point "writing the XForm text to the temporary file fails" (the `except` branch
of `print_xform_to_file`), library and command line, for every flag combination, validator environment, output path
and initial file system: the validator is never started, the file system afterwards equals the one before (no
temp file, no output, no itemsets), `--json` reports 999 with the error text; plain mode logs an OSError as
"EnvironmentError" and lets any other exception propagate. -/
theorem write_failure_cli (raw : Args) (inDir inName : Str) (out : Option (Str × Str)) (form : Form) (e : Exc) (t : Nat)
    (env : Env) (fs : FS) (h : writeFailure form e) (he : (validatorArgsLogic raw).enketoValidate = false)
    (hfresh : FS.read fs (.tmp t) = none) :
    (libCall raw form t env fs).res = .error e ∧ (libCall raw form t env fs).fs = fs ∧
    ∃ r, mainCli raw inDir inName out form t env fs = some r ∧ r.fs = fs ∧ r.seen = [] ∧
      ((validatorArgsLogic raw).json = true → r.json = some ⟨codeFail, e.msg, []⟩ ∧ r.raised = none ∧ r.logs = []) ∧
      ((validatorArgsLogic raw).json = false → r.json = none ∧
        (∀ m, e = .osError m → r.raised = none ∧ r.logs = [.exception (plainLogFor "OSError") "OSError"]) ∧
        (∀ m, e = .encode m → r.raised = some e ∧ r.logs = [])) := by
  have hc := convert_writeFailure form e t (validatorArgsLogic raw).odkValidate (validatorArgsLogic raw).prettyPrint env fs h
  have hl := no_temp_survives_lib form t (validatorArgsLogic raw).odkValidate (validatorArgsLogic raw).prettyPrint env fs hfresh
  refine ⟨hc.1, hl, _, mainCli_some raw inDir inName out form t env fs he, ?_, ?_, ?_, ?_⟩
  · by_cases hj : (validatorArgsLogic raw).json = true
    · simp [hj, jsonReport_fs, xls2xformConvert, hc.1, hl]
    · rcases h with ⟨m, rfl, rfl⟩ | ⟨m, rfl, rfl⟩ <;> simp [hj, plainReport, xls2xformConvert, hc.1, hl]
  · by_cases hj : (validatorArgsLogic raw).json = true
    · simp [hj, jsonReport, xls2xformConvert, hc.1, hc.2]
    · rcases h with ⟨m, rfl, rfl⟩ | ⟨m, rfl, rfl⟩ <;> simp [hj, plainReport, xls2xformConvert, hc.1, hc.2]
  · intro hj
    simp [hj, jsonReport, xls2xformConvert, hc.1]
  · intro hj
    rcases h with ⟨m, rfl, rfl⟩ | ⟨m, rfl, rfl⟩ <;> simp [hj, plainReport, xls2xformConvert, hc.1, Exc.cls]

/-! ## `_validator_args_logic` -/

/-- **args_logic_table** — the eight rows (stored `skip_validate`, `--odk_validate`, `--enketo_validate`) ↦
(run ODK Validate, run Enketo Validate), as documented in the docstring. -/
theorem args_logic_table :
    (List.map (fun (x : Bool × Bool × Bool) =>
        let a := validatorArgsLogic { skipValidate := x.1, odkValidate := x.2.1, enketoValidate := x.2.2 }
        (a.odkValidate, a.enketoValidate))
      [(true, false, false), (true, true, false), (true, false, true), (true, true, true),
       (false, false, false), (false, true, false), (false, false, true), (false, true, true)])
    = [(true, false), (true, false), (false, true), (true, true),
       (false, false), (false, false), (false, false), (false, false)] := by decide

/-- the general statement: for *every* `Args` value, `--skip_validate` switches both validators off; otherwise
Enketo runs iff asked for and ODK runs iff asked for or nothing was asked for; no other field changes. -/
theorem args_logic_spec (a : Args) :
    let b := validatorArgsLogic a
    b.odkValidate = (a.skipValidate && (a.odkValidate || !a.enketoValidate)) ∧
    b.enketoValidate = (a.skipValidate && a.enketoValidate) ∧
    b.json = a.json ∧ b.prettyPrint = a.prettyPrint ∧ b.skipValidate = a.skipValidate := by
  rcases a with ⟨j, s, o, e, p⟩
  cases s <;> cases o <;> cases e <;> simp [validatorArgsLogic]

/-! ## the error cleaner -/

/-- **cleaner_dedup** — for every message: after `_cleanup_errors` no two neighbouring lines are equal, no
line is invented and none is lost. -/
theorem cleaner_dedup (msg : Str) :
    noAdjDup (cleanupErrors msg) = true ∧
    (∀ l, l ∈ cleanupErrors msg ↔ l ∈ splitlines (strip (subPaths msg))) ∧
    (cleanupErrors msg).Sublist (splitlines (strip (subPaths msg))) :=
  ⟨dedupAdj_noAdjDup _, fun l => dedupAdj_mem _ l, dedupAdj_sublist _⟩

/-- **cleaner_no_java_noise** — for every message that is not the launcher's "Unable to access jarfile": the
result is the `\n`-join of lines none of which carries a stack marker (`.java:` / `\tat`); each of them stems from
a marker-free line of the input by deleting the exception names, and every line with a marker is gone. -/
theorem cleaner_no_java_noise (msg : Str) (hjar : isInfix jarfilePhrase msg = false) :
    odkValidate msg = joinWith ['\n'] (cleanLines msg) ∧
    (∀ l ∈ cleanLines msg, isNoisy l = false ∧ ∃ l0 ∈ cleanupErrors msg, isNoisy l0 = false ∧ l = stripExc l0) ∧
    cleanLines msg = (((cleanupErrors msg).filter (fun l => !isNoisy l)).map stripExc).filter (fun l => !isNoisy l) := by
  refine ⟨by simp [odkValidate, hjar], ?_, ?_⟩
  · intro l hl
    simp only [cleanLines, List.mem_filterMap, removeJava] at hl
    obtain ⟨l0, h0, h1⟩ := hl
    by_cases hn : isNoisy l0 = true
    · simp [hn] at h1
    · by_cases hn2 : isNoisy (stripExc l0) = true
      · simp [hn, hn2] at h1
      · simp only [hn, hn2] at h1
        have hl : l = stripExc l0 := by simpa using h1.symm
        exact ⟨by rw [hl]; simpa using hn2, l0, h0, by simpa using hn, hl⟩
  · simp only [cleanLines]
    induction cleanupErrors msg with
    | nil => rfl
    | cons x rest ih =>
      by_cases hn : isNoisy x = true
      · simp [List.filterMap_cons, removeJava, hn, List.filter_cons, ih]
      · by_cases hn2 : isNoisy (stripExc x) = true <;>
          simp [List.filterMap_cons, removeJava, hn, hn2, List.filter_cons, ih]

/-- the shape that used to slip through (finding C18-F1, repaired): the line itself has no marker, its cleaned
form has one — it is dropped now -/
example : isNoisy "java.lang.RuntimeException: Foo.javajava.lang.RuntimeException: :12".toList = false ∧
    isNoisy (stripExc "java.lang.RuntimeException: Foo.javajava.lang.RuntimeException: :12".toList) = true ∧
    odkValidate "java.lang.RuntimeException: Foo.javajava.lang.RuntimeException: :12\nkept".toList = "kept".toList := by
  decide +kernel

/-- **cleaner_paths_to_refs** — every *delimited* occurrence of a path `/s1/…/sn` (n ≥ 2, segments non-empty and
made of segment characters; the text before it is empty or ends in a non-segment character, the text after it
is empty or starts with a character that is neither a segment character nor `/`) is rewritten independently of
its context: to `${sn}`, or left alone when it belongs to one of the kept families. -/
theorem cleaner_paths_to_refs (pre post : Str) (segs : List Str)
    (hpre : pre = [] ∨ ∃ p c, pre = p ++ [c] ∧ isSeg c = false)
    (hpost : post = [] ∨ ∃ c r, post = c :: r ∧ isSeg c = false ∧ c ≠ '/')
    (hsegs : ∀ s ∈ segs, s ≠ [] ∧ ∀ c ∈ s, isSeg c = true) (hlen : 2 ≤ segs.length) :
    subPaths (pre ++ chainText segs ++ post) = subPaths pre ++ replacement segs ++ subPaths post ∧
    (keepMatch (chainText segs) = false → replacement segs = '$' :: '{' :: (segs.getLastD []) ++ ['}']) ∧
    (keepMatch (chainText segs) = true → replacement segs = chainText segs) := by
  refine ⟨?_, by intro h; simp [replacement, h], by intro h; simp [replacement, h]⟩
  have hslash := slash_not_seg
  obtain ⟨s1, s2, rest, rfl⟩ : ∃ a b r, segs = a :: b :: r := by
    match segs, hlen with
    | a :: b :: r, _ => exact ⟨a, b, r, rfl⟩
  have hpost' : ∀ c r, post = c :: r → isSeg c = false := by
    intro c r h
    rcases hpost with h0 | ⟨c', r', h1, h2, _⟩
    · rw [h0] at h; exact absurd h (by simp)
    · rw [h1] at h; injection h with hc _; rw [← hc]; exact h2
  have hchain_head : ∀ c r, chainText (s1 :: s2 :: rest) ++ post = c :: r → isSeg c = false := by
    intro c r h
    simp only [chainText, List.cons_append] at h
    injection h with hc _
    rw [← hc]; exact hslash
  have htoks : toks (pre ++ chainText (s1 :: s2 :: rest) ++ post)
      = toks pre ++ (s1 :: s2 :: rest).map .unit ++ toks post := by
    rw [List.append_assoc, toks_append pre _ hchain_head, toks_chain _ post hslash hsegs hpost', List.append_assoc]
  have ha : toks pre = [] ∨ ∃ a' c, toks pre = a' ++ [.ch c] := by
    rcases hpre with rfl | ⟨p, c, rfl, hc⟩
    · left; rfl
    · right
      refine ⟨toks p, c, ?_⟩
      rw [toks_append p [c] (by intro c' r h; injection h with h1 _; rw [← h1]; exact hc)]
      simp [toks, pushChar, hc]
  have hp : toks post = [] ∨ ∃ c r, toks post = .ch c :: r := by
    rcases hpost with rfl | ⟨c, r, rfl, hc, hne⟩
    · left; rfl
    · right
      exact ⟨c, toks r, by simp [toks, pushChar, hc, hne]⟩
  unfold subPaths
  rw [htoks, renderToks_chain _ _ _ ha hp]
  rfl

/-! ## the cleaner, end to end -/

/-- `\n` separates paths; the characters the rewriting introduces are not line boundaries (table facts) -/
theorem nl_delim : isDelim '\n' = true := by decide +kernel

/-- **cleaner_end_to_end_padded** — `ErrorCleaner.odk_validate` works line by line.  For every diagnostic given as
lines (joined by `\n`; no line contains a line boundary; the first line starts and the last line ends with a
non-blank character) surrounded by ANY amount of blank characters (what `strip()` removes: the trailing newline java
prints, indentation, …); not the launcher's jarfile message: the final message is the `\n`-join of the lines, each
rewritten by the path substitution *on its own*, neighbouring duplicates dropped, stack lines dropped and exception
names deleted.  Together with `cleaner_paths_to_refs` (applied to any line) and `cleaner_no_java_noise` this is the
statement about the final message: `strip`, `splitlines` and `join` neither merge, split nor lose lines. -/
theorem cleaner_end_to_end_padded (ws1 ws2 : Str) (ls : List Str) (hne : ls ≠ [])
    (hws1 : ∀ c ∈ ws1, pyIsSpace c = true) (hws2 : ∀ c ∈ ws2, pyIsSpace c = true)
    (hlb : ∀ l ∈ ls, ∀ c ∈ l, isLineBreak c = false)
    (hhead : ∃ c r rest, ls = (c :: r) :: rest ∧ pyIsSpace c = false)
    (hlast : ∃ x e, ls.getLast hne = x ++ [e] ∧ pyIsSpace e = false)
    (hjar : isInfix jarfilePhrase (ws1 ++ joinWith ['\n'] ls ++ ws2) = false) :
    odkValidate (ws1 ++ joinWith ['\n'] ls ++ ws2) = joinWith ['\n'] ((dedupAdj (ls.map subPaths)).filterMap removeJava) := by
  have hsub : subPaths (ws1 ++ joinWith ['\n'] ls ++ ws2) = ws1 ++ joinWith ['\n'] (ls.map subPaths) ++ ws2 := by
    rw [subPaths_pad ws1 _ ws2 hws1 hws2, subPaths_join '\n' nl_delim ls]
  have hms_ne : ls.map subPaths ≠ [] := by simpa using hne
  -- the last rewritten line ends with the last character of the text or with `}`
  obtain ⟨x, e, hl, he⟩ := hlast
  obtain ⟨z, e', hz, he'⟩ := subPaths_last x e slash_not_seg
  have hsp' : pyIsSpace e' = false := by
    rcases he' with rfl | rfl
    · exact he
    · decide
  have hlastm : (ls.map subPaths).getLast hms_ne = z ++ [e'] := by
    rw [List.getLast_map, hl, hz]
  obtain ⟨pre, hpre⟩ := joinWith_last ['\n'] (ls.map subPaths) hms_ne
  -- the first rewritten line starts with the first character of the text or with `$`
  obtain ⟨c, r0, rest, hls, hc⟩ := hhead
  obtain ⟨d, r1, hr1, hd⟩ := subPaths_first c r0
  have hsd : pyIsSpace d = false := by
    rcases hd with rfl | rfl
    · exact hc
    · decide
  obtain ⟨r2, hr2⟩ := joinWith_head ['\n'] d r1 (rest.map subPaths)
  have hhd : joinWith ['\n'] (ls.map subPaths) = d :: r2 := by
    rw [hls, List.map_cons, hr1, hr2]
  have hstrip : strip (ws1 ++ joinWith ['\n'] (ls.map subPaths) ++ ws2) = joinWith ['\n'] (ls.map subPaths) :=
    strip_pad ws1 _ ws2 d e' r2 (pre ++ z) hws1 hws2 hhd (by rw [hpre, hlastm]; simp [List.append_assoc]) hsd hsp'
  have hnb : ∀ m ∈ ls.map subPaths, ∀ x ∈ m, isLineBreak x = false := by
    intro m hm x hx
    simp only [List.mem_map] at hm
    obtain ⟨l, hl', rfl⟩ := hm
    have hall : l.all (fun c => !isLineBreak c) = true := by
      simp only [List.all_eq_true, Bool.not_eq_true']
      exact hlb l hl'
    have := subPaths_all (fun c => !isLineBreak c) (by decide) (by decide) (by decide) (by decide) l hall
    simp only [List.all_eq_true, Bool.not_eq_true'] at this
    exact this x hx
  have hsplit : splitlines (joinWith ['\n'] (ls.map subPaths)) = ls.map subPaths :=
    splitlines_join _ hms_ne hnb (by rw [hlastm]; simp)
  simp only [odkValidate, hjar, Bool.false_eq_true, ↓reduceIte, cleanLines, cleanupErrors, hsub, hstrip, hsplit]


/-- the already stripped case of `cleaner_end_to_end_padded` -/
theorem cleaner_end_to_end (ls : List Str) (hne : ls ≠ [])
    (hlb : ∀ l ∈ ls, ∀ c ∈ l, isLineBreak c = false)
    (hhead : ∃ c r rest, ls = (c :: r) :: rest ∧ pyIsSpace c = false)
    (hlast : ∃ x e, ls.getLast hne = x ++ [e] ∧ pyIsSpace e = false)
    (hjar : isInfix jarfilePhrase (joinWith ['\n'] ls) = false) :
    odkValidate (joinWith ['\n'] ls) = joinWith ['\n'] ((dedupAdj (ls.map subPaths)).filterMap removeJava) := by
  have := cleaner_end_to_end_padded [] [] ls hne (by simp) (by simp) hlb hhead hlast (by simpa using hjar)
  simpa using this

/-- **cleaner_blank** — a diagnostic made of blanks only (or empty) is reported as the empty message -/
theorem cleaner_blank (ws : Str) (h : ∀ c ∈ ws, pyIsSpace c = true) (hjar : isInfix jarfilePhrase ws = false) :
    odkValidate ws = [] := by
  simp [odkValidate, hjar, cleanLines, cleanupErrors, subPaths_blank ws h, strip_blank ws h, splitlines, dedupAdj, joinWith]

/-- **cleaner_end_to_end_path** — the two-line shape of real ODK Validate output, with the cited node rewritten:
a diagnostic whose first line contains a delimited path (as in `cleaner_paths_to_refs`) is reported with `${sn}`
in its place, whatever follows on the other lines. -/
theorem cleaner_end_to_end_path (pre post : Str) (segs : List Str) (more : List Str) (hne : (pre ++ chainText segs ++ post) :: more ≠ [])
    (hpre : pre = [] ∨ ∃ p c, pre = p ++ [c] ∧ isSeg c = false)
    (hpost : post = [] ∨ ∃ c r, post = c :: r ∧ isSeg c = false ∧ c ≠ '/')
    (hsegs : ∀ s ∈ segs, s ≠ [] ∧ ∀ c ∈ s, isSeg c = true) (hlen : 2 ≤ segs.length)
    (hkeep : keepMatch (chainText segs) = false)
    (hlb : ∀ l ∈ (pre ++ chainText segs ++ post) :: more, ∀ c ∈ l, isLineBreak c = false)
    (hhead : ∃ c r, pre ++ chainText segs ++ post = c :: r ∧ pyIsSpace c = false)
    (hlast : ∃ x e, ((pre ++ chainText segs ++ post) :: more).getLast hne = x ++ [e] ∧ pyIsSpace e = false)
    (hjar : isInfix jarfilePhrase (joinWith ['\n'] ((pre ++ chainText segs ++ post) :: more)) = false) :
    odkValidate (joinWith ['\n'] ((pre ++ chainText segs ++ post) :: more)) =
      joinWith ['\n'] ((dedupAdj ((subPaths pre ++ ('$' :: '{' :: (segs.getLastD []) ++ ['}']) ++ subPaths post)
        :: more.map subPaths)).filterMap removeJava) := by
  obtain ⟨c, r, h1, h2⟩ := hhead
  have h := cleaner_end_to_end _ hne hlb ⟨c, r, more, by rw [h1], h2⟩ hlast hjar
  obtain ⟨hsp, hrep, _⟩ := cleaner_paths_to_refs pre post segs hpre hpost hsegs hlen
  rw [h, List.map_cons, hsp, hrep hkeep]

/-! ## external choices: `has_external_choices` and the itemsets file -/

open Pyxv.JV in
/-- **has_external_choices_iff** — the walk answers `True` iff some dict at any depth (below any key, inside any
list) binds `type` to a string starting with `select one external`. -/
theorem has_external_choices_iff (j : JV.J) : hasExt j = true ↔ ExtAt j :=
  ⟨hasExt_sound j, hasExt_complete j⟩

/-- a survey element as the JSON intermediate form nests it: its type, its other members, its children -/
inductive El where
  | node (type : Str) (extra : List (Str × JV.J)) (children : List El)

mutual
/-- the dict of an element: `{"type": …, …, "children": […]}` -/
def El.toJ : El → JV.J
  | .node t extra ch => .obj ((typeKey, .str t) :: extra ++ [(childrenKey, .arr (El.toJList ch))])
def El.toJList : List El → List JV.J
  | [] => []
  | e :: es => e.toJ :: El.toJList es
end

/-- the element or one of its descendants, at any depth, is an external select -/
inductive El.HasExtSelect : El → Prop where
  | self (t : Str) (extra : List (Str × JV.J)) (ch : List El) :
      startsWith t selectOneExternal = true → El.HasExtSelect (.node t extra ch)
  | child (t : Str) (extra : List (Str × JV.J)) (ch : List El) (c : El) :
      c ∈ ch → El.HasExtSelect c → El.HasExtSelect (.node t extra ch)

theorem mem_toJList (ch : List El) (c : El) (h : c ∈ ch) : c.toJ ∈ El.toJList ch := by
  induction ch with
  | nil => simp at h
  | cons e es ih =>
    rcases List.mem_cons.1 h with rfl | h'
    · simp [El.toJList]
    · simp [El.toJList, ih h']

/-- **ext_select_any_container** — an external select is found at any depth below containers of *any* type
(group, repeat, loop, survey, or any other type string): nothing in the walk depends on the container's type. -/
theorem ext_select_any_container (e : El) (h : El.HasExtSelect e) : hasExt e.toJ = true := by
  induction h with
  | self t extra ch ht =>
    exact hasExt_complete _ (.here _ (.str t) (by simp [El.toJ]) (by simpa [isExtType] using ht))
  | child t extra ch c hm _ ih =>
    refine hasExt_complete _ (.inObj _ childrenKey (.arr (El.toJList ch)) (by simp [El.toJ]) ?_)
    exact .inArr _ c.toJ (mem_toJList ch c hm) (hasExt_sound _ ih)

/-- the container kinds a survey row can open (`aliases.control`) are the builder's section types or `loop` -/
theorem container_kinds_table :
    Gen.aliasControl.all (fun p => Gen.c18SectionTypes.contains p.2 || p.2 == Gen.c18LoopType) = true := by decide

theorem convert_ok_itemsets (u p : Str) (items : Option Str) (preW postW : List Str) (t : Nat) (v pp : Bool)
    (env : Env) (fs : FS) (cr : ConvertResult)
    (h : (convert (.ok u p items preW postW) t v pp env fs).res = .ok cr) : cr.itemsets = items := by
  unfold convert toXml printXformToFile at h
  cases v
  · simp at h; rw [← h]
  · cases hc : checkXform env with
    | error e => simp [hc] at h
    | ok w => simp [hc] at h; rw [← h]

/-- **itemsets_beside_tree** — `itemsets_beside` tied to the tree walk: when the JSON intermediate form contains an
external select at any depth, every successful run (any mode, any flags, any validator environment that lets the
library call return) leaves `itemsets.csv` with the external choices beside the XForm. -/
theorem itemsets_beside_tree (raw : Args) (inDir inName : Str) (out : Option (Str × Str)) (pyx : JV.J) (csv u p : Str)
    (preW postW : List Str) (t : Nat) (env : Env) (fs : FS) (r : CliOut) (cr : ConvertResult)
    (hext : ExtAt pyx)
    (h : mainCli raw inDir inName out (.ok u p (itemsetsOf pyx csv) preW postW) t env fs = some r)
    (hlib : (libCall raw (.ok u p (itemsetsOf pyx csv) preW postW) t env fs).res = .ok cr) :
    cr.itemsets = some csv ∧ FS.read r.fs (.file (outPathOf inDir inName out).1 itemsetsName) = some csv := by
  have hi : cr.itemsets = some csv := by
    rw [convert_ok_itemsets _ _ _ _ _ _ _ _ _ _ _ hlib]
    simp [itemsetsOf, hasExt_complete pyx hext]
  exact ⟨hi, itemsets_beside raw inDir inName out _ t env fs r cr csv h hlib hi⟩

/-- an external select inside a `loop` inside a `repeat` below the survey, on concrete data -/
example : hasExt (El.toJ (.node "survey".toList [] [.node "repeat".toList [] [.node "loop".toList [("name".toList, .str "l".toList)]
    [.node "select one external cities".toList [] []]]])) = true := by decide +kernel
example : El.HasExtSelect (.node "survey".toList [] [.node "loop".toList [] [.node "select one external cities".toList [] []]]) :=
  .child _ _ _ (.node "loop".toList [] [.node "select one external cities".toList [] []]) (List.mem_singleton.2 rfl)
    (.child _ _ _ (.node "select one external cities".toList [] []) (List.mem_singleton.2 rfl) (.self _ _ _ (by decide +kernel)))
example : hasExt (El.toJ (.node "survey".toList [] [.node "select one".toList [] []])) = false := by decide +kernel

/-! ## non-vacuity -/

def exForm : Form := .ok "<x/>".toList "<x>\n</x>".toList (some "a,b".toList) ["w1".toList] []
def exReject : Env := .ran ⟨1, false, "Bad /data/g/q1\n\tat org.X(X.java:1)\nBad /data/g/q1".toList⟩
def exFs : FS := [(.file "out".toList "form.xml".toList, "STALE".toList)]

example : Rejects exReject "Bad /data/g/q1\n\tat org.X(X.java:1)\nBad /data/g/q1".toList := ⟨1, by decide, rfl⟩
example : OdkRequested { json := true } := ⟨rfl, rfl⟩
example : FS.read exFs (.tmp 7) = none := by decide
/-- the reject path through the JSON CLI on concrete data: 999, cleaned message, STALE untouched, no temp -/
example : (mainCli { json := true } "in".toList "form.md".toList (some ("out".toList, "form.xml".toList)) exForm 7 exReject exFs).map
    (fun r => (r.json, r.fs)) = some (some ⟨999, "ODK Validate Errors:\nBad ${q1}\nBad ${q1}".toList, []⟩, exFs) := by
  decide +kernel
/-- plain mode: output unlinked -/
example : (mainCli {} "in".toList "form.md".toList (some ("out".toList, "form.xml".toList)) exForm 7 exReject exFs).map
    (fun r => r.fs) = some [] := by decide +kernel
/-- accept with stderr: 101, file = library result, itemsets beside it -/
example : (mainCli { json := true } "in".toList "form.md".toList none exForm 7 (.ran ⟨0, false, "hm".toList⟩) []).map
    (fun r => (r.json.map (·.code), FS.read r.fs (.file "in".toList "form.xml".toList),
               FS.read r.fs (.file "in".toList "itemsets.csv".toList), (FS.temps r.fs).isEmpty))
    = some (some 101, some "<x/>".toList, some "a,b".toList, true) := by decide +kernel
/-- accept silent without conversion warnings: 100 -/
example : (mainCli { json := true } "in".toList "form.md".toList none (.ok [] [] none [] []) 7 (.ran ⟨0, false, []⟩) []).map
    (fun r => r.json.map (·.code)) = some (some 100) := by decide +kernel
/-- C18-F3 on the model: the hypothesis of `file_equals_library_result` is needed -/
example : (mainCli { json := true, skipValidate := false } "in".toList "form.md".toList
    (some ("out".toList, "itemsets.csv".toList)) exForm 7 .javaAbsent []).map
    (fun r => FS.read r.fs (.file "out".toList "itemsets.csv".toList)) = some (some "a,b".toList) := by decide +kernel
/-- killed validator, late conversion error, unencodable text, java missing: machine runs, no temp survives -/
example : ((convert exForm 7 true false (.ran ⟨-9, false, []⟩) exFs).fs, (convert (.late []) 7 true false .javaAbsent exFs).fs,
    (convert (.unencodable []) 7 true false .javaAbsent exFs).fs, (convert exForm 7 true false .javaAbsent exFs).fs)
    = (exFs, exFs, exFs, exFs) := by decide +kernel
/-- write failure on concrete data: plain CLI, pre-existing output kept, OSError logged -/
example : writeFailure (.diskFault "No space".toList) (.osError "No space".toList) := .inl ⟨_, rfl, rfl⟩
example : (mainCli {} "in".toList "form.md".toList (some ("out".toList, "form.xml".toList)) (.diskFault "No space".toList) 7 exReject exFs).map
    (fun r => (r.fs, r.raised, r.logs.length, r.seen)) = some (exFs, none, 1, []) := by decide +kernel
/-- cleaner on concrete data -/
example : odkValidate "x /data/g/q1 y\nx /data/g/q1 y\n\tat a.B(B.java:1)\n/html/body/input".toList
    = "x ${q1} y\n/html/body/input".toList := by decide +kernel
example : cleanupErrors "a\na\nb\na".toList = ["a".toList, "b".toList, "a".toList] := by decide +kernel
/-- the end-to-end statement on concrete data: a text that starts with a path and ends inside one -/
example : odkValidate (joinWith ['\n'] ["Error in [/data/g/first-name] now".toList, "\tat a.B(B.java:1)".toList, "Result: Invalid".toList])
    = "Error in [${first-name}] now\nResult: Invalid".toList := by decide +kernel
example : odkValidate (" \n".toList ++ joinWith ['\n'] ["/data/g/q1 depends on".toList, "/data/g/q2".toList] ++ "\n\n".toList)
    = "${q1} depends on\n${q2}".toList := by decide +kernel
example : odkValidate " \n\t ".toList = [] := by decide +kernel
example : odkValidate (joinWith ['\n'] ["/data/g/q1 depends on".toList, "/data/g/q2".toList])
    = "${q1} depends on\n${q2}".toList := by decide +kernel
/-- the hypotheses of `cleaner_paths_to_refs` on concrete data -/
example : subPaths ("see [".toList ++ chainText ["data".toList, "g".toList, "q1".toList] ++ "] now".toList)
    = "see [${q1}] now".toList := by decide +kernel

end Pyxv.Validator
