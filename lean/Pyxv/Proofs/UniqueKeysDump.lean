import Pyxv.Proofs.QStable
/-! # a dump of a survey built from a nest of Python dicts is a nest of Python dicts (`UniqueKeys`) -/
namespace Pyxv.ToJson
open Pyxv Pyxv.JV

def ValsOk (kvs : Dict) : Prop := ∀ kv ∈ kvs, UniqueKeys kv.2

def DictOk (kvs : Dict) : Prop := (kvs.map Prod.fst).Nodup ∧ ValsOk kvs

theorem uniqueKeysM_iff (kvs : Dict) : UniqueKeysM kvs ↔ ValsOk kvs := by
  induction kvs with
  | nil => simp [UniqueKeysM, ValsOk]
  | cons kv rest ih =>
    cases kv with
    | mk k v =>
      simp only [UniqueKeysM, ValsOk, List.mem_cons, forall_eq_or_imp] at ih ⊢
      rw [ih]

theorem uniqueKeysL_iff (xs : List J) : UniqueKeysL xs ↔ ∀ x ∈ xs, UniqueKeys x := by
  induction xs with
  | nil => simp [UniqueKeysL]
  | cons x rest ih => simp only [UniqueKeysL, List.mem_cons, forall_eq_or_imp]; rw [ih]

theorem uk_obj (kvs : Dict) : UniqueKeys (.obj kvs) ↔ DictOk kvs := by
  simp only [UniqueKeys, DictOk, uniqueKeysM_iff]

theorem uk_arr (xs : List J) : UniqueKeys (.arr xs) ↔ ∀ x ∈ xs, UniqueKeys x := by
  simp only [UniqueKeys, uniqueKeysL_iff]

theorem uk_null : UniqueKeys .null := by simp [UniqueKeys]
theorem uk_str (s : Str) : UniqueKeys (.str s) := by simp [UniqueKeys]

theorem lookup_valOk {kvs : Dict} (h : ValsOk kvs) {k : Str} {v : J} (hl : lookup k kvs = some v) : UniqueKeys v :=
  h (k, v) (mem_of_lookup k kvs v hl)

theorem getD_null_ok {kvs : Dict} (h : ValsOk kvs) (k : Str) : UniqueKeys ((lookup k kvs).getD .null) := by
  cases hl : lookup k kvs with
  | none => exact uk_null
  | some v => exact lookup_valOk h hl

theorem dictOk_append {a b : Dict} (ha : DictOk a) (hb : DictOk b)
    (hd : ∀ k ∈ a.map Prod.fst, k ∉ b.map Prod.fst) : DictOk (a ++ b) := by
  refine ⟨?_, ?_⟩
  · rw [List.map_append, List.nodup_append]
    exact ⟨ha.1, hb.1, fun x hx y hy e => hd x hx (e ▸ hy)⟩
  · intro kv hkv
    rcases List.mem_append.mp hkv with h | h
    · exact ha.2 kv h
    · exact hb.2 kv h

theorem dictOk_dictInsert {d : Dict} (hd : DictOk d) (k : Str) (v : J) (hv : UniqueKeys v) : DictOk (dictInsert k v d) := by
  by_cases hk : k ∈ d.map Prod.fst
  · induction d with
    | nil => simp at hk
    | cons kv rest ih =>
      cases kv with
      | mk k' v' =>
        by_cases e : k = k'
        · subst e
          simp only [dictInsert, if_true]
          refine ⟨hd.1, ?_⟩
          intro q hq
          rcases List.mem_cons.mp hq with h | h
          · rw [h]; exact hv
          · exact hd.2 q (List.mem_cons_of_mem _ h)
        · have hk' : k ∈ rest.map Prod.fst := by
            simp only [List.map_cons, List.mem_cons] at hk
            rcases hk with h | h
            · exact absurd h e
            · exact h
          have hn := hd.1
          simp only [List.map_cons, List.nodup_cons] at hn
          have ihr := ih ⟨hn.2, fun q hq => hd.2 q (List.mem_cons_of_mem _ hq)⟩ hk'
          simp only [dictInsert, e, if_false]
          refine ⟨?_, ?_⟩
          · simp only [List.map_cons, List.nodup_cons]
            refine ⟨?_, ihr.1⟩
            intro hin
            -- keys of dictInsert on an existing key are the same keys
            have : ∀ (l : Dict), k ∈ l.map Prod.fst → (dictInsert k v l).map Prod.fst = l.map Prod.fst := by
              intro l
              induction l with
              | nil => intro h; simp at h
              | cons q r ihl =>
                intro h
                cases q with
                | mk a b =>
                  by_cases e2 : k = a
                  · subst e2; simp [dictInsert]
                  · simp only [List.map_cons, List.mem_cons] at h
                    rcases h with h | h
                    · exact absurd h e2
                    · simp [dictInsert, e2, ihl h]
            rw [this rest hk'] at hin
            exact hn.1 hin
          · intro q hq
            rcases List.mem_cons.mp hq with h | h
            · rw [h]; exact hd.2 (k', v') (by simp)
            · exact ihr.2 q h
  · rw [dictInsert_fresh k v d hk]
    exact dictOk_append hd ⟨by simp, by intro q hq; simp at hq; rw [hq]; exact hv⟩
      (by intro x hx; simp; intro e; exact hk (e ▸ hx))

theorem dictOk_ownDump (del names : List Str) (hn : names.Nodup) (f : Str → J)
    (hv : ∀ n ∈ names, n ∉ del → UniqueKeys (f n)) : DictOk (ownDump del (names.map fun n => (n, f n))) := by
  rw [ownDump_eq_filter]
  refine ⟨?_, ?_⟩
  · have hs : ((names.map fun n => (n, f n)).filter (keeps del)).map Prod.fst |>.Sublist names := by
      have h1 := (List.filter_sublist (p := keeps del) (l := names.map fun n => (n, f n))).map Prod.fst
      simpa [List.map_map, Function.comp_def] using h1
    exact List.Pairwise.sublist hs hn
  · intro kv hkv
    simp only [List.mem_filter, List.mem_map] at hkv
    obtain ⟨⟨n, hnm, e⟩, hk⟩ := hkv
    subst e
    simp only [keeps, Bool.and_eq_true, Bool.not_eq_true', List.contains_eq_mem, decide_eq_false_iff_not] at hk
    exact hv n hnm hk.1


/-- a question's dump -/
theorem dictOk_qDump (names : List Str) (hN : names.Nodup) (entry kvs : Dict) (eo : EntryOk entry) (hv : ValsOk kvs) :
    DictOk (qDump names entry kvs) := by
  have hown : DictOk (ownDump (allDelete .question names (entry.map Prod.fst) [])
      (names.map fun n => (n, (lookup n (mergeQtd entry kvs)).getD .null))) := by
    apply dictOk_ownDump _ names hN
    intro n _ hd
    have hne : n ∉ entry.map Prod.fst := fun h => hd ((mem_allDelete_question names _ n).mpr (Or.inr h))
    rw [lookup_mergeQtd_ne entry kvs n hne]
    exact getD_null_ok hv n
  have hK : DictOk ((kwOf entry kvs).filter fun kv => truthy kv.2) := by
    refine ⟨?_, ?_⟩
    · exact List.Pairwise.sublist ((List.filter_sublist).map Prod.fst) (kwOf_nodup entry kvs eo.nodup)
    · intro kv hkv
      have := kwOf_mem_value entry kvs kv.1 kv.2 (List.mem_filter.mp hkv).1
      exact lookup_valOk hv this
  have hS : DictOk ((scalarsOf entry).filterMap (scalarEntry (reloadSlots names (mergeQtd entry kvs)))) := by
    refine ⟨nodup_keys_filterMap _ _ (scalarEntry_key _) (scalarsOf_nodup entry eo.nodup), ?_⟩
    intro q hq
    simp only [List.mem_filterMap] at hq
    obtain ⟨⟨k, s⟩, hks, he⟩ := hq
    have hme := (scalarsOf_mem entry k s).mp hks
    unfold scalarEntry at he
    split at he
    · cases he
      simp only [slotValue]
      split
      · rw [lookup_mergeQtd_scalar entry kvs k s eo.nodup hme]
        split
        · exact getD_null_ok hv k
        · exact uk_str s
      · exact uk_null
    · cases he
  have hKS : DictOk (((kwOf entry kvs).filter fun kv => truthy kv.2) ++
      (scalarsOf entry).filterMap (scalarEntry (reloadSlots names (mergeQtd entry kvs)))) := by
    apply dictOk_append hK hS
    intro k hk hk2
    have h1 : k ∈ (kwOf entry kvs).map Prod.fst := by
      simp only [List.mem_map, List.mem_filter] at hk ⊢
      obtain ⟨q, ⟨hq, _⟩, e⟩ := hk
      exact ⟨q, hq, e⟩
    exact scalar_not_kw entry kvs eo k (filterMap_scalar_keys _ _ k hk2) h1
  rw [qDump_assoc]
  apply dictOk_append hown hKS
  intro k hk hk2
  exact (ownDump_key _ _ k hk).2 ((mem_allDelete_question names _ k).mpr (Or.inr (tail_keys names entry kvs k hk2)))

/-- a section's dump, given its children's dumps -/
theorem dictOk_section (cls : Cls) (names : List Str) (hN : names.Nodup) (hc : k!"children" ∉ names) (f : Str → J)
    (hv : ∀ n, UniqueKeys (f n)) (kids : List El) (hk : ∀ x ∈ toJsonL kids, UniqueKeys x) (del : List Str) :
    DictOk ((if cls = .group then setKey k!"type" (.str k!"group") else id)
      (ownDump del (names.map fun n => (n, f n)) ++ childPart kids)) := by
  have h0 : DictOk (ownDump del (names.map fun n => (n, f n)) ++ childPart kids) := by
    apply dictOk_append (dictOk_ownDump del names hN f (fun n _ _ => hv n))
    · unfold childPart
      split
      · exact ⟨by simp, by intro q hq; simp at hq⟩
      · exact ⟨by simp, by intro q hq; simp at hq; rw [hq]; exact (uk_arr _).mpr hk⟩
    · intro k hkin hk2
      have := (ownDump_key _ _ k hkin).1
      simp only [List.map_map, Function.comp_def, List.map_id'] at this
      unfold childPart at hk2
      split at hk2
      · simp at hk2
      · simp at hk2; subst hk2; exact hc this
  split
  · exact dictOk_dictInsert h0 _ _ (uk_str _)
  · exact h0


theorem questionFromJson_shape (cfg : Cfg) (t : Str) (kvs : Dict) (e : El) (h : questionFromJson cfg t kvs = some e) :
    ∃ entry names, lookup t cfg.qtd = some entry ∧ (names = cfg.selectNames ∨ names = cfg.questionNames) ∧
      e = .mk .question (reloadSlots names (mergeQtd entry kvs)) (entry.map Prod.fst) (kwOf entry kvs)
        (scalarsOf entry) [] none [] := by
  unfold questionFromJson at h
  split at h
  · cases h
  · split at h
    · cases h
    · split at h
      · cases h
      · next entry hentry =>
        split at h
        · cases h
        · split at h
          · cases h
          · next tag _ =>
            split at h
            · cases h
            · dsimp only at h
              split at h
              · cases h
              · simp only [Option.some.injEq] at h
                refine ⟨entry, _, hentry, ?_, h.symm⟩
                split
                · exact Or.inl rfl
                · exact Or.inr rfl

theorem kids_uniqueKeys (cfg : Cfg) (f : Nat)
    (ih : ∀ d e, UniqueKeys d → fromJson cfg f d = some e → ∀ x, (∀ k ∈ x, k = k!"parent") → UniqueKeys (toJson e x)) :
    ∀ cs kids, (∀ c ∈ cs, UniqueKeys c) → mapOpt (fromJson cfg f) cs = some kids →
      ∀ x ∈ toJsonL kids, UniqueKeys x := by
  intro cs
  induction cs with
  | nil => intro kids _ h; simp [mapOpt] at h; subst h; simp [toJsonL]
  | cons c cs ihc =>
    intro kids hcs h
    simp only [mapOpt] at h
    cases hc : fromJson cfg f c with
    | none => simp [hc] at h
    | some e =>
      simp only [hc] at h
      cases hm : mapOpt (fromJson cfg f) cs with
      | none => simp [hm] at h
      | some es =>
        simp only [hm, Option.some.injEq] at h
        subst h
        intro x hx
        simp only [toJsonL, List.mem_cons] at hx
        rcases hx with hx | hx
        · rw [hx]; exact ih c e (hcs c (by simp)) hc _ (by simp)
        · exact ihc es (fun c' hc' => hcs c' (by simp [hc'])) hm x hx

/-- the dump of a survey built from a nest of Python dicts is a nest of Python dicts -/
theorem dump_uniqueKeys (cfg : Cfg) (sok : SecOk cfg) (qok : QOk cfg) :
    ∀ f d e, UniqueKeys d → fromJson cfg f d = some e → ∀ x, (∀ k ∈ x, k = k!"parent") → UniqueKeys (toJson e x) := by
  intro f
  induction f with
  | zero => intro d e _ h; simp [fromJson] at h
  | succ f ih =>
    intro d e hu h x hx
    cases d with
    | obj kvs =>
      have hd := (uk_obj kvs).mp hu
      simp only [fromJson] at h
      split at h
      · next t hty =>
        split at h
        · next hsec =>
          split at h
          · cases h
          · split at h
            · cases h
            · next cs hcs =>
              have hcsok : ∀ c ∈ cs, UniqueKeys c := by
                split at hcs
                · cases hcs; simp
                · next cs' hl => cases hcs; exact (uk_arr _).mp (lookup_valOk hd.2 hl)
                · split at hcs
                  · cases hcs
                  · cases hcs; simp
              split at h
              · cases h
              · next kids hkids =>
                have hk := kids_uniqueKeys cfg f ih cs kids hcsok hkids
                split at h
                · split at h
                  · cases h
                  · next nm hnm =>
                    simp only [Option.some.injEq, surveySlots_eq] at h
                    subst h
                    rw [toJson_section .survey (by decide), uk_obj]
                    simp only [List.map_map, Function.comp_def, List.map_id']
                    apply dictOk_section .survey _ sok.sN sok.sChildren _ _ kids hk
                    intro n
                    unfold surveyFn
                    split
                    · exact (uk_obj []).mpr ⟨by simp, by intro q hq; simp at hq⟩
                    · split
                      · exact (uk_obj []).mpr ⟨by simp, by intro q hq; simp at hq⟩
                      · apply getD_null_ok
                        split
                        · exact hd.2
                        · intro q hq
                          rcases List.mem_append.mp hq with hq | hq
                          · exact hd.2 q hq
                          · simp at hq; rw [hq]; exact lookup_valOk hd.2 hnm
                · simp only [Option.some.injEq] at h
                  subst h
                  rw [toJson_section _ (by split <;> simp), uk_obj]
                  simp only [reloadSlots, List.map_map, Function.comp_def, List.map_id']
                  exact dictOk_section _ _ sok.gN sok.gChildren _ (fun n => getD_null_ok hd.2 n) kids hk _
        · obtain ⟨entry, names, hentry, hnames, he⟩ := questionFromJson_shape cfg t kvs e h
          subst he
          have eo := qok.entries t entry hentry
          have nok : NamesOk names := by
            rcases hnames with h1 | h1 <;> rw [h1]
            · exact qok.sNames
            · exact qok.qNames
          rw [toJson_question_eq names nok.noParent entry kvs eo x hx, uk_obj]
          exact dictOk_qDump names nok.nodup entry kvs eo hd.2
      · cases h
    | _ => simp [fromJson] at h


/-! ## what `json.loads` returns is a nest of Python dicts -/

mutual
theorem dedup_uniqueKeys : ∀ j : J, UniqueKeys (dedup j)
  | .null => by simp [dedup, UniqueKeys]
  | .bool _ => by simp [dedup, UniqueKeys]
  | .num _ => by simp [dedup, UniqueKeys]
  | .str _ => by simp [dedup, UniqueKeys]
  | .arr xs => by
    simp only [dedup]
    exact (uk_arr _).mpr (dedupL_uniqueKeys xs)
  | .obj kvs => by
    simp only [dedup]
    exact (uk_obj _).mpr (dedupM_dictOk kvs [] ⟨by simp, by intro q hq; simp at hq⟩)
theorem dedupL_uniqueKeys : ∀ xs : List J, ∀ x ∈ dedupL xs, UniqueKeys x
  | [] => by simp [dedupL]
  | x :: xs => by
    intro y hy
    simp only [dedupL, List.mem_cons] at hy
    rcases hy with hy | hy
    · rw [hy]; exact dedup_uniqueKeys x
    · exact dedupL_uniqueKeys xs y hy
theorem dedupM_dictOk : ∀ (kvs acc : List (Str × J)), DictOk acc → DictOk (dedupM kvs acc)
  | [], acc, h => by simpa [dedupM] using h
  | (k, v) :: rest, acc, h => by
    simp only [dedupM]
    exact dedupM_dictOk rest _ (dictOk_dictInsert h k _ (dedup_uniqueKeys v))
end

theorem parse_uniqueKeys (text : Str) (d : J) (h : parse text = some d) : UniqueKeys d := by
  unfold parse at h
  cases hr : parseRaw text with
  | none => simp [hr] at h
  | some j => simp [hr] at h; rw [← h]; exact dedup_uniqueKeys j

end Pyxv.ToJson
