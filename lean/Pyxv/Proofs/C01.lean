import Pyxv.Proofs.AssembleLemmas
/-!
# C01 — every successful conversion returns a well-formed, namespace-valid XForm with the ODK skeleton

Property theorems about the document-assembly model (`Pyxv/Model/Assemble.lean`) composed with the
writer/reader round trip (`XmlRoundTrip.lean`).  Helper lemmas: `AssembleLemmas.lean`.
-/
namespace Pyxv.C01
open Pyxv Pyxv.Xml Pyxv.Asm

/-! ## 0. Static facts about tables regenerated from the source (re-checked on every run) -/

/-- `NSMAP` binds the default namespace to XForms and `h` to XHTML -/
theorem nsmap_default_and_h :
    lookup "xmlns".toList NSMAP = some xformsNs ∧ lookup "xmlns:h".toList NSMAP = some xhtmlNs := by
  decide +kernel

/-- every prefix used by the static tags and attributes of the frame (`h:html`, `h:head`, `h:title`,
    `h:body`, `odk:xforms-version`, `odk:prefix`, `odk:delimiter`, `orx:auto-send`, `orx:auto-delete`)
    and by the generated binds (`jr:`) is declared by `NSMAP` -/
theorem nsmap_declares_static_prefixes :
    ["h", "odk", "orx", "jr"].all (fun p => (declaredPrefixes NSMAP).contains p.toList) = true := by
  decide +kernel

/-- `NSMAP` itself is a legal attribute list: names, XML characters, distinct keys, distinct local
    names (so `setAttribute` evicts nothing), legal namespace declarations -/
theorem nsmap_wellformed :
    attrsWFLax NSMAP = true ∧ setAttrs [] NSMAP = NSMAP ∧ NSMAP.all declOk = true ∧
    NSMAP.all (fun kv => isQName kv.1) = true := by
  decide +kernel

/-! ## 1. The skeleton -/

/-- guard: on `<h:html>` the default namespace is XForms and `h` is XHTML.  (It can only fail when
    the `namespaces` setting uses the reserved prefix `xmlns`, whose declaration `xmlns:xmlns` evicts
    the default declaration in `Element.setAttribute` — known finding F2b.) -/
def NsOK (f : Fields) : Bool :=
  lookup "xmlns:h".toList (htmlAttrs f) == some xhtmlNs && lookup "xmlns".toList (htmlAttrs f) == some xformsNs

theorem eproj_assemble (f : Fields) (itext : Option (List Node)) (rk rest bk : List Node) :
    eproj (assemble f itext rk rest bk) =
      .elem "h:html".toList (htmlAttrs f)
        [ .elem "h:head".toList []
            [ .elem "h:title".toList [] [],
              .elem "model".toList (setAttrs [] (modelAttrs f)) (eprojKids (modelKids f itext rk rest)) ],
          .elem "h:body".toList (setAttrs [] (optAttr "class" f.style)) (eprojKids bk) ] := by
  simp [assemble, pyNode, eproj_elem, eprojKids, isText, htmlAttrs, setAttrs_nil]

theorem hasName_prefixed {sc : List (Str × Str)} {tag p l ns : Str} (hs : splitQName tag = (some p, l))
    (h : lookup (xmlnsColon ++ p) sc = some ns) : hasName sc tag ns l = true := by
  simp [hasName, expandTag, hs, h]

theorem hasName_default {sc : List (Str × Str)} {tag l ns : Str} (hs : splitQName tag = (none, l))
    (h : lookup "xmlns".toList sc = some ns) : hasName sc tag ns l = true := by
  simp only [hasName, expandTag, hs, h]; simp

theorem lookup_xmlns_modelAttrs (f : Fields) : lookup "xmlns".toList (setAttrs [] (modelAttrs f)) = none := by
  unfold modelAttrs
  cases f.entityFeatures <;> decide +kernel

theorem lookup_h_bodyAttrs (s : Str) : lookup "xmlns:h".toList (setAttrs [] (optAttr "class" s)) = none := by
  unfold optAttr
  split
  · rfl
  · have : setAttrs [] [("class".toList, s)] = [("class".toList, s)] := by simp [setAttrs, setAttr]
    rw [this]
    simp [lookup]

/-- the element-only projection of every assembled document has the skeleton, with `id_string`
    on the root of the first instance — whatever the parts are -/
theorem skelE_assemble (f : Fields) (itext : Option (List Node)) (rk rest bk : List Node)
    (hns : NsOK f = true) :
    skelE f.idString (eproj (assemble f itext rk rest bk)) = true := by
  simp only [NsOK, Bool.and_eq_true, beq_iff_eq] at hns
  obtain ⟨hh, hd⟩ := hns
  have hh' : lookup (xmlnsColon ++ "h".toList) (htmlAttrs f) = some xhtmlNs := hh
  have hd1 : lookup "xmlns".toList ([] ++ htmlAttrs f) = some xformsNs := by simpa using hd
  have hd2 : lookup "xmlns".toList (setAttrs [] (modelAttrs f) ++ ([] ++ htmlAttrs f)) = some xformsNs := by
    rw [lookup_append, lookup_xmlns_modelAttrs]; exact hd1
  rw [eproj_assemble]
  simp only [skelE, find_modelKids, instOk, Bool.and_eq_true, beq_iff_eq]
  and_intros
  · exact hasName_prefixed (p := "h".toList) (by decide) hh'
  · exact hasName_prefixed (p := "h".toList) (by decide) (by simpa using hh')
  · exact hasName_prefixed (p := "h".toList) (by decide) (by simpa using hh')
  · exact hasName_default (by decide) hd2
  · refine hasName_prefixed (p := "h".toList) (by decide) ?_
    have hb : lookup (xmlnsColon ++ "h".toList) (setAttrs [] (optAttr "class" f.style)) = none :=
      lookup_h_bodyAttrs f.style
    rw [lookup_append, hb]; exact hh'
  · exact hasName_default (by decide) (by simpa using hd2)
  · exact lookup_id_rootAttrs f

/-! ## 2. Guards: what the frame needs from the survey fields -/

/-- one attribute: its name is an XML name and a QName whose prefix is in scope, its value is made
    of XML characters -/
def attrOk (S : List Str) (kv : Str × Str) : Bool := isName kv.1 && kv.2.all isXmlChar && qnameOk S kv.1

/-- prefixes used by the static names of the frame -/
def neededPrefixes (f : Fields) : List Str :=
  ["h".toList, "odk".toList, "orx".toList] ++ if f.entityFeatures then ["entities".toList] else []

/-- **NamesOK ∧ CharsOK** for the frame (DESIGN §5 C01): every user string that becomes an XML *name*
    in the frame — the prefixes of the `namespaces` setting (keys of `htmlAttrs`), the settings
    `attribute::X` columns (keys of `rootAttrs`), the form name — is a QName whose prefix is declared
    on `<h:html>` (or, for the instance root, on the root itself); every user string that becomes text
    or an attribute value consists of XML characters; the prefixes of the static names are declared;
    the default and `h` declarations are intact (`NsOK`).  The pinned code checks none of this: the
    complement is the known findings F2, F2b, F3 (names) and F4 (characters). -/
def FrameOK (f : Fields) : Bool :=
  let S := declaredPrefixes (htmlAttrs f)
  let R := declaredPrefixes (rootAttrs f) ++ S
  (htmlAttrs f).all (attrOk S) && (rootAttrs f).all (attrOk R) &&
  isName f.name && qnameOk R f.name &&
  f.title.all isXmlChar && f.style.all isXmlChar && f.submissionUrl.all isXmlChar &&
  f.publicKey.all isXmlChar && f.autoSend.all isXmlChar && f.autoDelete.all isXmlChar &&
  (neededPrefixes f).all (fun p => S.contains p) && NsOK f

structure FrameFacts (f : Fields) : Prop where
  html : (htmlAttrs f).all (attrOk (declaredPrefixes (htmlAttrs f))) = true
  root : (rootAttrs f).all (attrOk (declaredPrefixes (rootAttrs f) ++ declaredPrefixes (htmlAttrs f))) = true
  nameN : isName f.name = true
  nameQ : qnameOk (declaredPrefixes (rootAttrs f) ++ declaredPrefixes (htmlAttrs f)) f.name = true
  title : f.title.all isXmlChar = true
  style : f.style.all isXmlChar = true
  url : f.submissionUrl.all isXmlChar = true
  key : f.publicKey.all isXmlChar = true
  send : f.autoSend.all isXmlChar = true
  del : f.autoDelete.all isXmlChar = true
  needed : (neededPrefixes f).all (fun p => (declaredPrefixes (htmlAttrs f)).contains p) = true
  ns : NsOK f = true

theorem frameFacts {f : Fields} (h : FrameOK f = true) : FrameFacts f := by
  simp only [FrameOK, Bool.and_eq_true] at h
  obtain ⟨⟨⟨⟨⟨⟨⟨⟨⟨⟨⟨h1, h2⟩, h3⟩, h4⟩, h5⟩, h6⟩, h7⟩, h8⟩, h9⟩, h10⟩, h11⟩, h12⟩ := h
  exact ⟨h1, h2, h3, h4, h5, h6, h7, h8, h9, h10, h11, h12⟩

theorem all_imp {α} {p q : α → Bool} {l : List α} (hpq : ∀ x, p x = true → q x = true)
    (h : l.all p = true) : l.all q = true := by
  rw [List.all_eq_true] at h ⊢
  exact fun x hx => hpq x (h x hx)

theorem attrsWFLax_of_attrOk {S : List Str} {a : List (Str × Str)} (h : a.all (attrOk S) = true)
    (hn : attrKeysNodup a = true) : attrsWFLax a = true := by
  rw [attrsWFLax, Bool.and_eq_true]
  refine ⟨all_imp (fun x hx => ?_) h, hn⟩
  simp only [attrOk, Bool.and_eq_true] at hx
  simp [hx.1.1, hx.1.2]

theorem qnames_of_attrOk {S : List Str} {a : List (Str × Str)} (h : a.all (attrOk S) = true) :
    a.all (fun kv => qnameOk S kv.1) = true :=
  all_imp (fun x hx => by simp only [attrOk, Bool.and_eq_true] at hx; exact hx.2) h

theorem qnameOk_unprefixed (S : List Str) (q l : Str) (hq : isQName q = true) (hs : splitQName q = (none, l)) :
    qnameOk S q = true := by
  simp [qnameOk, hq, hs]

theorem qnameOk_prefixed (S : List Str) (q p l : Str) (hq : isQName q = true) (hs : splitQName q = (some p, l))
    (hp : S.contains p = true) : qnameOk S q = true := by
  simp only [qnameOk, hq, hs, Bool.true_and, Bool.or_eq_true]
  exact Or.inr hp

theorem all_subAttrs (p : Str × Str → Bool) (f : Fields)
    (h1 : p ("action".toList, f.submissionUrl) = true) (h2 : p ("method".toList, "post".toList) = true)
    (h3 : p ("base64RsaPublicKey".toList, f.publicKey) = true)
    (h4 : p ("orx:auto-send".toList, f.autoSend) = true) (h5 : p ("orx:auto-delete".toList, f.autoDelete) = true) :
    (subAttrs f).all p = true := by
  unfold subAttrs optAttr
  simp only [List.all_append, Bool.and_eq_true]
  refine ⟨⟨⟨?_, ?_⟩, ?_⟩, ?_⟩
  · split
    · rfl
    · simp only [List.all_cons, List.all_nil, Bool.and_true, Bool.and_eq_true]; exact ⟨h1, h2⟩
  · split
    · rfl
    · simp only [List.all_cons, List.all_nil, Bool.and_true]; exact h3
  · split
    · rfl
    · simp only [List.all_cons, List.all_nil, Bool.and_true]; exact h4
  · split
    · rfl
    · simp only [List.all_cons, List.all_nil, Bool.and_true]; exact h5

theorem attrOk_intro (S : List Str) (k v : Str) (h1 : isName k = true) (h2 : v.all isXmlChar = true)
    (h3 : qnameOk S k = true) : attrOk S (k, v) = true := by
  simp [attrOk, h1, h2, h3]

theorem needed_mem {f : Fields} (F : FrameFacts f) (p : Str) (hp : p ∈ neededPrefixes f) :
    (declaredPrefixes (htmlAttrs f)).contains p = true :=
  (List.all_eq_true.mp F.needed) p hp

theorem needed_static (f : Fields) (p : Str) (hp : p ∈ ["h".toList, "odk".toList, "orx".toList]) :
    p ∈ neededPrefixes f := List.mem_append_left _ hp

theorem needed_entities (f : Fields) (h : f.entityFeatures = true) : "entities".toList ∈ neededPrefixes f := by
  unfold neededPrefixes
  rw [h]
  exact List.mem_append_right _ (List.mem_singleton.mpr rfl)

theorem subAttrs_ok {f : Fields} (F : FrameFacts f) :
    (subAttrs f).all (attrOk (declaredPrefixes (htmlAttrs f))) = true := by
  have horx := needed_mem F "orx".toList (needed_static f _ (by decide))
  refine all_subAttrs _ f ?_ ?_ ?_ ?_ ?_
  · exact attrOk_intro _ _ _ (by decide) F.url (qnameOk_unprefixed _ _ "action".toList (by decide) (by decide))
  · exact attrOk_intro _ _ _ (by decide) (by decide) (qnameOk_unprefixed _ _ "method".toList (by decide) (by decide))
  · exact attrOk_intro _ _ _ (by decide) F.key (qnameOk_unprefixed _ _ "base64RsaPublicKey".toList (by decide) (by decide))
  · exact attrOk_intro _ _ _ (by decide) F.send (qnameOk_prefixed _ _ "orx".toList "auto-send".toList (by decide) (by decide) horx)
  · exact attrOk_intro _ _ _ (by decide) F.del (qnameOk_prefixed _ _ "orx".toList "auto-delete".toList (by decide) (by decide) horx)

theorem modelAttrs_ok {f : Fields} (F : FrameFacts f) :
    (modelAttrs f).all (attrOk (declaredPrefixes (htmlAttrs f))) = true := by
  have hodk := needed_mem F "odk".toList (needed_static f _ (by decide))
  have h1 : attrOk (declaredPrefixes (htmlAttrs f)) ("odk:xforms-version".toList, Pyxv.Gen.currentXformsVersion.toList) = true :=
    attrOk_intro _ _ _ (by decide) (by decide +kernel)
      (qnameOk_prefixed _ _ "odk".toList "xforms-version".toList (by decide) (by decide) hodk)
  unfold modelAttrs
  cases hef : f.entityFeatures
  · simp only [Bool.false_eq_true, if_false, List.all_cons, List.all_nil, Bool.and_true]; exact h1
  · have hent := needed_mem F "entities".toList (needed_entities f hef)
    have h2 : attrOk (declaredPrefixes (htmlAttrs f)) ("entities:entities-version".toList, Pyxv.Gen.entitiesOfflineVersion.toList) = true :=
      attrOk_intro _ _ _ (by decide) (by decide +kernel)
        (qnameOk_prefixed _ _ "entities".toList "entities-version".toList (by decide) (by decide) hent)
    simp only [if_true, List.all_cons, List.all_nil, Bool.and_true, Bool.and_eq_true]; exact ⟨h1, h2⟩

theorem declaredPrefixes_modelAttrs (f : Fields) : declaredPrefixes (setAttrs [] (modelAttrs f)) = [] := by
  unfold modelAttrs
  cases f.entityFeatures <;> decide +kernel

theorem bodyAttrs_eq (s : Str) : setAttrs [] (optAttr "class" s) = optAttr "class" s := by
  unfold optAttr
  split
  · rfl
  · simp [setAttrs, setAttr]

theorem declaredPrefixes_bodyAttrs (s : Str) : declaredPrefixes (setAttrs [] (optAttr "class" s)) = [] := by
  rw [bodyAttrs_eq]
  unfold optAttr
  split
  · rfl
  · simp only [declaredPrefixes, List.filterMap_cons, List.filterMap_nil]
    have : splitOnChar ':' "class".toList = ["class".toList] := by decide
    rw [this]

theorem bodyAttrs_ok (S : List Str) (s : Str) (hs : s.all isXmlChar = true) :
    (setAttrs [] (optAttr "class" s)).all (attrOk S) = true := by
  rw [bodyAttrs_eq]
  unfold optAttr
  split
  · rfl
  · simp only [List.all_cons, List.all_nil, Bool.and_true, attrOk, Bool.and_eq_true]
    exact ⟨⟨by decide, hs⟩, qnameOk_unprefixed _ _ "class".toList (by decide) (by decide)⟩

/-! ## 3. The assembled DOM tree is well-formed and has every prefix bound -/

theorem wf_elem {t : Str} {a : List (Str × Str)} {ks : List Node} (ht : isName t = true)
    (ha : attrsWFLax a = true) (hk : WFKidsLax ks = true) : (Node.elem t a ks).WFLax = true := by
  simp [Node.WFLax, ht, ha, hk]

theorem wfKids_cons {k : Node} {ks : List Node} (h1 : k.WFLax = true) (h2 : WFKidsLax ks = true) :
    WFKidsLax (k :: ks) = true := by
  simp [WFKidsLax, h1, h2]

theorem wfKids_nil : WFKidsLax [] = true := by simp [WFKidsLax]

theorem attrsWFLax_nil : attrsWFLax [] = true := by decide

theorem nodup_step (a : List (Str × Str)) (c : Bool) (k v : Str) (h : attrKeysNodup a = true) :
    attrKeysNodup (if c = true then a else setAttr a k v) = true := by
  cases c
  · exact attrKeysNodup_setAttr a k v h
  · exact h

/-- the AList invariant for the primary instance root: whatever the `attribute::` columns are,
    `id`, `xmlns`, `version`, `odk:prefix`, `odk:delimiter` never produce a duplicate attribute -/
theorem attrKeysNodup_rootAttrs (f : Fields) : attrKeysNodup (rootAttrs f) = true := by
  unfold rootAttrs
  exact nodup_step _ _ _ _ (nodup_step _ _ _ _ (nodup_step _ _ _ _ (nodup_step _ _ _ _
    (attrKeysNodup_setAttr _ _ _ (attrKeysNodup_setAttrs _ _ (attrKeysNodup_setAttrs _ [] rfl))))))

theorem attrKeysNodup_htmlAttrs (f : Fields) : attrKeysNodup (htmlAttrs f) = true :=
  attrKeysNodup_setAttrs _ [] rfl

/-- well-formedness of the parts -/
structure PartsWF (itext : Option (List Node)) (rk rest bk : List Node) : Prop where
  itext : ∀ ks, itext = some ks → WFKidsLax ks = true
  rk : WFKidsLax rk = true
  rest : WFKidsLax rest = true
  bk : WFKidsLax bk = true

theorem wf_submissionNode {f : Fields} (F : FrameFacts f) : WFKidsLax (submissionNode f) = true := by
  unfold submissionNode
  split
  · exact wfKids_nil
  · exact wfKids_cons (wf_elem (by decide)
      (attrsWFLax_of_attrOk (all_setAttrs _ _ [] rfl (subAttrs_ok F)) (attrKeysNodup_setAttrs _ [] rfl)) wfKids_nil) wfKids_nil

theorem wf_assemble {f : Fields} (F : FrameFacts f) {itext : Option (List Node)} {rk rest bk : List Node}
    (P : PartsWF itext rk rest bk) : (assemble f itext rk rest bk).WFLax = true := by
  obtain ⟨pit, prk, prest, pbk⟩ := P
  have hroot : (Node.elem f.name (rootAttrs f) rk).WFLax = true :=
    wf_elem F.nameN (attrsWFLax_of_attrOk F.root (attrKeysNodup_rootAttrs f)) prk
  have hinst : (pyNode "instance".toList [] [.elem f.name (rootAttrs f) rk]).WFLax = true :=
    wf_elem (by decide) attrsWFLax_nil (wfKids_cons hroot wfKids_nil)
  have hitext : WFKidsLax (itextPart itext) = true := by
    cases itext with
    | none => exact wfKids_nil
    | some ks => exact wfKids_cons (wf_elem (by decide) attrsWFLax_nil (pit ks rfl)) wfKids_nil
  have hmk : WFKidsLax (modelKids f itext rk rest) = true := by
    unfold modelKids
    rw [WFKidsLax_append, WFKidsLax_append, wf_submissionNode F, hitext]
    exact wfKids_cons hinst prest
  have hmodel : (pyNode "model".toList (modelAttrs f) (modelKids f itext rk rest)).WFLax = true :=
    wf_elem (by decide)
      (attrsWFLax_of_attrOk (all_setAttrs _ _ [] rfl (modelAttrs_ok F)) (attrKeysNodup_setAttrs _ [] rfl)) hmk
  have htitle : (pyNode "h:title".toList [] [.text false f.title]).WFLax = true :=
    wf_elem (by decide) attrsWFLax_nil (wfKids_cons (by simpa [Node.WFLax] using F.title) wfKids_nil)
  have hbody : (pyNode "h:body".toList (optAttr "class" f.style) bk).WFLax = true :=
    wf_elem (by decide)
      (attrsWFLax_of_attrOk (bodyAttrs_ok [] f.style F.style) (attrKeysNodup_setAttrs _ [] rfl)) pbk
  have hhead : (pyNode "h:head".toList [] [pyNode "h:title".toList [] [.text false f.title],
      pyNode "model".toList (modelAttrs f) (modelKids f itext rk rest)]).WFLax = true :=
    wf_elem (by decide) attrsWFLax_nil (wfKids_cons htitle (wfKids_cons hmodel wfKids_nil))
  exact wf_elem (by decide) (attrsWFLax_of_attrOk F.html (attrKeysNodup_htmlAttrs f))
    (wfKids_cons hhead (wfKids_cons hbody wfKids_nil))

/-- the parts use only prefixes in scope where they are placed: everything declared on `<h:html>`
    (`NSMAP`, the `namespaces` setting, the entities namespace), plus, below the primary instance
    root, what the root itself declares -/
structure PartsBound (f : Fields) (itext : Option (List Node)) (rk rest bk : List Node) : Prop where
  itext : ∀ ks, itext = some ks → prefixesBoundKids (declaredPrefixes (htmlAttrs f)) ks = true
  rk : prefixesBoundKids (declaredPrefixes (rootAttrs f) ++ declaredPrefixes (htmlAttrs f)) rk = true
  rest : prefixesBoundKids (declaredPrefixes (htmlAttrs f)) rest = true
  bk : prefixesBoundKids (declaredPrefixes (htmlAttrs f)) bk = true

theorem pb_elem_intro {sc : List Str} {t : Str} {a : List (Str × Str)} {ks : List Node}
    (ht : qnameOk (declaredPrefixes a ++ sc) t = true)
    (ha : a.all (fun kv => qnameOk (declaredPrefixes a ++ sc) kv.1) = true)
    (hk : prefixesBoundKids (declaredPrefixes a ++ sc) ks = true) : prefixesBound sc (.elem t a ks) = true := by
  rw [pb_elem_eq, ht, ha, hk]; rfl

/-- an element that declares nothing -/
theorem pb_elem_intro0 {sc : List Str} {t : Str} {a : List (Str × Str)} {ks : List Node}
    (h0 : declaredPrefixes a = []) (ht : qnameOk sc t = true)
    (ha : a.all (fun kv => qnameOk sc kv.1) = true)
    (hk : prefixesBoundKids sc ks = true) : prefixesBound sc (.elem t a ks) = true := by
  apply pb_elem_intro <;> rw [h0] <;> assumption

theorem pbKids_cons_intro {sc : List Str} {k : Node} {ks : List Node} (h1 : prefixesBound sc k = true)
    (h2 : prefixesBoundKids sc ks = true) : prefixesBoundKids sc (k :: ks) = true := by
  rw [pbKids_cons, h1, h2]; rfl

theorem all_nil_qname (sc : List Str) : ([] : List (Str × Str)).all (fun kv => qnameOk sc kv.1) = true := rfl

theorem pb_submissionNode {f : Fields} (F : FrameFacts f) :
    prefixesBoundKids (declaredPrefixes (htmlAttrs f)) (submissionNode f) = true := by
  unfold submissionNode
  split
  · exact pbKids_nil _
  · refine pbKids_cons_intro (pb_elem_intro ?_ ?_ (pbKids_nil _)) (pbKids_nil _)
    · exact qnameOk_mono _ _ _ (qnameOk_unprefixed _ _ "submission".toList (by decide) (by decide))
    · exact all_qnameOk_mono _ _ _ (qnames_of_attrOk (all_setAttrs _ _ [] rfl (subAttrs_ok F)))

theorem pb_assemble {f : Fields} (F : FrameFacts f) {itext : Option (List Node)} {rk rest bk : List Node}
    (P : PartsBound f itext rk rest bk) : prefixesBound [] (assemble f itext rk rest bk) = true := by
  obtain ⟨pit, prk, prest, pbk⟩ := P
  have hh := needed_mem F "h".toList (needed_static f _ (by decide))
  have hroot : prefixesBound (declaredPrefixes (htmlAttrs f)) (.elem f.name (rootAttrs f) rk) = true :=
    pb_elem_intro F.nameQ (qnames_of_attrOk F.root) prk
  have hinst : prefixesBound (declaredPrefixes (htmlAttrs f))
      (pyNode "instance".toList [] [.elem f.name (rootAttrs f) rk]) = true :=
    pb_elem_intro0 rfl (qnameOk_unprefixed _ _ "instance".toList (by decide) (by decide)) (all_nil_qname _)
      (pbKids_cons_intro hroot (pbKids_nil _))
  have hitext : prefixesBoundKids (declaredPrefixes (htmlAttrs f))
      (itextPart itext) = true := by
    cases itext with
    | none => exact pbKids_nil _
    | some ks =>
      exact pbKids_cons_intro (pb_elem_intro0 rfl (qnameOk_unprefixed _ _ "itext".toList (by decide) (by decide))
        (all_nil_qname _) (pit ks rfl)) (pbKids_nil _)
  have hmk : prefixesBoundKids (declaredPrefixes (htmlAttrs f)) (modelKids f itext rk rest) = true := by
    unfold modelKids
    rw [pb_append, pb_append, pb_submissionNode F, hitext]
    exact pbKids_cons_intro hinst prest
  have hmodel : prefixesBound (declaredPrefixes (htmlAttrs f))
      (pyNode "model".toList (modelAttrs f) (modelKids f itext rk rest)) = true :=
    pb_elem_intro0 (declaredPrefixes_modelAttrs f) (qnameOk_unprefixed _ _ "model".toList (by decide) (by decide))
      (qnames_of_attrOk (all_setAttrs _ _ [] rfl (modelAttrs_ok F))) hmk
  have htitle : prefixesBound (declaredPrefixes (htmlAttrs f))
      (pyNode "h:title".toList [] [.text false f.title]) = true :=
    pb_elem_intro0 rfl (qnameOk_prefixed _ _ "h".toList "title".toList (by decide) (by decide) hh) (all_nil_qname _)
      (pbKids_cons_intro (pb_text _ _ _) (pbKids_nil _))
  have hbody : prefixesBound (declaredPrefixes (htmlAttrs f))
      (pyNode "h:body".toList (optAttr "class" f.style) bk) = true :=
    pb_elem_intro0 (declaredPrefixes_bodyAttrs f.style)
      (qnameOk_prefixed _ _ "h".toList "body".toList (by decide) (by decide) hh)
      (qnames_of_attrOk (bodyAttrs_ok _ f.style F.style)) pbk
  have hhead : prefixesBound (declaredPrefixes (htmlAttrs f))
      (pyNode "h:head".toList [] [pyNode "h:title".toList [] [.text false f.title],
        pyNode "model".toList (modelAttrs f) (modelKids f itext rk rest)]) = true :=
    pb_elem_intro0 rfl (qnameOk_prefixed _ _ "h".toList "head".toList (by decide) (by decide) hh) (all_nil_qname _)
      (pbKids_cons_intro htitle (pbKids_cons_intro hmodel (pbKids_nil _)))
  have hS : declaredPrefixes (setAttrs [] (getNsmap f)) ++ [] = declaredPrefixes (htmlAttrs f) := List.append_nil _
  refine pb_elem_intro ?_ ?_ ?_ <;> (try rw [hS])
  · exact qnameOk_prefixed _ _ "h".toList "html".toList (by decide) (by decide) hh
  · exact qnames_of_attrOk F.html
  · exact pbKids_cons_intro hhead (pbKids_cons_intro hbody (pbKids_nil _))

/-! ## 4. Property theorems -/

/-- **The skeleton never depends on the parts, and `id` always reaches the root.**  For all survey
    fields whose `<h:html>` keeps the default and `h` declarations, and for *all* parts (no
    hypothesis on them at all), the assembled DOM tree has the ODK skeleton with `id_string` on the
    root of the first instance.  In particular no `attribute::` column (not even `attribute::id`,
    `attribute::x:id`) can displace or overwrite the form id. -/
theorem skeleton_assembled (f : Fields) (hns : NsOK f = true) (itext : Option (List Node))
    (rk rest bk : List Node) : Skeleton (assemble f itext rk rest bk) f.idString = true :=
  skelE_assemble f itext rk rest bk hns

#print axioms skeleton_assembled

/-- `Survey.xml_instance`: the root of the primary instance carries `id = id_string` for every
    value of the settings (no guard). -/
theorem root_id_is_form_id (f : Fields) : lookup "id".toList (rootAttrs f) = some f.idString :=
  lookup_id_rootAttrs f

/-- attribute names are pairwise distinct on `<h:html>` and on the primary instance root for
    *every* `namespaces` / `attribute::` setting (the invariant of `Element.setAttribute`): a
    duplicate attribute — a well-formedness error — cannot come out of the assembly. -/
theorem frame_attributes_distinct (f : Fields) :
    attrKeysNodup (htmlAttrs f) = true ∧ attrKeysNodup (rootAttrs f) = true :=
  ⟨attrKeysNodup_htmlAttrs f, attrKeysNodup_rootAttrs f⟩

/-- **C01 on the DOM tree.**  Under the frame guard and for parts that are themselves well-formed
    and use only prefixes in scope, the assembled tree is (lax) well-formed, has every prefix bound
    and has the skeleton. -/
theorem assembled_dom_ok (f : Fields) (hf : FrameOK f = true) (itext : Option (List Node))
    (rk rest bk : List Node) (PW : PartsWF itext rk rest bk) (PB : PartsBound f itext rk rest bk) :
    (assemble f itext rk rest bk).WFLax = true ∧ prefixesBound [] (assemble f itext rk rest bk) = true ∧
    Skeleton (assemble f itext rk rest bk) f.idString = true :=
  ⟨wf_assemble (frameFacts hf) PW, pb_assemble (frameFacts hf) PB,
    skelE_assemble f itext rk rest bk (frameFacts hf).ns⟩

/-- **C01 on the text, both pretty_print modes.**  The text `Survey._to_ugly_xml` /
    `_to_pretty_xml` produce for the assembled document parses as one well-formed XML document `u`
    in which every element and attribute prefix is bound, and `u` has the ODK XForm skeleton with
    the form id (as an XML reader reports it: attribute-value normalised) on the primary instance root. -/
theorem assembled_text_ok (f : Fields) (hf : FrameOK f = true) (itext : Option (List Node))
    (rk rest bk : List Node) (PW : PartsWF itext rk rest bk) (PB : PartsBound f itext rk rest bk)
    (pretty : Bool) :
    ∃ u, parseDoc (renderDoc pretty (assemble f itext rk rest bk)) = some u ∧
      prefixesBound [] u = true ∧ Skeleton u (normAttrVal f.idString) = true := by
  have F := frameFacts hf
  have hwf := wf_assemble F PW
  have hpb := pb_assemble F PB
  have hsk := skelE_normAttrs (skelE_assemble f itext rk rest bk F.ns)
  have helem : isElem (assemble f itext rk rest bk) = true := rfl
  cases pretty with
  | false =>
    refine ⟨_, render_parses_compact_lax _ hwf helem, ?_, ?_⟩
    · rw [expectedLax, pb_normText, prefixesBound_expected, pb_normAttrs]; exact hpb
    · rw [Skeleton, eproj_expectedLax]; exact hsk
  | true =>
    refine ⟨_, render_parses_pretty_lax _ hwf helem, ?_, ?_⟩
    · rw [expectedPrettyLax, pb_normText, prefixesBound_expectedPretty, pb_normAttrs]; exact hpb
    · rw [Skeleton, eproj_expectedPrettyLax]; exact hsk

#print axioms assembled_text_ok

/-- the same with the form id verbatim, when it contains no TAB / LF / CR -/
theorem assembled_text_ok_id (f : Fields) (hf : FrameOK f = true) (itext : Option (List Node))
    (rk rest bk : List Node) (PW : PartsWF itext rk rest bk) (PB : PartsBound f itext rk rest bk)
    (hid : f.idString.all attrCharOk = true) (pretty : Bool) :
    ∃ u, parseDoc (renderDoc pretty (assemble f itext rk rest bk)) = some u ∧
      prefixesBound [] u = true ∧ Skeleton u f.idString = true := by
  have h := assembled_text_ok f hf itext rk rest bk PW PB pretty
  rwa [normAttrVal_ok f.idString hid] at h

/-! ## 4b. The guard in syntactic terms for a plain header -/

theorem all_step (p : Str × Str → Bool) (a : List (Str × Str)) (c : Bool) (k v : Str)
    (ha : a.all p = true) (hkv : p (k, v) = true) : (if c = true then a else setAttr a k v).all p = true := by
  cases c
  · exact all_setAttr p a k v ha hkv
  · exact ha

/-- every attribute of the primary instance root is one of the user's `attribute::` columns or one of
    the five settings-driven attributes -/
theorem all_rootAttrs (p : Str × Str → Bool) (f : Fields) (hinst : f.instAttrs.all p = true)
    (hattr : f.attrib.all p = true)
    (h1 : p ("id".toList, f.idString) = true) (h2 : p ("xmlns".toList, f.instanceXmlns) = true)
    (h3 : p ("version".toList, f.version) = true) (h4 : p ("odk:prefix".toList, f.pfx) = true)
    (h5 : p ("odk:delimiter".toList, f.delimiter) = true) : (rootAttrs f).all p = true := by
  unfold rootAttrs
  exact all_step p _ _ _ _ (all_step p _ _ _ _ (all_step p _ _ _ _ (all_step p _ _ _ _
    (all_setAttr p _ _ _ (all_setAttrs p _ _ (all_setAttrs p _ [] rfl hinst) hattr) h1) h2) h3) h4) h5

theorem htmlAttrs_plain (f : Fields) (hns : f.namespaces = []) (hef : f.entityFeatures = false) :
    htmlAttrs f = NSMAP := by
  unfold htmlAttrs getNsmap nsString
  rw [hef, hns]
  exact nsmap_wellformed.2.1

/-- **The guard for a plain header.**  Without `namespaces` / `attribute::` settings and without
    entities the guard `FrameOK` says no more than: the form name is an NCName and the header
    strings (title, id, version, style, …) consist of XML characters. -/
theorem frameOK_plain (f : Fields) (hns : f.namespaces = []) (hef : f.entityFeatures = false)
    (hattr : f.attrib = []) (hinst : f.instAttrs = []) (hname : isName f.name = true) (hq : isQName f.name = true)
    (hnp : ∃ l, splitQName f.name = (none, l))
    (htitle : f.title.all isXmlChar = true) (hid : f.idString.all isXmlChar = true)
    (hstyle : f.style.all isXmlChar = true) (hix : f.instanceXmlns.all isXmlChar = true)
    (hver : f.version.all isXmlChar = true) (hpfx : f.pfx.all isXmlChar = true)
    (hdel : f.delimiter.all isXmlChar = true) (hurl : f.submissionUrl.all isXmlChar = true)
    (hkey : f.publicKey.all isXmlChar = true) (hsend : f.autoSend.all isXmlChar = true)
    (hdelete : f.autoDelete.all isXmlChar = true) : FrameOK f = true := by
  have hH := htmlAttrs_plain f hns hef
  have hodk : (declaredPrefixes NSMAP).contains "odk".toList = true := by decide +kernel
  obtain ⟨l, hl⟩ := hnp
  have hroot : (rootAttrs f).all (attrOk (declaredPrefixes (rootAttrs f) ++ declaredPrefixes NSMAP)) = true := by
    apply all_rootAttrs
    · rw [hinst]; rfl
    · rw [hattr]; rfl
    · exact attrOk_intro _ _ _ (by decide) hid (qnameOk_unprefixed _ _ "id".toList (by decide) (by decide))
    · exact attrOk_intro _ _ _ (by decide) hix (qnameOk_unprefixed _ _ "xmlns".toList (by decide) (by decide))
    · exact attrOk_intro _ _ _ (by decide) hver (qnameOk_unprefixed _ _ "version".toList (by decide) (by decide))
    · exact attrOk_intro _ _ _ (by decide) hpfx
        (qnameOk_mono _ _ _ (qnameOk_prefixed _ _ "odk".toList "prefix".toList (by decide) (by decide) hodk))
    · exact attrOk_intro _ _ _ (by decide) hdel
        (qnameOk_mono _ _ _ (qnameOk_prefixed _ _ "odk".toList "delimiter".toList (by decide) (by decide) hodk))
  have hneeded : (neededPrefixes f).all (fun p => (declaredPrefixes NSMAP).contains p) = true := by
    unfold neededPrefixes
    rw [hef]
    decide +kernel
  have hnsok : NsOK f = true := by
    unfold NsOK
    rw [hH, nsmap_default_and_h.1, nsmap_default_and_h.2]
    rfl
  have hhtml : NSMAP.all (attrOk (declaredPrefixes NSMAP)) = true := by decide +kernel
  simp only [FrameOK, hH, hroot, hname, qnameOk_unprefixed _ _ l hq hl, htitle, hstyle, hurl, hkey, hsend,
    hdelete, hneeded, hnsok, hhtml, Bool.and_self]

#print axioms frameOK_plain

/-! ## 5. Non-vacuity -/

/-- settings with a `namespaces` cell (two prefixes, noise tokens, quotes), `attribute::` columns
    (one prefixed, one trying to overwrite `id`, one evicted by local-name collision), a prefixed
    form name, a style, a submission element, entities -/
def exFields : Fields :=
  { name := "esri:root".toList, title := "T & <t> \"q\"".toList, idString := "my form <1>".toList,
    namespaces := "esri=\"http://esri.com/x\"  novalue =x h=ignored ex='urn:e&x'".toList,
    entityFeatures := true, style := "pages".toList,
    attrib := [("esri:a".toList, "1".toList), ("id".toList, "zz".toList), ("odk:foo".toList, "v1".toList),
               ("foo".toList, "v2".toList)],
    instanceXmlns := "http://inst".toList, version := "3".toList, pfx := "p".toList, delimiter := "+".toList,
    submissionUrl := "https://s/x?a=1&b=2".toList, publicKey := "K".toList, autoSend := "true".toList }

def exItext : Option (List Node) :=
  some [.elem "translation".toList [("lang".toList, "en".toList)]
    [.elem "text".toList [("id".toList, "/root/q:label".toList)] [.elem "value".toList [] [.text false "L <b>".toList]]]]
def exRootKids : List Node := [.elem "q".toList [] [], .elem "esri:geo".toList [("ex:k".toList, "v".toList)] []]
def exRest : List Node :=
  [.elem "instance".toList [("id".toList, "l".toList)] [.elem "root".toList [] []],
   .elem "bind".toList [("nodeset".toList, "/esri:root/q".toList), ("jr:constraintMsg".toList, "a\nb".toList)] []]
def exBody : List Node :=
  [.elem "input".toList [("ref".toList, "/esri:root/q".toList)]
    [.elem "label".toList [("ref".toList, "jr:itext('/root/q:label')".toList)] []]]

theorem exFields_ok : FrameOK exFields = true := by decide +kernel
theorem exPartsWF : PartsWF exItext exRootKids exRest exBody :=
  ⟨fun ks h => by cases h; decide +kernel, by decide +kernel, by decide +kernel, by decide +kernel⟩
theorem exPartsBound : PartsBound exFields exItext exRootKids exRest exBody :=
  ⟨fun ks h => by cases h; decide +kernel, by decide +kernel, by decide +kernel, by decide +kernel⟩

-- the theorems instantiated ...
example : ∃ u, parseDoc (renderDoc true (assemble exFields exItext exRootKids exRest exBody)) = some u ∧
    prefixesBound [] u = true ∧ Skeleton u exFields.idString = true :=
  assembled_text_ok_id exFields exFields_ok _ _ _ _ exPartsWF exPartsBound (by decide +kernel) true
example : Skeleton (assemble exFields exItext exRootKids exRest exBody) "my form <1>".toList = true :=
  skeleton_assembled exFields (by decide +kernel) _ _ _ _
example : lookup "id".toList (rootAttrs exFields) = some "my form <1>".toList := root_id_is_form_id exFields
-- a settings-level `instance::id` / `instance::version` column cannot displace the form id either (Section.xml_instance
-- creates the root with them, Survey.xml_instance sets `id` afterwards)
def exHijack : Fields :=
  { name := "d".toList, title := [], idString := "fid".toList,
    instAttrs := [("id".toList, "hijack".toList), ("k".toList, "v".toList)] }
example : lookup "id".toList (rootAttrs exHijack) = some "fid".toList := root_id_is_form_id _
example : rootAttrs exHijack = [("id".toList, "fid".toList), ("k".toList, "v".toList)] := by decide +kernel
-- ... and their conclusion checked independently by kernel evaluation of writer, reader and oracle
theorem ex_holds_compact :
    holds (renderDoc false (assemble exFields exItext exRootKids exRest exBody)) "my form <1>".toList = true := by
  decide +kernel
theorem ex_holds_pretty :
    holds (renderDoc true (assemble exFields exItext exRootKids exRest exBody)) "my form <1>".toList = true := by
  decide +kernel
-- `setAttribute` semantics visible in the example: `id` keeps the position the user gave it but gets
-- the form id; `foo` evicted `odk:foo`
example : rootAttrs exFields =
    [("esri:a".toList, "1".toList), ("id".toList, "my form <1>".toList), ("foo".toList, "v2".toList),
     ("xmlns".toList, "http://inst".toList), ("version".toList, "3".toList), ("odk:prefix".toList, "p".toList),
     ("odk:delimiter".toList, "+".toList)] := by decide +kernel
example : (htmlAttrs exFields).drop 7 =
    [("xmlns:esri".toList, "http://esri.com/x".toList), ("xmlns:ex".toList, "urn:e&x".toList),
     ("xmlns:entities".toList, "http://www.opendatakit.org/xforms/entities".toList)] := by decide +kernel

-- the plain-header guard instantiated
example : FrameOK { name := "data".toList, title := "T <&>".toList, idString := "f 1".toList, version := "2".toList } = true :=
  frameOK_plain _ rfl rfl rfl rfl (by decide) (by decide) ⟨"data".toList, by decide⟩ (by decide) (by decide) (by decide) (by decide)
    (by decide) (by decide) (by decide) (by decide) (by decide) (by decide) (by decide)

-- history: the shapes of the former findings F2, F2b, F3, F4 violate the frame guard, and without the validation
-- pass (`validDoc`, C01Valid.lean, which rejects each of them now) the oracle fails on the assembled document
/-- F2: `namespaces = "1x=http://a"` (prefix not an NCName) -/
def exF2 : Fields := { name := "data".toList, title := "t".toList, idString := "d".toList, namespaces := "1x=http://a".toList }
example : FrameOK exF2 = false := by decide +kernel
example : holds (renderDoc false (assemble exF2 none [] [] [])) "d".toList = false := by decide +kernel
/-- F3: settings `name = a:b` with undeclared prefix `a` -/
def exF3 : Fields := { name := "a:b".toList, title := "t".toList, idString := "d".toList }
example : FrameOK exF3 = false := by decide +kernel
example : holds (renderDoc false (assemble exF3 none [] [] [])) "d".toList = false := by decide +kernel
/-- F4: U+0001 in the title -/
def exF4 : Fields := { name := "data".toList, title := ['a', Char.ofNat 1], idString := "d".toList }
example : FrameOK exF4 = false := by decide +kernel
example : holds (renderDoc true (assemble exF4 none [] [] [])) "d".toList = false := by decide +kernel
/-- F2b: `namespaces = "xmlns=http://b"`: the declaration `xmlns:xmlns` evicts the default namespace
    declaration (same local name), so even the skeleton is lost -/
def exF2b : Fields := { name := "data".toList, title := "t".toList, idString := "d".toList, namespaces := "xmlns=http://b".toList }
example : NsOK exF2b = false := by decide +kernel
example : Skeleton (assemble exF2b none [] [] []) "d".toList = false := by decide +kernel

end Pyxv.C01
