import Pyxv.Proofs.AssembleLemmas
/-!
# C01 — every successful conversion returns a well-formed, namespace-valid XForm with the ODK skeleton

Property theorems about the document-assembly model (`Pyxv/Model/Assemble.lean`) composed with the
writer/reader round trip (`XmlRoundTrip.lean`).  Helper lemmas: `AssembleLemmas.lean`.
-/
namespace Pyxv.C01
open Pyxv Pyxv.Xml Pyxv.Asm

/-! ## 0. Static facts about tables regenerated from the source (re-checked on every run) -/

/-- `NSMAP` binds the default namespace to XForms and `h` to XHTML -/
theorem nsmap_default_and_h :
    lookup "xmlns".toList NSMAP = some xformsNs ∧ lookup "xmlns:h".toList NSMAP = some xhtmlNs := by
  decide +kernel

/-- every prefix used by the static tags and attributes of the frame (`h:html`, `h:head`, `h:title`,
    `h:body`, `odk:xforms-version`, `odk:prefix`, `odk:delimiter`, `orx:auto-send`, `orx:auto-delete`)
    and by the generated binds (`jr:`) is declared by `NSMAP` -/
theorem nsmap_declares_static_prefixes :
    ["h", "odk", "orx", "jr"].all (fun p => (declaredPrefixes NSMAP).contains p.toList) = true := by
  decide +kernel

/-- `NSMAP` itself is a legal attribute list: names, XML characters, distinct keys, distinct local
    names (so `setAttribute` evicts nothing), legal namespace declarations -/
theorem nsmap_wellformed :
    attrsWFLax NSMAP = true ∧ setAttrs [] NSMAP = NSMAP ∧ NSMAP.all declOk = true ∧
    NSMAP.all (fun kv => isQName kv.1) = true := by
  decide +kernel

/-! ## 1. The skeleton -/

/-- guard: on `<h:html>` the default namespace is XForms and `h` is XHTML.  (It can only fail when
    the `namespaces` setting uses the reserved prefix `xmlns`, whose declaration `xmlns:xmlns` evicts
    the default declaration in `Element.setAttribute` — known finding F2b.) -/
def NsOK (f : Fields) : Bool :=
  lookup "xmlns:h".toList (htmlAttrs f) == some xhtmlNs && lookup "xmlns".toList (htmlAttrs f) == some xformsNs

theorem eproj_assemble (f : Fields) (itext : Option (List Node)) (rk rest bk : List Node) :
    eproj (assemble f itext rk rest bk) =
      .elem "h:html".toList (htmlAttrs f)
        [ .elem "h:head".toList []
            [ .elem "h:title".toList [] [],
              .elem "model".toList (setAttrs [] (modelAttrs f)) (eprojKids (modelKids f itext rk rest)) ],
          .elem "h:body".toList (setAttrs [] (optAttr "class" f.style)) (eprojKids bk) ] := by
  simp [assemble, pyNode, eproj_elem, eprojKids, htmlAttrs, setAttrs_nil]

theorem hasName_prefixed {sc : List (Str × Str)} {tag p l ns : Str} (hs : splitQName tag = (some p, l))
    (h : lookup (xmlnsColon ++ p) sc = some ns) : hasName sc tag ns l = true := by
  simp [hasName, expandTag, hs, h]

theorem hasName_default {sc : List (Str × Str)} {tag l ns : Str} (hs : splitQName tag = (none, l))
    (h : lookup "xmlns".toList sc = some ns) : hasName sc tag ns l = true := by
  simp only [hasName, expandTag, hs, h]; simp

theorem lookup_xmlns_modelAttrs (f : Fields) : lookup "xmlns".toList (setAttrs [] (modelAttrs f)) = none := by
  unfold modelAttrs
  cases f.entityFeatures <;> decide +kernel

theorem lookup_h_bodyAttrs (s : Str) : lookup "xmlns:h".toList (setAttrs [] (optAttr "class" s)) = none := by
  unfold optAttr
  split
  · rfl
  · have : setAttrs [] [("class".toList, s)] = [("class".toList, s)] := by simp [setAttrs, setAttr]
    rw [this]
    simp [lookup]

/-- the element-only projection of every assembled document has the skeleton, with `id_string`
    on the root of the first instance — whatever the parts are -/
theorem skelE_assemble (f : Fields) (itext : Option (List Node)) (rk rest bk : List Node)
    (hns : NsOK f = true) :
    skelE f.idString (eproj (assemble f itext rk rest bk)) = true := by
  simp only [NsOK, Bool.and_eq_true, beq_iff_eq] at hns
  obtain ⟨hh, hd⟩ := hns
  have hh' : lookup (xmlnsColon ++ "h".toList) (htmlAttrs f) = some xhtmlNs := hh
  have hd1 : lookup "xmlns".toList ([] ++ htmlAttrs f) = some xformsNs := by simpa using hd
  have hd2 : lookup "xmlns".toList (setAttrs [] (modelAttrs f) ++ ([] ++ htmlAttrs f)) = some xformsNs := by
    rw [lookup_append, lookup_xmlns_modelAttrs]; exact hd1
  rw [eproj_assemble]
  simp only [skelE, find_modelKids, instOk, Bool.and_eq_true, beq_iff_eq]
  and_intros
  · exact hasName_prefixed (p := "h".toList) (by decide) hh'
  · exact hasName_prefixed (p := "h".toList) (by decide) (by simpa using hh')
  · exact hasName_prefixed (p := "h".toList) (by decide) (by simpa using hh')
  · exact hasName_default (by decide) hd2
  · refine hasName_prefixed (p := "h".toList) (by decide) ?_
    have hb : lookup (xmlnsColon ++ "h".toList) (setAttrs [] (optAttr "class" f.style)) = none :=
      lookup_h_bodyAttrs f.style
    rw [lookup_append, hb]; exact hh'
  · exact hasName_default (by decide) (by simpa using hd2)
  · exact lookup_id_rootAttrs f

end Pyxv.C01
