import Pyxv.Proofs.C05
import Pyxv.Proofs.XmlRoundTrip
/-!
# C05 ∘ XML round trip: what an XML reader reads from the written bind is the spec value

`bind_of_row` says which attribute list `xml_bindings` hands to the DOM; `Pyxv.Xml.render_parses_compact_lax`
says what a reader gets back from the text minidom's `_write_data` writes for it.  Composed: the value of
attribute `k` that a parser reports for the row's `<bind>` is the property's value (`Spec.source` then
`Spec.value`: the row's own cell else the type table's value, converted, reference-substituted), up to the
attribute-value normalisation every XML reader applies (TAB / LF / CR → space); exactly that value when it
contains none of these.  In particular text shaped like a character or entity reference (`&#10;`, `&amp;`)
comes back as typed (seeded change C05-7 breaks the writer half of this).
-/
namespace Pyxv.C05
open Pyxv Pyxv.Binds Pyxv.Xml

/-- the DOM element `xml_bindings` yields -/
def bindNode (path : Str) (attrs : List (Str × Str)) : Node :=
  .elem "bind".toList (("nodeset".toList, path) :: attrs) []

theorem expectedLax_leaf (t : Str) (a : List (Str × Str)) :
    expectedLax (.elem t a []) = .elem t (normAttrList a) [] := by
  simp [expectedLax, expected, normAttrs, normAttrsKids, withSpaces, withSpacesKids, normNode, normKids, normText,
    normTextKids, mergeText]

theorem lookup_normAttrList (k : Str) (a : List (Str × Str)) :
    lookup k (normAttrList a) = (lookup k a).map normAttrVal := by
  induction a with
  | nil => rfl
  | cons p rest ih =>
    obtain ⟨k0, v0⟩ := p
    simp only [normAttrList, List.map_cons, lookup] at ih ⊢
    by_cases h : k = k0
    · simp [h]
    · simp only [if_neg h]; exact ih

/-- **bind_read_back.**  Render the row's bind as pyxform does, parse the text: the reader reports a
    `bind` element whose attribute `k` (any name other than `nodeset`) is the property's value for `k`,
    attribute-value normalised.  For all type-table entries, rows, expressions and messages made of
    XML characters. -/
theorem bind_read_back (root : Str) (tops : List Str) (path : Str) (trig : Bool)
    (tt : List (Str × Str)) (logic : BindDict) (attrs : List (Str × Str))
    (hl : (logic.map (·.1)).Nodup)
    (h : attrsOf root tops path trig (dictUpdate (tt.map fun (k, v) => (k, BVal.s v)) logic) = some attrs)
    (hwf : attrsWFLax (("nodeset".toList, path) :: attrs) = true) :
    ∃ a', parseDoc (renderDoc false (bindNode path attrs)) = some (.elem "bind".toList a' []) ∧
      ∀ k, k ≠ "nodeset".toList →
        lookup k a' = ((Spec.source tt logic trig k).bind (Spec.value root tops path k)).map normAttrVal := by
  have hw : (bindNode path attrs).WFLax = true := by
    simp only [bindNode, Node.WFLax, WFKidsLax, hwf, Bool.and_true]
    decide
  refine ⟨normAttrList (("nodeset".toList, path) :: attrs), ?_, ?_⟩
  · rw [render_parses_compact_lax _ hw rfl, bindNode, expectedLax_leaf]
  · intro k hk
    rw [lookup_normAttrList]
    simp only [lookup, if_neg hk]
    rw [bind_of_row root tops path trig tt logic attrs hl h k]

/-- … and exactly the property's value when that value has no TAB / LF / CR (cells never have: the
    backends and `clean_text_values` leave none at the ends, and runs inside are the user's own) -/
theorem bind_read_back_exact (root : Str) (tops : List Str) (path : Str) (trig : Bool)
    (tt : List (Str × Str)) (logic : BindDict) (attrs : List (Str × Str))
    (hl : (logic.map (·.1)).Nodup)
    (h : attrsOf root tops path trig (dictUpdate (tt.map fun (k, v) => (k, BVal.s v)) logic) = some attrs)
    (hwf : attrsWF (("nodeset".toList, path) :: attrs) = true) :
    ∃ a', parseDoc (renderDoc false (bindNode path attrs)) = some (.elem "bind".toList a' []) ∧
      ∀ k, k ≠ "nodeset".toList →
        lookup k a' = (Spec.source tt logic trig k).bind (Spec.value root tops path k) := by
  obtain ⟨a', hp, hk⟩ := bind_read_back root tops path trig tt logic attrs hl h (attrsWFLax_of_attrsWF hwf)
  refine ⟨a', hp, fun k hne => ?_⟩
  rw [hk k hne, ← bind_of_row root tops path trig tt logic attrs hl h k]
  cases hlk : lookup k attrs with
  | none => rfl
  | some v =>
    simp only [Option.map_some, Option.some.injEq]
    apply normAttrVal_ok
    -- `v` is one of the values of `attrs`, all of which are `attrCharOk`
    simp only [attrsWF, List.all_cons, Bool.and_eq_true] at hwf
    have hall := hwf.1.2
    clear hp hk h hl hwf
    revert hlk
    induction attrs with
    | nil => intro hlk; simp [lookup] at hlk
    | cons p rest ih =>
      obtain ⟨k0, v0⟩ := p
      intro hlk
      simp only [List.all_cons, Bool.and_eq_true] at hall
      simp only [lookup] at hlk
      by_cases he : k = k0
      · simp only [if_pos he, Option.some.injEq] at hlk
        subst hlk
        exact hall.1.2
      · simp only [if_neg he] at hlk
        exact ih hall.2 hlk

/-! non-vacuity: a constraint with reference-shaped text and a message with a quote, written and read back -/

private def s (x : String) : Str := x.toList

private def exAttrs : List (Str × Str) :=
  [(s "type", s "string"), (s "constraint", s ". != '&#10;' and . < \"&amp;\""), (s "jr:constraintMsg", s "a < b & c")]

example : attrsOf (s "data") [] (s "/data/q") false
    (dictUpdate ([(s "type", s "string")].map fun (k, v) => (k, BVal.s v))
      [(s "constraint", .s (s ". != '&#10;' and . < \"&amp;\"")), (s "jr:constraintMsg", .s (s "a < b & c"))]) = some exAttrs := by
  decide +kernel

example : attrsWF ((s "nodeset", s "/data/q") :: exAttrs) = true := by decide +kernel

example : parseDoc (renderDoc false (bindNode (s "/data/q") exAttrs)) =
    some (.elem (s "bind") ((s "nodeset", s "/data/q") :: exAttrs) []) := by
  decide +kernel

end Pyxv.C05
