import Pyxv.Proofs.ConvertC10Defaults
/-!
# C10 for the end-to-end composition: the text the instance carries at a question's path

`lookup_instText`: under the hypothesis C10's own `exactly_once` carries (paths of questions pairwise different),
the text `Convert.instNode` writes into every childless node at a question's path — `lookupPath path defs`, absent
read as empty — is `Defaults.instText dynQ` of that question: the stored default iff it is static.
-/
namespace Pyxv.ConvertP
open Pyxv Pyxv.Form Pyxv.Rows Pyxv.Xml Pyxv.Asm Pyxv.Convert Pyxv.C01

theorem qwp_cons (pre : List Str) (e : Defaults.El) (rest : List Defaults.El) :
    Defaults.qwp pre (e :: rest) = Defaults.qwp pre [e] ++ Defaults.qwp pre rest := by
  cases e with
  | q d => simp [Defaults.qwp]
  | grp n ks => simp [Defaults.qwp]
  | rep n ks => simp [Defaults.qwp]

mutual
theorem mem_defaultsOf_any : ∀ (pre : List Str) (d : DItem) (p : List Str) (v : Str), (p, v) ∈ defaultsOf pre d →
    ∃ x ∈ Defaults.qwp pre [toDef d], x.1 = p ∧ x.2.default = v
  | pre, .q d pp, p, v, h => by
    unfold defaultsOf at h
    cases hd : get pp.cells "default" with
    | none => simp [hd] at h
    | some dv =>
      simp only [hd] at h
      split at h
      · simp only [List.mem_singleton, Prod.mk.injEq] at h
        exact ⟨(pre ++ [d.name], toQ d pp), by simp [toDef, Defaults.qwp, toQ], h.1.symm, by simp [toQ, hd, h.2]⟩
      · simp at h
  | pre, .sec .rep n _ _ ks, p, v, h => by
    simp only [defaultsOf] at h
    obtain ⟨x, hx, hh⟩ := mem_defaultsOfL_any (pre ++ [n]) ks p v h
    exact ⟨x, by simpa [toDef, Defaults.qwp] using hx, hh⟩
  | pre, .sec .group n _ _ ks, p, v, h => by
    simp only [defaultsOf] at h
    obtain ⟨x, hx, hh⟩ := mem_defaultsOfL_any (pre ++ [n]) ks p v h
    exact ⟨x, by simpa [toDef, Defaults.qwp] using hx, hh⟩
  | pre, .sec .loop n _ _ ks, p, v, h => by
    simp only [defaultsOf] at h
    obtain ⟨x, hx, hh⟩ := mem_defaultsOfL_any (pre ++ [n]) ks p v h
    exact ⟨x, by simpa [toDef, Defaults.qwp] using hx, hh⟩
/-- every entry of the defaults table (empty text included) is the `default` of a question at that path -/
theorem mem_defaultsOfL_any : ∀ (pre : List Str) (ds : List DItem) (p : List Str) (v : Str),
    (p, v) ∈ defaultsOfL pre ds → ∃ x ∈ Defaults.qwp pre (toDefL ds), x.1 = p ∧ x.2.default = v
  | _, [], _, _, h => by simp [defaultsOfL] at h
  | pre, k :: ks, p, v, h => by
    simp only [defaultsOfL, List.mem_append] at h
    simp only [toDefL]
    rw [qwp_cons]
    rcases h with h | h
    · obtain ⟨x, hx, hh⟩ := mem_defaultsOf_any pre k p v h
      exact ⟨x, List.mem_append_left _ hx, hh⟩
    · obtain ⟨x, hx, hh⟩ := mem_defaultsOfL_any pre ks p v h
      exact ⟨x, List.mem_append_right _ hx, hh⟩
end

theorem lookupPath_some_mem (p : List Str) : ∀ (defs : List (List Str × Str)) (v : Str),
    lookupPath p defs = some v → (p, v) ∈ defs
  | [], _, h => by simp [lookupPath] at h
  | (q, w) :: rest, v, h => by
    simp only [lookupPath] at h
    split at h
    · rename_i e
      simp only [Option.some.injEq] at h
      subst e; subst h
      exact List.mem_cons_self ..
    · exact List.mem_cons_of_mem _ (lookupPath_some_mem p rest v h)

theorem lookupPath_none (p : List Str) : ∀ (defs : List (List Str × Str)), lookupPath p defs = none →
    ∀ v, (p, v) ∉ defs
  | [], _, v => by simp
  | (q, w) :: rest, h, v => by
    simp only [lookupPath] at h
    split at h
    · simp at h
    · rename_i ne
      intro hm
      rcases List.mem_cons.1 hm with e | e
      · simp only [Prod.mk.injEq] at e; exact ne e.1
      · exact lookupPath_none p rest h v e

/-- **the text looked up at a question's path is the `Defaults` slice's `instText`** (every decorated tree whose
    question paths are pairwise different) -/
theorem lookup_instText (pre : List Str) (ds : List DItem)
    (huniq : ((Defaults.qwp pre (toDefL ds)).map (·.1)).Nodup)
    (x : Defaults.Path × Defaults.Q) (hx : x ∈ Defaults.qwp pre (toDefL ds)) :
    (lookupPath x.1 (defaultsOfL pre ds)).getD [] = Defaults.instText dynQ x.2 := by
  cases hl : lookupPath x.1 (defaultsOfL pre ds) with
  | none =>
    simp only [Option.getD_none]
    cases ht : Defaults.instText dynQ x.2 with
    | nil => rfl
    | cons c cs =>
      exfalso
      exact lookupPath_none _ _ hl (c :: cs)
        ((mem_defaultsOfL_iff pre ds x.1 (c :: cs) (by simp)).2 ⟨x, hx, rfl, ht⟩)
  | some v =>
    simp only [Option.getD_some]
    have hm := lookupPath_some_mem _ _ _ hl
    cases v with
    | nil =>
      obtain ⟨x', hx', h1, h2⟩ := mem_defaultsOfL_any pre ds _ _ hm
      have : x' = x := Defaults.nodup_key_unique (·.1) _ huniq x' hx' x hx h1
      subst this
      simp [Defaults.instText, h2]
    | cons c cs =>
      obtain ⟨x', hx', h1, h2⟩ := (mem_defaultsOfL_iff pre ds x.1 (c :: cs) (by simp)).1 hm
      have : x' = x := Defaults.nodup_key_unique (·.1) _ huniq x' hx' x hx h1
      subst this
      exact h2.symm

#print axioms lookup_instText

/-- **C10, instance text of the converted document** (hypothesis `huniq` = the one `C10.exactly_once` carries: paths
    of questions pairwise different — enforced by `Rows17.validate17`, not derived here, hence `_partial`).  The
    children of the primary instance root are `instNodes defs [root] nts`, `nts` being their own name tree
    (`convert_c04`'s); `instNode` gives every childless node at path `p` — instance and `jr:template` copies alike —
    the text `lookupPath p defs` (`instNode_leaf`); and at the path of every question of the mapped tree that text
    (absent = empty) is `Defaults.instText dynQ`: the stored default iff the lexer classifies it static, nothing
    for a dynamic or absent default. -/
theorem convert_c10_defaults_text_partial (wb : Workbook) (doc : Node) (h : convertDoc wb = .ok doc) :
    ∃ (root : Str) (ditems : List DItem) (defs : List (List Str × Str)) (nts : List NT) (rt : Node),
      primaryRoot doc = some rt ∧ kidsOf rt = instNodes defs [root] nts ∧ ntOfL (kidsOf rt) = nts ∧
      (((Defaults.qwp [root] (toDefL ditems)).map (·.1)).Nodup →
        ∀ x ∈ Defaults.qwp [root] (toDefL ditems),
          (lookupPath x.1 defs).getD [] = Defaults.instText dynQ x.2) := by
  obtain ⟨f, lists, rows, drows, o, ditems, T⟩ := convertDoc_trace wb doc h
  refine ⟨f.name, ditems, defaultsOfL [f.name] ditems, ntKids o.inst,
    .elem f.name (rootAttrs f) (instNodes (defaultsOfL [f.name] ditems) [f.name] (ntKids o.inst)), ?_, rfl,
    by simp only [kidsOf, ntOfL_instNodes], fun hu x hx => lookup_instText _ _ hu x hx⟩
  rw [T.hdoc]; exact primaryRoot_assemble ..

#print axioms convert_c10_defaults_text_partial

/-! ## Non-vacuity -/

-- `exDefs`: question paths are pairwise different, and the lookups give abc / nothing (dynamic) / 7
example : ((Defaults.qwp [l!"data"] (toDefL exDefs)).map (·.1)) =
    [[l!"data", l!"a"], [l!"data", l!"r", l!"n"], [l!"data", l!"r", l!"m"]] := by
  simp [exDefs, toDefL, toDef, toQ, Defaults.qwp]
example : lookupPath [l!"data", l!"a"] (defaultsOfL [l!"data"] exDefs) = some (l!"abc") ∧
    lookupPath [l!"data", l!"r", l!"n"] (defaultsOfL [l!"data"] exDefs) = none ∧
    lookupPath [l!"data", l!"r", l!"m"] (defaultsOfL [l!"data"] exDefs) = some (l!"7") := by decide +kernel
-- the theorem applied to the workbook whose text `ex_convert` pins
example : ∃ doc, convertDoc exWb = .ok doc ∧ ∃ root ditems defs nts rt,
    primaryRoot doc = some rt ∧ kidsOf rt = instNodes defs [root] nts ∧ ntOfL (kidsOf rt) = nts ∧
    (((Defaults.qwp [root] (toDefL ditems)).map (·.1)).Nodup →
      ∀ x ∈ Defaults.qwp [root] (toDefL ditems),
        (lookupPath x.1 defs).getD [] = Defaults.instText dynQ x.2) := by
  obtain ⟨doc, hd, -⟩ := convert_ok exWb false exText ex_convert
  exact ⟨doc, hd, convert_c10_defaults_text_partial exWb doc hd⟩

end Pyxv.ConvertP
