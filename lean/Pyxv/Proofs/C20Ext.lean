import Pyxv.Proofs.C20
import Pyxv.Model.WarningsExt
/-!
# C20, phase 8 — single-colon headers, the `jr:` rewrite and `default` on begin rows inside the capstones

`Pyxv.Warn.view2` / `workbookToJson2` (Model/WarningsExt) process every header shape `process_header` accepts and
reduce begin rows with a `default` cell; the row loop and all checks are the unchanged `convertOn`.  Hence the
capstones of `Pyxv.C20` hold for the larger fragment (`workbook2_meets_spec_perm`, `warnings2_advisory`); the new header
model agrees with the old one wherever the old one answered (`processHeader2_extends`), the only header the
implementation rejects in the new branch is the one whose first `jr` token is the last token
(`jrMerge_none_iff`, `processHeader2_raises_iff`), and the reduction of a begin row states the code's label check with
its `default` clause (`noLabelCond_deDefault`).
-/
namespace Pyxv.C20
open Pyxv Pyxv.Warn Pyxv.Warn.Spec
open scoped List

/-! ## capstones on the extended fragment -/

/-- **workbook2_meets_spec_perm.**  For every workbook the extended model converts (single-colon delimiters, `jr:`
    prefixes, `default` on begin rows included) the warnings emitted are a permutation of those due. -/
theorem workbook2_meets_spec_perm (lower : Str → Str) (wb : WB) (res : Res) (ws : List W)
    (h : workbookToJson2 lower wb [] = .ok (res, ws)) :
    ∃ v, view2 wb = .ok v ∧ workbookDue2 lev lower wb = .ok (dueOn lev lower wb v) ∧
      (trShort surveyTrTable v.svHeaders = true → trShort choicesTrTable v.chHeaders = true →
        ws ~ dueOn lev lower wb v) := by
  unfold workbookToJson2 at h
  cases hv : view2 wb with
  | error e => simp [hv] at h
  | ok v =>
    simp only [hv] at h
    exact ⟨v, rfl, by simp [workbookDue2, hv], fun hsv hch => model_meets_spec_perm lower wb v res ws hsv hch h⟩

/-- **warnings2_advisory.**  The list passed in is only appended to; the result does not depend on it. -/
theorem warnings2_advisory (lower : Str → Str) (wb : WB) (w0 : List W) :
    workbookToJson2 lower wb w0 = (workbookToJson2 lower wb []).map (fun p => (p.1, w0 ++ p.2)) := by
  unfold workbookToJson2
  cases view2 wb with
  | error e => rfl
  | ok v => exact warnings_advisory lower wb v w0

/-- a workbook with single-colon headers, a `jr:` column and a begin row with a dynamic default -/
def exColon : WB :=
  { sheetNames := ["survey".toList]
    surveyHeader := ["type".toList, "name".toList, "label:English (en)".toList, "hint : French (fr)".toList,
                     "bind:jr:constraintMsg".toList, "default".toList]
    survey := [[("type".toList, "begin group".toList), ("name".toList, "g".toList), ("default".toList, "1".toList)],
               [("type".toList, "text".toList), ("name".toList, "q".toList), ("label:English (en)".toList, "Q".toList)],
               [("type".toList, "end group".toList)]]
    choicesHeader := [], choices := [], settingsHeader := [], settingsRows := 0, hasEntities := false }

/-- non-vacuity: the old model declines this workbook, the extended one converts it and reports the missing
    translations of both columns and the unlabeled group -/
example : (match workbookToJson lowerAscii exColon [] with | .error (.unsupported _) => true | _ => false) = true := by
  decide +kernel
example : (workbookToJson2 lowerAscii exColon []).toOption.map (fun p => (p.2.length, p.2.contains (W.noLabel 2 "group".toList),
      p.2.contains (W.missingTr "survey".toList "French (fr)".toList "constraint_message".toList))) = some (7, true, true) := by
  decide +kernel

/-! ## the single-colon branch of `process_header` -/

theorem splitC_no_colon (h acc : Str) (hc : ':' ∉ h) : splitC acc h = [acc.reverse ++ h] := by
  induction h generalizing acc with
  | nil => simp [splitC]
  | cons c r ih =>
    have hc1 : c ≠ ':' := fun e => hc (by simp [e])
    have hc2 : ':' ∉ r := fun m => hc (List.mem_cons_of_mem _ m)
    rw [splitC]
    · rw [ih _ hc2]; simp
    · intro e; exact hc1 e

/-- every branch after the delimiter step yields tokens -/
theorem tail_ok (al : Aliases) (cols : List Str) (t0 : Str) (rest : List Str) :
    (match lookup (toSnake t0) al with
      | some (a :: as) => HdrRes.ok ((a :: as) ++ rest)
      | _ => if cols.contains (toSnake t0) then HdrRes.ok (toSnake t0 :: rest) else HdrRes.ok (t0 :: rest)) ≠ .raises := by
  split
  · simp
  · split <;> simp

/-- **jrMerge_none_iff.**  The `jr` rewrite raises (IndexError) exactly when the first `jr` token is the last
    token. -/
theorem jrMerge_none_iff (ts : List Str) :
    jrMerge ts = none ↔ ∃ pre, ts = pre ++ [jrTok] ∧ jrTok ∉ pre := by
  induction ts with
  | nil => simp [jrMerge]
  | cons t rest ih =>
    unfold jrMerge
    by_cases ht : t = jrTok
    · subst ht
      cases rest with
      | nil => simp
      | cons n rest' =>
        simp only [if_true, reduceCtorEq, false_iff]
        rintro ⟨pre, he, hn⟩
        cases pre with
        | nil => simp at he
        | cons p pre' =>
          simp only [List.cons_append, List.cons.injEq] at he
          exact hn (by simp [he.1])
    · simp only [ht, if_false, Option.map_eq_none_iff, ih]
      constructor
      · rintro ⟨pre, he, hn⟩
        exact ⟨t :: pre, by simp [he], by simp [hn, Ne.symm ht]⟩
      · rintro ⟨pre, he, hn⟩
        cases pre with
        | nil => simp at he; exact absurd he.1 ht
        | cons p pre' =>
          simp only [List.cons_append, List.cons.injEq] at he
          exact ⟨pre', he.2, fun m => hn (List.mem_cons_of_mem _ m)⟩

example : jrMerge ["bind".toList, jrTok, "constraintMsg".toList, "fr".toList] =
    some ["bind".toList, "jr:constraintMsg".toList, "fr".toList] := by decide
example : jrMerge ["label".toList, jrTok] = none := by decide
example : jrMerge [jrTok, jrTok, "x".toList] = some ["jr:jr".toList, "x".toList] := by decide

/-- **processHeader2_raises_iff.**  `process_header` raises exactly for a header that is not a column name as it
    stands or in snake case, is processed with the single-colon delimiter, and whose first `jr` token is its last. -/
theorem processHeader2_raises_iff (useDC : Bool) (al : Aliases) (cols : List Str) (h : Str) :
    processHeader2 useDC al cols h = .raises ↔
      lowerSafe h = true ∧ (cols.contains h && (lookup h al).isNone) = false ∧
      (cols.contains (toSnake h) && (lookup (toSnake h) al).isNone) = false ∧
      (useDC || isInfix "::".toList h) = false ∧ jrMerge ((splitC [] h).map strip) = none := by
  unfold processHeader2 headerTokens
  dsimp only
  cases hl : lowerSafe h
  · simp
  cases h1 : (cols.contains h && (lookup h al).isNone)
  case true => simp
  cases h2 : (cols.contains (toSnake h) && (lookup (toSnake h) al).isNone)
  case true => simp
  cases h3 : (useDC || isInfix "::".toList h)
  · simp only [Bool.not_true, Bool.false_eq_true, if_false, true_and]
    cases hj : jrMerge ((splitC [] h).map strip) with
    | none => simp
    | some ts =>
      cases ts with
      | nil => simp
      | cons t0 rest =>
        simp only [reduceCtorEq, iff_false]
        exact tail_ok al cols t0 rest
  · simp only [Bool.not_true, Bool.false_eq_true, if_false, if_true, true_and, false_and, iff_false]
    cases hs : (splitDC [] h).map strip with
    | nil => simp
    | cons t0 rest => exact ⟨fun hh => absurd hh (tail_ok al cols t0 rest), fun hh => by simp at hh⟩

example : processHeader2 false surveyAliases surveyCols "label:jr".toList = .raises := by decide +kernel
example : processHeader2 false surveyAliases surveyCols "label:fr".toList = .ok ["label".toList, "fr".toList] := by decide +kernel

/-- **processHeader2_extends.**  Wherever the phase-7 header model answered, the complete one gives the same tokens
    (the one exception is the bare header `jr`, which the old model wrongly accepted: the code raises). -/
theorem processHeader2_extends (useDC : Bool) (al : Aliases) (cols : List Str) (h : Str) (t : List Str)
    (hjr : strip h ≠ jrTok) (ho : processHeader useDC al cols h = some t) :
    processHeader2 useDC al cols h = .ok t := by
  unfold processHeader at ho
  unfold processHeader2 headerTokens
  dsimp only at ho ⊢
  cases hl : lowerSafe h
  · simp [hl] at ho
  simp only [hl, Bool.not_true, Bool.false_eq_true, if_false] at ho ⊢
  cases h1 : (cols.contains h && (lookup h al).isNone)
  case true =>
    simp only [h1, if_true, Option.some.injEq] at ho
    subst ho; simp
  simp only [h1, Bool.false_eq_true, if_false] at ho ⊢
  cases h2 : (cols.contains (toSnake h) && (lookup (toSnake h) al).isNone)
  case true =>
    simp only [h2, if_true, Option.some.injEq] at ho
    subst ho; simp
  simp only [h2, Bool.false_eq_true, if_false] at ho ⊢
  cases h3 : (useDC || isInfix "::".toList h)
  · simp only [h3, Bool.false_eq_true, if_false] at ho ⊢
    cases hc : h.contains ':'
    case true =>
      have hm : ':' ∈ h := by simpa using hc
      simp [hm] at ho
    have hc' : ':' ∉ h := by simpa using hc
    simp only [hc, Bool.false_eq_true, if_false] at ho
    rw [splitC_no_colon h [] hc']
    simp only [List.reverse_nil, List.nil_append, List.map_cons, List.map_nil, jrMerge, hjr, if_false, Option.map_some]
    cases hlk : lookup (toSnake (strip h)) al with
    | none => simp only [hlk] at ho ⊢; by_cases hm : toSnake (strip h) ∈ cols <;> simp_all
    | some l =>
      cases l with
      | nil => simp only [hlk] at ho ⊢; by_cases hm : toSnake (strip h) ∈ cols <;> simp_all
      | cons a as => simp only [hlk] at ho ⊢; simp_all
  · simp only [h3, if_true] at ho ⊢
    cases hs : (splitDC [] h).map strip with
    | nil => simp [hs] at ho
    | cons t0 rest =>
      simp only [hs] at ho ⊢
      cases hlk : lookup (toSnake t0) al with
      | none => simp only [hlk] at ho ⊢; by_cases hm : toSnake t0 ∈ cols <;> simp_all
      | some l =>
        cases l with
        | nil => simp only [hlk] at ho ⊢; by_cases hm : toSnake t0 ∈ cols <;> simp_all
        | cons a as => simp only [hlk] at ho ⊢; simp_all

example : processHeader true surveyAliases surveyCols "label::fr".toList = some ["label".toList, "fr".toList] := by decide +kernel

/-! ## `default` on a begin row -/

/-- **noLabelCond_deDefault.**  For a begin row with a `default` cell the reduced row's label check is the code's
    label check with its `default` clause: no label, no media, no calculation, default not dynamic, not a
    field-list group (xls2json.py 852-868). -/
theorem noLabelCond_deDefault (r : PRow) (ct : Str) (d : Bool)
    (hb : isBeginRow r = true) (hk : keyIn r "default" = true) (hd : dynDefault r = some d) :
    ∃ r', deDefault r = some r' ∧ noLabelCond r' ct = noLabelCond2 (dropDefault r) ct d := by
  unfold deDefault
  simp only [hb, hk, Bool.and_self, if_true, hd]
  cases d with
  | false => exact ⟨_, rfl, by cases hv : val2 (dropDefault r) "bind" "calculate" <;> simp [noLabelCond, noLabelCond2, hv]⟩
  | true =>
    refine ⟨_, rfl, ?_⟩
    have h1 : keyIn (calcMark :: dropDefault r) "label" = keyIn (dropDefault r) "label" := by
      simp [keyIn, calcMark]
    have h2 : keyIn (calcMark :: dropDefault r) "media" = keyIn (dropDefault r) "media" := by
      simp [keyIn, calcMark]
    have h3 : val2 (calcMark :: dropDefault r) "bind" "calculate" = some ['1'] := by
      simp [val2, calcMark, List.find?]
    simp [noLabelCond, noLabelCond2, h1, h2, h3]
/-- a row without a `default` cell, or not a begin row, is left as it is -/
theorem deDefault_other (r : PRow) (h : (isBeginRow r && keyIn r "default") = false) : deDefault r = some r := by
  simp [deDefault, h]

example : deDefault [(["type".toList], "begin group".toList), (["default".toList], "1 + 1".toList)] =
    some [calcMark, (["type".toList], "begin group".toList)] := by decide +kernel
example : deDefault [(["type".toList], "text".toList), (["default".toList], "1 + 1".toList)] =
    some [(["type".toList], "text".toList), (["default".toList], "1 + 1".toList)] := by decide +kernel

end Pyxv.C20
