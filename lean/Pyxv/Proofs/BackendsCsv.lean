import Pyxv.Model.BackendsGuards
import Pyxv.Proofs.BackendsLemmas
/-!
# CSV backend: `csv.reader` inverts the QUOTE_ALL writer; `csv_to_dict` round trip
-/
namespace Pyxv.Backends.Csv
open Pyxv

/-! ## reader ∘ writer -/

/-- one (escaped) body character inside a quoted field -/
theorem feed_body_char (c : Char) (p : Bool) (g : Str) (flds : List Str) (out : List (List Str)) :
    ∃ p', (if c = '"' then ['"', '"'] else [c]).foldl feed ⟨.inQuoted, p, g, flds, out⟩
      = ⟨.inQuoted, p', g ++ [c], flds, out⟩ := by
  by_cases h1 : c = '"'
  · subst h1
    cases p <;> simp [feed, feed1, stepChar, stepEol]
  · by_cases h2 : c = '\r'
    · subst h2
      cases p <;> simp [feed, feed1, stepChar, stepEol]
    · by_cases h3 : c = '\n'
      · subst h3
        cases p <;> simp [feed, feed1, stepChar, stepEol]
      · cases p <;> simp [feed, feed1, stepChar, stepEol, h1, h2, h3]

/-- (a) the escaped body of a field, from any pending-CR flag -/
theorem feed_body (f : Str) : ∀ (p : Bool) (g : Str) (flds : List Str) (out : List (List Str)),
    ∃ p', (f.flatMap fun c => if c = '"' then ['"', '"'] else [c]).foldl feed ⟨.inQuoted, p, g, flds, out⟩
      = ⟨.inQuoted, p', g ++ f, flds, out⟩ := by
  induction f with
  | nil => intro p g flds out; exact ⟨p, by simp⟩
  | cons c f ih =>
    intro p g flds out
    obtain ⟨p1, h1⟩ := feed_body_char c p g flds out
    obtain ⟨p2, h2⟩ := ih p1 (g ++ [c]) flds out
    refine ⟨p2, ?_⟩
    rw [List.flatMap_cons, List.foldl_append, h1, h2]
    simp

/-- (b) the closing quote -/
theorem feed_close (p : Bool) (g : Str) (flds : List Str) (out : List (List Str)) :
    feed ⟨.inQuoted, p, g, flds, out⟩ '"' = ⟨.quoteInQuoted, false, g, flds, out⟩ := by
  cases p <;> simp [feed, feed1, stepChar, stepEol]

/-- a start state: `.startField`, or `.startRecord` (which treats `"` the same way) -/
def IsStart (m : CsvMode) : Prop := m = .startField ∨ m = .startRecord

theorem feed_open {m : CsvMode} (hm : IsStart m) (flds : List Str) (out : List (List Str)) :
    feed ⟨m, false, [], flds, out⟩ '"' = ⟨.inQuoted, false, [], flds, out⟩ := by
  rcases hm with rfl | rfl <;> simp [feed, feed1, stepChar, stepField, isNl]

/-- a whole quoted field -/
theorem feed_quote {m : CsvMode} (hm : IsStart m) (f : Str) (flds : List Str) (out : List (List Str)) :
    (csvQuote f).foldl feed ⟨m, false, [], flds, out⟩ = ⟨.quoteInQuoted, false, f, flds, out⟩ := by
  obtain ⟨p, hp⟩ := feed_body f false [] flds out
  simp only [csvQuote, List.foldl_cons, List.foldl_append, List.foldl_nil, feed_open hm, hp]
  simpa using feed_close p f flds out

/-- (c) the delimiter after a quoted field -/
theorem feed_comma (f : Str) (flds : List Str) (out : List (List Str)) :
    feed ⟨.quoteInQuoted, false, f, flds, out⟩ ',' = ⟨.startField, false, [], flds ++ [f], out⟩ := by
  simp [feed, feed1, stepChar, saveField]

/-- (d) the line terminator after a quoted field -/
theorem feed_crlf (f : Str) (flds : List Str) (out : List (List Str)) :
    ['\r', '\n'].foldl feed ⟨.quoteInQuoted, false, f, flds, out⟩
      = ⟨.startRecord, false, [], [], out ++ [flds ++ [f]]⟩ := by
  simp [feed, feed1, stepChar, stepEol, saveField, emit, isNl]

/-- (d') the empty record -/
theorem feed_crlf_empty (out : List (List Str)) :
    ['\r', '\n'].foldl feed ⟨.startRecord, false, [], [], out⟩
      = ⟨.startRecord, false, [], [], out ++ [[]]⟩ := by
  simp [feed, feed1, stepChar, stepEol, emit, isNl]

/-- (e) a non-empty record -/
theorem feed_fields (r : List Str) : ∀ (f : Str) {m : CsvMode} (_ : IsStart m) (flds : List Str) (out : List (List Str)),
    (joinWith [','] ((f :: r).map csvQuote) ++ ['\r', '\n']).foldl feed ⟨m, false, [], flds, out⟩
      = ⟨.startRecord, false, [], [], out ++ [flds ++ f :: r]⟩ := by
  induction r with
  | nil =>
    intro f m hm flds out
    simp only [List.map_cons, List.map_nil, joinWith, List.foldl_append, feed_quote hm, feed_crlf]
  | cons f' r ih =>
    intro f m hm flds out
    have := ih f' (Or.inl rfl : IsStart .startField) (flds ++ [f]) out
    simp only [List.map_cons, joinWith, List.foldl_append, List.append_assoc, feed_quote hm] at this ⊢
    simp only [List.foldl_cons, List.foldl_nil, feed_comma]
    simpa using this

theorem feed_record (r : List Str) (out : List (List Str)) :
    (csvRecord r).foldl feed ⟨.startRecord, false, [], [], out⟩ = ⟨.startRecord, false, [], [], out ++ [r]⟩ := by
  cases r with
  | nil => simpa [csvRecord, joinWith] using feed_crlf_empty out
  | cons f r => simpa [csvRecord] using feed_fields r f (Or.inr rfl) [] out

theorem feed_write (rows : List (List Str)) : ∀ out : List (List Str),
    (csvWrite rows).foldl feed ⟨.startRecord, false, [], [], out⟩ = ⟨.startRecord, false, [], [], out ++ rows⟩ := by
  induction rows with
  | nil => intro out; simp [csvWrite]
  | cons r rows ih =>
    intro out
    have := ih (out ++ [r])
    simp only [csvWrite, List.flatMap_cons, List.foldl_append, feed_record] at this ⊢
    simpa using this

/-- `csv.reader` inverts the `QUOTE_ALL` writer on all data. -/
theorem csvRead_write (rows : List (List Str)) : csvRead (csvWrite rows) = rows := by
  have := feed_write rows []
  simp [csvRead, csvInit, this, csvFinish]

example : csvRead (csvWrite [["a,\"b\r\n".toList, []], [], [[]], ["\r".toList, "\n\"\"".toList]])
    = [["a,\"b\r\n".toList, []], [], [[]], ["\r".toList, "\n\"\"".toList]] := by decide
example : csvWrite [["a\"".toList, []], []] = "\"a\"\"\",\"\"\r\n\r\n".toList := by decide

/-! ## `csv_to_dict` on rendered workbooks -/

theorem dset_fresh {κ β} [DecidableEq κ] (k : κ) (v : β) :
    ∀ l : List (κ × β), k ∉ l.map (·.1) → dset k v l = l ++ [(k, v)]
  | [], _ => rfl
  | (k', v') :: l, h => by
    simp only [List.map_cons, List.mem_cons, not_or] at h
    have : ¬ k' = k := fun e => h.1 e.symm
    simp [dset, this, dset_fresh k v l h.2]

theorem dset_mid {κ β} [DecidableEq κ] (k : κ) (v v' : β) (r : List (κ × β)) :
    ∀ l : List (κ × β), k ∉ l.map (·.1) → dset k v (l ++ (k, v') :: r) = l ++ (k, v) :: r
  | [], _ => by simp [dset]
  | (k', w) :: l, h => by
    simp only [List.map_cons, List.mem_cons, not_or] at h
    have : ¬ k' = k := fun e => h.1 e.symm
    simp [dset, this, dset_mid k v v' r l h.2]

theorem dget_mid {κ β} [DecidableEq κ] (k : κ) (v' : β) (r : List (κ × β)) :
    ∀ l : List (κ × β), k ∉ l.map (·.1) → dget k (l ++ (k, v') :: r) = some v'
  | [], _ => by simp [dget]
  | (k', w) :: l, h => by
    simp only [List.map_cons, List.mem_cons, not_or] at h
    have : ¬ k' = k := fun e => h.1 e.symm
    simp [dget, this, dget_mid k v' r l h.2]

theorem dget_fresh {κ β} [DecidableEq κ] (k : κ) :
    ∀ l : List (κ × β), k ∉ l.map (·.1) → dget k l = none
  | [], _ => rfl
  | (k', w) :: l, h => by
    simp only [List.map_cons, List.mem_cons, not_or] at h
    have : ¬ k' = k := fun e => h.1 e.symm
    simp [dget, this, dget_fresh k l h.2]



theorem map_strip_of_all : ∀ r : List Str, r.all (fun c => strip c = c) = true → r.map strip = r
  | [], _ => rfl
  | c :: r, h => by
    simp only [List.all_cons, Bool.and_eq_true, decide_eq_true_eq] at h
    simp [h.1, map_strip_of_all r h.2]

theorem firstColumn_cells (r : List Str) (h : cellsOK r = true) :
    firstColumn ([] :: r) = (none, some r) := by
  simp only [cellsOK, Bool.and_eq_true] at h
  cases r with
  | nil => simp at h
  | cons c r =>
    have hs : strip ([] : Str) = [] := by decide
    have hm := map_strip_of_all _ h.1
    simp only [firstColumn, hs, hm, h.2]
    simp



/-- any record `"" , cells…` with at least one cell: no sheet title; content iff some cell is not blank -/
theorem firstColumn_any (r : List Str) (hne : r ≠ []) :
    firstColumn ([] :: r)
      = (none, if (r.map strip).any (· ≠ []) = true then some (r.map strip) else none) := by
  cases r with
  | nil => exact absurd rfl hne
  | cons c r =>
    have hs : strip ([] : Str) = [] := by decide
    simp only [firstColumn, hs]
    simp

/-- blank cells contribute nothing to a row dict -/
theorem zipDict_blank : ∀ (hs vs : List Str) (acc : KRow), (∀ c ∈ vs, c = []) → zipDict hs vs acc = acc
  | [], vs, acc, _ => by cases vs <;> simp [zipDict]
  | _ :: _, [], acc, _ => by simp [zipDict]
  | h :: hs, v :: vs, acc, hh => by
    have hv : v = [] := hh v (by simp)
    simp only [zipDict, hv, if_true]
    exact zipDict_blank hs vs acc (fun c hc => hh c (by simp [hc]))

theorem zipDict_strip : ∀ (hdr r : List Str) (acc : KRow),
    (r.take hdr.length).all (fun c => strip c = c) = true →
    zipDict hdr (r.map strip) acc = zipDict hdr r acc
  | [], r, acc, _ => by cases r <;> simp [zipDict]
  | _ :: _, [], acc, _ => by simp [zipDict]
  | h :: hs, v :: vs, acc, hh => by
    simp only [List.length_cons, List.take_succ_cons, List.all_cons, Bool.and_eq_true,
      decide_eq_true_eq] at hh
    simp only [List.map_cons, zipDict, hh.1]
    exact zipDict_strip hs vs _ hh.2

/-- a data record `"" , cells…` (blank or not) appends one row dict to the current sheet; a blank
record appends `{}` = `sheetRow hdr r` -/
theorem csvRow_data (P Q : Book) (low : Str) (l : List KRow) (hdr r : List Str)
    (hr : rowOK hdr r = true) (hP : low ∉ P.map (·.1)) :
    csvRow ⟨P ++ (low, .rows l) :: Q, some low, some hdr⟩ ([] :: r)
      = .ok ⟨P ++ (low, .rows (l ++ [sheetRow hdr r])) :: Q, some low, some hdr⟩ := by
  simp only [rowOK, Bool.and_eq_true, Bool.not_eq_true', List.isEmpty_eq_false_iff] at hr
  have hlen : 0 < r.length := List.length_pos_iff.mpr hr.1
  by_cases hb : (r.map strip).any (· ≠ []) = true
  · have hfc : firstColumn ([] :: r) = (none, some (r.map strip)) := by
      rw [firstColumn_any r hr.1, if_pos hb]
    simp [csvRow, hfc, dget_mid low _ Q P hP, dset_mid low _ _ Q P hP, sheetRow,
      zipDict_strip hdr r [] hr.2]
  · have hall : ∀ c ∈ r.map strip, c = [] := by simpa using hb
    have hz : zipDict hdr r [] = [] := by
      rw [← zipDict_strip hdr r [] hr.2]; exact zipDict_blank _ _ _ hall
    have hfc : firstColumn ([] :: r) = (none, none) := by
      rw [firstColumn_any r hr.1, if_neg hb]
    simp [csvRow, hfc, dget_mid low _ Q P hP, dset_mid low _ _ Q P hP, sheetRow, hz, hlen]

/-- the header record `"" , cells…` right after a sheet-title record -/
theorem csvRow_header (B : Book) (low : Str) (hdr : List Str)
    (hr : cellsOK hdr = true) (hB : low ++ headerSuffix ∉ B.map (·.1)) :
    csvRow ⟨B, some low, none⟩ ([] :: hdr)
      = .ok ⟨B ++ [(low ++ headerSuffix, .header (l2dl hdr))], some low, some hdr⟩ := by
  simp [csvRow, firstColumn_cells hdr hr, optStr, dset_fresh _ _ B hB]

/-- a one-field record starts a new sheet -/
theorem csvRow_title (ns : List Str) (E : Book) (sh : Option Str) (hd : Option (List Str)) (nm : Str)
    (h0 : nm ≠ []) (hw : weirdName nm = false)
    (h1 : nm ∉ sheetNamesKey :: E.map (·.1)) (h2 : lowerAscii nm ∉ sheetNamesKey :: E.map (·.1)) :
    csvRow ⟨(sheetNamesKey, .names ns) :: E, sh, hd⟩ [nm]
      = .ok ⟨(sheetNamesKey, .names (ns ++ [nm])) :: E ++ [(lowerAscii nm, .rows [])], some (lowerAscii nm), none⟩ := by
  have hg : dget nm ((sheetNamesKey, Val.names ns) :: E) = none := dget_fresh nm _ (by simpa using h1)
  simp only [List.mem_cons, not_or] at h2
  have hne : ¬ sheetNamesKey = lowerAscii nm := fun e => h2.1 e.symm
  simp only [dget] at hg
  simp [csvRow, firstColumn, hw, h0, dhas, hg, bookNames, dget, dset, hne, dset_fresh _ _ E h2.2]

theorem csvProcess_data (P Q : Book) (low : Str) (hdr : List Str) (rest : List (List Str))
    (hP : low ∉ P.map (·.1)) : ∀ (rows : List (List Str)) (l : List KRow),
    rows.all (rowOK hdr) = true →
    csvProcess ⟨P ++ (low, .rows l) :: Q, some low, some hdr⟩ (rows.map ([] :: ·) ++ rest)
      = csvProcess ⟨P ++ (low, .rows (l ++ rows.map (sheetRow hdr))) :: Q, some low, some hdr⟩ rest
  | [], l, _ => by simp
  | r :: rows, l, h => by
    simp only [List.all_cons, Bool.and_eq_true] at h
    have ih := csvProcess_data P Q low hdr rest hP rows (l ++ [sheetRow hdr r]) h.2
    simp only [List.map_cons, List.cons_append, csvProcess, csvRow_data P Q low l hdr r h.1 hP, ih]
    simp

/-- the dict keys a sheet occupies -/
def sheetKeys (s : Sheet) : List Str := [lowerAscii s.name, lowerAscii s.name ++ headerSuffix]

/-- a sheet name that opens a fresh sheet, given the dict keys `seen` already in use:
non-empty, inside the modelled fragment (`weirdName`: ASCII, lower-cased name is not `sheet_names`
and does not end in `_header`), and neither the name itself (the `sheet_name not in _dict` test is
made on the raw name) nor its lower-cased key nor its `_header` key is in use. -/
def nameOK (seen : List Str) (n : Str) : Bool :=
  !n.isEmpty && !weirdName n && !seen.contains n && !seen.contains (lowerAscii n)
    && !seen.contains (lowerAscii n ++ headerSuffix)

def sheetOK (seen : List Str) (s : Sheet) : Bool :=
  nameOK seen s.name && cellsOK s.header && s.rows.all (rowOK s.header) && noTrailingBlank s

def okFrom : List Str → Workbook → Bool
  | _, [] => true
  | seen, s :: wb => sheetOK seen s && okFrom (seen ++ sheetKeys s) wb

theorem csvProcess_sheet (ns : List Str) (E : Book) (sh : Option Str) (hd : Option (List Str))
    (s : Sheet) (rest : List (List Str)) (h : sheetOK (sheetNamesKey :: E.map (·.1)) s = true) :
    csvProcess ⟨(sheetNamesKey, .names ns) :: E, sh, hd⟩
        ([s.name] :: ([] :: s.header) :: s.rows.map ([] :: ·) ++ rest)
      = csvProcess ⟨(sheetNamesKey, .names (ns ++ [s.name])) :: (E ++ sheetEntries s),
          some (lowerAscii s.name), some s.header⟩ rest := by
  simp only [sheetOK, nameOK, Bool.and_eq_true, Bool.not_eq_true', List.contains_eq_mem,
    decide_eq_false_iff_not, List.isEmpty_eq_false_iff] at h
  obtain ⟨⟨⟨⟨⟨⟨⟨h0, hw⟩, h1⟩, h2⟩, h3⟩, hh⟩, hr⟩, _⟩ := h
  have happ : lowerAscii s.name ++ headerSuffix ≠ lowerAscii s.name :=
    fun e => absurd (List.append_right_eq_self.mp e) (by decide)
  have hB : lowerAscii s.name ++ headerSuffix ∉
      (((sheetNamesKey, Val.names (ns ++ [s.name])) :: (E ++ [(lowerAscii s.name, Val.rows [])])).map (·.1)) := by
    simpa [happ] using h3
  have hP : lowerAscii s.name ∉ (((sheetNamesKey, Val.names (ns ++ [s.name])) :: E).map (·.1)) := by
    simpa using h2
  have hdat := csvProcess_data ((sheetNamesKey, Val.names (ns ++ [s.name])) :: E)
    [(lowerAscii s.name ++ headerSuffix, .header (l2dl s.header))] (lowerAscii s.name) s.header rest hP
    s.rows [] hr
  simp only [List.cons_append, csvProcess, csvRow_title ns E sh hd s.name h0 hw h1 h2,
    csvRow_header _ _ _ hh hB]
  simp only [List.cons_append, List.append_assoc, List.nil_append] at hdat ⊢
  rw [hdat]
  simp [sheetEntries]

theorem csvProcess_from : ∀ (wb : Workbook) (ns : List Str) (E : Book) (sh : Option Str)
    (hd : Option (List Str)), okFrom (sheetNamesKey :: E.map (·.1)) wb = true →
    csvProcess ⟨(sheetNamesKey, .names ns) :: E, sh, hd⟩ (csvRows wb)
      = .ok (csvTrim ((sheetNamesKey, .names (ns ++ wb.map (·.name))) :: (E ++ wb.flatMap sheetEntries)))
  | [], ns, E, sh, hd, _ => by simp [csvRows, csvProcess]
  | s :: wb, ns, E, sh, hd, h => by
    simp only [okFrom, Bool.and_eq_true] at h
    have hk : sheetNamesKey :: (E ++ sheetEntries s).map (·.1)
        = (sheetNamesKey :: E.map (·.1)) ++ sheetKeys s := by
      simp [sheetEntries, sheetKeys]
    have ih := csvProcess_from wb (ns ++ [s.name]) (E ++ sheetEntries s) (some (lowerAscii s.name))
      (some s.header) (by rw [hk]; exact h.2)
    have hs := csvProcess_sheet ns E sh hd s (csvRows wb) h.1
    simp only [csvRows, List.flatMap_cons, List.cons_append, List.map_cons] at hs ih ⊢
    rw [hs, ih]
    simp

/-! ## the guard in terms of names only -/


def lc (c : Char) : Char := if 'A' ≤ c ∧ c ≤ 'Z' then Char.ofNat (c.toNat + 32) else c

theorem lc_small : ∀ n : Fin 128, lc (lc (Char.ofNat n.val)) = lc (Char.ofNat n.val) := by decide

theorem lc_idem (c : Char) : lc (lc c) = lc c := by
  by_cases h : ('A' ≤ c ∧ c ≤ 'Z')
  · have h2 : c.toNat < 128 := by
      have := h.2
      rw [Char.le_def] at this
      have h3 : c.val.toNat ≤ ('Z' : Char).val.toNat := UInt32.le_iff_toNat_le.mp this
      have : ('Z' : Char).val.toNat = 90 := by decide
      simp only [Char.toNat]; omega
    have := lc_small ⟨c.toNat, h2⟩
    simpa [Char.ofNat_toNat] using this
  · have : lc c = c := by simp [lc, h]
    rw [this, this]

theorem lowerAscii_eq (s : Str) : lowerAscii s = s.map lc := rfl

theorem lowerAscii_idem (s : Str) : lowerAscii (lowerAscii s) = lowerAscii s := by
  simp [lowerAscii_eq, List.map_map, Function.comp_def, lc_idem]

theorem lowerAscii_append (a b : Str) : lowerAscii (a ++ b) = lowerAscii a ++ lowerAscii b := by
  simp [lowerAscii_eq]

theorem startsWith_append_self : ∀ p a : Str, startsWith (p ++ a) p = true
  | [], a => by cases a <;> simp [startsWith]
  | c :: p, a => by simp [startsWith, startsWith_append_self p a]

theorem endsWith_append_self (a p : Str) : endsWith (a ++ p) p = true := by
  simp [endsWith, startsWith_append_self]

theorem not_weird {n : Str} (h : weirdName n = false) :
    lowerAscii n ≠ sheetNamesKey ∧ endsWith (lowerAscii n) headerSuffix = false := by
  simp only [weirdName, Bool.or_eq_false_iff, decide_eq_false_iff_not] at h
  exact ⟨h.1.2, h.2⟩

theorem mem_seen (prev : List Str) (x : Str) :
    x ∈ sheetNamesKey :: prev.flatMap (fun m => [lowerAscii m, lowerAscii m ++ headerSuffix]) ↔
      x = sheetNamesKey ∨ ∃ m ∈ prev, x = lowerAscii m ∨ x = lowerAscii m ++ headerSuffix := by
  simp [List.mem_flatMap]

theorem nameOK_of_simple (prev : List Str) (hprev : ∀ m ∈ prev, weirdName m = false) (n : Str)
    (h0 : n ≠ []) (hw : weirdName n = false) (hd : lowerAscii n ∉ prev.map lowerAscii) :
    nameOK (sheetNamesKey :: prev.flatMap (fun m => [lowerAscii m, lowerAscii m ++ headerSuffix])) n = true := by
  obtain ⟨hn1, hn2⟩ := not_weird hw
  have hsk : lowerAscii sheetNamesKey = sheetNamesKey := by decide
  have hhs : lowerAscii headerSuffix = headerSuffix := by decide
  have hskh : endsWith sheetNamesKey headerSuffix = false := by decide
  have hdist : ∀ m ∈ prev, lowerAscii n ≠ lowerAscii m := fun m hm e => hd (e ▸ List.mem_map_of_mem hm)
  have k2 : lowerAscii n ∉ sheetNamesKey :: prev.flatMap (fun m => [lowerAscii m, lowerAscii m ++ headerSuffix]) := by
    rw [mem_seen]
    rintro (e | ⟨m, hm, e | e⟩)
    · exact hn1 e
    · exact hdist m hm e
    · rw [e, endsWith_append_self] at hn2; cases hn2
  have k1 : n ∉ sheetNamesKey :: prev.flatMap (fun m => [lowerAscii m, lowerAscii m ++ headerSuffix]) := by
    rw [mem_seen]
    rintro (e | ⟨m, hm, e | e⟩)
    · exact hn1 (by rw [e, hsk])
    · exact hdist m hm (by rw [e, lowerAscii_idem])
    · rw [e, lowerAscii_append, lowerAscii_idem, hhs, endsWith_append_self] at hn2; cases hn2
  have k3 : lowerAscii n ++ headerSuffix ∉ sheetNamesKey :: prev.flatMap (fun m => [lowerAscii m, lowerAscii m ++ headerSuffix]) := by
    rw [mem_seen]
    rintro (e | ⟨m, hm, e | e⟩)
    · rw [← e, endsWith_append_self] at hskh; cases hskh
    · have := (not_weird (hprev m hm)).2
      rw [← e, endsWith_append_self] at this; cases this
    · exact hdist m hm (List.append_cancel_right e)
  simp [nameOK, h0, hw, k1, k2, k3]





theorem okFrom_of_okNames : ∀ (wb : Workbook) (prev : List Str), (∀ m ∈ prev, weirdName m = false) →
    okNames prev wb = true →
    okFrom (sheetNamesKey :: prev.flatMap (fun m => [lowerAscii m, lowerAscii m ++ headerSuffix])) wb = true
  | [], _, _, _ => rfl
  | s :: wb, prev, hprev, h => by
    simp only [okNames, Bool.and_eq_true, Bool.not_eq_true', List.contains_eq_mem,
      decide_eq_false_iff_not, List.isEmpty_eq_false_iff] at h
    obtain ⟨⟨⟨⟨⟨⟨h0, hw⟩, hd⟩, hh⟩, hr⟩, ht⟩, hrest⟩ := h
    have hprev' : ∀ m ∈ prev ++ [s.name], weirdName m = false := by
      intro m hm
      rcases List.mem_append.mp hm with hm | hm
      · exact hprev m hm
      · simp at hm; exact hm ▸ hw
    have ih := okFrom_of_okNames wb (prev ++ [s.name]) hprev' hrest
    have hk : sheetNamesKey :: (prev ++ [s.name]).flatMap (fun m => [lowerAscii m, lowerAscii m ++ headerSuffix])
        = (sheetNamesKey :: prev.flatMap (fun m => [lowerAscii m, lowerAscii m ++ headerSuffix])) ++ sheetKeys s := by
      simp [sheetKeys]
    rw [hk] at ih
    simp only [okFrom, sheetOK, Bool.and_eq_true]
    exact ⟨⟨⟨⟨nameOK_of_simple prev hprev s.name h0 hw hd, hh⟩, hr⟩, ht⟩, ih⟩

/-- conversely the key-level guard implies the name-level one: nothing is lost -/
theorem okNames_of_okFrom : ∀ (wb : Workbook) (prev : List Str),
    okFrom (sheetNamesKey :: prev.flatMap (fun m => [lowerAscii m, lowerAscii m ++ headerSuffix])) wb = true →
    okNames prev wb = true
  | [], _, _ => rfl
  | s :: wb, prev, h => by
    simp only [okFrom, sheetOK, nameOK, Bool.and_eq_true, Bool.not_eq_true', List.contains_eq_mem,
      decide_eq_false_iff_not, List.isEmpty_eq_false_iff] at h
    obtain ⟨⟨⟨⟨⟨⟨⟨⟨h0, hw⟩, _⟩, h2⟩, _⟩, hh⟩, hr⟩, ht⟩, hrest⟩ := h
    have hk : sheetNamesKey :: (prev ++ [s.name]).flatMap (fun m => [lowerAscii m, lowerAscii m ++ headerSuffix])
        = (sheetNamesKey :: prev.flatMap (fun m => [lowerAscii m, lowerAscii m ++ headerSuffix])) ++ sheetKeys s := by
      simp [sheetKeys]
    have ih := okNames_of_okFrom wb (prev ++ [s.name]) (by rw [hk]; exact hrest)
    have hd : lowerAscii s.name ∉ prev.map lowerAscii := by
      intro hm
      obtain ⟨m, hm, e⟩ := List.mem_map.mp hm
      exact h2 ((mem_seen prev _).mpr (Or.inr ⟨m, hm, Or.inl e.symm⟩))
    simp [okNames, h0, hw, hd, hh, hr, ht, ih]

theorem CsvOK_iff_keys (wb : Workbook) : CsvOK wb = true ↔ okFrom [sheetNamesKey] wb = true :=
  ⟨fun h => okFrom_of_okNames wb [] (by simp) h, fun h => okNames_of_okFrom wb [] h⟩

/-! ## the final trimming loop changes nothing under the guard -/

theorem csvTrim_entries (s : Sheet) (h : noTrailingBlank s = true) :
    csvTrim (sheetEntries s) = sheetEntries s := by
  have h' : stripTrailing (·.isEmpty) (s.rows.map (sheetRow s.header)) = s.rows.map (sheetRow s.header) := by
    simpa [noTrailingBlank, dictRows] using h
  simp only [csvTrim, sheetEntries, List.map_cons, List.map_nil, h']
  split <;> rfl

theorem csvTrim_flat : ∀ wb : Workbook, (∀ s ∈ wb, noTrailingBlank s = true) →
    csvTrim (wb.flatMap sheetEntries) = wb.flatMap sheetEntries
  | [], _ => rfl
  | s :: wb, h => by
    have h1 := csvTrim_entries s (h s (by simp))
    have h2 := csvTrim_flat wb (fun t ht => h t (by simp [ht]))
    simp only [csvTrim, List.flatMap_cons, List.map_append] at h1 h2 ⊢
    rw [h1, h2]

theorem csvTrim_toBook (wb : Workbook) (h : ∀ s ∈ wb, noTrailingBlank s = true) :
    csvTrim (toBook wb) = toBook wb := by
  have := csvTrim_flat wb h
  simp only [csvTrim, toBook, List.map_cons] at this ⊢
  rw [this]

theorem noTrailing_of_okFrom : ∀ (wb : Workbook) (seen : List Str), okFrom seen wb = true →
    ∀ s ∈ wb, noTrailingBlank s = true
  | [], _, _, s, hs => by simp at hs
  | t :: wb, seen, h, s, hs => by
    simp only [okFrom, sheetOK, Bool.and_eq_true] at h
    rcases List.mem_cons.mp hs with rfl | hs
    · exact h.1.2
    · exact noTrailing_of_okFrom wb _ h.2 s hs

/-- `process_csv_data` on the records of a rendered workbook yields the workbook's dict. -/
theorem csvProcess_rows (wb : Workbook) (h : CsvOK wb = true) :
    csvProcess csvAcc0 (csvRows wb) = .ok (toBook wb) := by
  have hk := (CsvOK_iff_keys wb).mp h
  have := csvProcess_from wb [] [] none none (by simpa using hk)
  have ht : csvTrim (toBook wb) = toBook wb := csvTrim_toBook wb (noTrailing_of_okFrom wb _ hk)
  rw [← ht]
  simpa [csvAcc0, toBook] using this

/-- `csv_to_dict` reads back the CSV rendering of every workbook in the guard. -/
theorem csv_roundtrip (wb : Workbook) (h : CsvOK wb = true) (hc : isCsv (renderCsv wb) = true) :
    csvToDict (renderCsv wb) = .ok (toBook wb) := by
  simp only [csvToDict, hc, Bool.not_true, Bool.false_eq_true, if_false]
  rw [renderCsv, csvRead_write, csvProcess_rows wb h]

/-! ## non-vacuity -/

def wbDemo : Workbook :=
  [⟨"Survey".toList, ["type".toList, "name".toList, "label".toList],
     [["text".toList, "q1".toList, "a \"quoted\", label\r\nline 2".toList], [[], "q2".toList]]⟩,
   ⟨"choices".toList, ["list_name".toList, [], "name".toList], [["l".toList, [], "a".toList]]⟩,
   ⟨"x y".toList, ["h".toList], []⟩]

example : CsvOK wbDemo = true := by decide
example : isCsv (renderCsv wbDemo) = true := by decide
example : csvToDict (renderCsv wbDemo) = .ok (toBook wbDemo) := csv_roundtrip wbDemo (by decide) (by decide)
example : csvProcess csvAcc0 (csvRows wbDemo) = .ok (toBook wbDemo) := csvProcess_rows wbDemo (by decide)
-- the guard is not trivially true: trailing blank rows, empty row lists, unstripped cells, clashing names
example : CsvOK [⟨"a".toList, ["h".toList], [[[]]]⟩] = false := by decide
example : CsvOK [⟨"a".toList, ["h".toList], [["v".toList], [[]]]⟩] = false := by decide
example : CsvOK [⟨"a".toList, ["h".toList], [["v".toList], []]⟩] = false := by decide
example : CsvOK [⟨"a".toList, ["h ".toList], []⟩] = false := by decide
example : CsvOK [⟨"a".toList, ["h".toList], [[" v".toList]]⟩] = false := by decide
example : CsvOK [⟨"A".toList, ["h".toList], []⟩, ⟨"a".toList, ["h".toList], []⟩] = false := by decide
example : CsvOK [⟨"a_header".toList, ["h".toList], []⟩] = false := by decide

-- a cell beyond the header need not be stripped
example : CsvOK [⟨"a".toList, ["h".toList], [["v".toList, " x ".toList]]⟩] = true := by decide

def isOkWith (r : Except Err Book) (b : Book) : Bool := match r with | .ok b' => b' = b | .error _ => false

-- blank rows amongst the data are inside the guard and are kept as `{}` (also a blank row whose cell
-- beyond the header is a space)
def wbInterior : Workbook :=
  [⟨"a".toList, ["h".toList, "i".toList], [["a".toList], [[]], [[], [], " ".toList], ["b".toList]]⟩]
example : CsvOK wbInterior = true := by decide
example : toBook wbInterior =
    [(sheetNamesKey, .names ["a".toList]),
     ("a".toList, .rows [[(some "h".toList, "a".toList)], [], [], [(some "h".toList, "b".toList)]]),
     ("a_header".toList, .header (l2dl ["h".toList, "i".toList]))] := by decide
example : csvToDict (renderCsv wbInterior) = .ok (toBook wbInterior) :=
  csv_roundtrip wbInterior (by decide) (by decide)
example : isOkWith (csvToDict (renderCsv wbInterior)) (toBook wbInterior) = true := by decide +kernel

-- a cell with an interior U+00A0 is inside the guard; both sides read it as a space
def wbNbsp : Workbook := [⟨"a".toList, ["h".toList, "i".toList], [[['x', Char.ofNat 160, 'y'], "z".toList]]⟩]
example : CsvOK wbNbsp = true := by decide
example : toBook wbNbsp =
    [(sheetNamesKey, .names ["a".toList]),
     ("a".toList, .rows [[(some "h".toList, "x y".toList), (some "i".toList, "z".toList)]]),
     ("a_header".toList, .header (l2dl ["h".toList, "i".toList]))] := by decide
example : csvToDict (renderCsv wbNbsp) = .ok (toBook wbNbsp) := csv_roundtrip wbNbsp (by decide) (by decide)

-- outside the guard the round trip really fails: a trailing blank data row is dropped, and a second
-- sheet whose name differs only in case is merged into the first
def wbBlank : Workbook := [⟨"a".toList, ["h".toList, "i".toList, "j".toList], [["v".toList], [[]]]⟩]
def wbCase : Workbook := [⟨"A".toList, ["h".toList, "i".toList], []⟩, ⟨"a".toList, ["h".toList, "i".toList], []⟩]
example : isOkWith (csvToDict (renderCsv wbDemo)) (toBook wbDemo) = true := by decide +kernel
example : CsvOK wbBlank = false ∧ isOkWith (csvToDict (renderCsv wbBlank)) (toBook wbBlank) = false := by decide
example : CsvOK wbCase = false ∧ isOkWith (csvToDict (renderCsv wbCase)) (toBook wbCase) = false := by decide

end Pyxv.Backends.Csv
