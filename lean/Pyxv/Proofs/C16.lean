import Pyxv.Proofs.JValLemmas
/-!
# C16 — the JSON intermediate form is a faithful, reloadable representation: property theorems

Part 1 (this section): the text layer.  `JV.print` is the model of `json.dumps` (defaults,
`ensure_ascii=True`), `JV.parse` the model of `json.loads`; both are tied to CPython's `json` on
every `_pyxform` dict, every survey dump and on adversarial values/texts by `./check C16`.
-/
namespace Pyxv.C16
open Pyxv Pyxv.JV

/-- Every string — every sequence of Unicode scalar values: controls, quotes, backslashes, DEL,
    non-ASCII BMP characters (`\uXXXX`) and astral characters (surrogate pairs) — written as a JSON
    string literal is read back exactly, whatever follows the closing quote. -/
theorem string_literal_roundtrip (s rest : Str) :
    readStr (printStr s ++ rest) = some (s, rest) :=
  readStr_printStr s rest

example : readStr (printStr "é\"\\\n\u0001\u007f😀".toList ++ ", 1]".toList)
    = some ("é\"\\\n\u0001\u007f😀".toList, ", 1]".toList) := string_literal_roundtrip _ _

/-- FLAGSHIP, no hypothesis: for every JSON value `j` (any nesting depth, any strings, any integers,
    duplicate keys or not), reading the text `json.dumps` writes gives back `j` as the sequence of
    pairs the decoder sees (before `dict()` merges duplicate keys). -/
theorem parseRaw_print (j : J) : parseRaw (print j) = some j := by
  have h := readValue_print j [] ((print j).length + 1) (Or.inl rfl) (by have := size_le_print j; omega)
  have hs := skipWs_print j []
  simp only [List.append_nil] at h hs
  simp [parseRaw, hs, h, skipWs]

example : parseRaw (print (.obj [("a".toList, .arr [.null, .num (-30), .bool true, .str "é\"😀".toList]),
    ("b".toList, .obj []), ("a".toList, .num 0)])) = some (.obj [("a".toList, .arr [.null, .num (-30),
    .bool true, .str "é\"😀".toList]), ("b".toList, .obj []), ("a".toList, .num 0)]) := parseRaw_print _

/-- A value that is a nest of Python dicts (keys unique within every object) is unchanged by the
    decoder's `dict(pairs)`. -/
theorem dedup_of_uniqueKeys (j : J) (h : UniqueKeys j) : dedup j = j :=
  JV.dedup_of_uniqueKeys j h

/-- `json.loads(json.dumps(v)) == v` for every value `v` of the intermediate form (nests of Python
    dicts/lists/str/int/bool/None; `UniqueKeys` says exactly that the objects are dicts). -/
theorem loads_dumps (j : J) (h : UniqueKeys j) : parse (print j) = some j := by
  simp [parse, parseRaw_print, JV.dedup_of_uniqueKeys j h]

example : parse (print (.obj [("type".toList, .str "survey".toList), ("children".toList,
    .arr [.obj [("name".toList, .str "qé\"".toList), ("bind".toList, .obj [("required".toList, .bool true)])]])]))
    = some (.obj [("type".toList, .str "survey".toList), ("children".toList,
    .arr [.obj [("name".toList, .str "qé\"".toList), ("bind".toList, .obj [("required".toList, .bool true)])]])]) :=
  loads_dumps _ (by simp [UniqueKeys, UniqueKeysL, UniqueKeysM])

/-- the duplicate-key behaviour of the decoder is real: the hypothesis of `loads_dumps` cannot be dropped
    (such a value is not a Python dict, so nothing of pyxform is excluded by it). -/
example : parse (print (.obj [("a".toList, .num 1), ("a".toList, .num 2)])) = some (.obj [("a".toList, .num 2)]) := by
  simp [parse, parseRaw_print, dedup, dedupM, dictInsert]

/-- dump, load, dump at the text level: re-serialising what was loaded gives the same text. -/
theorem dumps_loads_dumps (j : J) (h : UniqueKeys j) : (parse (print j)).map print = some (print j) := by
  simp [loads_dumps j h]

example : (parse (print (.arr [.str "x".toList, .num 7]))).map print = some (print (.arr [.str "x".toList, .num 7])) :=
  dumps_loads_dumps _ (by simp [UniqueKeys, UniqueKeysL])

end Pyxv.C16
