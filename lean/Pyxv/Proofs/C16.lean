import Pyxv.Proofs.JValLemmas
import Pyxv.Proofs.ToJsonLemmas
import Pyxv.Proofs.FromJsonLemmas
import Pyxv.Proofs.QStable
import Pyxv.Proofs.UniqueKeysDump
import Pyxv.Proofs.OptionStable
import Pyxv.Model.OpsToJson
/-!
# C16 — the JSON intermediate form is a faithful, reloadable representation: property theorems

Part 1 (this section): the text layer.  `JV.print` is the model of `json.dumps` (defaults,
`ensure_ascii=True`), `JV.parse` the model of `json.loads`; both are tied to CPython's `json` on
every `_pyxform` dict, every survey dump and on adversarial values/texts by `./check C16`.
-/
namespace Pyxv.C16
open Pyxv Pyxv.JV

/-- Every string — every sequence of Unicode scalar values: controls, quotes, backslashes, DEL,
    non-ASCII BMP characters (`\uXXXX`) and astral characters (surrogate pairs) — written as a JSON
    string literal is read back exactly, whatever follows the closing quote. -/
theorem string_literal_roundtrip (s rest : Str) :
    readStr (printStr s ++ rest) = some (s, rest) :=
  readStr_printStr s rest

example : readStr (printStr "é\"\\\n\u0001\u007f😀".toList ++ ", 1]".toList)
    = some ("é\"\\\n\u0001\u007f😀".toList, ", 1]".toList) := string_literal_roundtrip _ _

/-- FLAGSHIP, no hypothesis: for every JSON value `j` (any nesting depth, any strings, any integers,
    duplicate keys or not), reading the text `json.dumps` writes gives back `j` as the sequence of
    pairs the decoder sees (before `dict()` merges duplicate keys). -/
theorem parseRaw_print (j : J) : parseRaw (print j) = some j := by
  have h := readValue_print j [] ((print j).length + 1) (Or.inl rfl) (by have := size_le_print j; omega)
  have hs := skipWs_print j []
  simp only [List.append_nil] at h hs
  simp [parseRaw, hs, h, skipWs]

example : parseRaw (print (.obj [("a".toList, .arr [.null, .num (-30), .bool true, .str "é\"😀".toList]),
    ("b".toList, .obj []), ("a".toList, .num 0)])) = some (.obj [("a".toList, .arr [.null, .num (-30),
    .bool true, .str "é\"😀".toList]), ("b".toList, .obj []), ("a".toList, .num 0)]) := parseRaw_print _

/-- A value that is a nest of Python dicts (keys unique within every object) is unchanged by the
    decoder's `dict(pairs)`. -/
theorem dedup_of_uniqueKeys (j : J) (h : UniqueKeys j) : dedup j = j :=
  JV.dedup_of_uniqueKeys j h

/-- `json.loads(json.dumps(v)) == v` for every value `v` of the intermediate form (nests of Python
    dicts/lists/str/int/bool/None; `UniqueKeys` says exactly that the objects are dicts). -/
theorem loads_dumps (j : J) (h : UniqueKeys j) : parse (print j) = some j := by
  simp [parse, parseRaw_print, JV.dedup_of_uniqueKeys j h]

example : parse (print (.obj [("type".toList, .str "survey".toList), ("children".toList,
    .arr [.obj [("name".toList, .str "qé\"".toList), ("bind".toList, .obj [("required".toList, .bool true)])]])]))
    = some (.obj [("type".toList, .str "survey".toList), ("children".toList,
    .arr [.obj [("name".toList, .str "qé\"".toList), ("bind".toList, .obj [("required".toList, .bool true)])]])]) :=
  loads_dumps _ (by simp [UniqueKeys, UniqueKeysL, UniqueKeysM])

/-- the duplicate-key behaviour of the decoder is real: the hypothesis of `loads_dumps` cannot be dropped
    (such a value is not a Python dict, so nothing of pyxform is excluded by it). -/
example : parse (print (.obj [("a".toList, .num 1), ("a".toList, .num 2)])) = some (.obj [("a".toList, .num 2)]) := by
  simp [parse, parseRaw_print, dedup, dedupM, dictInsert]

/-- dump, load, dump at the text level: re-serialising what was loaded gives the same text. -/
theorem dumps_loads_dumps (j : J) (h : UniqueKeys j) : (parse (print j)).map print = some (print j) := by
  simp [loads_dumps j h]

example : (parse (print (.arr [.str "x".toList, .num 7]))).map print = some (print (.arr [.str "x".toList, .num 7])) :=
  dumps_loads_dumps _ (by simp [UniqueKeys, UniqueKeysL])


/-!
Part 2: the dict layer — `to_json_dict` (`ToJson.ownDump`: delete the class's key list at the top level,
drop falsy values; `ToJson.optionDump`, `ToJson.restoreScalars`: what the class overrides put back) and the
builder's reading of a dumped dict (`ToJson.reloadSlots`, `ToJson.reloadOption`, `ToJson.reloadScalar`).
The tree recursion and `_qtd_kwargs` restoration are in `ToJson.toJson`, tied to the real `to_json_dict` by
the correspondence run; they carry no theorem (see notes/design_C16.md).
-/
open Pyxv.ToJson

/-- dump, load, dump: what an element dumps after being rebuilt from its own dump is the same dict
    (keys, order, values), for every class's delete list and every slot assignment. -/
theorem dump_stable (del : List Str) (slots : Dict) (hn : (slots.map Prod.fst).Nodup) :
    ownDump del (reloadSlots (slots.map Prod.fst) (ownDump del slots)) = ownDump del slots := by
  rw [reloadSlots_ownDump del slots hn, ownDump_eq_filter, ownDump_eq_filter, filter_map_keeps]

example : ownDump [k!"extra_data"] (reloadSlots [k!"name", k!"bind", k!"label"]
      (ownDump [k!"extra_data"] [(k!"name", .str k!"g"), (k!"bind", .obj [(k!"relevant", .str k!"1")]),
        (k!"label", .null)]))
    = ownDump [k!"extra_data"] [(k!"name", .str k!"g"), (k!"bind", .obj [(k!"relevant", .str k!"1")]),
        (k!"label", .null)] :=
  dump_stable _ _ (by decide)

/-- Every slot that the class's `to_json_dict` does not delete comes back from dump + reload with its value
    (a falsy value comes back as a falsy initial value).  Slot level: the statement "the rebuilt survey
    generates the same XForm" needs the builder and the XForm generator, which this slice does not model; it is
    decided on the implementation for every generated form. -/
theorem survey_json_roundtrip_slots (del : List Str) (slots : Dict) (hn : (slots.map Prod.fst).Nodup)
    (k : Str) (v : J) (hm : (k, v) ∈ slots) (hk : k ∉ del) :
    lookup k (reloadSlots (slots.map Prod.fst) (ownDump del slots)) = some (if truthy v then v else .null) := by
  rw [reloadSlots_ownDump del slots hn, lookup_map_snd _ slots hn k v hm]
  simp [keeps, hk]

example : lookup k!"label" (reloadSlots [k!"name", k!"label"]
    (ownDump [k!"extra_data"] [(k!"name", .str k!"g"), (k!"label", .str k!"L")]))
    = some (.str k!"L") := by
  have := survey_json_roundtrip_slots [k!"extra_data"] [(k!"name", .str k!"g"), (k!"label", .str k!"L")]
    (by decide) k!"label" (.str k!"L") (by simp) (by decide)
  simpa [truthy] using this

/-- a key in the delete list comes back falsy unless a class override restores it (general lemma; it is what
    made F12/F37 visible in the model before they were repaired). -/
theorem deleted_key_lost (del : List Str) (slots : Dict) (hn : (slots.map Prod.fst).Nodup)
    (k : Str) (v : J) (hm : (k, v) ∈ slots) (hk : k ∈ del) :
    lookup k (reloadSlots (slots.map Prod.fst) (ownDump del slots)) = some .null := by
  rw [reloadSlots_ownDump del slots hn, lookup_map_snd _ slots hn k v hm]
  simp [keeps, hk]

example : lookup k!"extra_data" (reloadSlots [k!"name", k!"extra_data"]
    (ownDump (allDelete .option [k!"name", k!"extra_data"] [] [k!"parent"])
      [(k!"name", .str k!"a"), (k!"extra_data", .obj [(k!"pop", .str k!"1")])]))
    = some .null :=
  deleted_key_lost _ _ (by decide) _ (.obj [(k!"pop", .str k!"1")]) (by simp) (by decide)

/-- group logic is kept (fix cecbf61): a group's `bind` is not in what `GroupedSection.to_json_dict` deletes,
    so it survives dump + reload — `relevant`, `readonly`, `required`, `constraint`, messages, `bind::x`. -/
theorem group_bind_survives (slots : Dict) (hn : (slots.map Prod.fst).Nodup) (qtd : List Str)
    (v : J) (hm : (k!"bind", v) ∈ slots) (ht : truthy v = true) :
    lookup k!"bind" (reloadSlots (slots.map Prod.fst)
      (ownDump (allDelete .group (slots.map Prod.fst) qtd [k!"parent"]) slots)) = some v := by
  have := survey_json_roundtrip_slots (allDelete .group (slots.map Prod.fst) qtd [k!"parent"]) slots hn
    k!"bind" v hm (by simp [allDelete, clsDelete])
  simpa [ht] using this

example : lookup k!"bind" (reloadSlots [k!"name", k!"bind"]
    (ownDump (allDelete .group [k!"name", k!"bind"] [] [k!"parent"])
      [(k!"name", .str k!"g"), (k!"bind", .obj [(k!"relevant", .str k!"1 = 1")])]))
    = some (.obj [(k!"relevant", .str k!"1 = 1")]) :=
  group_bind_survives _ (by decide) [] _ (by simp) (by simp [truthy])

/-- extra choice columns are kept (fix d15eb33): the `extra_data` of an Option rebuilt from its dump is the
    original `extra_data` without its falsy entries — for every option whose extra columns have distinct
    names that are not slot names (what xls2json produces). -/
theorem option_extra_survives (slots extra : Dict) (hn : (extra.map Prod.fst).Nodup)
    (hd : ∀ k ∈ extra.map Prod.fst, k ∉ slots.map Prod.fst) :
    (reloadOption (slots.map Prod.fst) (optionDump (slots, extra))).2 = extra.filter fun kv => truthy kv.2 := by
  simp only [reloadOption, optionDump]
  have hsub := ownDump_keys_subset (allDelete .option (slots.map Prod.fst) [] [k!"parent"]) slots
  rw [restoreExtra_fresh extra _ hn (fun k hk hin => hd k hk (hsub k hin))]
  apply reloadExtra_append _ _ _ hsub
  intro k hk
  simp only [List.mem_map, List.mem_filter] at hk
  obtain ⟨kv, ⟨hkv, _⟩, e⟩ := hk
  exact hd k (List.mem_map.mpr ⟨kv, hkv, e⟩)

example : (reloadOption [k!"name", k!"label"]
    (optionDump ([(k!"name", .str k!"a"), (k!"label", .str k!"A")],
      [(k!"pop", .str k!"1"), (k!"empty", .str [])]))).2 = [(k!"pop", .str k!"1")] := by
  have := option_extra_survives [(k!"name", .str k!"a"), (k!"label", .str k!"A")]
    [(k!"pop", .str k!"1"), (k!"empty", .str [])] (by decide) (by decide)
  simpa [truthy] using this

/-- a user's hint on a type whose type-table entry has a hint is kept (fix 86e7ba3): whatever truthy value the
    slot holds — the table's own string or anything else — comes back from dump + reload. -/
theorem user_hint_survives (slots d : Dict) (k v : Str) (value : J)
    (hv : lookup k slots = some value) (ht : truthy value = true) (hd : lookup k d = none) :
    reloadScalar k v (restoreScalars slots [(k, v)] d) = value := by
  simp only [restoreScalars, hv, Option.getD_some, ht, Bool.true_and]
  by_cases hne : neStr value v = true
  · simp [hne, reloadScalar, setKey, lookup_dictInsert]
  · cases value with
    | str s =>
      have : s = v := by simpa [neStr] using hne
      subst this
      simp [hne, reloadScalar, hd]
    | _ => simp [neStr] at hne

example : reloadScalar k!"hint" k!"Enter numbers only."
    (restoreScalars [(k!"hint", .str k!"my hint")] [(k!"hint", k!"Enter numbers only.")]
      [(k!"name", .str k!"p")]) = .str k!"my hint" :=
  user_hint_survives _ _ _ _ _ rfl (by simp [truthy]) (by decide)

/-- facts about the tables regenerated from /repo on every run: `bind` is a slot of sections, and exactly four
    types carry a top-level (string) `hint` in the type table — the keys `restoreScalars` is about. -/
theorem bind_is_a_section_slot : "bind" ∈ Gen.sectionFields := by decide

theorem types_with_table_hint :
    (Gen.questionTypes.filter fun e => e.2.any fun t => t.1 == "" && t.2.1 == "hint").map Prod.fst =
      ["number of days in last month", "number of days in last six months", "phone number",
       "number of days in last year"] := by decide +kernel


/-!
Part 3: whole trees.  `ToJson.fromJson` is the model of `builder.create_survey_element_from_dict` on the
fragment described in `Model/FromJson.lean`; `ToJson.toJson (fromJson d)` is compared with the dump of the
really reloaded survey on every generated form that falls inside the fragment.
-/

/-- the facts about the regenerated slot tuples that the section part of the tree theorem uses (re-checked
    against the current source on every run). -/
theorem genCfg_secOk : SecOk genCfg := by
  constructor <;> decide +kernel

/-- the facts about the regenerated question slot tuples and about every entry of the regenerated type table
    that the question part uses (distinct keys per entry; no entry has a key `type`, `name`, `trigger`,
    `children`, `choices`, `itemset`, `list_name`; those slots exist and are not deleted by `to_json_dict`). -/
theorem genCfg_qOk : QOk genCfg :=
  QOk.of_all genCfg (by constructor <;> decide +kernel) (by constructor <;> decide +kernel)
    (by decide +kernel) (by decide +kernel) (by decide +kernel) (by decide +kernel) (by decide +kernel)

/-- a question built by the builder (type-table merge, `_qtd_kwargs`, non-dict defaults) dumps to a dict that
    the builder accepts again, and the question built from that dumps to the same dict — for the tables of
    the current source. -/
theorem question_dump_stable : QStable genCfg := question_stable genCfg genCfg_qOk

/-- dump, load, dump on whole element trees, for the tables regenerated from the source: for every dict `d`
    the builder model accepts — surveys, groups, repeats nested to any depth, questions of every type of the
    type table with any given bind/control/hint/… values — the survey it builds dumps to a dict that the
    builder accepts again, and the survey built from that dumps to the same dict (keys, order, values). -/
theorem dump_stable_tree (f : Nat) (d : J) (e : El) (h : fromJson genCfg f d = some e) :
    ∃ e', fromJson genCfg f (toJson e []) = some e' ∧ toJson e' [] = toJson e [] := by
  obtain ⟨e', h1, h2⟩ := stable_all genCfg genCfg_secOk question_dump_stable f d e h [] (by simp)
  exact ⟨e', h1, h2 [] (by simp)⟩

/-- non-vacuity with the real tables: a survey with a group (with a bind) holding a `phone number` question with
    a user hint and a user constraint is accepted by the builder model, hence round-trips. -/
example : ∃ e e', fromJson genCfg 4 (.obj [(k!"type", .str k!"survey"), (k!"name", .str k!"data"),
      (k!"children", .arr [.obj [(k!"name", .str k!"g"), (k!"type", .str k!"group"),
        (k!"bind", .obj [(k!"relevant", .str k!"1 = 1")]),
        (k!"children", .arr [.obj [(k!"name", .str k!"p"), (k!"type", .str k!"phone number"),
          (k!"hint", .str k!"my hint"), (k!"bind", .obj [(k!"constraint", .str k!". > 0")])]])]])]) = some e ∧
    fromJson genCfg 4 (toJson e []) = some e' ∧ toJson e' [] = toJson e [] := by
  have hsome : (fromJson genCfg 4 (.obj [(k!"type", .str k!"survey"), (k!"name", .str k!"data"),
      (k!"children", .arr [.obj [(k!"name", .str k!"g"), (k!"type", .str k!"group"),
        (k!"bind", .obj [(k!"relevant", .str k!"1 = 1")]),
        (k!"children", .arr [.obj [(k!"name", .str k!"p"), (k!"type", .str k!"phone number"),
          (k!"hint", .str k!"my hint"), (k!"bind", .obj [(k!"constraint", .str k!". > 0")])]])]])])).isSome = true := by
    decide +kernel
  obtain ⟨e, he⟩ := Option.isSome_iff_exists.mp hsome
  obtain ⟨e', h1, h2⟩ := dump_stable_tree 4 _ e he
  exact ⟨e, e', he, h1, h2⟩

/-- …composed with the text layer: dump, `json.dumps`, `json.loads`, build, dump gives the same dict
    (`UniqueKeys`: the dump is a nest of Python dicts). -/
theorem text_tree_roundtrip (f : Nat) (d : J) (e : El) (h : fromJson genCfg f d = some e)
    (hu : UniqueKeys (toJson e [])) :
    ∃ e', (parse (print (toJson e []))).bind (fromJson genCfg f) = some e' ∧ toJson e' [] = toJson e [] := by
  rw [loads_dumps _ hu]
  exact dump_stable_tree f d e h

/-- the dump of a survey built from a nest of Python dicts is itself a nest of Python dicts (keys unique in every
    object) — the hypothesis of `text_tree_roundtrip`, derived instead of assumed. -/
theorem dump_is_python_dict (f : Nat) (d : J) (e : El) (hu : UniqueKeys d) (h : fromJson genCfg f d = some e) :
    UniqueKeys (toJson e []) :=
  dump_uniqueKeys genCfg genCfg_secOk genCfg_qOk f d e hu h [] (by simp)

/-- END TO END on the model, no hypothesis about keys: for every JSON text that `json.loads` accepts and whose value
    the builder accepts, the built survey's dump written with `json.dumps`, read with `json.loads` and built again
    dumps to the same dict. -/
theorem loaded_survey_roundtrip (f : Nat) (text : Str) (d : J) (e : El) (hp : parse text = some d)
    (h : fromJson genCfg f d = some e) :
    ∃ e', (parse (print (toJson e []))).bind (fromJson genCfg f) = some e' ∧ toJson e' [] = toJson e [] :=
  text_tree_roundtrip f d e h (dump_is_python_dict f d e (parse_uniqueKeys text d hp) h)

example : ∃ d e e', parse ("{\"type\": \"survey\", \"name\": \"data\", \"name\": \"d2\", \"children\": " ++
      "[{\"type\": \"phone number\", \"name\": \"p\", \"hint\": \"my \\u00e9\"}]}").toList = some d ∧
    fromJson genCfg 3 d = some e ∧
    (parse (print (toJson e []))).bind (fromJson genCfg 3) = some e' ∧ toJson e' [] = toJson e [] := by
  have hp : (parse ("{\"type\": \"survey\", \"name\": \"data\", \"name\": \"d2\", \"children\": " ++
      "[{\"type\": \"phone number\", \"name\": \"p\", \"hint\": \"my \\u00e9\"}]}").toList).isSome = true := by
    decide +kernel
  obtain ⟨d, hd⟩ := Option.isSome_iff_exists.mp hp
  have he : (fromJson genCfg 3 d).isSome = true := by
    have : ((parse ("{\"type\": \"survey\", \"name\": \"data\", \"name\": \"d2\", \"children\": " ++
      "[{\"type\": \"phone number\", \"name\": \"p\", \"hint\": \"my \\u00e9\"}]}").toList).bind
        (fromJson genCfg 3)).isSome = true := by decide +kernel
    rw [hd] at this; exact this
  obtain ⟨e, hee⟩ := Option.isSome_iff_exists.mp he
  obtain ⟨e', h1, h2⟩ := loaded_survey_roundtrip 3 _ d e hd hee
  exact ⟨d, e, e', hd, hee, h1, h2⟩

/-- the same for any configuration satisfying the table facts (used for the example below) -/
theorem dump_stable_tree_cfg (cfg : Cfg) (ok : SecOk cfg) (hq : QStable cfg) (f : Nat) (d : J) (e : El)
    (h : fromJson cfg f d = some e) :
    ∃ e', fromJson cfg f (toJson e []) = some e' ∧ toJson e' [] = toJson e [] := by
  obtain ⟨e', h1, h2⟩ := stable_all cfg ok hq f d e h [] (by simp)
  exact ⟨e', h1, h2 [] (by simp)⟩

/-- a configuration without question types: sections only; there `QStable` holds trivially and the two
    theorems are unconditional. -/
def sectionsOnly : Cfg where
  surveyNames := [k!"name", k!"label", k!"type", k!"title", k!"version"]
  sectionNames := [k!"name", k!"label", k!"bind", k!"type"]
  questionNames := []
  selectNames := []
  qtd := []
  selectTags := []
  knownTags := []

theorem sectionsOnly_qstable : QStable sectionsOnly := by
  intro t kvs e _ h
  simp only [questionFromJson, sectionsOnly, lookup] at h
  split at h
  · cases h
  · split at h <;> cases h

example : ∃ e e', fromJson sectionsOnly 3 (.obj [(k!"type", .str k!"survey"), (k!"name", .str k!"data"),
      (k!"version", .str k!"3"), (k!"children", .arr [.obj [(k!"name", .str k!"g"), (k!"type", .str k!"group"),
        (k!"bind", .obj [(k!"relevant", .str k!"1 = 1")]), (k!"junk", .null)]])]) = some e ∧
    fromJson sectionsOnly 3 (toJson e []) = some e' ∧ toJson e' [] = toJson e [] := by
  have hsome : (fromJson sectionsOnly 3 (.obj [(k!"type", .str k!"survey"), (k!"name", .str k!"data"),
      (k!"version", .str k!"3"), (k!"children", .arr [.obj [(k!"name", .str k!"g"), (k!"type", .str k!"group"),
        (k!"bind", .obj [(k!"relevant", .str k!"1 = 1")]), (k!"junk", .null)]])])).isSome = true := by decide
  obtain ⟨e, he⟩ := Option.isSome_iff_exists.mp hsome
  obtain ⟨e', h1, h2⟩ := dump_stable_tree_cfg sectionsOnly (by constructor <;> decide) sectionsOnly_qstable 3 _ e he
  exact ⟨e, e', he, h1, h2⟩


/-!
Part 4: options and the survey-level `choices` object (a model addition with its own theorems; the builder model
`fromJson` used by the driver still answers `unsupported` for dicts that carry them).
-/

/-- the slot tuple of `Option` from the regenerated tables, without the tree key `parent` -/
def genOptionSlots : List Str := (Gen.optionFields.filter fun n => n != "parent").map String.toList

/-- the named parameters of `Option.__init__` (question.py): what `Option(**d)` reads into slots; every other
    key of `d` becomes `extra_data`.  (The correspondence op receives this list from `inspect.signature` of the
    source under test.) -/
def optionCtor : List Str := [k!"name", k!"label", k!"media", k!"sms_option"]

/-- facts about the regenerated Option slot tuple: distinct names; the constructor's parameters are slots in
    slot order; every other slot (`extra_data`, `_choice_itext_ref`) is deleted by `Option.to_json_dict`. -/
theorem genOptionSlots_ok :
    genOptionSlots.Nodup ∧ genOptionSlots.filter (fun k => optionCtor.contains k) = optionCtor ∧
    ∀ k ∈ genOptionSlots, optionCtor.contains k = false → k ∈ allDelete .option genOptionSlots [] [k!"parent"] := by
  decide +kernel

/-- dump, load, dump of one Option of the current source: any slot values, any extra choices columns with distinct
    names that are not slot names. -/
theorem option_dump_stable (f : Str → J) (extra : Dict) (hn : (extra.map Prod.fst).Nodup)
    (hd : ∀ k ∈ extra.map Prod.fst, k ∉ genOptionSlots) :
    optionDump (reloadOption optionCtor (optionDump (genOptionSlots.map (fun n => (n, f n)), extra))) =
      optionDump (genOptionSlots.map (fun n => (n, f n)), extra) := by
  have h := ToJson.option_dump_stable genOptionSlots genOptionSlots_ok.1 (fun k => optionCtor.contains k) f extra
    genOptionSlots_ok.2.2 hn hd
  rw [genOptionSlots_ok.2.1] at h
  exact h

example : optionDump (reloadOption optionCtor (optionDump (genOptionSlots.map (fun n => (n,
      if n = k!"name" then J.str k!"a" else if n = k!"label" then J.str k!"A" else J.null)),
      [(k!"parent", J.str k!"n"), (k!"pop", J.str k!"1"), (k!"empty", J.str [])]))) =
    optionDump (genOptionSlots.map (fun n => (n,
      if n = k!"name" then J.str k!"a" else if n = k!"label" then J.str k!"A" else J.null)),
      [(k!"parent", J.str k!"n"), (k!"pop", J.str k!"1"), (k!"empty", J.str [])]) :=
  option_dump_stable _ _ (by decide) (by decide +kernel)

/-- dump, load, dump of a survey-level `choices` object (and of the option list carried by a select): every list,
    every option, any extra columns — for the Option class of the current source. -/
theorem choices_dump_stable (choices : List (Str × List Opt)) (hok : ∀ c ∈ choices, ∀ o ∈ c.2, OptOk genOptionSlots o) :
    choicesJson (reloadChoices optionCtor choices) = choicesJson choices := by
  have h := ToJson.choices_dump_stable genOptionSlots genOptionSlots_ok.1 (fun k => optionCtor.contains k)
    genOptionSlots_ok.2.2 choices hok
  rw [genOptionSlots_ok.2.1] at h
  exact h

example : choicesJson (reloadChoices optionCtor [(k!"l", [(genOptionSlots.map (fun n => (n,
      if n = k!"name" then J.str k!"a" else J.null)), [(k!"parent", J.str k!"n")])])]) =
    choicesJson [(k!"l", [(genOptionSlots.map (fun n => (n, if n = k!"name" then J.str k!"a" else J.null)),
      [(k!"parent", J.str k!"n")])])] := by
  apply choices_dump_stable
  intro c hc o ho
  simp only [List.mem_singleton] at hc; subst hc
  simp only [List.mem_singleton] at ho; subst ho
  exact ⟨fun n => if n = k!"name" then J.str k!"a" else J.null, rfl, by decide, by decide +kernel⟩

end Pyxv.C16
