import Pyxv.Proofs.JValLemmas
import Pyxv.Proofs.ToJsonLemmas
/-!
# C16 — the JSON intermediate form is a faithful, reloadable representation: property theorems

Part 1 (this section): the text layer.  `JV.print` is the model of `json.dumps` (defaults,
`ensure_ascii=True`), `JV.parse` the model of `json.loads`; both are tied to CPython's `json` on
every `_pyxform` dict, every survey dump and on adversarial values/texts by `./check C16`.
-/
namespace Pyxv.C16
open Pyxv Pyxv.JV

/-- Every string — every sequence of Unicode scalar values: controls, quotes, backslashes, DEL,
    non-ASCII BMP characters (`\uXXXX`) and astral characters (surrogate pairs) — written as a JSON
    string literal is read back exactly, whatever follows the closing quote. -/
theorem string_literal_roundtrip (s rest : Str) :
    readStr (printStr s ++ rest) = some (s, rest) :=
  readStr_printStr s rest

example : readStr (printStr "é\"\\\n\u0001\u007f😀".toList ++ ", 1]".toList)
    = some ("é\"\\\n\u0001\u007f😀".toList, ", 1]".toList) := string_literal_roundtrip _ _

/-- FLAGSHIP, no hypothesis: for every JSON value `j` (any nesting depth, any strings, any integers,
    duplicate keys or not), reading the text `json.dumps` writes gives back `j` as the sequence of
    pairs the decoder sees (before `dict()` merges duplicate keys). -/
theorem parseRaw_print (j : J) : parseRaw (print j) = some j := by
  have h := readValue_print j [] ((print j).length + 1) (Or.inl rfl) (by have := size_le_print j; omega)
  have hs := skipWs_print j []
  simp only [List.append_nil] at h hs
  simp [parseRaw, hs, h, skipWs]

example : parseRaw (print (.obj [("a".toList, .arr [.null, .num (-30), .bool true, .str "é\"😀".toList]),
    ("b".toList, .obj []), ("a".toList, .num 0)])) = some (.obj [("a".toList, .arr [.null, .num (-30),
    .bool true, .str "é\"😀".toList]), ("b".toList, .obj []), ("a".toList, .num 0)]) := parseRaw_print _

/-- A value that is a nest of Python dicts (keys unique within every object) is unchanged by the
    decoder's `dict(pairs)`. -/
theorem dedup_of_uniqueKeys (j : J) (h : UniqueKeys j) : dedup j = j :=
  JV.dedup_of_uniqueKeys j h

/-- `json.loads(json.dumps(v)) == v` for every value `v` of the intermediate form (nests of Python
    dicts/lists/str/int/bool/None; `UniqueKeys` says exactly that the objects are dicts). -/
theorem loads_dumps (j : J) (h : UniqueKeys j) : parse (print j) = some j := by
  simp [parse, parseRaw_print, JV.dedup_of_uniqueKeys j h]

example : parse (print (.obj [("type".toList, .str "survey".toList), ("children".toList,
    .arr [.obj [("name".toList, .str "qé\"".toList), ("bind".toList, .obj [("required".toList, .bool true)])]])]))
    = some (.obj [("type".toList, .str "survey".toList), ("children".toList,
    .arr [.obj [("name".toList, .str "qé\"".toList), ("bind".toList, .obj [("required".toList, .bool true)])]])]) :=
  loads_dumps _ (by simp [UniqueKeys, UniqueKeysL, UniqueKeysM])

/-- the duplicate-key behaviour of the decoder is real: the hypothesis of `loads_dumps` cannot be dropped
    (such a value is not a Python dict, so nothing of pyxform is excluded by it). -/
example : parse (print (.obj [("a".toList, .num 1), ("a".toList, .num 2)])) = some (.obj [("a".toList, .num 2)]) := by
  simp [parse, parseRaw_print, dedup, dedupM, dictInsert]

/-- dump, load, dump at the text level: re-serialising what was loaded gives the same text. -/
theorem dumps_loads_dumps (j : J) (h : UniqueKeys j) : (parse (print j)).map print = some (print j) := by
  simp [loads_dumps j h]

example : (parse (print (.arr [.str "x".toList, .num 7]))).map print = some (print (.arr [.str "x".toList, .num 7])) :=
  dumps_loads_dumps _ (by simp [UniqueKeys, UniqueKeysL])


/-!
Part 2: the dict layer — `to_json_dict` (`ToJson.ownDump`: delete the class's key list at the top level,
drop falsy values) and the builder's reading of a dumped dict into slots (`ToJson.reloadSlots`).  The
tree recursion, `_qtd_kwargs` restoration and the group's `type` are in `ToJson.toJson`, which is tied to the
real `to_json_dict` by the correspondence run but has no theorem here (see notes/design_C16.md).
-/
open Pyxv.ToJson

/-- dump, load, dump: what an element dumps after being rebuilt from its own dump is the same dict
    (keys, order, values), for every class's delete list and every slot assignment. -/
theorem dump_stable (del : List Str) (slots : Dict) (hn : (slots.map Prod.fst).Nodup) :
    ownDump del (reloadSlots (slots.map Prod.fst) (ownDump del slots)) = ownDump del slots := by
  rw [reloadSlots_ownDump del slots hn, ownDump_eq_filter, ownDump_eq_filter, filter_map_keeps]

example : ownDump ["bind".toList] (reloadSlots ["name".toList, "bind".toList, "label".toList]
      (ownDump ["bind".toList] [("name".toList, .str "g".toList), ("bind".toList, .obj [("relevant".toList, .str "1".toList)]),
        ("label".toList, .null)]))
    = ownDump ["bind".toList] [("name".toList, .str "g".toList), ("bind".toList, .obj [("relevant".toList, .str "1".toList)]),
        ("label".toList, .null)] :=
  dump_stable _ _ (by decide)

/-- PARTIAL (the full statement — the rebuilt survey generates the same XForm — is false on the pinned
    code: F12, F37).  What is proved: every slot that the class's `to_json_dict` does not delete comes back
    from dump + reload with its value (a falsy value comes back as a falsy initial value).  The guard
    `k ∉ del` is exactly what the code loses: `bind` of a group, `extra_data` (extra choice columns), the
    type-table keys of a question (`hint` for four types). -/
theorem survey_json_roundtrip_partial (del : List Str) (slots : Dict) (hn : (slots.map Prod.fst).Nodup)
    (k : Str) (v : J) (hm : (k, v) ∈ slots) (hk : k ∉ del) :
    lookup k (reloadSlots (slots.map Prod.fst) (ownDump del slots)) = some (if truthy v then v else .null) := by
  rw [reloadSlots_ownDump del slots hn, lookup_map_snd _ slots hn k v hm]
  simp [keeps, hk]

example : lookup "label".toList (reloadSlots ["name".toList, "label".toList]
    (ownDump ["extra_data".toList] [("name".toList, .str "g".toList), ("label".toList, .str "L".toList)]))
    = some (.str "L".toList) := by
  have := survey_json_roundtrip_partial ["extra_data".toList] [("name".toList, .str "g".toList), ("label".toList, .str "L".toList)]
    (by decide) "label".toList (.str "L".toList) (by simp) (by decide)
  simpa [truthy] using this

/-- the complement: a deleted key never survives — whatever the slot held, the rebuilt element has a
    falsy value there.  With `group_deletes_bind` / `every_class_deletes_extra_data` /
    `question_deletes_type_table_keys` this is the model's account of F12 and F37. -/
theorem deleted_key_lost (del : List Str) (slots : Dict) (hn : (slots.map Prod.fst).Nodup)
    (k : Str) (v : J) (hm : (k, v) ∈ slots) (hk : k ∈ del) :
    lookup k (reloadSlots (slots.map Prod.fst) (ownDump del slots)) = some .null := by
  rw [reloadSlots_ownDump del slots hn, lookup_map_snd _ slots hn k v hm]
  simp [keeps, hk]

example : lookup "bind".toList (reloadSlots ["name".toList, "bind".toList]
    (ownDump (allDelete .group ["name".toList, "bind".toList] [] ["parent".toList])
      [("name".toList, .str "g".toList), ("bind".toList, .obj [("relevant".toList, .str "1 = 1".toList)])]))
    = some .null :=
  deleted_key_lost _ _ (by decide) _ (.obj [("relevant".toList, .str "1 = 1".toList)]) (by simp) (by decide)

theorem group_deletes_bind (names qtd extra : List Str) : "bind".toList ∈ allDelete .group names qtd extra := by
  simp [allDelete, clsDelete]

theorem every_class_deletes_extra_data (cls : Cls) (names qtd extra : List Str) :
    "extra_data".toList ∈ allDelete cls names qtd extra := by
  simp [allDelete]

theorem question_deletes_type_table_keys (names qtd extra : List Str) (k : Str) (hk : k ∈ qtd) :
    k ∈ allDelete .question names qtd extra := by
  simp [allDelete, clsDelete, hk]

/-- facts about the tables regenerated from /repo on every run: `bind` is a slot of sections (so the group's
    bind is lost by deletion, not by being an unknown key), and exactly four types carry a top-level
    `hint` in the type table (the F37 hint loss applies to these and no others). -/
theorem bind_is_a_section_slot : "bind" ∈ Gen.sectionFields := by decide

theorem types_with_table_hint :
    (Gen.questionTypes.filter fun e => e.2.any fun t => t.1 == "" && t.2.1 == "hint").map Prod.fst =
      ["number of days in last month", "number of days in last six months", "phone number",
       "number of days in last year"] := by decide +kernel

end Pyxv.C16
