import Pyxv.Proofs.C05
import Pyxv.Proofs.C08
/-!
# Bridge at the row level: the bind slice's `process_row` copy against `Pyxv.Headers` (C08's `row_grouping`)

`Pyxv.C08.row_grouping` says that after `Headers.processRow` column `bind` holds `colFold … "bind"`: the
merge, in column order, of the cells whose first token is `bind`.  Here: the bind dict `Pyxv.Binds.processRow`
builds is that value, read as a two-level finite map (attribute ↦ string | language ↦ string).
-/
namespace Pyxv.C05
open Pyxv Pyxv.Binds Pyxv.Headers

/-- a language dict of `Pyxv.Headers` read as the association list of the bind slice -/
def LR (m : Kvs) (l : List (Str × Str)) : Prop :=
  ∀ q, m.has q = (lookup q l).isSome ∧
    m.get q = (match lookup q l with | some y => V.str y | none => V.none)

/-- value of one bind attribute in both models -/
def VR (v : V) : Option BVal → Prop
  | none => v = .none
  | some (.s s) => v = .str s ∧ s ≠ []
  | some (.d l) => ∃ m, v = .dict m ∧ m ≠ .nil ∧ LR m l ∧ ∀ q y, lookup q l = some y → y ≠ []

/-- the whole `bind` column in both models -/
def BR (v : V) : Option BindDict → Prop
  | none => v = .none
  | some bd => ∃ m, v = .dict m ∧ m ≠ .nil ∧ ∀ a, m.has a = (lookup a bd).isSome ∧ VR (m.get a) (lookup a bd)

theorem ne_nil_of_has' {m : Kvs} {q : Str} (h : m.has q = true) : m ≠ .nil := by
  intro e; subst e; simp [Kvs.has] at h

theorem LR_single (l y : Str) : LR (.cons l (.str y) .nil) [(l, y)] := by
  intro q
  by_cases h : q = l <;> simp [Kvs.has, Kvs.get, lookup, h]

theorem LR_dictSet (dk : Str) (m : Kvs) (l0 : List (Str × Str)) (l y : Str) (hy : y ≠ [])
    (h : LR m l0) (hv : ∀ q z, lookup q l0 = some z → z ≠ []) :
    LR (mergeTop dk m l (.str y)) (dictSet l0 l y) := by
  intro q
  rw [mergeTop_has, mergeTop_get, lookup_dictSet]
  obtain ⟨h1, h2⟩ := h q
  by_cases hq : q = l
  · subst hq
    simp only [if_true, decide_true, Bool.or_true, Option.isSome_some, true_and]
    obtain ⟨_, h2'⟩ := h q
    cases hl : lookup q l0 with
    | none => rw [hl] at h2'; rw [h2', merge_none_left]
    | some z =>
      rw [hl] at h2'
      rw [h2']
      exact C08.two_strings_later_wins dk z y (hv q z hl) hy
  · simp only [if_neg hq, decide_eq_false hq, Bool.or_false]
    exact ⟨h1, h2⟩

theorem dictSet_vals (l0 : List (Str × Str)) (l y : Str) (hy : y ≠ [])
    (hv : ∀ q z, lookup q l0 = some z → z ≠ []) : ∀ q z, lookup q (dictSet l0 l y) = some z → z ≠ [] := by
  intro q z h
  rw [lookup_dictSet] at h
  by_cases hq : q = l
  · simp only [if_pos hq, Option.some.injEq] at h; subst h; exact hy
  · simp only [if_neg hq] at h; exact hv q z h

theorem mergeLang_single (a : List (Str × Str)) (l y : Str) : mergeLang a [(l, y)] = some (dictSet a l y) := by
  simp [mergeLang]

/-- one `merge_dicts` step on an attribute value: `Headers.merge` against `Binds.mergeVal` -/
theorem VR_merge (dk : Str) (vo : V) (old : BVal) (rest : List Str) (val : Str) (hval : val ≠ [])
    (nv r : BVal)
    (hnv : (match rest with | [] => some (BVal.s val) | [l] => some (BVal.d [(l, val)]) | _ => none) = some nv)
    (h : VR vo (some old)) (hm : mergeVal dk old nv = some r) :
    VR (merge dk vo (nest rest val)) (some r) := by
  match rest, hnv with
  | [], hnv =>
    simp only [Option.some.injEq] at hnv
    subst hnv
    simp only [nest]
    cases old with
    | s x =>
      obtain ⟨rfl, hx⟩ := h
      simp only [mergeVal, Option.some.injEq] at hm
      subst hm
      exact ⟨C08.two_strings_later_wins dk x val hx hval, hval⟩
    | d l0 =>
      obtain ⟨m, rfl, hne, hlr, hv⟩ := h
      simp only [mergeVal] at hm
      by_cases hd : (lookup dk l0).isSome = true
      · rw [if_pos hd] at hm
        simp only [Option.some.injEq] at hm
        subst hm
        have : m.has dk = true := by rw [(hlr dk).1]; exact hd
        rw [C08.default_suffix_wins_before dk val m hval this]
        exact ⟨m, rfl, hne, hlr, hv⟩
      · rw [if_neg hd, mergeLang_single] at hm
        simp only [Option.map_some, Option.some.injEq] at hm
        subst hm
        have hh : m.has dk = false := by
          rw [(hlr dk).1]; simpa using hd
        rw [C08.unsuffixed_is_default_before dk val m hval hne hh]
        have e : m.append (.cons dk (.str val) .nil) = mergeTop dk m dk (.str val) := by
          have := C08.new_language_appended dk dk (.str val) m hne hh
          rw [merge_dict_single] at this
          exact (V.dict.inj this).symm
        rw [e]
        refine ⟨_, rfl, ne_nil_of_has' (q := dk) (by rw [mergeTop_has]; simp), LR_dictSet dk m l0 dk val hval hlr hv,
          dictSet_vals l0 dk val hval hv⟩
  | [l], hnv =>
    simp only [Option.some.injEq] at hnv
    subst hnv
    simp only [nest]
    cases old with
    | s x =>
      obtain ⟨rfl, hx⟩ := h
      simp only [mergeVal] at hm
      by_cases hd : (lookup dk [(l, val)]).isSome = true
      · rw [if_pos hd] at hm
        simp only [Option.some.injEq] at hm
        subst hm
        have hl : l = dk := by
          by_cases e : dk = l
          · exact e.symm
          · simp [lookup, e] at hd
        subst hl
        rw [C08.default_suffix_wins_after l x _ hx (by simp [Kvs.has])]
        refine ⟨_, rfl, (fun e => by cases e), LR_single l val, ?_⟩
        intro q y hq
        by_cases e : q = l
        · simp [lookup, e] at hq; subst hq; exact hval
        · simp [lookup, e] at hq
      · rw [if_neg hd, mergeLang_single] at hm
        simp only [Option.map_some, Option.some.injEq] at hm
        subst hm
        have hne : dk ≠ l := by
          intro e; subst e; simp [lookup] at hd
        rw [C08.unsuffixed_is_default_after dk x _ hx (by intro e; cases e) (by simp [Kvs.has, hne])]
        refine ⟨_, rfl, (fun e => by cases e), ?_, ?_⟩
        · intro q
          simp only [dictSet, if_neg (Ne.symm hne), lookup, Kvs.has, Kvs.get]
          by_cases h1 : q = dk
          · subst h1; simp
          · by_cases h2 : q = l
            · subst h2; simp [Ne.symm hne]
            · simp [h1, h2]
        · intro q y hq
          simp only [dictSet, if_neg (Ne.symm hne), lookup] at hq
          by_cases h1 : q = dk
          · simp only [if_pos h1, Option.some.injEq] at hq; subst hq; exact hx
          · simp only [if_neg h1] at hq
            by_cases h2 : q = l
            · simp only [if_pos h2, Option.some.injEq] at hq; subst hq; exact hval
            · simp [if_neg h2] at hq
    | d l0 =>
      obtain ⟨m, rfl, hne, hlr, hv⟩ := h
      simp only [mergeVal, mergeLang_single, Option.map_some, Option.some.injEq] at hm
      subst hm
      rw [merge_dict_single]
      exact ⟨_, rfl, ne_nil_of_has' (q := l) (by rw [mergeTop_has]; simp), LR_dictSet dk m l0 l val hval hlr hv,
        dictSet_vals l0 l val hval hv⟩
  | _ :: _ :: _, hnv => cases hnv

theorem VR_nest (rest : List Str) (val : Str) (hval : val ≠ []) (nv : BVal)
    (hnv : (match rest with | [] => some (BVal.s val) | [l] => some (BVal.d [(l, val)]) | _ => none) = some nv) :
    VR (nest rest val) (some nv) := by
  match rest, hnv with
  | [], hnv => simp only [Option.some.injEq] at hnv; subst hnv; exact ⟨rfl, hval⟩
  | [l], hnv =>
    simp only [Option.some.injEq] at hnv
    subst hnv
    refine ⟨_, rfl, (fun e => by cases e), LR_single l val, ?_⟩
    intro q y hq
    by_cases e : q = l
    · simp [lookup, e] at hq; subst hq; exact hval
    · simp [lookup, e] at hq
  | _ :: _ :: _, hnv => cases hnv

theorem lookup_append_single {β} (bd : List (Str × β)) (a : Str) (nv : β) (q : Str) (hn : lookup a bd = none) :
    lookup q (bd ++ [(a, nv)]) = if q = a then some nv else lookup q bd := by
  induction bd with
  | nil => simp [lookup]
  | cons p rest ih =>
    obtain ⟨k0, v0⟩ := p
    simp only [lookup] at hn
    by_cases ha : a = k0
    · simp [ha] at hn
    · simp only [if_neg ha] at hn
      simp only [List.cons_append, lookup, ih hn]
      by_cases hq : q = k0
      · subst hq
        have : ¬ q = a := fun e => ha e.symm
        simp [this]
      · simp [hq]

/-- one `bind` cell: `merge_dicts(out_row, {"bind": {attr: …}})` against `Binds.setBind` -/
theorem BR_step (dk : Str) (vo : V) (b : Option BindDict) (a : Str) (rest : List Str) (val : Str) (hval : val ≠ [])
    (nv : BVal) (b' : BindDict)
    (hnv : (match rest with | [] => some (BVal.s val) | [l] => some (BVal.d [(l, val)]) | _ => none) = some nv)
    (h : BR vo b) (hs : setBind dk (b.getD []) a nv = some b') :
    BR (merge dk vo (nest (a :: rest) val)) (some b') := by
  have hx := VR_nest rest val hval nv hnv
  simp only [nest]
  cases b with
  | none =>
    have hv : vo = .none := h
    subst hv
    rw [merge_none_left]
    simp only [Option.getD_none, setBind, lookup, List.nil_append, Option.some.injEq] at hs
    subst hs
    refine ⟨_, rfl, (fun e => by cases e), ?_⟩
    intro q
    by_cases hq : q = a
    · subst hq; simpa [Kvs.has, Kvs.get, lookup] using hx
    · simp [Kvs.has, Kvs.get, lookup, hq, VR]
  | some bd =>
    obtain ⟨m, rfl, hne, hall⟩ := h
    rw [merge_dict_single]
    refine ⟨_, rfl, ne_nil_of_has' (q := a) (by rw [mergeTop_has]; simp), ?_⟩
    intro q
    rw [mergeTop_has, mergeTop_get]
    obtain ⟨hq1, hq2⟩ := hall q
    simp only [Option.getD_some, setBind] at hs
    cases hl : lookup a bd with
    | none =>
      rw [hl] at hs
      simp only [Option.some.injEq] at hs
      subst hs
      rw [lookup_append_single bd a nv q hl]
      by_cases hq : q = a
      · subst hq
        have hg : m.get q = .none := by
          have := (hall q).2; rw [hl] at this; exact this
        simp only [if_true, decide_true, Bool.or_true, Option.isSome_some, true_and, hg, merge_none_left]
        exact hx
      · simp only [if_neg hq, decide_eq_false hq, Bool.or_false]
        exact ⟨hq1, hq2⟩
    | some old =>
      rw [hl] at hs
      simp only at hs
      cases hmv : mergeVal dk old nv with
      | none => rw [hmv] at hs; cases hs
      | some r =>
        rw [hmv] at hs
        simp only [Option.map_some, Option.some.injEq] at hs
        subst hs
        rw [lookup_dictSet]
        by_cases hq : q = a
        · subst hq
          simp only [if_true, decide_true, Bool.or_true, Option.isSome_some, true_and]
          have hvo : VR (m.get q) (some old) := by have := (hall q).2; rw [hl] at this; exact this
          exact VR_merge dk (m.get q) old rest val hval nv r hnv hvo hmv
        · simp only [if_neg hq, decide_eq_false hq, Bool.or_false]
          exact ⟨hq1, hq2⟩

theorem stepBindCell_spec (dl : Str) (r r' : PRow) (a : Str) (rest : List Str) (v : Str)
    (h : stepBindCell dl r a rest v = .ok r') :
    ∃ nv b', (match rest with | [] => some (BVal.s v) | [l] => some (BVal.d [(l, v)]) | _ => none) = some nv ∧
      setBind dl (r.bind.getD []) a nv = some b' ∧ r'.bind = some b' := by
  unfold stepBindCell at h
  simp only at h
  split at h
  · cases h
  · next nv hnv =>
    split at h
    · cases h
    · next b' hb =>
      simp only [Except.ok.injEq] at h
      subst h
      exact ⟨nv, b', hnv, hb, rfl⟩

theorem stepScalar_not_bind (r r' : PRow) (k v : Str) (h : stepScalar r k v = .ok r') : k ≠ "bind".toList := by
  intro e
  subst e
  unfold stepScalar at h
  simp at h

/-- the fold: after any cells, the `bind` column of `Pyxv.Headers` (as `colFold`) and the bind dict of the
    bind slice stay related -/
theorem processRow_BR (dl : Str) (key : List (Str × List Str)) : ∀ (cells : List (Str × Str)) (r0 r : PRow) (acc : V),
    BR acc r0.bind → Binds.processRow dl key r0 cells = .ok r →
    BR (C08.colFold dl key "bind".toList acc (cells.map fun c => (c.1, cleanCell c.2))) r.bind := by
  intro cells
  induction cells with
  | nil =>
    intro r0 r acc h hp
    simp only [Binds.processRow, Except.ok.injEq] at hp
    subst hp
    simpa [C08.colFold] using h
  | cons c rest ih =>
    intro r0 r acc h hp
    obtain ⟨hd, v⟩ := c
    simp only [Binds.processRow] at hp
    split at hp
    · next r1 h1 =>
      simp only [List.map_cons, C08.colFold]
      unfold stepCell at h1
      simp only at h1
      split at h1
      · cases h1
      next hne =>
      split at h1
      · cases h1
      split at h1
      · cases h1
      · next toks hl =>
        rw [hl]
        have hval : cleanCell v ≠ [] := by
          intro e; rw [e] at hne; simp at hne
        unfold stepTokens at h1
        split at h1
        · cases h1
        · next k =>
          have hk := stepScalar_not_bind _ _ _ _ h1
          have hb := stepScalar_bind _ _ _ _ h1
          simp only [if_neg (Ne.symm hk)]
          exact ih r1 r acc (by rw [hb]; exact h) hp
        · next k a rs =>
          split at h1
          · next hkb =>
            subst hkb
            obtain ⟨nv, b', hnv, hs, hb⟩ := stepBindCell_spec dl _ _ _ _ _ h1
            simp only [if_true]
            exact ih r1 r _ (by rw [hb]; exact BR_step dl acc r0.bind a rs _ hval nv b' hnv h hs) hp
          · next hkb =>
            have hb := stepOther_bind _ _ _ _ _ _ h1
            simp only [if_neg (Ne.symm hkb)]
            exact ih r1 r acc (by rw [hb]; exact h) hp
    · cases hp

/-- **processRow_bind_agrees.**  For every header key and every row on which the bind slice's `process_row`
    succeeds: `Pyxv.Headers.processRow` (C08's model of the same Python function) succeeds on the cleaned cells
    under `row_grouping`'s own hypotheses, and its `bind` column is the slice's bind dict, read as the finite map
    attribute ↦ string | (language ↦ string).  Together with `processHeader_agrees` the two models of the header
    layer are proved equal as far as binds go; C08's `row_grouping` / `column_reading` apply to C05's input. -/
theorem processRow_bind_agrees (dl : Str) (key : List (Str × List Str)) (cells : List (Str × Str)) (r : PRow)
    (hok : Binds.processRow dl key {} cells = .ok r)
    (hwf : ∀ c ∈ cells.map (fun c => (c.1, cleanCell c.2)),
      c.1 ≠ "__row".toList ∧ ∃ t ts, lookup c.1 key = some (t :: ts))
    (hnc : C08.NoClash dl key .nil (cells.map fun c => (c.1, cleanCell c.2))) :
    ∃ out, Headers.processRow dl key (cells.map fun c => (c.1, cleanCell c.2)) = .ok out ∧
      BR (out.get "bind".toList) r.bind := by
  obtain ⟨out, ho, hg⟩ := C08.row_grouping dl key _ .nil hwf hnc
  refine ⟨out, ho, ?_⟩
  rw [hg "bind".toList]
  exact processRow_BR dl key cells {} r _ (by simp [BR, Kvs.get]) hok

/-! non-vacuity: a row with a plain logic cell and a translated message meets every hypothesis -/

private def s (x : String) : Str := x.toList
private def exKey : List (Str × List Str) :=
  [(s "relevant", [s "bind", s "relevant"]), (s "constraint_message::fr", [s "bind", s "jr:constraintMsg", s "fr"])]
private def exCells : List (Str × Str) := [(s "relevant", s " a  > 1 "), (s "constraint_message::fr", s "Non")]

example : ∃ r out, Binds.processRow (s "default") exKey {} exCells = .ok r ∧
    Headers.processRow (s "default") exKey (exCells.map fun c => (c.1, cleanCell c.2)) = .ok out ∧
    BR (out.get (s "bind")) r.bind := by
  have hok : ∃ r, Binds.processRow (s "default") exKey {} exCells = .ok r := by
    cases h : Binds.processRow (s "default") exKey {} exCells with
    | ok r => exact ⟨r, rfl⟩
    | error e =>
      have : (match Binds.processRow (s "default") exKey {} exCells with | .ok _ => true | .error _ => false) = true := by
        decide +kernel
      rw [h] at this; cases this
  obtain ⟨r, hr⟩ := hok
  have hmem : ∀ c ∈ exCells.map (fun c => (c.1, cleanCell c.2)), ∃ t a ts, lookup c.1 exKey = some (t :: a :: ts) := by
    intro c hc
    simp only [exCells, List.map_cons, List.map_nil, List.mem_cons, List.mem_nil_iff, or_false] at hc
    rcases hc with rfl | rfl
    · exact ⟨s "bind", s "relevant", [], by decide⟩
    · exact ⟨s "bind", s "jr:constraintMsg", [s "fr"], by decide⟩
  obtain ⟨out, ho, hb⟩ := processRow_bind_agrees (s "default") exKey exCells r hr
    (by
      intro c hc
      obtain ⟨t, a, ts, hl⟩ := hmem c hc
      refine ⟨?_, t, a :: ts, hl⟩
      intro e
      rw [e] at hl
      have : lookup "__row".toList exKey = none := by decide
      rw [this] at hl
      cases hl)
    (by
      intro pre h v post hs t hl x
      have hm : (h, v) ∈ exCells.map (fun c => (c.1, cleanCell c.2)) := by rw [hs]; simp
      obtain ⟨t', a, ts, hl'⟩ := hmem (h, v) hm
      simp only at hl'
      rw [hl'] at hl
      cases hl)
  exact ⟨r, out, hr, ho, hb⟩

end Pyxv.C05
