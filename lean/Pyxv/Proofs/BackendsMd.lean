import Pyxv.Model.BackendsGuards
import Pyxv.Proofs.BackendsLemmas
/-!
# Markdown backend: `md_to_dict (renderMd wb) = toBook wb`

Cell level (escape / split / strip), line level (the regexes of `_md_table_to_ss_structure`),
and the round trip through `mdStructure` and `mdProcess` under the explicit guard `MdOK`.
-/
namespace Pyxv.Backends.Md
open Pyxv

/-! ## 1. Cell level -/

@[simp] theorem mdEscape_nil : mdEscape [] = [] := rfl

theorem mdEscape_cons (ch : Char) (c : Str) :
    mdEscape (ch :: c) = (if ch = '|' then ['\\', '|'] else [ch]) ++ mdEscape c := by
  simp [mdEscape]

theorem mdEscape_append (a b : Str) : mdEscape (a ++ b) = mdEscape a ++ mdEscape b := by
  simp [mdEscape]

/-- an escaped cell never starts with a bare pipe -/
theorem mdEscape_not_pipe (c r : Str) : mdEscape c ≠ '|' :: r := by
  cases c with
  | nil => simp
  | cons ch c =>
    rw [mdEscape_cons]
    by_cases h : ch = '|'
    · subst h; simp
    · simp [h]

theorem unescPipe_mdEscape (c : Str) : unescPipe (mdEscape c) = c := by
  induction c with
  | nil => rfl
  | cons ch c ih =>
    rw [mdEscape_cons]
    by_cases h : ch = '|'
    · subst h; simp [unescPipe, ih]
    · simp only [h, if_false, List.singleton_append]
      rw [unescPipe.eq_def]
      split
      · rename_i heq
        simp only [List.cons.injEq] at heq
        exact absurd heq.2 (mdEscape_not_pipe _ _)
      · rename_i heq
        simp only [List.cons.injEq] at heq
        rw [← heq.1, ← heq.2, ih]
      · rename_i heq; simp at heq

theorem splitPipes_ne_nil (pb : Bool) (s : Str) : splitPipes pb s ≠ [] := by
  induction s generalizing pb with
  | nil => simp [splitPipes]
  | cons c cs ih =>
    rw [splitPipes]
    split
    · simp
    · split <;> simp

/-- an ordinary character is prepended to the first field -/
theorem splitPipes_cons_plain (pb : Bool) (c : Char) (cs f : Str) (fs : List Str)
    (hc : (c = '|' && !pb) = false) (h : splitPipes (c = '\\') cs = f :: fs) :
    splitPipes pb (c :: cs) = (c :: f) :: fs := by
  rw [splitPipes]
  simp only [hc]
  simp [h]

/-- every pipe inside `mdEscape c` is preceded by a backslash: the escaped cell followed by the
padding space stays in the first field -/
theorem splitPipes_escape (c : Str) (pb : Bool) (rest f : Str) (fs : List Str)
    (h : splitPipes false rest = f :: fs) :
    splitPipes pb (mdEscape c ++ ' ' :: rest) = (mdEscape c ++ ' ' :: f) :: fs := by
  induction c generalizing pb with
  | nil =>
    simp only [mdEscape_nil, List.nil_append]
    apply splitPipes_cons_plain
    · simp
    · simpa using h
  | cons ch c ih =>
    rw [mdEscape_cons]
    by_cases hp : ch = '|'
    · subst hp
      simp only [if_true, List.cons_append, List.nil_append]
      apply splitPipes_cons_plain
      · simp
      · apply splitPipes_cons_plain
        · simp
        · exact ih _
    · simp only [hp, if_false, List.cons_append, List.nil_append]
      apply splitPipes_cons_plain
      · simp [hp]
      · exact ih _

theorem splitPipes_pad (c : Str) (pb : Bool) (rest f : Str) (fs : List Str)
    (h : splitPipes false rest = f :: fs) :
    splitPipes pb (mdCellPad c ++ rest) = (mdCellPad c ++ f) :: fs := by
  unfold mdCellPad
  simp only [List.cons_append, List.append_assoc, List.nil_append]
  apply splitPipes_cons_plain
  · simp
  · have : decide (' ' = '\\') = false := by decide
    rw [this]
    exact splitPipes_escape c false rest f fs h

theorem splitPipes_line (cells : List Str) (h : cells ≠ []) :
    splitPipes false (joinWith ['|'] (cells.map mdCellPad)) = cells.map mdCellPad := by
  induction cells with
  | nil => exact absurd rfl h
  | cons c rest ih =>
    cases rest with
    | nil =>
      have := splitPipes_pad c false [] [] [] (by simp [splitPipes])
      simpa [joinWith] using this
    | cons d rest =>
      have ih' := ih (by simp)
      simp only [List.map_cons, joinWith] at ih' ⊢
      rw [List.append_assoc]
      have := splitPipes_pad c false
        (['|'] ++ joinWith ['|'] (mdCellPad d :: List.map mdCellPad rest)) []
        (mdCellPad d :: List.map mdCellPad rest)
        (by simp only [List.cons_append, List.nil_append]; rw [splitPipes]; simp [ih'])
      simpa using this

/-! ### strip -/

theorem length_dropWhile_le' (p : Char → Bool) (l : Str) : (l.dropWhile p).length ≤ l.length :=
  (List.dropWhile_sublist p).length_le

theorem length_lstrip_le (s : Str) : (lstrip s).length ≤ s.length := by
  unfold lstrip; exact length_dropWhile_le' _ _

theorem length_rstrip_le (s : Str) : (rstrip s).length ≤ s.length := by
  unfold rstrip; simpa using length_dropWhile_le' pyIsSpace s.reverse

/-- a stripped non-empty string starts with a non-space character … -/
theorem strip_head (a : Char) (t : Str) (h : strip (a :: t) = a :: t) : pyIsSpace a = false := by
  cases ha : pyIsSpace a with
  | false => rfl
  | true =>
    exfalso
    have h1 : (strip (a :: t)).length ≤ t.length := by
      unfold strip
      refine Nat.le_trans (length_rstrip_le _) ?_
      unfold lstrip
      rw [List.dropWhile_cons_of_pos ha]
      exact length_dropWhile_le' _ _
    rw [h] at h1
    simp at h1
    omega

theorem lstrip_cons_of_not (a : Char) (t : Str) (ha : pyIsSpace a = false) :
    lstrip (a :: t) = a :: t := by
  unfold lstrip; simp [ha]

theorem rstrip_snoc_of_not (u : Str) (b : Char) (hb : pyIsSpace b = false) :
    rstrip (u ++ [b]) = u ++ [b] := by
  unfold rstrip; simp [hb]

theorem rstrip_snoc_of_space (u : Str) (b : Char) (hb : pyIsSpace b = true) :
    rstrip (u ++ [b]) = rstrip u := by
  unfold rstrip; simp [hb]

/-- … and ends with one -/
theorem strip_last (u : Str) (b : Char) (h : strip (u ++ [b]) = u ++ [b]) : pyIsSpace b = false := by
  cases hb : pyIsSpace b with
  | false => rfl
  | true =>
    exfalso
    have hl : lstrip (u ++ [b]) = u ++ [b] := by
      cases u with
      | nil =>
        have := strip_head b [] (by simpa using h)
        simp [this] at hb
      | cons a t => exact lstrip_cons_of_not a _ (strip_head a (t ++ [b]) (by simpa using h))
    have h1 : (strip (u ++ [b])).length ≤ u.length := by
      unfold strip
      rw [hl, rstrip_snoc_of_space u b hb]
      exact length_rstrip_le u
    rw [h] at h1
    simp at h1
    omega

/-- `x` is non-empty and neither starts nor ends with Python whitespace -/
def Edges (x : Str) : Prop :=
  (∃ a t, x = a :: t ∧ pyIsSpace a = false) ∧ (∃ u b, x = u ++ [b] ∧ pyIsSpace b = false)

theorem edges_of_strip (c : Str) (hs : strip c = c) (hne : c ≠ []) : Edges c := by
  constructor
  · cases c with
    | nil => exact absurd rfl hne
    | cons a t => exact ⟨a, t, rfl, strip_head a t hs⟩
  · have : c = c.dropLast ++ [c.getLast hne] := (List.dropLast_concat_getLast hne).symm
    refine ⟨c.dropLast, c.getLast hne, this, strip_last c.dropLast (c.getLast hne) ?_⟩
    rw [← this]; exact hs

theorem strip_pad_edges (x : Str) (h : Edges x) : strip (' ' :: x ++ [' ']) = x := by
  obtain ⟨⟨a, t, hx1, ha⟩, ⟨u, b, hx2, hb⟩⟩ := h
  have h1 : lstrip (' ' :: x ++ [' ']) = x ++ [' '] := by
    have hsp : pyIsSpace ' ' = true := by decide
    unfold lstrip
    rw [List.cons_append, List.dropWhile_cons_of_pos hsp, hx1]
    simp [ha]
  unfold strip
  rw [h1, rstrip_snoc_of_space x ' ' (by decide), hx2, rstrip_snoc_of_not u b hb]

theorem edges_mdEscape (c : Str) (h : Edges c) : Edges (mdEscape c) := by
  obtain ⟨⟨a, t, hx1, ha⟩, ⟨u, b, hx2, hb⟩⟩ := h
  constructor
  · rw [hx1, mdEscape_cons]
    by_cases hp : a = '|'
    · exact ⟨'\\', '|' :: mdEscape t, by simp [hp], by decide⟩
    · exact ⟨a, mdEscape t, by simp [hp], ha⟩
  · rw [hx2, mdEscape_append, mdEscape_cons]
    by_cases hp : b = '|'
    · exact ⟨mdEscape u ++ ['\\'], '|', by simp [hp], by decide⟩
    · exact ⟨mdEscape u, b, by simp [hp], hb⟩

theorem allSpace_pad_false (x : Str) (h : Edges x) : allSpace (' ' :: x ++ [' ']) = false := by
  obtain ⟨⟨a, t, hx1, ha⟩, _⟩ := h
  subst hx1
  simp [allSpace, ha]

theorem mdStrp_pad (c : Str) (hs : strip c = c) (hne : c ≠ []) : mdStrp (mdCellPad c) = some c := by
  have he := edges_mdEscape c (edges_of_strip c hs hne)
  unfold mdStrp mdCellPad
  rw [allSpace_pad_false _ he, strip_pad_edges _ he, unescPipe_mdEscape]
  simp

theorem mdStrp_pad_nil : mdStrp (mdCellPad []) = none := by decide


theorem mdStrp_pad_toOpt (c : Str) (hs : strip c = c) : mdStrp (mdCellPad c) = toOpt c := by
  unfold toOpt
  by_cases h : c = []
  · subst h; simp [mdStrp_pad_nil]
  · simp [h, mdStrp_pad c hs h]

/-! ## 2. Line level -/

theorem mdIsComment_lineOf (cells : List Str) : mdIsComment (mdLineOf cells) = false := by
  have hp : pyIsSpace '|' = false := by decide
  unfold mdIsComment mdLineOf
  rw [List.cons_append, List.dropWhile_cons_of_neg (by simp [hp])]
  rfl

/-- the line ends with a pipe: there is no text after the last pipe, so no inline comment -/
theorem mdInline_lineOf (cells : List Str) : mdInline (mdLineOf cells) = none := by
  unfold mdInline mdLineOf
  simp

theorem mdCellGroup_lineOf (cells : List Str) :
    mdCellGroup (mdLineOf cells) = some (joinWith ['|'] (cells.map mdCellPad)) := by
  have hp : pyIsSpace '|' = false := by decide
  unfold mdCellGroup mdLineOf
  rw [List.cons_append, List.dropWhile_cons_of_neg (by simp [hp])]
  simp

theorem joinWith_pad_head (cells : List Str) (h : cells ≠ []) :
    ∃ r, joinWith ['|'] (cells.map mdCellPad) = ' ' :: r := by
  match cells, h with
  | [c], _ => exact ⟨_, rfl⟩
  | c :: d :: rest, _ => exact ⟨_, rfl⟩

/-- the group contains the padding space: it is not a separator line -/
theorem mdSeparator_line (cells : List Str) (h : cells ≠ []) :
    mdSeparator (joinWith ['|'] (cells.map mdCellPad)) = false := by
  obtain ⟨r, hr⟩ := joinWith_pad_head cells h
  rw [hr]; simp [mdSeparator]

theorem splitOnChar_ne_nil (c : Char) (s : Str) : splitOnChar c s ≠ [] := by
  cases s with
  | nil => simp [splitOnChar]
  | cons x xs =>
    rw [splitOnChar]
    split
    · simp
    · split <;> simp

theorem splitOnChar_notin (c : Char) (l : Str) (h : c ∉ l) : splitOnChar c l = [l] := by
  induction l with
  | nil => rfl
  | cons x xs ih =>
    have hx : x ≠ c := fun e => h (by simp [e])
    rw [splitOnChar, ih (fun m => h (by simp [m]))]
    simp [hx]

theorem splitOnChar_append_sep (c : Char) (l rest : Str) (h : c ∉ l) :
    splitOnChar c (l ++ c :: rest) = l :: splitOnChar c rest := by
  induction l with
  | nil =>
    simp only [List.nil_append]
    rw [splitOnChar]
    split
    · rename_i heq; exact absurd heq (splitOnChar_ne_nil _ _)
    · rename_i heq; simp [heq]
  | cons x xs ih =>
    have hx : x ≠ c := fun e => h (by simp [e])
    rw [List.cons_append, splitOnChar, ih (fun m => h (by simp [m]))]
    simp [hx]

/-- `"\n".join(ls).split("\n") = ls` -/
theorem splitOnChar_joinWith (c : Char) (ls : List Str) (hne : ls ≠ []) (h : ∀ l ∈ ls, c ∉ l) :
    splitOnChar c (joinWith [c] ls) = ls := by
  induction ls with
  | nil => exact absurd rfl hne
  | cons l rest ih =>
    cases rest with
    | nil => simpa [joinWith] using splitOnChar_notin c l (h l (by simp))
    | cons m rest =>
      simp only [joinWith, List.append_assoc, List.cons_append, List.nil_append]
      rw [splitOnChar_append_sep c l _ (h l (by simp))]
      rw [ih (by simp) (fun x hx => h x (by simp [hx]))]

theorem mem_mdEscape {x : Char} {c : Str} (h : x ∈ mdEscape c) : x ∈ c ∨ x = '\\' := by
  induction c with
  | nil => simp at h
  | cons ch c ih =>
    rw [mdEscape_cons] at h
    by_cases hp : ch = '|'
    · simp [hp] at h
      rcases h with h | h | h
      · exact .inr h
      · simp [hp, h]
      · rcases ih h with h | h
        · exact .inl (by simp [h])
        · exact .inr h
    · simp [hp] at h
      rcases h with h | h
      · simp [h]
      · rcases ih h with h | h
        · exact .inl (by simp [h])
        · exact .inr h

theorem mem_joinWith {x : Char} {sep : Str} {ls : List Str} (h : x ∈ joinWith sep ls) :
    x ∈ sep ∨ ∃ l ∈ ls, x ∈ l := by
  induction ls with
  | nil => simp [joinWith] at h
  | cons l rest ih =>
    cases rest with
    | nil => exact .inr ⟨l, by simp, by simpa [joinWith] using h⟩
    | cons m rest =>
      simp only [joinWith, List.mem_append] at h
      rcases h with (h | h) | h
      · exact .inr ⟨l, by simp, h⟩
      · exact .inl h
      · rcases ih h with h | ⟨l', hl', hx⟩
        · exact .inl h
        · exact .inr ⟨l', by simp [hl'], hx⟩

theorem nl_notin_lineOf (cells : List Str) (h : ∀ c ∈ cells, '\n' ∉ c) : '\n' ∉ mdLineOf cells := by
  intro hm
  unfold mdLineOf at hm
  simp only [List.cons_append, List.mem_cons, List.mem_append, List.not_mem_nil, or_false] at hm
  rcases hm with hm | hm | hm
  · exact absurd hm (by decide)
  · rcases mem_joinWith hm with h1 | ⟨l, hl, hx⟩
    · simp at h1
    · simp only [List.mem_map] at hl
      obtain ⟨c, hc, rfl⟩ := hl
      unfold mdCellPad at hx
      simp only [List.cons_append, List.mem_cons, List.mem_append, List.not_mem_nil, or_false] at hx
      rcases hx with hx | hx | hx
      · exact absurd hx (by decide)
      · rcases mem_mdEscape hx with h2 | h2
        · exact h c hc h2
        · exact absurd h2 (by decide)
      · exact absurd hx (by decide)
  · exact absurd hm (by decide)

/-- no name / cell of the workbook contains a newline -/
def NoNl (wb : Workbook) : Prop :=
  ∀ s ∈ wb, '\n' ∉ s.name ∧ (∀ c ∈ s.header, '\n' ∉ c) ∧ ∀ r ∈ s.rows, ∀ c ∈ r, '\n' ∉ c

instance (wb : Workbook) : Decidable (NoNl wb) := by unfold NoNl; infer_instance

theorem nl_notin_mdLines (wb : Workbook) (h : NoNl wb) : ∀ l ∈ mdLines wb, '\n' ∉ l := by
  intro l hl
  unfold mdLines at hl
  simp only [List.mem_flatMap, List.mem_cons, List.mem_map] at hl
  obtain ⟨s, hs, hl⟩ := hl
  obtain ⟨h1, h2, h3⟩ := h s hs
  rcases hl with rfl | rfl | ⟨r, hr, rfl⟩
  · exact nl_notin_lineOf _ (by simpa using h1)
  · exact nl_notin_lineOf _ (by simpa using h2)
  · exact nl_notin_lineOf _ (by simpa using h3 r hr)

theorem mdLines_ne_nil (wb : Workbook) (h : wb ≠ []) : mdLines wb ≠ [] := by
  cases wb with
  | nil => exact absurd rfl h
  | cons s wb => simp [mdLines]

/-- `renderMd wb` splits back into its lines (the empty workbook renders to `""`, which splits
into one empty line, not into no line) -/
theorem splitOnChar_renderMd (wb : Workbook) (hne : wb ≠ []) (h : NoNl wb) :
    splitOnChar '\n' (renderMd wb) = mdLines wb :=
  splitOnChar_joinWith '\n' _ (mdLines_ne_nil wb hne) (nl_notin_mdLines wb h)

/-! ## 3. `_md_table_to_ss_structure` on a rendered workbook -/

theorem dset_dset {κ β} [DecidableEq κ] (k : κ) (v v' : β) (l : List (κ × β)) :
    dset k v (dset k v' l) = dset k v l := by
  induction l with
  | nil => simp [dset]
  | cons p l ih =>
    obtain ⟨k', w⟩ := p
    by_cases h : k' = k <;> simp [dset, h, ih]

theorem dset_fresh {κ β} [DecidableEq κ] (k : κ) (v : β) (l : List (κ × β))
    (h : k ∉ l.map Prod.fst) : dset k v l = l ++ [(k, v)] := by
  induction l with
  | nil => simp [dset]
  | cons p l ih =>
    obtain ⟨k', w⟩ := p
    simp only [List.map_cons, List.mem_cons, not_or] at h
    have hk : k' ≠ k := fun e => h.1 e.symm
    simp [dset, hk, ih h.2]

/-- the sheet-name line `| name |` -/
theorem mdLine_name (st : MdSt) (n : Str) (hs : strip n = n) (hne : n ≠ []) :
    mdLine st (mdLineOf [n]) = ⟨some n, some [], dset (some n) (some []) st.sheets⟩ := by
  unfold mdLine
  rw [mdIsComment_lineOf, mdInline_lineOf]
  simp only [Option.getD_none, mdCellGroup_lineOf, mdSeparator_line [n] (by simp),
    splitPipes_line [n] (by simp)]
  simp [mdStrp_pad n hs hne]

/-- a header / data line `| | c1 | c2 |` below a sheet-name line: appended when it has a non-empty
cell (the header line) or when the sheet already has a row (every data line, blank or not) -/
theorem mdLine_row (n : Str) (arr : List MdRow) (S : List (Option Str × Option (List MdRow)))
    (r : List Str) (hs : ∀ c ∈ r, strip c = c) (hne : (∃ c ∈ r, c ≠ []) ∨ arr ≠ []) :
    mdLine ⟨some n, some arr, S⟩ (mdLineOf ([] :: r)) =
      ⟨some n, some (arr ++ [r.map toOpt]), dset (some n) (some (arr ++ [r.map toOpt])) S⟩ := by
  have hrow : (r.map mdCellPad).map mdStrp = r.map toOpt := by
    rw [List.map_map]
    apply List.map_congr_left
    intro c hc
    exact mdStrp_pad_toOpt c (hs c hc)
  unfold mdLine
  rw [mdIsComment_lineOf, mdInline_lineOf]
  simp only [Option.getD_none, mdCellGroup_lineOf, mdSeparator_line ([] :: r) (by simp),
    splitPipes_line ([] :: r) (by simp)]
  simp only [List.map_cons, mdStrp_pad_nil, hrow]
  rcases hne with hne | hne
  · have hany : (r.map toOpt).any Option.isSome = true := by
      obtain ⟨c, hc, hcne⟩ := hne
      simp only [List.any_map, List.any_eq_true]
      exact ⟨c, hc, by simp [toOpt, hcne]⟩
    simp [hany]
  · cases arr with
    | nil => exact absurd rfl hne
    | cons a arr => simp

def optRows (rows : List (List Str)) : List MdRow := rows.map fun r => r.map toOpt

theorem foldl_rows (n : Str) (S : List (Option Str × Option (List MdRow))) (rows : List (List Str))
    (arr : List MdRow) (harr : arr ≠ []) (h : ∀ r ∈ rows, ∀ c ∈ r, strip c = c) :
    (rows.map fun r => mdLineOf ([] :: r)).foldl mdLine ⟨some n, some arr, dset (some n) (some arr) S⟩ =
      ⟨some n, some (arr ++ optRows rows), dset (some n) (some (arr ++ optRows rows)) S⟩ := by
  induction rows generalizing arr with
  | nil => simp [optRows]
  | cons r rows ih =>
    have h1 := h r (by simp)
    simp only [List.map_cons, List.foldl_cons]
    rw [mdLine_row n arr _ r h1 (.inr harr), dset_dset,
      ih _ (by simp) (fun r' hr' => h r' (by simp [hr']))]
    simp [optRows]

/-- what `_md_table_to_ss_structure` holds for a sheet: its name, the header row and the data
rows, cells `""` ↦ `None` -/
def sheetStruct (s : Sheet) : Option Str × Option (List MdRow) :=
  (some s.name, some (optRows (s.header :: s.rows)))

def sheetLines (s : Sheet) : List Str :=
  mdLineOf [s.name] :: (s.header :: s.rows).map fun r => mdLineOf ([] :: r)

theorem mdLines_cons (s : Sheet) (wb : Workbook) : mdLines (s :: wb) = sheetLines s ++ mdLines wb := by
  simp [mdLines, sheetLines]

/-- Prop form of the per-sheet guard for the structure level -/
def SheetP (s : Sheet) : Prop :=
  strip s.name = s.name ∧ s.name ≠ [] ∧ (∀ c ∈ s.header, strip c = c) ∧ (∃ c ∈ s.header, c ≠ []) ∧
    ∀ r ∈ s.rows, ∀ c ∈ r, strip c = c

theorem foldl_sheet (st : MdSt) (s : Sheet) (h : SheetP s) :
    (sheetLines s).foldl mdLine st =
      ⟨some s.name, some (optRows (s.header :: s.rows)),
        dset (some s.name) (some (optRows (s.header :: s.rows))) st.sheets⟩ := by
  obtain ⟨h1, h2, h3, h4, h5⟩ := h
  unfold sheetLines
  rw [List.foldl_cons, mdLine_name st s.name h1 h2, List.map_cons, List.foldl_cons,
    mdLine_row s.name [] _ s.header h3 (.inl h4), dset_dset,
    foldl_rows s.name st.sheets s.rows _ (by simp) h5]
  simp [optRows]



theorem foldl_mdLines (wb : Workbook) (st : MdSt) (hok : ∀ s ∈ wb, SheetP s)
    (hd : distinctB (wb.map (·.name)) = true)
    (hfresh : ∀ s ∈ wb, some s.name ∉ st.sheets.map Prod.fst) :
    ((mdLines wb).foldl mdLine st).sheets = st.sheets ++ wb.map sheetStruct := by
  induction wb generalizing st with
  | nil => simp [mdLines]
  | cons s wb ih =>
    simp only [List.map_cons, distinctB, Bool.and_eq_true, Bool.not_eq_true',
      List.contains_eq_mem, decide_eq_false_iff_not] at hd
    rw [mdLines_cons, List.foldl_append, foldl_sheet st s (hok s (by simp))]
    rw [ih _ (fun s' hs' => hok s' (by simp [hs'])) hd.2]
    · simp only
      rw [dset_fresh _ _ _ (hfresh s (by simp))]
      simp [sheetStruct]
    · intro s' hs'
      simp only
      rw [dset_fresh _ _ _ (hfresh s (by simp))]
      simp only [List.map_append, List.map_cons, List.map_nil, List.mem_append, List.mem_singleton,
        not_or]
      refine ⟨hfresh s' (by simp [hs']), ?_⟩
      intro e
      simp only [Option.some.injEq] at e
      exact hd.1 (by rw [← e]; exact List.mem_map.mpr ⟨s', hs', rfl⟩)

theorem mdStructure_render_of (wb : Workbook) (hne : wb ≠ []) (hnl : NoNl wb)
    (hok : ∀ s ∈ wb, SheetP s) (hd : distinctB (wb.map (·.name)) = true) :
    mdStructure (renderMd wb) = wb.map sheetStruct := by
  unfold mdStructure
  rw [splitOnChar_renderMd wb hne hnl, foldl_mdLines wb _ hok hd (by simp)]
  simp

/-! ## 4. `process_md_data` on the structure of a rendered workbook -/

/-- the facts about the regenerated table `Gen.supportedSheetNames` the book keys rely on: a
supported sheet name is not `sheet_names`, and no `<name>_header` key is `sheet_names` or
another supported name -/
def supportedKeysOK : Bool :=
  supported.all fun a =>
    a != sheetNamesKey && (a ++ headerSuffix) != sheetNamesKey &&
      supported.all fun b => a != b ++ headerSuffix

theorem supported_keys_ok : supportedKeysOK = true := by decide

theorem supported_keys {a : Str} (ha : a ∈ supported) :
    a ≠ sheetNamesKey ∧ a ++ headerSuffix ≠ sheetNamesKey ∧
      ∀ b ∈ supported, a ≠ b ++ headerSuffix := by
  have h := supported_keys_ok
  simp only [supportedKeysOK, List.all_eq_true, Bool.and_eq_true, bne_iff_ne, ne_eq] at h
  obtain ⟨⟨h1, h2⟩, h3⟩ := h a ha
  exact ⟨h1, h2, h3⟩

theorem mdRowDict_zip (header row : List Str) (acc : KRow) (hh : ∀ c ∈ header, c ≠ []) :
    mdRowDict (header.map toOpt) (row.map toOpt) acc = zipDict header row acc := by
  induction row generalizing header acc with
  | nil => cases header <;> simp [mdRowDict, zipDict]
  | cons v vs ih =>
    cases header with
    | nil => simp [mdRowDict, zipDict]
    | cons h hs =>
      have hh' : ∀ c ∈ hs, c ≠ [] := fun c hc => hh c (by simp [hc])
      have hhne : h ≠ [] := hh h (by simp)
      by_cases hv : v = []
      · subst hv
        simp only [List.map_cons, toOpt, if_true, mdRowDict, zipDict]
        exact ih hs acc hh'
      · simp only [List.map_cons, toOpt, hv, hhne, if_false, mdRowDict, zipDict]
        exact ih hs _ hh'

theorem mdRows_zip (header : List Str) (rows : List (List Str)) (hh : ∀ c ∈ header, c ≠ []) :
    mdRows (header.map toOpt) (optRows rows) = rows.map (sheetRow header) := by
  simp only [mdRows, optRows, List.map_map]
  apply List.map_congr_left
  intro r _
  simp only [Function.comp, sheetRow]
  exact mdRowDict_zip header r [] hh

theorem map_optStr_toOpt (header : List Str) (hh : ∀ c ∈ header, c ≠ []) :
    (header.map toOpt).map optStr = header := by
  induction header with
  | nil => rfl
  | cons h hs ih =>
    have hhne : h ≠ [] := hh h (by simp)
    simp only [List.map_cons, toOpt, hhne, if_false, optStr]
    rw [ih (fun c hc => hh c (by simp [hc]))]

/-- a row without any non-empty cell adds nothing to the dict -/
theorem zipDict_blank (hdr r : List Str) (acc : KRow)
    (h : (r.map toOpt).any Option.isSome = false) : zipDict hdr r acc = acc := by
  induction r generalizing hdr with
  | nil => cases hdr <;> simp [zipDict]
  | cons v vs ih =>
    simp only [List.map_cons, List.any_cons, Bool.or_eq_false_iff] at h
    have hv : v = [] := by
      by_cases hv : v = []
      · exact hv
      · simp [toOpt, hv] at h
    subst hv
    cases hdr with
    | nil => simp [zipDict]
    | cons c cs =>
      simp only [zipDict, if_true]
      exact ih cs h.2

theorem length_stripTrailing_le {α} (p : α → Bool) (l : List α) :
    (stripTrailing p l).length ≤ l.length := by
  obtain ⟨t, ht, _⟩ := stripTrailing_decomp p l
  have := congrArg List.length ht
  simp only [List.length_append] at this
  omega

/-- under `noTrailingBlank` the last row of the Markdown structure is not all-`None`: the trailing
trim of `md_to_dict` removes nothing -/
theorem stripTrailing_optRows (hdr : List Str) (rows : List (List Str))
    (h : stripTrailing (·.isEmpty) (rows.map (sheetRow hdr)) = rows.map (sheetRow hdr)) :
    stripTrailing (fun r : MdRow => !r.any Option.isSome) (optRows rows) = optRows rows := by
  induction rows using list_reverse_induction with
  | nil => rfl
  | append_singleton l x _ =>
    have hx : (sheetRow hdr x).isEmpty = false := by
      cases hx : (sheetRow hdr x).isEmpty with
      | false => rfl
      | true =>
        rw [List.map_append, List.map_cons, List.map_nil,
          stripTrailing_snoc_pos _ _ _ hx] at h
        have h1 := length_stripTrailing_le (fun r : KRow => r.isEmpty) (l.map (sheetRow hdr))
        rw [h] at h1
        simp only [List.length_append, List.length_cons, List.length_nil] at h1
        omega
    have hany : (x.map toOpt).any Option.isSome = true := by
      cases hany : (x.map toOpt).any Option.isSome with
      | true => rfl
      | false =>
        have := zipDict_blank hdr x [] hany
        simp [sheetRow, this] at hx
    have : optRows (l ++ [x]) = optRows l ++ [x.map toOpt] := by simp [optRows]
    rw [this]
    exact stripTrailing_snoc_neg _ _ _ (by simp [hany])

theorem noTrailingBlank_iff (s : Sheet) : noTrailingBlank s = true ↔
    stripTrailing (·.isEmpty) (s.rows.map (sheetRow s.header)) = s.rows.map (sheetRow s.header) := by
  simp [noTrailingBlank, dictRows]

theorem mdSheet_zip (key : Str) (s : Sheet) (b : Book) (hh : ∀ c ∈ s.header, c ≠ [])
    (hnt : noTrailingBlank s = true) :
    mdSheet key (optRows (s.header :: s.rows)) b =
      dset (key ++ headerSuffix) (.header (l2dl s.header))
        (dset key (.rows (s.rows.map (sheetRow s.header))) b) := by
  have h1 := mdRows_zip s.header s.rows hh
  have h2 := stripTrailing_optRows s.header s.rows ((noTrailingBlank_iff s).1 hnt)
  show mdSheet key (s.header.map toOpt :: optRows s.rows) b = _
  rw [mdSheet]
  simp only [h2, h1, map_optStr_toOpt s.header hh]

/-- lower-cased sheet name: the key of the sheet in the book -/
def lw (s : Sheet) : Str := lowerAscii s.name

theorem keys_entries {k : Str} {pre : Workbook}
    (h : k ∈ (pre.flatMap sheetEntries).map Prod.fst) :
    ∃ p ∈ pre, k = lw p ∨ k = lw p ++ headerSuffix := by
  simp only [List.mem_map, List.mem_flatMap] at h
  obtain ⟨⟨k', v⟩, ⟨p, hp, hkv⟩, rfl⟩ := h
  refine ⟨p, hp, ?_⟩
  simp only [sheetEntries, List.mem_cons, Prod.mk.injEq, List.not_mem_nil, or_false] at hkv
  rcases hkv with ⟨h1, _⟩ | ⟨h1, _⟩
  · exact .inl h1
  · exact .inr h1

/-- Prop form of the per-sheet guard for the book level -/
def SheetQ (s : Sheet) : Prop :=
  isAscii s.name = true ∧ lw s ∈ supported ∧ (∀ c ∈ s.header, c ≠ []) ∧ noTrailingBlank s = true

theorem toBook_snoc (pre : Workbook) (s : Sheet) :
    toBook (pre ++ [s]) =
      (sheetNamesKey, Val.names (pre.map (·.name) ++ [s.name])) ::
        (pre.flatMap sheetEntries ++ sheetEntries s) := by
  simp [toBook]

/-- adding the two entries of a sheet whose keys are new -/
theorem book_step (pre : Workbook) (s : Sheet) (N : Val) (R H : Val)
    (hpre : ∀ p ∈ pre, lw p ∈ supported) (hs : lw s ∈ supported)
    (hfresh : lw s ∉ pre.map lw) :
    dset (lw s ++ headerSuffix) H (dset (lw s) R ((sheetNamesKey, N) :: pre.flatMap sheetEntries)) =
      (sheetNamesKey, N) :: (pre.flatMap sheetEntries ++ [(lw s, R), (lw s ++ headerSuffix, H)]) := by
  obtain ⟨k1, k2, k3⟩ := supported_keys hs
  have hsfx : lw s ≠ lw s ++ headerSuffix := k3 _ hs
  have f1 : lw s ∉ (pre.flatMap sheetEntries).map Prod.fst := by
    intro hm
    obtain ⟨p, hp, h | h⟩ := keys_entries hm
    · exact hfresh (by rw [h]; exact List.mem_map.mpr ⟨p, hp, rfl⟩)
    · exact k3 _ (hpre p hp) h
  have f2 : lw s ++ headerSuffix ∉ (pre.flatMap sheetEntries).map Prod.fst := by
    intro hm
    obtain ⟨p, hp, h | h⟩ := keys_entries hm
    · exact (supported_keys (hpre p hp)).2.2 _ hs h.symm
    · have : lw s = lw p := List.append_cancel_right h
      exact hfresh (by rw [this]; exact List.mem_map.mpr ⟨p, hp, rfl⟩)
  have e1 : dset (lw s) R ((sheetNamesKey, N) :: pre.flatMap sheetEntries) =
      (sheetNamesKey, N) :: (pre.flatMap sheetEntries ++ [(lw s, R)]) := by
    rw [dset]
    simp only [Ne.symm k1, if_false]
    rw [dset_fresh _ _ _ f1]
  rw [e1, dset]
  simp only [Ne.symm k2, if_false]
  rw [dset_fresh]
  · simp
  · simp only [List.map_append, List.map_cons, List.map_nil, List.mem_append, List.mem_singleton,
      not_or]
    exact ⟨f2, Ne.symm hsfx⟩

theorem bookNames_toBook (pre : Workbook) : bookNames (toBook pre) = pre.map (·.name) := by
  simp [bookNames, toBook, dget]

theorem mdProcess_render (single : Bool) (wb pre : Workbook) (hok : ∀ s ∈ wb, SheetQ s)
    (hpre : ∀ p ∈ pre, lw p ∈ supported) (hd : distinctB (wb.map lw) = true)
    (hfresh : ∀ s ∈ wb, lw s ∉ pre.map lw) :
    mdProcess single (wb.map sheetStruct) (toBook pre) = .ok (toBook (pre ++ wb)) := by
  induction wb generalizing pre with
  | nil => simp [mdProcess]
  | cons s wb ih =>
    obtain ⟨h1, h2, h3, h4⟩ := hok s (by simp)
    simp only [List.map_cons, distinctB, Bool.and_eq_true, Bool.not_eq_true',
      List.contains_eq_mem, decide_eq_false_iff_not] at hd
    have hcont : supported.contains (lowerAscii s.name) = true := by
      simpa [lw] using h2
    have hb1 : dset sheetNamesKey (Val.names (bookNames (toBook pre) ++ [s.name])) (toBook pre) =
        (sheetNamesKey, Val.names (pre.map (·.name) ++ [s.name])) :: pre.flatMap sheetEntries := by
      rw [bookNames_toBook]; simp [toBook, dset]
    simp only [List.map_cons, sheetStruct]
    rw [mdProcess]
    simp only [h1, Bool.not_true, Bool.false_eq_true, if_false, hcont, if_true, hb1]
    rw [mdSheet_zip _ s _ h3 h4]
    have hstep := book_step pre s (Val.names (pre.map (·.name) ++ [s.name]))
      (.rows (s.rows.map (sheetRow s.header))) (.header (l2dl s.header)) hpre h2
      (hfresh s (by simp))
    simp only [lw] at hstep
    simp only [hstep]
    have hnext := ih (pre ++ [s]) (fun s' hs' => hok s' (by simp [hs']))
      (by
        intro p hp
        simp only [List.mem_append, List.mem_singleton] at hp
        rcases hp with hp | rfl
        · exact hpre p hp
        · exact h2)
      hd.2
      (by
        intro s' hs'
        simp only [List.map_append, List.map_cons, List.map_nil, List.mem_append,
          List.mem_singleton, not_or]
        refine ⟨hfresh s' (by simp [hs']), ?_⟩
        intro e
        exact hd.1 (by rw [← e]; exact List.mem_map.mpr ⟨s', hs', rfl⟩))
    rw [toBook_snoc] at hnext
    simp only [sheetEntries, List.append_assoc, List.cons_append, List.nil_append] at hnext
    simpa using hnext

/-! ## 5. The guard and the round trip -/











theorem cellOK_iff (c : Str) : cellOK c = true ↔ strip c = c ∧ '\n' ∉ c := by
  simp [cellOK]

theorem distinctB_of_map (f : Str → Str) (l : List Str) (h : distinctB (l.map f) = true) :
    distinctB l = true := by
  induction l with
  | nil => rfl
  | cons x xs ih =>
    simp only [List.map_cons, distinctB, Bool.and_eq_true, Bool.not_eq_true',
      List.contains_eq_mem, decide_eq_false_iff_not] at h ⊢
    exact ⟨fun hm => h.1 (List.mem_map.mpr ⟨x, hm, rfl⟩), ih h.2⟩

theorem sheetOK_unpack (s : Sheet) (h : sheetOK s = true) :
    SheetP s ∧ SheetQ s ∧
      ('\n' ∉ s.name ∧ (∀ c ∈ s.header, '\n' ∉ c) ∧ ∀ r ∈ s.rows, ∀ c ∈ r, '\n' ∉ c) := by
  simp only [sheetOK, nameOK, rowOK, Bool.and_eq_true, List.all_eq_true,
    cellOK_iff, bne_iff_ne, ne_eq, List.contains_eq_mem, decide_eq_true_eq] at h
  obtain ⟨⟨⟨⟨⟨⟨⟨⟨n1, n2⟩, n3⟩, n4⟩, n5⟩, h1⟩, h2⟩, h3⟩, h4⟩ := h
  refine ⟨⟨n1, n3, fun c hc => (h2 c hc).1.1, ?_, fun r hr c hc => (h3 r hr c hc).1⟩,
    ⟨n4, n5, fun c hc => (h2 c hc).2, h4⟩,
    ⟨n2, fun c hc => (h2 c hc).1.2, fun r hr c hc => (h3 r hr c hc).2⟩⟩
  cases hh : s.header with
  | nil => exact absurd hh h1
  | cons c t => exact ⟨c, by simp, (h2 c (by simp [hh])).2⟩

/-- `_md_table_to_ss_structure` reads the rendered workbook back sheet by sheet -/
theorem mdStructure_render (wb : Workbook) (hne : wb ≠ []) (h : MdOK wb = true) :
    mdStructure (renderMd wb) = wb.map sheetStruct := by
  simp only [MdOK, Bool.and_eq_true, List.all_eq_true] at h
  refine mdStructure_render_of wb hne (fun s hs => (sheetOK_unpack s (h.1 s hs)).2.2)
    (fun s hs => (sheetOK_unpack s (h.1 s hs)).1) ?_
  apply distinctB_of_map lowerAscii
  rw [List.map_map]
  exact h.2

theorem renderMd_nil : renderMd [] = [] := rfl

/-- **Markdown round trip**: for a workbook satisfying the guard, `md_to_dict` of its rendering is
its dict container. -/
theorem md_roundtrip (wb : Workbook) (h : MdOK wb = true)
    (hm : isMarkdownTable (renderMd wb) = true) : mdToDict (renderMd wb) = .ok (toBook wb) := by
  have hne : wb ≠ [] := by
    intro e; subst e
    exact absurd hm (by decide)
  have hs := mdStructure_render wb hne h
  simp only [MdOK, Bool.and_eq_true, List.all_eq_true] at h
  unfold mdToDict
  have hemp : (wb.map sheetStruct).isEmpty = false := by
    cases wb with
    | nil => exact absurd rfl hne
    | cons _ _ => rfl
  simp only [hm, Bool.not_true, Bool.false_eq_true, if_false, hs, hemp]
  have := mdProcess_render (decide ((wb.map sheetStruct).length = 1)) wb []
    (fun s hs => (sheetOK_unpack s (h.1 s hs)).2.1) (by simp) h.2 (by simp)
  simpa [toBook] using this

/-! ## 6. Non-vacuity -/

section Examples

/-- (`Except` has no `DecidableEq` instance in core) -/
local instance {ε α} [DecidableEq ε] [DecidableEq α] : DecidableEq (Except ε α)
  | .ok a, .ok b => if h : a = b then isTrue (h ▸ rfl) else isFalse (fun e => h (Except.ok.inj e))
  | .error a, .error b =>
    if h : a = b then isTrue (h ▸ rfl) else isFalse (fun e => h (Except.error.inj e))
  | .ok _, .error _ => isFalse (fun e => nomatch e)
  | .error _, .ok _ => isFalse (fun e => nomatch e)

/-- a label with an escaped pipe, an empty cell, a short row, mixed-case sheet name -/
def exWb : Workbook :=
  [ { name := "Survey".toList,
      header := ["type".toList, "name".toList, "label".toList],
      rows := [["text".toList, "q1".toList, "a | b \\| c".toList],
               ["note".toList, [], "only label".toList],
               ["integer".toList, "q3".toList]] },
    { name := "choices".toList,
      header := ["list_name".toList, "name".toList],
      rows := [["l".toList, "x|".toList]] } ]

example : unescPipe (mdEscape "a | b \\| c\\".toList) = "a | b \\| c\\".toList :=
  unescPipe_mdEscape _
example : mdEscape "a|b".toList = "a\\|b".toList := by decide
example : splitPipes false (joinWith ['|'] (["a|b".toList, [], "|".toList].map mdCellPad)) =
    [" a\\|b ".toList, "  ".toList, " \\| ".toList] := by decide
example : splitPipes false (joinWith ['|'] (["a|b".toList, [], "|".toList].map mdCellPad)) =
    ["a|b".toList, [], "|".toList].map mdCellPad := splitPipes_line _ (by simp)
example : mdStrp (mdCellPad "|x y|".toList) = some "|x y|".toList :=
  mdStrp_pad _ (by decide) (by simp)
example : mdStrp (mdCellPad []) = none := mdStrp_pad_nil
example : mdStrp (mdCellPad " x".toList) ≠ some " x".toList := by decide  -- `strip c = c` is needed
example : mdLineOf ["a|b".toList, []] = "| a\\|b |  |".toList := by decide
example : mdIsComment (mdLineOf ["#x".toList]) = false := mdIsComment_lineOf _
example : mdIsComment "  # | a |".toList = true := by decide
example : splitOnChar ',' (joinWith [','] ["a".toList, [], "b".toList]) = ["a".toList, [], "b".toList] :=
  splitOnChar_joinWith _ _ (by simp) (by decide)
example : splitOnChar '\n' (renderMd []) ≠ mdLines [] := by decide  -- the empty workbook is excluded
example : mdCellGroup (mdLineOf ["a|b".toList, []]) = some " a\\|b |  ".toList := by decide
example : mdSeparator " a\\|b |  ".toList = false := mdSeparator_line ["a|b".toList, []] (by simp)
example : mdSeparator "--|--".toList = true := by decide
example : mdInline "| a | # c".toList = some "| a | ".toList := by decide
example : mdInline (mdLineOf ["#x".toList]) = none := mdInline_lineOf _
example : splitOnChar '\n' (renderMd exWb) = mdLines exWb :=
  splitOnChar_renderMd exWb (by decide) (by decide)
example : MdOK exWb = true := by decide
example : isMarkdownTable (renderMd exWb) = true := by decide
example : mdStructure (renderMd exWb) = exWb.map sheetStruct :=
  mdStructure_render exWb (by decide) (by decide)
example : mdToDict (renderMd exWb) = .ok (toBook exWb) :=
  md_roundtrip exWb (by decide) (by decide)
/-- the same, by evaluation of the model alone -/
example : mdToDict (renderMd exWb) = .ok (toBook exWb) := by decide +kernel
example : supportedKeysOK = true := supported_keys_ok

/-- blank rows inside the data: a row of empty cells and a row with no cell at all (`|  |`) -/
def exBlank : Workbook :=
  [ { name := "survey".toList, header := ["type".toList, "name".toList],
      rows := [["text".toList, "q".toList], [[], []], [], ["note".toList, "n".toList]] } ]
/-- the last row is blank -/
def exBlankLast : Workbook :=
  [ { name := "survey".toList, header := ["type".toList, "name".toList],
      rows := [["text".toList, "q".toList], [[], []]] } ]
/-- a cell with an interior U+00A0 -/
def exNbsp : Workbook :=
  [ { name := "survey".toList, header := ["type".toList, "label".toList],
      rows := [["note".toList, ['a', Char.ofNat 160, 'b']]] } ]
def exLong : Workbook :=
  [ { name := "survey".toList, header := ["type".toList, "name".toList],
      rows := [["text".toList, "q".toList, "x".toList]] } ]
def exNone : Workbook :=
  [ { name := "survey".toList, header := ["type".toList, []],
      rows := [["text".toList, "q".toList]] } ]

/-- a blank data row inside the data is kept (F16 repaired): such a workbook satisfies the guard and
round-trips, the blank rows being read as `{}` … -/
example : MdOK exBlank = true ∧ mdToDict (renderMd exBlank) = .ok (toBook exBlank) := by decide
example : mdToDict (renderMd exBlank) = .ok (toBook exBlank) :=
  md_roundtrip exBlank (by decide) (by decide)
example : mdStructure (renderMd exBlank) = exBlank.map sheetStruct :=
  mdStructure_render exBlank (by decide) (by decide)
example : dget "survey".toList (toBook exBlank) =
    some (.rows [[(some "type".toList, "text".toList), (some "name".toList, "q".toList)], [], [],
      [(some "type".toList, "note".toList), (some "name".toList, "n".toList)]]) := by decide
/-- … the guard is not idle: a trailing blank row is dropped by `md_to_dict` … -/
example : MdOK exBlankLast = false ∧
    mdToDict (renderMd exBlankLast) ≠ .ok (toBook exBlankLast) := by decide
example : exBlankLast.all noTrailingBlank = false := by decide
/-- … U+00A0 inside a cell is read as a space, by `md_to_dict` as by the dict container … -/
example : MdOK exNbsp = true ∧ isMarkdownTable (renderMd exNbsp) = true := by decide
example : mdToDict (renderMd exNbsp) = .ok (toBook exNbsp) :=
  md_roundtrip exNbsp (by decide) (by decide)
example : dget "survey".toList (toBook exNbsp) =
    some (.rows [[(some "type".toList, "note".toList), (some "label".toList, "a b".toList)]]) := by
  decide
/-- … a cell beyond the header is ignored, as by the dict container (F27 repaired): such a
workbook satisfies the guard and round-trips … -/
example : MdOK exLong = true ∧ mdToDict (renderMd exLong) = .ok (toBook exLong) := by decide
example : mdToDict (renderMd exLong) = .ok (toBook exLong) :=
  md_roundtrip exLong (by decide) (by decide)
/-- … text with pipes but no table row is "not Markdown" … -/
example : isMarkdownTable "a|b|c|d|e|f".toList = true ∧
    mdToDict "a|b|c|d|e|f".toList = .error .readError := by decide
/-- … and an empty header cell becomes the key `None` -/
example : MdOK exNone = false ∧ mdToDict (renderMd exNone) ≠ .ok (toBook exNone) := by decide

end Examples

end Pyxv.Backends.Md
