import Pyxv.Proofs.C01Decls
/-!
# C01: the validator is complete on the modelled fragment

`validate_xml_document` never rejects a document assembled from a header whose user-supplied names are
names in pyxform's own sense (`is_xml_tag`) with declared prefixes and whose strings are XML characters,
around parts that are themselves valid in the scope they are placed in.
-/
namespace Pyxv.C01
open Pyxv Pyxv.Xml Pyxv.Asm Pyxv.Rows

theorem isXmlTag_xmlns (k : Str) (h : ncName k = some []) : isXmlTag (xmlnsColon ++ k) = true := by
  have hx : isNameStart1 'x' = true := by decide
  have hm : (isNameStart1 'm' || isNameExtra 'm') = true := by decide
  have hl : (isNameStart1 'l' || isNameExtra 'l') = true := by decide
  have hn : (isNameStart1 'n' || isNameExtra 'n') = true := by decide
  have hs : (isNameStart1 's' || isNameExtra 's') = true := by decide
  have hc : (isNameStart1 ':' || isNameExtra ':') = false := by decide
  have ht : ∀ r, startsWith (':' :: r) typoLit = false := by
    intro r; simp [startsWith, typoLit]
  have hk : xmlnsColon ++ k = 'x' :: 'm' :: 'l' :: 'n' :: 's' :: ':' :: k := by simp [xmlnsColon]
  have : ncName (xmlnsColon ++ k) = some (':' :: k) := by
    rw [hk]
    simp only [ncName, if_pos hx, List.length_cons]
    simp [ncTail, hm, hl, hn, hs, hc, ht]
  simp only [isXmlTag, this, h]

/-! ## one attribute / one element at a time -/

/-- what `validate_xml_document` asks of one attribute, given the scope of its element -/
def attrValid (S : List Str) (kv : Str × Str) : Bool :=
  pyDeclOk kv && nameValid S kv.1 && kv.2.all isXmlChar

theorem nameValid_mono (X S : List Str) (q : Str) (h : nameValid S q = true) : nameValid (X ++ S) q = true := by
  unfold nameValid at *
  simp only [Bool.and_eq_true] at h ⊢
  refine ⟨h.1, ?_⟩
  have h2 := h.2
  split at h2
  · simp only [Bool.or_eq_true, decide_eq_true_eq, List.contains_eq_mem, List.mem_append] at h2 ⊢
    rcases h2 with h2 | h2
    · exact Or.inl h2
    · exact Or.inr (Or.inr h2)
  · rfl

theorem attrValid_mono (X S : List Str) (kv : Str × Str) (h : attrValid S kv = true) : attrValid (X ++ S) kv = true := by
  simp only [attrValid, Bool.and_eq_true] at h ⊢
  exact ⟨⟨h.1.1, nameValid_mono X S kv.1 h.1.2⟩, h.2⟩

theorem all_attrValid_mono (X S : List Str) (a : List (Str × Str)) (h : a.all (attrValid S) = true) :
    a.all (attrValid (X ++ S)) = true :=
  all_imp (fun kv hkv => attrValid_mono X S kv hkv) h

theorem attrValid_intro (S : List Str) (k v : Str) (h1 : pyDeclOk (k, v) = true) (h2 : nameValid S k = true)
    (h3 : v.all isXmlChar = true) : attrValid S (k, v) = true := by
  simp [attrValid, h1, h2, h3]

theorem validDoc_elem {sc : List Str} {t : Str} {a : List (Str × Str)} {ks : List Node}
    (ha : a.all (attrValid (a.filterMap pyDeclared ++ sc)) = true)
    (ht : nameValid (a.filterMap pyDeclared ++ sc) t = true)
    (hk : validKids (a.filterMap pyDeclared ++ sc) ks = true) (he : elemPrefixOk t = true) :
    validDoc sc (.elem t a ks) = true := by
  simp only [validDoc, Bool.and_eq_true]
  refine ⟨⟨⟨⟨?_, ht⟩, ?_⟩, hk⟩, he⟩
  · exact all_imp (fun kv h => by simp only [attrValid, Bool.and_eq_true] at h; exact h.1.1) ha
  · exact all_imp (fun kv h => by
      simp only [attrValid, Bool.and_eq_true] at h ⊢; exact ⟨h.1.2, h.2⟩) ha

/-- an element whose attributes were checked in the outer scope -/
theorem validDoc_elem' {sc : List Str} {t : Str} {a : List (Str × Str)} {ks : List Node}
    (ha : a.all (attrValid sc) = true) (ht : nameValid sc t = true)
    (hk : validKids (a.filterMap pyDeclared ++ sc) ks = true) (he : elemPrefixOk t = true) :
    validDoc sc (.elem t a ks) = true :=
  validDoc_elem (all_attrValid_mono _ _ _ ha) (nameValid_mono _ _ _ ht) hk he

theorem validKids_cons {sc : List Str} {k : Node} {ks : List Node} (h1 : validDoc sc k = true)
    (h2 : validKids sc ks = true) : validKids sc (k :: ks) = true := by
  simp [validKids, h1, h2]

theorem validKids_nil (sc : List Str) : validKids sc [] = true := by simp [validKids]

theorem validKids_append (sc : List Str) (L1 L2 : List Node) :
    validKids sc (L1 ++ L2) = (validKids sc L1 && validKids sc L2) := by
  induction L1 with
  | nil => simp [validKids]
  | cons n r ih => simp [validKids, ih, Bool.and_assoc]

/-- a static name without prefix -/
theorem nameValid_plain (S : List Str) (q : Str) (h1 : isXmlTag q = true) (h2 : partitionColon q = (q, false)) :
    nameValid S q = true := by
  simp [nameValid, h1, h2]

/-- a static name `p:l` whose prefix is in scope -/
theorem nameValid_prefixed (S : List Str) (q p : Str) (h1 : isXmlTag q = true) (h2 : partitionColon q = (p, true))
    (hp : S.contains p = true) : nameValid S q = true := by
  simp only [nameValid, h1, h2, Bool.true_and, Bool.or_eq_true]
  exact Or.inr hp

theorem pyDeclOk_of_not_decl (k v : Str) (h : isNsDecl k = false) : pyDeclOk (k, v) = true := by
  have h' : startsWith k xmlnsColon = false := by
    simp only [isNsDecl, Bool.or_eq_false_iff] at h; exact h.2
  simp [pyDeclOk, pyDeclared, h, h']

/-- the default-namespace attribute of the instance root (`instance_xmlns`) -/
theorem pyDeclOk_default (v : Str) (h : reservedNs v = false) : pyDeclOk ("xmlns".toList, v) = true := by
  have h' : pyDeclared ("xmlns".toList, v) = none := by
    have : startsWith "xmlns".toList xmlnsColon = false := by decide
    simp only [pyDeclared, this]; rfl
  simp only [pyDeclOk, h', h, Bool.and_false, Bool.not_false, Bool.and_self]

/-! ## the scope Python computes on `<h:html>` -/

theorem drop_xmlns (p : Str) : (xmlnsColon ++ p).drop 6 = p := by simp [xmlnsColon]

theorem mem_pyScope (a : List (Str × Str)) (p v : Str) (h : lookup (xmlnsColon ++ p) a = some v) :
    (a.filterMap pyDeclared).contains p = true := by
  have hm := lookup_mem _ v a h
  have hd : pyDeclared (xmlnsColon ++ p, v) = some p := by
    simp only [pyDeclared, startsWith_self_append, if_true, drop_xmlns]
  simp only [List.contains_eq_mem, decide_eq_true_eq, List.mem_filterMap]
  exact ⟨_, hm, hd⟩

theorem pyScope_static (f : Fields) (p : Str) (hk : (lookup (xmlnsColon ++ p) NSMAP).isSome = true)
    (hB : NSMAP.all (fun x => x.1 == xmlnsColon ++ p || attrLocal x.1 != p) = true) :
    ((htmlAttrs f).filterMap pyDeclared).contains p = true := by
  cases hv : lookup (xmlnsColon ++ p) NSMAP with
  | none => rw [hv] at hk; cases hk
  | some v => exact mem_pyScope _ p v (lookup_htmlAttrs_prefixed f p v hv hB)

theorem pyScope_entities (f : Fields) (hef : f.entityFeatures = true) :
    ((htmlAttrs f).filterMap pyDeclared).contains "entities".toList = true := by
  have hnone : lookup (xmlnsColon ++ "entities".toList) NSMAP = none := by decide +kernel
  have hmem := mem_nsPairs_entities f.namespaces
  have hns : nsString f = f.namespaces ++ entitiesNs := by unfold nsString; rw [hef]; rfl
  have hne : (nsString f).isEmpty = false := by
    rw [hns, entitiesNs_eq]; cases f.namespaces <;> rfl
  have hget : (lookup (xmlnsColon ++ "entities".toList) (getNsmap f)).isSome = true := by
    unfold getNsmap
    rw [hne]
    simp only [Bool.false_eq_true, if_false]
    apply isSome_dictUpdate
    rw [hns]
    exact isSome_nsExtra NSMAP _ _ hmem hnone
  have hcond : (getNsmap f).all (fun x => x.1 == xmlnsColon ++ "entities".toList ||
      attrLocal x.1 != attrLocal (xmlnsColon ++ "entities".toList)) = true := by
    apply all_getNsmap
    · decide +kernel
    · intro kv _ _
      simp only [attrLocal_xmlns, Bool.or_eq_true, beq_iff_eq, bne_iff_ne]
      by_cases e : kv.1 = "entities".toList
      · exact Or.inl (by rw [e])
      · exact Or.inr e
  cases hv : lookup (xmlnsColon ++ "entities".toList) (htmlAttrs f) with
  | none =>
    have : lookup (xmlnsColon ++ "entities".toList) (htmlAttrs f) =
        match lookup (xmlnsColon ++ "entities".toList) (getNsmap f) with
        | some v => some v
        | none => lookup (xmlnsColon ++ "entities".toList) [] := by
      unfold htmlAttrs; exact lookup_setAttrs _ _ [] (nodup_getNsmap f) hcond
    rw [hv] at this
    cases hg : lookup (xmlnsColon ++ "entities".toList) (getNsmap f) with
    | none => rw [hg] at hget; cases hget
    | some v => rw [hg] at this; cases this
  | some v => exact mem_pyScope _ _ v hv

/-! ## the header strings -/

/-- one `prefix=uri` token as `validate_xml_document` wants it: the prefix is an NCName in pyxform's
    sense, neither `xml` nor `xmlns`; the URI (quotes removed) is non-empty XML characters -/
def tokValid (kv : Str × Str) : Bool :=
  ncName kv.1 == some [] && kv.1 != "xml".toList && kv.1 != "xmlns".toList &&
  !(stripQuotes kv.2).isEmpty && (stripQuotes kv.2).all isXmlChar && !reservedNs (stripQuotes kv.2)

theorem xmlnsColon_join (k : Str) : xmlnsColon ++ k = "xmlns".toList ++ ':' :: k := by simp [xmlnsColon]

theorem attrValid_token (S : List Str) (kv : Str × Str) (h : tokValid kv = true) :
    attrValid S (xmlnsColon ++ kv.1, stripQuotes kv.2) = true := by
  simp only [tokValid, Bool.and_eq_true, beq_iff_eq, bne_iff_ne, Bool.not_eq_true'] at h
  obtain ⟨⟨⟨⟨⟨h1, h2⟩, h3⟩, h4⟩, h5⟩, h6⟩ := h
  refine attrValid_intro S _ _ ?_ ?_ h5
  · have hd : pyDeclared (xmlnsColon ++ kv.1, stripQuotes kv.2) = some kv.1 := by
      simp only [pyDeclared, startsWith_self_append, if_true, drop_xmlns]
    simp only [pyDeclOk, hd, h4, h6, Bool.not_false, Bool.true_and, Bool.and_eq_true, bne_iff_ne, Bool.and_false,
      Bool.not_false, and_true]
    exact ⟨h2, h3⟩
  · have hp : partitionColon (xmlnsColon ++ kv.1) = ("xmlns".toList, true) := by
      rw [xmlnsColon_join]; exact partitionColon_join _ _ xmlns_nocolon
    simp [nameValid, isXmlTag_xmlns kv.1 h1, hp]

theorem nsmap_attrValid (S : List Str) : NSMAP.all (attrValid S) = true := by
  have h0 : NSMAP.all (attrValid []) = true := by decide +kernel
  refine all_imp (fun x hx => ?_) h0
  have := attrValid_mono S [] x hx
  rwa [List.append_nil] at this

/-- every attribute of `<h:html>` passes, for header tokens that are valid -/
theorem htmlAttrs_valid (f : Fields) (h : (nsPairs (nsString f)).all tokValid = true) (S : List Str) :
    (htmlAttrs f).all (attrValid S) = true := by
  unfold htmlAttrs
  refine all_setAttrs _ _ [] rfl (all_getNsmap _ f (nsmap_attrValid S) ?_)
  intro kv hkv _
  exact attrValid_token S kv ((List.all_eq_true.mp h) kv hkv)

/-! ## the theorem -/

/-- the scope Python computes on `<h:html>` … -/
def pyS (f : Fields) : List Str := (htmlAttrs f).filterMap pyDeclared
/-- … and below the primary instance root -/
def pyR (f : Fields) : List Str := (rootAttrs f).filterMap pyDeclared ++ pyS f

/-- a header the validator has no reason to reject -/
structure HeaderValid (f : Fields) : Prop where
  tokens : (nsPairs (nsString f)).all tokValid = true
  attrib : f.attrib.all (attrValid (pyR f)) = true
  instAttrs : f.instAttrs.all (attrValid (pyR f)) = true
  name : nameValid (pyR f) f.name = true
  nameEl : elemPrefixOk f.name = true
  xmlnsFree : reservedNs f.instanceXmlns = false
  title : f.title.all isXmlChar = true
  idString : f.idString.all isXmlChar = true
  style : f.style.all isXmlChar = true
  instanceXmlns : f.instanceXmlns.all isXmlChar = true
  version : f.version.all isXmlChar = true
  pfx : f.pfx.all isXmlChar = true
  delimiter : f.delimiter.all isXmlChar = true
  url : f.submissionUrl.all isXmlChar = true
  key : f.publicKey.all isXmlChar = true
  send : f.autoSend.all isXmlChar = true
  del : f.autoDelete.all isXmlChar = true

/-- parts the validator has no reason to reject, in the scope where they are placed -/
structure PartsValid (f : Fields) (itext : Option (List Node)) (rk rest bk : List Node) : Prop where
  itext : ∀ ks, itext = some ks → validKids (pyS f) ks = true
  rk : validKids (pyR f) rk = true
  rest : validKids (pyS f) rest = true
  bk : validKids (pyS f) bk = true

theorem validDoc_elem0 {sc : List Str} {t : Str} {a : List (Str × Str)} {ks : List Node}
    (h0 : a.filterMap pyDeclared = []) (ha : a.all (attrValid sc) = true) (ht : nameValid sc t = true)
    (hk : validKids sc ks = true) (he : elemPrefixOk t = true) : validDoc sc (.elem t a ks) = true := by
  refine validDoc_elem' ha ht ?_ he
  rw [h0]; exact hk

theorem pyScope_nil : ([] : List (Str × Str)).filterMap pyDeclared = [] := rfl
theorem all_nil_valid (S : List Str) : ([] : List (Str × Str)).all (attrValid S) = true := rfl

theorem pyScope_modelAttrs (f : Fields) : (setAttrs [] (modelAttrs f)).filterMap pyDeclared = [] := by
  unfold modelAttrs
  cases f.entityFeatures <;> decide +kernel

theorem pyScope_bodyAttrs (s : Str) : (setAttrs [] (optAttr "class" s)).filterMap pyDeclared = [] := by
  rw [bodyAttrs_eq]
  unfold optAttr
  split
  · rfl
  · have h1 : pyDeclared ("class".toList, s) = none := by
      have : startsWith "class".toList xmlnsColon = false := by decide
      simp only [pyDeclared, this]; rfl
    rw [List.filterMap_cons, h1]; rfl

theorem contains_of_right (X S : List Str) (p : Str) (h : S.contains p = true) : (X ++ S).contains p = true := by
  simp only [List.contains_eq_mem, decide_eq_true_eq, List.mem_append] at h ⊢
  exact Or.inr h

/-- **Completeness of the validation pass on the modelled fragment.**  A document assembled from a
    valid header around valid parts is accepted: `validate_xml_document` rejects nothing it should not
    (in particular: every static name of the frame is a name for pyxform's own regex, and every prefix the
    frame uses is in the scope Python computes — `NSMAP`'s entries survive `get_nsmap` and
    `setAttribute`, and with entities `get_nsmap` declares `entities` itself). -/
theorem validator_complete (f : Fields) (itext : Option (List Node)) (rk rest bk : List Node)
    (H : HeaderValid f) (P : PartsValid f itext rk rest bk) :
    validDoc [] (assemble f itext rk rest bk) = true := by
  obtain ⟨pit, prk, prest, pbk⟩ := P
  have hh : (pyS f).contains "h".toList = true := pyScope_static f _ (by decide +kernel) (by decide +kernel)
  have hodk : (pyS f).contains "odk".toList = true := pyScope_static f _ (by decide +kernel) (by decide +kernel)
  have horx : (pyS f).contains "orx".toList = true := pyScope_static f _ (by decide +kernel) (by decide +kernel)
  have nd : ∀ k v, isNsDecl k = false → pyDeclOk (k, v) = true := pyDeclOk_of_not_decl
  -- submission
  have hsubA : (subAttrs f).all (attrValid (pyS f)) = true := by
    refine all_subAttrs _ f ?_ ?_ ?_ ?_ ?_
    · exact attrValid_intro _ _ _ (nd _ _ (by decide)) (nameValid_plain _ _ (by decide) (by decide)) H.url
    · exact attrValid_intro _ _ _ (nd _ _ (by decide)) (nameValid_plain _ _ (by decide) (by decide)) (by decide)
    · exact attrValid_intro _ _ _ (nd _ _ (by decide)) (nameValid_plain _ _ (by decide) (by decide)) H.key
    · exact attrValid_intro _ _ _ (nd _ _ (by decide)) (nameValid_prefixed _ _ "orx".toList (by decide) (by decide) horx) H.send
    · exact attrValid_intro _ _ _ (nd _ _ (by decide)) (nameValid_prefixed _ _ "orx".toList (by decide) (by decide) horx) H.del
  have hsub : validKids (pyS f) (submissionNode f) = true := by
    unfold submissionNode
    split
    · exact validKids_nil _
    · exact validKids_cons (validDoc_elem' (all_setAttrs _ _ [] rfl hsubA)
        (nameValid_plain _ _ (by decide) (by decide)) (validKids_nil _) (by decide)) (validKids_nil _)
  -- itext
  have hitext : validKids (pyS f) (itextPart itext) = true := by
    cases itext with
    | none => exact validKids_nil _
    | some ks =>
      exact validKids_cons (validDoc_elem0 pyScope_nil (all_nil_valid _)
        (nameValid_plain _ _ (by decide) (by decide)) (pit ks rfl) (by decide)) (validKids_nil _)
  -- primary instance
  have hodkR : (pyR f).contains "odk".toList = true := contains_of_right _ _ _ hodk
  have hrootA : (rootAttrs f).all (attrValid (pyR f)) = true := by
    apply all_rootAttrs _ f H.instAttrs H.attrib
    · exact attrValid_intro _ _ _ (nd _ _ (by decide)) (nameValid_plain _ _ (by decide) (by decide)) H.idString
    · exact attrValid_intro _ _ _ (pyDeclOk_default _ H.xmlnsFree) (nameValid_plain _ _ (by decide) (by decide)) H.instanceXmlns
    · exact attrValid_intro _ _ _ (nd _ _ (by decide)) (nameValid_plain _ _ (by decide) (by decide)) H.version
    · exact attrValid_intro _ _ _ (nd _ _ (by decide)) (nameValid_prefixed _ _ "odk".toList (by decide) (by decide) hodkR) H.pfx
    · exact attrValid_intro _ _ _ (nd _ _ (by decide)) (nameValid_prefixed _ _ "odk".toList (by decide) (by decide) hodkR) H.delimiter
  have hroot : validDoc (pyS f) (.elem f.name (rootAttrs f) rk) = true :=
    validDoc_elem hrootA H.name prk H.nameEl
  have hinst : validDoc (pyS f) (pyNode "instance".toList [] [.elem f.name (rootAttrs f) rk]) = true :=
    validDoc_elem0 pyScope_nil (all_nil_valid _) (nameValid_plain _ _ (by decide) (by decide))
      (validKids_cons hroot (validKids_nil _)) (by decide)
  have hmk : validKids (pyS f) (modelKids f itext rk rest) = true := by
    unfold modelKids
    rw [validKids_append, validKids_append, hsub, hitext]
    exact validKids_cons hinst prest
  -- model
  have hmodelA : (modelAttrs f).all (attrValid (pyS f)) = true := by
    have h1 : attrValid (pyS f) ("odk:xforms-version".toList, Pyxv.Gen.currentXformsVersion.toList) = true :=
      attrValid_intro _ _ _ (nd _ _ (by decide)) (nameValid_prefixed _ _ "odk".toList (by decide) (by decide) hodk)
        (by decide +kernel)
    unfold modelAttrs
    cases hef : f.entityFeatures
    · simp only [Bool.false_eq_true, if_false, List.all_cons, List.all_nil, Bool.and_true]; exact h1
    · have hent := pyScope_entities f hef
      have h2 : attrValid (pyS f) ("entities:entities-version".toList, Pyxv.Gen.entitiesOfflineVersion.toList) = true :=
        attrValid_intro _ _ _ (nd _ _ (by decide))
          (nameValid_prefixed _ _ "entities".toList (by decide) (by decide) hent) (by decide +kernel)
      simp only [if_true, List.all_cons, List.all_nil, Bool.and_true, Bool.and_eq_true]; exact ⟨h1, h2⟩
  have hmodel : validDoc (pyS f) (pyNode "model".toList (modelAttrs f) (modelKids f itext rk rest)) = true :=
    validDoc_elem0 (pyScope_modelAttrs f) (all_setAttrs _ _ [] rfl hmodelA)
      (nameValid_plain _ _ (by decide) (by decide)) hmk (by decide)
  have htitle : validDoc (pyS f) (pyNode "h:title".toList [] [.text false f.title]) = true :=
    validDoc_elem0 pyScope_nil (all_nil_valid _)
      (nameValid_prefixed _ _ "h".toList (by decide) (by decide) hh)
      (validKids_cons (by simpa [validDoc] using H.title) (validKids_nil _)) (by decide)
  have hhead : validDoc (pyS f) (pyNode "h:head".toList [] [pyNode "h:title".toList [] [.text false f.title],
      pyNode "model".toList (modelAttrs f) (modelKids f itext rk rest)]) = true :=
    validDoc_elem0 pyScope_nil (all_nil_valid _)
      (nameValid_prefixed _ _ "h".toList (by decide) (by decide) hh)
      (validKids_cons htitle (validKids_cons hmodel (validKids_nil _))) (by decide)
  have hbodyA : (setAttrs [] (optAttr "class" f.style)).all (attrValid (pyS f)) = true := by
    rw [bodyAttrs_eq]
    unfold optAttr
    split
    · rfl
    · simp only [List.all_cons, List.all_nil, Bool.and_true]
      exact attrValid_intro _ _ _ (nd _ _ (by decide)) (nameValid_plain _ _ (by decide) (by decide)) H.style
  have hbody : validDoc (pyS f) (pyNode "h:body".toList (optAttr "class" f.style) bk) = true :=
    validDoc_elem0 (pyScope_bodyAttrs f.style) hbodyA
      (nameValid_prefixed _ _ "h".toList (by decide) (by decide) hh) pbk (by decide)
  have hS : (setAttrs [] (getNsmap f)).filterMap pyDeclared ++ [] = pyS f := List.append_nil _
  refine validDoc_elem ?_ ?_ ?_ (by decide) <;> rw [hS]
  · exact htmlAttrs_valid f H.tokens _
  · exact nameValid_prefixed _ _ "h".toList (by decide) (by decide) hh
  · exact validKids_cons hhead (validKids_cons hbody (validKids_nil _))

#print axioms validator_complete

/-- **soundness and completeness together**: for a valid header and valid, `]`-free, DOM parts the
    conversion tail succeeds *and* the text it returns satisfies C01 as the oracle states it
    -/
theorem valid_input_accepted_and_holds (f : Fields) (itext : Option (List Node)) (rk rest bk : List Node)
    (H : HeaderValid f) (P : PartsValid f itext rk rest bk)
    (hb : noBrTree (assemble f itext rk rest bk) = true)
    (hd : PartsDom itext rk rest bk) (pretty : Bool) :
    validDoc [] (assemble f itext rk rest bk) = true ∧
    holds (renderDoc pretty (assemble f itext rk rest bk)) (normAttrVal f.idString) = true :=
  ⟨validator_complete f itext rk rest bk H P,
   accepted_assembled_holds f itext rk rest bk (validator_complete f itext rk rest bk H P) hb hd pretty⟩

-- non-vacuity: the example header and parts satisfy the hypotheses
theorem exHeaderValid : HeaderValid exFields := by
  constructor <;> decide +kernel
theorem exPartsValid : PartsValid exFields exItext exRootKids exRest exBody :=
  ⟨fun ks h => by cases h; decide +kernel, by decide +kernel, by decide +kernel, by decide +kernel⟩
example : validDoc [] (assemble exFields exItext exRootKids exRest exBody) = true :=
  validator_complete _ _ _ _ _ exHeaderValid exPartsValid

end Pyxv.C01
