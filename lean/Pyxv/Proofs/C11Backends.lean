import Pyxv.Proofs.C11
import Pyxv.Proofs.BackendsExcel
/-!
# C11 ∘ C12: the settings statement starting at the decoded spreadsheet grid

`Pyxv.Backends.Excel.excel_roundtrip` (C12): whatever typed grids the third-party decoder delivers —
integers, floats, booleans, padded text, missing cells, ragged rows — as long as they *show* the
workbook, `xlsx_to_dict` / `xls_to_dict` return the workbook's dict container.  Composed with
`model2_header`, the header statement of C11 starts at the grid.
-/
namespace Pyxv.C11
open Pyxv Pyxv.Settings Pyxv.Backends

/-- `workbook_dict.settings` / `settings_header` of a dict container: row 0 and the header row the
    settings handling starts from (xls2json.py 314-316; header row guessed from the row when absent) -/
def settingsOfBook (b : Book) : Option (List Str × List (Str × Str)) :=
  match dget "settings".toList b with
  | some (.rows (r :: _)) =>
    let row := r.filterMap fun kv => kv.1.map fun k => (k, kv.2)
    (match dget "settings_header".toList b with
     | some (.header (h :: _)) => some (h, row)
     | _ => some (row.map (·.1), row))
  | _ => none

/-- decoded sheets ↦ header: the Excel backend model, then the settings model -/
def fromGrids (sheets : List (Str × Grid)) (ss : List (Str × Option Str)) (a : Args) : M Header :=
  match excelToDict sheets with
  | .ok b => model2 (settingsOfBook b) ss a
  | .error _ => .error (.unsupported "spreadsheet outside the backend model")

/-- **settings_from_grid**: for every workbook inside the Excel guard and *every* list of typed grids
    that show it, an accepted conversion has, at every header location, the value the table prescribes
    for the workbook's settings sheet (dealiased, overlaid with the survey sheet's settings rows) —
    the typing, padding and raggedness of the decoded cells cannot move the header. -/
theorem settings_from_grid (wb : Workbook) (gs : List Grid) (hs : Excel.ShowsAll wb gs)
    (hx : Excel.ExcelOK wb = true) (ss : List (Str × Option Str)) (a : Args) (h : Header)
    (hm : fromGrids (Excel.sheetsOf wb gs) ss a = .ok h) :
    excelToDict (Excel.sheetsOf wb gs) = .ok (toBook wb) ∧
    ∃ st, (match settingsOfBook (toBook wb) with
           | some (hdr, row) => dealias hdr row = .ok st
           | none => st = []) ∧ (keys st).Nodup ∧
      (LocalsDistinct (Spec.rootAttrKeys (sig st)) →
        ∀ L, h.read L = Spec.want (Spec.overlay (sig st) a (surveyAssigns ss)) a L) := by
  have hr := Excel.excel_roundtrip wb gs hs hx
  refine ⟨hr, ?_⟩
  unfold fromGrids at hm
  rw [hr] at hm
  simp only at hm
  cases hsb : settingsOfBook (toBook wb) with
  | none =>
    rw [hsb] at hm
    refine ⟨[], rfl, by simp [keys], fun hK L => ?_⟩
    exact settings_header2 (by simp [keys]) hm hK L
  | some p =>
    obtain ⟨hdr, row⟩ := p
    rw [hsb] at hm
    obtain ⟨st, hst, hn, hall⟩ := model2_header hm
    exact ⟨st, hst, hn, hall⟩

/-! ### non-vacuity -/

def exWb : Workbook :=
  [⟨"survey".toList, ["type".toList, "name".toList, "label".toList], [["text".toList, "q".toList, "Q".toList]]⟩,
   ⟨"settings".toList, ["form_title".toList, "version".toList, "attribute::k".toList],
     [["T".toList, "3".toList, "v".toList]]⟩]

/-- the version as a numeric cell, padded text cells -/
def exGrids : List Grid :=
  [[[.text "type".toList, .text "name".toList, .text "label".toList],
    [.text " text ".toList, .text "q".toList, .text "Q".toList]],
   [[.text "form_title".toList, .text "version".toList, .text "attribute::k".toList],
    [.text "T ".toList, .int 3, .text "v".toList]]]

theorem exWb_shows : Excel.ShowsAll exWb exGrids :=
  .cons ⟨_, rfl, by decide⟩ (.cons ⟨_, rfl, by decide⟩ .nil)

example : Excel.ExcelOK exWb = true ∧
    ∃ h, fromGrids (Excel.sheetsOf exWb exGrids) [] {} = .ok h ∧ h.read .title = some (S "T") ∧
      h.read (.rootAttr (S "version")) = some (S "3") ∧ h.read (.rootAttr (S "k")) = some (S "v") := by
  refine ⟨by decide +kernel, _, rfl, ?_⟩
  decide +kernel

end Pyxv.C11
