import Pyxv.Model.ItextOutputRepeat
import Pyxv.Proofs.C07Output
/-!
# C07, DOM level, repeat contexts: `<output>` substitution with C03's relative / absolute decision

`Pyxv.ItextOut.outDomsR` (Model/ItextOutputRepeat.lean) substitutes the texts of an element at or below a repeat with
the per-element reference table `ctxRefs` built from `Refs.refFor` (C03's model of `_var_repl_function`).  Here:

* the table is *exactly* `refFor`: `ctx_lookup`, `varRepl_refFor` (what the channel puts into `<output value>` for
  `${n}` is `Refs.Out.text` of C03's result for the owning element, for every name);
* `outDomsR` agrees with `outDoms` wherever that was stated (`domEntryR_stated`);
* C06's channel theorem under that table: `value_dom_ctx`; from the final table to the block: `dom_of_valueAt_rep`,
  and per slot `label_dom_rep`, `hint_dom_rep`, `guidance_dom_rep`, `msg_dom_rep`.
-/
namespace Pyxv.C07OutputRep
open Pyxv Pyxv.Itext Pyxv.ItextOut Pyxv.Xml Pyxv.Chan Pyxv.C06 Pyxv.C07Text Pyxv.C07Output

/-! ## 1. the per-element reference table is `Refs.refFor` -/

theorem lookup_filterMap_key {β} (g : Str → Option Str) (n : Str) : ∀ d : List (Str × β),
    lookup n (d.filterMap fun kv => (g kv.1).map fun r => (kv.1, r)) = if (lookup n d).isSome then g n else none
  | [] => by simp [lookup]
  | (k, v) :: rest => by
    have ih := lookup_filterMap_key g n rest
    by_cases hk : n = k
    · subst hk
      cases hg : g n with
      | none => simp [hg, lookup, ih]
      | some r => simp [hg, lookup]
    · cases hg : g k with
      | none => simp [hg, lookup, hk, ih]
      | some r => simp [hg, lookup, hk, ih]

theorem refPath_unknown (es : List Refs.Chain) (c : Refs.Chain) (n : Str)
    (h : lookup n (Refs.setupXpathDict es) = none) : refPath es c n = none := by
  simp [refPath, Refs.refFor, h]

/-- **the table is C03's function**: looking a name up in the reference table of context element `c` gives the path
`Refs.refFor` emits for `${name}` seen from `c` — for every name, resolving or not -/
theorem ctx_lookup (es : List Refs.Chain) (c : Refs.Chain) (n : Str) :
    lookup n (ctxRefsOf es c) = refPath es c n := by
  unfold ctxRefsOf
  rw [lookup_filterMap_key (refPath es c) n]
  cases h : lookup n (Refs.setupXpathDict es) with
  | none => simp [refPath_unknown es c n h]
  | some v => simp

/-- with the call-site flags of `_var_repl_output_function` (no `use_current`, no predicate) nothing is prefixed
by `current()/` -/
theorem refFor_cur {es : List Refs.Chain} {c : Refs.Chain} {n : Str} {cur : Bool} {e : Refs.Emitted}
    (h : Refs.refFor es (some c) n {} = .ok cur e) : cur = false := by
  unfold Refs.refFor at h
  repeat' split at h
  all_goals first
    | (cases h; rfl)
    | (cases h; simp_all)
    | simp_all

/-- **what the channel writes is what C03 emits**: the replacement of `${n}` inside a text owned by `c` is
`Refs.Out.text` of `refFor` (blank, relative or absolute path, blank); an unknown or ambiguous name is the
PyXFormError of both -/
theorem varRepl_refFor (es : List Refs.Chain) (c : Refs.Chain) (n : Str) :
    Chan.varRepl (ctxRefsOf es c) false n = (Refs.refFor es (some c) n {}).text := by
  unfold Chan.varRepl
  rw [ctx_lookup]
  unfold refPath
  cases h : Refs.refFor es (some c) n {} with
  | ok cur e =>
    have := refFor_cur h
    subst this
    simp [Refs.Out.text]
  | unknown _ => simp [Refs.Out.text]
  | ambiguous _ => simp [Refs.Out.text]

/-! ## 2. one `<value>` and one entry -/

/-- **a value with references, owner at or below a repeat**: C06's channel theorem under the owner's table -/
theorem value_dom_ctx (x : Survey) (ch : Refs.Chain) (form : Option Str) (c : Cell) (items : List (Str × Str))
    (hc : CellShape (ctxRefs x ch) c items) (hi : NoInstanceExpr c.text) :
    valueDom (ctxRefs x ch) form c.text =
      if textsValid c.head items then .ok (.elem valueTag (formAttr form) (cellKids true c.head items))
      else .pyxformError :=
  value_dom_refs _ form c items hc hi

/-- **no weakening**: wherever `outDoms` stated a value, `outDomsR` states the same one -/
theorem domEntryR_stated (x : Survey) (p : Str) (fb : Str × Str)
    (hs : (stated x p || !isInfix "${".toList fb.2) = true) :
    domEntryR x p fb = domEntry (nameRefs x) (stated x p) p fb := by
  unfold domEntryR refsFor
  simp only [hs, if_true]
  unfold domEntry
  simp only [hs, Bool.true_or]

/-- the table selected for a text with references owned by an element at or below a repeat -/
theorem refsFor_rep (x : Survey) (p t : Str) (ch : Refs.Chain) (hns : stated x p = false)
    (hd : isInfix "${".toList t = true) (hr : repText t = true) (hc : ctxOf x p = some ch) :
    refsFor x p t = some (ctxRefs x ch) := by
  unfold refsFor
  rw [hns, hd]
  simp [hr, hc]

/-! ## 3. the itext block -/

/-- **from the table to the block, any context**: the final table value `t` of a text-bearing content type stands
in the block as the `<value>` the mixed channel builds from `t` with the table `refsFor` selects -/
theorem dom_of_valueAt_rep (x : Survey) {l p f t : Str} {refs : List (Str × Str)}
    (hv : valueAt (table x) l p f = some t) (hk : textKind p f = true) (hr : refsFor x p t = some refs) :
    ∃ tds, (l, tds) ∈ outDomsR x ∧ ∃ vs, (p, vs) ∈ tds ∧
      (formOf p f, some (valueDom refs (formOf p f) t)) ∈ vs := by
  unfold valueAt at hv
  cases h1 : lookup l (table x) with
  | none => simp [h1] at hv
  | some ps =>
    simp only [h1, Option.bind_some] at hv
    cases h2 : lookup p ps with
    | none => simp [h2] at hv
    | some fs =>
      simp only [h2, Option.bind_some] at hv
      have m1 := mem_of_lookup l _ _ h1
      have m2 := mem_of_lookup p _ _ h2
      have m3 := mem_of_lookup f _ _ hv
      refine ⟨ps.map fun pf => (pf.1, pf.2.filterMap (domEntryR x pf.1)), ?_, ?_⟩
      · exact List.mem_map.mpr ⟨(l, ps), m1, rfl⟩
      · refine ⟨fs.filterMap (domEntryR x p), List.mem_map.mpr ⟨(p, fs), m2, rfl⟩, ?_⟩
        refine List.mem_filterMap.mpr ⟨(f, t), m3, ?_⟩
        unfold domEntryR
        simp only [hr]
        exact dom_entry_text refs true p (f, t) hk (by simp)

/-- what the block (repeat contexts included) holds for a cell with references -/
def RefsValueR (x : Survey) (l p : Str) (form : Option Str) (c : Cell) (items : List (Str × Str)) : Prop :=
  ∃ tds, (l, tds) ∈ outDomsR x ∧ ∃ vs, (p, vs) ∈ tds ∧
    (form, some (if textsValid c.head items
      then Chan.Outcome.ok (.elem valueTag (formAttr form) (cellKids true c.head items))
      else Chan.Outcome.pyxformError)) ∈ vs

theorem long_dom_rep (x : Survey) {l p : Str} {c : Cell} {items refs : List (Str × Str)}
    (hv : valueAt (table x) l p "long".toList = some c.text) (hr : refsFor x p c.text = some refs)
    (hc : CellShape refs c items) (hi : NoInstanceExpr c.text) :
    RefsValueR x l p none c items := by
  obtain ⟨tds, h1, vs, h2, h3⟩ := dom_of_valueAt_rep x hv (textKind_long p) hr
  rw [formOf_long, value_dom_refs _ _ c items hc hi] at h3
  exact ⟨tds, h1, vs, h2, h3⟩

/-- **translated label with references, any context** (inside a repeat: `refs` = the owner's `ctxRefs`, i.e.
`Refs.refFor` per name, by `refsFor_rep` / `ctx_lookup`): chunks verbatim interleaved with one `<output>` per
reference, relative or absolute as C03 decides -/
theorem label_dom_rep {x : Survey} (hx : ((flats x).map (·.xpath)).Nodup) {f : Flat} (hf : f ∈ flats x)
    (hv : visited f = true) {pairs : List (Str × Str)} (hl : f.d.label = .dict pairs) (hok : SlotOk f pairs)
    {l : Str} {c : Cell} {items refs : List (Str × Str)} (hlt : (l, c.text) ∈ pairs)
    (hr : refsFor x (path f.xpath "label") c.text = some refs)
    (hc : CellShape refs c items) (hi : NoInstanceExpr c.text) :
    RefsValueR x l (path f.xpath "label") none c items :=
  long_dom_rep x (value_label hx hf hv hl hok hlt) hr hc hi

/-- **translated hint with references, any context** -/
theorem hint_dom_rep {x : Survey} (hx : ((flats x).map (·.xpath)).Nodup) {f : Flat} (hf : f ∈ flats x)
    (hv : visited f = true) {pairs : List (Str × Str)} (hl : f.d.hint = .dict pairs) (hfun : Functional pairs)
    {l : Str} {c : Cell} {items refs : List (Str × Str)} (hlt : (l, c.text) ∈ pairs)
    (hr : refsFor x (path f.xpath "hint") c.text = some refs)
    (hc : CellShape refs c items) (hi : NoInstanceExpr c.text) :
    RefsValueR x l (path f.xpath "hint") none c items :=
  long_dom_rep x (value_hint hx hf hv hl hfun hlt) hr hc hi

/-- **translated bind message with references, any context** -/
theorem msg_dom_rep {x : Survey} (hx : ((flats x).map (·.xpath)).Nodup) {f : Flat} (hf : f ∈ flats x)
    (hv : visited f = true) {k : String} (hk : k ∈ ["jr:constraintMsg", "jr:requiredMsg", "jr:noAppErrorString"])
    {pairs : List (Str × Str)} (hm : msgOf f.d k = .dict pairs) (hfun : Functional pairs)
    {l : Str} {c : Cell} {items refs : List (Str × Str)} (hlt : (l, c.text) ∈ pairs)
    (hr : refsFor x (path f.xpath k) c.text = some refs)
    (hc : CellShape refs c items) (hi : NoInstanceExpr c.text) :
    RefsValueR x l (path f.xpath k) none c items :=
  long_dom_rep x (value_msg hx hf hv hk hm hfun hlt) hr hc hi

/-- **translated guidance hint with references, any context**: the `<value form="guidance">` under the hint id -/
theorem guidance_dom_rep {x : Survey} (hx : ((flats x).map (·.xpath)).Nodup) {f : Flat} (hf : f ∈ flats x)
    (hv : visited f = true) {pairs : List (Str × Str)} (hl : f.d.guidance = .dict pairs) (hfun : Functional pairs)
    {l : Str} {c : Cell} {items refs : List (Str × Str)} (hlt : (l, c.text) ∈ pairs)
    (hr : refsFor x (path f.xpath "hint") c.text = some refs)
    (hc : CellShape refs c items) (hi : NoInstanceExpr c.text) :
    RefsValueR x l (path f.xpath "hint") (some "guidance".toList) c items := by
  have hk : textKind (path f.xpath "hint") "guidance".toList = true := by
    unfold textKind path
    rw [labelType_path]
    decide
  obtain ⟨tds, h1, vs, h2, h3⟩ := dom_of_valueAt_rep x (value_guidance hx hf hv hl hfun hlt) hk hr
  rw [formOf_guidance, value_dom_refs _ _ c items hc hi] at h3
  exact ⟨tds, h1, vs, h2, h3⟩

end Pyxv.C07OutputRep

namespace Pyxv.C07OutputRep
open Pyxv Pyxv.Itext Pyxv.ItextOut Pyxv.Xml Pyxv.Chan Pyxv.C06 Pyxv.C07Text Pyxv.C07Output

/-! ## 4. Non-vacuity -/

/-- question `n` inside the repeat `r`: its English label names its sibling `b` (relative) and `a` outside the repeat
(absolute); translated hint and guidance hint name `b` -/
def exR : Survey :=
  { defaultLanguage := "default".toList
    lists := []
    root := .node (C07.q .group "data" .none .none .none) [
      .node (C07.q .control "a" (.str "A".toList) .none .none) [],
      .node (C07.q .repeat "r" .none .none .none) [
        .node (C07.q .control "b" (.str "B".toList) .none .none) [],
        .node (C07.q .control "n" (C07.tr [("en", "X ${b} & ${a}!"), ("fr", "Salut")])
                (C07.tr [("fr", "h ${b}")]) (C07.tr [("fr", "${b} g")])) [] ] ] }

def exN : Refs.Chain := [("data".toList, .group), ("r".toList, .rep), ("n".toList, .q)]
def exRC : Cell := ⟨"X ".toList, [("b".toList, " & ".toList), ("a".toList, "!".toList)]⟩
def exRI : List (Str × Str) := [(" ../b ".toList, " & ".toList), (" /data/a ".toList, "!".toList)]
def exRG : Cell := ⟨[], [("b".toList, " g".toList)]⟩
def exRGI : List (Str × Str) := [(" ../b ".toList, " g".toList)]

/-- the owner of the label id is found, the old model left the value unstated, the new one selects the owner's table -/
example : ctxOf exR (path "/data/r/n".toList "label") = some exN ∧
    stated exR (path "/data/r/n".toList "label") = false ∧
    refsFor exR (path "/data/r/n".toList "label") exRC.text = some (ctxRefs exR exN) :=
  ⟨by decide +kernel, by decide +kernel,
   refsFor_rep _ _ _ exN (by decide +kernel) (by decide +kernel) (by decide +kernel) (by decide +kernel)⟩

/-- `ctx_lookup` / `varRepl_refFor` instantiated: sibling inside the repeat → relative, outside → absolute,
unknown → rejected -/
example : lookup "b".toList (ctxRefs exR exN) = some "../b".toList ∧
    Chan.varRepl (ctxRefs exR exN) false "b".toList = some " ../b ".toList ∧
    Chan.varRepl (ctxRefs exR exN) false "a".toList = some " /data/a ".toList ∧
    Chan.varRepl (ctxRefs exR exN) false "zz".toList = none := by
  unfold ctxRefs
  rw [ctx_lookup, varRepl_refFor, varRepl_refFor, varRepl_refFor]
  decide +kernel

theorem exRC_shape : CellShape (ctxRefs exR exN) exRC exRI :=
  ⟨by decide, ⟨by decide, by decide, by decide, by decide, trivial⟩, by decide +kernel,
   ⟨by decide, by decide, trivial⟩, by decide⟩

theorem exRG_shape : CellShape (ctxRefs exR exN) exRG exRGI :=
  ⟨by decide, ⟨by decide, by decide, trivial⟩, by decide +kernel, ⟨by decide, trivial⟩, by decide⟩

/-- `value_dom_ctx` instantiated -/
example : valueDom (ctxRefs exR exN) none exRC.text = .ok (.elem valueTag [] (cellKids true exRC.head exRI)) := by
  rw [value_dom_ctx exR exN none exRC exRI exRC_shape (by decide +kernel)]
  have : textsValid exRC.head exRI = true := by decide +kernel
  simp [this, formAttr]

/-- `dom_of_valueAt_rep` / `long_dom_rep` instantiated: the English label of `n` in the block -/
example : RefsValueR exR "en".toList (path "/data/r/n".toList "label") none exRC exRI :=
  long_dom_rep exR (by decide +kernel) (by decide +kernel) exRC_shape (by decide +kernel)

/-- … and computed by the kernel, as `writexml` serialises it -/
example :
    (outDomsR exR).any (fun lt => lt.1 == "en".toList && lt.2.any fun td =>
      td.1 == "/data/r/n:label".toList && td.2.any fun fv => fv.1 == none &&
        (match fv.2 with
         | some (.ok n) => render [] [] [] n ==
             "<value> X <output value=\" ../b \"/> &amp; <output value=\" /data/a \"/>! </value>".toList
         | _ => false)) = true := by decide +kernel

/-- `label_dom_rep`, `hint_dom_rep`-shape and `guidance_dom_rep` instantiated at the element itself -/
example :
    RefsValueR exR "en".toList (path ((flats exR)[3]'(by decide +kernel)).xpath "label") none exRC exRI ∧
    RefsValueR exR "fr".toList (path ((flats exR)[3]'(by decide +kernel)).xpath "hint")
      (some "guidance".toList) exRG exRGI := by
  have hx : ((flats exR).map (·.xpath)).Nodup := by decide +kernel
  have hm : ((flats exR)[3]'(by decide +kernel)).d.media = none := by decide +kernel
  refine ⟨label_dom_rep hx (List.getElem_mem _) (by decide +kernel)
      (pairs := [("en".toList, exRC.text), ("fr".toList, "Salut".toList)]) (by decide +kernel)
      ⟨by decide, fun m h => by rw [hm] at h; cases h⟩ (by decide) (by decide +kernel) exRC_shape (by decide +kernel), ?_⟩
  exact guidance_dom_rep hx (List.getElem_mem _) (by decide +kernel)
      (pairs := [("fr".toList, exRG.text)]) (by decide +kernel) (by decide) (by decide) (by decide +kernel) exRG_shape
      (by decide +kernel)

/-- `hint_dom_rep` / `msg_dom_rep`: same hypotheses as `hint_dom` / `msg_dom` plus the selected table, witnessed here -/
example : refsFor exR (path "/data/r/n".toList "hint") "h ${b}".toList = some (ctxRefs exR exN) ∧
    refsFor exR (path "/data/r/n".toList "jr:constraintMsg") exRC.text = some (ctxRefs exR exN) :=
  ⟨by decide +kernel, by decide +kernel⟩

/-- `domEntryR_stated` is not vacuous: outside repeats the old entry is kept -/
example : domEntryR exSurvey (path "/data/n".toList "label") ("long".toList, exC.text) =
    domEntry (nameRefs exSurvey) true (path "/data/n".toList "label") ("long".toList, exC.text) := by
  have h := domEntryR_stated exSurvey (path "/data/n".toList "label") ("long".toList, exC.text) (by decide +kernel)
  have hs : stated exSurvey (path "/data/n".toList "label") = true := by decide +kernel
  rw [hs] at h
  exact h

end Pyxv.C07OutputRep
