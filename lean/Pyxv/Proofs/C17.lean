import Pyxv.Proofs.RowsLemmas
/-!
# C17 (structural part) — broken begin/end structure is rejected with a located diagnosis

The mutations of the catalogue that concern the row structure, stated for **every** valid
(balanced) context and every site.  (`parseRows` is total; that the *implementation* raises no
internal exception is established by correspondence, see harness/props/c17.py.)
-/
namespace Pyxv.C17
open Pyxv Pyxv.Form Pyxv.Rows

theorem run_append (a b : List (Nat × RowK)) : ∀ st,
    run st (a ++ b) = (match run st a with | .ok st' => run st' b | .error e => .error e) := by
  induction a with
  | nil => intro st; simp [run]
  | cons r rs ih =>
    intro st
    obtain ⟨n, k⟩ := r
    simp only [List.cons_append, run]
    cases step st n k with
    | ok s1 => simp [ih]
    | error e => simp

/-- a balanced block pushes exactly its items onto whatever state it starts from -/
theorem run_balanced (body : List (Nat × RowK)) (kids : List Item) (h : parseRows body = .ok kids) :
    ∀ st, run st body = .ok (pushAll kids st) := by
  intro st
  rw [parseRows_eq_nest] at h
  unfold nest at h
  have ha := run_items (body.length + 1) body st (by omega)
  cases hres : items (body.length + 1) body with
  | error e => rw [hres] at h; simp at h
  | ok p =>
    obtain ⟨ts, rest⟩ := p
    rw [hres] at h ha
    cases rest with
    | nil =>
      simp at h; subst h
      simp only [Agrees] at ha
      rw [ha.1]; simp [run]
    | cons r rs => obtain ⟨n, k⟩ := r; simp at h

/-- every error of the row loop cites a row of the sheet, and the row is of the offending kind -/
theorem error_located (rows : List (Nat × RowK)) (e : Err) (h : parseRows rows = .error e) :
    (∃ n re, e = .row n re ∧ (n, RowK.bad re) ∈ rows) ∨
    (∃ n ct, e = .unmatchedEnd n ∧ (n, RowK.end_ ct) ∈ rows) ∨
    (∃ ct name, e = .unmatchedBegin ct name) := by
  unfold parseRows at h
  cases hr : run ([], []) rows with
  | error e' =>
    rw [hr] at h; simp at h; subst h
    rcases run_error_located rows _ _ hr with h | h
    · exact Or.inl h
    · exact Or.inr (Or.inl h)
  | ok st =>
    rw [hr] at h
    obtain ⟨root, fs⟩ := st
    cases fs with
    | nil => simp at h
    | cons f fs => simp at h; subst h; exact Or.inr (Or.inr ⟨f.ct, f.name, rfl⟩)

/-- a stray `end` after any balanced prefix is rejected, citing its row -/
theorem stray_end_rejected (pre post : List (Nat × RowK)) (ts : List Item) (n : Nat) (ct : Ctl)
    (h : parseRows pre = .ok ts) :
    parseRows (pre ++ (n, .end_ ct) :: post) = .error (.unmatchedEnd n) := by
  unfold parseRows
  rw [run_append, run_balanced pre ts h]
  simp [pushAll_root, run, step]

/-- an `end` of the wrong kind (group ↔ repeat) is rejected, citing its row -/
theorem mismatched_end_rejected (pre body post : List (Nat × RowK)) (ts kids : List Item)
    (n n' : Nat) (ct ct' : Ctl) (name : Str) (b : Bool) (hp : Option QData)
    (h1 : parseRows pre = .ok ts) (h2 : parseRows body = .ok kids) (hne : ct ≠ ct') :
    parseRows (pre ++ (n, .begin_ ct name b hp) :: (body ++ (n', .end_ ct') :: post))
      = .error (.unmatchedEnd n') := by
  unfold parseRows
  rw [run_append, run_balanced pre ts h1]
  simp only [pushAll_root, run, step]
  generalize pushOpt hp ([] ++ ts, []) = s1
  obtain ⟨r1, f1⟩ := s1
  simp only []
  rw [run_append, run_balanced body kids h2, pushAll_frame]
  simp [run, step, hne]

/-- a `begin` that is never closed is rejected, naming the control -/
theorem unclosed_begin_rejected (pre body : List (Nat × RowK)) (ts kids : List Item)
    (n : Nat) (ct : Ctl) (name : Str) (b : Bool) (hp : Option QData)
    (h1 : parseRows pre = .ok ts) (h2 : parseRows body = .ok kids) :
    parseRows (pre ++ (n, .begin_ ct name b hp) :: body) = .error (.unmatchedBegin ct name) := by
  unfold parseRows
  rw [run_append, run_balanced pre ts h1]
  simp only [pushAll_root, run, step]
  generalize pushOpt hp ([] ++ ts, []) = s1
  obtain ⟨r1, f1⟩ := s1
  simp only []
  rw [run_balanced body kids h2, pushAll_frame]

/-- a row-level error (no type, no name, invalid name, calculate without calculation, …) after a
    prefix that the row loop accepts is reported for exactly that row -/
theorem bad_row_rejected (pre post : List (Nat × RowK)) (st : St) (n : Nat) (e : RowErr)
    (h : run ([], []) pre = .ok st) :
    parseRows (pre ++ (n, .bad e) :: post) = .error (.row n e) := by
  unfold parseRows
  rw [run_append, h]
  simp [run, step]

/-- the matching `end` closes the block: a balanced block inside a balanced context is accepted -/
theorem balanced_accepted (pre body post : List (Nat × RowK)) (ts kids us : List Item)
    (n n' : Nat) (ct : Ctl) (name : Str) (b : Bool)
    (h1 : parseRows pre = .ok ts) (h2 : parseRows body = .ok kids) (h3 : parseRows post = .ok us) :
    parseRows (pre ++ (n, .begin_ ct name b none) :: (body ++ (n', .end_ ct) :: post))
      = .ok (ts ++ .sec ct name b kids :: us) := by
  unfold parseRows
  rw [run_append, run_balanced pre ts h1]
  simp only [pushAll_root, run, step, pushOpt]
  rw [run_append, run_balanced body kids h2, pushAll_frame]
  simp only [run, step, if_true, push]
  rw [run_balanced post us h3, pushAll_root]
  simp

/-! ### Non-vacuity -/
def q (s : String) : QData := { name := s.toList, bind := true, control := true, node := true }
example : (match parseRows [(2, .q (q "a") none), (3, .begin_ .group "g".toList false none),
      (4, .q (q "b") none), (5, .end_ .group)] with | .ok its => its.length == 2 | _ => false) = true := by
  decide +kernel

end Pyxv.C17
