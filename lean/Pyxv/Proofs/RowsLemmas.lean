import Pyxv.Model.Rows
import Pyxv.Proofs.FormLemmas
/-! Facts about row classification used by the property theorems. -/
namespace Pyxv.Rows
open Pyxv Pyxv.Form

def optWf : Option QData → Bool
  | some d => d.wf
  | none => true

/-- every `QData` a classified row carries has an instance node whenever it has a bind or control -/
def rowWf : RowK → Bool
  | .q d o => d.wf && optWf o
  | .begin_ _ _ _ h => optWf h
  | _ => true

theorem qdata_wf (name t : Str) (r : Cells) (d : QData) (h : qdata name t r = some d) : d.wf = true := by
  unfold qdata at h
  split at h
  · simp at h; subst h; simp [QData.wf]
  · split at h
    · simp at h
    · simp at h; subst h; simp [QData.wf]

theorem countHelper_wf (name : Str) (r : Cells) : optWf (countHelper name r) = true := by
  unfold countHelper
  split
  · split <;> simp [optWf, QData.wf]
  · simp [optWf]

theorem classifyBegin_wf (r : Cells) (name c : Str) (k : RowK)
    (h : classifyBegin r name c = .row k) : rowWf k = true := by
  unfold classifyBegin at h
  repeat' split at h
  all_goals first
    | (cases h; done)
    | (injection h with h; subst h; simp [rowWf, countHelper_wf])

theorem classifySelect_wf (lists : List Str) (r : Cells) (name sel ln : Str) (other : Bool) (k : RowK)
    (h : classifySelect lists r name sel ln other = .row k) : rowWf k = true := by
  unfold classifySelect at h
  repeat' split at h
  all_goals first
    | (cases h; done)
    | (injection h with h; subst h; cases other <;> simp [rowWf, optWf, QData.wf])

theorem classifyNamed_wf (lists : List Str) (r : Cells) (t name : Str) (k : RowK)
    (h : classifyNamed lists r t name = .row k) : rowWf k = true := by
  unfold classifyNamed at h
  split at h
  · cases h
  · split at h
    · exact classifyBegin_wf _ _ _ _ h
    · split at h
      · exact classifySelect_wf _ _ _ _ _ _ _ h
      · split at h
        · cases h
        · split at h
          · injection h with h; subst h
            rename_i hq
            simp [rowWf, optWf, qdata_wf _ _ _ _ hq]
          · injection h with h; subst h; simp [rowWf, optWf, QData.wf]

theorem classifyTyped_wf (lists : List Str) (n : Nat) (r : Cells) (t : Str) (k : RowK)
    (h : classifyTyped lists n r t = .row k) : rowWf k = true := by
  unfold classifyTyped at h
  repeat' split at h
  all_goals first
    | (cases h; done)
    | (injection h with h; subst h; simp [rowWf]; done)
    | exact classifyNamed_wf _ _ _ _ _ h

theorem classify_wf (lists : List Str) (n : Nat) (r : Cells) (k : RowK)
    (h : classify lists n r = .row k) : rowWf k = true := by
  unfold classify at h
  dsimp only at h
  repeat' split at h
  all_goals first
    | (cases h; done)
    | (injection h with h; subst h; simp [rowWf]; done)
    | exact classifyTyped_wf _ _ _ _ _ h

end Pyxv.Rows

namespace Pyxv.Rows
open Pyxv Pyxv.Form

theorem wfL_append (a b : List Item) : wfL (a ++ b) = (wfL a && wfL b) := by
  induction a with
  | nil => simp [wfL]
  | cons x xs ih => simp [wfL, ih, Bool.and_assoc]

def stWf (st : St) : Prop := wfL st.1 = true ∧ ∀ f ∈ st.2, wfL f.kids = true

theorem push_wf (t : Item) (st : St) (ht : t.wf = true) (h : stWf st) : stWf (push t st) := by
  obtain ⟨root, fs⟩ := st
  cases fs with
  | nil => simp_all [push, stWf, wfL_append, wfL]
  | cons f fs =>
    simp only [push, stWf] at *
    refine ⟨h.1, ?_⟩
    intro g hg
    simp only [List.mem_cons] at hg
    rcases hg with hg | hg
    · subst hg; simp [wfL_append, wfL, ht, h.2 f (by simp)]
    · exact h.2 g (by simp [hg])

theorem pushOpt_wf (o : Option QData) (st : St) (ho : optWf o = true) (h : stWf st) : stWf (pushOpt o st) := by
  cases o with
  | none => exact h
  | some d => exact push_wf _ _ (by simpa [optWf, Item.wf] using ho) h

theorem step_wf (st st' : St) (n : Nat) (k : RowK) (hk : rowWf k = true) (h : stWf st)
    (hs : step st n k = .ok st') : stWf st' := by
  cases k with
  | skip => simp [step] at hs; subst hs; exact h
  | bad e => simp [step] at hs
  | q d o =>
    simp [step] at hs; subst hs
    simp only [rowWf, Bool.and_eq_true] at hk
    exact pushOpt_wf _ _ hk.2 (push_wf _ _ (by simpa [Item.wf] using hk.1) h)
  | begin_ ct name b hp =>
    simp only [step] at hs
    have h1 := pushOpt_wf hp st (by simpa [rowWf] using hk) h
    generalize pushOpt hp st = s1 at hs h1
    obtain ⟨r1, f1⟩ := s1
    simp at hs; subst hs
    refine ⟨h1.1, ?_⟩
    intro g hg
    simp only [List.mem_cons] at hg
    rcases hg with hg | hg
    · subst hg; simp [wfL]
    · exact h1.2 g hg
  | end_ ct =>
    obtain ⟨root, fs⟩ := st
    cases fs with
    | nil => simp [step] at hs
    | cons f fs =>
      simp only [step] at hs
      split at hs
      · simp at hs; subst hs
        apply push_wf
        · simpa [Item.wf] using h.2 f (by simp)
        · exact ⟨h.1, fun g hg => h.2 g (by simp [hg])⟩
      · simp at hs

theorem run_wf (rows : List (Nat × RowK)) (hr : ∀ p ∈ rows, rowWf p.2 = true) :
    ∀ st st', stWf st → run st rows = .ok st' → stWf st' := by
  induction rows with
  | nil => intro st st' h hs; simp [run] at hs; subst hs; exact h
  | cons r rs ih =>
    intro st st' h hs
    obtain ⟨n, k⟩ := r
    simp only [run] at hs
    cases hstep : step st n k with
    | error e => rw [hstep] at hs; simp at hs
    | ok s1 =>
      rw [hstep] at hs
      exact ih (fun p hp => hr p (by simp [hp])) s1 st'
        (step_wf st s1 n k (hr (n, k) (by simp)) h hstep) hs

theorem parseRows_wf (rows : List (Nat × RowK)) (items : List Item)
    (hr : ∀ p ∈ rows, rowWf p.2 = true) (h : parseRows rows = .ok items) : wfL items = true := by
  unfold parseRows at h
  cases hrun : run ([], []) rows with
  | error e => rw [hrun] at h; simp at h
  | ok st =>
    rw [hrun] at h
    obtain ⟨root, fs⟩ := st
    cases fs with
    | nil =>
      simp at h; subst h
      exact (run_wf rows hr ([], []) (root, []) ⟨by simp [wfL], by simp⟩ hrun).1
    | cons f fs => simp at h

theorem classifyAll_wf (lists : List Str) : ∀ (rows : List Cells) (n : Nat) (ks : List (Nat × RowK)),
    classifyAll lists n rows = .ok ks → ∀ p ∈ ks, rowWf p.2 = true := by
  intro rows
  induction rows with
  | nil => intro n ks h; simp [classifyAll] at h; subst h; simp
  | cons r rs ih =>
    intro n ks h
    simp only [classifyAll] at h
    cases hc : classify lists n r with
    | unsupported w => rw [hc] at h; simp at h
    | row k =>
      rw [hc] at h
      cases hrest : classifyAll lists (n + 1) rs with
      | error w => rw [hrest] at h; simp at h
      | ok ks' =>
        rw [hrest] at h
        simp at h; subst h
        intro p hp
        simp only [List.mem_cons] at hp
        rcases hp with hp | hp
        · subst hp; exact classify_wf lists n r k hc
        · exact ih (n + 1) ks' hrest p hp

theorem classifyNum_wf (lists : List Str) : ∀ (rows : List (Nat × Cells)) (ks : List (Nat × RowK)),
    classifyNum lists rows = .ok ks → ∀ p ∈ ks, rowWf p.2 = true := by
  intro rows
  induction rows with
  | nil => intro ks h; simp [classifyNum] at h; subst h; simp
  | cons r rs ih =>
    intro ks h
    obtain ⟨n, r⟩ := r
    simp only [classifyNum] at h
    cases hc : classify lists n r with
    | unsupported w => rw [hc] at h; simp at h
    | row k =>
      rw [hc] at h
      cases hrest : classifyNum lists rs with
      | error w => rw [hrest] at h; simp at h
      | ok ks' =>
        rw [hrest] at h
        simp at h; subst h
        intro p hp
        simp only [List.mem_cons] at hp
        rcases hp with hp | hp
        · subst hp; exact classify_wf lists n r k hc
        · exact ih ks' hrest p hp

theorem wfL_map_auditQ (l : List Cells) : wfL ((l.map fun _ => auditQ).map Item.q) = true := by
  induction l with
  | nil => simp [wfL]
  | cons x xs ih =>
    simp only [List.map_cons, wfL, Item.wf, ih, Bool.and_true]
    simp [QData.wf, auditQ]

theorem metaKids_wf (rows : List Cells) (settings : Cells) :
    wfL ((metaKids rows settings).map Item.q) = true := by
  unfold metaKids
  simp only [List.map_append, wfL_append, wfL_map_auditQ, Bool.true_and]
  repeat' split
  all_goals simp [wfL, Item.wf, QData.wf]

theorem withMeta_wf (rows : List Cells) (settings : Cells) (items : List Item) (h : wfL items = true) :
    wfL (withMeta rows settings items) = true := by
  unfold withMeta
  simp only []
  split
  · exact h
  · simp [wfL_append, h, wfL, Item.wf, metaKids_wf]

end Pyxv.Rows
