import Pyxv.Proofs.C17Headers
/-!
# C17: alias clash, closed form

`alias_clash_rejected` takes the state left by the accepted prefix as a hypothesis.  Here the state is characterised
by an invariant of the header loop, which gives the statement on header rows alone: two different headers with the
same tokens, the later one not the canonical spelling of its column, all earlier headers non-empty ⇒ never accepted.
-/
namespace Pyxv.C17.Hdr
open Pyxv Pyxv.Headers Pyxv.HeaderRules

/-- invariant of the header loop after the headers `S`: keys of `header_key` and names in `tokens_key` are headers
seen so far, and the tokens of every header seen so far are on record in `tokens_key` -/
def Inv (ud : Bool) (al : List (Str × List Str)) (cols : List Str) (hk : List (Str × List Str))
    (tk : List (List Str × Str)) (S : List Str) : Prop :=
  (∀ k, lookup k hk ≠ none → k ∈ S) ∧ (∀ p ∈ tk, p.2 ∈ S) ∧
  (∀ h ∈ S, ∀ nh toks, processHeader h ud al cols = .ok (nh, toks) → ∃ p ∈ tk, p.1 = toks)

theorem lookup_append_single {β} (k h : Str) (v : β) (l : List (Str × β)) :
    lookup k (l ++ [(h, v)]) = match lookup k l with | some x => some x | none => if k = h then some v else none := by
  induction l with
  | nil => simp [lookup]
  | cons a rest ih =>
    obtain ⟨a1, a2⟩ := a
    simp only [List.cons_append, lookup]
    split
    · rfl
    · exact ih

theorem headerLoop_inv (ud : Bool) (al : List (Str × List Str)) (cols : List Str) (hs : List Str) :
    ∀ (hk : List (Str × List Str)) (tk : List (List Str × Str)) (S : List Str) hk' tk',
      headerLoop ud al cols hs hk tk = .ok (hk', tk') → Inv ud al cols hk tk S → Inv ud al cols hk' tk' (S ++ hs) := by
  induction hs with
  | nil =>
    intro hk tk S hk' tk' h hI
    simp only [headerLoop] at h
    injection h with h; injection h with h1 h2
    subst h1; subst h2
    simpa using hI
  | cons h hs ih =>
    intro hk tk S hk' tk' hrun hI
    obtain ⟨hA, hB, hC⟩ := hI
    have hassoc : S ++ h :: hs = (S ++ [h]) ++ hs := by simp
    rw [hassoc]
    rw [headerLoop.eq_def] at hrun
    simp only at hrun
    split at hrun
    · -- header seen before: state unchanged
      rename_i v hv
      have hin : h ∈ S := hA h (by rw [hv]; simp)
      refine ih hk tk (S ++ [h]) hk' tk' hrun ⟨?_, ?_, ?_⟩
      · intro k hk0; exact List.mem_append_left _ (hA k hk0)
      · intro p hp; exact List.mem_append_left _ (hB p hp)
      · intro x hx nh toks hpx
        rcases List.mem_append.mp hx with hx | hx
        · exact hC x hx nh toks hpx
        · have : x = h := by simpa using hx
          subst this; exact hC x hin nh toks hpx
    · rename_i hnone
      split at hrun
      · cases hrun
      · rename_i nh toks hp
        split at hrun
        · rename_i o hfo
          split at hrun
          · cases hrun
          · -- recorded name replaced by `h`
            obtain ⟨q, hq⟩ : ∃ q, tk.find? (fun p => p.1 = toks) = some q := by
              cases hf : tk.find? (fun p => p.1 = toks) with
              | none => rw [hf] at hfo; cases hfo
              | some q => exact ⟨q, rfl⟩
            have hqmem : q ∈ tk := List.mem_of_find?_eq_some hq
            have hqtok : q.1 = toks := by simpa using List.find?_some hq
            refine ih _ _ (S ++ [h]) hk' tk' hrun ⟨?_, ?_, ?_⟩
            · intro k hk0
              rw [lookup_append_single] at hk0
              cases hl : lookup k hk with
              | some x => exact List.mem_append_left _ (hA k (by rw [hl]; simp))
              | none =>
                rw [hl] at hk0
                by_cases hkh : k = h
                · subst hkh; simp
                · simp [hkh] at hk0
            · intro p hp
              obtain ⟨p0, hp0, hpe⟩ := List.mem_map.mp hp
              by_cases hc : p0.1 = toks
              · simp only [hc, if_true] at hpe; subst hpe; simp
              · simp only [hc, if_false] at hpe; subst hpe; exact List.mem_append_left _ (hB p0 hp0)
            · intro x hx nh' toks' hpx
              rcases List.mem_append.mp hx with hx | hx
              · obtain ⟨p, hpm, hpt⟩ := hC x hx nh' toks' hpx
                by_cases hc : p.1 = toks
                · exact ⟨(toks, h), List.mem_map.mpr ⟨p, hpm, by simp [hc]⟩, by rw [← hpt, hc]⟩
                · exact ⟨p, List.mem_map.mpr ⟨p, hpm, by simp [hc]⟩, hpt⟩
              · have : x = h := by simpa using hx
                subst this
                rw [hp] at hpx
                injection hpx with hpx; injection hpx with _ ht
                subst ht
                exact ⟨(toks, x), List.mem_map.mpr ⟨q, hqmem, by simp [hqtok]⟩, rfl⟩
        · -- new tokens: appended
          refine ih _ _ (S ++ [h]) hk' tk' hrun ⟨?_, ?_, ?_⟩
          · intro k hk0
            rw [lookup_append_single] at hk0
            cases hl : lookup k hk with
            | some x => exact List.mem_append_left _ (hA k (by rw [hl]; simp))
            | none =>
              rw [hl] at hk0
              by_cases hkh : k = h
              · subst hkh; simp
              · simp [hkh] at hk0
          · intro p hp
            rcases List.mem_append.mp hp with hp | hp
            · exact List.mem_append_left _ (hB p hp)
            · have : p = (toks, h) := by simpa using hp
              subst this; simp
          · intro x hx nh' toks' hpx
            rcases List.mem_append.mp hx with hx | hx
            · obtain ⟨p, hpm, hpt⟩ := hC x hx nh' toks' hpx
              exact ⟨p, List.mem_append_left _ hpm, hpt⟩
            · have : x = h := by simpa using hx
              subst this
              rw [hp] at hpx
              injection hpx with hpx; injection hpx with _ ht
              subst ht
              exact ⟨(toks, x), by simp, rfl⟩

/-- **alias clash rejected (closed form)**: in any header row `pre ++ h1 :: mid ++ h2 :: post` whose headers before
`h2` are non-empty and different from `h2`, if `h1` and `h2` have the same tokens and `h2` is not the canonical
spelling of its column (`new_header ≠ h2`), the sheet is never accepted — for every data and every table -/
theorem alias_clash_never_accepted (pre mid post : List Str) (h1 h2 : Str) (rows : List (List (Str × Str)))
    (al : List (Str × List Str)) (cols req : List Str) (dk : Str) (isSurvey : Bool) (nh1 nh2 : Option Str) (toks : List Str)
    (hp1 : processHeader h1 ((pre ++ h1 :: mid ++ h2 :: post).any fun x => isInfix "::".toList x) al cols = .ok (nh1, toks))
    (hp2 : processHeader h2 ((pre ++ h1 :: mid ++ h2 :: post).any fun x => isInfix "::".toList x) al cols = .ok (nh2, toks))
    (hc : nh2 ≠ some h2) (hnew : h2 ∉ pre ++ h1 :: mid) (hne : ∀ x ∈ pre ++ h1 :: mid, x ≠ []) :
    ∃ e, dealiasAndGroupHeaders (pre ++ h1 :: mid ++ h2 :: post) rows al cols req dk isSurvey = .error e := by
  generalize hud : ((pre ++ h1 :: mid ++ h2 :: post).any fun x => isInfix "::".toList x) = ud at hp1 hp2
  unfold dealiasAndGroupHeaders
  simp only [hud]
  rw [headerLoop_append]
  cases hrun : headerLoop ud al cols (pre ++ h1 :: mid) [] [] with
  | error e => exact ⟨e, rfl⟩
  | ok st =>
    obtain ⟨hk, tk⟩ := st
    have hI0 : Inv ud al cols [] [] [] := by
      refine ⟨?_, ?_, ?_⟩
      · intro k hk0; simp [lookup] at hk0
      · intro p hp; cases hp
      · intro h hh; cases hh
    have hI := headerLoop_inv ud al cols (pre ++ h1 :: mid) [] [] [] hk tk hrun hI0
    simp only [List.nil_append] at hI
    obtain ⟨hA, hB, hC⟩ := hI
    obtain ⟨p, hpm, hpt⟩ := hC h1 (by simp) nh1 toks hp1
    have hl : lookup h2 hk = none := by
      cases hl : lookup h2 hk with
      | none => rfl
      | some v => exact absurd (hA h2 (by rw [hl]; simp)) hnew
    obtain ⟨q, hq⟩ : ∃ q, tk.find? (fun p => p.1 = toks) = some q := by
      cases hf : tk.find? (fun p => p.1 = toks) with
      | some q => exact ⟨q, rfl⟩
      | none =>
        have := List.find?_eq_none.mp hf p hpm
        simp [hpt] at this
    obtain ⟨qt, qo⟩ := q
    have hqo : qo ≠ [] := hne qo (hB _ (List.mem_of_find?_eq_some hq))
    simp only
    rw [alias_clash_step ud al cols h2 post hk tk nh2 toks qt qo hl hp2 hq hqo hc]
    exact ⟨_, rfl⟩

/-- every token tuple on record after the header loop comes from one of the headers (or was there before) -/
theorem headerLoop_tokens (P : List Str → Prop) (ud : Bool) (al : List (Str × List Str)) (cols : List Str) (hs : List Str) :
    ∀ (hk : List (Str × List Str)) (tk : List (List Str × Str)) hk' tk',
      headerLoop ud al cols hs hk tk = .ok (hk', tk') → (∀ p ∈ tk, P p.1) →
      (∀ h ∈ hs, ∀ nh toks, processHeader h ud al cols = .ok (nh, toks) → P toks) → ∀ p ∈ tk', P p.1 := by
  induction hs with
  | nil =>
    intro hk tk hk' tk' h hI _
    simp only [headerLoop] at h
    injection h with h; injection h with h1 h2
    subst h2; exact hI
  | cons h hs ih =>
    intro hk tk hk' tk' hrun hI hH
    have hH' : ∀ x ∈ hs, ∀ nh toks, processHeader x ud al cols = .ok (nh, toks) → P toks :=
      fun x hx => hH x (List.mem_cons_of_mem _ hx)
    rw [headerLoop.eq_def] at hrun
    simp only at hrun
    split at hrun
    · exact ih hk tk hk' tk' hrun hI hH'
    · split at hrun
      · cases hrun
      · rename_i nh toks hp
        have hPt : P toks := hH h (by simp) nh toks hp
        split at hrun
        · split at hrun
          · cases hrun
          · refine ih _ _ hk' tk' hrun ?_ hH'
            intro p hp'
            obtain ⟨p0, hp0, hpe⟩ := List.mem_map.mp hp'
            by_cases hc : p0.1 = toks
            · simp only [hc, if_true] at hpe; subst hpe; exact hPt
            · simp only [hc, if_false] at hpe; subst hpe; exact hI p0 hp0
        · refine ih _ _ hk' tk' hrun ?_ hH'
          intro p hp'
          rcases List.mem_append.mp hp' with hp' | hp'
          · exact hI p hp'
          · have : p = (toks, h) := by simpa using hp'
            subst this; exact hPt

theorem mapRows_nonempty (dk : Str) (hk : List (Str × List Str)) (rows : List (List (Str × Str))) (data : List Kvs)
    (h : mapRows dk hk rows = .ok data) (hr : rows ≠ []) : data ≠ [] := by
  cases rows with
  | nil => exact absurd rfl hr
  | cons r rs =>
    simp only [mapRows] at h
    split at h
    · cases h
    · split at h
      · cases h
      · injection h with h; subst h; simp

/-- **missing required column rejected (closed form)**: a sheet with rows (or the survey sheet) none of whose headers
has the required column `r` as its first token after dealiasing is never accepted — every header row, data, table -/
theorem missing_required_never_accepted (header : List Str) (rows : List (List (Str × Str))) (al : List (Str × List Str))
    (cols req : List Str) (dk : Str) (isSurvey : Bool) (r : Str) (hr : r ∈ req)
    (hno : ∀ h ∈ header, ∀ nh toks,
      processHeader h (header.any fun x => isInfix "::".toList x) al cols = .ok (nh, toks) → toks.head? ≠ some r)
    (hdata : rows ≠ [] ∨ isSurvey = true) :
    ∃ e, dealiasAndGroupHeaders header rows al cols req dk isSurvey = .error e := by
  cases hl : headerLoop (header.any fun x => isInfix "::".toList x) al cols header [] [] with
  | error e => exact ⟨e, by unfold dealiasAndGroupHeaders; simp only [hl]⟩
  | ok st =>
    obtain ⟨hk, tk⟩ := st
    cases hm : mapRows dk hk rows with
    | error e => exact ⟨e, by unfold dealiasAndGroupHeaders; simp only [hl, hm]⟩
    | ok data =>
      have hno' : ∀ p ∈ tk, p.1.head? ≠ some r :=
        headerLoop_tokens (fun t => t.head? ≠ some r) _ al cols header [] [] hk tk hl (by intro p hp; cases hp) hno
      have hd : data ≠ [] ∨ isSurvey = true := by
        rcases hdata with h | h
        · exact Or.inl (mapRows_nonempty dk hk rows data hm h)
        · exact Or.inr h
      obtain ⟨missing, _, hmiss⟩ := missing_required_rejected header rows al cols req dk isSurvey hk tk data r hl hm hr hno' hd
      exact ⟨_, hmiss⟩

/-! ### Non-vacuity: the hypotheses hold for `name` … `value` on the choices sheet, with something in between -/
example : (match processHeader "name".toList false listAliases listColumns, processHeader "value".toList false listAliases listColumns with
    | .ok (_, t1), .ok (nh2, t2) => t1 == t2 && nh2 != some "value".toList
    | _, _ => false) = true := by decide +kernel
example : isDup "name" "value"
    (dealiasAndGroupHeaders (L ["list_name", "name", "label", "value", "x"]) [] listAliases listColumns (L ["name"]) "default".toList false) = true := by
  decide +kernel
-- no header of `name, label` has first token `type` on the survey sheet
example : (L ["name", "label"]).all (fun h => match processHeader h false surveyAliases surveyColumns with
    | .ok (_, toks) => toks.head? != some "type".toList | _ => true) = true := by decide +kernel

end Pyxv.C17.Hdr
