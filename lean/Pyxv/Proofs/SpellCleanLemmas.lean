import Pyxv.Model.Spell
/-! Lemmas about `strip`, `collapse`, `unsmart` (cell cleaning) — all by structural induction, using a
recursive characterisation of `rstrip`. -/
namespace Pyxv.Spell
open Pyxv

abbrev sp (c : Char) : Bool := pyIsSpace c

/-! ### `lstrip` / `rstrip` -/

theorem lstrip_cons (c : Char) (r : Str) : lstrip (c :: r) = if sp c then lstrip r else c :: r := by
  simp [lstrip, List.dropWhile]
  split <;> simp_all

theorem dropWhile_append_single (p : Char → Bool) (a : Str) (c : Char) :
    (a ++ [c]).dropWhile p = if a.dropWhile p = [] then (if p c then [] else [c]) else a.dropWhile p ++ [c] := by
  induction a with
  | nil => simp [List.dropWhile]; split <;> simp_all
  | cons x xs ih =>
    by_cases h : p x = true
    · simp only [List.cons_append, List.dropWhile_cons_of_pos h]; exact ih
    · simp only [List.cons_append, List.dropWhile_cons_of_neg h]; simp

/-- recursive characterisation of `rstrip` -/
theorem rstrip_cons (c : Char) (r : Str) :
    rstrip (c :: r) = if rstrip r = [] ∧ sp c = true then [] else c :: rstrip r := by
  simp only [rstrip, List.reverse_cons, dropWhile_append_single]
  by_cases h : (r.reverse.dropWhile pyIsSpace) = []
  · simp only [h, if_true, List.reverse_nil, true_and]
    by_cases hc : pyIsSpace c = true <;> simp [hc]
  · simp [h]

theorem rstrip_nil : rstrip [] = [] := rfl
theorem lstrip_nil : lstrip [] = [] := rfl

theorem rstrip_head (r : Str) (h : rstrip r ≠ []) : (rstrip r).head? = r.head? := by
  cases r with
  | nil => exact absurd rfl h
  | cons d r' => rw [rstrip_cons] at h ⊢; split <;> simp_all

theorem rstrip_idem (s : Str) : rstrip (rstrip s) = rstrip s := by
  induction s with
  | nil => rfl
  | cons c r ih =>
    rw [rstrip_cons]
    split
    · rfl
    · rename_i h
      rw [rstrip_cons, ih]
      simp [h]

theorem rstrip_all_ws (s : Str) (h : ∀ c ∈ s, sp c = true) : rstrip s = [] := by
  induction s with
  | nil => rfl
  | cons c r ih =>
    rw [rstrip_cons, ih (fun x hx => h x (by simp [hx]))]
    simp [h c (by simp)]

theorem lstrip_all_ws (s : Str) (h : ∀ c ∈ s, sp c = true) : lstrip s = [] := by
  induction s with
  | nil => rfl
  | cons c r ih => rw [lstrip_cons]; simp [h c (by simp), ih (fun x hx => h x (by simp [hx]))]

theorem rstrip_append_ws (x post : Str) (h : ∀ c ∈ post, sp c = true) : rstrip (x ++ post) = rstrip x := by
  induction x with
  | nil => simp only [List.nil_append]; rw [rstrip_all_ws post h]; rfl
  | cons c r ih => simp only [List.cons_append]; rw [rstrip_cons, rstrip_cons, ih]

theorem lstrip_ws_append (pre x : Str) (h : ∀ c ∈ pre, sp c = true) : lstrip (pre ++ x) = lstrip x := by
  induction pre with
  | nil => rfl
  | cons c r ih =>
    simp only [List.cons_append]; rw [lstrip_cons]
    simp [h c (by simp), ih (fun x hx => h x (by simp [hx]))]

theorem lstrip_append (x post : Str) (h : lstrip x ≠ []) : lstrip (x ++ post) = lstrip x ++ post := by
  induction x with
  | nil => exact absurd rfl h
  | cons c r ih =>
    simp only [List.cons_append]
    rw [lstrip_cons] at h ⊢
    rw [lstrip_cons]
    by_cases hc : sp c = true
    · simp only [hc, if_true] at h ⊢; exact ih h
    · simp [hc]

theorem lstrip_eq_nil_all_ws (x : Str) (h : lstrip x = []) : ∀ c ∈ x, sp c = true := by
  induction x with
  | nil => simp
  | cons c r ih =>
    rw [lstrip_cons] at h
    by_cases hc : sp c = true
    · simp only [hc, if_true] at h
      intro y hy
      simp only [List.mem_cons] at hy
      rcases hy with rfl | hy
      · exact hc
      · exact ih h y hy
    · simp [hc] at h

/-- **outer whitespace is absorbed** -/
theorem strip_pad (pre x post : Str) (h1 : ∀ c ∈ pre, sp c = true) (h2 : ∀ c ∈ post, sp c = true) :
    strip (pre ++ x ++ post) = strip x := by
  unfold strip
  rw [List.append_assoc, lstrip_ws_append _ _ h1]
  by_cases h : lstrip x = []
  · have hx := lstrip_eq_nil_all_ws x h
    rw [h, lstrip_all_ws (x ++ post) (by
      intro c hc; simp only [List.mem_append] at hc; rcases hc with hc | hc
      · exact hx c hc
      · exact h2 c hc)]
  · rw [lstrip_append x post h, rstrip_append_ws _ _ h2]

theorem lstrip_length_le (r : Str) : (lstrip r).length ≤ r.length := by
  induction r with
  | nil => simp [lstrip]
  | cons c r ih => rw [lstrip_cons]; split <;> simp <;> omega

theorem lstrip_rstrip_comm_head (y : Str) (h : lstrip y = y) : lstrip (rstrip y) = rstrip y := by
  cases y with
  | nil => rfl
  | cons c r =>
    rw [lstrip_cons] at h
    by_cases hc : sp c = true
    · -- then `lstrip r = c :: r`, impossible: `lstrip r` is a suffix of `r`
      simp only [hc, if_true] at h
      have := lstrip_length_le r
      rw [h] at this; simp at this; omega
    · rw [rstrip_cons]; simp only [hc]; simp [lstrip_cons, hc]

theorem lstrip_idem (s : Str) : lstrip (lstrip s) = lstrip s := by
  induction s with
  | nil => rfl
  | cons c r ih =>
    rw [lstrip_cons]
    by_cases hc : sp c = true
    · simp [hc, ih]
    · simp [hc, lstrip_cons]

theorem strip_idem (s : Str) : strip (strip s) = strip s := by
  unfold strip
  rw [lstrip_rstrip_comm_head _ (lstrip_idem s), rstrip_idem]

/-! ### `collapse` -/

theorem collapse_cons (c : Char) (r : Str) :
    collapse (c :: r) = if c = ' ' ∧ r.head? = some ' ' then collapse r else c :: collapse r := by
  rw [collapse]

theorem collapse_ne_nil (x : Str) (h : x ≠ []) : collapse x ≠ [] := by
  induction x with
  | nil => exact absurd rfl h
  | cons c r ih =>
    rw [collapse_cons]
    split
    · rename_i hc
      apply ih
      intro hr; subst hr; simp at hc
    · simp

theorem collapse_head (x : Str) : (collapse x).head? = x.head? := by
  induction x with
  | nil => rfl
  | cons c r ih =>
    rw [collapse_cons]
    split
    · rename_i hc; rw [ih, hc.2, hc.1]; rfl
    · rfl

theorem sp_space : sp ' ' = true := by decide

theorem collapse_nil : collapse [] = [] := rfl

theorem lstrip_collapse (x : Str) : lstrip (collapse x) = collapse (lstrip x) := by
  induction x with
  | nil => rfl
  | cons c r ih =>
    by_cases hc : sp c = true
    · have e2 : lstrip (c :: r) = lstrip r := by rw [lstrip_cons]; simp [hc]
      rw [e2, collapse_cons]
      split
      · exact ih
      · rw [lstrip_cons]; simp [hc, ih]
    · have hne : c ≠ ' ' := by intro e; subst e; exact hc sp_space
      have e1 : collapse (c :: r) = c :: collapse r := by rw [collapse_cons]; simp [hne]
      have e2 : lstrip (c :: r) = c :: r := by rw [lstrip_cons]; simp [hc]
      rw [e1, e2, e1, lstrip_cons]; simp [hc]

theorem rstrip_collapse (x : Str) : rstrip (collapse x) = collapse (rstrip x) := by
  induction x with
  | nil => rfl
  | cons c r ih =>
    rw [rstrip_cons]
    by_cases h0 : rstrip r = [] ∧ sp c = true
    · simp only [h0, and_self, if_true]
      rw [collapse_cons]
      have hr : rstrip (collapse r) = [] := by rw [ih, h0.1]; rfl
      rw [collapse_nil]
      split
      · exact hr
      · rw [rstrip_cons]; simp [hr, h0.2]
    · simp only [h0, if_false]
      by_cases hr : rstrip r = []
      · have hc : ¬ sp c = true := fun hc => h0 ⟨hr, hc⟩
        have hne : c ≠ ' ' := by intro e; subst e; exact hc sp_space
        rw [collapse_cons, collapse_cons]
        simp only [hne, false_and, if_false]
        rw [rstrip_cons, ih, hr, collapse_nil]
        simp [hc]
      · have hh : (rstrip r).head? = r.head? := rstrip_head r hr
        rw [collapse_cons, collapse_cons, hh]
        split
        · exact ih
        · rw [rstrip_cons, ih]
          have : collapse (rstrip r) ≠ [] := collapse_ne_nil _ hr
          simp [this]

/-- stripping and collapsing inner runs of spaces commute -/
theorem strip_collapse (x : Str) : strip (collapse x) = collapse (strip x) := by
  unfold strip; rw [lstrip_collapse, rstrip_collapse]

theorem collapse_idem (x : Str) : collapse (collapse x) = collapse x := by
  induction x with
  | nil => rfl
  | cons c r ih =>
    rw [collapse_cons]
    split
    · exact ih
    · rename_i h
      rw [collapse_cons, collapse_head, ih]
      simp [h]

end Pyxv.Spell

namespace Pyxv.Spell
open Pyxv

/-! ### `unsmart` as a character map -/

/-- a smart-quote table whose replacements are single, non-whitespace characters that are not
    themselves replaced, and whose keys are not whitespace (decidable; `decide` for the real table) -/
def tabOK (tab : List (Char × Str)) : Bool :=
  tab.all fun (k, r) =>
    match r with
    | [x] => !sp k && !sp x && (tab.find? (fun p => p.1 = x)).isNone
    | _ => false

def gq (tab : List (Char × Str)) (c : Char) : Char :=
  match unsmartChar tab c with
  | [x] => x
  | _ => c

theorem unsmartChar_cases (tab : List (Char × Str)) (h : tabOK tab = true) (c : Char) :
    unsmartChar tab c = [gq tab c] ∧ sp (gq tab c) = sp c ∧ unsmartChar tab (gq tab c) = [gq tab c] := by
  unfold gq unsmartChar
  cases hf : tab.find? (fun p => p.1 = c) with
  | none => simp [hf]
  | some p =>
    obtain ⟨k, r⟩ := p
    have hm := List.mem_of_find?_eq_some hf
    have hk : k = c := by simpa using List.find?_some hf
    have := List.all_eq_true.mp h (k, r) hm
    simp only at this
    match r, this with
    | [x], this =>
      simp only [Bool.and_eq_true, Bool.not_eq_eq_eq_not, Bool.not_true, Option.isNone_iff_eq_none] at this
      obtain ⟨⟨h1, h2⟩, h3⟩ := this
      subst hk
      simp [h1, h2, h3]

theorem unsmartWith_eq_map (tab : List (Char × Str)) (h : tabOK tab = true) (s : Str) :
    unsmartWith tab s = s.map (gq tab) := by
  induction s with
  | nil => rfl
  | cons c r ih =>
    simp only [unsmartWith, List.flatMap_cons, List.map_cons] at ih ⊢
    rw [(unsmartChar_cases tab h c).1, ih]; rfl

variable (g : Char → Char)

theorem lstrip_map (hg : ∀ c, sp (g c) = sp c) (s : Str) : lstrip (s.map g) = (lstrip s).map g := by
  induction s with
  | nil => rfl
  | cons c r ih =>
    simp only [List.map_cons]; rw [lstrip_cons, lstrip_cons, hg]
    split <;> simp [ih]

theorem rstrip_map (hg : ∀ c, sp (g c) = sp c) (s : Str) : rstrip (s.map g) = (rstrip s).map g := by
  induction s with
  | nil => rfl
  | cons c r ih =>
    simp only [List.map_cons]; rw [rstrip_cons, rstrip_cons, hg, ih]
    by_cases h : rstrip r = [] ∧ sp c = true
    · simp [h]
    · have : ¬ (List.map g (rstrip r) = [] ∧ sp c = true) := by simpa using h
      simp [h, this]

theorem collapse_map (hg : ∀ c, g c = ' ' ↔ c = ' ') (s : Str) : collapse (s.map g) = (collapse s).map g := by
  induction s with
  | nil => rfl
  | cons c r ih =>
    simp only [List.map_cons]; rw [collapse_cons, collapse_cons, ih]
    have hh : ((r.map g).head? = some ' ') ↔ (r.head? = some ' ') := by
      cases r with
      | nil => simp
      | cons d r' => simp [hg d]
    by_cases h : c = ' ' ∧ r.head? = some ' '
    · have : g c = ' ' ∧ (r.map g).head? = some ' ' := ⟨(hg c).mpr h.1, hh.mpr h.2⟩
      rw [if_pos h, if_pos this]
    · have : ¬ (g c = ' ' ∧ (r.map g).head? = some ' ') := by
        rintro ⟨a, b⟩; exact h ⟨(hg c).mp a, hh.mp b⟩
      rw [if_neg h, if_neg this]; rfl

theorem gq_space_iff (tab : List (Char × Str)) (h : tabOK tab = true) (c : Char) : gq tab c = ' ' ↔ c = ' ' := by
  obtain ⟨h1, h2, h3⟩ := unsmartChar_cases tab h c
  constructor
  · intro e
    -- a key is not whitespace and is mapped to a non-whitespace character
    have hs : sp c = true := by rw [← h2, e]; exact sp_space
    unfold gq unsmartChar at e
    cases hf : tab.find? (fun p => p.1 = c) with
    | none => simpa [hf] using e
    | some p =>
      obtain ⟨k, r⟩ := p
      have hm := List.mem_of_find?_eq_some hf
      have hk : k = c := by simpa using List.find?_some hf
      have := List.all_eq_true.mp h (k, r) hm
      simp only at this
      match r, this with
      | [x], this =>
        simp only [Bool.and_eq_true, Bool.not_eq_eq_eq_not, Bool.not_true] at this
        subst hk; rw [this.1.1] at hs; cases hs
  · intro e; subst e
    unfold gq unsmartChar
    cases hf : tab.find? (fun p => p.1 = ' ') with
    | none => simp
    | some p =>
      obtain ⟨k, r⟩ := p
      have hm := List.mem_of_find?_eq_some hf
      have hk : k = ' ' := by simpa using List.find?_some hf
      have := List.all_eq_true.mp h (k, r) hm
      simp only at this
      match r, this with
      | [x], this =>
        simp only [Bool.and_eq_true, Bool.not_eq_eq_eq_not, Bool.not_true] at this
        subst hk; rw [sp_space] at this; cases this.1.1

/-- on a well-formed table, cleaning = strip, collapse, then map each character -/
theorem cleanWith_eq (tab : List (Char × Str)) (h : tabOK tab = true) (s : Str) :
    unsmartWith tab (collapse (strip s)) = collapse (strip (s.map (gq tab))) := by
  have hg := fun c => (unsmartChar_cases tab h c).2.1
  rw [unsmartWith_eq_map tab h]
  unfold strip
  rw [lstrip_map _ hg, rstrip_map _ hg, collapse_map _ (gq_space_iff tab h)]

theorem gq_idem (tab : List (Char × Str)) (h : tabOK tab = true) (c : Char) : gq tab (gq tab c) = gq tab c := by
  have := (unsmartChar_cases tab h c).2.2
  have e : ∀ d x, unsmartChar tab d = [x] → gq tab d = x := by
    intro d x hd; unfold gq; rw [hd]
  exact e _ _ this

end Pyxv.Spell
