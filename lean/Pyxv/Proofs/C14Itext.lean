import Pyxv.Proofs.ItextLemmas
import Pyxv.Model.Process
/-!
# C14 over the itext table (`Pyxv.Itext`): `_translations` is not reset between `xml()` calls

`Survey.xml_model` runs `_setup_translations`, `_setup_media`, `_add_empty_translations` on the
*same* `self._translations` every time.  In `Pyxv.Itext` the first two are `es.foldl ins T` for the
entry list `es = entries dl lists fs` (a function of the immutable tree) and the third is `pad lists`.
First call: `T₁ = pad lists (es.foldl ins [])`; second call: `pad lists (es.foldl ins T₁)`.
-/
namespace Pyxv.C14
open Pyxv Pyxv.Itext

/-! ### writes that find what they write -/

theorem upd_id {β} (k : Str) (f : Option β → β) : ∀ (l : List (Str × β)) (v : β),
    lookup k l = some v → f (some v) = v → upd k f l = l
  | [], _, h, _ => by simp [lookup] at h
  | (k', v') :: rest, v, h, hf => by
    by_cases hk : k' = k
    · subst hk
      simp only [lookup, if_true, Option.some.injEq] at h
      subst h
      simp [upd, hf]
    · have hk' : ¬ k = k' := fun e => hk e.symm
      simp only [lookup, hk', if_false] at h
      simp [upd, hk, upd_id k f rest v h hf]

/-- the leaf `_translations[l][p][f]` -/
def valAt (T : Table) (l p f : Str) : Option Bool :=
  (lookup l T).bind fun ps => (lookup p ps).bind fun fs => lookup f fs

/-- the table already holds what the entry assigns -/
def Has (T : Table) (e : Ent) : Prop := valAt T e.lang e.path e.form = some e.dash

theorem ins_id {T : Table} {e : Ent} (h : Has T e) : ins T e = T := by
  unfold Has valAt at h
  cases h1 : lookup e.lang T with
  | none => simp [h1] at h
  | some ps =>
    cases h2 : lookup e.path ps with
    | none => simp [h1, h2] at h
    | some fs =>
      simp only [h1, h2, Option.bind_some] at h
      unfold ins
      apply upd_id _ _ _ ps h1
      simp only [Option.getD_some]
      apply upd_id _ _ _ fs h2
      simp only [Option.getD_some]
      exact upd_id _ _ _ e.dash h rfl

theorem foldl_ins_id : ∀ (es : List Ent) (T : Table), (∀ e ∈ es, Has T e) → es.foldl ins T = T
  | [], _, _ => rfl
  | e :: es, T, h => by
    simp only [List.foldl_cons]
    rw [ins_id (h e (List.mem_cons_self ..))]
    exact foldl_ins_id es T fun e' he' => h e' (List.mem_cons_of_mem _ he')

theorem valAt_ins_self (T : Table) (e : Ent) : valAt (ins T e) e.lang e.path e.form = some e.dash := by
  simp [valAt, ins, lookup_upd]

theorem valAt_ins_other (T : Table) (e : Ent) (l p f : Str)
    (h : ¬ (l = e.lang ∧ p = e.path ∧ f = e.form)) : valAt (ins T e) l p f = valAt T l p f := by
  unfold valAt ins
  rw [lookup_upd]
  by_cases hl : l = e.lang
  · subst hl
    simp only [if_true, Option.bind_some]
    rw [lookup_upd]
    by_cases hp : p = e.path
    · subst hp
      simp only [if_true, Option.bind_some]
      rw [lookup_upd]
      have hf : ¬ f = e.form := fun hf => h ⟨rfl, rfl, hf⟩
      simp only [hf, if_false]
      cases lookup e.lang T with
      | none => simp [lookup]
      | some ps =>
        simp only [Option.getD_some, Option.bind_some]
        cases hq : lookup e.path ps with
        | none => simp [lookup]
        | some fs => simp
    · simp only [hp, if_false]
      cases lookup e.lang T with
      | none => simp [lookup]
      | some ps => simp
  · simp [hl]

/-- no leaf is assigned two different values by the entry list -/
def NoConflict (es : List Ent) : Prop :=
  ∀ e ∈ es, ∀ e' ∈ es, e.lang = e'.lang → e.path = e'.path → e.form = e'.form → e.dash = e'.dash

theorem has_preserved {e : Ent} : ∀ (xs : List Ent) (T : Table), Has T e →
    (∀ e' ∈ xs, e.lang = e'.lang → e.path = e'.path → e.form = e'.form → e.dash = e'.dash) →
    Has (xs.foldl ins T) e
  | [], _, h, _ => h
  | x :: xs, T, h, hc => by
    simp only [List.foldl_cons]
    apply has_preserved xs (ins T x) _ fun e' he' => hc e' (List.mem_cons_of_mem _ he')
    unfold Has at h ⊢
    by_cases hk : e.lang = x.lang ∧ e.path = x.path ∧ e.form = x.form
    · rw [hk.1, hk.2.1, hk.2.2, valAt_ins_self, hc x (List.mem_cons_self ..) hk.1 hk.2.1 hk.2.2]
    · rw [valAt_ins_other T x _ _ _ hk]; exact h

theorem has_foldl : ∀ (es : List Ent) (T : Table), NoConflict es → ∀ e ∈ es, Has (es.foldl ins T) e
  | [], _, _, _, he => by cases he
  | x :: xs, T, hn, e, he => by
    simp only [List.foldl_cons]
    have hn' : NoConflict xs := fun a ha b hb => hn a (List.mem_cons_of_mem _ ha) b (List.mem_cons_of_mem _ hb)
    rcases List.mem_cons.1 he with h | h
    · subst h
      exact has_preserved xs (ins T e) (valAt_ins_self T e)
        fun e' he' => hn e (List.mem_cons_self ..) e' (List.mem_cons_of_mem _ he')
    · exact has_foldl xs (ins T x) hn' e h

/-! ### padding keeps what is there -/

theorem lookup_map_snd {β γ} (g : Str × β → γ) (k : Str) : ∀ (l : List (Str × β)),
    lookup k (l.map fun kv => (kv.1, g kv)) = (l.find? fun kv => k = kv.1).map g
  | [] => rfl
  | (k', v) :: rest => by
    by_cases hk : k = k'
    · simp [lookup, hk]
    · simp [lookup, hk, lookup_map_snd g k rest]

theorem lookup_eq_find {β} (k : Str) : ∀ (l : List (Str × β)),
    lookup k l = (l.find? fun kv => k = kv.1).map (·.2)
  | [] => rfl
  | (k', v) :: rest => by
    by_cases hk : k = k'
    · simp [lookup, hk]
    · simp [lookup, hk, lookup_eq_find k rest]

theorem lookup_keep (f : Str) (d : Bool) : ∀ (cs : List (Str × Unit)) (fs : Forms), lookup f fs = some d →
    lookup f (cs.foldl (fun fs c => upd c.1 (fun o3 => o3.getD true) fs) fs) = some d
  | [], _, h => h
  | c :: cs, fs, h => by
    simp only [List.foldl_cons]
    apply lookup_keep f d cs
    rw [lookup_upd]
    by_cases hf : f = c.1
    · subst hf; simp [h]
    · simp [hf, h]

theorem padLang_keep (p f : Str) (d : Bool) : ∀ (P : List (Str × List (Str × Unit))) (ps : Paths),
    (∃ fs, lookup p ps = some fs ∧ lookup f fs = some d) →
    ∃ fs, lookup p (padLang P ps) = some fs ∧ lookup f fs = some d
  | [], _, h => h
  | pc :: P, ps, ⟨fs, h1, h2⟩ => by
    unfold padLang
    simp only [List.foldl_cons]
    apply padLang_keep p f d P
    rw [lookup_upd]
    by_cases hp : p = pc.1
    · subst hp
      simp only [if_true, h1, Option.getD_some]
      exact ⟨_, rfl, lookup_keep f d pc.2 fs h2⟩
    · simp only [hp, if_false]
      exact ⟨fs, h1, h2⟩

theorem has_pad (lists : List CList) {T : Table} {e : Ent} (h : Has T e) : Has (pad lists T) e := by
  unfold Has valAt at h ⊢
  cases h1 : lookup e.lang T with
  | none => simp [h1] at h
  | some ps =>
    simp only [h1, Option.bind_some] at h
    have hl : lookup e.lang (pad lists T) = some (padLang (allPathsC lists T) ps) := by
      unfold pad
      rw [lookup_map_snd (fun lps => padLang (allPathsC lists T) lps.2)]
      rw [lookup_eq_find] at h1
      cases hf : List.find? (fun kv => e.lang = kv.1) T with
      | none => simp [hf] at h1
      | some kv => simp only [hf, Option.map_some, Option.some.injEq] at h1 ⊢; rw [h1]
    rw [hl]
    simp only [Option.bind_some]
    cases h2 : lookup e.path ps with
    | none => simp [h2] at h
    | some fs =>
      simp only [h2, Option.bind_some] at h
      obtain ⟨fs', hp, hf⟩ := padLang_keep e.path e.form e.dash (allPathsC lists T) ps ⟨fs, h2, h⟩
      simp [hp, hf]

/-- **Re-running `_setup_translations` and `_setup_media` on the padded table of the first `xml()`
changes nothing** — neither a value nor the position of any language, path or content type.
Guard: the entry list assigns no leaf two different values (`NoConflict`; with a conflict the last
assignment wins in both passes and the statement still holds, but this proof does not cover it). -/
theorem second_setup_noop (lists : List CList) (es : List Ent) (hn : NoConflict es) :
    es.foldl ins (pad lists (setup es)) = pad lists (setup es) :=
  foldl_ins_id es _ fun e he => has_pad lists (has_foldl es [] hn e he)

/-! ### the language set of the generated "other" choice (xls2json.py:1066-1078) -/

theorem upd_comm {β} {k1 k2 : Str} (hne : k1 ≠ k2) (f g : Option β → β) : ∀ (l : List (Str × β)),
    k1 ∈ keys l → k2 ∈ keys l → upd k1 f (upd k2 g l) = upd k2 g (upd k1 f l)
  | [], h, _ => by simp [keys] at h
  | (k, v) :: rest, h1, h2 => by
    by_cases hk1 : k = k1
    · subst hk1
      have : ¬ k = k2 := hne
      simp [upd, this]
    · by_cases hk2 : k = k2
      · subst hk2
        simp [upd, hk1]
      · have h1' : k1 ∈ keys rest := by
          simp only [keys, List.map_cons, List.mem_cons] at h1
          rcases h1 with h | h
          · exact absurd h.symm hk1
          · exact h
        have h2' : k2 ∈ keys rest := by
          simp only [keys, List.map_cons, List.mem_cons] at h2
          rcases h2 with h | h
          · exact absurd h.symm hk2
          · exact h
        simp [upd, hk1, hk2, upd_comm hne f g rest h1' h2']

/-- the entries of the generated choice: label `{lang: "Other" for lang in <set>}`, in set order -/
def otherEntries (id : Str) (langs : List Str) : List Ent := langs.map fun l => ⟨l, id, "long".toList, false⟩

theorem keys_ins (T : Table) (e : Ent) (a : Str) : a ∈ keys T → a ∈ keys (ins T e) := by
  intro h; unfold ins; rw [mem_keys_upd]; exact Or.inl h

theorem ins_comm_langs (T : Table) (id : Str) {l1 l2 : Str} (h1 : l1 ∈ keys T) (h2 : l2 ∈ keys T) :
    ins (ins T ⟨l1, id, "long".toList, false⟩) ⟨l2, id, "long".toList, false⟩
      = ins (ins T ⟨l2, id, "long".toList, false⟩) ⟨l1, id, "long".toList, false⟩ := by
  by_cases hne : l1 = l2
  · subst hne; rfl
  · unfold ins
    exact (upd_comm hne _ _ T h1 h2).symm

theorem other_perm {id : Str} {a b : List Str} (hp : a.Perm b) : ∀ (T : Table), (∀ l ∈ a, l ∈ keys T) →
    (otherEntries id a).foldl ins T = (otherEntries id b).foldl ins T := by
  induction hp with
  | nil => intro _ _; rfl
  | cons x _ ih =>
    intro T h
    simp only [otherEntries, List.map_cons, List.foldl_cons]
    exact ih _ fun l hl => keys_ins _ _ _ (h l (List.mem_cons_of_mem _ hl))
  | swap x y l =>
    intro T h
    simp only [otherEntries, List.map_cons, List.foldl_cons]
    rw [ins_comm_langs T id (h y (List.mem_cons_self ..)) (h x (List.mem_cons_of_mem _ (List.mem_cons_self ..)))]
  | trans h1 _ ih1 ih2 =>
    intro T h
    rw [ih1 T h, ih2 T fun l hl => h l (h1.mem_iff.2 hl)]

/-- **or_other on a translated list**: the label dict of the generated choice is built from a Python
`set` of languages.  Every one of them already has a translation when the choice is reached (the
earlier choices of the same list carry them), so for every iteration order of that set the table
`_translations` — hence the itext block, in content *and* order — is the same. -/
theorem orOther_lang_order_irrelevant (π : Process.SetOrder) (pre post : List Ent) (id : Str) (langs : List Str)
    (hpresent : ∀ l ∈ langs, l ∈ keys (pre.foldl ins [])) :
    setup (pre ++ otherEntries id (π.iter langs) ++ post) = setup (pre ++ otherEntries id langs ++ post) := by
  unfold setup
  simp only [List.foldl_append]
  rw [other_perm (π.perm langs) _ fun l hl => hpresent l ((π.perm langs).mem_iff.1 hl)]

end Pyxv.C14
