import Pyxv.Proofs.ItextLemmas
import Pyxv.Model.Process
/-!
# C14 over the itext table (`Pyxv.Itext`): `_translations` is not reset between `xml()` calls

`Survey.xml_model` runs `_setup_translations`, `_setup_media`, `_add_empty_translations` on the
*same* `self._translations` every time.  In `Pyxv.Itext` the first two are `es.foldl ins T` for the
entry list `es = entries dl lists fs` (a function of the immutable tree) and the third is `pad lists`.
First call: `T₁ = pad lists (es.foldl ins [])`; second call: `pad lists (es.foldl ins T₁)`.
-/
namespace Pyxv.C14
open Pyxv Pyxv.Itext

/-! ### writes that find what they write -/

theorem upd_id {β} (k : Str) (f : Option β → β) : ∀ (l : List (Str × β)) (v : β),
    lookup k l = some v → f (some v) = v → upd k f l = l
  | [], _, h, _ => by simp [lookup] at h
  | (k', v') :: rest, v, h, hf => by
    by_cases hk : k' = k
    · subst hk
      simp only [lookup, if_true, Option.some.injEq] at h
      subst h
      simp [upd, hf]
    · have hk' : ¬ k = k' := fun e => hk e.symm
      simp only [lookup, hk', if_false] at h
      simp [upd, hk, upd_id k f rest v h hf]

/-- the leaf `_translations[l][p][f]` -/
def valAt (T : Table) (l p f : Str) : Option Str :=
  (lookup l T).bind fun ps => (lookup p ps).bind fun fs => lookup f fs

/-- the table already holds what the entry assigns -/
def Has (T : Table) (e : Ent) : Prop := valAt T e.lang e.path e.form = some e.text

theorem ins_id {T : Table} {e : Ent} (h : Has T e) : ins T e = T := by
  unfold Has valAt at h
  cases h1 : lookup e.lang T with
  | none => simp [h1] at h
  | some ps =>
    cases h2 : lookup e.path ps with
    | none => simp [h1, h2] at h
    | some fs =>
      simp only [h1, h2, Option.bind_some] at h
      unfold ins
      apply upd_id _ _ _ ps h1
      simp only [Option.getD_some]
      apply upd_id _ _ _ fs h2
      simp only [Option.getD_some]
      exact upd_id _ _ _ e.text h rfl

theorem foldl_ins_id : ∀ (es : List Ent) (T : Table), (∀ e ∈ es, Has T e) → es.foldl ins T = T
  | [], _, _ => rfl
  | e :: es, T, h => by
    simp only [List.foldl_cons]
    rw [ins_id (h e (List.mem_cons_self ..))]
    exact foldl_ins_id es T fun e' he' => h e' (List.mem_cons_of_mem _ he')

theorem valAt_ins_self (T : Table) (e : Ent) : valAt (ins T e) e.lang e.path e.form = some e.text := by
  simp [valAt, ins, lookup_upd]

theorem valAt_ins_other (T : Table) (e : Ent) (l p f : Str)
    (h : ¬ (l = e.lang ∧ p = e.path ∧ f = e.form)) : valAt (ins T e) l p f = valAt T l p f := by
  unfold valAt ins
  rw [lookup_upd]
  by_cases hl : l = e.lang
  · subst hl
    simp only [if_true, Option.bind_some]
    rw [lookup_upd]
    by_cases hp : p = e.path
    · subst hp
      simp only [if_true, Option.bind_some]
      rw [lookup_upd]
      have hf : ¬ f = e.form := fun hf => h ⟨rfl, rfl, hf⟩
      simp only [hf, if_false]
      cases lookup e.lang T with
      | none => simp [lookup]
      | some ps =>
        simp only [Option.getD_some, Option.bind_some]
        cases hq : lookup e.path ps with
        | none => simp [lookup]
        | some fs => simp
    · simp only [hp, if_false]
      cases lookup e.lang T with
      | none => simp [lookup]
      | some ps => simp
  · simp [hl]

/-- no leaf is assigned two different values by the entry list -/
def NoConflict (es : List Ent) : Prop :=
  ∀ e ∈ es, ∀ e' ∈ es, e.lang = e'.lang → e.path = e'.path → e.form = e'.form → e.text = e'.text

theorem has_preserved {e : Ent} : ∀ (xs : List Ent) (T : Table), Has T e →
    (∀ e' ∈ xs, e.lang = e'.lang → e.path = e'.path → e.form = e'.form → e.text = e'.text) →
    Has (xs.foldl ins T) e
  | [], _, h, _ => h
  | x :: xs, T, h, hc => by
    simp only [List.foldl_cons]
    apply has_preserved xs (ins T x) _ fun e' he' => hc e' (List.mem_cons_of_mem _ he')
    unfold Has at h ⊢
    by_cases hk : e.lang = x.lang ∧ e.path = x.path ∧ e.form = x.form
    · rw [hk.1, hk.2.1, hk.2.2, valAt_ins_self, hc x (List.mem_cons_self ..) hk.1 hk.2.1 hk.2.2]
    · rw [valAt_ins_other T x _ _ _ hk]; exact h

theorem has_foldl : ∀ (es : List Ent) (T : Table), NoConflict es → ∀ e ∈ es, Has (es.foldl ins T) e
  | [], _, _, _, he => by cases he
  | x :: xs, T, hn, e, he => by
    simp only [List.foldl_cons]
    have hn' : NoConflict xs := fun a ha b hb => hn a (List.mem_cons_of_mem _ ha) b (List.mem_cons_of_mem _ hb)
    rcases List.mem_cons.1 he with h | h
    · subst h
      exact has_preserved xs (ins T e) (valAt_ins_self T e)
        fun e' he' => hn e (List.mem_cons_self ..) e' (List.mem_cons_of_mem _ he')
    · exact has_foldl xs (ins T x) hn' e h

/-! ### padding keeps what is there -/

theorem lookup_map_snd {β γ} (g : Str × β → γ) (k : Str) : ∀ (l : List (Str × β)),
    lookup k (l.map fun kv => (kv.1, g kv)) = (l.find? fun kv => k = kv.1).map g
  | [] => rfl
  | (k', v) :: rest => by
    by_cases hk : k = k'
    · simp [lookup, hk]
    · simp [lookup, hk, lookup_map_snd g k rest]

theorem lookup_eq_find {β} (k : Str) : ∀ (l : List (Str × β)),
    lookup k l = (l.find? fun kv => k = kv.1).map (·.2)
  | [] => rfl
  | (k', v) :: rest => by
    by_cases hk : k = k'
    · simp [lookup, hk]
    · simp [lookup, hk, lookup_eq_find k rest]

theorem lookup_keep (f : Str) (d : Str) : ∀ (cs : List (Str × Unit)) (fs : Forms), lookup f fs = some d →
    lookup f (cs.foldl (fun fs c => upd c.1 (fun o3 => o3.getD dashStr) fs) fs) = some d
  | [], _, h => h
  | c :: cs, fs, h => by
    simp only [List.foldl_cons]
    apply lookup_keep f d cs
    rw [lookup_upd]
    by_cases hf : f = c.1
    · subst hf; simp [h]
    · simp [hf, h]

theorem padLang_keep (p f : Str) (d : Str) : ∀ (P : List (Str × List (Str × Unit))) (ps : Paths),
    (∃ fs, lookup p ps = some fs ∧ lookup f fs = some d) →
    ∃ fs, lookup p (padLang P ps) = some fs ∧ lookup f fs = some d
  | [], _, h => h
  | pc :: P, ps, ⟨fs, h1, h2⟩ => by
    unfold padLang
    simp only [List.foldl_cons]
    apply padLang_keep p f d P
    rw [lookup_upd]
    by_cases hp : p = pc.1
    · subst hp
      simp only [if_true, h1, Option.getD_some]
      exact ⟨_, rfl, lookup_keep f d pc.2 fs h2⟩
    · simp only [hp, if_false]
      exact ⟨fs, h1, h2⟩

theorem has_pad (lists : List CList) {T : Table} {e : Ent} (h : Has T e) : Has (pad lists T) e := by
  unfold Has valAt at h ⊢
  cases h1 : lookup e.lang T with
  | none => simp [h1] at h
  | some ps =>
    simp only [h1, Option.bind_some] at h
    have hl : lookup e.lang (pad lists T) = some (padLang (allPathsC lists T) ps) := by
      unfold pad
      rw [lookup_map_snd (fun lps => padLang (allPathsC lists T) lps.2)]
      rw [lookup_eq_find] at h1
      cases hf : List.find? (fun kv => e.lang = kv.1) T with
      | none => simp [hf] at h1
      | some kv => simp only [hf, Option.map_some, Option.some.injEq] at h1 ⊢; rw [h1]
    rw [hl]
    simp only [Option.bind_some]
    cases h2 : lookup e.path ps with
    | none => simp [h2] at h
    | some fs =>
      simp only [h2, Option.bind_some] at h
      obtain ⟨fs', hp, hf⟩ := padLang_keep e.path e.form e.text (allPathsC lists T) ps ⟨fs, h2, h⟩
      simp [hp, hf]

/-- **Re-running `_setup_translations` and `_setup_media` on the padded table of the first `xml()`
changes nothing** — neither a value nor the position of any language, path or content type.
Guard: the entry list assigns no leaf two different values (`NoConflict`; with a conflict the last
assignment wins in both passes and the statement still holds, but this proof does not cover it). -/
theorem second_setup_noop_guarded (lists : List CList) (es : List Ent) (hn : NoConflict es) :
    es.foldl ins (pad lists (setup es)) = pad lists (setup es) :=
  foldl_ins_id es _ fun e he => has_pad lists (has_foldl es [] hn e he)

/-! ### the language set of the generated "other" choice (xls2json.py:1066-1078) -/

theorem upd_comm {β} {k1 k2 : Str} (hne : k1 ≠ k2) (f g : Option β → β) : ∀ (l : List (Str × β)),
    k1 ∈ keys l → k2 ∈ keys l → upd k1 f (upd k2 g l) = upd k2 g (upd k1 f l)
  | [], h, _ => by simp [keys] at h
  | (k, v) :: rest, h1, h2 => by
    by_cases hk1 : k = k1
    · subst hk1
      have : ¬ k = k2 := hne
      simp [upd, this]
    · by_cases hk2 : k = k2
      · subst hk2
        simp [upd, hk1]
      · have h1' : k1 ∈ keys rest := by
          simp only [keys, List.map_cons, List.mem_cons] at h1
          rcases h1 with h | h
          · exact absurd h.symm hk1
          · exact h
        have h2' : k2 ∈ keys rest := by
          simp only [keys, List.map_cons, List.mem_cons] at h2
          rcases h2 with h | h
          · exact absurd h.symm hk2
          · exact h
        simp [upd, hk1, hk2, upd_comm hne f g rest h1' h2']

/-- the entries of the generated choice: label `{lang: "Other" for lang in <set>}`, in set order -/
def otherEntries (id : Str) (langs : List Str) : List Ent := langs.map fun l => ⟨l, id, "long".toList, "Other".toList⟩

theorem keys_ins (T : Table) (e : Ent) (a : Str) : a ∈ keys T → a ∈ keys (ins T e) := by
  intro h; unfold ins; rw [mem_keys_upd]; exact Or.inl h

theorem ins_comm_langs (T : Table) (id : Str) {l1 l2 : Str} (h1 : l1 ∈ keys T) (h2 : l2 ∈ keys T) :
    ins (ins T ⟨l1, id, "long".toList, "Other".toList⟩) ⟨l2, id, "long".toList, "Other".toList⟩
      = ins (ins T ⟨l2, id, "long".toList, "Other".toList⟩) ⟨l1, id, "long".toList, "Other".toList⟩ := by
  by_cases hne : l1 = l2
  · subst hne; rfl
  · unfold ins
    exact (upd_comm hne _ _ T h1 h2).symm

theorem other_perm {id : Str} {a b : List Str} (hp : a.Perm b) : ∀ (T : Table), (∀ l ∈ a, l ∈ keys T) →
    (otherEntries id a).foldl ins T = (otherEntries id b).foldl ins T := by
  induction hp with
  | nil => intro _ _; rfl
  | cons x _ ih =>
    intro T h
    simp only [otherEntries, List.map_cons, List.foldl_cons]
    exact ih _ fun l hl => keys_ins _ _ _ (h l (List.mem_cons_of_mem _ hl))
  | swap x y l =>
    intro T h
    simp only [otherEntries, List.map_cons, List.foldl_cons]
    rw [ins_comm_langs T id (h y (List.mem_cons_self ..)) (h x (List.mem_cons_of_mem _ (List.mem_cons_self ..)))]
  | trans h1 _ ih1 ih2 =>
    intro T h
    rw [ih1 T h, ih2 T fun l hl => h l (h1.mem_iff.2 hl)]

/-- **or_other on a translated list**: the label dict of the generated choice is built from a Python
`set` of languages.  Every one of them already has a translation when the choice is reached (the
earlier choices of the same list carry them), so for every iteration order of that set the table
`_translations` — hence the itext block, in content *and* order — is the same. -/
theorem orOther_lang_order_irrelevant (π : Process.SetOrder) (pre post : List Ent) (id : Str) (langs : List Str)
    (hpresent : ∀ l ∈ langs, l ∈ keys (pre.foldl ins [])) :
    setup (pre ++ otherEntries id (π.iter langs) ++ post) = setup (pre ++ otherEntries id langs ++ post) := by
  unfold setup
  simp only [List.foldl_append]
  rw [other_perm (π.perm langs) _ fun l hl => hpresent l ((π.perm langs).mem_iff.1 hl)]

/-! ### generic invariants of `foldl upd` -/

theorem upd_inv {γ} (R : Str → γ → Prop) (k : Str) (f : Option γ → γ) : ∀ (l : List (Str × γ)),
    (∀ kv ∈ l, R kv.1 kv.2) → (∀ o, (∀ v, o = some v → R k v) → R k (f o)) →
    ∀ kv ∈ upd k f l, R kv.1 kv.2
  | [], _, hf, kv, h => by
    simp only [upd, List.mem_singleton] at h
    subst h
    exact hf none (fun _ h => by cases h)
  | (k', v') :: rest, h0, hf, kv, h => by
    by_cases hk : k' = k
    · subst hk
      simp only [upd, if_true, List.mem_cons] at h
      rcases h with h | h
      · subst h
        exact hf (some v') fun v hv => by cases hv; exact h0 (k', v') (List.mem_cons_self ..)
      · exact h0 kv (List.mem_cons_of_mem _ h)
    · simp only [upd, hk, if_false, List.mem_cons] at h
      rcases h with h | h
      · subst h; exact h0 (k', v') (List.mem_cons_self ..)
      · exact upd_inv R k f rest (fun kv hkv => h0 kv (List.mem_cons_of_mem _ hkv)) hf kv h

theorem foldl_upd_inv {α γ} (kf : α → Str) (g : α → Option γ → γ) (R : Str → γ → Prop) :
    ∀ (xs : List α) (a0 : List (Str × γ)), (∀ kv ∈ a0, R kv.1 kv.2) →
    (∀ x ∈ xs, ∀ o, (∀ v, o = some v → R (kf x) v) → R (kf x) (g x o)) →
    ∀ kv ∈ xs.foldl (fun a x => upd (kf x) (g x) a) a0, R kv.1 kv.2
  | [], _, h0, _ => h0
  | x :: xs, a0, h0, hs => by
    simp only [List.foldl_cons]
    exact foldl_upd_inv kf g R xs _
      (upd_inv R (kf x) (g x) a0 h0 (hs x (List.mem_cons_self ..)))
      fun y hy => hs y (List.mem_cons_of_mem _ hy)

theorem foldl_upd_keep {α γ} (kf : α → Str) (g : α → Option γ → γ) (S : γ → Prop) (k : Str) :
    ∀ (xs : List α) (a0 : List (Str × γ)),
    (∀ x ∈ xs, kf x = k → ∀ v, S v → S (g x (some v))) →
    (∃ v, lookup k a0 = some v ∧ S v) →
    ∃ v, lookup k (xs.foldl (fun a x => upd (kf x) (g x) a) a0) = some v ∧ S v
  | [], _, _, h => h
  | x :: xs, a0, hk, ⟨v, hl, hv⟩ => by
    simp only [List.foldl_cons]
    apply foldl_upd_keep kf g S k xs _ fun y hy => hk y (List.mem_cons_of_mem _ hy)
    rw [lookup_upd]
    by_cases he : k = kf x
    · simp only [he, if_true]
      refine ⟨_, rfl, ?_⟩
      rw [← he, hl]
      exact hk x (List.mem_cons_self ..) he.symm v hv
    · simp only [he, if_false]
      exact ⟨v, hl, hv⟩

theorem foldl_upd_est {α γ} (kf : α → Str) (g : α → Option γ → γ) (S : γ → Prop) (k : Str) :
    ∀ (xs : List α) (a0 : List (Str × γ)),
    (∀ x ∈ xs, kf x = k → ∀ v, S v → S (g x (some v))) →
    (∃ x ∈ xs, kf x = k ∧ ∀ o, S (g x o)) →
    ∃ v, lookup k (xs.foldl (fun a x => upd (kf x) (g x) a) a0) = some v ∧ S v
  | [], _, _, ⟨_, hx, _⟩ => by cases hx
  | y :: xs, a0, hk, ⟨x, hx, hkx, hS⟩ => by
    simp only [List.foldl_cons]
    have hk' : ∀ z ∈ xs, kf z = k → ∀ v, S v → S (g z (some v)) := fun z hz => hk z (List.mem_cons_of_mem _ hz)
    rcases List.mem_cons.1 hx with h | h
    · subst h
      apply foldl_upd_keep kf g S k xs _ hk'
      rw [lookup_upd]
      simp only [hkx, if_true]
      exact ⟨_, rfl, hS _⟩
    · exact foldl_upd_est kf g S k xs _ hk' ⟨x, h, hkx, hS⟩

/-! ### content types, level by level -/

theorem mem_keys_unionForms (acc : List (Str × Unit)) (fs : Forms) (c : Str) :
    c ∈ keys (unionForms acc fs) ↔ c ∈ keys acc ∨ c ∈ keys fs := by
  unfold unionForms
  exact mem_keys_foldl_upd (fun _ _ => ()) fs acc c

theorem mem_keys_keepForms (cs : List (Str × Unit)) (fs : Forms) (c : Str) :
    c ∈ keys (cs.foldl (fun fs c => upd c.1 (fun o3 => o3.getD dashStr) fs) fs) ↔ c ∈ keys fs ∨ c ∈ keys cs :=
  mem_keys_foldl_upd (fun _ o3 => o3.getD dashStr) cs fs c

theorem allPaths_flat (T : Table) (acc : List (Str × List (Str × Unit))) :
    T.foldl (fun acc lps => lps.2.foldl (fun a pf => upd pf.1 (fun o => unionForms (o.getD []) pf.2) a) acc) acc
      = (T.flatMap (·.2)).foldl (fun a pf => upd pf.1 (fun o => unionForms (o.getD []) pf.2) a) acc := by
  induction T generalizing acc with
  | nil => rfl
  | cons lps rest ih => simp only [List.foldl_cons, List.flatMap_cons, List.foldl_append, ih]

/-- where a content type listed by `allPathsC` comes from -/
def FromTable (T : Table) (p c : Str) : Prop := ∃ lps ∈ T, ∃ pf ∈ lps.2, pf.1 = p ∧ c ∈ keys pf.2

theorem allPaths_sound (T : Table) : ∀ pc ∈ allPaths T, ∀ c ∈ keys pc.2, FromTable T pc.1 c := by
  unfold allPaths
  rw [allPaths_flat]
  apply foldl_upd_inv (fun pf : Str × Forms => pf.1) (fun pf o => unionForms (o.getD []) pf.2)
    (fun p cs => ∀ c ∈ keys cs, FromTable T p c)
  · intro kv h; cases h
  · intro pf hpf o ho c hc
    rw [mem_keys_unionForms] at hc
    rcases hc with hc | hc
    · cases o with
      | none => simp [keys] at hc
      | some v => exact ho v rfl c hc
    · obtain ⟨lps, hl, hm⟩ := List.mem_flatMap.1 hpf
      exact ⟨lps, hl, pf, hm, rfl, hc⟩

theorem lookup_some_of_mem_keys {β} (k : Str) : ∀ (l : List (Str × β)), k ∈ keys l → ∃ v, lookup k l = some v
  | [], h => by simp [keys] at h
  | (k', v') :: rest, h => by
    by_cases hk : k = k'
    · exact ⟨v', by simp [lookup, hk]⟩
    · simp only [keys, List.map_cons, List.mem_cons] at h
      rcases h with h | h
      · exact absurd h hk
      · obtain ⟨v, hv⟩ := lookup_some_of_mem_keys k rest h
        exact ⟨v, by simp [lookup, hk, hv]⟩

theorem mem_upd {β} (k : Str) (f : Option β → β) : ∀ (l : List (Str × β)) (kv : Str × β),
    kv ∈ upd k f l → kv = (k, f (lookup k l)) ∨ kv ∈ l
  | [], kv, h => by
    simp only [upd, List.mem_singleton] at h
    exact Or.inl (by simp [h, lookup])
  | (k', v') :: rest, kv, h => by
    by_cases hk : k' = k
    · subst hk
      simp only [upd, if_true, List.mem_cons] at h
      rcases h with h | h
      · exact Or.inl (by simp [h, lookup])
      · exact Or.inr (List.mem_cons_of_mem _ h)
    · have hk' : ¬ k = k' := fun e => hk e.symm
      simp only [upd, hk, if_false, List.mem_cons] at h
      rcases h with h | h
      · exact Or.inr (by simp [h])
      · rcases mem_upd k f rest kv h with h' | h'
        · exact Or.inl (by simp [h', lookup, hk'])
        · exact Or.inr (List.mem_cons_of_mem _ h')

theorem allPathsC_sound (lists : List CList) (T : Table) : ∀ pc ∈ allPathsC lists T, ∀ c ∈ keys pc.2,
    FromTable T pc.1 c ∨ pc.1 ∉ keys (allPaths T) := by
  unfold allPathsC
  have key : ∀ (cp : List (Str × List (Str × Unit))) (a0 : List (Str × List (Str × Unit))),
      (∀ kv ∈ a0, ∀ c ∈ keys kv.2, FromTable T kv.1 c ∨ kv.1 ∉ keys (allPaths T)) →
      (∀ p ∈ keys (allPaths T), p ∈ keys a0) →
      ∀ kv ∈ cp.foldl (fun a pc => upd pc.1 (fun o => o.getD pc.2) a) a0,
        ∀ c ∈ keys kv.2, FromTable T kv.1 c ∨ kv.1 ∉ keys (allPaths T) := by
    intro cp
    induction cp with
    | nil => intro a0 h _; exact h
    | cons pc rest ih =>
      intro a0 h hsub
      simp only [List.foldl_cons]
      apply ih
      · intro kv hkv c hc
        rcases mem_upd _ _ a0 kv hkv with h' | h'
        · subst h'
          cases hl : lookup pc.1 a0 with
          | some v =>
            simp only [hl, Option.getD_some] at hc
            exact h (pc.1, v) (mem_of_lookup hl) c hc
          | none =>
            refine Or.inr fun hp => ?_
            obtain ⟨v, hv⟩ := lookup_some_of_mem_keys pc.1 a0 (hsub _ hp)
            rw [hl] at hv; cases hv
        · exact h kv h' c hc
      · intro p hp
        rw [mem_keys_upd]; exact Or.inl (hsub p hp)
  exact key (choicePaths lists) (allPaths T)
    (fun kv hkv c hc => Or.inl (allPaths_sound T kv hkv c hc)) (fun p hp => hp)

theorem allPathsC_complete (lists : List CList) (T : Table) {p c : Str} (h : FromTable T p c) :
    ∃ cs, lookup p (allPathsC lists T) = some cs ∧ c ∈ keys cs := by
  obtain ⟨lps, hl, pf, hpf, hp, hc⟩ := h
  unfold allPathsC
  apply foldl_upd_keep (fun pc : Str × List (Str × Unit) => pc.1) (fun pc o => o.getD pc.2) (fun cs => c ∈ keys cs) p
  · intro x _ _ v hv; simpa using hv
  · unfold allPaths
    rw [allPaths_flat]
    apply foldl_upd_est (fun pf : Str × Forms => pf.1) (fun pf o => unionForms (o.getD []) pf.2) (fun cs => c ∈ keys cs) p
    · intro x _ _ v hv
      rw [mem_keys_unionForms]; exact Or.inl (by simpa using hv)
    · exact ⟨pf, List.mem_flatMap.2 ⟨lps, hl, hpf⟩, hp, fun o => by rw [mem_keys_unionForms]; exact Or.inr hc⟩

theorem padLang_sound (P : List (Str × List (Str × Unit))) (ps : Paths) : ∀ pf ∈ padLang P ps, ∀ c ∈ keys pf.2,
    (∃ pf0 ∈ ps, pf0.1 = pf.1 ∧ c ∈ keys pf0.2) ∨ (∃ pc ∈ P, pc.1 = pf.1 ∧ c ∈ keys pc.2) := by
  unfold padLang
  apply foldl_upd_inv (fun pc : Str × List (Str × Unit) => pc.1)
    (fun pc o => pc.2.foldl (fun fs c => upd c.1 (fun o3 => o3.getD dashStr) fs) (o.getD []))
    (fun p fs => ∀ c ∈ keys fs, (∃ pf0 ∈ ps, pf0.1 = p ∧ c ∈ keys pf0.2) ∨ (∃ pc ∈ P, pc.1 = p ∧ c ∈ keys pc.2))
  · intro kv hkv c hc; exact Or.inl ⟨kv, hkv, rfl, hc⟩
  · intro pc hpc o ho c hc
    rw [mem_keys_keepForms] at hc
    rcases hc with hc | hc
    · cases o with
      | none => simp [keys] at hc
      | some v => exact ho v rfl c hc
    · exact Or.inr ⟨pc, hpc, rfl, hc⟩

theorem padLang_complete (P : List (Str × List (Str × Unit))) (ps : Paths) {pc : Str × List (Str × Unit)}
    (hpc : pc ∈ P) {c : Str} (hc : c ∈ keys pc.2) :
    ∃ fs, lookup pc.1 (padLang P ps) = some fs ∧ c ∈ keys fs := by
  unfold padLang
  apply foldl_upd_est (fun pc : Str × List (Str × Unit) => pc.1)
    (fun pc o => pc.2.foldl (fun fs c => upd c.1 (fun o3 => o3.getD dashStr) fs) (o.getD []))
    (fun fs => c ∈ keys fs) pc.1
  · intro x _ _ v hv
    rw [mem_keys_keepForms]; exact Or.inl (by simpa using hv)
  · exact ⟨pc, hpc, rfl, fun o => by rw [mem_keys_keepForms]; exact Or.inr hc⟩

theorem keepForms_id : ∀ (cs : List (Str × Unit)) (fs : Forms), (∀ c ∈ cs, c.1 ∈ keys fs) →
    cs.foldl (fun fs c => upd c.1 (fun o3 => o3.getD dashStr) fs) fs = fs
  | [], _, _ => rfl
  | c :: cs, fs, h => by
    simp only [List.foldl_cons]
    obtain ⟨d, hd⟩ := lookup_some_of_mem_keys c.1 fs (h c (List.mem_cons_self ..))
    rw [upd_id c.1 _ fs d hd rfl]
    exact keepForms_id cs fs fun c' hc' => h c' (List.mem_cons_of_mem _ hc')

theorem padLang_id : ∀ (P : List (Str × List (Str × Unit))) (ps : Paths),
    (∀ pc ∈ P, ∃ fs, lookup pc.1 ps = some fs ∧ ∀ c ∈ pc.2, c.1 ∈ keys fs) → padLang P ps = ps
  | [], _, _ => rfl
  | pc :: P, ps, h => by
    unfold padLang
    simp only [List.foldl_cons]
    obtain ⟨fs, hl, hc⟩ := h pc (List.mem_cons_self ..)
    rw [upd_id pc.1 _ ps fs hl (by simp only [Option.getD_some]; exact keepForms_id pc.2 fs hc)]
    exact padLang_id P ps fun pc' hpc' => h pc' (List.mem_cons_of_mem _ hpc')

/-- **`_add_empty_translations` on an already padded table changes nothing.** -/
theorem pad_pad (lists : List CList) (T : Table) : pad lists (pad lists T) = pad lists T := by
  have hmap : ∀ lps1 ∈ pad lists T, (lps1.1, padLang (allPathsC lists (pad lists T)) lps1.2) = lps1 := by
    intro lps1 h1
    have : padLang (allPathsC lists (pad lists T)) lps1.2 = lps1.2 := by
      apply padLang_id
      intro pc hpc
      -- every path listed is present in this language
      have hpk : pc.1 ∈ keys lps1.2 := by
        rw [mem_keys_pad h1]
        have := (mem_keys_allPathsC lists (pad lists T) pc.1).1 (mem_keys_of_mem (v := pc.2) (by cases pc; exact hpc))
        rcases this with ⟨lps', hl', hp'⟩ | hid
        · exact (mem_keys_pad hl' pc.1).1 hp'
        · exact Or.inr hid
      obtain ⟨fs, hfs⟩ := lookup_some_of_mem_keys pc.1 lps1.2 hpk
      refine ⟨fs, hfs, ?_⟩
      intro c hc
      have hck : c.1 ∈ keys pc.2 := mem_keys_of_mem (v := c.2) (by cases c; exact hc)
      obtain ⟨lps, hl, hlps⟩ := mem_pad.1 h1
      rcases allPathsC_sound lists (pad lists T) pc hpc c.1 hck with hft | hno
      · -- the content type sits at this path in some language of the padded table
        obtain ⟨lpsA, hA, pf, hpf, hp, hcf⟩ := hft
        obtain ⟨lpsB, hB, hAB⟩ := mem_pad.1 hA
        have hpf' : pf ∈ padLang (allPathsC lists T) lpsB.2 := by rw [hAB] at hpf; exact hpf
        have hP0 : ∃ pc0 ∈ allPathsC lists T, pc0.1 = pc.1 ∧ c.1 ∈ keys pc0.2 := by
          rcases padLang_sound _ _ pf hpf' c.1 hcf with ⟨pf0, hpf0, hp0, hc0⟩ | ⟨pc0, hpc0, hp0, hc0⟩
          · obtain ⟨cs, hcs, hccs⟩ := allPathsC_complete lists T (p := pc.1) (c := c.1)
              ⟨lpsB, hB, pf0, hpf0, hp0.trans hp, hc0⟩
            exact ⟨(pc.1, cs), mem_of_lookup hcs, rfl, hccs⟩
          · exact ⟨pc0, hpc0, hp0.trans hp, hc0⟩
        obtain ⟨pc0, hpc0, hp0, hc0⟩ := hP0
        obtain ⟨fs', hfs', hcfs'⟩ := padLang_complete (allPathsC lists T) lps.2 hpc0 hc0
        rw [hlps] at hfs
        simp only at hfs
        rw [hp0, hfs] at hfs'
        cases hfs'
        exact hcfs'
      · exact absurd ((mem_keys_allPaths (pad lists T) pc.1).2 ⟨lps1, h1, hpk⟩) hno
    rw [this]
  unfold pad at hmap ⊢
  conv => rhs; rw [← List.map_id (List.map _ T)]
  exact List.map_congr_left hmap

/-! ### removing the `NoConflict` guard: overwritten assignments do not matter -/

theorem upd_comm1 {β} {k1 k2 : Str} (hne : k1 ≠ k2) (f g : Option β → β) : ∀ (l : List (Str × β)),
    k1 ∈ keys l → upd k1 f (upd k2 g l) = upd k2 g (upd k1 f l)
  | [], h => by simp [keys] at h
  | (k, v) :: rest, h1 => by
    by_cases hk1 : k = k1
    · subst hk1
      have : ¬ k = k2 := hne
      simp [upd, this]
    · by_cases hk2 : k = k2
      · subst hk2
        simp [upd, hk1]
      · have h1' : k1 ∈ keys rest := by
          simp only [keys, List.map_cons, List.mem_cons] at h1
          rcases h1 with h | h
          · exact absurd h.symm hk1
          · exact h
        simp [upd, hk1, hk2, upd_comm1 hne f g rest h1']

theorem upd_upd_same {β} (k : Str) (f g : Option β → β) : ∀ (l : List (Str × β)),
    upd k f (upd k g l) = upd k (fun o => f (some (g o))) l
  | [] => by simp [upd]
  | (k', v) :: rest => by
    by_cases hk : k' = k
    · simp [upd, hk]
    · simp [upd, hk, upd_upd_same k f g rest]

theorem upd_congr_at {β} (k : Str) (f g : Option β → β) : ∀ (l : List (Str × β)),
    f (lookup k l) = g (lookup k l) → upd k f l = upd k g l
  | [], h => by simpa [upd, lookup] using h
  | (k', v) :: rest, h => by
    by_cases hk : k' = k
    · subst hk; simp only [lookup, if_true] at h; simp [upd, h]
    · have hk' : ¬ k = k' := fun e => hk e.symm
      simp only [lookup, hk', if_false] at h
      simp [upd, hk, upd_congr_at k f g rest h]

def SameKey (a b : Ent) : Prop := a.lang = b.lang ∧ a.path = b.path ∧ a.form = b.form
instance (a b : Ent) : Decidable (SameKey a b) := by unfold SameKey; infer_instance

/-- the leaf the entry assigns exists already -/
def Present (T : Table) (e : Ent) : Prop := (valAt T e.lang e.path e.form).isSome

theorem ins_overwrite (A : Table) {x y : Ent} (h : SameKey x y) : ins (ins A x) y = ins A y := by
  obtain ⟨h1, h2, h3⟩ := h
  unfold ins
  rw [h1, upd_upd_same]
  apply upd_congr_at
  simp only [Option.getD_some]
  rw [h2, upd_upd_same]
  apply upd_congr_at
  simp only [Option.getD_some]
  rw [h3, upd_upd_same]

theorem lookup_isSome_keys {β} {k : Str} {l : List (Str × β)} (h : (lookup k l).isSome) : k ∈ keys l := by
  obtain ⟨v, hv⟩ := Option.isSome_iff_exists.1 h
  exact mem_keys_of_mem (mem_of_lookup hv)

theorem ins_comm (A : Table) {x m : Ent} (hp : Present A x) (hne : ¬ SameKey x m) :
    ins (ins A x) m = ins (ins A m) x := by
  unfold Present valAt at hp
  cases hl : lookup x.lang A with
  | none => simp [hl] at hp
  | some ps =>
    simp only [hl, Option.bind_some] at hp
    cases hq : lookup x.path ps with
    | none => simp [hq] at hp
    | some fs =>
      simp only [hq, Option.bind_some] at hp
      have hlk : x.lang ∈ keys A := lookup_isSome_keys (by rw [hl]; rfl)
      by_cases h1 : x.lang = m.lang
      · -- same language
        unfold ins
        rw [← h1, upd_upd_same, upd_upd_same]
        apply upd_congr_at
        simp only [hl, Option.getD_some]
        have hpk : x.path ∈ keys ps := lookup_isSome_keys (by rw [hq]; rfl)
        by_cases h2 : x.path = m.path
        · rw [← h2, upd_upd_same, upd_upd_same]
          apply upd_congr_at
          simp only [hq, Option.getD_some]
          have h3 : x.form ≠ m.form := fun h3 => hne ⟨h1, h2, h3⟩
          exact (upd_comm1 h3 _ _ fs (lookup_isSome_keys hp)).symm
        · exact (upd_comm1 h2 _ _ ps hpk).symm
      · unfold ins
        exact (upd_comm1 h1 _ _ A hlk).symm

theorem present_ins (A : Table) (x m : Ent) (h : Present A x) : Present (ins A m) x := by
  unfold Present at h ⊢
  by_cases hk : x.lang = m.lang ∧ x.path = m.path ∧ x.form = m.form
  · rw [hk.1, hk.2.1, hk.2.2, valAt_ins_self]; rfl
  · rw [valAt_ins_other A m _ _ _ hk]; exact h

theorem present_ins_self (A : Table) (x : Ent) : Present (ins A x) x := by
  unfold Present; rw [valAt_ins_self]; rfl

/-- an assignment that a later one with the same key overwrites does not influence the result -/
theorem overwritten_irrelevant {x e1 : Ent} (hk : SameKey x e1) : ∀ (ms : List Ent) (A : Table), Present A x →
    (ms ++ [e1]).foldl ins (ins A x) = (ms ++ [e1]).foldl ins A
  | [], A, _ => by simp only [List.nil_append, List.foldl_cons, List.foldl_nil]; exact ins_overwrite A hk
  | m :: ms, A, hp => by
    simp only [List.cons_append, List.foldl_cons]
    by_cases hs : SameKey x m
    · rw [ins_overwrite A hs]
    · rw [ins_comm A hp hs]
      exact overwritten_irrelevant hk ms (ins A m) (present_ins A x m hp)

/-- `e` is the last assignment to its leaf within `e :: rest` -/
def Final (e : Ent) (rest : List Ent) : Prop := ∀ e' ∈ rest, ¬ SameKey e e'

theorem split_first_same {e : Ent} : ∀ (rest : List Ent), ¬ Final e rest →
    ∃ ms e1 post, rest = ms ++ e1 :: post ∧ SameKey e e1
  | [], h => absurd (fun _ h' => by cases h') h
  | r :: rest, h => by
    by_cases hs : SameKey e r
    · exact ⟨[], r, rest, rfl, hs⟩
    · have : ¬ Final e rest := fun hf => h fun e' he' => by
        rcases List.mem_cons.1 he' with h' | h'
        · subst h'; exact hs
        · exact hf e' h'
      obtain ⟨ms, e1, post, hr, hk⟩ := split_first_same rest this
      exact ⟨r :: ms, e1, post, by rw [hr]; rfl, hk⟩

/-- every last assignment finds its own text, every assignment finds its leaf ⇒ nothing changes -/
theorem foldl_ins_id_final : ∀ (n : Nat) (es : List Ent) (A : Table), es.length = n → (∀ e ∈ es, Present A e) →
    (∀ pre e post, es = pre ++ e :: post → Final e post → Has A e) → es.foldl ins A = A
  | _, [], _, _, _, _ => rfl
  | n + 1, e :: rest, A, hlen, hp, hf => by
    have hlen' : rest.length = n := by simpa using hlen
    have hp' : ∀ e' ∈ rest, Present A e' := fun e' he' => hp e' (List.mem_cons_of_mem _ he')
    have hf' : ∀ pre e' post, rest = pre ++ e' :: post → Final e' post → Has A e' :=
      fun pre e' post hr hfin => hf (e :: pre) e' post (by rw [hr]; rfl) hfin
    simp only [List.foldl_cons]
    by_cases hfin : Final e rest
    · rw [ins_id (hf [] e rest rfl hfin)]
      exact foldl_ins_id_final n rest A hlen' hp' hf'
    · obtain ⟨ms, e1, post, hr, hk⟩ := split_first_same rest hfin
      have : rest.foldl ins (ins A e) = rest.foldl ins A := by
        rw [hr, show ms ++ e1 :: post = (ms ++ [e1]) ++ post by simp]
        have h1 := overwritten_irrelevant hk ms A (hp e (List.mem_cons_self ..))
        simp only [List.foldl_append] at h1 ⊢
        rw [h1]
      rw [this]
      exact foldl_ins_id_final n rest A hlen' hp' hf'

theorem has_final : ∀ (es : List Ent) (T : Table) (pre : List Ent) (e : Ent) (post : List Ent),
    es = pre ++ e :: post → Final e post → Has (es.foldl ins T) e
  | _, T, [], e, post, rfl, hfin => by
    simp only [List.nil_append, List.foldl_cons]
    exact has_preserved post (ins T e) (valAt_ins_self T e)
      fun e' he' h1 h2 h3 => absurd ⟨h1, h2, h3⟩ (hfin e' he')
  | _, T, p :: pre, e, post, rfl, hfin => by
    simp only [List.cons_append, List.foldl_cons]
    exact has_final _ (ins T p) pre e post rfl hfin

theorem present_foldl : ∀ (es : List Ent) (T : Table), ∀ e ∈ es, Present (es.foldl ins T) e
  | [], _, _, h => by cases h
  | x :: xs, T, e, h => by
    simp only [List.foldl_cons]
    rcases List.mem_cons.1 h with h' | h'
    · subst h'
      have : ∀ (ys : List Ent) (A : Table), Present A e → Present (ys.foldl ins A) e := by
        intro ys
        induction ys with
        | nil => intro A h; exact h
        | cons y ys ih => intro A h; exact ih _ (present_ins A e y h)
      exact this xs _ (present_ins_self T e)
    · exact present_foldl xs _ e h'

theorem present_pad (lists : List CList) {T : Table} {e : Ent} (h : Present T e) : Present (pad lists T) e := by
  unfold Present at h ⊢
  obtain ⟨t, ht⟩ := Option.isSome_iff_exists.1 h
  have := has_pad lists (T := T) (e := ⟨e.lang, e.path, e.form, t⟩) ht
  unfold Has at this
  simp only at this
  rw [this]; rfl

/-- **Re-running `_setup_translations` and `_setup_media` on the padded table of the first `xml()`
changes nothing** — neither a text nor the position of any language, path or content type — for
every entry list (a leaf assigned several times keeps, both times, the text assigned last). -/
theorem second_setup_noop (lists : List CList) (es : List Ent) :
    es.foldl ins (pad lists (setup es)) = pad lists (setup es) :=
  foldl_ins_id_final es.length es _ rfl
    (fun e he => present_pad lists (present_foldl es [] e he))
    (fun pre e post hes hfin => has_pad lists (has_final es [] pre e post hes hfin))

/-! ### the second `xml()` -/

/-- **`_translations` across repeated `xml()` calls** (nesting, media, padding): the table after the
second `xml_model()` — setup and media entries assigned again into the *padded* table of the first
call, then padded again — is the table after the first; so is every later one.  No guard. -/
theorem itext_setup_idempotent (lists : List CList) (es : List Ent) :
    pad lists (es.foldl ins (pad lists (setup es))) = pad lists (setup es) := by
  rw [second_setup_noop lists es, pad_pad]

/-- … hence the `<itext>` block of the regenerated XForm is the same -/
theorem itext_block_idempotent (dl : Str) (lists : List CList) (es : List Ent) :
    itext dl (pad lists (es.foldl ins (pad lists (setup es)))) = itext dl (pad lists (setup es)) := by
  rw [itext_setup_idempotent lists es]

theorem lang_present_of_entry : ∀ (es : List Ent) (T : Table) (e : Ent), e ∈ es → e.lang ∈ keys (es.foldl ins T)
  | [], _, _, h => by cases h
  | x :: xs, T, e, h => by
    simp only [List.foldl_cons]
    rcases List.mem_cons.1 h with h' | h'
    · subst h'
      have : ∀ (ys : List Ent) (A : Table), e.lang ∈ keys A → e.lang ∈ keys (ys.foldl ins A) := by
        intro ys
        induction ys with
        | nil => intro A h; exact h
        | cons y ys ih => intro A h; exact ih _ (keys_ins A y _ h)
      exact this xs _ (by unfold ins; rw [mem_keys_upd]; exact Or.inr rfl)
    · exact lang_present_of_entry xs _ e h'

/-- `orOther_lang_order_irrelevant` with its hypothesis derived from the entry list: the languages
of the generated choice are languages of labels of *earlier* choices (that is how xls2json builds the
set, xls2json.py:1066-1078), and every label language of an earlier choice has an entry in `pre`
(`Itext.optEntries`: one entry per (language, text) of the label dict). -/
theorem orOther_lang_order_irrelevant_of_entries (π : Process.SetOrder) (pre post : List Ent) (id : Str) (langs : List Str)
    (hfrom : ∀ l ∈ langs, ∃ e ∈ pre, e.lang = l) :
    setup (pre ++ otherEntries id (π.iter langs) ++ post) = setup (pre ++ otherEntries id langs ++ post) :=
  orOther_lang_order_irrelevant π pre post id langs fun l hl => by
    obtain ⟨e, he, hel⟩ := hfrom l hl
    rw [← hel]; exact lang_present_of_entry pre [] e he

def demoEnts : List Ent :=
  [⟨"en".toList, "yn-0".toList, "long".toList, "txt".toList⟩, ⟨"fr".toList, "yn-0".toList, "long".toList, "txt".toList⟩,
   ⟨"en".toList, "/d/q:label".toList, "long".toList, "txt".toList⟩, ⟨"en".toList, "/d/q:hint".toList, "guidance".toList, "txt".toList⟩,
   ⟨"fr".toList, "/d/q:label".toList, "image".toList, "txt".toList⟩, ⟨"en".toList, "/d/q:label".toList, "long".toList, "txt".toList⟩]

instance : Decidable (NoConflict demoEnts) := by unfold NoConflict; infer_instance
example : NoConflict demoEnts := by decide
-- a leaf assigned twice with different texts (not `NoConflict`) is covered as well:
def demoEnts2 : List Ent := demoEnts ++ [⟨"en".toList, "yn-0".toList, "long".toList, "other".toList⟩]
example : pad [] (demoEnts2.foldl ins (pad [] (setup demoEnts2))) = pad [] (setup demoEnts2) := by rfl
-- the padded table really has padding (French lacks the guidance hint and the label text):
example : valAt (pad [] (setup demoEnts)) "fr".toList "/d/q:hint".toList "guidance".toList = some dashStr := by decide
example : pad [] (demoEnts.foldl ins (pad [] (setup demoEnts))) = pad [] (setup demoEnts) := by rfl
-- or_other: French and English both have a translation before the generated choice is reached
example : setup (demoEnts ++ otherEntries "yn-1".toList ["fr".toList, "en".toList] ++ [])
    = setup (demoEnts ++ otherEntries "yn-1".toList ["en".toList, "fr".toList] ++ []) := by rfl

end Pyxv.C14
