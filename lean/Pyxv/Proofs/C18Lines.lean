import Pyxv.Proofs.C18
/-!
# C18 — the error cleaner over the FULL set of Python line boundaries

`ErrorCleaner._cleanup_errors` (error_cleaner.py:27-36) calls `str.strip().splitlines()` (never `split("\n")`), and
`_join_final` joins with `"\n"`.  `cleaner_end_to_end_padded` (Proofs/C18.lean) covers texts whose lines are separated
by `\n` only.  Here the statement is proved for EVERY text: whatever mixture of `\n`, `\r`, `\r\n`, `\x0b`, `\x0c`,
`\x1c`–`\x1e`, `\x85`, U+2028, U+2029 separates the lines, the path substitution acts on each Python line on its
own (`splitlines_subPaths`), `strip` commutes with it (`strip_subPaths`), and the final message is the `\n`-join of
the individually rewritten lines (`cleaner_end_to_end_all`, no hypothesis besides "not the jarfile message").
`splitlines_line_break` / `splitlines_line_crlf` / `splitlines_noBreak` say exactly what each separator does
(`\r\n` is ONE boundary, every other boundary character — also a lone `\r`, also `\n\r` — is one boundary each).
-/
namespace Pyxv.Validator

/-! ## every line boundary is a blank, hence a path delimiter -/

/-- every `str.splitlines()` boundary character is a `str.strip()` blank (both sets are pinned to Python's by the
table facts `isLineBreak_table` / `pyIsSpace_table`) -/
theorem lineBreak_space (c : Char) (h : isLineBreak c = true) : pyIsSpace c = true := by
  simp only [isLineBreak, Bool.or_eq_true, beq_iff_eq] at h
  simp only [pyIsSpace, Bool.or_eq_true, Bool.and_eq_true, decide_eq_true_eq, beq_iff_eq]
  omega

example : isLineBreak '\r' = true ∧ pyIsSpace '\r' = true := by decide

/-- … hence no path match of `ERROR_MESSAGE_REGEX` ever contains or crosses a line boundary -/
theorem lineBreak_delim (c : Char) (h : isLineBreak c = true) : isDelim c = true :=
  space_delim c (lineBreak_space c h)

example : isDelim (Char.ofNat 0x2028) = true := lineBreak_delim _ (by decide)

/-! ## what `splitlines` does with each separator -/

theorem splitlines_crlf_cons (r : Str) : splitlines ('\r' :: '\n' :: r) = [] :: splitlines r := by
  rw [splitlines]

theorem splitlines_break_cons (d : Char) (rest : Str) (hd : isLineBreak d = true)
    (hcr : ¬ (d = '\r' ∧ ∃ r, rest = '\n' :: r)) : splitlines (d :: rest) = [] :: splitlines rest := by
  rw [splitlines]
  · simp [hd]
  · intro r2 e1 e2
    exact hcr ⟨e1, r2, e2⟩

/-- a boundary character other than the `\r` of a `\r\n` pair ends the current line; the rest is split on its own -/
theorem splitlines_line_break (l rest : Str) (d : Char) (h : ∀ c ∈ l, isLineBreak c = false)
    (hd : isLineBreak d = true) (hcr : ¬ (d = '\r' ∧ ∃ r, rest = '\n' :: r)) :
    splitlines (l ++ d :: rest) = l :: splitlines rest := by
  induction l with
  | nil => simpa using splitlines_break_cons d rest hd hcr
  | cons c cs ih =>
    have hc : isLineBreak c = false := h c (by simp)
    have hr : c ≠ '\r' := by intro e; rw [e] at hc; exact absurd hc (by decide)
    have := ih (fun x hx => h x (by simp [hx]))
    simp only [List.cons_append]
    rw [splitlines]
    · simp [hc, this]
    · intro r2 e _; exact hr e

example : splitlines "ab\rcd\x0bef\n\rg".toList = ["ab".toList, "cd".toList, "ef".toList, [], "g".toList] := by decide

/-- `\r\n` is ONE boundary -/
theorem splitlines_line_crlf (l rest : Str) (h : ∀ c ∈ l, isLineBreak c = false) :
    splitlines (l ++ '\r' :: '\n' :: rest) = l :: splitlines rest := by
  induction l with
  | nil => simpa using splitlines_crlf_cons rest
  | cons c cs ih =>
    have hc : isLineBreak c = false := h c (by simp)
    have hr : c ≠ '\r' := by intro e; rw [e] at hc; exact absurd hc (by decide)
    have := ih (fun x hx => h x (by simp [hx]))
    simp only [List.cons_append]
    rw [splitlines]
    · simp [hc, this]
    · intro r2 e _; exact hr e

example : splitlines "ab\r\ncd".toList = ["ab".toList, "cd".toList] := by decide

/-- every text is break-free or has a first boundary character -/
theorem break_decomp (s : Str) :
    (∀ c ∈ s, isLineBreak c = false) ∨
    ∃ a d b, s = a ++ d :: b ∧ (∀ c ∈ a, isLineBreak c = false) ∧ isLineBreak d = true := by
  induction s with
  | nil => left; simp
  | cons c cs ih =>
    by_cases hc : isLineBreak c = true
    · right; exact ⟨[], c, cs, rfl, by simp, hc⟩
    · have hc' : isLineBreak c = false := by simpa using hc
      rcases ih with h | ⟨a, d, b, rfl, ha, hd⟩
      · left
        intro x hx
        rcases List.mem_cons.1 hx with rfl | hx
        · exact hc'
        · exact h x hx
      · right
        refine ⟨c :: a, d, b, rfl, ?_, hd⟩
        intro x hx
        rcases List.mem_cons.1 hx with rfl | hx
        · exact hc'
        · exact ha x hx

/-- the substitution keeps a break-free text break-free -/
theorem subPaths_noBreak (l : Str) (h : ∀ c ∈ l, isLineBreak c = false) : ∀ c ∈ subPaths l, isLineBreak c = false := by
  have hall : l.all (fun c => !isLineBreak c) = true := by
    simp only [List.all_eq_true, Bool.not_eq_true']
    exact h
  have := subPaths_all (fun c => !isLineBreak c) (by decide) (by decide) (by decide) (by decide) l hall
  simpa only [List.all_eq_true, Bool.not_eq_true'] using this

/-- **splitlines_subPaths** — for EVERY text: substituting paths and then splitting at Python's line boundaries
(all ten boundary characters, `\r\n` as one) gives the same lines as splitting first and substituting in each line
on its own.  No match crosses a boundary, no boundary is created or destroyed, `\r\n` pairs stay pairs. -/
theorem splitlines_subPaths (s : Str) : splitlines (subPaths s) = (splitlines s).map subPaths := by
  suffices H : ∀ n, ∀ s : Str, s.length = n → splitlines (subPaths s) = (splitlines s).map subPaths from H _ s rfl
  intro n
  induction n using Nat.strongRecOn with
  | ind n ih =>
    intro s hn
    rcases break_decomp s with h | ⟨a, d, b, rfl, ha, hd⟩
    · cases s with
      | nil => simp [subPaths_nil, splitlines]
      | cons c cs =>
        obtain ⟨d, r, hr, _⟩ := subPaths_first c cs
        rw [splitlines_noBreak (c :: cs) (by simp) h,
          splitlines_noBreak (subPaths (c :: cs)) (by rw [hr]; simp) (subPaths_noBreak _ h)]
        rfl
    · have hdel := lineBreak_delim d hd
      have ha' := subPaths_noBreak a ha
      rw [subPaths_split a b d hdel]
      by_cases hcr : d = '\r' ∧ ∃ r, b = '\n' :: r
      · obtain ⟨rfl, r, rfl⟩ := hcr
        rw [subPaths_delim_cons '\n' r nl_delim, splitlines_line_crlf _ _ ha', splitlines_line_crlf _ _ ha,
          ih r.length (by simp at hn; omega) r rfl]
        rfl
      · have hcr' : ¬ (d = '\r' ∧ ∃ r, subPaths b = '\n' :: r) := by
          rintro ⟨hd', r, hr⟩
          cases b with
          | nil => rw [subPaths_nil] at hr; exact absurd hr (by simp)
          | cons c b' =>
            obtain ⟨d', r', hr', hd''⟩ := subPaths_first c b'
            rw [hr'] at hr
            injection hr with h1 _
            rcases hd'' with rfl | rfl
            · exact hcr ⟨hd', b', by rw [h1]⟩
            · exact absurd h1 (by decide)
        rw [splitlines_line_break _ _ d ha' hd hcr', splitlines_line_break _ _ d ha hd hcr,
          ih b.length (by simp at hn; omega) b rfl]
        rfl

example : splitlines (subPaths "x /a/b\r\ny /c/d\x0cz".toList) = ["x ${b}".toList, "y ${d}".toList, "z".toList] := by
  decide +kernel

/-! ## `strip` commutes with the substitution, for every text -/

theorem lstrip_decomp (s : Str) :
    ∃ ws, (∀ c ∈ ws, pyIsSpace c = true) ∧ s = ws ++ lstrip s ∧
      (lstrip s = [] ∨ ∃ c r, lstrip s = c :: r ∧ pyIsSpace c = false) := by
  induction s with
  | nil => exact ⟨[], by simp, rfl, Or.inl rfl⟩
  | cons c cs ih =>
    by_cases hc : pyIsSpace c = true
    · obtain ⟨ws, h1, h2, h3⟩ := ih
      have hl : lstrip (c :: cs) = lstrip cs := by simp [lstrip, List.dropWhile, hc]
      refine ⟨c :: ws, ?_, ?_, ?_⟩
      · intro x hx
        rcases List.mem_cons.1 hx with rfl | hx
        · exact hc
        · exact h1 x hx
      · rw [hl, List.cons_append, ← h2]
      · rw [hl]; exact h3
    · have hc' : pyIsSpace c = false := by simpa using hc
      have hl : lstrip (c :: cs) = c :: cs := lstrip_id c cs hc'
      exact ⟨[], by simp, by rw [hl]; rfl, Or.inr ⟨c, cs, hl, hc'⟩⟩

theorem rstrip_decomp (s : Str) :
    ∃ ws, (∀ c ∈ ws, pyIsSpace c = true) ∧ s = rstrip s ++ ws ∧
      (rstrip s = [] ∨ ∃ x d, rstrip s = x ++ [d] ∧ pyIsSpace d = false) := by
  obtain ⟨ws, h1, h2, h3⟩ := lstrip_decomp s.reverse
  have hr : rstrip s = (lstrip s.reverse).reverse := rfl
  refine ⟨ws.reverse, ?_, ?_, ?_⟩
  · intro c hc; exact h1 c (by simpa using hc)
  · rw [hr, ← List.reverse_append, ← h2, List.reverse_reverse]
  · rcases h3 with h | ⟨c, r, h, hc⟩
    · left; rw [hr, h]; rfl
    · right; exact ⟨r.reverse, c, by rw [hr, h]; simp, hc⟩

theorem lstrip_subPaths (s : Str) : lstrip (subPaths s) = subPaths (lstrip s) := by
  obtain ⟨ws, h1, h2, h3⟩ := lstrip_decomp s
  have hs : subPaths s = ws ++ subPaths (lstrip s) := by
    conv => lhs; rw [h2]
    exact subPaths_blank_prefix ws _ h1
  rw [hs, lstrip_blank_prefix ws _ h1]
  rcases h3 with h | ⟨c, r, h, hc⟩
  · rw [h, subPaths_nil]; rfl
  · rw [h]
    obtain ⟨d, r', hr', hd⟩ := subPaths_first c r
    rw [hr']
    apply lstrip_id
    rcases hd with rfl | rfl
    · exact hc
    · decide

theorem rstrip_subPaths (s : Str) : rstrip (subPaths s) = subPaths (rstrip s) := by
  obtain ⟨ws, h1, h2, h3⟩ := rstrip_decomp s
  have hs : subPaths s = subPaths (rstrip s) ++ ws := by
    conv => lhs; rw [h2]
    exact subPaths_blank_suffix _ ws h1
  rw [hs, rstrip_blank_suffix _ ws h1]
  rcases h3 with h | ⟨x, d, h, hd⟩
  · rw [h, subPaths_nil]; rfl
  · rw [h]
    obtain ⟨z, e', hz, he'⟩ := subPaths_last x d slash_not_seg
    rw [hz]
    apply rstrip_id
    rcases he' with rfl | rfl
    · exact hd
    · decide

/-- **strip_subPaths** — for EVERY text, `strip()` after the substitution = the substitution after `strip()`:
no blank (in particular no line boundary) at either end is consumed, produced or moved by a path match. -/
theorem strip_subPaths (s : Str) : strip (subPaths s) = subPaths (strip s) := by
  unfold strip
  rw [lstrip_subPaths, rstrip_subPaths]

example : strip (subPaths "\r\n  /a/b \x0b".toList) = "${b}".toList := by decide +kernel

/-! ## end to end, for every text -/

/-- **cleaner_lines_all** — `_cleanup_errors` for EVERY text: its lines are the Python lines of the stripped
text (all ten boundaries, `\r\n` as one), each rewritten by the path substitution on its own, neighbouring
duplicates dropped. -/
theorem cleaner_lines_all (msg : Str) :
    cleanupErrors msg = dedupAdj ((splitlines (strip msg)).map subPaths) := by
  rw [cleanupErrors, strip_subPaths, splitlines_subPaths]

/-- **cleaner_end_to_end_all** — `ErrorCleaner.odk_validate` for EVERY diagnostic text that is not the launcher's
jarfile message, whatever separates its lines (`\n`, `\r`, `\r\n`, `\x0b`, `\x0c`, `\x1c`–`\x1e`, `\x85`, U+2028,
U+2029, in any mixture, with any blanks around): the final message is the `\n`-join of the Python lines of the
stripped text, each rewritten by the path substitution *on its own*, neighbouring duplicates (compared AFTER the
rewriting) dropped, stack lines dropped and exception names deleted.  Generalises `cleaner_end_to_end_padded`
(which needed `\n`-only separators and non-blank first/last characters) to all inputs; all separators are
normalised to `\n` in the output. -/
theorem cleaner_end_to_end_all (msg : Str) (hjar : isInfix jarfilePhrase msg = false) :
    odkValidate msg = joinWith ['\n'] ((dedupAdj ((splitlines (strip msg)).map subPaths)).filterMap removeJava) := by
  simp only [odkValidate, hjar, Bool.false_eq_true, ↓reduceIte, cleanLines, cleaner_lines_all]

example : odkValidate "\r\n  Error /data/g/q1 bad\r\n\tat org.Foo(Foo.java:3)\rmore /data/q2\x0bmore /data/q2 end \n".toList
    = "Error ${q1} bad\nmore ${q2}\nend".toList := by decide +kernel

/-- the old statement is the special case of `\n`-joined lines -/
example (ls : List Str) (hne : ls ≠ []) (hlb : ∀ l ∈ ls, ∀ c ∈ l, isLineBreak c = false)
    (hlast : ls.getLast hne ≠ []) (hs : strip (joinWith ['\n'] ls) = joinWith ['\n'] ls)
    (hjar : isInfix jarfilePhrase (joinWith ['\n'] ls) = false) :
    odkValidate (joinWith ['\n'] ls) = joinWith ['\n'] ((dedupAdj (ls.map subPaths)).filterMap removeJava) := by
  rw [cleaner_end_to_end_all _ hjar, hs, splitlines_join ls hne hlb hlast]

/-- **cleaner_lines_noBreak** — for every text (not the jarfile message): the final message contains no
line boundary other than the `\n` the join puts between lines — every `\r`, `\x0b`, `\x85`, U+2028 … of the
validator's output is gone.  Stated per emitted line. -/
theorem cleaner_lines_noBreak (msg : Str) : ∀ l ∈ cleanupErrors msg, ∀ c ∈ l, isLineBreak c = false := by
  intro l hl
  rw [cleaner_lines_all, dedupAdj_mem, List.mem_map] at hl
  obtain ⟨l0, h0, rfl⟩ := hl
  apply subPaths_noBreak
  exact splitlines_lines_noBreak_aux l0 h0
where
  splitlines_lines_noBreak_aux (l0 : Str) (h0 : l0 ∈ splitlines (strip msg)) : ∀ c ∈ l0, isLineBreak c = false := by
    suffices H : ∀ s : Str, ∀ l ∈ splitlines s, ∀ c ∈ l, isLineBreak c = false from H _ l0 h0
    intro s
    suffices H : ∀ n, ∀ s : Str, s.length = n → ∀ l ∈ splitlines s, ∀ c ∈ l, isLineBreak c = false from H _ s rfl
    intro n
    induction n using Nat.strongRecOn with
    | ind n ih =>
      intro s hn l hl
      rcases break_decomp s with h | ⟨a, d, b, rfl, ha, hd⟩
      · cases s with
        | nil => simp [splitlines] at hl
        | cons c cs =>
          rw [splitlines_noBreak (c :: cs) (by simp) h] at hl
          rw [List.mem_singleton.1 hl]; exact h
      · by_cases hcr : d = '\r' ∧ ∃ r, b = '\n' :: r
        · obtain ⟨rfl, r, rfl⟩ := hcr
          rw [splitlines_line_crlf _ _ ha] at hl
          rcases List.mem_cons.1 hl with rfl | hl
          · exact ha
          · exact ih r.length (by simp at hn; omega) r rfl l hl
        · rw [splitlines_line_break _ _ d ha hd hcr] at hl
          rcases List.mem_cons.1 hl with rfl | hl
          · exact ha
          · exact ih b.length (by simp at hn; omega) b rfl l hl

example : ∀ l ∈ cleanupErrors "a\rb c".toList, ∀ c ∈ l, isLineBreak c = false := cleaner_lines_noBreak _

/-! ## the `isSeg` hypothesis of `cleaner_paths_to_refs`, discharged as far as the code allows

A question name may contain characters outside the regex's segment class (`.`, non-ASCII letters: finding C18-F2).
What the code does with ANY last name that starts with at least one segment character: the match ends at the first
character outside the class; the reference shows the segment-character prefix of the name and the rest of the name
follows it verbatim (up to further substitutions inside it).  No hypothesis on the characters of the remainder. -/

/-- **cleaner_paths_name_cut** — a path `/s1/…/s(n-1)/NAME` (n ≥ 2) whose NAME is `p ++ c :: r` with `p` a non-empty
run of segment characters and `c` ANY character outside the segment class other than `/` (e.g. `.`, `é`):
the text is rewritten to `${p}` followed by the substitution of `c :: r ++ post`.  For `c :: r = []`-like names
(all segment characters) this is `cleaner_paths_to_refs`; with it the last name is unrestricted apart from its
first character.  (`/data/g/my.q` ↦ `${my}.q` — the behaviour recorded as finding C18-F2.) -/
theorem cleaner_paths_name_cut (pre post : Str) (init : List Str) (p r : Str) (c : Char)
    (hpre : pre = [] ∨ ∃ q c, pre = q ++ [c] ∧ isSeg c = false)
    (hinit : ∀ s ∈ init, s ≠ [] ∧ ∀ c ∈ s, isSeg c = true) (hlen : 1 ≤ init.length)
    (hp : p ≠ [] ∧ ∀ c ∈ p, isSeg c = true) (hc : isSeg c = false) (hc' : c ≠ '/') :
    subPaths (pre ++ chainText (init ++ [p ++ c :: r]) ++ post)
      = subPaths pre ++ replacement (init ++ [p]) ++ subPaths (c :: r ++ post) := by
  have hct : chainText (init ++ [p ++ c :: r]) = chainText (init ++ [p]) ++ c :: r := by
    rw [chainText_append, chainText_append]
    simp [chainText]
  have hsegs : ∀ s ∈ init ++ [p], s ≠ [] ∧ ∀ c ∈ s, isSeg c = true := by
    intro s hs
    rcases List.mem_append.1 hs with h | h
    · exact hinit s h
    · rw [List.mem_singleton.1 h]; exact hp
  have := (cleaner_paths_to_refs pre (c :: r ++ post) (init ++ [p]) hpre
    (Or.inr ⟨c, r ++ post, rfl, hc, hc'⟩) hsegs (by simp; omega)).1
  rw [hct]
  simpa [List.append_assoc] using this

example : subPaths "bad /data/g/my.q here".toList = "bad ${my}.q here".toList := by
  have := cleaner_paths_name_cut "bad ".toList " here".toList ["data".toList, "g".toList] "my".toList "q".toList '.'
    (Or.inr ⟨"bad".toList, ' ', rfl, by decide +kernel⟩) (by decide +kernel) (by decide)
    (by decide +kernel) (by decide +kernel) (by decide)
  decide +kernel

end Pyxv.Validator
