import Pyxv.Model.SpellRow
/-! Lemmas about `merge_dicts` / `process_row` on headers of one or two tokens. -/
namespace Pyxv.Spell
open Pyxv

namespace KVs
theorem get_set : (d : KVs) → (k k' : Str) → (v : Val) →
    (d.set k v).get k' = if k' = k then some v else d.get k'
  | .nil, k, k', v => by simp [set, get]
  | .cons k2 v2 rest, k, k', v => by
    have ih := get_set rest k k' v
    simp only [set]
    by_cases h : k = k2
    · subst h; simp only [if_true, get]; by_cases h2 : k' = k <;> simp [h2]
    · simp only [h, if_false, get, ih]
      by_cases h2 : k' = k2
      · subst h2; simp [Ne.symm h]
      · simp [h2]

theorem set_ne_nil (d : KVs) (k : Str) (v : Val) : d.set k v ≠ .nil := by
  cases d with
  | nil => simp [set]
  | cons k2 v2 rest => simp only [set]; split <;> simp
end KVs

theorem falsy_dict_ne (d : KVs) (h : d ≠ .nil) : falsy (.dict d) = false := by
  cases d with
  | nil => exact absurd rfl h
  | cons _ _ _ => rfl

theorem falsy_str_ne (s : Str) (h : s ≠ []) : falsy (.str s) = false := by
  cases s with
  | nil => exact absurd rfl h
  | cons _ _ => rfl

/-- merging a one-key dict into a dict touches that key only -/
theorem merge_single (dl : Str) (out : KVs) (c : Str) (X : Val) :
    mergeV dl (.dict out) (.dict (.cons c X .nil)) =
      .dict (match out.get c with
        | some va => out.set c (mergeV dl va X)
        | none => out.set c X) := by
  cases out with
  | nil => simp [mergeV, falsy, KVs.get, KVs.set]
  | cons k v rest =>
    rw [mergeV]
    simp only [falsy, Bool.false_eq_true, if_false]
    rw [mergeL, mergeL]
    cases KVs.get c (KVs.cons k v rest) <;> rfl

theorem rowStep_one (dl : Str) (out : KVs) (c v : Str) :
    rowStep dl out ([c], v) =
      match out.get c with
      | some (.dict d) => out.set c (mergeV dl (.dict d) (.str v))
      | _ => out.set c (.str v) := by
  simp only [rowStep]
  cases h : out.get c with
  | none => rfl
  | some va =>
    cases va with
    | str s => rfl
    | dict d => simp only [merge_single, h]

theorem rowStep_two (dl : Str) (out : KVs) (c l x : Str) :
    rowStep dl out ([c, l], x) =
      match out.get c with
      | some va => out.set c (mergeV dl va (.dict (.cons l (.str x) .nil)))
      | none => out.set c (.dict (.cons l (.str x) .nil)) := by
  simp only [rowStep, nest]
  rw [merge_single]

theorem mV_dict_str (dl : Str) (d : KVs) (v : Str) (hd : d ≠ .nil) (hv : v ≠ []) :
    mergeV dl (.dict d) (.str v) = if d.has dl then .dict d else .dict (d.set dl (.str v)) := by
  rw [mergeV]
  have : v.isEmpty = false := by cases v <;> simp_all
  simp [falsy_dict_ne d hd, this]

theorem mV_str_single (dl p l x : Str) (hp : p ≠ []) :
    mergeV dl (.str p) (.dict (.cons l (.str x) .nil)) =
      if dl = l then .dict (.cons l (.str x) .nil)
      else .dict (.cons dl (.str p) (.cons l (.str x) .nil)) := by
  rw [mergeV]
  simp only [falsy_str_ne p hp, Bool.false_eq_true, if_false, KVs.has, KVs.get]
  by_cases h : dl = l <;> simp [h]

def wf (d : KVs) : Prop := ∀ k v, d.get k = some v → ∃ s, v = .str s

theorem mV_dict_single (dl : Str) (d : KVs) (l x : Str) (hd : d ≠ .nil) (hw : wf d) (hx : x ≠ []) :
    mergeV dl (.dict d) (.dict (.cons l (.str x) .nil)) = .dict (d.set l (.str x)) := by
  rw [merge_single]
  cases h : d.get l with
  | none => rfl
  | some va =>
    obtain ⟨s, rfl⟩ := hw l va h
    simp only
    rw [mergeV]
    have : x.isEmpty = false := by cases x <;> simp_all
    simp only [this]
    by_cases hs : falsy (.str s) = true <;> simp [hs]

end Pyxv.Spell

namespace Pyxv.Spell
open Pyxv

abbrev Cell := List Str × Str

/-- first cell with exactly these tokens -/
def lookupT (k : List Str) : List Cell → Option Str
  | [] => none
  | (k', v) :: rest => if k = k' then some v else lookupT k rest

def isSubOf (c : Str) (p : Cell) : Bool :=
  match p.1 with
  | [c', _] => c' == c
  | _ => false

/-- the row has a two-token cell of column `c` -/
def hasSub (c : Str) (cells : List Cell) : Bool := cells.any (isSubOf c)

def getS (d : KVs) (l : Str) : Option Str :=
  match d.get l with
  | some (.str x) => some x
  | _ => none

/-- **specification** of the value filed under `c → l`: the cell `c::l` if there is one, else — for
    the default language — the unsuffixed cell `c` -/
def eff (dl : Str) (P : List Cell) (c l : Str) : Option Str :=
  match lookupT [c, l] P with
  | some x => some x
  | none => if l = dl then lookupT [c] P else none

def Inv (dl : Str) (out : KVs) (P : List Cell) : Prop := ∀ c,
  (hasSub c P = false → out.get c = (lookupT [c] P).map Val.str) ∧
  (hasSub c P = true → ∃ d, out.get c = some (.dict d) ∧ d ≠ .nil ∧ wf d ∧ ∀ l, getS d l = eff dl P c l)

theorem lookupT_append (k : List Str) (P : List Cell) (k' : List Str) (v : Str) :
    lookupT k (P ++ [(k', v)]) =
      match lookupT k P with
      | some x => some x
      | none => if k = k' then some v else none := by
  induction P with
  | nil => simp [lookupT]
  | cons p rest ih =>
    obtain ⟨k2, v2⟩ := p
    simp only [List.cons_append, lookupT]
    by_cases h : k = k2 <;> simp [h, ih]

theorem hasSub_append (c : Str) (P : List Cell) (cell : Cell) :
    hasSub c (P ++ [cell]) = (hasSub c P || isSubOf c cell) := by
  simp [hasSub, List.any_append]

theorem lookupT_sub_none (c l : Str) (P : List Cell) (h : hasSub c P = false) : lookupT [c, l] P = none := by
  induction P with
  | nil => rfl
  | cons p rest ih =>
    obtain ⟨k2, v2⟩ := p
    simp only [hasSub, List.any_cons, Bool.or_eq_false_iff] at h
    simp only [lookupT]
    by_cases hk : [c, l] = k2
    · subst hk; simp [isSubOf] at h
    · simp only [hk, if_false]; exact ih (by simpa [hasSub] using h.2)

theorem lookupT_ne_nil (k : List Str) (P : List Cell) (v : Str) (hP : ∀ cell ∈ P, cell.2 ≠ [])
    (h : lookupT k P = some v) : v ≠ [] := by
  induction P with
  | nil => simp [lookupT] at h
  | cons p rest ih =>
    obtain ⟨k2, v2⟩ := p
    simp only [lookupT] at h
    by_cases hk : k = k2
    · simp only [hk, if_true, Option.some.injEq] at h; subst h; exact hP (k2, v2) (by simp)
    · simp only [hk, if_false] at h; exact ih (fun c hc => hP c (by simp [hc])) h

theorem getS_set (d : KVs) (k l x : Str) :
    getS (d.set k (.str x)) l = if l = k then some x else getS d l := by
  simp only [getS, KVs.get_set]
  by_cases h : l = k <;> simp [h]

theorem wf_set (d : KVs) (k x : Str) (h : wf d) : wf (d.set k (.str x)) := by
  intro k' v hv
  rw [KVs.get_set] at hv
  by_cases hk : k' = k
  · simp only [hk, if_true, Option.some.injEq] at hv; exact ⟨x, hv.symm⟩
  · simp only [hk, if_false] at hv; exact h k' v hv

theorem has_iff_getS (d : KVs) (h : wf d) (l : Str) : d.has l = (getS d l).isSome := by
  simp only [KVs.has, getS]
  cases hg : d.get l with
  | none => rfl
  | some va => obtain ⟨s, rfl⟩ := h l va hg; rfl

end Pyxv.Spell

namespace Pyxv.Spell
open Pyxv

theorem inv_step_one (dl : Str) (out : KVs) (P : List Cell) (c0 v : Str)
    (hI : Inv dl out P) (hv : v ≠ []) (hnew : lookupT [c0] P = none) :
    Inv dl (rowStep dl out ([c0], v)) (P ++ [([c0], v)]) := by
  intro c
  have hsub : hasSub c (P ++ [([c0], v)]) = hasSub c P := by simp [hasSub_append, isSubOf]
  have hl2 : ∀ l, lookupT [c, l] (P ++ [([c0], v)]) = lookupT [c, l] P := by
    intro l; rw [lookupT_append]; cases lookupT [c, l] P <;> simp
  rw [hsub]
  by_cases hc : c = c0
  · subst hc
    have hl1 : lookupT [c] (P ++ [([c], v)]) = some v := by rw [lookupT_append, hnew]; simp
    obtain ⟨h1, h2⟩ := hI c
    constructor
    · intro hs
      have hg := h1 hs
      rw [hnew] at hg
      rw [rowStep_one, hl1]
      simp only [hg, Option.map_none] at *
      simp [KVs.get_set]
    · intro hs
      obtain ⟨d, hg, hd, hw, hS⟩ := h2 hs
      rw [rowStep_one]
      simp only [hg, mV_dict_str dl d v hd hv]
      by_cases hh : d.has dl = true
      · refine ⟨d, by simp [hh, KVs.get_set], hd, hw, fun l => ?_⟩
        rw [hS l]
        simp only [eff, hl2, hl1, hnew]
        cases hx : lookupT [c, l] P with
        | some x => rfl
        | none =>
          by_cases hl : l = dl
          · subst hl
            -- d has the default language, yet nothing is filed for it: impossible
            have := hS l
            simp only [eff, hx, hnew, if_true] at this
            rw [has_iff_getS d hw, this] at hh
            simp at hh
          · simp [hl]
      · have hh' : d.has dl = false := by simpa using hh
        refine ⟨d.set dl (.str v), by simp [hh', KVs.get_set], KVs.set_ne_nil _ _ _, wf_set _ _ _ hw, fun l => ?_⟩
        rw [getS_set]
        simp only [eff, hl2, hl1]
        by_cases hl : l = dl
        · subst hl
          have := hS l
          rw [has_iff_getS d hw] at hh'
          cases hx : lookupT [c, l] P with
          | some x => simp [eff, hx] at this; rw [this] at hh'; simp at hh'
          | none => simp
        · simp only [hl, if_false]; rw [hS l]; simp [eff, hl]
  · have hl1 : lookupT [c] (P ++ [([c0], v)]) = lookupT [c] P := by
      rw [lookupT_append]; cases lookupT [c] P <;> simp [hc]
    have hget : (rowStep dl out ([c0], v)).get c = out.get c := by
      rw [rowStep_one]; split <;> simp [KVs.get_set, hc]
    rw [hget, hl1]
    obtain ⟨h1, h2⟩ := hI c
    refine ⟨h1, fun hs => ?_⟩
    obtain ⟨d, hg, hd, hw, hS⟩ := h2 hs
    exact ⟨d, hg, hd, hw, fun l => by rw [hS l]; simp [eff, hl2, hl1]⟩

end Pyxv.Spell

namespace Pyxv.Spell
open Pyxv

theorem getS_single (l0 x l : Str) : getS (.cons l0 (.str x) .nil) l = if l = l0 then some x else none := by
  simp only [getS, KVs.get]
  by_cases h : l = l0 <;> simp [h]

theorem wf_single (l0 x : Str) : wf (.cons l0 (.str x) .nil) := by
  intro k v h
  simp only [KVs.get] at h
  by_cases hk : k = l0
  · simp only [hk, if_true, Option.some.injEq] at h; exact ⟨x, h.symm⟩
  · simp [hk] at h

theorem inv_step_two (dl : Str) (out : KVs) (P : List Cell) (c0 l0 x : Str)
    (hI : Inv dl out P) (hx : x ≠ []) (hP : ∀ cell ∈ P, cell.2 ≠ []) (hnew : lookupT [c0, l0] P = none) :
    Inv dl (rowStep dl out ([c0, l0], x)) (P ++ [([c0, l0], x)]) := by
  intro c
  have hl1 : lookupT [c] (P ++ [([c0, l0], x)]) = lookupT [c] P := by
    rw [lookupT_append]; cases lookupT [c] P <;> simp
  by_cases hc : c = c0
  · subst hc
    have hsub : hasSub c (P ++ [([c, l0], x)]) = true := by simp [hasSub_append, isSubOf]
    have hl2 : ∀ l, lookupT [c, l] (P ++ [([c, l0], x)]) =
        match lookupT [c, l] P with
        | some y => some y
        | none => if l = l0 then some x else none := by
      intro l; rw [lookupT_append]; cases lookupT [c, l] P <;> simp
    rw [hsub]
    refine ⟨by simp, fun _ => ?_⟩
    obtain ⟨h1, h2⟩ := hI c
    rw [rowStep_two]
    cases hs : hasSub c P with
    | false =>
      have hg := h1 hs
      have hnone : ∀ l, lookupT [c, l] P = none := fun l => lookupT_sub_none c l P hs
      cases hp : lookupT [c] P with
      | none =>
        rw [hp] at hg
        simp only [Option.map_none] at hg
        simp only [hg]
        refine ⟨_, by simp [KVs.get_set], by simp, wf_single l0 x, fun l => ?_⟩
        rw [getS_single]
        simp only [eff, hl2, hnone, hl1, hp]
        by_cases hl : l = l0 <;> simp [hl]
      | some p =>
        rw [hp] at hg
        simp only [Option.map_some] at hg
        have hpne : p ≠ [] := lookupT_ne_nil [c] P p hP hp
        simp only [hg, mV_str_single dl p l0 x hpne]
        by_cases hd : dl = l0
        · subst hd
          refine ⟨_, by simp [KVs.get_set], by simp, wf_single dl x, fun l => ?_⟩
          rw [getS_single]
          simp only [eff, hl2, hnone, hl1, hp]
          by_cases hl : l = dl <;> simp [hl]
        · refine ⟨.cons dl (.str p) (.cons l0 (.str x) .nil), by simp [hd, KVs.get_set], by simp, ?_, fun l => ?_⟩
          · intro k v h
            simp only [KVs.get] at h
            by_cases hk : k = dl
            · simp only [hk, if_true, Option.some.injEq] at h; exact ⟨p, h.symm⟩
            · simp only [hk, if_false] at h
              by_cases hk2 : k = l0
              · simp only [hk2, if_true, Option.some.injEq] at h; exact ⟨x, h.symm⟩
              · simp [hk2] at h
          · simp only [eff, hl2, hnone, hl1, hp, getS, KVs.get]
            by_cases hl : l = dl
            · subst hl; simp [hd]
            · by_cases hl' : l = l0
              · subst hl'; simp [hl]
              · simp [hl, hl']
    | true =>
      obtain ⟨d, hg, hd, hw, hS⟩ := h2 hs
      simp only [hg, mV_dict_single dl d l0 x hd hw hx]
      refine ⟨d.set l0 (.str x), by simp [KVs.get_set], KVs.set_ne_nil _ _ _, wf_set _ _ _ hw, fun l => ?_⟩
      rw [getS_set]
      simp only [eff, hl2, hl1]
      by_cases hl : l = l0
      · subst hl; simp [hnew]
      · simp only [hl, if_false]; rw [hS l]; simp only [eff]
        cases lookupT [c, l] P <;> simp
  · have hsub : hasSub c (P ++ [([c0, l0], x)]) = hasSub c P := by
      simp [hasSub_append, isSubOf, Ne.symm hc]
    have hl2 : ∀ l, lookupT [c, l] (P ++ [([c0, l0], x)]) = lookupT [c, l] P := by
      intro l; rw [lookupT_append]; cases lookupT [c, l] P <;> simp [hc]
    have hget : (rowStep dl out ([c0, l0], x)).get c = out.get c := by
      rw [rowStep_two]; split <;> simp [KVs.get_set, hc]
    rw [hsub, hget, hl1]
    obtain ⟨h1, h2⟩ := hI c
    refine ⟨h1, fun hs => ?_⟩
    obtain ⟨d, hg, hd, hw, hS⟩ := h2 hs
    exact ⟨d, hg, hd, hw, fun l => by rw [hS l]; simp [eff, hl2, hl1]⟩

end Pyxv.Spell

namespace Pyxv.Spell
open Pyxv

/-- a cell of a one- or two-token header with a non-empty value -/
def shape2 (cell : Cell) : Prop := cell.2 ≠ [] ∧ ((∃ c, cell.1 = [c]) ∨ (∃ c l, cell.1 = [c, l]))

theorem lookupT_none_of_not_mem (k : List Str) (P : List Cell) (h : k ∉ P.map (·.1)) : lookupT k P = none := by
  induction P with
  | nil => rfl
  | cons p rest ih =>
    obtain ⟨k2, v2⟩ := p
    simp only [List.map_cons, List.mem_cons, not_or] at h
    simp only [lookupT, h.1, if_false]
    exact ih h.2

theorem inv_nil (dl : Str) : Inv dl .nil [] := by
  intro c; simp [hasSub, KVs.get, lookupT]

theorem inv_fold (dl : Str) (rest : List Cell) : ∀ (P : List Cell) (out : KVs), Inv dl out P →
    (∀ cell ∈ P ++ rest, shape2 cell) → ((P ++ rest).map (·.1)).Nodup →
    Inv dl (rest.foldl (rowStep dl) out) (P ++ rest) := by
  induction rest with
  | nil => intro P out hI _ _; simpa using hI
  | cons cell rest ih =>
    intro P out hI hs nd
    have e : P ++ cell :: rest = (P ++ [cell]) ++ rest := by simp
    rw [e] at hs nd ⊢
    simp only [List.foldl_cons]
    apply ih (P ++ [cell]) _ _ hs nd
    have hcell : shape2 cell := hs cell (by simp)
    have hP : ∀ c ∈ P, c.2 ≠ [] := fun c hc => (hs c (by simp [hc])).1
    have hnew : lookupT cell.1 P = none := by
      apply lookupT_none_of_not_mem
      simp only [List.map_append, List.map_cons, List.map_nil, List.append_assoc] at nd
      have := (List.nodup_append.mp nd).2.2
      intro hmem
      exact this _ hmem _ (by simp) rfl
    obtain ⟨k, v⟩ := cell
    obtain ⟨hv, hk | hk⟩ := hcell
    · obtain ⟨c, rfl⟩ := hk
      exact inv_step_one dl out P c v hI hv hnew
    · obtain ⟨c, l, rfl⟩ := hk
      exact inv_step_two dl out P c l v hI hv hP hnew

/-- **what `process_row` builds** from cells of one- and two-token headers: a column without suffixed
    cells holds its plain value; a column with suffixed cells holds a dict in which every `c::l` cell is
    filed under `l`, and the unsuffixed cell under the default language unless `c::<default>` exists -/
theorem processRow_spec (dl : Str) (cells : List Cell) (hs : ∀ cell ∈ cells, shape2 cell)
    (nd : (cells.map (·.1)).Nodup) : Inv dl (processRow dl cells) cells := by
  have := inv_fold dl cells [] .nil (inv_nil dl) (by simpa using hs) (by simpa using nd)
  simpa [processRow] using this

theorem lookupT_eq_some_iff (k : List Str) (v : Str) (P : List Cell) (nd : (P.map (·.1)).Nodup) :
    lookupT k P = some v ↔ (k, v) ∈ P := by
  induction P with
  | nil => simp [lookupT]
  | cons p rest ih =>
    obtain ⟨k2, v2⟩ := p
    simp only [List.map_cons, List.nodup_cons] at nd
    simp only [lookupT, List.mem_cons, Prod.mk.injEq]
    by_cases h : k = k2
    · subst h
      simp only [if_true, Option.some.injEq, true_and]
      constructor
      · intro e; exact Or.inl e.symm
      · rintro (e | hm)
        · exact e.symm
        · exact absurd (List.mem_map_of_mem (f := (·.1)) hm) nd.1
    · simp only [h, if_false, false_and, false_or]; exact ih nd.2

theorem lookupT_perm (k : List Str) (P P' : List Cell) (hp : P'.Perm P) (nd : (P.map (·.1)).Nodup) :
    lookupT k P' = lookupT k P := by
  have nd' : (P'.map (·.1)).Nodup := (hp.map _).nodup_iff.mpr nd
  apply Option.ext
  intro v
  rw [lookupT_eq_some_iff k v P' nd', lookupT_eq_some_iff k v P nd, hp.mem_iff]

theorem hasSub_perm (c : Str) (P P' : List Cell) (hp : P'.Perm P) : hasSub c P' = hasSub c P := by
  simp only [hasSub]
  rw [Bool.eq_iff_iff]
  simp only [List.any_eq_true]
  constructor <;> rintro ⟨x, hx, h⟩
  · exact ⟨x, hp.mem_iff.mp hx, h⟩
  · exact ⟨x, hp.mem_iff.mpr hx, h⟩

end Pyxv.Spell
