import Pyxv.Proofs.C05
import Pyxv.Model.BindsRefs
/-!
# C05 ∘ C03 — bind attribute values with references to questions anywhere in the form

`Pyxv.Binds.formBindsR` is `formBinds` with the reference substitution replaced by C03's model of
`Survey.insert_xpaths` (`Pyxv.Refs.insertXpathsText`), called from the row's own node.
-/
namespace Pyxv.C05
open Pyxv Pyxv.Binds

/-- lookup in the attribute list, for any substitution -/
theorem lookup_attrsOfG (sub : Str → Option Str) (path : Str) (trig : Bool) :
    ∀ (b : BindDict) (attrs : List (Str × Str)), attrsOfG sub path trig b = some attrs → ∀ k,
      lookup k attrs =
        if dropped trig k then none else (lookup k b).bind (fun v => (convVal path k v).bind sub) := by
  intro b
  induction b with
  | nil =>
    intro attrs h k
    simp only [attrsOfG, Option.some.injEq] at h
    subst h
    show none = _
    split <;> rfl
  | cons p rest ih =>
    obtain ⟨k0, v0⟩ := p
    intro attrs h k
    unfold attrsOfG at h
    split at h
    · next hc =>
      rw [ih attrs h k]
      simp only [lookup]
      by_cases hk : k = k0
      · subst hk
        have : dropped trig k = true := hc
        rw [if_pos this, if_pos this]
      · rw [if_neg hk]
    · next hc =>
      split at h
      · cases h
      · next s hs =>
        split at h
        · cases h
        · next s' hs' =>
          cases hr : attrsOfG sub path trig rest with
          | none => rw [hr] at h; cases h
          | some r' =>
            rw [hr] at h
            simp only [Option.map_some, Option.some.injEq] at h
            subst h
            simp only [lookup]
            by_cases hk : k = k0
            · subst hk
              have hd : dropped trig k = false := by
                unfold dropped
                cases hx : (trig && decide (k = calcKey)) with
                | false => rfl
                | true => exact absurd hx hc
              rw [if_pos rfl, if_pos rfl, hd]
              simp only [Bool.false_eq_true, if_false, Option.bind_some, hs, hs']
            · rw [if_neg hk, if_neg hk]
              exact ih r' hr k

/-- **bind_of_row_refs.**  In the composed model the attribute list of a node's bind is, as a finite map, what the
property prescribes, with C03's reference substitution: for every attribute name `k` the value is
`Refs.insertXpathsText` (from the row's own node `c`, over the chains `els` of the whole form) of the converted logic
cell of *this row* if it has one for `k`, else of the converted type-table value, else absent.  For all forms
(any nesting of groups/repeats), all rows, all expressions, all attribute names. -/
theorem bind_of_row_refs (els : List Refs.Chain) (c : Refs.Chain) (trig : Bool)
    (tt : List (Str × Str)) (logic : BindDict) (attrs : List (Str × Str))
    (hl : (logic.map (·.1)).Nodup)
    (h : attrsOfR els c trig (dictUpdate (tt.map fun (k, v) => (k, BVal.s v)) logic) = some attrs)
    (k : Str) :
    lookup k attrs = (Spec.source tt logic trig k).bind (Spec.valueR els c k) := by
  unfold attrsOfR at h
  rw [lookup_attrsOfG _ _ trig _ attrs h k, lookup_dictUpdate _ _ _ hl, lookup_map_s]
  unfold Spec.source dropped
  cases hc : (trig && decide (k = calcKey)) with
  | true => rfl
  | false =>
    simp only [Bool.false_eq_true, if_false]
    cases lookup k logic with
    | none => rfl
    | some v => rfl

/-- the substituted value is C03's `insert_xpaths` of the converted cell, from the row's own node -/
theorem valueR_is_insertXpathsText (els : List Refs.Chain) (c : Refs.Chain) (k : Str) (v : BVal) (s r : Str)
    (hv : convVal (Form.xpathStr c.path) k v = some s) (h : Spec.valueR els c k v = some r) :
    Refs.insertXpathsText els (some c) false false s = some r := by
  unfold Spec.valueR at h
  rw [hv] at h
  simp only [Option.bind_some, substR] at h
  split at h
  · exact h
  · cases h

/-- the old model's `attrsOf` is the generic one with the old substitution: every theorem about `attrsOfG` specialises -/
theorem attrsOf_eq_attrsOfG (root : Str) (tops : List Str) (path : Str) (trig : Bool) (b : BindDict) :
    attrsOf root tops path trig b = attrsOfG (subst root tops none) path trig b := by
  induction b with
  | nil => rfl
  | cons p rest ih =>
    obtain ⟨k0, v0⟩ := p
    rw [attrsOf, attrsOfG, ih]
    split
    · rfl
    · cases convVal path k0 v0 with
      | none => rfl
      | some s =>
        dsimp only
        cases subst root tops none s <;> rfl

theorem mkElemC_erase (root : Str) (st : List (Str × Bool)) (kind : Refs.Kind) (q : Q) :
    (mkElemC root st kind q).erase = mkElem root st q := by
  simp [mkElemC, ElemC.erase, mkElem, stChain, Refs.Chain.path, List.map_reverse, Function.comp_def]

/-- **walkC_erase.**  The composed model walks the rows exactly as `Pyxv.Binds.walk` does: forgetting the kinds gives
the same elements with the same paths in the same order — so which nodes carry a bind, their nodesets and their order
(`binds_exactly_where_prescribed`, `one_bind_per_node`, `meta_binds_after_rows` about `walk`) are those of the composed
model too. -/
theorem walkC_erase (root : Str) : ∀ (ks : List RK) (st : List (Str × Bool)),
    (walkC root st ks).map (·.map ElemC.erase) = walk root st ks := by
  intro ks
  induction ks with
  | nil => intro st; unfold walkC walk; split <;> rfl
  | cons r rs ih =>
    intro st
    cases r with
    | skip => unfold walkC walk; exact ih st
    | qs l =>
      unfold walkC walk
      rw [← ih st]
      cases walkC root st rs with
      | none => rfl
      | some es => simp [mkElemC_erase, Function.comp_def]
    | begin_ rep pre q =>
      unfold walkC walk
      rw [← ih ((q.name, rep) :: st)]
      cases walkC root ((q.name, rep) :: st) rs with
      | none => rfl
      | some es => simp [mkElemC_erase, Function.comp_def]
    | end_ rep =>
      cases st with
      | nil => unfold walkC walk; rfl
      | cons p st' =>
        obtain ⟨n, rep'⟩ := p
        unfold walkC walk
        split
        · exact ih st'
        · rfl
    | unsupported w => unfold walkC walk; rfl

/-- every bind of the composed model sits on the path of its element: nodeset = the chain's xpath -/
theorem xmlBindR_path (els : List Refs.Chain) (e : ElemC) (b : Bind) (h : xmlBindR els e = some (some b)) :
    b.path = e.erase.path := by
  unfold xmlBindR at h
  split at h
  · cases h
  · split at h
    · cases h
    · cases ha : attrsOfR els e.chain e.q.trigger _ with
      | none => rw [ha] at h; cases h
      | some a =>
        rw [ha] at h
        simp only [Option.map_some, Option.some.injEq] at h
        subst h
        rfl

/-! ## non-vacuity -/

section Examples

def exQ (n : String) (b : Option BindDict) : Q := { name := n.toList, tt := typeBind "integer".toList, bind := b }

/-- a repeat `r` with `a` and `b` (`b` relevant on `${a}`, constraint on top-level `${t}`) after a top-level `t` -/
def exKs : List RK :=
  [.qs [exQ "t" none],
   .begin_ true [] { name := "r".toList, tt := none, bind := none },
   .qs [exQ "a" none],
   .qs [exQ "b" (some [("relevant".toList, .s "${a} > 1".toList), ("constraint".toList, .s ". < ${t}".toList)])],
   .end_ true]

example : (match bindsOfRowsR "data".toList exKs [] with
    | .ok bs => bs.map fun b => (String.ofList (Form.xpathStr b.path), b.attrs.map fun kv => (String.ofList kv.1, String.ofList kv.2))
    | _ => []) =
    [("/data/t", [("type", "int")]),
     ("/data/r/a", [("type", "int")]),
     ("/data/r/b", [("type", "int"), ("relevant", " ../a  > 1"), ("constraint", ". <  /data/t ")]),
     ("/data/meta/instanceID", [("type", "string"), ("readonly", "true()"), ("jr:preload", "uid")])] := by decide +kernel

/-- the old model does not answer for this form -/
example : (match bindsOfRows "data".toList exKs [] with | .unsupported _ => true | _ => false) = true := by decide +kernel

-- bind_of_row_refs / valueR_is_insertXpathsText: hypotheses satisfiable, with a relative reference
example : ∃ els c attrs, attrsOfR els c false (dictUpdate ([("type".toList, "int".toList)].map fun (k, v) => (k, BVal.s v))
      [("relevant".toList, .s "${a} > 1".toList)]) = some attrs ∧
    lookup "relevant".toList attrs = some " ../a  > 1".toList :=
  ⟨[[("data".toList, .group)], [("data".toList, .group), ("r".toList, .rep)],
    [("data".toList, .group), ("r".toList, .rep), ("a".toList, .q)],
    [("data".toList, .group), ("r".toList, .rep), ("b".toList, .q)]],
   [("data".toList, .group), ("r".toList, .rep), ("b".toList, .q)],
   [("type".toList, "int".toList), ("relevant".toList, " ../a  > 1".toList)], by decide +kernel, by decide +kernel⟩

example : (walkC "data".toList [] exKs).map (·.map ElemC.erase) = walk "data".toList [] exKs ∧
    (walk "data".toList [] exKs).isSome = true := ⟨walkC_erase _ _ _, by decide +kernel⟩

example : attrsOf "data".toList ["t".toList] "/data/b".toList false [("relevant".toList, .s "${t} > 1".toList)]
    = some [("relevant".toList, " /data/t  > 1".toList)] := by decide +kernel

end Examples

end Pyxv.C05

/-! ## the executable spec (`Spec.expectedG`, what the oracle evaluates) is the lookup form of `bind_of_row(_refs)` -/

namespace Pyxv.C05
open Pyxv Pyxv.Binds

theorem mem_dedup (k : Str) : ∀ l : List Str, k ∈ Spec.dedup l ↔ k ∈ l
  | [] => by simp [Spec.dedup]
  | a :: l => by
    have ih := mem_dedup k l
    by_cases h : k = a
    · subst h; simp [Spec.dedup]
    · simp [Spec.dedup, List.mem_filter, ih, h]

/-- the fold of `expectedG` over any key list, read by lookup -/
theorem expectedG_fold_lookup (val : Str → BVal → Option Str) (tt : List (Str × Str)) (logic : BindDict) (trig : Bool) :
    ∀ (keys : List Str) (l : List (Str × Str)),
      keys.foldr (fun k acc =>
        match acc with
        | none => none
        | some l =>
          match Spec.source tt logic trig k with
          | none => some l
          | some v =>
            match val k v with
            | none => none
            | some s => some ((k, s) :: l)) (some []) = some l →
      ∀ k, lookup k l = if k ∈ keys then (Spec.source tt logic trig k).bind (val k) else none := by
  intro keys
  induction keys with
  | nil => intro l h k; simp only [List.foldr_nil, Option.some.injEq] at h; subst h; simp [lookup]
  | cons k0 ks ih =>
    intro l h k
    simp only [List.foldr_cons] at h
    split at h
    · cases h
    · next l' hl' =>
      have ih' := ih l' hl' k
      split at h
      · next hs =>
        simp only [Option.some.injEq] at h
        subst h
        rw [ih']
        by_cases hk : k = k0
        · subst hk
          simp [hs]
        · simp [hk]
      · next v hs =>
        split at h
        · cases h
        · next s hv =>
          simp only [Option.some.injEq] at h
          subst h
          simp only [lookup]
          by_cases hk : k = k0
          · subst hk
            simp [hs, hv]
          · rw [if_neg hk, ih']
            simp [hk]

/-- **expectedG_lookup.**  The attribute map the oracle computes (`Spec.expected` / `Spec.expectedR` are instances of
`Spec.expectedG`) is, read by lookup, the right-hand side of `bind_of_row` / `bind_of_row_refs`, for every key. -/
theorem expectedG_lookup (val : Str → BVal → Option Str) (tt : List (Str × Str)) (logic : BindDict) (trig : Bool)
    (l : List (Str × Str)) (h : Spec.expectedG val tt logic trig = some l) (k : Str) :
    lookup k l = (Spec.source tt logic trig k).bind (val k) := by
  unfold Spec.expectedG at h
  rw [expectedG_fold_lookup val tt logic trig _ l h k]
  split
  · rfl
  · next hk =>
    rw [mem_dedup, List.mem_append, not_or] at hk
    have h1 : lookup k tt = none := lookup_eq_none k tt hk.1
    have h2 : lookup k logic = none := lookup_eq_none k logic hk.2
    unfold Spec.source
    split
    · rfl
    · rw [h2, h1]; rfl

/-- `Spec.expected` (the oracle of the first model) is the instance of `expectedG` at `Spec.value` -/
theorem expected_eq_expectedG (root : Str) (tops : List Str) (path : Str) (tt : List (Str × Str)) (logic : BindDict)
    (trig : Bool) : Spec.expected root tops path tt logic trig = Spec.expectedG (fun k => Spec.value root tops path k) tt logic trig := rfl

/-- **oracle_is_bind_refs.**  Whenever the composed model emits a bind and the oracle's `Spec.expectedR` answers for the
same node, the two are the same finite map: what the oracle demands of the implementation's output is exactly what the
model's bind carries, key by key. -/
theorem oracle_is_bind_refs (els : List Refs.Chain) (c : Refs.Chain) (trig : Bool)
    (tt : List (Str × Str)) (logic : BindDict) (attrs l : List (Str × Str))
    (hl : (logic.map (·.1)).Nodup)
    (h : attrsOfR els c trig (dictUpdate (tt.map fun (k, v) => (k, BVal.s v)) logic) = some attrs)
    (he : Spec.expectedR els c tt logic trig = some l) (k : Str) :
    lookup k attrs = lookup k l := by
  rw [bind_of_row_refs els c trig tt logic attrs hl h k]
  exact (expectedG_lookup (Spec.valueR els c) tt logic trig l he k).symm

/-- the same for the first model: `Spec.expected` against `attrsOf` -/
theorem oracle_is_bind (root : Str) (tops : List Str) (path : Str) (trig : Bool)
    (tt : List (Str × Str)) (logic : BindDict) (attrs l : List (Str × Str))
    (hl : (logic.map (·.1)).Nodup)
    (h : attrsOf root tops path trig (dictUpdate (tt.map fun (k, v) => (k, BVal.s v)) logic) = some attrs)
    (he : Spec.expected root tops path tt logic trig = some l) (k : Str) :
    lookup k attrs = lookup k l := by
  rw [bind_of_row root tops path trig tt logic attrs hl h k]
  rw [expected_eq_expectedG] at he
  exact (expectedG_lookup _ tt logic trig l he k).symm

-- non-vacuity: both hypotheses of `oracle_is_bind_refs` hold for a row with a relative reference
example : ∃ els c attrs l, attrsOfR els c false (dictUpdate ([("type".toList, "int".toList)].map fun (k, v) => (k, BVal.s v))
      [("relevant".toList, .s "${a} > 1".toList)]) = some attrs ∧
    Spec.expectedR els c [("type".toList, "int".toList)] [("relevant".toList, .s "${a} > 1".toList)] false = some l ∧
    lookup "relevant".toList l = some " ../a  > 1".toList :=
  ⟨[[("data".toList, .group)], [("data".toList, .group), ("r".toList, .rep)],
    [("data".toList, .group), ("r".toList, .rep), ("a".toList, .q)],
    [("data".toList, .group), ("r".toList, .rep), ("b".toList, .q)]],
   [("data".toList, .group), ("r".toList, .rep), ("b".toList, .q)],
   [("type".toList, "int".toList), ("relevant".toList, " ../a  > 1".toList)],
   [("type".toList, "int".toList), ("relevant".toList, " ../a  > 1".toList)], by decide +kernel, by decide +kernel, by decide +kernel⟩

example : Spec.expected "data".toList ["t".toList] "/data/b".toList [("type".toList, "int".toList)]
    [("relevant".toList, .s "${t} > 1".toList)] false
    = some [("type".toList, "int".toList), ("relevant".toList, " /data/t  > 1".toList)] := by decide +kernel

end Pyxv.C05

/-! ## where the binds of the composed model sit -/

namespace Pyxv.C05
open Pyxv Pyxv.Binds

/-- **binds_exactly_where_prescribed_refs.**  In the composed model, too, the binds are exactly at the elements that carry
a (non-empty) bind dict, in document order, each on its own element's path. -/
theorem binds_exactly_where_prescribed_refs (els : List Refs.Chain) :
    ∀ (es : List ElemC) (bs : List Bind), renderAllR els es = some bs →
      bs.map (·.path) = ((es.map ElemC.erase).filter fun e => (elemBind e.q).isSome).map (·.path) := by
  intro es
  induction es with
  | nil => intro bs h; simp only [renderAllR, Option.some.injEq] at h; subst h; rfl
  | cons e rest ih =>
    intro bs h
    unfold renderAllR at h
    split at h
    · cases h
    · next ob hx =>
      split at h
      · cases h
      · next bs' hr =>
        simp only [Option.some.injEq] at h
        subst h
        have := ih bs' hr
        unfold xmlBindR at hx
        split at hx
        · next hn =>
          simp only [Option.some.injEq] at hx
          subst hx
          simp [hn, this, ElemC.erase]
        · next bd hb =>
          split at hx
          · cases hx
          · cases ha : attrsOfR els e.chain e.q.trigger bd with
            | none => simp [ha] at hx
            | some a =>
              simp only [ha, Option.map_some, Option.some.injEq] at hx
              subst hx
              simp [hb, this, ElemC.erase]

theorem metaElemC_erase (root : Str) (q : Q) : (metaElemC root q).erase = metaElem root q := by
  simp [metaElemC, metaElem, ElemC.erase, metaChain, Refs.Chain.path]

theorem instanceIDC_erase (root : Str) : (instanceIDC root).erase = instanceID root := by
  simp [instanceIDC, instanceID, ElemC.erase, metaChain, Refs.Chain.path]

/-- **one_bind_per_node_refs.**  The nodesets of the binds of the composed model are pairwise distinct, for all row
lists and nestings. -/
theorem one_bind_per_node_refs (root : Str) (ks : List RK) (metas : List Q) (bs : List Bind) {extra : List Str}
    (h : bindsOfRowsR root ks metas extra = .ok bs) : (bs.map (·.path)).Nodup := by
  unfold bindsOfRowsR at h
  simp only at h
  split at h
  · cases h
  next hnames =>
  split at h
  · cases h
  split at h
  · cases h
  split at h
  · cases h
  next es hw =>
  split at h
  · cases h
  next bs' hr =>
  split at h
  case isFalse => cases h
  simp only [Out.ok.injEq] at h
  subst h
  have hw' : walk root [] ks = some (es.map ElemC.erase) := by
    rw [← walkC_erase root ks [], hw]; rfl
  rw [binds_exactly_where_prescribed_refs _ _ _ hr]
  refine ((List.filter_sublist).map _).nodup ?_
  apply nodup_of_map (fun p => p.getLast?)
  rw [List.map_map]
  have he : (es ++ (metas.map (metaElemC root) ++ [instanceIDC root])).map ElemC.erase
      = es.map ElemC.erase ++ (metas.map (metaElem root) ++ [instanceID root]) := by
    simp [List.map_append, List.map_map, Function.comp_def, metaElemC_erase, instanceIDC_erase]
  rw [he]
  show ((es.map ElemC.erase ++ (metas.map (metaElem root) ++ [instanceID root])).map (fun e => e.path.getLast?)).Nodup
  have hm : (metas.map (metaElem root)).map (fun e => e.path.getLast?) = (metas.map (·.name)).map some := by
    simp [List.map_map, metaElem, Function.comp_def]
  rw [List.map_append, List.map_append, hm, walk_lasts root ks [] _ hw', ← List.append_assoc, ← List.map_append]
  show ((allNames ks metas).map some ++ [instanceID root].map (fun e => e.path.getLast?)).Nodup
  simp only [Bool.or_eq_true, Bool.not_eq_true', decide_eq_false_iff_not, not_or, Bool.not_eq_true,
    Decidable.not_not] at hnames
  obtain ⟨hnd, hres⟩ := hnames
  have hn : (allNames ks metas).Nodup := nodup_of_map lowerAscii _ hnd
  rw [List.nodup_append]
  refine ⟨List.Pairwise.map some (fun a b hab e => hab (Option.some.inj e)) hn, by simp, ?_⟩
  intro a ha b hb
  simp only [List.map_cons, List.map_nil, List.mem_singleton] at hb
  subst hb
  obtain ⟨n, hn1, rfl⟩ := List.mem_map.mp ha
  intro e
  have e' : n = "instanceID".toList := Option.some.inj e
  subst e'
  have : ((allNames ks metas).map lowerAscii).any (reservedNames root).contains = true := by
    rw [List.any_eq_true]
    refine ⟨lowerAscii "instanceID".toList, List.mem_map.mpr ⟨_, hn1, rfl⟩, ?_⟩
    rw [lower_instanceID]
    simp [reservedNames]
  rw [this] at hres
  cases hres

-- non-vacuity: the hypothesis holds for the repeat example above (4 binds)
example : ∃ bs, bindsOfRowsR "data".toList exKs [] = .ok bs ∧ bs.length = 4 := by
  cases h : bindsOfRowsR "data".toList exKs [] with
  | ok bs =>
    refine ⟨bs, rfl, ?_⟩
    have : (match bindsOfRowsR "data".toList exKs [] with | .ok bs => bs.length | _ => 0) = 4 := by decide +kernel
    rw [h] at this
    exact this
  | dupHeader a b =>
    have : (match bindsOfRowsR "data".toList exKs [] with | .ok _ => true | _ => false) = true := by decide +kernel
    rw [h] at this; cases this
  | unsupported w =>
    have : (match bindsOfRowsR "data".toList exKs [] with | .ok _ => true | _ => false) = true := by decide +kernel
    rw [h] at this; cases this

end Pyxv.C05

/-! ## noninterference for the composed model -/

namespace Pyxv.C05
open Pyxv Pyxv.Binds

theorem renderAllR_append (els : List Refs.Chain) : ∀ (x y : List ElemC),
    renderAllR els (x ++ y) =
      match renderAllR els x, renderAllR els y with
      | some bx, some b => some (bx ++ b)
      | _, _ => none := by
  intro x y
  induction x with
  | nil => simp only [List.nil_append, renderAllR]; cases renderAllR els y <;> rfl
  | cons e x ih =>
    simp only [List.cons_append]
    rw [renderAllR, ih, renderAllR]
    cases xmlBindR els e with
    | none => rfl
    | some ob =>
      cases renderAllR els x with
      | none => rfl
      | some bx =>
        cases renderAllR els y with
        | none => rfl
        | some b => cases ob <;> rfl

/-- the bind list of a single element: empty or one bind on the element's path -/
theorem renderAllR_single (els : List Refs.Chain) (e : ElemC) (m : List Bind) (h : renderAllR els [e] = some m) :
    m.length ≤ 1 ∧ ∀ b ∈ m, b.path = e.chain.path := by
  unfold renderAllR at h
  cases hx : xmlBindR els e with
  | none => rw [hx] at h; cases h
  | some ob =>
    rw [hx] at h
    simp only [renderAllR, Option.some.injEq] at h
    subst h
    cases ob with
    | none => simp
    | some b =>
      refine ⟨by simp, ?_⟩
      intro b' hb'
      simp only [List.mem_singleton] at hb'
      subst hb'
      exact xmlBindR_path els e b' hx

/-- **noninterference_refs.**  In the composed model, replacing one element by another on the same chain (same name, same
kind, same ancestors: any change of its logic cells, type-table entry or trigger) changes no other element's bind:
the two bind lists are `ba ++ m ++ bb` and `ba ++ m' ++ bb` with `m`, `m'` the (at most one) bind of the edited node.
The reference table `allChains` depends on names and kinds only, so every other row's substituted values stay the same. -/
theorem noninterference_refs (root : Str) (metas : List Q) (A B tail : List ElemC) (e e' : ElemC) (hc : e'.chain = e.chain)
    (bs bs' : List Bind)
    (h : renderAllR (allChains root (A ++ e :: B) metas) (A ++ e :: B ++ tail) = some bs)
    (h' : renderAllR (allChains root (A ++ e' :: B) metas) (A ++ e' :: B ++ tail) = some bs') :
    ∃ ba m m' bb, bs = ba ++ m ++ bb ∧ bs' = ba ++ m' ++ bb ∧ m.length ≤ 1 ∧ m'.length ≤ 1 ∧
      (∀ b ∈ m, b.path = e.chain.path) ∧ (∀ b ∈ m', b.path = e.chain.path) := by
  have hels : allChains root (A ++ e' :: B) metas = allChains root (A ++ e :: B) metas := by
    simp [allChains, hc]
  rw [hels] at h'
  generalize allChains root (A ++ e :: B) metas = els at h h'
  have e1 : A ++ e :: B ++ tail = A ++ ([e] ++ (B ++ tail)) := by simp
  have e2 : A ++ e' :: B ++ tail = A ++ ([e'] ++ (B ++ tail)) := by simp
  rw [e1, renderAllR_append, renderAllR_append] at h
  rw [e2, renderAllR_append, renderAllR_append] at h'
  cases ha : renderAllR els A with
  | none => simp [ha] at h
  | some ba =>
    cases hb : renderAllR els (B ++ tail) with
    | none => rw [ha, hb] at h; cases hm : renderAllR els [e] <;> simp [hm] at h
    | some bb =>
      cases hm : renderAllR els [e] with
      | none => simp [ha, hb, hm] at h
      | some m =>
        cases hm' : renderAllR els [e'] with
        | none => simp [ha, hb, hm'] at h'
        | some m' =>
          simp only [ha, hb, hm, Option.some.injEq] at h
          simp only [ha, hb, hm', Option.some.injEq] at h'
          refine ⟨ba, m, m', bb, by rw [← h, List.append_assoc], by rw [← h', List.append_assoc],
            (renderAllR_single els e m hm).1, (renderAllR_single els e' m' hm').1, (renderAllR_single els e m hm).2, ?_⟩
          intro b hb'
          rw [← hc]
          exact (renderAllR_single els e' m' hm').2 b hb'

end Pyxv.C05

namespace Pyxv.C05
open Pyxv Pyxv.Binds

section NIExample
def niA : List ElemC :=
  [mkElemC "data".toList [] .q (exQ "t" none),
   mkElemC "data".toList [] .rep { name := "r".toList, tt := none, bind := none },
   mkElemC "data".toList [("r".toList, true)] .q (exQ "a" none)]
def niE : ElemC := mkElemC "data".toList [("r".toList, true)] .q (exQ "b" (some [("relevant".toList, .s "${a} > 1".toList)]))
def niE' : ElemC := mkElemC "data".toList [("r".toList, true)] .q (exQ "b" (some [("constraint".toList, .s ". < ${t}".toList)]))
def niB : List ElemC := [mkElemC "data".toList [("r".toList, true)] .q (exQ "c" (some [("calculate".toList, .s "${b} + ${a}".toList)]))]

-- the hypotheses of `noninterference_refs` are satisfiable: both forms render, the edited row keeps its chain, and the
-- other rows' binds contain references (to the edited row, too)
example : niE'.chain = niE.chain ∧
    (renderAllR (allChains "data".toList (niA ++ niE :: niB) []) (niA ++ niE :: niB ++ [instanceIDC "data".toList])).isSome = true ∧
    (renderAllR (allChains "data".toList (niA ++ niE' :: niB) []) (niA ++ niE' :: niB ++ [instanceIDC "data".toList])).isSome = true := by
  decide +kernel
end NIExample

end Pyxv.C05

namespace Pyxv.C05
open Pyxv Pyxv.Binds

/-- an accepted form of the composed model: its binds are `renderAllR` over the walked elements + the meta block -/
theorem bindsOfRowsR_ok (root : Str) (ks : List RK) (metas : List Q) (bs : List Bind) {extra : List Str}
    (h : bindsOfRowsR root ks metas extra = .ok bs) :
    ∃ es, walkC root [] ks = some es ∧
      renderAllR (allChains root es metas) (es ++ (metas.map (metaElemC root) ++ [instanceIDC root])) = some bs := by
  unfold bindsOfRowsR at h
  simp only at h
  split at h
  · cases h
  split at h
  · cases h
  split at h
  · cases h
  split at h
  · cases h
  next es hw =>
  split at h
  · cases h
  next bs' hr =>
  split at h
  case isFalse => cases h
  simp only [Out.ok.injEq] at h
  subst h
  exact ⟨es, hw, hr⟩

/-- **noninterference_form_refs.**  Two row lists accepted by the composed model whose walked elements differ in one
element only, on the same chain (an edit of that row's logic cells / type that keeps its name, kind and position):
every other node's bind — rows before, rows after, the meta block — is identical, although other rows may refer to the
edited one. -/
theorem noninterference_form_refs (root : Str) (ks ks' : List RK) (metas : List Q) (A B : List ElemC) (e e' : ElemC)
    (hc : e'.chain = e.chain)
    (hw : walkC root [] ks = some (A ++ e :: B)) (hw' : walkC root [] ks' = some (A ++ e' :: B))
    {extra : List Str} (bs bs' : List Bind)
    (h : bindsOfRowsR root ks metas extra = .ok bs) (h' : bindsOfRowsR root ks' metas extra = .ok bs') :
    ∃ ba m m' bb, bs = ba ++ m ++ bb ∧ bs' = ba ++ m' ++ bb ∧ m.length ≤ 1 ∧ m'.length ≤ 1 ∧
      (∀ b ∈ m, b.path = e.chain.path) ∧ (∀ b ∈ m', b.path = e.chain.path) := by
  obtain ⟨es, hes, hr⟩ := bindsOfRowsR_ok root ks metas bs h
  obtain ⟨es', hes', hr'⟩ := bindsOfRowsR_ok root ks' metas bs' h'
  rw [hw] at hes
  rw [hw'] at hes'
  cases hes
  cases hes'
  exact noninterference_refs root metas A B _ e e' hc bs bs' hr hr'

end Pyxv.C05

namespace Pyxv.C05
open Pyxv Pyxv.Binds

section NIFormExample
deriving instance DecidableEq for Q
deriving instance DecidableEq for ElemC
/-- `exKs` with the logic cells of row `b` replaced -/
def exKs' : List RK :=
  [.qs [exQ "t" none],
   .begin_ true [] { name := "r".toList, tt := none, bind := none },
   .qs [exQ "a" none],
   .qs [exQ "b" (some [("required".toList, .s "true()".toList)])],
   .end_ true]

def exB : ElemC := mkElemC "data".toList [("r".toList, true)] .q
  (exQ "b" (some [("relevant".toList, .s "${a} > 1".toList), ("constraint".toList, .s ". < ${t}".toList)]))
def exB' : ElemC := mkElemC "data".toList [("r".toList, true)] .q (exQ "b" (some [("required".toList, .s "true()".toList)]))

-- the hypotheses of `noninterference_form_refs` hold for `exKs` / `exKs'` (both accepted, one element differs, same chain)
example : walkC "data".toList [] exKs = some (niA ++ exB :: []) ∧ walkC "data".toList [] exKs' = some (niA ++ exB' :: []) ∧
    exB'.chain = exB.chain ∧
    (match bindsOfRowsR "data".toList exKs [], bindsOfRowsR "data".toList exKs' [] with | .ok _, .ok _ => true | _, _ => false) = true := by
  decide +kernel
end NIFormExample

end Pyxv.C05
