import Pyxv.Proofs.C01Guard
/-!
# C01 after the repair: what `validate_xml_document` establishes

`Survey.xml()` now ends with `validate_xml_document(result)`; a conversion succeeds only if it does
not raise.  `validDoc` (Model/Assemble.lean) is its model.  Here: an accepted DOM tree is (lax)
well-formed and has every prefix bound — *provided no name contains `]`*, the one hole the NCName
regex has (finding F5: the literal alternative `À-Ö]`).
-/
namespace Pyxv.C01
open Pyxv Pyxv.Xml Pyxv.Asm Pyxv.Rows

/-- the name does not contain `]` (so the typo literal `À-Ö]` of the NCName regex cannot match) -/
def noBr (s : Str) : Bool := !s.contains ']'

/-- one step of `(namestartchar|namechar_extra)` -/
def nmOk (c : Char) : Bool := isNameStart1 c || isNameExtra c

/-! ## pyxform's character classes are inside the XML ones -/

theorem nameStartChar_of_isNameStart1 (c : Char) (h : isNameStart1 c = true) : nameStartChar c = true := by
  unfold isNameStart1 at h
  unfold nameStartChar
  simp only [Bool.or_eq_true] at h ⊢
  rcases h with ((((((((((((h|h)|h)|h)|h)|h)|h)|h)|h)|h)|h)|h)|h)|h <;> simp [h]

theorem nameChar_of_nmOk (c : Char) (h : nmOk c = true) : nameChar c = true := by
  unfold nmOk at h
  rw [Bool.or_eq_true] at h
  rcases h with h | h
  · exact nameChar_of_start c (nameStartChar_of_isNameStart1 c h)
  · unfold isNameExtra at h
    unfold nameChar
    simp only [Bool.or_eq_true] at h ⊢
    rcases h with (((((h|h)|h)|h)|h)|h) <;> simp [h]

theorem nmOk_colon : nmOk ':' = false := by decide
theorem nmOk_ne_colon (c : Char) (h : nmOk c = true) : c ≠ ':' := by
  intro e; rw [e, nmOk_colon] at h; cases h

/-! ## `is_xml_tag` without the typo literal -/

theorem typo_contains_br (s : Str) (h : startsWith s typoLit = true) : s.contains ']' = true := by
  match s with
  | [] => simp [startsWith, typoLit] at h
  | [_] => simp [startsWith, typoLit] at h
  | [_, _] => simp [startsWith, typoLit] at h
  | [_, _, _] => simp [startsWith, typoLit] at h
  | a :: b :: c :: d :: r =>
    simp only [startsWith, typoLit, Bool.and_eq_true, beq_iff_eq] at h
    simp [h.2.2.2.1]

theorem noTypo (s : Str) (h : noBr s = true) : startsWith s typoLit = false := by
  cases hs : startsWith s typoLit with
  | false => rfl
  | true =>
    have := typo_contains_br s hs
    rw [noBr, this] at h
    cases h

theorem noBr_tail (c : Char) (cs : Str) (h : noBr (c :: cs) = true) : noBr cs = true := by
  simp only [noBr, List.contains_cons, Bool.not_eq_true', Bool.or_eq_false_iff] at h ⊢
  exact h.2

/-- what `ncTail` returns is what is left after the longest run of name characters -/
theorem ncTail_spec (f : Nat) (s : Str) (hf : s.length ≤ f) (hb : noBr s = true) :
    ∃ pre, s = pre ++ ncTail f s ∧ pre.all nmOk = true ∧
      (ncTail f s = [] ∨ ∃ c r, ncTail f s = c :: r ∧ nmOk c = false) := by
  induction f generalizing s with
  | zero =>
    have : s = [] := List.eq_nil_of_length_eq_zero (Nat.le_zero.mp hf)
    subst this
    exact ⟨[], by simp [ncTail], rfl, Or.inl (by simp [ncTail])⟩
  | succ f ih =>
    cases s with
    | nil => exact ⟨[], by simp [ncTail], rfl, Or.inl (by simp [ncTail])⟩
    | cons c cs =>
      have hcs : cs.length ≤ f := by simpa using hf
      rw [ncTail]
      by_cases hc : (isNameStart1 c || isNameExtra c) = true
      · rw [if_pos hc]
        obtain ⟨pre, h1, h2, h3⟩ := ih cs hcs (noBr_tail c cs hb)
        refine ⟨c :: pre, by rw [List.cons_append, ← h1], ?_, h3⟩
        simp only [List.all_cons, Bool.and_eq_true]
        exact ⟨hc, h2⟩
      · rw [if_neg hc, noTypo (c :: cs) hb]
        simp only [Bool.false_eq_true, if_false]
        refine ⟨[], rfl, rfl, Or.inr ⟨c, cs, rfl, ?_⟩⟩
        simpa [nmOk] using hc

theorem ncName_spec (s rest : Str) (hb : noBr s = true) (h : ncName s = some rest) :
    ∃ c pre, s = c :: pre ++ rest ∧ isNameStart1 c = true ∧ pre.all nmOk = true ∧
      (rest = [] ∨ ∃ d r, rest = d :: r ∧ nmOk d = false) := by
  cases s with
  | nil => simp [ncName] at h
  | cons c cs =>
    simp only [ncName] at h
    by_cases hc : isNameStart1 c = true
    · rw [if_pos hc] at h
      injection h with h
      obtain ⟨pre, h1, h2, h3⟩ := ncTail_spec cs.length cs (Nat.le_refl _) (noBr_tail c cs hb)
      rw [h] at h1 h3
      exact ⟨c, pre, by rw [List.cons_append, ← h1], hc, h2, h3⟩
    · rw [if_neg hc, noTypo (c :: cs) hb] at h
      simp at h

/-- a run of pyxform name characters is colon-free -/
theorem nocolon_of_nmOk (pre : Str) (h : pre.all nmOk = true) : pre.contains ':' = false := by
  induction pre with
  | nil => rfl
  | cons c r ih =>
    simp only [List.all_cons, Bool.and_eq_true] at h
    have hc : (c == ':') = false := by
      cases hh : c == ':' with
      | false => rfl
      | true => exact absurd (beq_iff_eq.mp hh) (nmOk_ne_colon c h.1)
    have hne : ¬ ':' = c := fun e => nmOk_ne_colon c h.1 e.symm
    have ihr := ih h.2
    simp only [List.contains_eq_mem, decide_eq_false_iff_not] at ihr
    simp [hne, ihr]

theorem nameChars_of_nmOk (pre : Str) (h : pre.all nmOk = true) : pre.all nameChar = true :=
  all_imp (fun c hc => nameChar_of_nmOk c hc) h

/-- an NCName in pyxform's sense (`]`-free): a colon-free XML name -/
structure IsNc (s : Str) : Prop where
  name : isName s = true
  nocolon : s.contains ':' = false

theorem isNc_of_ncName (s : Str) (hb : noBr s = true) (h : ncName s = some []) : IsNc s := by
  obtain ⟨c, pre, hs, hc, hpre, _⟩ := ncName_spec s [] hb h
  rw [List.append_nil] at hs
  subst hs
  have hnm : nmOk c = true := by simp [nmOk, hc]
  refine ⟨?_, ?_⟩
  · simp only [isName, Bool.and_eq_true]
    exact ⟨nameStartChar_of_isNameStart1 c hc, nameChars_of_nmOk pre hpre⟩
  · exact nocolon_of_nmOk (c :: pre) (by simp [List.all_cons, hnm, hpre])

theorem noBr_append_left (a b : Str) (h : noBr (a ++ b) = true) : noBr a = true := by
  simp only [noBr, Bool.not_eq_true', List.contains_eq_mem, List.mem_append, decide_eq_false_iff_not, not_or] at h ⊢
  exact h.1

theorem noBr_append_right (a b : Str) (h : noBr (a ++ b) = true) : noBr b = true := by
  simp only [noBr, Bool.not_eq_true', List.contains_eq_mem, List.mem_append, decide_eq_false_iff_not, not_or] at h ⊢
  exact h.2

/-- **`is_xml_tag` on a `]`-free string**: an NCName, or two NCNames joined by one colon -/
theorem isXmlTag_spec (s : Str) (hb : noBr s = true) (h : isXmlTag s = true) :
    IsNc s ∨ ∃ p l, s = p ++ ':' :: l ∧ IsNc p ∧ IsNc l := by
  unfold isXmlTag at h
  split at h
  · cases h
  · rename_i h1
    exact Or.inl (isNc_of_ncName s hb h1)
  · rename_i r h1
    obtain ⟨c, pre, hs, hc, hpre, _⟩ := ncName_spec s (':' :: r) hb h1
    have hnm : nmOk c = true := by simp [nmOk, hc]
    split at h
    · rename_i h2
      have hbr : noBr r = true := by
        rw [hs] at hb
        have := noBr_append_right (c :: pre) (':' :: r) (by simpa using hb)
        exact noBr_tail ':' r this
      refine Or.inr ⟨c :: pre, r, by simpa using hs, ⟨?_, ?_⟩, isNc_of_ncName r hbr h2⟩
      · simp only [isName, Bool.and_eq_true]
        exact ⟨nameStartChar_of_isNameStart1 c hc, nameChars_of_nmOk pre hpre⟩
      · exact nocolon_of_nmOk (c :: pre) (by simp [List.all_cons, hnm, hpre])
    · cases h
  · cases h

/-! ## colon bookkeeping: Python's `partition(":")` / `startswith("xmlns:")` vs the reader's `splitOnChar` -/

theorem partitionColon_nocolon (s : Str) (h : s.contains ':' = false) : partitionColon s = (s, false) := by
  induction s with
  | nil => rfl
  | cons c r ih =>
    simp only [List.contains_cons, Bool.or_eq_false_iff, beq_eq_false_iff_ne] at h
    have hc : ¬ c = ':' := fun e => h.1 e.symm
    simp [partitionColon, hc, ih h.2]

theorem partitionColon_join (p l : Str) (h : p.contains ':' = false) :
    partitionColon (p ++ ':' :: l) = (p, true) := by
  induction p with
  | nil => simp [partitionColon]
  | cons c r ih =>
    simp only [List.contains_cons, Bool.or_eq_false_iff, beq_eq_false_iff_ne] at h
    have hc : ¬ c = ':' := fun e => h.1 e.symm
    simp [partitionColon, hc, ih h.2]

theorem splitOnChar_ne_nil (l : Str) : splitOnChar ':' l ≠ [] := by
  cases l with
  | nil => simp [splitOnChar]
  | cons x xs =>
    rw [splitOnChar]
    split
    · simp
    · split <;> simp

theorem splitOnChar_join (p l : Str) (h : p.contains ':' = false) :
    splitOnChar ':' (p ++ ':' :: l) = p :: splitOnChar ':' l := by
  induction p with
  | nil =>
    simp only [List.nil_append, splitOnChar]
    cases hs : splitOnChar ':' l with
    | nil => exact absurd hs (splitOnChar_ne_nil l)
    | cons f fs => simp
  | cons c r ih =>
    simp only [List.contains_cons, Bool.or_eq_false_iff, beq_eq_false_iff_ne] at h
    have hc : ¬ c = ':' := fun e => h.1 e.symm
    simp [splitOnChar, ih h.2, hc]

theorem startsWith_decomp (s p : Str) (h : startsWith s p = true) : s = p ++ s.drop p.length := by
  induction p generalizing s with
  | nil => rfl
  | cons c r ih =>
    cases s with
    | nil => simp [startsWith] at h
    | cons d t =>
      simp only [startsWith, Bool.and_eq_true, beq_iff_eq] at h
      rw [h.1]
      simp only [List.cons_append, List.length_cons, List.drop_succ_cons]
      rw [← ih t h.2]

theorem startsWith_self_append (p r : Str) : startsWith (p ++ r) p = true := by
  induction p with
  | nil => cases r <;> simp [startsWith]
  | cons c t ih => simp [startsWith, ih]

theorem xmlns_nocolon : ("xmlns".toList).contains ':' = false := by decide

/-- `pyDeclared` (Python: `startswith("xmlns:")`, slice) and the reader's `declaredPrefixes` agree on a
    colon-free name -/
theorem decl_nocolon (k v : Str) (h : k.contains ':' = false) :
    pyDeclared (k, v) = none ∧ splitOnChar ':' k = [k] := by
  refine ⟨?_, splitOnChar_nosep k h⟩
  unfold pyDeclared
  split
  · rename_i hs
    have hk := startsWith_decomp k xmlnsColon hs
    have : k.contains ':' = true := by rw [hk]; exact contains_colon_xmlns _
    rw [this] at h; cases h
  · rfl

/-- … and on `p:l` with colon-free parts -/
theorem decl_join (p l v : Str) (hp : p.contains ':' = false) (hl : l.contains ':' = false) :
    pyDeclared (p ++ ':' :: l, v) = (if p = "xmlns".toList then some l else none) ∧
    splitOnChar ':' (p ++ ':' :: l) = [p, l] := by
  refine ⟨?_, by rw [splitOnChar_join p l hp, splitOnChar_nosep l hl]⟩
  unfold pyDeclared
  by_cases e : p = "xmlns".toList
  · subst e
    have hk : "xmlns".toList ++ ':' :: l = xmlnsColon ++ l := by simp [xmlnsColon]
    simp only [if_true]
    rw [hk, startsWith_self_append]
    simp [xmlnsColon]
  · rw [if_neg e]
    split
    · rename_i hs
      have hk := startsWith_decomp _ xmlnsColon hs
      have h1 := partitionColon_join p l hp
      have h2 : partitionColon (xmlnsColon ++ (p ++ ':' :: l).drop xmlnsColon.length) = ("xmlns".toList, true) := by
        have : xmlnsColon ++ (p ++ ':' :: l).drop xmlnsColon.length =
            "xmlns".toList ++ ':' :: (p ++ ':' :: l).drop xmlnsColon.length := by simp [xmlnsColon]
        rw [this]; exact partitionColon_join _ _ xmlns_nocolon
      rw [← hk, h1] at h2
      injection h2 with h2 _
      exact absurd h2 e
    · rfl

/-! ## an accepted name is a name, a QName, and its prefix is accounted for -/

theorem isName_join (p l : Str) (hp : isName p = true) (hl : isName l = true) : isName (p ++ ':' :: l) = true := by
  cases p with
  | nil => simp [isName] at hp
  | cons c r =>
    cases l with
    | nil => simp [isName] at hl
    | cons d t =>
      simp only [isName, Bool.and_eq_true] at hp hl
      simp only [List.cons_append, isName, Bool.and_eq_true, List.all_append, List.all_cons]
      exact ⟨hp.1, hp.2, by decide, nameChar_of_start d hl.1, hl.2⟩

/-- `_validate_xml_name` on a `]`-free name gives exactly what `prefixesBound` asks of a name -/
theorem nameValid_ok (scope : List Str) (q : Str) (hb : noBr q = true) (h : nameValid scope q = true) :
    isName q = true ∧ qnameOk scope q = true := by
  simp only [nameValid, Bool.and_eq_true] at h
  rcases isXmlTag_spec q hb h.1 with hnc | ⟨p, l, hq, hp, hl⟩
  · refine ⟨hnc.name, ?_⟩
    have hs := splitOnChar_nosep q hnc.nocolon
    simp [qnameOk, isQName, splitQName, hs, hnc.name]
  · subst hq
    have hs : splitOnChar ':' (p ++ ':' :: l) = [p, l] := by
      rw [splitOnChar_join p l hp.nocolon, splitOnChar_nosep l hl.nocolon]
    have h2 := h.2
    rw [partitionColon_join p l hp.nocolon] at h2
    refine ⟨isName_join p l hp.name hl.name, ?_⟩
    simp only [qnameOk, isQName, splitQName, hs, hp.name, hl.name, Bool.and_self, Bool.true_and]
    exact h2

/-- on accepted attribute names Python's and the reader's notion of "declares a prefix" coincide -/
theorem pyDeclared_eq (scope : List Str) (kv : Str × Str) (hb : noBr kv.1 = true)
    (h : nameValid scope kv.1 = true) :
    pyDeclared kv = (match splitOnChar ':' kv.1 with
      | [x, p] => if x = "xmlns".toList then some p else none
      | _ => none) := by
  obtain ⟨k, v⟩ := kv
  simp only [nameValid, Bool.and_eq_true] at h
  rcases isXmlTag_spec k hb h.1 with hnc | ⟨p, l, hq, hp, hl⟩
  · obtain ⟨h1, h2⟩ := decl_nocolon k v hnc.nocolon
    simp only [h1, h2]
  · subst hq
    obtain ⟨h1, h2⟩ := decl_join p l v hp.nocolon hl.nocolon
    simp only [h1, h2]

/-! ## what an accepted document is -/

mutual
/-- no tag or attribute name contains `]` (complement of finding F5) -/
def noBrTree : Node → Bool
  | .text _ _ => true
  | .elem t a ks => noBr t && a.all (fun kv => noBr kv.1) && noBrKids ks
def noBrKids : List Node → Bool
  | [] => true
  | k :: ks => noBrTree k && noBrKids ks
end

mutual
/-- the tree is a DOM tree: the attributes of an element form a map (distinct names).  Not a
    property of the compiler but of the data structure `Element._attrs` (`setAttribute`). -/
def isDom : Node → Bool
  | .text _ _ => true
  | .elem _ a ks => attrKeysNodup a && isDomKids ks
def isDomKids : List Node → Bool
  | [] => true
  | k :: ks => isDom k && isDomKids ks
end

theorem filterMap_congr' {α β} {f g : α → Option β} (l : List α) (h : ∀ x ∈ l, f x = g x) :
    l.filterMap f = l.filterMap g := by
  induction l with
  | nil => rfl
  | cons x r ih =>
    simp only [List.filterMap_cons, h x (List.mem_cons_self ..)]
    rw [ih (fun y hy => h y (List.mem_cons_of_mem _ hy))]

theorem declared_eq (scope : List Str) (a : List (Str × Str)) (hb : a.all (fun kv => noBr kv.1) = true)
    (hv : a.all (fun kv => nameValid scope kv.1 && kv.2.all isXmlChar) = true) :
    a.filterMap pyDeclared = declaredPrefixes a := by
  unfold declaredPrefixes
  apply filterMap_congr'
  intro kv hkv
  have h1 := (List.all_eq_true.mp hb) kv hkv
  have h2 := (List.all_eq_true.mp hv) kv hkv
  simp only [Bool.and_eq_true] at h2
  rw [pyDeclared_eq scope kv h1 h2.1]
  obtain ⟨k, v⟩ := kv
  rfl

mutual
/-- **an accepted DOM tree is (lax) well-formed** -/
theorem wf_of_validDoc : ∀ (n : Node) (sc : List Str), validDoc sc n = true → noBrTree n = true →
    isDom n = true → n.WFLax = true
  | .text _ s, _, h, _, _ => by simpa [validDoc, Node.WFLax] using h
  | .elem t a ks, sc, h, hb, hd => by
    simp only [validDoc, Bool.and_eq_true] at h
    simp only [noBrTree, Bool.and_eq_true] at hb
    simp only [isDom, Bool.and_eq_true] at hd
    obtain ⟨⟨⟨⟨_, ht⟩, ha⟩, hk⟩, hel⟩ := h
    simp only [Node.WFLax, attrsWFLax, Bool.and_eq_true]
    refine ⟨⟨(nameValid_ok _ t hb.1.1 ht).1, ?_, hd.1⟩, wfKids_of_validKids ks _ hk hb.2 hd.2⟩
    rw [List.all_eq_true] at ha ⊢
    intro kv hkv
    have h1 := ha kv hkv
    simp only [Bool.and_eq_true] at h1 ⊢
    exact ⟨(nameValid_ok _ kv.1 ((List.all_eq_true.mp hb.1.2) kv hkv) h1.1).1, h1.2⟩
theorem wfKids_of_validKids : ∀ (ks : List Node) (sc : List Str), validKids sc ks = true →
    noBrKids ks = true → isDomKids ks = true → WFKidsLax ks = true
  | [], _, _, _, _ => by simp [WFKidsLax]
  | k :: ks, sc, h, hb, hd => by
    simp only [validKids, Bool.and_eq_true] at h
    simp only [noBrKids, Bool.and_eq_true] at hb
    simp only [isDomKids, Bool.and_eq_true] at hd
    simp only [WFKidsLax, Bool.and_eq_true]
    exact ⟨wf_of_validDoc k sc h.1 hb.1 hd.1, wfKids_of_validKids ks sc h.2 hb.2 hd.2⟩
end

mutual
/-- **an accepted DOM tree has every element and attribute prefix bound** -/
theorem pb_of_validDoc : ∀ (n : Node) (sc : List Str), validDoc sc n = true → noBrTree n = true →
    prefixesBound sc n = true
  | .text _ _, sc, _, _ => pb_text sc _ _
  | .elem t a ks, sc, h, hb => by
    simp only [validDoc, Bool.and_eq_true] at h
    simp only [noBrTree, Bool.and_eq_true] at hb
    obtain ⟨⟨⟨⟨_, ht⟩, ha⟩, hk⟩, hel⟩ := h
    have hdecl := declared_eq _ a hb.1.2 ha
    rw [hdecl] at ht ha hk
    refine pb_elem_intro (nameValid_ok _ t hb.1.1 ht).2 ?_ (pbKids_of_validKids ks _ hk hb.2)
    rw [List.all_eq_true] at ha ⊢
    intro kv hkv
    have h1 := ha kv hkv
    simp only [Bool.and_eq_true] at h1
    exact (nameValid_ok _ kv.1 ((List.all_eq_true.mp hb.1.2) kv hkv) h1.1).2
theorem pbKids_of_validKids : ∀ (ks : List Node) (sc : List Str), validKids sc ks = true →
    noBrKids ks = true → prefixesBoundKids sc ks = true
  | [], sc, _, _ => pbKids_nil sc
  | k :: ks, sc, h, hb => by
    simp only [validKids, Bool.and_eq_true] at h
    simp only [noBrKids, Bool.and_eq_true] at hb
    exact pbKids_cons_intro (pb_of_validDoc k sc h.1 hb.1) (pbKids_of_validKids ks sc h.2 hb.2)
end

/-- **C01 for every accepted document, on the text, both pretty_print modes.**  Whatever DOM tree
    `validate_xml_document` accepts (`]`-free names), `Survey._to_ugly_xml` / `_to_pretty_xml` write a
    text that parses as one well-formed XML document with every prefix bound. -/
theorem accepted_text_wellformed_bound (t : Node) (helem : isElem t = true) (hv : validDoc [] t = true)
    (hb : noBrTree t = true) (hd : isDom t = true) (pretty : Bool) :
    ∃ u, parseDoc (renderDoc pretty t) = some u ∧ prefixesBound [] u = true := by
  obtain ⟨u, hu, hpb⟩ := prefixesBound_roundtrip t (wf_of_validDoc t [] hv hb hd) helem pretty
  exact ⟨u, hu, by rw [hpb]; exact pb_of_validDoc t [] hv hb⟩

#print axioms accepted_text_wellformed_bound

/-! ## the validation pass also protects the skeleton: `NsOK` follows from acceptance -/

theorem dictSet_new (d : List (Str × Str)) (k v : Str) (h : lookup k d = none) : dictSet d k v = d ++ [(k, v)] := by
  induction d with
  | nil => rfl
  | cons kv r ih =>
    obtain ⟨k', v'⟩ := kv
    simp only [lookup] at h
    split at h
    · cases h
    · rename_i hne
      have : ¬ k' = k := fun e => hne e.symm
      simp [dictSet, this, ih h]

theorem dictUpdate_append (u B : List (Str × Str)) (hn : attrKeysNodup u = true)
    (hB : u.all (fun x => (lookup x.1 B).isNone) = true) : dictUpdate B u = B ++ u := by
  induction u generalizing B with
  | nil => simp [dictUpdate]
  | cons x r ih =>
    obtain ⟨k, v⟩ := x
    simp only [List.all_cons, Bool.and_eq_true, Option.isNone_iff_eq_none] at hB
    simp only [attrKeysNodup, Bool.and_eq_true, Bool.not_eq_true'] at hn
    have hstep : dictUpdate B ((k, v) :: r) = dictUpdate (dictSet B k v) r := rfl
    rw [hstep, dictSet_new B k v hB.1, ih (B ++ [(k, v)]) hn.2]
    · simp
    · rw [List.all_eq_true] at hB ⊢
      intro y hy
      have hy1 := hB.2 y hy
      simp only [Option.isNone_iff_eq_none] at hy1 ⊢
      rw [lookup_append, hy1]
      have hne : ¬ y.1 = k := by
        intro e
        have : r.any (fun p => p.1 == k) = true := List.any_eq_true.mpr ⟨y, hy, by simp [e]⟩
        rw [this] at hn; exact absurd hn.1 (by simp)
      simp [lookup, hne]

theorem nodup_nsExtra (B P : List (Str × Str)) : attrKeysNodup (nsExtra B P) = true := by
  unfold nsExtra
  suffices H : ∀ acc : List (Str × Str), attrKeysNodup acc = true →
      attrKeysNodup (P.foldl (fun acc kv => if (lookup (xmlnsColon ++ kv.1) B).isSome then acc
        else dictSet acc (xmlnsColon ++ kv.1) (stripQuotes kv.2)) acc) = true from H [] rfl
  induction P with
  | nil => exact fun acc h => h
  | cons x r ih =>
    intro acc h
    rw [List.foldl_cons]
    apply ih
    split
    · exact h
    · exact keys_dictSet_nodup acc _ _ h

/-- `get_nsmap` returns `NSMAP` followed by entries `xmlns:k` that are not in `NSMAP` -/
theorem getNsmap_shape (f : Fields) :
    ∃ extra, getNsmap f = NSMAP ++ extra ∧
      extra.all (fun x => (startsWith x.1 xmlnsColon) && (lookup x.1 NSMAP).isNone) = true := by
  unfold getNsmap
  split
  · exact ⟨[], by simp, rfl⟩
  · refine ⟨nsExtra NSMAP (nsPairs (nsString f)), ?_, ?_⟩
    · apply dictUpdate_append _ _ (nodup_nsExtra _ _)
      apply all_nsExtra
      intro kv _ hn
      simp [hn]
    · apply all_nsExtra
      intro kv _ hn
      simp [hn, startsWith_self_append]

theorem lookup_mem (k v : Str) (l : List (Str × Str)) (h : lookup k l = some v) : (k, v) ∈ l := by
  induction l with
  | nil => simp [lookup] at h
  | cons x r ih =>
    obtain ⟨k', v'⟩ := x
    simp only [lookup] at h
    split at h
    · rename_i e; injection h with h; subst e; subst h; exact List.mem_cons_self ..
    · exact List.mem_cons_of_mem _ (ih h)

def kXX : Str := xmlnsColon ++ "xmlns".toList

/-- while the `xmlns:k` entries are set one by one, either the default declaration is still the one
    of `NSMAP`, or `xmlns:xmlns` has entered the attribute map (and stays) -/
theorem default_or_xx (extra acc : List (Str × Str))
    (he : extra.all (fun x => startsWith x.1 xmlnsColon) = true)
    (h : lookup "xmlns".toList acc = some xformsNs ∨ (lookup kXX acc).isSome = true) :
    lookup "xmlns".toList (setAttrs acc extra) = some xformsNs ∨ (lookup kXX (setAttrs acc extra)).isSome = true := by
  unfold setAttrs
  induction extra generalizing acc with
  | nil => exact h
  | cons x r ih =>
    obtain ⟨k, v⟩ := x
    simp only [List.all_cons, Bool.and_eq_true] at he
    rw [List.foldl_cons]
    apply ih _ he.2
    have hk := startsWith_decomp k xmlnsColon he.1
    generalize k.drop xmlnsColon.length = p at hk
    subst hk
    by_cases e : p = "xmlns".toList
    · subst e
      exact Or.inr (by show (lookup kXX (setAttr acc kXX v)).isSome = true; rw [lookup_setAttr_self]; rfl)
    · have hloc : attrLocal (xmlnsColon ++ p) = p := attrLocal_xmlns p
      rcases h with h | h
      · left
        rw [lookup_setAttr_other acc _ _ v (by simp [xmlnsColon]) (by rw [hloc]; exact fun e' => e e'.symm)]
        exact h
      · right
        have hne : xmlnsColon ++ p ≠ kXX := fun e' => e (xmlnsColon_inj e')
        rw [lookup_setAttr_other acc kXX _ v hne (by rw [hloc, kXX, attrLocal_xmlns]; exact fun e' => e e'.symm)]
        exact h

/-- **acceptance protects the default namespace**: if `validate_xml_document` accepts the attributes
    of `<h:html>`, the default declaration and `xmlns:h` are those of `NSMAP` -/
theorem nsOK_of_accepted (f : Fields) (h : (htmlAttrs f).all pyDeclOk = true) : NsOK f = true := by
  obtain ⟨extra, hshape, hex⟩ := getNsmap_shape f
  have hex1 : extra.all (fun x => startsWith x.1 xmlnsColon) = true :=
    all_imp (fun x hx => by simp only [Bool.and_eq_true] at hx; exact hx.1) hex
  have hhtml : htmlAttrs f = setAttrs NSMAP extra := by
    unfold htmlAttrs setAttrs
    rw [hshape, List.foldl_append]
    have := nsmap_wellformed.2.1
    unfold setAttrs at this
    rw [this]
  have hd := default_or_xx extra NSMAP hex1 (Or.inl nsmap_default_and_h.1)
  rw [← hhtml] at hd
  have hh : lookup "xmlns:h".toList (htmlAttrs f) = some xhtmlNs :=
    lookup_htmlAttrs_prefixed f "h".toList xhtmlNs nsmap_default_and_h.2 (by decide +kernel)
  rcases hd with hd | hd
  · unfold NsOK; rw [hh, hd]; rfl
  · cases hv : lookup kXX (htmlAttrs f) with
    | none => rw [hv] at hd; cases hd
    | some v =>
      have hm := lookup_mem kXX v _ hv
      have := (List.all_eq_true.mp h) _ hm
      have hbad : pyDeclOk (kXX, v) = false := by
        have hp : pyDeclared (kXX, v) = some "xmlns".toList := by
          have hs : startsWith kXX xmlnsColon = true := startsWith_self_append _ _
          have hdrop : kXX.drop 6 = "xmlns".toList := by decide
          simp only [pyDeclared, hs, if_true, hdrop]
        simp [pyDeclOk, hp]
      rw [hbad] at this; cases this

#print axioms nsOK_of_accepted

/-! ## C01 for the assembled document of a conversion that succeeded -/

theorem isDomKids_append (L1 L2 : List Node) : isDomKids (L1 ++ L2) = (isDomKids L1 && isDomKids L2) := by
  induction L1 with
  | nil => simp [isDomKids]
  | cons n r ih => simp [isDomKids, ih, Bool.and_assoc]

theorem isDom_elem {t : Str} {a : List (Str × Str)} {ks : List Node} (ha : attrKeysNodup a = true)
    (hk : isDomKids ks = true) : isDom (.elem t a ks) = true := by
  simp [isDom, ha, hk]

theorem isDomKids_cons {k : Node} {ks : List Node} (h1 : isDom k = true) (h2 : isDomKids ks = true) :
    isDomKids (k :: ks) = true := by
  simp [isDomKids, h1, h2]

theorem isDomKids_nil : isDomKids [] = true := by simp [isDomKids]

/-- the parts are DOM trees (attribute maps) -/
structure PartsDom (itext : Option (List Node)) (rk rest bk : List Node) : Prop where
  itext : ∀ ks, itext = some ks → isDomKids ks = true
  rk : isDomKids rk = true
  rest : isDomKids rest = true
  bk : isDomKids bk = true

/-- the frame never has a duplicate attribute, so the assembled tree is a DOM tree when the parts are -/
theorem isDom_assemble (f : Fields) {itext : Option (List Node)} {rk rest bk : List Node}
    (P : PartsDom itext rk rest bk) : isDom (assemble f itext rk rest bk) = true := by
  obtain ⟨pit, prk, prest, pbk⟩ := P
  have hn : ∀ l, attrKeysNodup (setAttrs [] l) = true := fun l => attrKeysNodup_setAttrs l [] rfl
  have hsub : isDomKids (submissionNode f) = true := by
    unfold submissionNode
    split
    · exact isDomKids_nil
    · exact isDomKids_cons (isDom_elem (hn _) isDomKids_nil) isDomKids_nil
  have hitext : isDomKids (itextPart itext) = true := by
    cases itext with
    | none => exact isDomKids_nil
    | some ks => exact isDomKids_cons (isDom_elem (hn _) (pit ks rfl)) isDomKids_nil
  have hinst : isDom (pyNode "instance".toList [] [.elem f.name (rootAttrs f) rk]) = true :=
    isDom_elem (hn _) (isDomKids_cons (isDom_elem (attrKeysNodup_rootAttrs f) prk) isDomKids_nil)
  have hmk : isDomKids (modelKids f itext rk rest) = true := by
    unfold modelKids
    rw [isDomKids_append, isDomKids_append, hsub, hitext]
    exact isDomKids_cons hinst prest
  exact isDom_elem (hn _)
    (isDomKids_cons
      (isDom_elem (hn _) (isDomKids_cons (isDom_elem (hn _) (isDomKids_cons (by simp [isDom]) isDomKids_nil))
        (isDomKids_cons (isDom_elem (hn _) hmk) isDomKids_nil)))
      (isDomKids_cons (isDom_elem (hn _) pbk) isDomKids_nil))

/-- **C01 after the repair, on the text, both pretty_print modes.**  For all survey fields and all
    parts: if `validate_xml_document` accepts the assembled document (i.e. `Survey.xml()` returns), no
    name contains `]` (finding F5) and the parts are DOM trees, then the text written in either mode
    parses as one well-formed XML document with every element and attribute prefix bound and with the
    ODK XForm skeleton carrying the form id on the primary instance root.  No guard on names,
    characters, prefixes or the `namespaces` setting is left: the validation pass establishes them. -/
theorem accepted_assembled_text_ok (f : Fields) (itext : Option (List Node)) (rk rest bk : List Node)
    (hv : validDoc [] (assemble f itext rk rest bk) = true)
    (hb : noBrTree (assemble f itext rk rest bk) = true)
    (hd : PartsDom itext rk rest bk) (pretty : Bool) :
    ∃ u, parseDoc (renderDoc pretty (assemble f itext rk rest bk)) = some u ∧
      prefixesBound [] u = true ∧ Skeleton u (normAttrVal f.idString) = true := by
  have hwf := wf_of_validDoc _ [] hv hb (isDom_assemble f hd)
  have hpb := pb_of_validDoc _ [] hv hb
  have hdecl : (htmlAttrs f).all pyDeclOk = true := by
    have h := hv
    simp only [assemble, pyNode, validDoc, Bool.and_eq_true] at h
    exact h.1.1.1.1
  have hsk := skelE_normAttrs (skelE_assemble f itext rk rest bk (nsOK_of_accepted f hdecl))
  have helem : isElem (assemble f itext rk rest bk) = true := rfl
  cases pretty with
  | false =>
    refine ⟨_, render_parses_compact_lax _ hwf helem, ?_, ?_⟩
    · rw [expectedLax, pb_normText, prefixesBound_expected, pb_normAttrs]; exact hpb
    · rw [Skeleton, eproj_expectedLax]; exact hsk
  | true =>
    refine ⟨_, render_parses_pretty_lax _ hwf helem, ?_, ?_⟩
    · rw [expectedPrettyLax, pb_normText, prefixesBound_expectedPretty, pb_normAttrs]; exact hpb
    · rw [Skeleton, eproj_expectedPrettyLax]; exact hsk

#print axioms accepted_assembled_text_ok

/-! ## Non-vacuity, and the hole -/

-- the example document of `C01.lean` is accepted, `]`-free and a DOM tree: the theorem applies
theorem ex_accepted : validDoc [] (assemble exFields exItext exRootKids exRest exBody) = true := by decide +kernel
example : ∃ u, parseDoc (renderDoc true (assemble exFields exItext exRootKids exRest exBody)) = some u ∧
    prefixesBound [] u = true ∧ Skeleton u (normAttrVal exFields.idString) = true :=
  accepted_assembled_text_ok exFields _ _ _ _ ex_accepted (by decide +kernel)
    ⟨fun ks h => by cases h; decide +kernel, by decide +kernel, by decide +kernel, by decide +kernel⟩ true
-- what used to be findings is rejected by the model of the validation pass
example : validDoc [] (assemble exF2 none [] [] []) = false := by decide +kernel    -- namespaces `1x=…`
example : validDoc [] (assemble exF2b none [] [] []) = false := by decide +kernel   -- namespaces `xmlns=…`
example : validDoc [] (assemble exF3 none [] [] []) = false := by decide +kernel    -- form name `a:b`
example : validDoc [] (assemble exF4 none [] [] []) = false := by decide +kernel    -- U+0001 in the title
-- F5: the hypothesis `noBrTree` is needed — `À-Ö]` is accepted and the text does not parse
def exF5 : Node := .elem typoLit [] []
example : validDoc [] exF5 = true := by decide +kernel
example : noBrTree exF5 = false := by decide +kernel
example : parseDoc (renderDoc false exF5) = none := by decide +kernel
-- the XML name classes have holes that pyxform's regex respects: U+00D7, U+00F7 are not name characters
example : isXmlTag ['a', Char.ofNat 0xD7, 'b'] = false ∧ isXmlTag ['a', Char.ofNat 0xF7] = false ∧
    isName ['a', Char.ofNat 0xD7, 'b'] = false ∧ isName ['a', Char.ofNat 0xF7] = false := by decide +kernel

end Pyxv.C01
