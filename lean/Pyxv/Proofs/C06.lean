import Pyxv.Proofs.ChannelLemmas
import Pyxv.Generated.Tables
/-!
# C06 — user text is data, never markup: property theorems

Model: `Pyxv/Model/Channel.lean` (`node`, `insert_output_values`, `node(…, toParseString=True)`),
`Pyxv/Model/Xml.lean` (writer, reader).  Spec-level definitions: `ChannelSpec.lean`, `XmlSpec.lean`.
Reader = `parseDoc ∘ renderDoc false` (the compact XForm; `Pyxv.Xml.pretty_cosmetic_lax` (C15) carries
every statement over to the pretty output).

Whitespace normalisation that the statements make explicit: `normEol` (CR LF / CR → LF in character
data), `normAttrVal` (TAB/LF/CR → space in attribute values), the boundary spaces of mixed content and
merging of adjacent text (`expectedLax`).
-/
namespace Pyxv.C06
open Pyxv.Xml Pyxv.Chan

/-! ## 1. plain text node: `node(tag, text)` (labels, hints, itext values, choice labels / extra
columns in the secondary instance, static defaults, `h:title`) -/

/-- the reader finds exactly one text child holding the cell (line ends normalised) — or no child
    when the cell is empty — and nothing else: no element, no attribute -/
theorem text_channel (tag s : Str) (htag : isName tag = true) (hs : ∀ c ∈ s, isXmlChar c = true) :
    parseDoc (renderDoc false (nodeText tag s)) = some (.elem tag [] (chunk false (normEol s))) := by
  rw [render_parses_compact_lax (nodeText tag s)
    (by simp [nodeText, Node.WFLax, WFKidsLax, attrsWFLax, attrKeysNodup, htag, List.all_eq_true.mpr hs]) rfl]
  rw [expectedLax_nodeText]

/-- without CR the cell comes back character for character -/
theorem text_channel_exact (tag s : Str) (htag : isName tag = true)
    (hs : ∀ c ∈ s, isXmlChar c = true ∧ c ≠ '\r') :
    parseDoc (renderDoc false (nodeText tag s)) = some (.elem tag [] (chunk false s)) := by
  rw [text_channel tag s htag (fun c hc => (hs c hc).1), normEol_of_noCR s (fun c hc => (hs c hc).2)]

/-! ## 2. attribute value: `node(tag, **{k: v})` (`jr:constraintMsg`, `jr:requiredMsg`, `version`,
`appearance`, `bind::x` / `body::x` values) -/

theorem attr_channel (tag k v : Str) (htag : isName tag = true) (hk : isName k = true)
    (hv : ∀ c ∈ v, isXmlChar c = true) :
    parseDoc (renderDoc false (nodeAttr tag k v)) = some (.elem tag [(k, normAttrVal v)] []) := by
  rw [render_parses_compact_lax (nodeAttr tag k v)
    (by simp [nodeAttr, Node.WFLax, WFKidsLax, attrsWFLax, attrKeysNodup, htag, hk, List.all_eq_true.mpr hv]) rfl]
  rw [expectedLax_nodeAttr]

theorem attr_channel_exact (tag k v : Str) (htag : isName tag = true) (hk : isName k = true)
    (hv : ∀ c ∈ v, attrCharOk c = true) :
    parseDoc (renderDoc false (nodeAttr tag k v)) = some (.elem tag [(k, v)] []) := by
  have hall : v.all attrCharOk = true := List.all_eq_true.mpr hv
  rw [attr_channel tag k v htag hk (fun c hc => List.all_eq_true.mp (attrCharOk_xml hall) c hc), normAttrVal_ok v hall]

/-! ## 2b. total statements: with the character check of `validate_xml_document` every string is either
rejected with a PyXFormError (and then really contains a non-XML character) or recovered -/

theorem text_channel_total (tag s : Str) (htag : isName tag = true) :
    match checkedDoc (nodeText tag s) with
    | .ok n => parseDoc (renderDoc false n) = some (.elem tag [] (chunk false (normEol s)))
    | .pyxformError => ∃ c ∈ s, isXmlChar c = false
    | _ => False := by
  unfold checkedDoc
  by_cases h : s.all isXmlChar = true
  · simp only [nodeText, charsValid, charsValidKids, validChars, h, List.all_nil, Bool.and_self, if_true]
    exact text_channel tag s htag (List.all_eq_true.mp h)
  · simp only [nodeText, charsValid, charsValidKids, validChars, h, List.all_nil, Bool.and_true, Bool.true_and]
    simp only [Bool.false_eq_true, if_false]
    simpa [List.all_eq_true] using h

theorem attr_channel_total (tag k v : Str) (htag : isName tag = true) (hk : isName k = true) :
    match checkedDoc (nodeAttr tag k v) with
    | .ok n => parseDoc (renderDoc false n) = some (.elem tag [(k, normAttrVal v)] [])
    | .pyxformError => ∃ c ∈ v, isXmlChar c = false
    | _ => False := by
  unfold checkedDoc
  by_cases h : v.all isXmlChar = true
  · simp only [nodeAttr, charsValid, charsValidKids, validChars, h, List.all_cons, List.all_nil, Bool.and_self, if_true]
    exact attr_channel tag k v htag hk (List.all_eq_true.mp h)
  · simp only [nodeAttr, charsValid, charsValidKids, validChars, h, List.all_cons, List.all_nil, Bool.and_true]
    simp only [Bool.false_eq_true, if_false]
    simpa [List.all_eq_true] using h

-- a control character is rejected, not written
example : (match checkedDoc (nodeText "label".toList ['a', Char.ofNat 1, 'b']) with | .pyxformError => true | _ => false) = true := by
  decide
example : (match checkedDoc (nodeAttr "bind".toList "foo".toList ['a', Char.ofNat 0xFFFE]) with | .pyxformError => true | _ => false) = true := by
  decide
example : (match checkedDoc (nodeText "label".toList "<b> & ]]> \r 😀".toList) with | .ok _ => true | _ => false) = true := by
  decide

/-! ## 2c. attribute values that go through `insert_xpaths` (`jr:noAppErrorString`, `bind::x`, `body::x` …) -/

/-- **`insert_xpaths` on a cell `t0 ${n1} t1 … ${nk} tk`** (k ≥ 0): the literal chunks stay where they are, each
    reference is replaced by its xpath, nothing else happens -/
theorem insert_xpaths_cell (refs : List (Str × Str)) (c : Cell) (items : List (Str × Str))
    (hh : hasDollarBrace c.head = false) (ht : TailOk c.tail) (hr : resolve refs c.tail = some items) :
    insertXpaths refs c.text = some (c.head ++ itemsAttr items) := by
  have := SubRTo.text (subRTo_tail refs c.tail items ht hr) (tailText_head c.tail) c.head hh
  exact this _ (by simp [Cell.text])

/-- … and the reader recovers exactly that string from the attribute (TAB/LF/CR normalised), as the only attribute:
    the text of the cell cannot add or rename an attribute or create a child -/
theorem attr_refs_channel (refs : List (Str × Str)) (tag k : Str) (c : Cell) (items : List (Str × Str))
    (htag : isName tag = true) (hk : isName k = true)
    (hh : hasDollarBrace c.head = false) (ht : TailOk c.tail) (hr : resolve refs c.tail = some items)
    (hx : ∀ ch ∈ c.head ++ itemsAttr items, isXmlChar ch = true) :
    ∃ v, insertXpaths refs c.text = some v ∧
      parseDoc (renderDoc false (nodeAttr tag k v)) =
        some (.elem tag [(k, normAttrVal (c.head ++ itemsAttr items))] []) :=
  ⟨_, insert_xpaths_cell refs c items hh ht hr, attr_channel tag k _ htag hk hx⟩

/-! ## 3. the mixed channel: `insert_output_values` + `node(tag, …, toParseString=…)` -/

/-- the cell holds no instance() expression: its escaped text is short or does not contain `instance(`
    (then `replace_with_output` is the identity: `Chan.replaceWithOutput_noInstance`).  Cells WITH such
    expressions are inside the model too; what the code does with them is pinned by the witnesses of section 7. -/
def NoInstanceExpr (text : Str) : Prop :=
  (9 < (escText text).length && isInfix "instance(".toList (escText text)) = false

/-- **no reference**: a cell without `${` goes through `insert_output_values` unchanged and unflagged,
    whatever else it contains (`<output value="x"/>` typed by the author included) -/
theorem insert_no_ref (refs : List (Str × Str)) (s : Str) (h : hasDollarBrace s = false) (hi : NoInstanceExpr s) :
    insertOutputValues refs s = .ok (s, false) := by
  unfold insertOutputValues insertOutputValuesWith
  by_cases hd : s = ['-']
  · simp [hd]
  · have hsub : subOutputs refs ((escText s).length + 1) (escText s) = some (escText s) := by
      have := SubTo.text (SubTo.nil refs) (by simp) s h
      simp only [List.append_nil] at this
      exact this _ (by omega)
    simp only [hd, if_false, show replaceWithOutputWith Lexer.activeRules refs (escText s) = .ok (escText s) from replaceWithOutput_noInstance refs (escText s) hi, finishInsert]
    split <;> simp_all

/-- … so the mixed channel is the plain text channel for such cells, and `text_channel` applies -/
theorem mixed_no_ref (refs : List (Str × Str)) (tag s : Str) (h : hasDollarBrace s = false) (hi : NoInstanceExpr s) :
    mixedChannel refs tag s = .ok (nodeText tag s) := by
  simp [mixedChannel_unfold, insert_no_ref refs s h hi]

theorem escText_no_lt (s : Str) : '<' ∉ escText s := by
  induction s with
  | nil => simp
  | cons c s ih =>
    rw [escText_cons]
    intro hm
    rcases List.mem_append.mp hm with h | h
    · unfold escTextChar at h
      split at h
      · simp at h
      · simp at h
      · simp at h
      · rename_i h1 h2 h3
        simp at h
        exact h2 h.symm
    · exact ih h

theorem escText_tailText_head (tail : List (Str × Str)) : ∀ r', escText (Cell.tailText tail) ≠ '{' :: r' := by
  cases tail with
  | nil => simp [Cell.tailText]
  | cons nt rest =>
    obtain ⟨n, t⟩ := nt
    simp [Cell.tailText, refMarkup, escText_cons, escTextChar]

/-- every resolved xpath is free of markup characters (`ValOk`; pyxform builds it from validated names) -/
def ValsOk : List (Str × Str) → Prop
  | [] => True
  | (v, _) :: rest => ValOk v ∧ ValsOk rest

/-- the shape of a cell `t0 ${n1} t1 … ${nk} tk` with k ≥ 1: literal texts without `${` (ANY characters), names
    delimitable (`NameOk`), every name resolves, resolved xpaths free of markup characters -/
structure CellShape (refs : List (Str × Str)) (c : Cell) (items : List (Str × Str)) : Prop where
  head : hasDollarBrace c.head = false
  tail : TailOk c.tail
  resolved : resolve refs c.tail = some items
  vals : ValsOk items
  nonempty : c.tail ≠ []

/-- all literal texts of the cell pass `_validate_xml_chars` -/
def textsValid (head : Str) (items : List (Str × Str)) : Bool :=
  validChars head && items.all fun it => validChars it.2

/-- … and, in addition, all literal texts are XML characters -/
structure CellOk (refs : List (Str × Str)) (c : Cell) (items : List (Str × Str)) : Prop where
  head : TextOk c.head
  tail : TailOk c.tail
  resolved : resolve refs c.tail = some items
  items : ItemsOk items
  nonempty : c.tail ≠ []

theorem itemsOk_vals : ∀ {items : List (Str × Str)}, ItemsOk items → ValsOk items
  | [], _ => trivial
  | (_, _) :: _, h => ⟨h.1, itemsOk_vals h.2.2⟩

theorem CellOk.shape {refs : List (Str × Str)} {c : Cell} {items : List (Str × Str)} (h : CellOk refs c items) :
    CellShape refs c items :=
  ⟨h.head.1, h.tail, h.resolved, itemsOk_vals h.items, h.nonempty⟩

theorem itemsOk_of_vals : ∀ {items : List (Str × Str)}, ValsOk items →
    (items.all fun it => validChars it.2) = true → ItemsOk items
  | [], _, _ => trivial
  | (v, t) :: rest, hv, ht => by
    simp only [List.all_cons, Bool.and_eq_true] at ht
    exact ⟨hv.1, List.all_eq_true.mp ht.1, itemsOk_of_vals hv.2 ht.2⟩

theorem CellOk.texts_valid {refs : List (Str × Str)} {c : Cell} {items : List (Str × Str)} (h : CellOk refs c items) :
    textsValid c.head items = true := by
  have : ∀ {its : List (Str × Str)}, ItemsOk its → (its.all fun it => validChars it.2) = true := by
    intro its
    induction its with
    | nil => intro _; rfl
    | cons vt rest ih =>
      obtain ⟨v, t⟩ := vt
      intro hk
      simp only [List.all_cons, Bool.and_eq_true]
      exact ⟨List.all_eq_true.mpr hk.2.1, ih hk.2.2⟩
  unfold textsValid
  rw [Bool.and_eq_true]
  exact ⟨List.all_eq_true.mpr h.head.2, this h.items⟩

/-- **references, any number**: `insert_output_values` returns the escaped text chunks interleaved with
    one `<output value="…" />` per reference, flagged as changed — whatever characters the texts hold -/
theorem insert_refs_shape (refs : List (Str × Str)) (c : Cell) (items : List (Str × Str))
    (hc : CellShape refs c items) (hi : NoInstanceExpr c.text) :
    insertOutputValues refs c.text = .ok (escText c.head ++ itemsMarkup items, true) := by
  obtain ⟨n, t, rest, htail⟩ : ∃ n t rest, c.tail = (n, t) :: rest := by
    cases h : c.tail with
    | nil => exact absurd h hc.nonempty
    | cons nt rest => exact ⟨nt.1, nt.2, rest, rfl⟩
  have hsub := SubTo.text (subTo_tail refs c.tail items hc.tail hc.resolved) (escText_tailText_head c.tail) c.head hc.head
  rw [← escText_append] at hsub
  have hsub' : subOutputs refs ((escText c.text).length + 1) (escText c.text) =
      some (escText c.head ++ itemsMarkup items) := hsub _ (by simp [Cell.text])
  have hne : c.text ≠ ['-'] := by
    simp only [Cell.text, htail, Cell.tailText, refMarkup]
    cases c.head with
    | nil => simp
    | cons x xs => simp
  have hbrace : (escText c.text).contains '{' = true := by
    simp [Cell.text, htail, Cell.tailText, refMarkup, escText_append, escText_cons, escTextChar]
  have hitems : ∃ v items', items = (v, t) :: items' := by
    have := hc.resolved
    rw [htail] at this
    simp only [resolve] at this
    split at this
    · simp at this; exact ⟨_, _, this.symm⟩
    · simp at this
  obtain ⟨v, items', rfl⟩ := hitems
  have hneq : escText c.head ++ itemsMarkup ((v, t) :: items') ≠ escText c.text := by
    intro heq
    have hmem : '<' ∈ escText c.head ++ itemsMarkup ((v, t) :: items') := by
      simp only [itemsMarkup]
      rw [outputMarkup_eq]
      simp
    rw [heq] at hmem
    exact escText_no_lt _ hmem
  unfold insertOutputValues insertOutputValuesWith
  simp only [hne, if_false, show replaceWithOutputWith Lexer.activeRules refs (escText c.text) = .ok (escText c.text) from replaceWithOutput_noInstance refs (escText c.text) hi, finishInsert, hbrace, if_true]
  rw [hsub']
  simp [hneq]

theorem insert_refs (refs : List (Str × Str)) (c : Cell) (items : List (Str × Str))
    (hc : CellOk refs c items) (hi : NoInstanceExpr c.text) :
    insertOutputValues refs c.text = .ok (escText c.head ++ itemsMarkup items, true) :=
  insert_refs_shape refs c items hc.shape hi

theorem validChars_append (a b : Str) : validChars (a ++ b) = (validChars a && validChars b) := by
  simp [validChars]

theorem validChars_escText (s : Str) : validChars (escText s) = validChars s := by
  induction s with
  | nil => rfl
  | cons c s ih =>
    rw [escText_cons, validChars_append, ih]
    have : validChars (escTextChar c) = isXmlChar c := by
      unfold escTextChar
      split
      · decide
      · decide
      · decide
      · simp [validChars]
    rw [this]
    simp [validChars]

theorem validChars_outputMarkup (v : Str) : validChars (outputMarkup v) = validChars v := by
  have h := outputMarkup_eq v []
  rw [List.append_nil] at h
  have c1 : validChars ('<' :: (tagOutput ++ [' '] ++ attrValue ++ ['=', '"'])) = true := by decide
  have c2 : validChars ['"', ' ', '/', '>'] = true := by decide
  have e : '<' :: (tagOutput ++ ' ' :: (attrValue ++ '=' :: '"' :: (v ++ ['"', ' ', '/', '>']))) =
      ('<' :: (tagOutput ++ [' '] ++ attrValue ++ ['=', '"'])) ++ (v ++ ['"', ' ', '/', '>']) := by simp
  rw [h, e, validChars_append, validChars_append, c1, c2]
  simp

theorem validChars_itemsMarkup : ∀ (items : List (Str × Str)), ValsOk items →
    validChars (itemsMarkup items) = items.all fun it => validChars it.2
  | [], _ => rfl
  | (v, t) :: rest, hv => by
    have hvv : validChars v = true := attrCharOk_xml hv.1.attrOk
    simp only [itemsMarkup, List.all_cons, validChars_append, validChars_outputMarkup, hvv, validChars_escText,
      validChars_itemsMarkup rest hv.2, Bool.true_and]

/-- **the mixed channel, total form** (with the character check of fix 9bea19c in `node()`): a cell of the
    shape `t0 ${n1} t1 … ${nk} tk` — ANY characters in the literal texts — is either rejected with a
    PyXFormError, exactly when some literal text holds a character XML does not allow, or becomes the DOM with
    exactly the prescribed children.  There is no third outcome (no crash of the re-parse). -/
theorem mixed_channel_total (refs : List (Str × Str)) (tag : Str) (c : Cell) (items : List (Str × Str))
    (htag : isName tag = true) (hc : CellShape refs c items) (hi : NoInstanceExpr c.text) :
    mixedChannel refs tag c.text =
      if textsValid c.head items then .ok (.elem tag [] (cellKids true c.head items)) else .pyxformError := by
  have hv : validChars (escText c.head ++ itemsMarkup items) = textsValid c.head items := by
    rw [validChars_append, validChars_escText, validChars_itemsMarkup items hc.vals, textsValid]
  simp only [mixedChannel_unfold, insert_refs_shape refs c items hc hi, hv]
  cases ht : textsValid c.head items with
  | false => simp
  | true =>
    have h2 : validChars c.head = true ∧ (items.all fun it => validChars it.2) = true := by
      simpa [textsValid] using ht
    simp [nodeParsed_items tag c.head items htag (List.all_eq_true.mp h2.1) (itemsOk_of_vals hc.vals h2.2)]

/-- **the mixed channel, any number of references**: the DOM that `node(tag, …, toParseString=True)`
    builds has exactly the children the cell prescribes — the literal chunks as text nodes (data) and one
    `output` element per reference, in order; user text creates, renames or removes nothing -/
theorem mixed_channel (refs : List (Str × Str)) (tag : Str) (c : Cell) (items : List (Str × Str))
    (htag : isName tag = true) (hc : CellOk refs c items) (hi : NoInstanceExpr c.text) :
    mixedChannel refs tag c.text = .ok (.elem tag [] (cellKids true c.head items)) := by
  rw [mixed_channel_total refs tag c items htag hc.shape hi, hc.texts_valid]
  rfl

/-- one reference (the instance the DESIGN plan asked for first), spelled out -/
theorem mixed_one_ref (refs : List (Str × Str)) (tag a n b xp : Str) (htag : isName tag = true)
    (ha : TextOk a) (hb : TextOk b) (hn : NameOk n) (hls : startsWith n lastSavedTag = false)
    (hx : lookup n refs = some xp) (hv : ValOk (' ' :: xp ++ [' ']))
    (hi : NoInstanceExpr (a ++ refMarkup n ++ b)) :
    mixedChannel refs tag (a ++ refMarkup n ++ b) =
      .ok (.elem tag [] (chunk true (normEol a) ++ outputNode (' ' :: xp ++ [' ']) :: chunk true (normEol b))) := by
  have hc : CellOk refs ⟨a, [(n, b)]⟩ [(' ' :: xp ++ [' '], b)] :=
    ⟨ha, ⟨hn, hb.1, trivial⟩, by simp [resolve, varReplName, hls, varRepl, hx], ⟨hv, hb.2, trivial⟩, by simp⟩
  have := mixed_channel refs tag ⟨a, [(n, b)]⟩ _ htag hc (by simpa [Cell.text, Cell.tailText] using hi)
  simpa [Cell.text, Cell.tailText, cellKids, itemsKids] using this

/-! ## 4. what the consumer of the XForm reads back from the mixed channel, and document shape -/

theorem normEol_xml : ∀ (n : Nat) (s : Str), s.length ≤ n → (∀ c ∈ s, isXmlChar c = true) →
    ∀ c ∈ normEol s, isXmlChar c = true
  | _, [], _, _ => by simp [normEol]
  | 0, _ :: _, hl, _ => by simp at hl
  | n + 1, c :: r, hl, hs => by
    by_cases h : c = '\r' ∧ ∃ r', r = '\n' :: r'
    · obtain ⟨rfl, r', rfl⟩ := h
      rw [normEol_cr_lf]
      intro d hd
      rcases List.mem_cons.mp hd with rfl | hd
      · decide
      · exact normEol_xml n r' (by simp at hl; omega) (fun e he => hs e (by simp [he])) d hd
    · rw [normEol_cons c r (by intro hc r' hr; exact h ⟨hc, r', hr⟩)]
      intro d hd
      rcases List.mem_cons.mp hd with rfl | hd
      · split
        · decide
        · exact hs _ (by simp)
      · exact normEol_xml n r (by simp at hl; omega) (fun e he => hs e (by simp [he])) d hd

theorem WFKidsLax_append (L1 L2 : List Node) : WFKidsLax (L1 ++ L2) = (WFKidsLax L1 && WFKidsLax L2) := by
  induction L1 with
  | nil => simp [WFKidsLax]
  | cons n r ih => simp [WFKidsLax, ih, Bool.and_assoc]

theorem WFKidsLax_chunk (b : Bool) (s : Str) (hs : ∀ c ∈ s, isXmlChar c = true) :
    WFKidsLax (chunk b (normEol s)) = true := by
  have := normEol_xml s.length s (Nat.le_refl _) hs
  simp only [chunk]
  split
  · simp [WFKidsLax]
  · simp [WFKidsLax, Node.WFLax, List.all_eq_true.mpr this]

theorem WFLax_outputNode (v : Str) (hv : ValOk v) : (outputNode v).WFLax = true := by
  have h1 : isName tagOutput = true := by decide
  have h2 : isName attrValue = true := by decide
  rw [outputNode_eq]
  simp [Node.WFLax, WFKidsLax, attrsWFLax, attrKeysNodup, h1, h2, attrCharOk_xml hv.attrOk]

theorem WFKidsLax_items : ∀ (items : List (Str × Str)), ItemsOk items → WFKidsLax (itemsKids true items) = true
  | [], _ => by simp [itemsKids, WFKidsLax]
  | (v, t) :: rest, hok => by
    obtain ⟨hv, ht, hrest⟩ := hok
    simp only [itemsKids, WFKidsLax, WFKidsLax_append, WFLax_outputNode v hv, WFKidsLax_chunk true t ht,
      WFKidsLax_items rest hrest, Bool.and_self]

theorem shapes_chunk (b : Bool) (s : Str) : shapes (chunk b s) = [] := by
  simp only [chunk]
  split <;> simp [shapes, shape]

/-- the element children of the prescribed child list: one `output` with one attribute `value` per
    reference, nothing contributed by the literal texts -/
theorem shapes_cellKids (b : Bool) (head : Str) : ∀ (items : List (Str × Str)),
    shapes (cellKids b head items) = items.map fun _ => Shape.mk tagOutput [attrValue] []
  | [] => by simp [cellKids, itemsKids, shapes_chunk]
  | (v, t) :: rest => by
    have ih := shapes_cellKids b t rest
    simp only [cellKids, shapes_append, shapes_chunk, List.nil_append] at ih ⊢
    simp only [itemsKids, shapes, shape, outputNode_eq, shapes_append, shapes_chunk, ih]
    simp

/-- **the consumer's view of the mixed channel**: an XML reader applied to the written element reports
    `expectedLax` of the prescribed DOM (text chunks merged, boundary spaces of `writexml` added) … -/
theorem mixed_reader (tag head : Str) (items : List (Str × Str)) (htag : isName tag = true)
    (hh : ∀ c ∈ head, isXmlChar c = true) (hok : ItemsOk items) :
    parseDoc (renderDoc false (.elem tag [] (cellKids true head items))) =
      some (expectedLax (.elem tag [] (cellKids true head items))) := by
  refine render_parses_compact_lax _ ?_ rfl
  simp [Node.WFLax, attrsWFLax, attrKeysNodup, htag, cellKids, WFKidsLax_append, WFKidsLax_chunk true head hh,
    WFKidsLax_items items hok]

/-- … whose markup consists of the `tag` element and exactly one `output value=…` per reference —
    independent of every literal text of the cell -/
theorem mixed_shape (tag head : Str) (items : List (Str × Str)) :
    shape (expectedLax (.elem tag [] (cellKids true head items))) =
      [Shape.mk tag [] (items.map fun _ => Shape.mk tagOutput [attrValue] [])] := by
  rw [shape_expectedLax]
  simp [shape, shapes_cellKids]

/-- **shape non-interference, every channel, both output modes**: whatever texts and attribute values a
    DOM tree carries, the document an XML reader sees has the tags and attribute names of the tree -/
theorem reader_shape (t : Node) (hwf : t.WFLax = true) (he : isElem t = true) (pretty : Bool) :
    ∃ u, parseDoc (renderDoc pretty t) = some u ∧ shape u = shape t := by
  cases pretty with
  | false => exact ⟨_, render_parses_compact_lax t hwf he, shape_expectedLax t⟩
  | true => exact ⟨_, render_parses_pretty_lax t hwf he, shape_expectedPrettyLax t⟩

/-- two cells with the same reference skeleton give documents of the same shape (texts replaced by a
    benign placeholder: the second oracle of the check) -/
theorem shape_noninterference (refs : List (Str × Str)) (tag : Str) (c c' : Cell) (items items' : List (Str × Str))
    (htag : isName tag = true) (hc : CellOk refs c items) (hc' : CellOk refs c' items')
    (hi : NoInstanceExpr c.text) (hi' : NoInstanceExpr c'.text) (hskel : c.tail.length = c'.tail.length) :
    ∃ n n' u u', mixedChannel refs tag c.text = .ok n ∧ mixedChannel refs tag c'.text = .ok n' ∧
      parseDoc (renderDoc false n) = some u ∧ parseDoc (renderDoc false n') = some u' ∧ shape u = shape u' := by
  have hlen : ∀ (tail its : List (Str × Str)), resolve refs tail = some its → its.length = tail.length := by
    intro tail
    induction tail with
    | nil => intro its h; simp [resolve] at h; simp [h]
    | cons nt rest ih =>
      intro its h
      obtain ⟨n, t⟩ := nt
      simp only [resolve] at h
      split at h
      · rename_i v its' _ hres
        simp at h
        subst h
        simp [ih its' hres]
      · simp at h
  refine ⟨_, _, _, _, mixed_channel refs tag c items htag hc hi, mixed_channel refs tag c' items' htag hc' hi',
    mixed_reader tag c.head items htag hc.head.2 hc.items, mixed_reader tag c'.head items' htag hc'.head.2 hc'.items, ?_⟩
  rw [mixed_shape, mixed_shape]
  have h1 := hlen _ _ hc.resolved
  have h2 := hlen _ _ hc'.resolved
  have : items.length = items'.length := by omega
  congr 2
  apply List.ext_getElem (by simp [this])
  intro i h1 h2
  simp

/-! ## 4b. the flattened-string form: the recovered string equals the cell up to the boundary spaces -/

theorem flatKids_append (L1 L2 : List Node) : flatKids (L1 ++ L2) = flatKids L1 ++ flatKids L2 := by
  induction L1 with
  | nil => simp [flatKids]
  | cons n r ih => cases n <;> simp [flatKids, ih]

theorem flatKids_textIf (s : Str) : flatKids (textIfNonempty s) = s := by
  cases s <;> simp [textIfNonempty, flatKids]

theorem flatKids_chunk (b : Bool) (s : Str) : flatKids (chunk b s) = s := by
  cases s <;> simp [chunk, flatKids]

theorem flatKids_prepend (a : Str) (L : List Node) : flatKids (prepend a L) = a ++ flatKids L := by
  cases a with
  | nil => rfl
  | cons c a =>
    cases L with
    | nil => simp [prepend, flatKids]
    | cons n r => cases n <;> simp [prepend, flatKids]

theorem flatKids_mergeText (L : List Node) : flatKids (mergeText L) = flatKids L := by
  induction L with
  | nil => simp [mergeText]
  | cons n r ih =>
    cases n with
    | text b s => simp [mergeText_text, flatKids_prepend, ih, flatKids]
    | elem t a ks => simp [mergeText_elem, flatKids, ih]

theorem flatKids_normKids (L : List Node) : flatKids (normKids L) = flatKids L := by
  induction L with
  | nil => simp [normKids]
  | cons n r ih => cases n <;> simp [normKids, normNode_text, normNode_elem, flatKids, ih]

theorem normEol_noCR : ∀ (n : Nat) (s : Str), s.length ≤ n → (normEol s).all (fun c => c != '\r') = true
  | _, [], _ => by simp [normEol]
  | 0, _ :: _, hl => by simp at hl
  | n + 1, c :: r, hl => by
    by_cases h : c = '\r' ∧ ∃ r', r = '\n' :: r'
    · obtain ⟨rfl, r', rfl⟩ := h
      rw [normEol_cr_lf]
      simp only [List.all_cons, Bool.and_eq_true]
      exact ⟨by decide, normEol_noCR n r' (by simp at hl; omega)⟩
    · rw [normEol_cons c r (by intro hc r' hr; exact h ⟨hc, r', hr⟩)]
      simp only [List.all_cons, Bool.and_eq_true]
      refine ⟨?_, normEol_noCR n r (by simp at hl; omega)⟩
      split
      · decide
      · rename_i hne; simpa using hne

theorem noCRKids_chunk (b : Bool) (s : Str) : noCRKids (chunk b (normEol s)) = true := by
  simp only [chunk]
  split
  · simp [noCRKids]
  · simp [noCRKids, noCR, normEol_noCR s.length s (Nat.le_refl _)]

theorem noCRKids_items (b : Bool) : ∀ (items : List (Str × Str)), noCRKids (itemsKids b items) = true
  | [] => by simp [itemsKids, noCRKids]
  | (v, t) :: rest => by
    simp [itemsKids, noCRKids, noCR, outputNode, noCRKids_append, noCRKids_chunk, noCRKids_items b rest]

theorem normAttrsKids_chunk (b : Bool) (s : Str) : normAttrsKids (chunk b s) = chunk b s := by
  cases s <;> simp [chunk, normAttrsKids, normAttrs]

theorem normAttrsKids_append (L1 L2 : List Node) :
    normAttrsKids (L1 ++ L2) = normAttrsKids L1 ++ normAttrsKids L2 := by
  induction L1 with
  | nil => simp [normAttrsKids]
  | cons n r ih => simp [normAttrsKids, ih]

theorem normAttrsKids_items (b : Bool) : ∀ (items : List (Str × Str)), ItemsOk items →
    normAttrsKids (itemsKids b items) = itemsKids b items
  | [], _ => by simp [itemsKids, normAttrsKids]
  | (v, t) :: rest, hok => by
    obtain ⟨hv, _, hrest⟩ := hok
    simp [itemsKids, normAttrsKids, normAttrs, outputNode, normAttrList, normAttrVal_ok v hv.attrOk,
      normAttrsKids_append, normAttrsKids_chunk, normAttrsKids_items b rest hrest]

theorem withSpacesKids_chunk (b : Bool) (s : Str) : withSpacesKids (chunk b s) = chunk b s := by
  cases s <;> simp [chunk, withSpacesKids, withSpaces]

theorem withSpacesKids_append (L1 L2 : List Node) :
    withSpacesKids (L1 ++ L2) = withSpacesKids L1 ++ withSpacesKids L2 := by
  induction L1 with
  | nil => simp [withSpacesKids]
  | cons n r ih => simp [withSpacesKids, ih]

theorem withSpacesKids_items (b : Bool) : ∀ (items : List (Str × Str)),
    withSpacesKids (itemsKids b items) = itemsKids b items
  | [] => by simp [itemsKids, withSpacesKids]
  | (v, t) :: rest => by
    simp [itemsKids, withSpacesKids, withSpaces, outputNode, withSpacesKids_append, withSpacesKids_chunk,
      withSpacesKids_items b rest]

theorem flatKids_items (b : Bool) : ∀ (items : List (Str × Str)), flatKids (itemsKids b items) = flatItems items
  | [] => by simp [itemsKids, flatItems, flatKids]
  | (v, t) :: rest => by
    simp [itemsKids, flatItems, flatKids, outputNode, flatKids_append, flatKids_chunk, flatKids_items b rest]

/-- **flattened form of `mixed_reader`**: written as one string (text as is, each `output` as `\x00 value \x00`) the
    children an XML reader finds are the cell's own flattening `flatCell` — every literal chunk character for
    character (line ends normalised), every reference's xpath in its place — surrounded by the boundary spaces of
    `writexml` (`leadSp`/`trailSp`: at most one space each, present only for mixed content with more than one child) -/
theorem mixed_flat (tag head : Str) (items : List (Str × Str)) (hok : ItemsOk items) :
    ∃ ks, expectedLax (.elem tag [] (cellKids true head items)) = .elem tag [] ks ∧
      flatKids ks =
        (if (cellKids true head items).any isText then
           leadSp (cellKids true head items) ++ flatCell head items ++ trailSp (cellKids true head items)
         else flatCell head items) := by
  have hK : normAttrsKids (cellKids true head items) = cellKids true head items := by
    simp [cellKids, normAttrsKids_append, normAttrsKids_chunk, normAttrsKids_items true items hok]
  have hW : withSpacesKids (cellKids true head items) = cellKids true head items := by
    simp [cellKids, withSpacesKids_append, withSpacesKids_chunk, withSpacesKids_items]
  have hF : flatKids (cellKids true head items) = flatCell head items := by
    simp [cellKids, flatCell, flatKids_append, flatKids_chunk, flatKids_items]
  have hna : normAttrs (.elem tag [] (cellKids true head items)) = .elem tag [] (cellKids true head items) := by
    simp [normAttrs, normAttrList, hK]
  have hcr : noCR (.elem tag [] (cellKids true head items)) = true := by
    simp [noCR, cellKids, noCRKids_append, noCRKids_chunk, noCRKids_items]
  rw [expectedLax_of_noCR _ hcr, hna, expected]
  simp only [withSpaces, hW]
  split
  · rename_i hany
    refine ⟨_, normNode_elem _ _ _, ?_⟩
    simp [flatKids_mergeText, flatKids_normKids, flatKids_append, flatKids_textIf, hF]
  · refine ⟨_, normNode_elem _ _ _, ?_⟩
    simp [flatKids_mergeText, flatKids_normKids, hF]

-- the boundary spaces are at most one space each
example (K : List Node) : leadSp K = [] ∨ leadSp K = [' '] := by
  unfold leadSp; split
  · exact Or.inl rfl
  · split
    · exact Or.inl rfl
    · split
      · exact Or.inr rfl
      · exact Or.inl rfl
example (K : List Node) : trailSp K = [] ∨ trailSp K = [' '] := by
  unfold trailSp; split
  · exact Or.inl rfl
  · split
    · exact Or.inl rfl
    · exact Or.inr rfl

/-! ## 5. Tie to the current source: regenerated tables (re-checked on every run) -/

/-- `utils.XML_TEXT_SUBS` of the working tree is exactly the table `escTextChar` implements … -/
theorem table_xmlTextSubs :
    Pyxv.Gen.xmlTextSubs = [("&", "&amp;"), ("<", "&lt;"), (">", "&gt;")] := by decide

/-- … entry by entry: every key is one character and `escTextChar` maps it to the table's value -/
theorem table_escTextChar :
    Pyxv.Gen.xmlTextSubs.all (fun kv =>
      match kv.1.toList with
      | [c] => escTextChar c == kv.2.toList
      | _ => false) = true := by decide

/-- the pattern `matchRef` / `takeToBrace` implement is the pattern the code compiles -/
theorem table_bracketedTagRegex :
    Pyxv.Gen.regexSources.lookup "BRACKETED_TAG_REGEX" = some "\\${(last-saved#)?(.*?)}" ∧
    Pyxv.Gen.regexSources.lookup "survey.BRACKETED_TAG_REGEX" = some "\\${(last-saved#)?(.*?)}" := by decide

/-- a literal of the source, read by the translator (`Pyxv.Gen.c06Literals`) -/
def srcLit (k : String) : Str := ((Pyxv.Gen.c06Literals.lookup k).getD "?").toList

/-- **the hand-written literals of the channel model are the literals of the current source**: the f-string of
    `_var_repl_output_function`, `LAST_SAVED_INSTANCE_NAME` and the two templates of `_var_repl_function`, the length
    threshold and the `instance(` literal of `instance_expression.py`, the `"-"` pass-through of `insert_output_values` -/
theorem table_c06Literals :
    outputMarkup "V".toList = srcLit "output_markup_prefix" ++ "V".toList ++ srcLit "output_markup_suffix" ∧
    varRepl [("a".toList, "/x".toList)] true "a".toList =
      some (" instance('".toList ++ srcLit "last_saved_instance_name" ++ "')/x ".toList) ∧
    srcLit "last_saved_prefix_template_present" = "True".toList ∧
    srcLit "var_repl_return_template_present" = "True".toList ∧
    srcLit "replace_min_length" = "9".toList ∧
    (match replaceWithOutputWith none [] (List.replicate 9 'a'), replaceWithOutputWith none [] (List.replicate 10 'a') with
     | .ok _, .unsupported _ => true | _, _ => false) = true ∧
    isInstanceCall ⟨"FUNC_CALL", srcLit "instance_call_literals", 0, 0⟩ = true ∧
    (match insertOutputValuesWith none [] (srcLit "insert_output_values_passthrough") with
     | .ok (x, false) => x == ['-'] | _ => false) = true := by
  decide +kernel

/-! ## 6. Non-vacuity -/

instance decValOk (v : Str) : Decidable (ValOk v) := by unfold ValOk; infer_instance
instance decValsOk : (l : List (Str × Str)) → Decidable (ValsOk l)
  | [] => isTrue trivial
  | (v, _) :: rest =>
    match decValOk v, decValsOk rest with
    | isTrue h1, isTrue h2 => isTrue ⟨h1, h2⟩
    | isFalse h1, _ => isFalse fun h => h1 h.1
    | _, isFalse h2 => isFalse fun h => h2 h.2

instance (t : Str) : Decidable (TextOk t) := by unfold TextOk; infer_instance
instance (n : Str) : Decidable (NameOk n) := by unfold NameOk; infer_instance
instance (s : Str) : Decidable (NoInstanceExpr s) := by unfold NoInstanceExpr; infer_instance

def exRefs : List (Str × Str) := [("a".toList, "/data/a".toList), ("b2".toList, "/data/g/b2".toList)]

/-- an adversarial label: markup, entity-, comment-, CDATA-like text, a typed `<output/>`, quotes, braces,
    a lone `$`, non-BMP and RTL characters, CR LF, two references (one directly at the end) -/
def exCell : Cell :=
  ⟨"A <b>&amp; \"q\" 's' ]]> <!-- x --> <output value=\"/data/a\"/> {y} $".toList,
   [("a".toList, " é 😀 ع\r\n&#x3c; }<![CDATA[ $".toList), ("b2".toList, [])]⟩

def exItems : List (Str × Str) :=
  [(" /data/a ".toList, " é 😀 ع\r\n&#x3c; }<![CDATA[ $".toList), (" /data/g/b2 ".toList, [])]

theorem exCell_ok : CellOk exRefs exCell exItems :=
  ⟨by decide, ⟨by decide, by decide, by decide, by decide, trivial⟩, by decide,
   ⟨by decide, by decide, by decide, by decide, trivial⟩, by decide⟩

theorem exCell_noInstance : NoInstanceExpr exCell.text := by decide +kernel

example : isName "label".toList = true := by decide

-- the theorems instantiated …
example : mixedChannel exRefs "label".toList exCell.text =
    .ok (.elem "label".toList [] (cellKids true exCell.head exItems)) :=
  mixed_channel exRefs _ exCell exItems (by decide) exCell_ok exCell_noInstance
example : insertOutputValues exRefs exCell.text = .ok (escText exCell.head ++ itemsMarkup exItems, true) :=
  insert_refs exRefs exCell exItems exCell_ok exCell_noInstance
example : parseDoc (renderDoc false (.elem "label".toList [] (cellKids true exCell.head exItems))) =
    some (expectedLax (.elem "label".toList [] (cellKids true exCell.head exItems))) :=
  mixed_reader _ _ _ (by decide) exCell_ok.head.2 exCell_ok.items

-- … and what the consumer reads, computed by the kernel: the literal text is data (the typed `<output/>`
-- and `<b>` are characters of a text node), the two references are the only elements, CR LF became LF,
-- `writexml` added one leading and one trailing space
theorem exCell_read :
    (match mixedChannel exRefs "label".toList exCell.text with
     | .ok n => parseDoc (renderDoc false n)
     | _ => none) =
    some (.elem "label".toList []
      [ .text false " A <b>&amp; \"q\" 's' ]]> <!-- x --> <output value=\"/data/a\"/> {y} $".toList,
        .elem "output".toList [("value".toList, " /data/a ".toList)] [],
        .text false " é 😀 ع\n&#x3c; }<![CDATA[ $".toList,
        .elem "output".toList [("value".toList, " /data/g/b2 ".toList)] [],
        .text false " ".toList ]) := by decide +kernel

-- `mixed_flat` at the adversarial cell: what the consumer reads, as one string
example : ∃ ks, expectedLax (.elem "label".toList [] (cellKids true exCell.head exItems)) = .elem "label".toList [] ks ∧
    flatKids ks = ' ' :: (flatCell exCell.head exItems ++ [' ']) := by
  obtain ⟨ks, h1, h2⟩ := mixed_flat "label".toList exCell.head exItems exCell_ok.items
  refine ⟨ks, h1, ?_⟩
  rw [h2]
  decide +kernel

-- text / attribute channels on adversarial strings
example : parseDoc (renderDoc false (nodeText "hint".toList "]]> <a b='c'>&#38;&unknown; \r x".toList)) =
    some (.elem "hint".toList [] [.text false "]]> <a b='c'>&#38;&unknown; \n x".toList]) :=
  text_channel _ _ (by decide) (by decide)
example : parseDoc (renderDoc false (nodeAttr "bind".toList "jr:constraintMsg".toList "a \"<b>\" &amp;\t'\n".toList)) =
    some (.elem "bind".toList [("jr:constraintMsg".toList, "a \"<b>\" &amp; ' ".toList)] []) :=
  attr_channel _ _ _ (by decide) (by decide) (by decide)
example : mixedChannel exRefs "label".toList "<output value=\"/data/a\"/> $ {a} $a {".toList =
    .ok (nodeText "label".toList "<output value=\"/data/a\"/> $ {a} $a {".toList) :=
  mixed_no_ref _ _ _ (by decide) (by decide)
example : mixedChannel exRefs "label".toList "x < ${a} & y".toList =
    .ok (.elem "label".toList [] [.text true "x < ".toList, outputNode " /data/a ".toList, .text true " & y".toList]) :=
  mixed_one_ref exRefs _ "x < ".toList "a".toList " & y".toList "/data/a".toList (by decide) (by decide) (by decide)
    (by decide) (by decide) (by decide) (by decide) (by decide)

-- a control character next to a reference is rejected before the re-parse (fix 9bea19c), not crashed on …
example : (match mixedChannel exRefs "label".toList ['a', Char.ofNat 1, ' ', '$', '{', 'a', '}'] with
    | .pyxformError => true | _ => false) = true := by decide +kernel
-- … and a writer without the check would produce a document the reader rejects:
example : parseDoc (renderDoc false (nodeText "label".toList ['a', Char.ofNat 1, 'b'])) = none := by decide +kernel
-- an unknown name is an error:
example : (match mixedChannel exRefs "label".toList "x ${zz}".toList with | .pyxformError => true | _ => false) = true := by
  decide +kernel
-- `${last-saved#name}` is covered by the same theorem (the marker is resolved by `varReplName`):
def exCellLS : Cell := ⟨"saved <b>: ".toList, [("last-saved#a".toList, " & now ".toList), ("a".toList, [])]⟩
def exItemsLS : List (Str × Str) :=
  [(" instance('__last-saved')/data/a ".toList, " & now ".toList), (" /data/a ".toList, [])]
theorem exCellLS_ok : CellOk exRefs exCellLS exItemsLS :=
  ⟨by decide, ⟨by decide, by decide, by decide, by decide, trivial⟩, by decide,
   ⟨by decide, by decide, by decide, by decide, trivial⟩, by decide⟩
example : mixedChannel exRefs "hint".toList exCellLS.text =
    .ok (.elem "hint".toList [] (cellKids true exCellLS.head exItemsLS)) :=
  mixed_channel exRefs _ exCellLS exItemsLS (by decide) exCellLS_ok (by decide +kernel)

-- the total form at a cell with a control character next to a reference: rejected
def exCellBad : Cell := ⟨['a', Char.ofNat 1, 'b', ' '], [("a".toList, " <c>".toList)]⟩
theorem exCellBad_shape : CellShape exRefs exCellBad [(" /data/a ".toList, " <c>".toList)] :=
  ⟨by decide, ⟨by decide, by decide, trivial⟩, by decide, ⟨by decide, trivial⟩, by decide⟩
example : (match mixedChannel exRefs "label".toList exCellBad.text with | .pyxformError => true | _ => false) = true := by
  rw [mixed_channel_total exRefs _ exCellBad _ (by decide) exCellBad_shape (by decide +kernel)]
  decide
-- … and at the adversarial cell of XML characters: accepted, with the prescribed children
example : mixedChannel exRefs "label".toList exCell.text = .ok (.elem "label".toList [] (cellKids true exCell.head exItems)) := by
  rw [mixed_channel_total exRefs _ exCell exItems (by decide) exCell_ok.shape exCell_noInstance, exCell_ok.texts_valid]
  rfl

-- `insert_xpaths` / attribute channel with references at the adversarial cell
example : insertXpaths exRefs exCell.text = some (exCell.head ++ itemsAttr exItems) :=
  insert_xpaths_cell exRefs exCell exItems exCell_ok.head.1 exCell_ok.tail exCell_ok.resolved
example : ∃ v, insertXpaths exRefs exCell.text = some v ∧
    parseDoc (renderDoc false (nodeAttr "bind".toList "jr:noAppErrorString".toList v)) =
      some (.elem "bind".toList [("jr:noAppErrorString".toList, normAttrVal (exCell.head ++ itemsAttr exItems))] []) :=
  attr_refs_channel exRefs _ _ exCell exItems (by decide) (by decide) exCell_ok.head.1 exCell_ok.tail exCell_ok.resolved
    (by decide +kernel)

#print axioms mixed_channel
#print axioms mixed_channel_total
#print axioms shape_noninterference
#print axioms text_channel
#print axioms attr_channel

end Pyxv.C06
