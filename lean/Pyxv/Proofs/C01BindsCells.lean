import Pyxv.Proofs.C01Binds
/-!
# C01: the `]`-hypothesis of the `<bind>` / `<setvalue>` nodes reduced to the header cells

Keys of an element's bind dict = `bind` keys of its type-table section (regenerated table, `decide`) + the row's
`bind::X` header tokens (`rowBind`: `X` = header with the six characters `bind::` dropped) + literals of the generated
helpers (`_count`: `readonly`, `calculate`; `_other`: `relevant`; `instanceID`: `readonly`, `jr:preload`).  Hence the
only cells that can put a `]` into a `<bind>` node are **header cells `bind::X` with a `]` in `X`** (`BindHeadersNoBr`).
The invariant travels through `decorate` / `decorateAll` / `dparse` (begin/end stack) / `dWithMeta`.
-/
namespace Pyxv.ConvertP
open Pyxv Pyxv.Form Pyxv.Rows Pyxv.Xml Pyxv.Asm Pyxv.Convert Pyxv.C01

/-! ## 1. the type table's bind keys (re-checked against the regenerated table on every run) -/

/-- no `bind` key (indeed no key at all) of the regenerated question-type table contains `]` -/
theorem type_table_keys_noBr :
    Pyxv.Gen.questionTypes.all (fun p => p.2.all fun x => noBr x.2.1.toList) = true := by decide +kernel

theorem typeBind_keys {t : Str} {tt : List (Str × Str)} (h : Binds.typeBind t = some tt) : keysNoBr tt = true := by
  unfold Binds.typeBind at h
  split at h
  · cases h
  · rename_i e he
    split at h
    · cases h
      unfold Rows.typeEntry at he
      cases hf : Pyxv.Gen.questionTypes.find? (fun p => p.1.toList = t) with
      | none => rw [hf] at he; cases he
      | some p =>
        rw [hf] at he
        simp only [Option.map_some, Option.some.injEq] at he
        subst he
        have hm := List.mem_of_find?_eq_some hf
        have hall := (List.all_eq_true.mp type_table_keys_noBr) p hm
        unfold keysNoBr
        rw [List.all_eq_true]
        intro kv hkv
        obtain ⟨x, hx, rfl⟩ := List.mem_map.mp hkv
        exact (List.all_eq_true.mp hall) x (List.mem_filter.mp hx).1
    · cases h

/-! ## 2. the row's `bind::X` header tokens -/

/-- no `bind::X` header of the row has a `]` in `X` — the only header cells that reach a `<bind>` attribute name -/
def bindHeadersNoBr (r : Cells) : Bool := r.all fun kv => !startsWith kv.1 (l!"bind::") || noBr (kv.1.drop 6)

theorem keysNoBr_filterMap_bind (r : Cells) (h : bindHeadersNoBr r = true) :
    keysNoBr (r.filterMap fun kv =>
      if startsWith kv.1 (l!"bind::") then some (kv.1.drop 6, Binds.BVal.s kv.2) else none) = true := by
  induction r with
  | nil => rfl
  | cons kv r ih =>
    simp only [bindHeadersNoBr, List.all_cons, Bool.and_eq_true] at h
    have ih' := ih (by simpa [bindHeadersNoBr] using h.2)
    rw [List.filterMap_cons]
    cases hs : startsWith kv.1 (l!"bind::") with
    | false => simpa [hs] using ih'
    | true =>
      simp only [if_true]
      rw [keysNoBr_cons, Bool.and_eq_true]
      refine ⟨?_, ih'⟩
      have := h.1
      rw [hs] at this
      simpa using this

theorem rowBind_keys (r : Cells) (h : bindHeadersNoBr r = true) : keysNoBr ((rowBind r).getD []) = true := by
  unfold rowBind
  simp only []
  split
  · rfl
  · exact keysNoBr_filterMap_bind r h

/-! ## 3. bind sources -/

theorem qOK_of (q : Binds.Q) (htt : ∀ tt, q.tt = some tt → keysNoBr tt = true)
    (hb : keysNoBr (q.bind.getD []) = true) : qOK q = true := by
  unfold qOK Binds.rawBind
  split
  · rename_i tt h
    refine keysNoBr_dictUpdate _ _ ?_ hb
    have := htt tt h
    unfold keysNoBr at this ⊢
    rw [List.all_map]
    exact this
  · exact hb

theorem qOK_rowQ (name : Str) (r : Cells) (h : bindHeadersNoBr r = true) : qOK (rowQ name r) = true := by
  refine qOK_of _ ?_ (rowBind_keys r h)
  intro tt htt
  simp only [rowQ] at htt
  split at htt
  · cases htt
  · split at htt
    · exact typeBind_keys htt
    · split at htt
      · cases htt
      · exact typeBind_keys htt

theorem qOK_default : qOK { name := [], tt := none, bind := none } = true := by decide

theorem qOK_mk (name t : Str) (bind : Option Binds.BindDict) (hb : keysNoBr (bind.getD []) = true) :
    qOK { name := name, tt := Binds.typeBind t, bind := bind } = true :=
  qOK_of _ (fun _ h => typeBind_keys h) hb

theorem qOK_helperOf (k : RowK) (r : Cells) : qOK (helperOf k r).2 = true := by
  unfold helperOf
  split
  · exact qOK_mk _ _ _ (by simp only [Option.getD_some, keysNoBr, List.all_cons, List.all_nil]; decide)
  · exact qOK_mk _ _ _ (by simp only [Option.getD_some, keysNoBr, List.all_cons, List.all_nil]; decide)
  · exact qOK_default

theorem qOK_metaBq (root : Str) (d : QData) : qOK (metaBq root d) = true := by
  unfold metaBq
  split
  · unfold Binds.instanceID
    exact qOK_mk _ _ _ (by simp only [Option.getD_some, keysNoBr, List.all_cons, List.all_nil]; decide)
  · exact qOK_mk _ _ _ rfl

/-- own and helper bind source of a row's decoration -/
def payOK (p : Pay) : Bool := qOK p.bq && qOK p.hbq

theorem payOK_decorate (lists : List Str) (n : Nat) (r : Cells) (k : RowK) (p : Pay)
    (hr : bindHeadersNoBr r = true) (h : decorate lists n r = .ok (k, p)) : payOK p = true := by
  unfold decorate at h
  split at h
  · cases h
  · split at h
    · cases h
    · split at h
      · cases h
      · split at h
        · cases h
        · split at h
          · cases h; decide
          · cases h
        · cases h
          simp only [payOK, Bool.and_eq_true]
          exact ⟨qOK_rowQ _ r hr, qOK_helperOf _ r⟩

theorem payOK_decorateAll (lists : List Str) : ∀ (n : Nat) (rows : List Cells) (ds : List ((Nat × RowK) × Pay)),
    (∀ r ∈ rows, bindHeadersNoBr r = true) → decorateAll lists n rows = .ok ds → ∀ d ∈ ds, payOK d.2 = true
  | _, [], ds, _, h => by
    simp only [decorateAll] at h; cases h
    intro d hd; cases hd
  | n, r :: rs, ds, hr, h => by
    simp only [decorateAll] at h
    cases hd : decorate lists n r with
    | error e => rw [hd] at h; cases h
    | ok kp =>
      obtain ⟨k, p⟩ := kp
      rw [hd] at h
      simp only [] at h
      cases hds : decorateAll lists (n + 1) rs with
      | error e => rw [hds] at h; cases h
      | ok ds' =>
        rw [hds] at h
        cases h
        intro d hdm
        rcases List.mem_cons.mp hdm with rfl | hdm
        · exact payOK_decorate lists n r k p (hr r (List.mem_cons_self ..)) hd
        · exact payOK_decorateAll lists (n + 1) rs ds' (fun r' hr' => hr r' (List.mem_cons_of_mem _ hr')) hds d hdm

/-! ## 4. the begin/end stack keeps the decorations -/

def dfrAll (fs : List DFrame) : Bool := fs.all fun f => bqOK f.p && diAllL bqOK f.kids
def dstAll (st : DSt) : Bool := diAllL bqOK st.1 && dfrAll st.2

theorem dstAll_push (t : DItem) (st : DSt) (ht : diAll bqOK t = true) (h : dstAll st = true) :
    dstAll (dpush t st) = true := by
  obtain ⟨root, fs⟩ := st
  cases fs with
  | nil =>
    simp only [dstAll, dfrAll, List.all_nil, Bool.and_true] at h
    simp [dpush, dstAll, dfrAll, diAllL_append, diAllL, h, ht]
  | cons f fs =>
    simp only [dstAll, dfrAll, List.all_cons, Bool.and_eq_true] at h
    simp [dpush, dstAll, dfrAll, diAllL_append, diAllL, h.1, h.2.1.1, h.2.1.2, h.2.2, ht]

theorem dstAll_pushOpt (o : Option QData) (hp : Pay) (st : DSt) (hhp : bqOK hp = true) (h : dstAll st = true) :
    dstAll (dpushOpt o hp st) = true := by
  cases o with
  | none => exact h
  | some d => exact dstAll_push (.q d hp) st (by simpa [diAll] using hhp) h

theorem dstAll_step (st st' : DSt) (n : Nat) (p : Pay) (k : RowK) (hp : payOK p = true)
    (h : dstAll st = true) (hs : dstep st n p k = .ok st') : dstAll st' = true := by
  have hp' : bqOK p = true ∧ bqOK (helperPay p) = true := by
    simpa [payOK, bqOK, helperPay, Bool.and_eq_true] using hp
  cases k with
  | skip => simp only [dstep] at hs; cases hs; exact h
  | bad e => simp [dstep] at hs
  | q d o =>
    simp only [dstep] at hs; cases hs
    exact dstAll_pushOpt o _ _ hp'.2 (dstAll_push (.q d p) st (by simpa [diAll] using hp'.1) h)
  | begin_ ct name b helper =>
    have h1 := dstAll_pushOpt helper (helperPay p) st hp'.2 h
    simp only [dstep] at hs
    generalize dpushOpt helper (helperPay p) st = st1 at h1 hs
    obtain ⟨root, fs⟩ := st1
    simp only [] at hs; cases hs
    simp only [dstAll, dfrAll, List.all_cons, Bool.and_eq_true] at h1 ⊢
    exact ⟨h1.1, ⟨hp'.1, by simp [diAllL]⟩, h1.2⟩
  | end_ ct =>
    obtain ⟨root, fs⟩ := st
    cases fs with
    | nil => simp [dstep] at hs
    | cons f fs =>
      simp only [dstep] at hs
      split at hs
      · cases hs
        simp only [dstAll, dfrAll, List.all_cons, Bool.and_eq_true] at h
        refine dstAll_push _ (root, fs) ?_ ?_
        · simp [diAll, h.2.1.1, h.2.1.2]
        · simp [dstAll, dfrAll, h.1, h.2.2]
      · cases hs

theorem dstAll_run : ∀ (ks : List ((Nat × RowK) × Pay)) (st st' : DSt),
    (∀ k ∈ ks, payOK k.2 = true) → dstAll st = true → drun st ks = .ok st' → dstAll st' = true
  | [], st, st', _, h, hr => by simp only [drun] at hr; cases hr; exact h
  | ((n, r), p) :: rs, st, st', hk, h, hr => by
    simp only [drun] at hr
    cases hs : dstep st n p r with
    | error e => rw [hs] at hr; cases hr
    | ok st1 =>
      rw [hs] at hr
      exact dstAll_run rs st1 st' (fun k hk' => hk k (List.mem_cons_of_mem _ hk'))
        (dstAll_step st st1 n p r (hk ((n, r), p) (List.mem_cons_self ..)) h hs) hr

theorem diAllL_dparse (ks : List ((Nat × RowK) × Pay)) (items : List DItem)
    (hk : ∀ k ∈ ks, payOK k.2 = true) (h : dparse ks = .ok items) : diAllL bqOK items = true := by
  unfold dparse at h
  cases hr : drun ([], []) ks with
  | error e => rw [hr] at h; cases h
  | ok st =>
    rw [hr] at h
    have := dstAll_run ks ([], []) st hk (by simp [dstAll, dfrAll, diAllL]) hr
    obtain ⟨root, fs⟩ := st
    cases fs with
    | nil => simp only [] at h; cases h; simpa [dstAll, dfrAll] using this
    | cons f fs => simp at h

theorem diAllL_metaKids (root : Str) : ∀ (mk : List QData),
    diAllL bqOK (mk.map fun d => DItem.q d { bq := metaBq root d }) = true
  | [] => by simp [diAllL]
  | d :: ds => by
    simp only [List.map_cons, diAllL, diAll, bqOK, Bool.and_eq_true]
    exact ⟨qOK_metaBq root d, diAllL_metaKids root ds⟩

theorem diAllL_dWithMeta (root : Str) (rows : List Cells) (items : List DItem) (h : diAllL bqOK items = true) :
    diAllL bqOK (dWithMeta root rows items) = true := by
  unfold dWithMeta
  simp only []
  split
  · exact h
  · rw [diAllL_append, h]
    simp only [diAllL, diAll, Bool.and_true, Bool.true_and, Bool.and_eq_true]
    exact ⟨qOK_default, diAllL_metaKids root _⟩

/-! ## 5. down to the cells -/

/-- **every `<bind>` / `<setvalue>` node of the model is `]`-free when no `bind::X` header of a row has `]` in `X`** -/
theorem bind_nodes_noBr_of_cells (lists : List Str) (root : Str) (rows : List Cells)
    (drows : List ((Nat × RowK) × Pay)) (ditems : List DItem) (els : List Refs.Chain) (pc : Refs.Chain)
    (hc : ∀ r ∈ rows, bindHeadersNoBr r = true) (hdec : decorateAll lists 2 rows = .ok drows)
    (hpar : dparse drows = .ok ditems) : noBrKids (bindNodesL els pc (dWithMeta root rows ditems)) = true :=
  noBrKids_bindNodesL els pc _
    (diAllL_dWithMeta root rows ditems (diAllL_dparse drows ditems (payOK_decorateAll lists 2 rows drows hc hdec) hpar))

/-- **C01 for the whole conversion; element tree and bind nodes stated on cells.**  As `convert_c01_cells`, with the
    bind part of the model-children hypothesis replaced by "no `bind::X` header has `]` in `X`"; what remains at node
    level: header names, the secondary (choice) instances, the body. -/
theorem convert_c01_bind_cells (wb : Workbook) (p : Bool) (text : Str) (h : convert wb p = .ok text)
    (hs : ∀ doc f lists rows drows o ditems, Trace wb doc f lists rows drows o ditems →
      HeaderNoBr f ∧ (∀ r ∈ rows, ∀ x, Rows.get r "name" = some x → TypoFree x) ∧
      (∀ r ∈ rows, bindHeadersNoBr r = true) ∧
      noBrKids ((Choices.staticInsts [] (othersApplied (activeRows rows) lists)).map Choices.instNode) = true ∧
      noBrKids (bodyNodesL (elsOf f.name (dWithMeta f.name rows ditems)) [f.name] ditems) = true) :
    holds text (normAttrVal (formId wb)) = true := by
  refine convert_c01_cells wb p text h ?_
  intro doc f lists rows drows o ditems T
  obtain ⟨h1, h2, h3, h4, h5⟩ := hs doc f lists rows drows o ditems T
  refine ⟨h1, h2, ?_, h5⟩
  rw [noBrKids_append, h4, Bool.true_and]
  exact bind_nodes_noBr_of_cells _ f.name rows drows ditems _ _ h3 T.hdec T.hpar

/-! ## 6. inside the end-to-end fragment the condition holds by construction

`Convert.rowOutside` admits only the columns of `fragmentKeys` (seven `bind::` columns, all literal); every other
`bind::X` header makes `convert` answer `unsupported`.  So for a conversion the model answers, the bind part of the
hypothesis disappears. -/

theorem fragmentKeys_bind_noBr :
    fragmentKeys.all (fun k => !startsWith k (l!"bind::") || noBr (k.drop 6)) = true := by decide +kernel

theorem bindHeadersNoBr_of_inside (r : Cells) (h : rowOutside r = none) : bindHeadersNoBr r = true := by
  cases hc : r.all (fun kv => fragmentKeys.contains kv.1) with
  | false => unfold rowOutside at h; rw [hc] at h; simp at h
  | true =>
    unfold bindHeadersNoBr
    rw [List.all_eq_true] at hc ⊢
    intro kv hkv
    have hm : kv.1 ∈ fragmentKeys := by simpa using hc kv hkv
    exact (List.all_eq_true.mp fragmentKeys_bind_noBr) kv.1 hm

theorem inside_of_decorate (lists : List Str) (n : Nat) (r : Cells) (kp : RowK × Pay)
    (h : decorate lists n r = .ok kp) : rowOutside r = none := by
  unfold decorate at h
  split at h
  · cases h
  · assumption

theorem inside_of_decorateAll (lists : List Str) : ∀ (n : Nat) (rows : List Cells) (ds : List ((Nat × RowK) × Pay)),
    decorateAll lists n rows = .ok ds → ∀ r ∈ rows, bindHeadersNoBr r = true
  | _, [], _, _ => by intro r hr; cases hr
  | n, r :: rs, ds, h => by
    simp only [decorateAll] at h
    cases hd : decorate lists n r with
    | error e => rw [hd] at h; cases h
    | ok kp =>
      rw [hd] at h
      simp only [] at h
      cases hds : decorateAll lists (n + 1) rs with
      | error e => rw [hds] at h; cases h
      | ok ds' =>
        intro r' hr'
        rcases List.mem_cons.mp hr' with rfl | hr'
        · exact bindHeadersNoBr_of_inside _ (inside_of_decorate lists n _ kp hd)
        · exact inside_of_decorateAll lists (n + 1) rs ds' hds r' hr'

/-- the `<bind>` / `<setvalue>` nodes of every conversion the model answers contain no `]` — no hypothesis -/
theorem convert_bind_nodes_noBr {wb : Workbook} {doc : Node} {f : Fields} {lists rows drows o ditems}
    (T : Trace wb doc f lists rows drows o ditems) :
    noBrKids (bindNodesL (elsOf f.name (dWithMeta f.name rows ditems)) [(f.name, .group)]
      (dWithMeta f.name rows ditems)) = true :=
  bind_nodes_noBr_of_cells _ f.name rows drows ditems _ _ (inside_of_decorateAll _ 2 rows drows T.hdec) T.hdec T.hpar

/-- **C01 for the whole conversion, bind hypothesis discharged.**  As `convert_c01_cells` without any hypothesis on the
    `<bind>` / `<setvalue>` nodes; what remains at node level: header names, the secondary (choice) instances, the body. -/
theorem convert_c01_binds (wb : Workbook) (p : Bool) (text : Str) (h : convert wb p = .ok text)
    (hs : ∀ doc f lists rows drows o ditems, Trace wb doc f lists rows drows o ditems →
      HeaderNoBr f ∧ (∀ r ∈ rows, ∀ x, Rows.get r "name" = some x → TypoFree x) ∧
      noBrKids ((Choices.staticInsts [] (othersApplied (activeRows rows) lists)).map Choices.instNode) = true ∧
      noBrKids (bodyNodesL (elsOf f.name (dWithMeta f.name rows ditems)) [f.name] ditems) = true) :
    holds text (normAttrVal (formId wb)) = true := by
  refine convert_c01_bind_cells wb p text h ?_
  intro doc f lists rows drows o ditems T
  obtain ⟨h1, h2, h4, h5⟩ := hs doc f lists rows drows o ditems T
  exact ⟨h1, h2, inside_of_decorateAll _ 2 rows drows T.hdec, h4, h5⟩

#print axioms fragmentKeys_bind_noBr
#print axioms convert_bind_nodes_noBr
#print axioms convert_c01_binds
#print axioms type_table_keys_noBr
#print axioms bind_nodes_noBr_of_cells
#print axioms convert_c01_bind_cells

end Pyxv.ConvertP

/-! ## non-vacuity -/
namespace Pyxv.ConvertP
open Pyxv Pyxv.Form Pyxv.Rows Pyxv.Xml Pyxv.Asm Pyxv.Convert Pyxv.C01

/-- a repeat with a `_count` helper, a question with two `bind::` columns (one prefixed), the meta block -/
def exBindRows : List Cells :=
  [ [("type".toList, "begin repeat".toList), ("name".toList, "kids".toList), ("control::jr:count".toList, "3".toList)],
    [("type".toList, "integer".toList), ("name".toList, "age".toList), ("label".toList, "Age".toList),
     ("bind::required".toList, "yes".toList), ("bind::jr:requiredMsg".toList, "needed".toList)],
    [("type".toList, "end repeat".toList)] ]

/-- the same sheet with a `]` in a `bind::` header token -/
def exBadRows : List Cells :=
  [ [("type".toList, "integer".toList), ("name".toList, "age".toList), ("label".toList, "Age".toList),
     ("bind::a]b".toList, "1".toList)] ]

def bindsOf (rows : List Cells) : List Node :=
  match decorateAll [] 2 rows with
  | .ok drows =>
    (match dparse drows with
     | .ok ditems =>
       bindNodesL (elsOf "data".toList (dWithMeta "data".toList rows ditems)) [("data".toList, .group)]
         (dWithMeta "data".toList rows ditems)
     | .error _ => [])
  | .error _ => []

def attrNames : Node → List Str
  | .elem _ a _ => a.map (·.1)
  | _ => []

set_option maxRecDepth 100000 in
theorem ex_bind_names : (bindsOf exBindRows).map attrNames =
    [["nodeset", "type", "readonly", "calculate"], ["nodeset", "type", "required", "jr:requiredMsg"],
     ["nodeset", "type", "readonly", "jr:preload"]].map (·.map String.toList) := by
  decide +kernel

example : (∀ r ∈ exBindRows, bindHeadersNoBr r = true) ∧ (bindsOf exBindRows).length = 3 ∧
    noBrKids (bindsOf exBindRows) = true := by
  refine ⟨by decide +kernel, by have := congrArg List.length ex_bind_names; simpa using this, ?_⟩
  unfold bindsOf
  cases hd : decorateAll [] 2 exBindRows with
  | error e => exact noBrKids_nil
  | ok drows =>
    simp only []
    cases hp : dparse drows with
    | error e => exact noBrKids_nil
    | ok ditems => exact bind_nodes_noBr_of_cells [] _ _ drows ditems _ _ (by decide +kernel) hd hp

/-- the hypothesis of the general lemma is needed: a `bind::a]b` header reaches the `<bind>` node as attribute name
    `a]b` (such a column is outside `Convert`'s fragment, so this is shown on `bindNode` itself) -/
example : bindHeadersNoBr (exBadRows.headD []) = false ∧ qOK (rowQ "age".toList (exBadRows.headD [])) = false ∧
    attrNames (bindNode [] [("data".toList, .group), ("age".toList, .q)] (rowQ "age".toList (exBadRows.headD []))) =
      ["nodeset", "type", "a]b"].map String.toList ∧
    noBrTree (bindNode [] [("data".toList, .group), ("age".toList, .q)] (rowQ "age".toList (exBadRows.headD []))) = false := by
  decide +kernel

example : qOK (rowQ "age".toList (exBindRows.getD 1 [])) = true := qOK_rowQ _ _ (by decide +kernel)

/-- `convert_bind_nodes_noBr` / `convert_c01_binds` on the worked example of `Proofs/Convert` (five binds, one with a
    `bind::relevant` column) -/
example : ∃ doc f lists rows drows o ditems, Trace exWb doc f lists rows drows o ditems ∧
    noBrKids (bindNodesL (elsOf f.name (dWithMeta f.name rows ditems)) [(f.name, .group)]
      (dWithMeta f.name rows ditems)) = true := by
  obtain ⟨doc, hd, -⟩ := convert_ok exWb false exText ex_convert
  obtain ⟨f, lists, rows, drows, o, ditems, T⟩ := convertDoc_trace exWb doc hd
  exact ⟨doc, f, lists, rows, drows, o, ditems, T, convert_bind_nodes_noBr T⟩

end Pyxv.ConvertP
