import Pyxv.Model.JVal
/-!
# JSON text round trip: helper lemmas (`json.loads ∘ json.dumps = id` on the model)
-/
namespace Pyxv.JV

/-! ## hex digits and `\uXXXX` -/

theorem hexVal_hexDigit (d : Nat) (h : d < 16) : hexVal (hexDigit d) = some d := by
  have : d = 0 ∨ d = 1 ∨ d = 2 ∨ d = 3 ∨ d = 4 ∨ d = 5 ∨ d = 6 ∨ d = 7 ∨ d = 8 ∨ d = 9 ∨ d = 10 ∨
      d = 11 ∨ d = 12 ∨ d = 13 ∨ d = 14 ∨ d = 15 := by omega
  rcases this with h | h | h | h | h | h | h | h | h | h | h | h | h | h | h | h <;> subst h <;> decide

theorem readU4_hex (n : Nat) (h : n < 65536) (rest : Str) :
    readU4 (hexDigit (n / 4096 % 16) :: hexDigit (n / 256 % 16) :: hexDigit (n / 16 % 16) ::
      hexDigit (n % 16) :: rest) = some (n, rest) := by
  simp only [readU4, hexVal_hexDigit _ (Nat.mod_lt _ (by decide : 16 > 0))]
  congr 2
  omega

theorem charOfNat?_toNat (c : Char) : charOfNat? c.toNat = some c := by
  have hv : c.toNat < 0xD800 ∨ (0xDFFF < c.toNat ∧ c.toNat < 0x110000) := c.valid
  simp only [charOfNat?, hv, if_true, Char.ofNat_toNat]

theorem char_not_surrogate (c : Char) : ¬ (0xD800 ≤ c.toNat ∧ c.toNat ≤ 0xDFFF) := by
  have hv : c.toNat < 0xD800 ∨ (0xDFFF < c.toNat ∧ c.toNat < 0x110000) := c.valid
  omega

theorem char_lt (c : Char) : c.toNat < 0x110000 := by
  have hv : c.toNat < 0xD800 ∨ (0xDFFF < c.toNat ∧ c.toNat < 0x110000) := c.valid
  omega



/-! ## strings -/

theorem uStep_bmp (c : Char) (hlt : c.toNat < 0x10000) (tail : Str) :
    uStep (hexDigit (c.toNat / 4096 % 16) :: hexDigit (c.toNat / 256 % 16) ::
      hexDigit (c.toNat / 16 % 16) :: hexDigit (c.toNat % 16) :: tail) = .char c tail := by
  have hns := char_not_surrogate c
  have h1 : ¬ (0xD800 ≤ c.toNat ∧ c.toNat ≤ 0xDBFF) := by omega
  simp only [uStep, readU4_hex c.toNat hlt, h1, charOfNat?_toNat, if_false]

theorem strStep_u4_bmp (c : Char) (hlt : c.toNat < 0x10000) (tail : Str) :
    strStep (u4 c.toNat ++ tail) = .char c tail := by
  have hq : ¬ ('\\' : Char) = '"' := by decide
  simp only [u4, List.cons_append, List.nil_append, strStep, hq, if_false, if_true, uStep_bmp c hlt tail]

theorem uStep_pair (hi lo : Nat) (hhi : 0xD800 ≤ hi ∧ hi ≤ 0xDBFF) (hlo : 0xDC00 ≤ lo ∧ lo ≤ 0xDFFF)
    (c : Char) (hc : 0x10000 + (hi - 0xD800) * 1024 + (lo - 0xDC00) = c.toNat) (tail : Str) :
    uStep (hexDigit (hi / 4096 % 16) :: hexDigit (hi / 256 % 16) :: hexDigit (hi / 16 % 16) ::
      hexDigit (hi % 16) :: '\\' :: 'u' :: hexDigit (lo / 4096 % 16) :: hexDigit (lo / 256 % 16) ::
      hexDigit (lo / 16 % 16) :: hexDigit (lo % 16) :: tail) = .char c tail := by
  have e1 : hi < 65536 := by omega
  have e2 : lo < 65536 := by omega
  simp only [uStep, readU4_hex _ e1, readU4_hex _ e2, hhi, hlo, hc, charOfNat?_toNat, if_true, and_self]

theorem strStep_u4_pair (hi lo : Nat) (hhi : 0xD800 ≤ hi ∧ hi ≤ 0xDBFF) (hlo : 0xDC00 ≤ lo ∧ lo ≤ 0xDFFF)
    (c : Char) (hc : 0x10000 + (hi - 0xD800) * 1024 + (lo - 0xDC00) = c.toNat) (tail : Str) :
    strStep (u4 hi ++ u4 lo ++ tail) = .char c tail := by
  have hq : ¬ ('\\' : Char) = '"' := by decide
  simp only [u4, List.cons_append, List.nil_append, strStep, hq, if_false, if_true,
    uStep_pair hi lo hhi hlo c hc tail]

theorem strStep_u4_astral (c : Char) (hge : ¬ c.toNat < 0x10000) (tail : Str) :
    strStep (u4 (0xD800 + (c.toNat - 0x10000) / 1024 % 1024) ++ u4 (0xDC00 + (c.toNat - 0x10000) % 1024) ++ tail)
      = .char c tail := by
  have hlt := char_lt c
  exact strStep_u4_pair _ _ (by omega) (by omega) c (by omega) tail

/-- every character's escape is read back as that character (all Unicode scalar values). -/
theorem strStep_escChar (c : Char) (tail : Str) : strStep (escChar c ++ tail) = .char c tail := by
  unfold escChar
  split
  · next h => subst h; simp (config := { decide := true }) [strStep, simpleEsc]
  split
  · next h => subst h; simp (config := { decide := true }) [strStep, simpleEsc]
  split
  · next h => subst h; simp (config := { decide := true }) [strStep, simpleEsc]
  split
  · next h => subst h; simp (config := { decide := true }) [strStep, simpleEsc]
  split
  · next h => subst h; simp (config := { decide := true }) [strStep, simpleEsc]
  split
  · next h => subst h; simp (config := { decide := true }) [strStep, simpleEsc]
  split
  · next h => subst h; simp (config := { decide := true }) [strStep, simpleEsc]
  split
  · next h1 h2 _ _ _ _ _ hp =>
    have h32 : ¬ c.toNat < 32 := by omega
    simp [strStep, h1, h2, h32]
  split
  · next hlt => exact strStep_u4_bmp c hlt tail
  · next hge => exact strStep_u4_astral c hge tail

/-- string literal round trip: any string, any continuation. -/
theorem readStrBody_escStr (s rest : Str) (fuel : Nat) (h : s.length < fuel) :
    readStrBody fuel (escStr s ++ '"' :: rest) = some (s, rest) := by
  induction s generalizing fuel with
  | nil =>
    cases fuel with
    | zero => simp at h
    | succ f => simp [escStr, readStrBody, strStep]
  | cons c cs ih =>
    cases fuel with
    | zero => simp at h
    | succ f =>
      have hf : cs.length < f := by simp at h; omega
      simp only [escStr, List.append_assoc, readStrBody, strStep_escChar, ih f hf]

theorem escChar_length_pos (c : Char) : 0 < (escChar c).length := by
  unfold escChar
  repeat' split
  all_goals simp [u4]

theorem escStr_length_ge (s : Str) : s.length ≤ (escStr s).length := by
  induction s with
  | nil => simp [escStr]
  | cons c cs ih => have := escChar_length_pos c; simp [escStr]; omega

theorem readStr_printStr (s rest : Str) : readStr (printStr s ++ rest) = some (s, rest) := by
  have := escStr_length_ge s
  simp only [printStr, List.cons_append, List.append_assoc, List.nil_append, readStr, if_true]
  apply readStrBody_escStr
  simp; omega


/-! ## integers -/

theorem digitChar_isDigit (d : Nat) (h : d < 10) : isDigit (digitChar d) = true := by
  have : d = 0 ∨ d = 1 ∨ d = 2 ∨ d = 3 ∨ d = 4 ∨ d = 5 ∨ d = 6 ∨ d = 7 ∨ d = 8 ∨ d = 9 := by omega
  rcases this with h | h | h | h | h | h | h | h | h | h <;> subst h <;> decide

theorem digitChar_val (d : Nat) (h : d < 10) : (digitChar d).toNat - 48 = d := by
  have : d = 0 ∨ d = 1 ∨ d = 2 ∨ d = 3 ∨ d = 4 ∨ d = 5 ∨ d = 6 ∨ d = 7 ∨ d = 8 ∨ d = 9 := by omega
  rcases this with h | h | h | h | h | h | h | h | h | h <;> subst h <;> decide

theorem digitChar_ne_zero (d : Nat) (h : d < 10) (h0 : 0 < d) : digitChar d ≠ '0' := by
  have : d = 1 ∨ d = 2 ∨ d = 3 ∨ d = 4 ∨ d = 5 ∨ d = 6 ∨ d = 7 ∨ d = 8 ∨ d = 9 := by omega
  rcases this with h | h | h | h | h | h | h | h | h <;> subst h <;> decide

theorem natDigitsF_all (f n : Nat) : ∀ c ∈ natDigitsF f n, isDigit c = true := by
  induction f generalizing n with
  | zero => simp [natDigitsF]
  | succ f ih =>
    unfold natDigitsF
    split
    · next h => intro c hc; simp at hc; subst hc; exact digitChar_isDigit n h
    · intro c hc
      simp only [List.mem_append, List.mem_singleton] at hc
      rcases hc with hc | hc
      · exact ih _ c hc
      · subst hc; exact digitChar_isDigit _ (Nat.mod_lt _ (by decide))

theorem ofDigits_snoc (a : Str) (c : Char) : ofDigits (a ++ [c]) = ofDigits a * 10 + (c.toNat - 48) := by
  simp [ofDigits, List.foldl_append]

theorem ofDigits_natDigitsF (f n : Nat) (h : n < f) : ofDigits (natDigitsF f n) = n := by
  induction f generalizing n with
  | zero => omega
  | succ f ih =>
    unfold natDigitsF
    split
    · next h10 => simp [ofDigits, digitChar_val n h10]
    · next h10 =>
      rw [ofDigits_snoc, ih (n / 10) (by omega), digitChar_val _ (Nat.mod_lt _ (by decide))]
      omega

/-- no leading zero on a positive number -/
theorem natDigitsF_head (f n : Nat) (h : n < f) (h0 : 0 < n) :
    ∃ d ds, natDigitsF f n = d :: ds ∧ d ≠ '0' := by
  induction f generalizing n with
  | zero => omega
  | succ f ih =>
    unfold natDigitsF
    split
    · next h10 => exact ⟨_, [], rfl, digitChar_ne_zero n h10 h0⟩
    · next h10 =>
      obtain ⟨d, ds, e, hd⟩ := ih (n / 10) (by omega) (by omega)
      exact ⟨d, ds ++ [digitChar (n % 10)], by simp [e], hd⟩

theorem natDigitsF_zero (f : Nat) : natDigitsF (f + 1) 0 = ['0'] := by
  simp [natDigitsF]; rfl

/-- the continuation after a number: not a digit, and not the start of a fraction or exponent -/
def NumEnd (rest : Str) : Prop :=
  ∀ c r, rest = c :: r → isDigit c = false ∧ c ≠ '.' ∧ c ≠ 'e' ∧ c ≠ 'E'

theorem takeDigits_append (ds rest : Str) (hd : ∀ c ∈ ds, isDigit c = true) (hr : NumEnd rest) :
    takeDigits (ds ++ rest) = (ds, rest) := by
  induction ds with
  | nil =>
    cases rest with
    | nil => simp [takeDigits]
    | cons c r => simp [takeDigits, (hr c r rfl).1]
  | cons d ds ih =>
    have h1 := hd d (by simp)
    have h2 := ih (fun c hc => hd c (by simp [hc]))
    simp [takeDigits, h1, h2]

theorem headIs_numEnd (rest : Str) (hr : NumEnd rest) :
    ¬ (headIs '.' rest = true ∨ headIs 'e' rest = true ∨ headIs 'E' rest = true) := by
  cases rest with
  | nil => simp [headIs]
  | cons c r =>
    have := hr c r rfl
    simp only [headIs, decide_eq_true_eq]
    intro h
    rcases h with h | h | h
    · exact this.2.1 h
    · exact this.2.2.1 h
    · exact this.2.2.2 h

theorem readNat_natDigits (n : Nat) (rest : Str) (hr : NumEnd rest) :
    readNat (natDigits n ++ rest) = some (n, rest) := by
  unfold readNat
  rw [takeDigits_append (natDigits n) rest (natDigitsF_all _ _) hr]
  by_cases h0 : n = 0
  · subst h0
    simp only [natDigits, natDigitsF_zero]
    simp [headIs_numEnd rest hr, ofDigits]
  · obtain ⟨d, ds, e, hd⟩ := natDigitsF_head (n + 1) n (by omega) (by omega)
    have hv := ofDigits_natDigitsF (n + 1) n (by omega)
    simp only [natDigits] at *
    rw [e] at hv ⊢
    simp [hd, headIs_numEnd rest hr, hv]


/-! ## values -/

/-- the first character of a printed value -/
def ValHead (c : Char) : Prop :=
  c = '"' ∨ c = '[' ∨ c = '{' ∨ c = 'n' ∨ c = 't' ∨ c = 'f' ∨ c = '-' ∨ isDigit c = true

theorem isDigit_facts (d : Char) (h : isDigit d = true) :
    d ≠ '"' ∧ d ≠ '[' ∧ d ≠ '{' ∧ d ≠ 'n' ∧ d ≠ 't' ∧ d ≠ 'f' ∧ d ≠ '-' ∧ d ≠ ']' ∧ d ≠ '}' ∧ isWs d = false := by
  refine ⟨?_, ?_, ?_, ?_, ?_, ?_, ?_, ?_, ?_, ?_⟩
  iterate 9 (intro e; subst e; exact absurd h (by decide))
  simp only [isDigit, decide_eq_true_eq] at h
  simp only [isWs, decide_eq_false_iff_not]
  intro e
  rcases e with e | e | e | e <;> subst e <;> exact absurd h (by decide)

theorem ValHead.facts {c : Char} (h : ValHead c) : isWs c = false ∧ c ≠ ']' ∧ c ≠ '}' := by
  rcases h with h | h | h | h | h | h | h | h
  iterate 7 (subst h; decide)
  have := isDigit_facts c h
  exact ⟨this.2.2.2.2.2.2.2.2.2, this.2.2.2.2.2.2.2.1, this.2.2.2.2.2.2.2.2.1⟩

theorem natDigits_head (n : Nat) : ∃ d ds, natDigits n = d :: ds ∧ isDigit d = true := by
  by_cases h0 : n = 0
  · subst h0; exact ⟨'0', [], natDigitsF_zero 0, by decide⟩
  · obtain ⟨d, ds, e, _⟩ := natDigitsF_head (n + 1) n (by omega) (by omega)
    refine ⟨d, ds, e, ?_⟩
    have := natDigitsF_all (n + 1) n d
    rw [e] at this
    exact this (by simp)

theorem print_head (j : J) : ∃ c t, print j = c :: t ∧ ValHead c := by
  cases j with
  | null => exact ⟨'n', ['u', 'l', 'l'], by simp [print], by simp [ValHead]⟩
  | bool b => cases b
              · exact ⟨'f', ['a', 'l', 's', 'e'], by simp [print], by simp [ValHead]⟩
              · exact ⟨'t', ['r', 'u', 'e'], by simp [print], by simp [ValHead]⟩
  | num n =>
    simp only [print, printInt]
    split
    · exact ⟨'-', _, rfl, by simp [ValHead]⟩
    · obtain ⟨d, ds, e, hd⟩ := natDigits_head n.toNat
      exact ⟨d, ds, e, by simp [ValHead, hd]⟩
  | str s => exact ⟨'"', escStr s ++ ['"'], by simp [print, printStr], by simp [ValHead]⟩
  | arr xs =>
    cases xs with
    | nil => exact ⟨'[', [']'], by simp [print], by simp [ValHead]⟩
    | cons x xs => exact ⟨'[', print x ++ printElems xs, by simp [print], by simp [ValHead]⟩
  | obj kvs =>
    cases kvs with
    | nil => exact ⟨'{', ['}'], by simp [print], by simp [ValHead]⟩
    | cons kv rest =>
      cases kv with
      | mk k v => exact ⟨'{', printStr k ++ [':', ' '] ++ print v ++ printMembers rest, by simp [print], by simp [ValHead]⟩

theorem skipWs_print (j : J) (t : Str) : skipWs (print j ++ t) = print j ++ t := by
  obtain ⟨c, u, e, hc⟩ := print_head j
  rw [e]; simp [skipWs, hc.facts.1]

/-- the continuation after a value inside a document: end of input or a delimiter -/
def Delim (rest : Str) : Prop :=
  rest = [] ∨ ∃ c r, rest = c :: r ∧ (c = ',' ∨ c = ']' ∨ c = '}')

theorem Delim.numEnd {rest : Str} (h : Delim rest) : NumEnd rest := by
  intro c r e
  rcases h with h | ⟨c', r', e', hc⟩
  · simp [h] at e
  · rw [e'] at e; cases e
    rcases hc with hc | hc | hc <;> subst hc <;> decide

theorem printElems_delim (xs : List J) (rest : Str) : Delim (printElems xs ++ rest) := by
  cases xs with
  | nil => exact Or.inr ⟨']', rest, by simp [printElems], by simp⟩
  | cons x xs => exact Or.inr ⟨',', ' ' :: (print x ++ printElems xs ++ rest), by simp [printElems], by simp⟩

theorem printMembers_delim (kvs : List (Str × J)) (rest : Str) : Delim (printMembers kvs ++ rest) := by
  cases kvs with
  | nil => exact Or.inr ⟨'}', rest, by simp [printMembers], by simp⟩
  | cons kv kvs =>
    cases kv with
    | mk k v => exact Or.inr ⟨',', ' ' :: (printStr k ++ [':', ' '] ++ print v ++ printMembers kvs ++ rest), by simp [printMembers], by simp⟩

theorem stripPrefix_ne (p c : Char) (ps cs : Str) (h : p ≠ c) : stripPrefix (p :: ps) (c :: cs) = none := by
  simp [stripPrefix, h]

theorem readAtom_printInt (n : Int) (rest : Str) (hr : NumEnd rest) :
    readAtom (printInt n ++ rest) = some (.num n, rest) := by
  unfold printInt
  split
  · next hneg =>
    have e : (-(n.natAbs : Int)) = n := by omega
    simp (config := { decide := true }) [readAtom, stripPrefix, readNat_natDigits _ _ hr, e]
  · next hpos =>
    obtain ⟨d, ds, e, hd⟩ := natDigits_head n.toNat
    have hf := isDigit_facts d hd
    have e2 : ((n.toNat : Nat) : Int) = n := by omega
    have hrd := readNat_natDigits n.toNat rest hr
    rw [e] at hrd ⊢
    simp only [List.cons_append] at hrd ⊢
    simp [readAtom, stripPrefix, Ne.symm hf.2.2.2.1, Ne.symm hf.2.2.2.2.1, Ne.symm hf.2.2.2.2.2.1, hf.2.2.2.2.2.2.1, hrd, e2]

mutual
def size : J → Nat
  | .arr xs => sizeL xs + 1
  | .obj kvs => sizeM kvs + 1
  | _ => 0
def sizeL : List J → Nat
  | [] => 0
  | x :: xs => size x + sizeL xs + 1
def sizeM : List (Str × J) → Nat
  | [] => 0
  | (_, v) :: rest => size v + sizeM rest + 1
end

theorem readKey_printStr (k t : Str) (j : J) :
    readKey (printStr k ++ [':', ' '] ++ print j ++ t) = some (k, print j ++ t) := by
  have := readStr_printStr k ([':', ' '] ++ print j ++ t)
  simp only [List.append_assoc, List.cons_append, List.nil_append] at this ⊢
  simp (config := { decide := true }) [readKey, this, skipWs, skipWs_print]


theorem headIs_cons (c d : Char) (t : Str) : headIs c (d :: t) = decide (d = c) := rfl

theorem readValue_atom (f : Nat) (c : Char) (t : Str) (h1 : c ≠ '"') (h2 : c ≠ '[') (h3 : c ≠ '{') :
    readValue (f + 1) (c :: t) = readAtom (c :: t) := by
  simp [readValue, headIs_cons, h1, h2, h3]

mutual
theorem readValue_print : ∀ (j : J) (rest : Str) (fuel : Nat), Delim rest → size j < fuel →
    readValue fuel (print j ++ rest) = some (j, rest)
  | .null, rest, fuel, _, hf => by
    cases fuel with
    | zero => omega
    | succ f =>
      simp only [print, List.cons_append, List.nil_append]
      rw [readValue_atom f _ _ (by decide) (by decide) (by decide)]
      simp [readAtom, stripPrefix]
  | .bool true, rest, fuel, _, hf => by
    cases fuel with
    | zero => omega
    | succ f =>
      simp only [print, List.cons_append, List.nil_append]
      rw [readValue_atom f _ _ (by decide) (by decide) (by decide)]
      simp (config := { decide := true }) [readAtom, stripPrefix]
  | .bool false, rest, fuel, _, hf => by
    cases fuel with
    | zero => omega
    | succ f =>
      simp only [print, List.cons_append, List.nil_append]
      rw [readValue_atom f _ _ (by decide) (by decide) (by decide)]
      simp (config := { decide := true }) [readAtom, stripPrefix]
  | .num n, rest, fuel, hd, hf => by
    cases fuel with
    | zero => omega
    | succ f =>
      obtain ⟨c, t, e, hc⟩ := print_head (.num n)
      have hA := readAtom_printInt n rest hd.numEnd
      simp only [print] at e ⊢
      rw [e] at hA ⊢
      have h1 : c ≠ '"' ∧ c ≠ '[' ∧ c ≠ '{' := by
        have : c = '-' ∨ isDigit c = true := by
          unfold printInt at e
          split at e
          · left; cases e; rfl
          · right
            obtain ⟨d, ds, e', hd'⟩ := natDigits_head n.toNat
            rw [e'] at e; cases e; exact hd'
        rcases this with h | h
        · subst h; decide
        · have := isDigit_facts c h; exact ⟨this.1, this.2.1, this.2.2.1⟩
      simp only [List.cons_append] at hA ⊢
      rw [readValue_atom f _ _ h1.1 h1.2.1 h1.2.2, hA]
  | .str s, rest, fuel, _, hf => by
    cases fuel with
    | zero => omega
    | succ f =>
      have := readStr_printStr s rest
      simp only [print]
      have hh : headIs '"' (printStr s ++ rest) = true := by simp [printStr, headIs_cons]
      simp [readValue, hh, this]
  | .arr [], rest, fuel, _, hf => by
    cases fuel with
    | zero => omega
    | succ f => simp (config := { decide := true }) [print, readValue, headIs_cons, skipWs, isWs]
  | .arr (x :: xs), rest, fuel, _, hf => by
    cases fuel with
    | zero => omega
    | succ f =>
      simp only [size, sizeL] at hf
      have hx := readValue_print x (printElems xs ++ rest) f (printElems_delim xs rest) (by omega)
      have hxs := readElems_print xs rest f (by omega)
      obtain ⟨c, t, e, hc⟩ := print_head x
      have hsk := skipWs_print x (printElems xs ++ rest)
      have hne : headIs ']' (print x ++ (printElems xs ++ rest)) = false := by
        rw [e]; simp [headIs_cons, hc.facts.2.1]
      simp only [print, List.cons_append, List.append_assoc]
      simp (config := { decide := true }) [readValue, headIs_cons, hsk, hne, hx, hxs]
  | .obj [], rest, fuel, _, hf => by
    cases fuel with
    | zero => omega
    | succ f => simp (config := { decide := true }) [print, readValue, headIs_cons, skipWs, isWs]
  | .obj ((k, v) :: kvs), rest, fuel, _, hf => by
    cases fuel with
    | zero => omega
    | succ f =>
      simp only [size, sizeM] at hf
      have hv := readValue_print v (printMembers kvs ++ rest) f (printMembers_delim kvs rest) (by omega)
      have hkvs := readMembers_print kvs rest f (by omega)
      have hk := readKey_printStr k (printMembers kvs ++ rest) v
      have hsk : skipWs (printStr k ++ [':', ' '] ++ print v ++ (printMembers kvs ++ rest)) =
          printStr k ++ [':', ' '] ++ print v ++ (printMembers kvs ++ rest) := by
        simp (config := { decide := true }) [printStr, skipWs, isWs]
      have hne : headIs '}' (printStr k ++ [':', ' '] ++ print v ++ (printMembers kvs ++ rest)) = false := by
        simp (config := { decide := true }) [printStr, headIs_cons]
      simp only [print, List.cons_append, List.append_assoc, List.nil_append] at hk hsk hne ⊢
      simp (config := { decide := true }) [readValue, headIs_cons, hsk, hne, hk, hv, hkvs]
theorem readElems_print : ∀ (xs : List J) (rest : Str) (fuel : Nat), sizeL xs < fuel →
    readElems fuel (printElems xs ++ rest) = some (xs, rest)
  | [], rest, fuel, hf => by
    cases fuel with
    | zero => omega
    | succ f => simp (config := { decide := true }) [printElems, readElems, headIs_cons, skipWs, isWs]
  | x :: xs, rest, fuel, hf => by
    cases fuel with
    | zero => omega
    | succ f =>
      simp only [sizeL] at hf
      have hx := readValue_print x (printElems xs ++ rest) f (printElems_delim xs rest) (by omega)
      have hxs := readElems_print xs rest f (by omega)
      have hsk := skipWs_print x (printElems xs ++ rest)
      simp only [printElems, List.cons_append, List.nil_append, List.append_assoc]
      simp (config := { decide := true }) [readElems, headIs_cons, skipWs, isWs, hsk, hx, hxs]
theorem readMembers_print : ∀ (kvs : List (Str × J)) (rest : Str) (fuel : Nat), sizeM kvs < fuel →
    readMembers fuel (printMembers kvs ++ rest) = some (kvs, rest)
  | [], rest, fuel, hf => by
    cases fuel with
    | zero => omega
    | succ f => simp (config := { decide := true }) [printMembers, readMembers, headIs_cons, skipWs, isWs]
  | (k, v) :: kvs, rest, fuel, hf => by
    cases fuel with
    | zero => omega
    | succ f =>
      simp only [sizeM] at hf
      have hv := readValue_print v (printMembers kvs ++ rest) f (printMembers_delim kvs rest) (by omega)
      have hkvs := readMembers_print kvs rest f (by omega)
      have hk := readKey_printStr k (printMembers kvs ++ rest) v
      have hsk : skipWs (printStr k ++ [':', ' '] ++ print v ++ (printMembers kvs ++ rest)) =
          printStr k ++ [':', ' '] ++ print v ++ (printMembers kvs ++ rest) := by
        simp (config := { decide := true }) [printStr, skipWs, isWs]
      simp only [printMembers, List.cons_append, List.nil_append, List.append_assoc] at hk hsk ⊢
      simp (config := { decide := true }) [readMembers, headIs_cons, skipWs, isWs, hsk, hk, hv, hkvs]
end


/-! ## the fuel `parseRaw` supplies is enough -/

mutual
theorem size_le_print : ∀ j : J, size j ≤ (print j).length
  | .null => by simp [size]
  | .bool _ => by simp [size]
  | .num _ => by simp [size]
  | .str _ => by simp [size]
  | .arr [] => by simp [size, sizeL, print]
  | .arr (x :: xs) => by
    have := size_le_print x
    have := sizeL_le_print xs
    simp only [size, sizeL, print, List.length_cons, List.length_append]; omega
  | .obj [] => by simp [size, sizeM, print]
  | .obj ((k, v) :: kvs) => by
    have := size_le_print v
    have := sizeM_le_print kvs
    simp only [size, sizeM, print, List.length_cons, List.length_append]; omega
theorem sizeL_le_print : ∀ xs : List J, sizeL xs + 1 ≤ (printElems xs).length
  | [] => by simp [sizeL, printElems]
  | x :: xs => by
    have := size_le_print x
    have := sizeL_le_print xs
    simp only [sizeL, printElems, List.length_cons, List.length_append]; omega
theorem sizeM_le_print : ∀ kvs : List (Str × J), sizeM kvs + 1 ≤ (printMembers kvs).length
  | [] => by simp [sizeM, printMembers]
  | (k, v) :: kvs => by
    have := size_le_print v
    have := sizeM_le_print kvs
    simp only [sizeM, printMembers, List.length_cons, List.length_append]; omega
end

/-! ## `dict(pairs)`: values with unique keys are fixed by `dedup` -/

theorem dictInsert_fresh (k : Str) (v : J) (acc : List (Str × J)) (h : k ∉ acc.map Prod.fst) :
    dictInsert k v acc = acc ++ [(k, v)] := by
  induction acc with
  | nil => simp [dictInsert]
  | cons kv acc ih =>
    cases kv with
    | mk k' v' =>
      simp only [List.map_cons, List.mem_cons, not_or] at h
      simp [dictInsert, h.1, ih h.2]

mutual
theorem dedup_of_uniqueKeys : ∀ j : J, UniqueKeys j → dedup j = j
  | .null, _ => by simp [dedup]
  | .bool _, _ => by simp [dedup]
  | .num _, _ => by simp [dedup]
  | .str _, _ => by simp [dedup]
  | .arr xs, h => by
    simp only [UniqueKeys] at h
    simp [dedup, dedupL_of_uniqueKeys xs h]
  | .obj kvs, h => by
    simp only [UniqueKeys] at h
    have := dedupM_of_uniqueKeys kvs [] h.2 h.1 (by simp)
    simp [dedup, this]
theorem dedupL_of_uniqueKeys : ∀ xs : List J, UniqueKeysL xs → dedupL xs = xs
  | [], _ => by simp [dedupL]
  | x :: xs, h => by
    simp only [UniqueKeysL] at h
    simp [dedupL, dedup_of_uniqueKeys x h.1, dedupL_of_uniqueKeys xs h.2]
theorem dedupM_of_uniqueKeys : ∀ (kvs acc : List (Str × J)), UniqueKeysM kvs →
    (kvs.map Prod.fst).Nodup → (∀ k ∈ kvs.map Prod.fst, k ∉ acc.map Prod.fst) →
    dedupM kvs acc = acc ++ kvs
  | [], acc, _, _, _ => by simp [dedupM]
  | (k, v) :: kvs, acc, h, hn, hd => by
    simp only [UniqueKeysM] at h
    simp only [List.map_cons, List.nodup_cons] at hn
    have hk : k ∉ acc.map Prod.fst := hd k (by simp)
    have ih := dedupM_of_uniqueKeys kvs (acc ++ [(k, v)]) h.2 hn.2 (by
      intro k' hk'
      simp only [List.map_append, List.map_cons, List.map_nil, List.mem_append, List.mem_singleton, not_or]
      refine ⟨hd k' (by simp [hk']), ?_⟩
      intro e; subst e; exact hn.1 hk')
    simp [dedupM, dedup_of_uniqueKeys v h.1, dictInsert_fresh k v acc hk, ih]
end

end Pyxv.JV
