import Pyxv.Proofs.C02Flat
import Pyxv.Model.FormFlatInst
/-!
# The code-shaped instance walk of a flat-aware tree equals the instance of the lifted tree (under the guard)
-/
namespace Pyxv.C02
open Pyxv Pyxv.Form Pyxv.Rows Pyxv.FormFlat

theorem instKids_append (app : Bool) (a b : List Item) : instKids app (a ++ b) = instKids app a ++ instKids app b := by
  induction a generalizing app with
  | nil => simp [instKids]
  | cons x xs ih =>
    cases x with
    | q d => simp [instKids, ih]
    | sec ct n bb ks =>
      cases ct <;> cases app <;> simp [instKids, ih]

mutual
theorem instKidsF_eq_lift : (its : List FItem) → (app inRep inFlat : Bool) → safeL inRep inFlat its = true →
    (app = true → inRep = true) → instKidsF app its = instKids app (liftL its)
  | [], app, _, _, _, _ => by simp [instKidsF, liftL, instKids]
  | .q d :: rest, app, inRep, inFlat, hs, ha => by
    simp only [safeL, safeItem, Bool.true_and] at hs
    simp [instKidsF, liftL, liftItem, instKids, instKidsF_eq_lift rest app inRep inFlat hs ha]
  | .sec ct n b fl ks :: rest, app, inRep, inFlat, hs, ha => by
    simp only [safeL, safeItem, Bool.and_eq_true] at hs
    obtain ⟨⟨⟨h1, h2⟩, hk⟩, hr⟩ := hs
    cases fl with
    | true =>
      simp at h1 h2
      obtain ⟨hct, hir⟩ := h1
      subst hct; subst hir
      have happ : app = false := by cases app <;> simp_all
      subst happ
      simp at hk
      simp [instKidsF, liftL, liftItem, instKids_append, arrF_eq_lift ks hk,
        instKidsF_eq_lift rest false false inFlat hr (by simp)]
    | false =>
      simp at hk
      cases ct with
      | rep =>
        simp at h2
        subst h2
        simp at hk
        have hkt := instKidsF_eq_lift ks true true false hk (by simp)
        cases app with
        | true =>
          have hi : inRep = true := ha rfl
          subst hi
          simp [instKidsF, liftL, liftItem, instKids, hkt, instKidsF_eq_lift rest true true false hr (by simp)]
        | false =>
          simp [instKidsF, liftL, liftItem, instKids, hkt, tmplKidsF_eq_lift ks false hk,
            instKidsF_eq_lift rest false inRep false hr (by simp)]
      | group =>
        simp [show (Ctl.group == Ctl.rep) = false from by decide] at hk
        simp [instKidsF, liftL, liftItem, instKids, instKidsF_eq_lift ks app inRep inFlat hk ha,
          instKidsF_eq_lift rest app inRep inFlat hr ha]
      | loop =>
        simp [show (Ctl.loop == Ctl.rep) = false from by decide] at hk
        simp [instKidsF, liftL, liftItem, instKids, instKidsF_eq_lift ks app inRep inFlat hk ha,
          instKidsF_eq_lift rest app inRep inFlat hr ha]
theorem arrF_eq_lift : (its : List FItem) → safeL false true its = true → arrF its = instKids false (liftL its)
  | [], _ => by simp [arrF, liftL, instKids]
  | .q d :: rest, hs => by
    simp only [safeL, safeItem, Bool.true_and] at hs
    simp [arrF, liftL, liftItem, instKids, arrF_eq_lift rest hs]
  | .sec ct n b fl ks :: rest, hs => by
    simp only [safeL, safeItem, Bool.and_eq_true] at hs
    obtain ⟨⟨⟨h1, h2⟩, hk⟩, hr⟩ := hs
    cases fl with
    | true =>
      simp at h1; subst h1
      simp at hk
      simp [arrF, liftL, liftItem, instKids_append, arrF_eq_lift ks hk, arrF_eq_lift rest hr]
    | false =>
      cases ct with
      | rep => simp at h2
      | group =>
        simp at hk
        simp [arrF, liftL, liftItem, instKids, instKidsF_eq_lift ks false false true hk (by simp), arrF_eq_lift rest hr]
      | loop =>
        simp at hk
        simp [arrF, liftL, liftItem, instKids, instKidsF_eq_lift ks false false true hk (by simp), arrF_eq_lift rest hr]
theorem tmplKidsF_eq_lift : (its : List FItem) → (inFlat : Bool) → safeL true inFlat its = true →
    tmplKidsF its = tmplKids (liftL its)
  | [], _, _ => by simp [tmplKidsF, liftL, tmplKids]
  | .q d :: rest, inFlat, hs => by
    simp only [safeL, safeItem, Bool.true_and] at hs
    simp [tmplKidsF, liftL, liftItem, tmplKids, tmplKidsF_eq_lift rest inFlat hs]
  | .sec ct n b fl ks :: rest, inFlat, hs => by
    simp only [safeL, safeItem, Bool.and_eq_true] at hs
    obtain ⟨⟨⟨h1, h2⟩, hk⟩, hr⟩ := hs
    cases fl with
    | true => simp at h1
    | false =>
      cases ct with
      | rep =>
        simp at h2; subst h2
        simp at hk
        simp [tmplKidsF, liftL, liftItem, tmplKids, tmplKidsF_eq_lift ks false hk, tmplKidsF_eq_lift rest false hr]
      | group =>
        simp at hk
        simp [tmplKidsF, liftL, liftItem, tmplKids, instKidsF_eq_lift ks false true inFlat hk (by simp),
          tmplKidsF_eq_lift rest inFlat hr]
      | loop =>
        simp at hk
        simp [tmplKidsF, liftL, liftItem, tmplKids, instKidsF_eq_lift ks false true inFlat hk (by simp),
          tmplKidsF_eq_lift rest inFlat hr]
end

/-- **The instance the code walks is the accepted output's instance**: for every sheet `formOutFlat` accepts, walking the
    flat-aware tree as `xml_instance` / `xml_instance_array` / `generate_repeating_template` do gives `o.inst`. -/
theorem flat_instance_walk (root : Str) (lists : List Str) (rows : List Cells) (settings : Cells) (o : FlatOut)
    (h : formOutFlat root lists rows settings = .ok o) :
    instanceOfF root (withMetaF (rows.map dropFlat) settings o.items) = o.inst := by
  obtain ⟨all, _, hsafe, _, _, hall, hi, _⟩ := formOutFlat_ok root lists rows settings o h
  rw [hi, ← hall]
  simp [instanceOfF, instanceOf, instKidsF_eq_lift all false false false hsafe (by simp)]

/-- **Closure against the code-shaped instance**: every code-shaped bind nodeset and body ref of an accepted sheet
    resolves in the instance walked the way the code walks it. -/
theorem refs_resolve_flat_walk (root : Str) (lists : List Str) (rows : List Cells) (settings : Cells) (o : FlatOut)
    (h : formOutFlat root lists rows settings = .ok o) :
    ∀ p ∈ bindPathsFL [root] (withMetaF (rows.map dropFlat) settings o.items) ++ bodyPathsFL [root] o.items,
      resolves (instanceOfF root (withMetaF (rows.map dropFlat) settings o.items)) p = true := by
  rw [flat_instance_walk root lists rows settings o h]
  have := refs_resolve_flat_shape root lists rows settings o h
  simpa [shapeOut] using this

/-- the driver's answer to `flat.model` (`walkOut`) is the accepted output itself -/
theorem walkOut_eq (root : Str) (lists : List Str) (rows : List Cells) (settings : Cells) (o : FlatOut)
    (h : formOutFlat root lists rows settings = .ok o) : walkOut root rows settings o = o := by
  have h1 := shapeOut_eq root lists rows settings o h
  have h2 := flat_instance_walk root lists rows settings o h
  unfold walkOut
  rw [h1, h2]

-- non-vacuity: the walk on the example tree is its instance; outside the guard the walk differs from the lifted tree
example : (match formOutFlat "data".toList [] exFlat [] with
    | .ok o => instanceOfF "data".toList (withMetaF (exFlat.map dropFlat) [] o.items) == o.inst
    | .error _ => false) = true := by decide +kernel

def qFlatU : QData := { name := "u".toList, bind := true, control := true, node := true }
-- flat group inside a repeat (the open finding): the template keeps the group's node, the lifted tree has none
example : (instKidsF false [FItem.sec .rep "t".toList false false [.sec .group "g".toList false true [.q qFlatU]]]
    == instKids false (liftL [FItem.sec .rep "t".toList false false [.sec .group "g".toList false true [.q qFlatU]]])) = false := by
  decide +kernel

end Pyxv.C02
