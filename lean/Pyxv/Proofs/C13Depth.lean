import Pyxv.Proofs.C13
/-!
# C13 — column order for headers of three (and more) tokens

`process_row` files a cell `c::t::…` under `out[c]` by merging the nested one-path dict into what is
already there.  For a *group column* `c` (every cell whose first token is `c` has at least two tokens:
`media::image`, `media::image::fr`, `bind::relevant`, `bind::jr:constraintMsg::fr`, …) this is a
homomorphism: `out[c]` is exactly the row dict that `process_row` builds from the same cells with the
first token removed (`processRow_group`, any token depth).  Column-order independence of three-token
headers follows from the two-token theorem applied one level down (`column_perm_three`).

The order dependence that really exists in `merge_dicts` / `process_row` is shown by two
kernel-checked counter-witnesses: two cells with the same token tuple (`caption` + `label`, open
finding F53: the guard `Nodup`), and a one-token cell `c` together with `c::<default>::x` (the guard
"group column").
-/
namespace Pyxv.Spell
open Pyxv

/-- a cell of column `c`, first token removed -/
def subCell (c : Str) (cell : Cell) : Option Cell :=
  match cell.1 with
  | c' :: ts => if c' = c then some (ts, cell.2) else none
  | [] => none

/-- the cells of column `c`, first token removed, in row order -/
def subCells (c : Str) (cells : List Cell) : List Cell := cells.filterMap (subCell c)

/-- the dict stored under a key, if any -/
def subOf : Option Val → KVs
  | some (.dict d) => d
  | _ => .nil

theorem rowStep_multi (dl : Str) (out : KVs) (c t : Str) (ts : List Str) (v : Str) :
    rowStep dl out (c :: t :: ts, v) =
      match out.get c with
      | some va => out.set c (mergeV dl va (nest (t :: ts) v))
      | none => out.set c (nest (t :: ts) v) := by
  simp only [rowStep, nest]
  rw [merge_single]
  cases KVs.get c out <;> rfl

/-- a cell of another column does not touch column `c` -/
theorem rowStep_get_other (dl : Str) (out : KVs) (cell : Cell) (c : Str) (h : subCell c cell = none) :
    (rowStep dl out cell).get c = out.get c := by
  obtain ⟨k, v⟩ := cell
  cases k with
  | nil => simp [rowStep]
  | cons c' ts =>
    have hc : c ≠ c' := by
      intro e; subst e; simp [subCell] at h
    cases ts with
    | nil => rw [rowStep_one]; split <;> simp [KVs.get_set, hc]
    | cons t ts => rw [rowStep_multi]; split <;> simp [KVs.get_set, hc]

/-- merging the one-path dict of a cell into a dict is one step of the row loop on that dict -/
theorem mergeV_nest_eq_rowStep (dl : Str) (sub : KVs) (t : Str) (ts : List Str) (v : Str) (hv : v ≠ []) :
    mergeV dl (.dict sub) (nest (t :: ts) v) = .dict (rowStep dl sub (t :: ts, v)) := by
  cases ts with
  | nil =>
    rw [rowStep_one]
    simp only [nest]
    rw [merge_single]
    cases hg : sub.get t with
    | none => rfl
    | some va =>
      cases va with
      | dict d => rfl
      | str s =>
        simp only
        rw [mergeV]
        have : v.isEmpty = false := by cases v <;> simp_all
        simp only [this]
        by_cases hs : falsy (.str s) = true <;> simp [hs]
  | cons t' ts =>
    simp only [rowStep, nest]
    rw [merge_single]

theorem nest_eq_rowStep_nil (dl : Str) (t : Str) (ts : List Str) (v : Str) (hv : v ≠ []) :
    nest (t :: ts) v = .dict (rowStep dl .nil (t :: ts, v)) := by
  rw [← mergeV_nest_eq_rowStep dl .nil t ts v hv]
  simp only [nest]
  rw [mergeV]
  simp [falsy]

/-- a cell `c::t::…` is one step of the row loop on the dict stored under `c` -/
theorem rowStep_get_group (dl : Str) (out : KVs) (c t : Str) (ts : List Str) (v : Str) (hv : v ≠ [])
    (ho : out.get c = none ∨ ∃ d, out.get c = some (.dict d)) :
    (rowStep dl out (c :: t :: ts, v)).get c = some (.dict (rowStep dl (subOf (out.get c)) (t :: ts, v))) := by
  rw [rowStep_multi]
  rcases ho with ho | ⟨d, ho⟩
  · simp only [ho, subOf, KVs.get_set, if_true]
    rw [nest_eq_rowStep_nil dl t ts v hv]
  · simp only [ho, subOf, KVs.get_set, if_true]
    rw [mergeV_nest_eq_rowStep dl d t ts v hv]

mutual
/-- the (path, value) leaves of a value, in order — an observation with decidable equality -/
def Val.flat : Val → List (List Str × Str)
  | .str s => [([], s)]
  | .dict d => d.flat
def KVs.flat : KVs → List (List Str × Str)
  | .nil => []
  | .cons k v rest => (v.flat.map fun p => (k :: p.1, p.2)) ++ rest.flat
end

/-- `c` is a group column of the row: its cells have at least two tokens and non-empty values -/
def groupCol (c : Str) (cells : List Cell) : Prop :=
  ∀ cell ∈ cells, ∀ ts, cell.1 = c :: ts → ts ≠ [] ∧ cell.2 ≠ []

theorem fold_group (dl c : Str) (cells : List Cell) (hg : groupCol c cells) : ∀ (out : KVs),
    (out.get c = none ∨ ∃ d, out.get c = some (.dict d)) →
    (cells.foldl (rowStep dl) out).get c =
      if subCells c cells = [] then out.get c
      else some (.dict ((subCells c cells).foldl (rowStep dl) (subOf (out.get c)))) := by
  induction cells with
  | nil => intro out _; simp [subCells]
  | cons cell rest ih =>
    intro out ho
    have hg' : groupCol c rest := fun x hx => hg x (List.mem_cons_of_mem _ hx)
    simp only [List.foldl_cons]
    cases hsc : subCell c cell with
    | none =>
      have hget := rowStep_get_other dl out cell c hsc
      have hsub : subCells c (cell :: rest) = subCells c rest := by
        simp [subCells, hsc]
      rw [hsub, ih hg' _ (by rw [hget]; exact ho), hget]
    | some sc =>
      obtain ⟨k, v⟩ := cell
      cases k with
      | nil => simp [subCell] at hsc
      | cons c' ts =>
        simp only [subCell] at hsc
        by_cases hc : c' = c
        · subst hc
          simp only [if_true, Option.some.injEq] at hsc
          subst hsc
          obtain ⟨hts, hv⟩ := hg (c' :: ts, v) (by simp) ts rfl
          cases ts with
          | nil => exact absurd rfl hts
          | cons t ts =>
            have hget := rowStep_get_group dl out c' t ts v hv ho
            have hsub : subCells c' ((c' :: t :: ts, v) :: rest) = (t :: ts, v) :: subCells c' rest := by
              simp [subCells, subCell]
            rw [hsub, ih hg' _ (Or.inr ⟨_, hget⟩), hget]
            simp only [subOf, List.foldl_cons]
            by_cases he : subCells c' rest = []
            · simp [he]
            · simp [he]
        · simp [hc] at hsc

/-- **`process_row` on a group column is `process_row` one level down** (any token depth): the value
    stored under `c` is the row dict built from the cells of column `c` with the first token removed. -/
theorem processRow_group (dl c : Str) (cells : List Cell) (hg : groupCol c cells) :
    (processRow dl cells).get c =
      if subCells c cells = [] then none else some (.dict (processRow dl (subCells c cells))) := by
  have := fold_group dl c cells hg .nil (Or.inl rfl)
  simpa [processRow, KVs.get, subOf] using this

theorem subCell_inj (c : Str) (a b s : Cell) (ha : subCell c a = some s) (hb : subCell c b = some s) :
    a = b := by
  obtain ⟨ka, va⟩ := a
  obtain ⟨kb, vb⟩ := b
  cases ka with
  | nil => simp [subCell] at ha
  | cons ca ta =>
    cases kb with
    | nil => simp [subCell] at hb
    | cons cb tb =>
      simp only [subCell] at ha hb
      by_cases h1 : ca = c
      · by_cases h2 : cb = c
        · simp only [h1, h2, if_true, Option.some.injEq] at ha hb
          subst ha
          simp only [Prod.mk.injEq] at hb
          simp [h1, h2, hb.1, hb.2]
        · simp [h2] at hb
      · simp [h1] at ha

theorem subCell_fst (c : Str) (a s : Cell) (ha : subCell c a = some s) : a.1 = c :: s.1 := by
  obtain ⟨ka, va⟩ := a
  cases ka with
  | nil => simp [subCell] at ha
  | cons ca ta =>
    simp only [subCell] at ha
    by_cases h1 : ca = c
    · simp only [h1, if_true, Option.some.injEq] at ha; subst ha; simp [h1]
    · simp [h1] at ha

theorem subCells_nodup (c : Str) (cells : List Cell) (nd : (cells.map (·.1)).Nodup) :
    ((subCells c cells).map (·.1)).Nodup := by
  induction cells with
  | nil => simp [subCells]
  | cons cell rest ih =>
    simp only [List.map_cons, List.nodup_cons] at nd
    cases hsc : subCell c cell with
    | none =>
      have : subCells c (cell :: rest) = subCells c rest := by simp [subCells, hsc]
      rw [this]; exact ih nd.2
    | some s =>
      have : subCells c (cell :: rest) = s :: subCells c rest := by simp [subCells, hsc]
      rw [this]
      simp only [List.map_cons, List.nodup_cons]
      refine ⟨?_, ih nd.2⟩
      intro hm
      obtain ⟨s', hs', he⟩ := List.mem_map.mp hm
      simp only [subCells, List.mem_filterMap] at hs'
      obtain ⟨b, hb, hbs⟩ := hs'
      apply nd.1
      have e1 := subCell_fst c cell s hsc
      have e2 := subCell_fst c b s' hbs
      rw [e1, ← he, ← e2]
      exact List.mem_map_of_mem hb

end Pyxv.Spell

namespace Pyxv.C13
open Pyxv Pyxv.Spell

/-- **Column order does not matter for three-token headers** (`media::image::fr`,
    `bind::jr:constraintMsg::fr`, next to `media::image`, `bind::relevant`): for a group column `c`
    whose cells have two or three tokens, the dict stored under `c` by any permutation of the cells is
    the same nested finite map — for every second token `m`, a sub-column without language-suffixed
    cells has the same value, a sub-column with suffixed cells has a dict with the same entry for every
    language (the default-language entry included).  Guards: no two cells with the same token tuple
    (F53, `dup_tokens_order_dependent`), and `c` is not also used as a one-token header
    (`plain_beside_deep_order_dependent`). -/
theorem column_perm_three (dl : Str) (cells cells' : List Cell) (hp : cells'.Perm cells)
    (nd : (cells.map (·.1)).Nodup) (c : Str) (hg : groupCol c cells)
    (hs : ∀ cell ∈ subCells c cells, shape2 cell) :
    (subCells c cells = [] → (processRow dl cells).get c = none ∧ (processRow dl cells').get c = none) ∧
    (subCells c cells ≠ [] → ∃ g g', (processRow dl cells).get c = some (.dict g) ∧
      (processRow dl cells').get c = some (.dict g') ∧ ∀ m,
        (hasSub m (subCells c cells) = false → g'.get m = g.get m) ∧
        (hasSub m (subCells c cells) = true → ∃ d d', g.get m = some (.dict d) ∧
          g'.get m = some (.dict d') ∧ ∀ l, getS d' l = getS d l)) := by
  have hg' : groupCol c cells' := fun x hx => hg x (hp.mem_iff.mp hx)
  have hps : (subCells c cells').Perm (subCells c cells) := hp.filterMap _
  have hnil : subCells c cells' = [] ↔ subCells c cells = [] := by
    constructor <;> intro h
    · exact List.Perm.eq_nil (h ▸ hps.symm)
    · exact List.Perm.eq_nil (h ▸ hps)
  rw [processRow_group dl c cells hg, processRow_group dl c cells' hg']
  constructor
  · intro h; simp [h, hnil.mpr h]
  · intro h
    have h' : subCells c cells' ≠ [] := fun e => h (hnil.mp e)
    refine ⟨processRow dl (subCells c cells), processRow dl (subCells c cells'), by simp [h], by simp [h'], fun m => ?_⟩
    exact column_perm_partial dl (subCells c cells) (subCells c cells') hps hs (subCells_nodup c cells nd) m

/-- non-vacuity: `media::image`, `media::image::fr`, `media::audio::fr`, `media::image::en` with default
    language `en`, in two orders — same entries under `media → image` and `media → audio` -/
example :
    let a : List Cell := [(["media".toList, "image".toList], "P".toList),
      (["media".toList, "image".toList, "fr".toList], "F".toList),
      (["media".toList, "audio".toList, "fr".toList], "A".toList),
      (["media".toList, "image".toList, "en".toList], "E".toList)]
    let b : List Cell := [(["media".toList, "image".toList, "en".toList], "E".toList),
      (["media".toList, "audio".toList, "fr".toList], "A".toList),
      (["media".toList, "image".toList, "fr".toList], "F".toList),
      (["media".toList, "image".toList], "P".toList)]
    (match (processRow "en".toList a).get "media".toList, (processRow "en".toList b).get "media".toList with
     | some (.dict g), some (.dict g') =>
       (match g.get "image".toList, g'.get "image".toList, g.get "audio".toList, g'.get "audio".toList with
        | some (.dict d), some (.dict d'), some (.dict e), some (.dict e') =>
          getS d "en".toList == some "E".toList && getS d' "en".toList == some "E".toList &&
          getS d "fr".toList == some "F".toList && getS d' "fr".toList == some "F".toList &&
          getS e "fr".toList == some "A".toList && getS e' "fr".toList == some "A".toList
        | _, _, _, _ => false)
     | _, _ => false) = true := by
  decide +kernel

/-- `processRow_group`, restated here for the audit list -/
theorem process_row_group (dl c : Str) (cells : List Cell) (hg : groupCol c cells) :
    (processRow dl cells).get c =
      if subCells c cells = [] then none else some (.dict (processRow dl (subCells c cells))) :=
  processRow_group dl c cells hg

example : (processRow "en".toList [(["bind".toList, "jr:constraintMsg".toList, "fr".toList], "M".toList),
      (["name".toList], "q".toList), (["bind".toList, "relevant".toList], "r".toList)]).get "bind".toList =
    some (.dict (processRow "en".toList [(["jr:constraintMsg".toList, "fr".toList], "M".toList),
      (["relevant".toList], "r".toList)])) := by
  rfl

/-- **Counter-witness for the guard `Nodup`** (open finding F53, `caption` and `label` both map to the
    token tuple `(label,)`): two cells with the same tokens — the later one wins, so the row dict depends
    on the column order. -/
theorem dup_tokens_order_dependent :
    (processRow "default".toList [(["label".toList], "A".toList), (["label".toList], "B".toList)]).get "label".toList ≠
    (processRow "default".toList [(["label".toList], "B".toList), (["label".toList], "A".toList)]).get "label".toList := by
  intro h
  exact absurd (congrArg (Option.map Val.flat) h) (by decide +kernel)

/-- **Counter-witness for the guard `groupCol`**: with distinct token tuples, a one-token cell `c`
    beside `c::fr` and `c::<default>::x` is kept (filed under `default → default`) when it comes first
    and dropped when `c::<default>::x` comes first — the only order dependence of the repaired
    `merge_dicts` found for distinct headers; no documented column uses such headers. -/
theorem plain_beside_deep_order_dependent :
    let P : Cell := (["c".toList], "P".toList)
    let F : Cell := (["c".toList, "fr".toList], "F".toList)
    let X : Cell := (["c".toList, "default".toList, "x".toList], "X".toList)
    ((processRow "default".toList [P, F, X]).get "c".toList ≠ (processRow "default".toList [X, P, F]).get "c".toList) ∧
    ([X, P, F].Perm [P, F, X]) ∧ (([P, F, X].map (·.1)).Nodup) := by
  intro P F X
  exact ⟨fun h => absurd (congrArg (Option.map Val.flat) h) (by decide +kernel), List.perm_append_comm (l₁ := [X]) (l₂ := [P, F]), by decide +kernel⟩

end Pyxv.C13
