import Pyxv.Proofs.EntitiesLemmas
/-!
# C19 — entity declarations follow the documented create/update decision table

The theorems are about `Pyxv.Entities.convert` and its parts: the interpreter of `Pyxv/Model/Entities.lean`
applied to the IR that `harness/translate_entities.py` regenerates from the AST of /repo's
`entities_parsing.py` / `entity_declaration.py` on every run.  They compare it with the independent
specification `Pyxv.Entities.Spec` (the docstring table, the ODK wording of the property).  The reference
substitution `sub` (C03's mechanism), the expressions, names, rows and trees are universally quantified.
-/
set_option linter.unusedSimpArgs false
namespace Pyxv.C19
open Pyxv Pyxv.Entities Pyxv.Gen

/-- xpath of the declaration: `/<root>/meta/entity` -/
def entityPath (root : Str) : Str := Form.xpathStr [root, Spec.S "meta", Spec.S "entity"]

/-! ## the decision table -/

/-- **entity_table.**  For a one-row entities sheet with only known columns and a valid dataset name, and for
    *all* cell contents (the four presence flags are the truthiness of the four cells; the expressions are
    arbitrary strings): the form is rejected exactly when the documented table (plus the label rule) says
    so, and otherwise `meta/entity` (attributes, label child) and the binds / setvalue are exactly the
    documented ones. -/
theorem entity_table (root : Str) (sub : Str → Str) (row : Cells) (ds : Str)
    (hcols : extraColumns row = [])
    (hds : lookup "dataset".toList row = some ds)
    (hname : Spec.validDatasetName ds = true) :
    let idE := lookup "entity_id".toList row
    let cE := lookup "create_if".toList row
    let uE := lookup "update_if".toList row
    let lE := lookup "label".toList row
    match Spec.decision (truthy idE) (truthy cE) (truthy uE) (truthy lE) with
    | .error _ => ∃ m, getEntityDeclaration row [] = .error (.msg m)
    | .ok a =>
      ∃ ps, getEntityDeclaration row [] = .ok ps ∧
        instanceNode ps = Spec.entityNode ds (truthy lE) a ∧
        bindings (entityPath root) sub ps =
          .ok (Spec.entityNodes (entityPath root) sub ds (idE.getD []) (cE.getD []) (uE.getD []) (lE.getD []) (truthy lE) a) := by
  intro idE cE uE lE
  have hcall1 : declCall row "validate_entities_columns" = .ok () := by simp [declCall, hcols]
  have hcall2 : declCall row "get_validated_dataset_name" = .ok () := by
    simp [declCall, (dataset_checks row ds hds).1 hname]
  have hchk := decl_checks (rowEnv row 1) (declCall row) rfl hcall1 hcall2
  simp only [rowEnv_val] at hchk
  cases hd : Spec.decision (truthy idE) (truthy cE) (truthy uE) (truthy lE) with
  | error r =>
    obtain ⟨m, hm⟩ := hchk.2 r hd
    exact ⟨m, by simp [getEntityDeclaration, hm]⟩
  | ok a =>
    have hok := hchk.1 a hd
    obtain ⟨p1, p2, p3, p4, p5⟩ := paramEnv_val row
    refine ⟨declParams row, by simp only [getEntityDeclaration, List.length_nil, Nat.zero_add, hok], ?_, ?_⟩
    · have := instance_table (paramEnv (declParams row)) ds a (by rw [p1]; exact hds)
        (by rw [p2, p3, p4, p5]; exact hd)
      rw [p5] at this
      exact this
    · have := bindings_table (paramEnv (declParams row)) (entityPath root) sub ds a (by rw [p1]; exact hds)
        (by rw [p2, p3, p4, p5]; exact hd)
      rw [p2, p3, p4, p5] at this
      exact this

/-- non-vacuity: the "always create" row -/
example : ∃ ps, getEntityDeclaration [("dataset".toList, "trees".toList), ("label".toList, "${a}".toList)] [] = .ok ps ∧
    (instanceNode ps).attrs = [("dataset", "trees".toList), ("id", []), ("create", "1".toList)] := by
  refine ⟨_, rfl, ?_⟩
  decide
