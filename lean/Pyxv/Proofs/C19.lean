import Pyxv.Proofs.EntitiesLemmas
/-!
# C19 — entity declarations follow the documented create/update decision table

The theorems are about `Pyxv.Entities.convert` and its parts: the interpreter of `Pyxv/Model/Entities.lean`
applied to the IR that `harness/translate_entities.py` regenerates from the AST of /repo's
`entities_parsing.py` / `entity_declaration.py` on every run.  They compare it with the independent
specification `Pyxv.Entities.Spec` (the docstring table, the ODK wording of the property).  The reference
substitution `sub` (C03's mechanism), the expressions, names, rows and trees are universally quantified.
-/
set_option linter.unusedSimpArgs false
namespace Pyxv.C19
open Pyxv Pyxv.Entities Pyxv.Gen

/-- xpath of the declaration: `/<root>/meta/entity` -/
def entityPath (root : Str) : Str := Form.xpathStr [root, Spec.S "meta", Spec.S "entity"]

/-! ## the decision table -/

/-- **entity_table.**  For a one-row entities sheet with only known columns and a valid dataset name, and for
    *all* cell contents (the four presence flags are the truthiness of the four cells; the expressions are
    arbitrary strings): the form is rejected exactly when the documented table (plus the label rule) says
    so, and otherwise `meta/entity` (attributes, label child) and the binds / setvalue are exactly the
    documented ones. -/
theorem entity_table (root : Str) (sub : Str → Str) (row : Cells) (ds : Str)
    (hcols : extraColumns row = [])
    (hds : lookup "dataset".toList row = some ds)
    (hname : Spec.validDatasetName ds = true) :
    let idE := lookup "entity_id".toList row
    let cE := lookup "create_if".toList row
    let uE := lookup "update_if".toList row
    let lE := lookup "label".toList row
    match Spec.decision (truthy idE) (truthy cE) (truthy uE) (truthy lE) with
    | .error _ => ∃ m, getEntityDeclaration row [] = .error (.msg m)
    | .ok a =>
      ∃ ps, getEntityDeclaration row [] = .ok ps ∧
        instanceNode ps = Spec.entityNode ds (truthy lE) a ∧
        bindings (entityPath root) sub ps =
          .ok (Spec.entityNodes (entityPath root) sub ds (idE.getD []) (cE.getD []) (uE.getD []) (lE.getD []) (truthy lE) a) := by
  intro idE cE uE lE
  have hcall1 : declCall row "validate_entities_columns" = .ok () := by simp [declCall, hcols]
  have hcall2 : declCall row "get_validated_dataset_name" = .ok () := by
    simp [declCall, (dataset_checks row ds hds).1 hname]
  have hchk := decl_checks (rowEnv row 1) (declCall row) rfl hcall1 hcall2
  simp only [rowEnv_val] at hchk
  cases hd : Spec.decision (truthy idE) (truthy cE) (truthy uE) (truthy lE) with
  | error r =>
    obtain ⟨m, hm⟩ := hchk.2 r hd
    exact ⟨m, by simp [getEntityDeclaration, hm]⟩
  | ok a =>
    have hok := hchk.1 a hd
    obtain ⟨p1, p2, p3, p4, p5⟩ := paramEnv_val row
    refine ⟨declParams row, by simp only [getEntityDeclaration, List.length_nil, Nat.zero_add, hok], ?_, ?_⟩
    · have := instance_table (paramEnv (declParams row)) ds a (by rw [p1]; exact hds)
        (by rw [p2, p3, p4, p5]; exact hd)
      rw [p5] at this
      exact this
    · have := bindings_table (paramEnv (declParams row)) (entityPath root) sub ds a (by rw [p1]; exact hds)
        (by rw [p2, p3, p4, p5]; exact hd)
      rw [p2, p3, p4, p5] at this
      exact this

/-- non-vacuity: the "always create" row -/
example : ∃ ps, getEntityDeclaration [("dataset".toList, "trees".toList), ("label".toList, "${a}".toList)] [] = .ok ps ∧
    (instanceNode ps).attrs = [("create", "1".toList), ("dataset", "trees".toList), ("id", [])] := by
  refine ⟨_, rfl, ?_⟩
  decide

/-! ## unknown columns, several rows, names -/

/-- **unknown_columns_rejected.**  Any column besides the five documented ones rejects the (single-row)
    sheet, naming exactly the offending columns. -/
theorem unknown_columns_rejected (row : Cells) (h : extraColumns row ≠ []) :
    getEntityDeclaration row [] = .error (.columns (extraColumns row)) := by
  have hc : declCall row "validate_entities_columns" = .error (.columns (extraColumns row)) := by
    unfold declCall
    cases he : extraColumns row with
    | nil => exact absurd he h
    | cons x xs => simp
  simp [getEntityDeclaration, Gen.entityDeclBody, runBody, evalB, rowEnv, hc]

example : getEntityDeclaration [("dataset".toList, "t".toList), ("foo".toList, "x".toList)] [] =
    .error (.columns ["foo".toList]) := errVal_elim _ _ (by decide)

/-- **multiple_rows_rejected.**  More than one row is rejected whatever the rows contain. -/
theorem multiple_rows_rejected (row r2 : Cells) (rest : List Cells) :
    ∃ m, getEntityDeclaration row (r2 :: rest) = .error (.msg m) := by
  have hl : (rowEnv row ((r2 :: rest).length + 1)).len "entities_sheet" > 1 := by simp [rowEnv]
  unfold getEntityDeclaration
  simp only [Gen.entityDeclBody, runBody, evalB, hl, decide_true, if_true]
  exact ⟨_, rfl⟩

example : ∃ m, getEntityDeclaration [("dataset".toList, "t".toList), ("label".toList, "x".toList)]
    [[("dataset".toList, "u".toList), ("label".toList, "y".toList)]] = .error (.msg m) :=
  multiple_rows_rejected _ _ _

/-- **name_rules (dataset).**  A one-row sheet without unknown columns whose dataset name starts with `__`,
    contains a period or is not an XML name is rejected; an accepted declaration has a valid name. -/
theorem name_rules_dataset_rejected (row : Cells) (ds : Str) (hcols : extraColumns row = [])
    (hds : lookup "dataset".toList row = some ds) (hbad : Spec.validDatasetName ds = false) :
    ∃ m, getEntityDeclaration row [] = .error (.msg m) := by
  obtain ⟨m, hm⟩ := (dataset_checks row ds hds).2 hbad
  have hcall1 : declCall row "validate_entities_columns" = .ok () := by simp [declCall, hcols]
  have hcall2 : declCall row "get_validated_dataset_name" = .error (.msg m) := by simp [declCall, hm]
  exact ⟨m, by simp [getEntityDeclaration, Gen.entityDeclBody, runBody, evalB, rowEnv, hcall1, hcall2]⟩

theorem name_rules_dataset_accepted (row : Cells) (rest : List Cells) (ps : Params)
    (h : getEntityDeclaration row rest = .ok ps) :
    rest = [] ∧ extraColumns row = [] ∧ ∃ ds, lookup "dataset".toList row = some ds ∧ Spec.validDatasetName ds = true := by
  have hrest : rest = [] := by
    cases rest with
    | nil => rfl
    | cons r2 rest => obtain ⟨m, hm⟩ := multiple_rows_rejected row r2 rest; rw [hm] at h; cases h
  subst hrest
  have hcols : extraColumns row = [] := by
    by_cases hc : extraColumns row = []
    · exact hc
    · rw [unknown_columns_rejected row hc] at h; cases h
  refine ⟨rfl, hcols, ?_⟩
  cases hds : lookup "dataset".toList row with
  | none =>
    obtain ⟨m, hm⟩ := dataset_missing row hds
    have hcall1 : declCall row "validate_entities_columns" = .ok () := by simp [declCall, hcols]
    have hcall2 : declCall row "get_validated_dataset_name" = .error (.msg m) := by simp [declCall, hm]
    simp [getEntityDeclaration, Gen.entityDeclBody, runBody, evalB, rowEnv, hcall1, hcall2] at h
  | some ds =>
    refine ⟨ds, rfl, ?_⟩
    cases hv : Spec.validDatasetName ds with
    | true => rfl
    | false => obtain ⟨m, hm⟩ := name_rules_dataset_rejected row ds hcols hds hv; rw [hm] at h; cases h

example : ∃ m, getEntityDeclaration [("dataset".toList, "a.b".toList), ("label".toList, "x".toList)] [] = .error (.msg m) :=
  name_rules_dataset_rejected _ "a.b".toList (by decide) (by decide) (by decide)

/-! ## save_to cells -/

/-- **saveto_bind.**  Whatever the row loop accepts (for every tree shape, nesting depth, row count, names):
    the `(nodeset, entities:saveto)` pairs are exactly those the spec reads off the sheet — one per question
    row with a save_to cell, on that question's own xpath, in sheet order — and nothing else. -/
theorem saveto_bind (decl : Bool) (root : Str) (rows : List Cells) (out : List (Str × Str))
    (h : walk decl root 2 [] rows = .ok out) : Spec.saveto decl root [] rows = some out := by
  have := walk_agrees decl root rows 2 []
  rw [h] at this
  simpa [agrees, frames] using this

example : walk true "data".toList 2 []
    [[("type".toList, "begin group".toList), ("name".toList, "g".toList)],
     [("type".toList, "text".toList), ("name".toList, "q".toList), ("bind::entities:saveto".toList, "p".toList)],
     [("type".toList, "end group".toList)]] = .ok [("/data/g/q".toList, "p".toList)] := okVal_elim _ _ (by decide)

/-- the spec loses no cell: the values it binds are, in order, the truthy save_to cells of the question rows -/
theorem spec_saveto_complete (decl : Bool) (root : Str) : ∀ (rows : List Cells) (st : List (Str × Bool)) (out : List (Str × Str)),
    Spec.saveto decl root st rows = some out →
    out.map (·.2) = (rows.filter fun r =>
        truthy (Spec.savetoCell r) && (Spec.rowKind ((Rows.get r "type").getD []) == .question)).map
      fun r => (Spec.savetoCell r).getD [] := by
  intro rows
  induction rows with
  | nil => intro st out h; simp [Spec.saveto] at h; simp [h]
  | cons r rs ih =>
    intro st out h
    simp only [Spec.saveto] at h
    cases hk : Spec.rowKind ((Rows.get r "type").getD []) with
    | end_ => simp only [hk] at h; simpa [List.filter_cons, hk] using ih _ _ h
    | meta_ => simp only [hk] at h; simpa [List.filter_cons, hk] using ih _ _ h
    | beginGroup =>
      simp only [hk] at h
      by_cases ht : truthy (Spec.savetoCell r) = true
      · simp [ht] at h
      · simp only [ht] at h; simpa [List.filter_cons, hk] using ih _ _ h
    | beginRepeat =>
      simp only [hk] at h
      by_cases ht : truthy (Spec.savetoCell r) = true
      · simp [ht] at h
      · simp only [ht] at h; simpa [List.filter_cons, hk] using ih _ _ h
    | question =>
      simp only [hk] at h
      rcases truthy_cases (Spec.savetoCell r) with ⟨ht, hc | hc⟩ | ⟨a, p, hc, ht⟩
      · rw [hc] at h; simp only at h; simpa [List.filter_cons, hk, ht] using ih _ _ h
      · rw [hc] at h; simp only at h; simpa [List.filter_cons, hk, ht] using ih _ _ h
      · rw [hc] at h
        simp only at h
        split at h
        · simp only [Option.map_eq_some_iff] at h
          obtain ⟨o, ho, rfl⟩ := h
          simp [List.filter_cons, hk, ht, hc, ih _ _ ho]
        · cases h

/-- **name_rules (property names)** and the other per-cell demands: every save_to value that reaches a bind
    is a valid property name, sits outside every repeat, and an entity is declared. -/
theorem spec_saveto_valid (decl : Bool) (root : Str) : ∀ (rows : List Cells) (st : List (Str × Bool)) (out : List (Str × Str)),
    Spec.saveto decl root st rows = some out → ∀ pv ∈ out, Spec.validPropertyName pv.2 = true ∧ decl = true := by
  intro rows
  induction rows with
  | nil => intro st out h; simp [Spec.saveto] at h; simp [h]
  | cons r rs ih =>
    intro st out h
    simp only [Spec.saveto] at h
    cases hk : Spec.rowKind ((Rows.get r "type").getD []) with
    | end_ => simp only [hk] at h; exact ih _ _ h
    | meta_ => simp only [hk] at h; exact ih _ _ h
    | beginGroup => simp only [hk] at h; split at h; · cases h
                    · exact ih _ _ h
    | beginRepeat => simp only [hk] at h; split at h; · cases h
                     · exact ih _ _ h
    | question =>
      simp only [hk] at h
      split at h
      · split at h
        · rename_i hall
          simp only [Option.map_eq_some_iff] at h
          obtain ⟨o, ho, rfl⟩ := h
          intro pv hpv
          simp only [List.mem_cons] at hpv
          rcases hpv with rfl | hpv
          · simp only [Spec.savetoAllowed, Bool.and_eq_true] at hall
            exact ⟨hall.2, hall.1.1⟩
          · exact ih _ _ ho pv hpv
        · cases h
      · exact ih _ _ h

theorem name_rules_property (decl : Bool) (root : Str) (rows : List Cells) (out : List (Str × Str))
    (h : walk decl root 2 [] rows = .ok out) : ∀ pv ∈ out, Spec.validPropertyName pv.2 = true ∧ decl = true :=
  spec_saveto_valid decl root rows [] out (saveto_bind decl root rows out h)

example : ∃ m, walk true "data".toList 2 []
    [[("type".toList, "text".toList), ("name".toList, "q".toList), ("bind::entities:saveto".toList, "Label".toList)]] =
      .error (.msg m) := isMsg_elim _ (by decide)

/-- **saveto_in_repeat_or_on_group_rejected.**  In *every* state of the row loop (any row number, any stack of
    open groups/repeats, any remaining rows, entity declared or not): a row that is not an `end` row, has a
    name and carries a save_to cell is rejected if it opens a group or repeat, or if any enclosing section is a
    repeat. -/
theorem saveto_in_repeat_or_on_group_rejected (decl : Bool) (root : Str) (n : Nat) (st : List Frame)
    (r : Cells) (rs : List Cells) (t name : Str)
    (ht : Rows.get r "type" = some t) (he : Rows.matchControl "end" false t = none) (haud : t ≠ auditType)
    (hn : Rows.get r "name" = some name) (hcell : truthy (lookup savetoKey r) = true)
    (hbad : inRepeat st = true ∨ ∃ c, Rows.matchControl "begin" true t = some c) :
    ∃ m, walk decl root n st (r :: rs) = .error (.msg m) := by
  have hp : savetoPasses decl st t (lookup savetoKey r) = false := by
    rcases hbad with h | ⟨c, hc⟩
    · simp [savetoPasses, hcell, h]
    · simp [savetoPasses, hcell, hc]
  obtain ⟨m, hm⟩ := (saveto_checks decl n st r t).2 hp
  exact ⟨m, by simp only [walk, ht, he, haud, if_false, hn, hm]⟩

example : ∃ m, walk true "data".toList 2 []
    [[("type".toList, "begin repeat".toList), ("name".toList, "r".toList)],
     [("type".toList, "text".toList), ("name".toList, "q".toList), ("bind::entities:saveto".toList, "p".toList)],
     [("type".toList, "end repeat".toList)]] = .error (.msg m) := isMsg_elim _ (by decide)

/-- **saveto_rejections.**  Every sheet the row loop rejects is one the spec rejects (no guard any more: the
    repaired `validate_entity_saveto` tests the parsed control type). -/
theorem saveto_rejections (decl : Bool) (root : Str) (rows : List Cells) (m : Str)
    (h : walk decl root 2 [] rows = .error (.msg m)) : Spec.saveto decl root [] rows = none := by
  have := walk_agrees decl root rows 2 []
  rw [h] at this
  simpa [agrees, frames] using this

/-- the former F25 witness, now accepted: `select_one age_group` with save_to gets its bind -/
example : okVal (walk true "data".toList 2 []
    [[("type".toList, "select_one age_group".toList), ("name".toList, "s".toList),
      ("bind::entities:saveto".toList, "p".toList)]]) = some [("/data/s".toList, "p".toList)] := by decide

/-! ## namespace / version, and the whole mechanism against the spec -/

/-- table facts (re-checked against the current source on every run) -/
theorem features_on : Gen.entityFeatures.isEmpty = false := by decide
theorem entities_prefix_eq : entitiesPrefix = Spec.entitiesNs.1 := by decide
theorem version_attr_eq : Gen.entitiesVersionAttr = Spec.versionAttr := by decide
theorem entity_name_eq : entityName = Spec.S "entity" := by decide
/-- the `save_to` column is the bind attribute `entities:saveto` -/
theorem saveto_header_eq : Gen.savetoHeader = ("save_to", ["bind", "entities:saveto"]) := by decide
theorem instance_tag_eq : Gen.entityInstanceTag = "entity" := by decide

theorem xmlns_with_entity (namespaces : Option Str) :
    ((lookup entitiesPrefix (nsExtra namespaces true)).map fun u => (entitiesPrefix, u)) = some Spec.entitiesNs := by
  rw [entities_ns_declared, entities_prefix_eq]
  rfl

/-- **namespace_iff_entity.**  In every converted form, for *every* value of the settings `namespaces` cell:
    `meta/entity` exists iff the entities sheet has a row; `entities:entities-version` is on the model iff it
    exists; when it exists the `entities` prefix is declared with the entities URI (the appended declaration
    survives whatever the user's namespaces string contains); when it does not exist the prefix is declared
    only if the user's own namespaces string declares it. -/
theorem namespace_iff_entity (root : Str) (sub : Str → Str) (settings : Cells) (entities survey : List Cells) (o : Out)
    (h : convert root sub settings entities survey = .ok o) :
    (o.entity.isSome ↔ entities ≠ []) ∧ (o.version.isSome ↔ o.entity.isSome) ∧
    (o.entity.isSome → o.xmlns = some Spec.entitiesNs ∧ o.version = some (Spec.versionAttr, Gen.entitiesOfflineVersion)) ∧
    (o.entity = none → o.xmlns = userEntitiesNs (Rows.get settings "namespaces")) := by
  unfold convert at h
  cases entities with
  | nil =>
    simp only at h
    split at h
    · cases h
    · cases h; simp
  | cons row rest =>
    simp only at h
    split at h
    · cases h
    · split at h
      · cases h
      · split at h
        · cases h
        · cases h
          simp [features_on, version_attr_eq, xmlns_with_entity]

/-- corollary: unless the user's own `namespaces` cell declares the prefix `entities`, the entities namespace
    is declared exactly when an entity is declared -/
theorem namespace_iff_entity_user (root : Str) (sub : Str → Str) (settings : Cells) (entities survey : List Cells) (o : Out)
    (huser : lookup entitiesPrefix (nsExtra (Rows.get settings "namespaces") false) = none)
    (h : convert root sub settings entities survey = .ok o) : (o.xmlns.isSome ↔ o.entity.isSome) := by
  obtain ⟨_, _, h3, h4⟩ := namespace_iff_entity root sub settings entities survey o h
  cases he : o.entity with
  | none => simp [h4 he, userEntitiesNs, huser]
  | some e => simp [(h3 (by simp [he])).1]

example : (okVal (convert "data".toList id [("namespaces".toList, "ex=\"http://example.com/x\"".toList)] []
      [[("type".toList, "text".toList), ("name".toList, "q".toList)]])).map
    (fun o => (o.entity.isSome, o.xmlns.isSome, o.version.isSome)) = some (false, false, false) := by decide
example : (okVal (convert "data".toList id [("namespaces".toList, "ex=\"http://example.com/x\"".toList)]
      [[("dataset".toList, "t".toList), ("label".toList, "x".toList)]]
      [[("type".toList, "text".toList), ("name".toList, "q".toList)]])).map
    (fun o => (o.entity.isSome, o.xmlns, o.version.isSome)) = some (true, some Spec.entitiesNs, true) := by decide

/-- what happens when the user's own `namespaces` cell declares the prefix `entities`: without an entity the
    root carries the user's URI; with an entity the appended declaration wins -/
example : (okVal (convert "data".toList id [("namespaces".toList, "entities=\"http://example.com/mine\"".toList)] []
      [[("type".toList, "text".toList), ("name".toList, "q".toList)]])).map (·.xmlns) =
    some (some ("entities".toList, "http://example.com/mine".toList)) := by decide
example : (okVal (convert "data".toList id [("namespaces".toList, "entities=\"http://example.com/mine\"".toList)]
      [[("dataset".toList, "t".toList), ("label".toList, "x".toList)]]
      [[("type".toList, "text".toList), ("name".toList, "q".toList)]])).map (·.xmlns) =
    some (some Spec.entitiesNs) := by decide

/-- one-row sheets: the declaration function and the spec's reading of the row agree in every case
    (unknown columns, missing / invalid dataset, the sixteen combinations) -/
theorem declaration_agrees (root : Str) (sub : Str → Str) (row : Cells) :
    match getEntityDeclaration row [] with
    | .ok ps => ∃ ns, bindings (entityPath root) sub ps = .ok ns ∧
        Spec.entityRow (entityPath root) sub row = some (instanceNode ps, ns)
    | .error (.unsupported _) => False
    | .error _ => Spec.entityRow (entityPath root) sub row = none := by
  by_cases hcols : extraColumns row = []
  · have hany := (extraColumns_nil_iff row).1 hcols
    cases hds : lookup "dataset".toList row with
    | none =>
      obtain ⟨m, hm⟩ := dataset_missing row hds
      have hcall1 : declCall row "validate_entities_columns" = .ok () := by simp [declCall, hcols]
      have hcall2 : declCall row "get_validated_dataset_name" = .error (.msg m) := by simp [declCall, hm]
      have : getEntityDeclaration row [] = .error (.msg m) := by
        simp [getEntityDeclaration, Gen.entityDeclBody, runBody, evalB, rowEnv, hcall1, hcall2]
      rw [this]
      have hds' : lookup (Spec.S "dataset") row = none := hds
      simp [Spec.entityRow, hany, hds']
    | some ds =>
      have hds' : lookup (Spec.S "dataset") row = some ds := hds
      cases hv : Spec.validDatasetName ds with
      | false =>
        obtain ⟨m, hm⟩ := name_rules_dataset_rejected row ds hcols hds hv
        rw [hm]
        simp [Spec.entityRow, hany, hds', hv]
      | true =>
        have ht := entity_table root sub row ds hcols hds hv
        simp only at ht
        cases hd : Spec.decision (truthy (lookup "entity_id".toList row)) (truthy (lookup "create_if".toList row))
            (truthy (lookup "update_if".toList row)) (truthy (lookup "label".toList row)) with
        | error r =>
          rw [hd] at ht
          obtain ⟨m, hm⟩ := ht
          rw [hm]
          have hd' : Spec.decision (truthy (lookup (Spec.S "entity_id") row)) (truthy (lookup (Spec.S "create_if") row))
            (truthy (lookup (Spec.S "update_if") row)) (truthy (lookup (Spec.S "label") row)) = .error r := hd
          simp only [Spec.entityRow, hany, hds', hv, hd']
          simp
        | ok a =>
          rw [hd] at ht
          obtain ⟨ps, hps, hi, hb⟩ := ht
          rw [hps]
          have hd' : Spec.decision (truthy (lookup (Spec.S "entity_id") row)) (truthy (lookup (Spec.S "create_if") row))
            (truthy (lookup (Spec.S "update_if") row)) (truthy (lookup (Spec.S "label") row)) = .ok a := hd
          refine ⟨_, hb, ?_⟩
          simp only [Spec.entityRow, hany, hds', hv, hd', hi]
          simp [Spec.S]
  · rw [unknown_columns_rejected row hcols]
    have : row.any (fun kv => !Spec.knownColumns.contains kv.1) = true := by
      cases h : row.any (fun kv => !Spec.knownColumns.contains kv.1) with
      | true => rfl
      | false => exact absurd ((extraColumns_nil_iff row).2 h) hcols
    unfold Spec.entityRow
    rw [if_pos this]

/-! ## the meta block -/

/-- the three facts about sheet and settings that shape the meta block, read as C04's `Rows.metaKids` reads them -/
def metaCfg (settings : Cells) (survey : List Cells) : Spec.MetaCfg :=
  { audit := (survey.filter Rows.isAuditRow).length
    omitInstanceID := match Rows.get settings "omit_instanceID" with | some v => Rows.yesNoTrue v | none => false
    instanceName := Rows.has settings "instance_name" }

theorem audit_names (l : List Cells) :
    ((l.map fun _ => Rows.auditQ).map fun d => d.name) = List.replicate l.length (Spec.S "audit") := by
  induction l with
  | nil => rfl
  | cons a l ih => simp only [List.map_cons, List.length_cons, List.replicate_succ, ih]; rfl

/-- **meta_children_table.**  For every sheet and settings row: the children of the generated meta group are one
    `audit` per enabled audit row (converted forms have at most one: `Pyxv.C02.at_most_one_audit`), then
    `instanceID` unless omitted, then `instanceName` if set (`Rows.metaKids`, C04) — for each of the four
    combinations of the two settings — followed by the entity declaration iff an entity is declared.  In
    particular the declaration does not depend on the other children. -/
theorem meta_children_table (settings : Cells) (survey : List Cells) (e : Bool) :
    metaChildren settings survey e =
      Spec.metaKids (metaCfg settings survey).audit (metaCfg settings survey).omitInstanceID
        (metaCfg settings survey).instanceName e := by
  unfold metaChildren Rows.metaKids Spec.metaKids metaCfg
  rw [entity_name_eq]
  simp only [List.map_append, audit_names]
  generalize Rows.has settings "instance_name" = c
  cases hget : Rows.get settings "omit_instanceID" with
  | none => cases c <;> cases e <;> rfl
  | some v =>
    simp only
    rcases Bool.eq_false_or_eq_true (Rows.yesNoTrue v) with hb | hb <;> simp only [hb] <;>
      cases c <;> cases e <;> rfl

/-- **entity_in_meta.**  In every converted form the declaration is a child of `meta` iff an entity is declared,
    and then it is the *last* child, whatever the settings (omit_instanceID, instance_name) and audit rows are;
    the meta group therefore exists whenever an entity is declared. -/
theorem entity_in_meta (root : Str) (sub : Str → Str) (settings : Cells) (entities survey : List Cells) (o : Out)
    (h : convert root sub settings entities survey = .ok o) :
    (o.entity.isSome → o.metaKids.getLast? = some (Spec.S "entity") ∧
        o.metaKids.dropLast = (Rows.metaKids survey settings).map (·.name)) ∧
    (o.entity = none → o.metaKids = (Rows.metaKids survey settings).map (·.name)) := by
  unfold convert at h
  cases entities with
  | nil =>
    simp only at h
    split at h
    · cases h
    · cases h; simp [metaChildren]
  | cons row rest =>
    simp only at h
    split at h
    · cases h
    · split at h
      · cases h
      · split at h
        · cases h
        · cases h
          simp [metaChildren, entity_name_eq]

example : (okVal (convert "data".toList id [("omit_instanceID".toList, "yes".toList)]
      [[("dataset".toList, "t".toList), ("label".toList, "x".toList)]]
      [[("type".toList, "text".toList), ("name".toList, "q".toList)]])).map (·.metaKids) =
    some ["entity".toList] := by decide
example : (okVal (convert "data".toList id [("instance_name".toList, "x".toList)]
      [[("dataset".toList, "t".toList), ("label".toList, "x".toList)]]
      [[("type".toList, "audit".toList), ("name".toList, "audit".toList)],
       [("type".toList, "text".toList), ("name".toList, "q".toList)]])).map (·.metaKids) =
    some ["audit".toList, "instanceID".toList, "instanceName".toList, "entity".toList] := by decide
example : (okVal (convert "data".toList id [("omit_instanceID".toList, "true".toList)] []
      [[("type".toList, "text".toList), ("name".toList, "q".toList)]])).map (·.metaKids) = some [] := by decide

/-- **convert_eq_spec.**  The whole mechanism (entities sheet → declaration → nodes; survey rows → saveto
    binds; namespace and version) equals the documented specification on every input the model answers, for
    *every* value of the settings `namespaces` cell (no assumption about it: with an entity the entities
    namespace is declared whatever the cell says; without one the root carries exactly what the cell itself
    declares for that prefix, `userEntitiesNs`): what it converts is exactly what the spec demands, and what it
    rejects the spec rejects. -/
theorem convert_eq_spec (root : Str) (sub : Str → Str) (settings : Cells) (entities survey : List Cells) :
    match convert root sub settings entities survey with
    | .ok o => Spec.form root sub Gen.entitiesOfflineVersion (userEntitiesNs (Rows.get settings "namespaces"))
        (metaCfg settings survey) entities survey = some o
    | .error (.unsupported _) => True
    | .error _ => Spec.form root sub Gen.entitiesOfflineVersion (userEntitiesNs (Rows.get settings "namespaces"))
        (metaCfg settings survey) entities survey = none := by
  unfold convert
  cases entities with
  | nil =>
    simp only
    have hw := walk_agrees false root survey 2 []
    cases hres : walk false root 2 [] survey with
    | ok sv =>
      rw [hres] at hw
      simp only [agrees, frames, List.map_nil] at hw
      simp [Spec.form, hw, meta_children_table]
    | error e =>
      rw [hres] at hw
      cases e with
      | msg m => simp only [agrees, frames, List.map_nil] at hw; simp [Spec.form, hw]
      | unsupported w => trivial
      | columns c => simp [agrees] at hw
      | internal w => simp [agrees] at hw
  | cons row rest =>
    simp only
    cases rest with
    | cons r2 rest =>
      obtain ⟨m, hm⟩ := multiple_rows_rejected row r2 rest
      rw [hm]
      simp [Spec.form]
    | nil =>
      have hdecl := declaration_agrees root sub row
      cases hres : getEntityDeclaration row [] with
      | error e =>
        rw [hres] at hdecl
        cases e with
        | unsupported w => trivial
        | msg m => simp only at hdecl ⊢; simp [Spec.form, entityPath] at hdecl ⊢; simp [hdecl]
        | columns c => simp only at hdecl ⊢; simp [Spec.form, entityPath] at hdecl ⊢; simp [hdecl]
        | internal w => simp only at hdecl ⊢; simp [Spec.form, entityPath] at hdecl ⊢; simp [hdecl]
      | ok ps =>
        rw [hres] at hdecl
        obtain ⟨ns, hns, hspec⟩ := hdecl
        simp only
        have hw := walk_agrees true root survey 2 []
        have hpath : Form.xpathStr [root, "meta".toList, entityName] = entityPath root := by
          rw [entity_name_eq]; rfl
        cases hwr : walk true root 2 [] survey with
        | error e =>
          rw [hwr] at hw
          cases e with
          | msg m =>
            simp only [agrees, frames, List.map_nil] at hw
            simp only [entityPath] at hspec
            simp [Spec.form, hspec, hw]
          | unsupported w => trivial
          | columns c => simp [agrees] at hw
          | internal w => simp [agrees] at hw
        | ok sv =>
          rw [hwr] at hw
          simp only [agrees, frames, List.map_nil] at hw
          simp only [hpath, hns]
          simp only [entityPath] at hspec
          simp [Spec.form, hspec, hw, features_on, version_attr_eq, xmlns_with_entity, meta_children_table]

example : (okVal (convert "data".toList id [] [[("dataset".toList, "trees".toList), ("label".toList, "x".toList)]]
    [[("type".toList, "text".toList), ("name".toList, "q".toList), ("bind::entities:saveto".toList, "p".toList)]])).map
    (·.saveto) = some [("/data/q".toList, "p".toList)] := by decide

end Pyxv.C19
