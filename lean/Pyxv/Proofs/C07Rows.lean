import Pyxv.Proofs.C07
import Pyxv.Proofs.C08
/-!
# C07 from sheet rows: composing the header layer (C08) with the itext model

`Pyxv.C07.refs_exist` is stated about the *built* survey and carries the guard `wf` (no empty dict in a
translatable slot).  Here `wf` is **derived** from the header layer: the rows of the survey and choices
sheets go through `Headers.processRow` (model of `sheet_headers.process_row`/`merge_dicts`); C08's
`row_grouping` + `colFold_eq_colVal` say what each column holds afterwards, and `flat_colVal` (below, from
C08's `step_unsuffixed`/`step_suffixed`) says that this value is `None`, a non-empty string, or a non-empty dict
of non-empty strings — never `{}`.  The survey built from these grouped rows therefore satisfies `wf`, and all
statements of C07 hold for it: they are statements about the cells as typed.

This file: the one-level text columns `label`/`hint`/`guidance_hint` and the flat form used for the
effective-text statements.  The general statement (media and bind-message columns, nested sections, selects,
several lists) is `C07Sheets.refs_exist_rows`.
-/
namespace Pyxv.C07Rows
open Pyxv Pyxv.Headers Pyxv.C08 Pyxv.Itext

/-! ### a column value is never the empty dict -/

/-- the value of a column after merging its cells is flat (C08's shape invariant), for any number of
languages and any order -/
theorem flat_colVal (dk : Str) : ∀ (cells : List ColCell) (acc : V),
    Flat acc → (∀ c ∈ cells, c.2 ≠ []) → (cells.map (·.1)).Nodup →
    (isStrV acc = true → ∀ c ∈ cells, c.1 ≠ none) → Flat (colVal dk acc cells)
  | [], acc, hf, _, _, _ => by simpa [colVal] using hf
  | c :: cs, acc, hf, hne, hnd, hstr => by
    have hnd' : (cs.map (·.1)).Nodup := (List.nodup_cons.mp hnd).2
    have hfresh : findLang cs c.1 = none := by
      have hnotin := (List.nodup_cons.mp hnd).1
      simp only [findLang, Option.map_eq_none_iff, List.find?_eq_none]
      intro d hd hdc
      exact hnotin (List.mem_map.mpr ⟨d, hd, by simpa using hdc⟩)
    have hne' : ∀ d ∈ cs, d.2 ≠ [] := fun d hd => hne d (by simp [hd])
    have hx : c.2 ≠ [] := hne c (by simp)
    rcases c with ⟨_ | l, x⟩
    · have hs : isStrV acc = false := by
        cases h : isStrV acc with
        | false => rfl
        | true => exact absurd rfl (hstr h (none, x) (by simp))
      obtain ⟨hf', _⟩ := step_unsuffixed dk acc x cs hf hx hs hfresh
      have hstr' : isStrV (merge dk acc (.str x)) = true → ∀ d ∈ cs, d.1 ≠ none := by
        intro _ d hd hdn
        exact (List.nodup_cons.mp hnd).1 (List.mem_map.mpr ⟨d, hd, by simpa using hdn⟩)
      simpa [colVal, cellV] using flat_colVal dk cs _ hf' hne' hnd' hstr'
    · obtain ⟨hf', hs', _⟩ := step_suffixed dk acc l x cs hf hx hfresh
      have hstr' : isStrV (merge dk acc (cellV (some l, x))) = true → ∀ d ∈ cs, d.1 ≠ none := by
        intro h; rw [hs'] at h; cases h
      simpa [colVal] using flat_colVal dk cs _ hf' hne' hnd' hstr'

/-- the cells of a column carry the texts of the row's cells -/
theorem colCells_texts (hk : List (Str × List Str)) (q : Str) : ∀ (row : List (Str × Str)),
    (∀ c ∈ row, c.2 ≠ []) → ∀ d ∈ colCells hk q row, d.2 ≠ []
  | [], _ => by simp [colCells]
  | (h, v) :: rest, hne => by
    have ih := colCells_texts hk q rest (fun c hc => hne c (by simp [hc]))
    have hv : v ≠ [] := hne (h, v) (by simp)
    intro d hd
    unfold colCells at hd
    split at hd
    · split at hd
      · rcases List.mem_cons.mp hd with rfl | hd
        · exact hv
        · exact ih d hd
      · exact ih d hd
    · split at hd
      · rcases List.mem_cons.mp hd with rfl | hd
        · exact hv
        · exact ih d hd
      · exact ih d hd
    · exact ih d hd

/-- what a row must satisfy for column `q` (C08's hypotheses, verbatim): every header resolves, no `__row`
cell, `NoClash`, at most one token after the column name, non-empty cells, distinct headers of the column -/
structure RowOk (dk : Str) (hk : List (Str × List Str)) (qs : List Str) (row : List (Str × Str)) : Prop where
  headers : ∀ c ∈ row, c.1 ≠ "__row".toList ∧ ∃ t ts, lookup c.1 hk = some (t :: ts)
  noClash : NoClash dk hk .nil row
  oneLevel : ∀ q ∈ qs, ∀ c ∈ row, ∀ t ts, lookup c.1 hk = some (t :: ts) → q = t → ts.length ≤ 1
  nonEmpty : ∀ c ∈ row, c.2 ≠ []
  distinct : ∀ q ∈ qs, ((colCells hk q row).map (·.1)).Nodup

/-- **header layer**: `process_row` succeeds and each of the columns `qs` holds a flat value -/
theorem processRow_flat {dk : Str} {hk : List (Str × List Str)} {qs : List Str} {row : List (Str × Str)}
    (h : RowOk dk hk qs row) : ∃ out, processRow dk hk row = .ok out ∧ ∀ q ∈ qs, Flat (out.get q) := by
  obtain ⟨out, hout, hget⟩ := row_grouping dk hk row .nil h.headers h.noClash
  refine ⟨out, hout, ?_⟩
  intro q hq
  rw [hget q, colFold_eq_colVal dk hk q row _ (h.oneLevel q hq)]
  exact flat_colVal dk _ _ (by simpa [Kvs.get] using Flat.none) (colCells_texts hk q row h.nonEmpty)
    (h.distinct q hq) (by intro hs; simp [Kvs.get, isStrV] at hs)

/-! ### from grouped rows to the survey the itext model starts from -/

def strOf : V → Str
  | .str s => s
  | _ => []

/-- a grouped-row value in a translatable slot, as the builder hands it to the element -/
def txtOfV : V → Txt
  | .none => .none
  | .str s => .str s
  | .dict m => .dict (m.keys.map fun k => (k, strOf (m.get k)))

theorem txtOfV_wf {v : V} (h : Flat v) : (txtOfV v).wf = true := by
  cases h with
  | none => rfl
  | str u _ => rfl
  | dict m hne _ =>
    cases m with
    | nil => exact absurd rfl hne
    | cons k v rest => simp [txtOfV, Kvs.keys, Txt.wf]

def textCols : List Str := ["label".toList, "hint".toList, "guidance_hint".toList]

/-- a question row (type with a body control) carrying only text columns -/
def rowElem (name : Str) (out : Kvs) : ElemD :=
  { cls := .control, name := name, type := "text".toList
    label := txtOfV (out.get "label".toList), hint := txtOfV (out.get "hint".toList)
    guidance := txtOfV (out.get "guidance_hint".toList)
    media := none, msgs := [], hasCalc := false, trigger := false, bodyless := false, flat := false
    appearance := none, itemset := none, list := [], hasChoices := false }

def rootD0 : ElemD :=
  { cls := .group, name := "data".toList, type := "survey".toList, label := .none, hint := .none,
    guidance := .none, media := none, msgs := [], hasCalc := false, trigger := false, bodyless := false,
    flat := false, appearance := none, itemset := none, list := [], hasChoices := false }

/-- choice rows of one list → its options -/
def listOf (name : Str) (outs : List Kvs) : CList :=
  { name := name, options := outs.map fun o => { label := txtOfV (o.get "label".toList), media := none } }

/-- the survey of a flat form: question rows (name, grouped row) and choice lists (name, grouped rows) -/
def sheetSurvey (dl : Str) (qs : List (Str × Kvs)) (ls : List (Str × List Kvs)) : Survey :=
  { defaultLanguage := dl
    lists := ls.map fun l => listOf l.1 l.2
    root := .node rootD0 (qs.map fun q => .node (rowElem q.1 q.2) []) }

theorem mem_flattenL_leaves (pre : Str) (hid : Bool) (qs : List (Str × Kvs)) {f : Flat} :
    f ∈ flattenL pre hid (qs.map fun q => Elem.node (rowElem q.1 q.2) []) → ∃ q ∈ qs, f.d = rowElem q.1 q.2 := by
  induction qs with
  | nil => simp [flattenL]
  | cons q rest ih =>
    simp only [List.map_cons, flattenL, flatten, List.mem_append, List.mem_cons]
    rintro ((h | h | h) | h)
    · exact ⟨q, by simp, by rw [h]⟩
    · simp [tagFlats, rowElem] at h
    · simp [flattenL] at h
    · obtain ⟨q', hq', hd⟩ := ih h
      exact ⟨q', by simp [hq'], hd⟩

/-- the builder-output invariant `wf` follows from flatness of the grouped rows' text columns -/
theorem wf_sheetSurvey (dl : Str) (qs : List (Str × Kvs)) (ls : List (Str × List Kvs))
    (hq : ∀ q ∈ qs, ∀ c ∈ textCols, Flat (q.2.get c))
    (hl : ∀ l ∈ ls, ∀ o ∈ l.2, Flat (o.get "label".toList)) :
    wf (sheetSurvey dl qs ls) = true := by
  · simp only [wf, Bool.and_eq_true, List.all_eq_true]
    constructor
    · intro f hf
      obtain ⟨q, hqm, hd⟩ := mem_flattenL_leaves _ _ qs (by simpa [flats, sheetSurvey, rootD, rootKids] using hf)
      rw [hd]
      have h1 := txtOfV_wf (hq q hqm "label".toList (by simp [textCols]))
      have h2 := txtOfV_wf (hq q hqm "hint".toList (by simp [textCols]))
      have h3 := txtOfV_wf (hq q hqm "guidance_hint".toList (by simp [textCols]))
      simp only [elemWf, rowElem, mediaWf, nodupB, keys, List.map_nil, List.all_nil, Bool.and_true, Bool.and_eq_true]
      exact ⟨⟨h1, h2⟩, h3⟩
    · intro l hlm o ho
      simp only [sheetSurvey, List.mem_map] at hlm
      obtain ⟨l0, hl0, rfl⟩ := hlm
      simp only [listOf, List.mem_map] at ho
      obtain ⟨o0, ho0, rfl⟩ := ho
      simp only [optWf, mediaWf, Bool.and_true]
      exact txtOfV_wf (hl l0 hl0 o0 ho0)

/-- all rows of a sheet through `process_row` -/
def processRows (dk : Str) (hk : List (Str × List Str)) : List (List (Str × Str)) → Except Err (List Kvs)
  | [] => .ok []
  | r :: rs =>
    match processRow dk hk r with
    | .error e => .error e
    | .ok o =>
      match processRows dk hk rs with
      | .error e => .error e
      | .ok os => .ok (o :: os)

theorem processRows_flat {dk : Str} {hk : List (Str × List Str)} {qs : List Str} :
    ∀ (rows : List (List (Str × Str))), (∀ r ∈ rows, RowOk dk hk qs r) →
    ∃ outs, processRows dk hk rows = .ok outs ∧ outs.length = rows.length ∧ ∀ o ∈ outs, ∀ q ∈ qs, Flat (o.get q)
  | [], _ => ⟨[], rfl, rfl, by simp⟩
  | r :: rs, h => by
    obtain ⟨o, ho, hf⟩ := processRow_flat (h r (by simp))
    obtain ⟨os, hos, hlen, hfs⟩ := processRows_flat rs (fun r' hr' => h r' (by simp [hr']))
    refine ⟨o :: os, by simp [processRows, ho, hos], by simp [hlen], ?_⟩
    intro o' ho' q hq
    rcases List.mem_cons.mp ho' with rfl | ho'
    · exact hf q hq
    · exact hfs o' ho' q hq

/-! ### effective text: what a language shows for a translated label is the cell typed for it -/

theorem flattenL_leaves (pre : Str) (hid : Bool) (qs : List (Str × Kvs)) :
    flattenL pre hid (qs.map fun q => Elem.node (rowElem q.1 q.2) []) =
      qs.map fun q => (⟨pre ++ '/' :: q.1, rowElem q.1 q.2, hid⟩ : Itext.Flat) := by
  induction qs with
  | nil => simp [flattenL]
  | cons q rest ih =>
    simp only [List.map_cons, flattenL, flatten, ih]
    simp [tagFlats, rowElem, flattenL]

theorem flats_sheet (dl : Str) (qs : List (Str × Kvs)) (ls : List (Str × List Kvs)) :
    flats (sheetSurvey dl qs ls) =
      qs.map fun q => (⟨"/data".toList ++ '/' :: q.1, rowElem q.1 q.2, false⟩ : Itext.Flat) := by
  simp only [flats, sheetSurvey, rootD, rootKids]
  exact flattenL_leaves _ _ qs

theorem path_mediaEnts {dl p : Str} {m : Media} {e : Ent} (h : e ∈ mediaEnts dl p m) : e.path = p := by
  unfold mediaEnts at h
  obtain ⟨kv, _, hin⟩ := List.mem_flatMap.mp h
  exact path_entsOf hin

theorem path_optEntries {dl id : Str} {o : Opt} {e : Ent} (h : e ∈ optEntries dl id o) : e.path = id := by
  unfold optEntries at h
  rcases List.mem_append.mp h with h | h
  · split at h
    · exact path_entsOf h
    · cases h
  · split at h
    · split at h
      · exact path_mediaEnts h
      · cases h
    · cases h

theorem path_optsEntries {dl name : Str} : ∀ {os : List Opt} {k : Nat} {e : Ent},
    e ∈ optsEntries dl name k os → ∃ i, e.path = choiceId name i
  | [], _, _, h => by simp [optsEntries] at h
  | _ :: os, k, e, h => by
    simp only [optsEntries, List.mem_append] at h
    rcases h with h | h
    · exact ⟨k, path_optEntries h⟩
    · exact path_optsEntries h

theorem path_choiceEntries {dl : Str} {lists : List CList} {e : Ent} (h : e ∈ choiceEntries dl lists) :
    ∃ nm i, e.path = choiceId nm i := by
  unfold choiceEntries at h
  obtain ⟨l, _, hin⟩ := List.mem_flatMap.mp h
  split at hin
  · obtain ⟨i, hi⟩ := path_optsEntries hin
    exact ⟨l.name, i, hi⟩
  · cases hin

/-- the leaf assignments of an element without bind messages and media: its label dict under `…:label`,
everything else under `…:hint` -/
theorem elemEntries_textonly {dl X : Str} {d : ElemD} {hid : Bool} {e : Ent} (hm : d.msgs = []) (hmed : d.media = none)
    (h : e ∈ elemEntries dl ⟨X, d, hid⟩) :
    (∃ pairs, d.label = .dict pairs ∧ e ∈ entsOf dl (path X "label") "long".toList (.dict pairs))
      ∨ e.path = path X "hint" := by
  simp only [elemEntries, List.mem_append] at h
  rcases h with ((((h | h) | h) | h) | h) | h
  · simp [msgEntries, msgOf, hm, lookup, msgUsesItext] at h
  · simp [msgEntries, msgOf, hm, lookup, msgUsesItext] at h
  · simp [msgEntries, msgOf, hm, lookup, msgUsesItext] at h
  · left
    cases hl : d.label with
    | none => rw [hl] at h; cases h
    | str t =>
      rw [hl] at h
      simp only [needsItextRef, hl, Txt.isDict, hmed, mediaTruthy, Bool.or_self, Bool.false_and] at h
      cases h
    | dict pairs => rw [hl] at h; exact ⟨pairs, rfl, h⟩
  · right
    split at h
    · exact path_entsOf h
    · split at h
      · exact path_entsOf h
      · cases h
    · cases h
  · right
    split at h
    · exact path_entsOf h
    · split at h
      · exact path_entsOf h
      · cases h
    · cases h

theorem elemEntries_row {dl X n : Str} {out : Kvs} {hid : Bool} {e : Ent}
    (h : e ∈ elemEntries dl ⟨X, rowElem n out, hid⟩) :
    (∃ m, out.get "label".toList = .dict m ∧ ∃ k ∈ m.keys, e = ⟨k, path X "label", "long".toList, strOf (m.get k)⟩)
      ∨ e.path = path X "hint" := by
  rcases elemEntries_textonly (d := rowElem n out) rfl rfl h with ⟨pairs, hp, hin⟩ | hh
  · left
    have hlab : (rowElem n out).label = txtOfV (out.get "label".toList) := rfl
    rw [hlab] at hp
    cases hv : out.get "label".toList with
    | none => rw [hv] at hp; cases hp
    | str t => rw [hv] at hp; cases hp
    | dict m =>
      rw [hv] at hp
      simp only [txtOfV, Txt.dict.injEq] at hp
      subst hp
      refine ⟨m, rfl, ?_⟩
      simp only [entsOf, langsOf, List.mem_map] at hin
      obtain ⟨lb, ⟨k, hk, rfl⟩, rfl⟩ := hin
      exact ⟨k, hk, rfl⟩
  · exact Or.inr hh

theorem pair_unique {α} : ∀ {qs : List (Str × α)} {n : Str} {a b : α}, (qs.map (·.1)).Nodup →
    (n, a) ∈ qs → (n, b) ∈ qs → a = b
  | [], _, _, _, _, h, _ => by cases h
  | q :: rest, n, a, b, hn, ha, hb => by
    simp only [List.map_cons, List.nodup_cons] at hn
    rcases List.mem_cons.mp ha with ha | ha <;> rcases List.mem_cons.mp hb with hb | hb
    · rw [← ha] at hb; exact (Prod.mk.inj hb).2.symm
    · exact absurd (List.mem_map.mpr ⟨(n, b), hb, by rw [← ha]⟩) hn.1
    · exact absurd (List.mem_map.mpr ⟨(n, a), ha, by rw [← hb]⟩) hn.1
    · exact pair_unique hn.2 ha hb

/-- **effective text of a translated label (itext layer)**: in a flat form with distinct question names, the value
filed for language `l` under the label id of question `n` is the entry for `l` of the label dict of `n`'s grouped
row — no other row, no hint, message or choice writes there (by the injectivity of the id rendering), and
padding does not overwrite it. -/
theorem effective_label (dl : Str) (qs : List (Str × Kvs)) (ls : List (Str × List Kvs))
    (hn : (qs.map (·.1)).Nodup) {n : Str} {out m : Kvs} {l : Str}
    (hq : (n, out) ∈ qs) (hv : out.get "label".toList = .dict m) (hl : l ∈ m.keys) :
    valueAt (table (sheetSurvey dl qs ls)) l (path ("/data".toList ++ '/' :: n) "label") "long".toList
      = some (strOf (m.get l)) := by
  let x := sheetSurvey dl qs ls
  let X := "/data".toList ++ '/' :: n
  let e : Ent := ⟨l, path X "label", "long".toList, strOf (m.get l)⟩
  have hf : (⟨X, rowElem n out, false⟩ : Itext.Flat) ∈ flats x := by
    rw [flats_sheet]; exact List.mem_map.mpr ⟨(n, out), hq, rfl⟩
  have he : e ∈ C07.ents x := by
    apply C07.mem_ents_of_elem hf (by simp [visited, rowElem])
    apply List.mem_append.mpr; left
    simp only [elemEntries, List.mem_append]
    refine Or.inl (Or.inl (Or.inr ?_))
    simp only [rowElem, hv, txtOfV, entsOf, langsOf, List.mem_map]
    exact ⟨(l, strOf (m.get l)), ⟨l, hl, rfl⟩, rfl⟩
  have hag : ∀ e' ∈ C07.ents x, sameKey e e' → e'.text = e.text := by
    intro e' he' hk
    have hp : e'.path = path X "label" := hk.2.1.symm
    simp only [C07.ents, entries, List.mem_append] at he'
    rcases he' with (he' | he') | he'
    · obtain ⟨nm, i, hc⟩ := path_choiceEntries he'
      exact absurd (hc.symm.trans hp) (choiceId_ne_path nm i X (by decide))
    · obtain ⟨f', hf', hin⟩ := List.mem_flatMap.mp he'
      have hf'' := (List.mem_filter.mp hf').1
      rw [flats_sheet] at hf''
      obtain ⟨q', hq', rfl⟩ := List.mem_map.mp hf''
      rcases elemEntries_row hin with ⟨m', hv', k, _, rfl⟩ | hh
      · have hx := (path_inj (by decide) (by decide) hp).1
        have hnn : q'.1 = n := by
          have := List.append_cancel_left hx
          exact (List.cons.inj this).2
        have hoo : q'.2 = out := pair_unique hn (by rw [← hnn]; exact hq') hq
        rw [hoo, hv] at hv'
        cases hv'
        have hkl : k = l := hk.1.symm
        subst hkl
        rfl
      · have := (path_inj (by decide) (by decide) (hh.symm.trans hp)).2
        exact absurd this (by decide)
    · obtain ⟨f', hf', hin⟩ := List.mem_flatMap.mp he'
      have hf'' := (List.mem_filter.mp hf').1
      rw [flats_sheet] at hf''
      obtain ⟨q', _, rfl⟩ := List.mem_map.mp hf''
      simp [mediaEntries, rowElem] at hin
  have h1 := valueAt_setup_agree he hag
  exact valueAt_pad x.lists _ _ _ _ _ h1

theorem mem_keys_of_get : ∀ {m : Kvs} {l t : Str}, m.get l = .str t → l ∈ m.keys
  | .nil, _, _, h => by simp [Kvs.get] at h
  | .cons k v rest, l, t, h => by
    by_cases hk : l = k
    · simp [Kvs.keys, hk]
    · simp only [Kvs.get, hk, if_false] at h
      simp [Kvs.keys, mem_keys_of_get h]

/-! ### `RowOk` as a decidable check (used for the non-vacuity example; evaluable on any concrete row) -/

def noClashFrom (dk : Str) (hk : List (Str × List Str)) (out : Kvs) :
    List (Str × Str) → List (Str × Str) → Bool
  | _, [] => true
  | pre, (h, v) :: rest =>
    (match lookup h hk with
     | some [t] => !isStrV (colFold dk hk t (out.get t) pre)
     | _ => true) && noClashFrom dk hk out (pre ++ [(h, v)]) rest

theorem noClashFrom_sound (dk : Str) (hk : List (Str × List Str)) (out : Kvs) :
    ∀ (rest pre : List (Str × Str)), noClashFrom dk hk out pre rest = true →
      ∀ p h v post, rest = p ++ (h, v) :: post → ∀ t, lookup h hk = some [t] →
        ∀ x, colFold dk hk t (out.get t) (pre ++ p) ≠ .str x
  | [], _, _ => by
    intro p h v post hs
    cases p <;> simp at hs
  | (h0, v0) :: rest, pre, hb => by
    simp only [noClashFrom, Bool.and_eq_true] at hb
    intro p h v post hs t hl x
    cases p with
    | nil =>
      simp only [List.nil_append, List.cons.injEq, Prod.mk.injEq] at hs
      obtain ⟨⟨rfl, rfl⟩, rfl⟩ := hs
      have h1 := hb.1
      rw [hl] at h1
      simp only [List.append_nil]
      intro he
      simp only [he, isStrV] at h1
      cases h1
    | cons c p' =>
      simp only [List.cons_append, List.cons.injEq] at hs
      obtain ⟨rfl, hs'⟩ := hs
      have := noClashFrom_sound dk hk out rest (pre ++ [(h0, v0)]) hb.2 p' h v post hs' t hl x
      simpa [List.append_assoc] using this

def rowOkB (dk : Str) (hk : List (Str × List Str)) (qs : List Str) (row : List (Str × Str)) : Bool :=
  (row.all fun c => c.1 != "__row".toList &&
      (match lookup c.1 hk with | some (_ :: _) => true | _ => false)) &&
  noClashFrom dk hk .nil [] row &&
  (qs.all fun q => row.all fun c =>
      match lookup c.1 hk with | some (t :: ts) => q != t || decide (ts.length ≤ 1) | _ => true) &&
  (row.all fun c => !c.2.isEmpty) &&
  (qs.all fun q => decide ((colCells hk q row).map (·.1)).Nodup)

theorem rowOkB_sound {dk : Str} {hk : List (Str × List Str)} {qs : List Str} {row : List (Str × Str)}
    (h : rowOkB dk hk qs row = true) : RowOk dk hk qs row := by
  simp only [rowOkB, Bool.and_eq_true, List.all_eq_true] at h
  obtain ⟨⟨⟨⟨h1, h2⟩, h3⟩, h4⟩, h5⟩ := h
  refine ⟨?_, ?_, ?_, ?_, ?_⟩
  · intro c hc
    have := h1 c hc
    simp only [Bool.and_eq_true, bne_iff_ne, ne_eq] at this
    refine ⟨this.1, ?_⟩
    cases hl : lookup c.1 hk with
    | none => rw [hl] at this; simp at this
    | some l =>
      cases l with
      | nil => rw [hl] at this; simp at this
      | cons t ts => exact ⟨t, ts, rfl⟩
  · intro pre h v post hs t hl x
    have := noClashFrom_sound dk hk .nil row [] h2 pre h v post hs t hl x
    simpa using this
  · intro q hq c hc t ts hl hqt
    have := h3 q hq c hc
    rw [hl] at this
    simp only [Bool.or_eq_true, bne_iff_ne, ne_eq, decide_eq_true_eq] at this
    rcases this with h' | h'
    · exact absurd hqt h'
    · exact h'
  · intro c hc
    have := h4 c hc
    intro he
    rw [he] at this
    simp at this
  · intro q hq
    simpa using h5 q hq

/-! ### non-vacuity -/

def hkSEx : List (Str × List Str) :=
  [("label::fr".toList, ["label".toList, "fr".toList]), ("label".toList, ["label".toList]),
   ("hint::en".toList, ["hint".toList, "en".toList]), ("guidance_hint".toList, ["guidance_hint".toList]),
   ("label::en".toList, ["label".toList, "en".toList])]

/-- two question rows: translated column before the unsuffixed one (the F19 order), a hint in one language
and an untranslated guidance hint; the second row has English only -/
def srowsEx : List (List (Str × Str)) :=
  [[("label::fr".toList, "Qfr".toList), ("label".toList, "Q".toList), ("hint::en".toList, "h".toList),
    ("guidance_hint".toList, "g".toList)],
   [("label::en".toList, "B".toList)]]

/-- a choice list with a sparse translation pattern -/
def crowsEx : List (List (Str × Str)) :=
  [[("label::fr".toList, "Oui".toList), ("label::en".toList, "Yes".toList)], [("label::en".toList, "No".toList)]]

/-- these sheets meet `RowOk` (flat special case of `C07Sheets.refs_exist_rows`), and the conclusion is not vacuous:
5 references (2 labels and 1 hint in the body, 2 itextIds) over 3 translations (fr, default, en) -/
example :
    (srowsEx.all (rowOkB "default".toList hkSEx textCols) && crowsEx.all (rowOkB "default".toList hkSEx ["label".toList])) = true ∧
    (match processRows "default".toList hkSEx srowsEx, processRows "default".toList hkSEx crowsEx with
     | .ok so, .ok co =>
       let x := sheetSurvey "default".toList (["a".toList, "b".toList].zip so) [("yn".toList, co)]
       (C07.refs x).length == 5 && (out x).translations.length == 3
     | _, _ => false) = true := by decide +kernel

/-- non-vacuity of `effective_label` (the general statement from the sheets is `C07Text.effective_text_rows`): the first example row (columns `label::fr`, `label`, …) is `RowOk`,
its label column ends up a dict, the spec reads `Qfr` for `fr` and `Q` for the default language, and that is what
the final table holds under `/data/a:label` -/
example :
    (match srowsEx.head? with
     | some row =>
       rowOkB "default".toList hkSEx textCols row &&
       (match processRow "default".toList hkSEx row with
        | .ok o =>
          (match o.get "label".toList with | .dict _ => true | _ => false) &&
          specRead "default".toList (colCells hkSEx "label".toList row) "fr".toList == some "Qfr".toList &&
          specRead "default".toList (colCells hkSEx "label".toList row) "default".toList == some "Q".toList &&
          valueAt (table (sheetSurvey "default".toList [("a".toList, o)] [])) "fr".toList
            (path "/data/a".toList "label") "long".toList == some "Qfr".toList &&
          valueAt (table (sheetSurvey "default".toList [("a".toList, o)] [])) "default".toList
            (path "/data/a".toList "label") "long".toList == some "Q".toList
        | _ => false)
     | none => false) = true := by decide +kernel

end Pyxv.C07Rows
