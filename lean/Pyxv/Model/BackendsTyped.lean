import Pyxv.Model.Backends
/-!
# Typed cell values of the two spreadsheet backends, branch by branch (C12)

`Pyxv.Backends.Cell` / `cellText` model the cell kinds both backends share.  This file models the two
Python functions separately and completely, on the value objects the decoders deliver:

* `xlsx_clean_cell` + `is_empty` + `xlsx_value_to_str` (xls2json_backends.py:262-269, 315-346) on an
  openpyxl `cell.value`: `None`, `str` (error cells arrive as the strings `#DIV/0!` …), `bool`, `int`,
  `float`, `datetime.datetime`, `datetime.time`, anything else (`datetime.date`, `timedelta`, …);
* `xls_clean_cell` + `is_empty` + `xls_value_to_unicode` (154-168, 222-249) on an xlrd `(value, ctype)`:
  XL_CELL_EMPTY/BLANK, TEXT, NUMBER, DATE (time-only branch, datetime branch, `XLDateAmbiguous` →
  `PyXFormError`), BOOLEAN (the value is an int, tested for truth), ERROR (the value is the int code).

Parameters (not modelled): `str(float)` of a non-integral float, `str(obj)` of an "other" object, and
xlrd's `xldate_as_tuple` (the date cell carries its 6-tuple, or the fact that it raised).
`str(datetime.datetime)` / `str(datetime.time)` (= `isoformat(sep=' ')`, naive values) are modelled:
`%04d-%02d-%02d %02d:%02d:%02d[.%06d]`, exact on the field ranges the `datetime` constructors admit.
-/
namespace Pyxv.Backends.Typed
open Pyxv Pyxv.Backends

/-! ## `str(datetime.datetime)`, `str(datetime.time)` -/

def digit (n : Nat) : Char := Char.ofNat (48 + n % 10)

/-- `"%02d" % n` for `n < 100` -/
def d2 (n : Nat) : Str := [digit (n / 10), digit n]
/-- `"%04d" % n` for `n < 10000` -/
def d4 (n : Nat) : Str := [digit (n / 1000), digit (n / 100), digit (n / 10), digit n]
/-- `"%06d" % n` for `n < 1000000` -/
def d6 (n : Nat) : Str := [digit (n / 100000), digit (n / 10000), digit (n / 1000), digit (n / 100), digit (n / 10), digit n]

/-- `datetime.time.isoformat()` (naive; `timespec='auto'`: microseconds only when non-zero) -/
def isoTime (h mi s us : Nat) : Str :=
  d2 h ++ ':' :: d2 mi ++ ':' :: d2 s ++ (if us = 0 then [] else '.' :: d6 us)

def isoDate (y mo d : Nat) : Str := d4 y ++ '-' :: d2 mo ++ '-' :: d2 d

/-- `str(datetime.datetime(y, mo, d, h, mi, s, us))` = `isoformat(sep=' ')` -/
def isoDateTime (y mo d h mi s us : Nat) : Str := isoDate y mo d ++ ' ' :: isoTime h mi s us

/-! ## xlsx: openpyxl values -/

/-- `cell.value` of an openpyxl cell (read-only, data-only workbook). -/
inductive XlsxVal
  | none
  | str (s : Str)                              -- text; error cells (`data_type == 'e'`) are strings too
  | bool (b : Bool)
  | int (n : Int)
  | float (i : Option Int) (repr : Str)        -- `i = some n` iff `value.is_integer()` with `int(value) = n`
  | datetime (y mo d h mi s us : Nat)
  | time (h mi s us : Nat)
  | other (repr : Str)                         -- `datetime.date`, `timedelta`, …: only `str(value)` is used
  deriving Repr, DecidableEq

/-- `is_empty` (339-346) -/
def xlsxIsEmpty : XlsxVal → Bool
  | .none => true
  | .str s => allSpace s
  | _ => false

/-- `xlsx_value_to_str` (315-336), branch by branch. -/
def xlsxValueToStr : XlsxVal → Str
  | .bool true => "TRUE".toList                        -- value is True
  | .bool false => "FALSE".toList                      -- value is False
  | .float (some n) _ => intText n                     -- float and is_integer(): str(int(value))
  | .int n => intText n                                -- isinstance int | datetime | time: str(value)
  | .datetime y mo d h mi s us => isoDateTime y mo d h mi s us
  | .time h mi s us => isoTime h mi s us
  | .float .none r => replaceNbsp r                    -- else: str(value), chr(160) replaced
  | .str s => replaceNbsp s
  | .other r => replaceNbsp r
  | .none => replaceNbsp "None".toList

/-- `xlsx_clean_cell` (262-269) -/
def xlsxCellText (v : XlsxVal) : Option Str :=
  let v' := match v with | .str s => XlsxVal.str (strip s) | v => v
  if xlsxIsEmpty v' then .none else some (xlsxValueToStr v')

/-! ## xls: xlrd cells -/

/-- result of `xldate_as_tuple(value, datemode)` (xlrd; a parameter of the model): the 6-tuple, or
`XLDateAmbiguous` (caught by `xls_clean_cell` → `PyXFormError`), or another `XLDateError` (negative, too
large, … — a `ValueError` nothing catches). -/
inductive XlDate
  | tuple (y mo d h mi s : Nat)
  | ambiguous
  | invalid
  deriving Repr, DecidableEq

/-- an xlrd `Cell`: `ctype` and `value`. -/
inductive XlsVal
  | empty                                      -- XL_CELL_EMPTY (0) / XL_CELL_BLANK (6): value `''`
  | text (s : Str)                             -- XL_CELL_TEXT (1)
  | number (i : Option Int) (repr : Str)       -- XL_CELL_NUMBER (2): a float; `i = some n` iff `int(value) == value`
  | date (tup : XlDate)                        -- XL_CELL_DATE (3): a float, seen only through `xldate_as_tuple`
  | bool (v : Nat)                             -- XL_CELL_BOOLEAN (4): value 0 / 1 (an int, tested for truth)
  | error (code : Nat)                         -- XL_CELL_ERROR (5): value is the int error code
  deriving Repr, DecidableEq

inductive XlsErr
  | dateAmbiguous                              -- PyXFormError(XL_DATE_AMBIGOUS_MSG)
  | dateInvalid                                -- XLDateNegative / XLDateTooLarge / … escape (ValueError)
  deriving Repr, DecidableEq

instance : DecidableEq (Except XlsErr (Option Str)) := fun a b =>
  match a, b with
  | .ok x, .ok y => if h : x = y then isTrue (by rw [h]) else isFalse (by intro e; cases e; exact h rfl)
  | .error x, .error y => if h : x = y then isTrue (by rw [h]) else isFalse (by intro e; cases e; exact h rfl)
  | .ok _, .error _ => isFalse (by intro e; cases e)
  | .error _, .ok _ => isFalse (by intro e; cases e)

/-- `is_empty` on the xlrd value: only `''` / all-space text is empty (`0`, `0.0`, `False` are not). -/
def xlsIsEmpty : XlsVal → Bool
  | .empty => true
  | .text s => allSpace s
  | _ => false

/-- `xls_value_to_unicode` (222-249), branch by branch. -/
def xlsValueToUnicode : XlsVal → Except XlsErr Str
  | .bool v => .ok (if v ≠ 0 then "TRUE".toList else "FALSE".toList)
  | .number (some n) _ => .ok (intText n)
  | .number .none r => .ok r
  | .date .ambiguous => .error .dateAmbiguous
  | .date .invalid => .error .dateInvalid
  | .date (.tuple y mo d h mi s) =>
      if (y, mo, d) = (0, 0, 0) then .ok (isoTime h mi s 0)       -- "must be time only"
      else .ok (isoDateTime y mo d h mi s 0)
  | .text s => .ok (replaceNbsp s)
  | .error code => .ok (replaceNbsp (intText code))
  | .empty => .ok (replaceNbsp [])

/-- `xls_clean_cell` (154-168) -/
def xlsCellText (v : XlsVal) : Except XlsErr (Option Str) :=
  let v' := match v with | .text s => XlsVal.text (strip s) | v => v
  if xlsIsEmpty v' then .ok .none else (xlsValueToUnicode v').map some

/-! ## the shared cell kinds, as each decoder delivers them -/

/-- openpyxl's value for a shared-kind cell -/
def toXlsx : Cell → XlsxVal
  | .none => .none
  | .text s => .str s
  | .int n => .int n
  | .float i r => .float i r
  | .bool b => .bool b

/-- xlrd's cell for a shared-kind cell: every number is a float (NUMBER), a boolean is 0/1 with ctype 4;
`fr n` is `str(float(n))`, which the code never looks at for an integral value. -/
def toXls (fr : Int → Str) : Cell → XlsVal
  | .none => .empty
  | .text s => .text s
  | .int n => .number (some n) (fr n)
  | .float i r => .number i r
  | .bool b => .bool (if b then 1 else 0)

end Pyxv.Backends.Typed
