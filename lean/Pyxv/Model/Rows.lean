import Pyxv.Model.Form
import Pyxv.Generated.Tables
/-!
# Row classification: one survey row (cells after header processing) ↦ `Form.RowK`

Mirrors the per-row part of `xls2json.workbook_to_json` (xls2json.py 537-1395):
disabled / empty / comment rows, "Question with no type", audit rows (→ meta block), calculate
without calculation, settings-on-the-survey-sheet rows, `RE_END_CONTROL`, missing / invalid names
(`expression.is_xml_tag`), `RE_BEGIN_CONTROL` (+ the `<name>_count` helper), `RE_SELECT`
(+ the `<name>_other` companion), and for ordinary questions the facts of `Form.QData`
(type table via `Pyxv.Gen.questionTypes`, `builder.QUESTION_CLASSES`, `Question.xml_control`).

Cells use the canonical column names that `dealias_and_group_headers` produces, flattened with
`::` (`bind::relevant`, `control::jr:count`, `label::en`, …).  Outside the fragment (answered
`unsupported`): loops, osm, entities `save_to`, `default` on a `calculate` row (needs the
expression lexer, see `Pyxv.Lexer`), table-list appearance, a `parameters` cell (handled by
`Pyxv.Controls`, which strips it before calling `classify`).
-/
namespace Pyxv.Rows
open Pyxv Pyxv.Form

abbrev Cells := List (Str × Str)

def get (r : Cells) (k : String) : Option Str := lookup k.toList r
def has (r : Cells) (k : String) : Bool := (get r k).isSome
def hasPrefix (r : Cells) (p : String) : Bool := r.any fun kv => startsWith kv.1 p.toList

def gtab (t : List (String × String)) : List (Str × Str) := t.map fun (a, b) => (a.toList, b.toList)

/-- `aliases.yes_no.get(v)` is truthy -/
def yesNoTrue (v : Str) : Bool :=
  match (Pyxv.Gen.yesNo.map fun (a, b) => (a.toList, b)).find? (fun p => p.1 = v) with
  | some (_, b) => b
  | none => false

/-! ### `is_xml_tag` (expression.py: `^ncname(:ncname)?$`) -/

def isNameStart1 (c : Char) : Bool :=
  let n := c.toNat
  ('A' ≤ c && c ≤ 'Z') || c == '_' || ('a' ≤ c && c ≤ 'z') ||
  (0xD8 ≤ n && n ≤ 0xF6) || (0xF8 ≤ n && n ≤ 0x2FF) || (0x370 ≤ n && n ≤ 0x37D) ||
  (0x37F ≤ n && n ≤ 0x1FFF) || (0x200C ≤ n && n ≤ 0x200D) || (0x2070 ≤ n && n ≤ 0x218F) ||
  (0x2C00 ≤ n && n ≤ 0x2FEF) || (0x3001 ≤ n && n ≤ 0xD7FF) || (0xF900 ≤ n && n ≤ 0xFDCF) ||
  (0xFDF0 ≤ n && n ≤ 0xFFFD) || (0x10000 ≤ n && n ≤ 0xEFFFF)

def isNameExtra (c : Char) : Bool :=
  let n := c.toNat
  c == '-' || c == '.' || ('0' ≤ c && c ≤ '9') || n == 0xB7 || (0x300 ≤ n && n ≤ 0x36F) ||
  (0x203F ≤ n && n ≤ 0x2040)

/-- the source's `namestartchar` alternation contains the four-character literal `À-Ö]`
    (a typo for a character class); it is part of the language accepted -/
def typoLit : Str := [Char.ofNat 0xC0, '-', Char.ofNat 0xD6, ']']

/-- consume `(namestartchar|namechar_extra)*` -/
def ncTail : Nat → Str → Str
  | 0, s => s
  | _, [] => []
  | f + 1, c :: cs =>
    if isNameStart1 c || isNameExtra c then ncTail f cs
    else if startsWith (c :: cs) typoLit then ncTail f (cs.drop 3)
    else c :: cs

/-- consume one ncname; `none` when the input does not start with one -/
def ncName (s : Str) : Option Str :=
  match s with
  | [] => none
  | c :: cs =>
    if isNameStart1 c then some (ncTail cs.length cs)
    else if startsWith (c :: cs) typoLit then some (ncTail cs.length (cs.drop 3))
    else none

def isXmlTag (s : Str) : Bool :=
  match ncName s with
  | none => false
  | some [] => true
  | some (':' :: r) => (match ncName r with | some [] => true | _ => false)
  | some _ => false

/-- `is_pyxform_reference`: exactly `${ncname}` or `${last-saved#ncname}` -/
def isPyxformRef (s : Str) : Bool :=
  match s with
  | '$' :: '{' :: r =>
    let r' := if startsWith r "last-saved#".toList then r.drop 11 else r
    (match ncName r' with
     | some ['}'] => true
     | some (':' :: r2) => (match ncName r2 with | some ['}'] => true | _ => false)
     | _ => false)
  | _ => false

/-! ### control / select regexes (sources pinned by `decide` facts in the proofs) -/

def ctlOf (s : Str) : Option Ctl :=
  if s = "group".toList then some .group
  else if s = "repeat".toList then some .rep
  else if s = "loop".toList then some .loop
  else none

/-- after the control keyword in `RE_BEGIN_CONTROL`: `( (over )?(\S+))?$` -/
def beginTailOk (r : Str) : Bool :=
  match r with
  | [] => true
  | ' ' :: r1 =>
    let r2 := if startsWith r1 "over ".toList && !(r1.drop 5).isEmpty && (r1.drop 5).all (fun c => !pyIsSpace c)
              then r1.drop 5 else r1
    !r2.isEmpty && r2.all fun c => !pyIsSpace c
  | _ => false

/-- `RE_BEGIN_CONTROL` / `RE_END_CONTROL`: keyword, one separator (`\s` or `_`), one of the keys of
    `aliases.control` (first alternative, in table order, for which the rest matches) -/
def matchControl (kw : String) (isBegin : Bool) (t : Str) : Option Str :=
  if !startsWith t kw.toList then none else
  match t.drop kw.length with
  | sep :: rest =>
    if !(pyIsSpace sep || sep == '_') then none else
    (gtab Pyxv.Gen.aliasControl).findSome? fun (k, v) =>
      if startsWith rest k then
        let tail := rest.drop k.length
        if (if isBegin then beginTailOk tail else tail.isEmpty) then some v else none
      else none
  | [] => none

def orOtherSpellings : List Str := ["or specify other".toList, "or_other".toList, "or other".toList]

/-- `RE_SELECT`: (select type, list name, or_other?) -/
def matchSelect (t : Str) : Option (Str × Str × Bool) :=
  (gtab Pyxv.Gen.aliasSelect).findSome? fun (k, v) =>
    if startsWith t k then
      match t.drop k.length with
      | ' ' :: rest =>
        let ln := rest.takeWhile fun c => !pyIsSpace c
        let tail := rest.dropWhile fun c => !pyIsSpace c
        if ln.isEmpty then none
        else if tail.isEmpty then some (v, ln, false)
        else match tail with
          | ' ' :: o => if orOtherSpellings.contains o then some (v, ln, true) else none
          | _ => none
      | _ => none
    else none

/-! ### question facts -/

def typeEntry (t : Str) : Option (List (String × String × String)) :=
  (Pyxv.Gen.questionTypes.find? fun p => p.1.toList = t).map (·.2)

def entryHas (e : List (String × String × String)) (sec : String) : Bool := e.any fun x => x.1 = sec
def entryGet (e : List (String × String × String)) (sec key : String) : Option String :=
  (e.find? fun x => x.1 = sec && x.2.1 = key).map (·.2.2)

/-- `builder.QUESTION_CLASSES[control_tag]` has a `build_xml` that returns a node -/
def tagHasControl (tag : String) : Bool :=
  ["input", "odk:rank", "osm", "range", "select", "select1", "trigger", "upload"].contains tag

def hasBindCells (r : Cells) : Bool := hasPrefix r "bind::"
/-- `self.label or self.hint`; an unlabelled element whose appearance is exactly `label` gets the
    label `" "` (`SurveyElement.__init__`, survey_element.py 127-137) -/
def hasLabelOrHint (r : Cells) : Bool :=
  has r "label" || hasPrefix r "label::" || has r "hint" || hasPrefix r "hint::" ||
  get r "control::appearance" = some "label".toList

/-- facts of an ordinary question of (table) type `t` -/
def qdata (name : Str) (t : Str) (r : Cells) : Option QData :=
  if t = "xml-external".toList || t = "csv-external".toList then
    some { name, bind := false, control := false, node := false }
  else
  match typeEntry t with
  | none => none
  | some e =>
    let bind := entryHas e "bind" || hasBindCells r
    let tag := (entryGet e "control" "tag").getD ""
    let tag := if tag = "upload" && entryGet e "control" "mediatype" = some "osm/*" then "osm" else tag
    -- Question.xml_control: calculate, or (calculate bind / trigger) without label or hint → no control
    -- (a type-table `hint`, e.g. of `phone number`, counts as the question's hint)
    let hidden := t = "calculate".toList ||
      ((has r "bind::calculate" || has r "trigger") && !(hasLabelOrHint r || entryHas e ""))
    some { name, bind, control := tagHasControl tag && !hidden, node := true, tag := tag.toList }

inductive Cls where
  | row (k : RowK)
  | unsupported (why : String)
deriving Repr, Inhabited

def settingsTypes : List Str := (gtab Pyxv.Gen.aliasSettingsHeader).map (·.1)

def natToStr (n : Nat) : Str := (toString n).toList

def countHelper (name : Str) (r : Cells) : Option QData :=
  match get r "control::jr:count" with
  | some e => if isPyxformRef e then none
              else some { name := name ++ "_count".toList, bind := true, control := false, node := true }
  | none => none

/-- a `begin group|repeat` row (xls2json.py 820-957) -/
def classifyBegin (r : Cells) (name : Str) (c : Str) : Cls :=
  match ctlOf c with
  | some .loop => .unsupported "loop"
  | none => .unsupported "control type"
  | some ct =>
    if (match get r "control::appearance" with
        | some a => (splitOnChar ' ' a).contains "table-list".toList | none => false) then .unsupported "table-list"
    else if has r "control::bodyless" then .unsupported "bodyless"   -- `GroupedSection.xml_control` returns None
    else .row (.begin_ ct name (hasBindCells r) (countHelper name r))

/-- a select row (xls2json.py 962-1189) -/
def classifySelect (lists : List Str) (r : Cells) (name sel ln : Str) (other : Bool) : Cls :=
  if sel = "select one external".toList then .unsupported "select_one_external"
  else if (splitOnChar '.' ln).length > 1 || isInfix "${".toList ln then .unsupported "select from file / repeat"
  else if !lists.contains ln then .row (.bad (.other "list not in choices".toList))
  else if other && has r "choice_filter" then .row (.bad (.other "or_other with choice_filter".toList))
  else
  let hidden := (has r "bind::calculate" || has r "trigger") && !hasLabelOrHint r
  let tag := match typeEntry sel with
    | some e => ((entryGet e "control" "tag").getD "").toList
    | none => []
  let d : QData := { name, bind := true, control := !hidden, node := true, tag }
  let o : Option QData :=
    if other then some { name := name ++ "_other".toList, bind := true, control := true, node := true,
                         tag := "input".toList } else none
  .row (.q d o)

/-- a row with a valid name that is not an `end` row -/
def classifyNamed (lists : List Str) (r : Cells) (t name : Str) : Cls :=
  if has r "bind::entities:saveto" then .unsupported "save_to" else
  match matchControl "begin" true t with
  | some c => classifyBegin r name c
  | none =>
  match matchSelect t with
  | some (sel, ln, other) => classifySelect lists r name sel ln other
  | none =>
  if isInfix "osm".toList t then .unsupported "osm" else
  match qdata name t r with
  | some d => .row (.q d none)
  | none => .row (.q { name, bind := false, control := false, node := true } none)   -- unknown type: raised by the builder

/-- `row["name"]` checks (xls2json.py 797-812) -/
def nameOrErr (r : Cells) (t : Str) (n : Nat) : Except RowErr Str :=
  match get r "name" with
  | some nm => if isXmlTag nm then .ok nm else .error .badName
  | none => if t = "note".toList then .ok ("generated_note_name_".toList ++ natToStr n) else .error .noName

/-- a row that has a type cell `t` -/
def classifyTyped (lists : List Str) (n : Nat) (r : Cells) (t : Str) : Cls :=
  if t = "audit".toList then
    (match get r "name" with
     | some nm => if nm = "audit".toList then .row .skip else .row (.bad (.other "audit name".toList))
     | none => .row .skip)
  else if has r "parameters" then .unsupported "parameters"
  else if t = "calculate".toList && !has r "bind::calculate" then
    (if has r "default" then .unsupported "calculate with default (lexer)" else .row (.bad .missingCalculation))
  else if settingsTypes.contains t then .row .skip
  else
  match matchControl "end" false t with
  | some c =>
    (match ctlOf c with
     | some ct => .row (.end_ ct)
     | none => .unsupported "control type")
  | none =>
  match nameOrErr r t n with
  | .error e => .row (.bad e)
  | .ok name => classifyNamed lists r t name

/-- one survey row → classification (`lists`: names of the lists on the choices sheet) -/
def classify (lists : List Str) (n : Nat) (r0 : Cells) : Cls :=
  -- "disabled" column
  let r := r0.filter fun kv => kv.1 ≠ "disabled".toList
  if (match get r0 "disabled" with | some v => yesNoTrue v | none => false) then .row .skip
  else if r.isEmpty then .row .skip
  else
  match get r "type" with
  | none =>
    if has r "name" || has r "label" || hasPrefix r "label::" then .row (.bad .noType) else .row .skip
  | some t => classifyTyped lists n r t

/-- rows numbered from 2 (row 1 is the header) -/
def classifyAll (lists : List Str) : Nat → List Cells → Except String (List (Nat × RowK))
  | _, [] => .ok []
  | n, r :: rs =>
    match classify lists n r with
    | .unsupported w => .error w
    | .row k =>
      match classifyAll lists (n + 1) rs with
      | .ok ks => .ok ((n, k) :: ks)
      | .error w => .error w

/-- an `audit` row that is not disabled (xls2json.py 596-760: renamed `audit`, moved to the meta block) -/
def isAuditRow (r : Cells) : Bool :=
  get r "type" = some "audit".toList && !(match get r "disabled" with | some v => yesNoTrue v | none => false)

def auditQ : QData := { name := "audit".toList, bind := true, control := false, node := true }

/-- meta block children: one `audit` per audit row (in sheet order — two of them clash in `Section.validate` of the
    meta group), `instanceID` (unless omitted), `instanceName` -/
def metaKids (rows : List Cells) (settings : Cells) : List QData :=
  let audit := (rows.filter isAuditRow).map fun _ => auditQ
  let iid := if (match get settings "omit_instanceID" with | some v => yesNoTrue v | none => false) then []
    else [({ name := "instanceID".toList, bind := true, control := false, node := true } : QData)]
  let iname := if has settings "instance_name" then
    [({ name := "instanceName".toList, bind := true, control := false, node := true } : QData)] else []
  audit ++ iid ++ iname

/-- "Cannot omit instanceID, it is required for encryption." (xls2json.py 1416-1418): `omit_instanceID` truthy
    together with a `public_key` setting is rejected -/
def omitWithKey (settings : Cells) : Bool :=
  (match get settings "omit_instanceID" with | some v => yesNoTrue v | none => false) && has settings "public_key"

/-- rows of question type not in the type table (raised later by the builder as
    "Unknown question type") -/
def unknownTypeRows (lists : List Str) : Nat → List Cells → List Nat
  | _, [] => []
  | n, r :: rs =>
    let rest := unknownTypeRows lists (n + 1) rs
    match classify lists n r with
    | .row (.q _ _) =>
      (match get r "type" with
       | some t => if (matchSelect t).isNone && (matchControl "begin" true t).isNone && (qdata [] t r).isNone
                   then n :: rest else rest
       | none => rest)
    | _ => rest

/-- the survey's children: the row tree plus the generated `meta` group (xls2json.py 1404-1417) -/
def withMeta (rows : List Cells) (settings : Cells) (items : List Item) : List Item :=
  let mk := metaKids rows settings
  if mk.isEmpty then items else items ++ [Item.sec .group "meta".toList false (mk.map Item.q)]

/-- names of the generated `<repeat>_count` helpers (each is referenced as `${name}` by its repeat) -/
def helperNames : List (Nat × RowK) → List Str
  | [] => []
  | (_, .begin_ _ _ _ (some h)) :: rest => h.name :: helperNames rest
  | _ :: rest => helperNames rest

inductive FormErr where
  | unsupported (why : String)
  | err (e : Err)
  | unknownType (row : Nat)
deriving Repr

structure FormOut where
  items : List Item
  inst : NT
  binds : List (List Str)
  body : List (List Str)
  ctl : List (Str × List Str)
deriving Repr

/-- the structural pipeline on one form: classify, nest, build, validate, emit -/
def formOut (root : Str) (lists : List Str) (rows : List Cells) (settings : Cells) : Except FormErr FormOut :=
  match classifyAll lists 2 rows with
  | .error w => .error (.unsupported w)
  | .ok ks =>
    match parseRows ks with
    | .error e => .error (.err e)
    | .ok items =>
      match unknownTypeRows lists 2 rows with
      | n :: _ => .error (.unknownType n)
      | [] =>
        let all := withMeta rows settings items
        match validate root all with
        | .error e => .error (.err e)
        | .ok () =>
          -- the generated `${<repeat>_count}` reference must name exactly one element
          match (helperNames ks).find? (fun h => (allNamesL all).count h > 1) with
          | some h => .error (.err (.ambiguousRef h))
          | none =>
          .ok { items := items, inst := instanceOf root all, binds := bindPathsL [root] all,
                body := bodyPathsL [root] items, ctl := bodyCtlL [root] items }

/-- a `save_to` row is, for the element tree, the question of its type with one more bind attribute
    (`bind::entities:saveto`): the cell is renamed so that `classify` reads the row as a plain question with a
    bind.  Whether the cell is *allowed* (entity declaration present, not inside a repeat, not on a group, valid
    property name: `validate_entity_saveto`) is decided by `Pyxv.Entities.walk`. -/
def plainSaveto (r : Cells) : Cells :=
  r.map fun kv => if kv.1 = "bind::entities:saveto".toList then ("bind::saveto".toList, kv.2) else kv

/-! ### the same pipeline on explicitly numbered rows

`Pyxv.TableList.expand` inserts generated rows (table-list label note, table-list header select) that carry
the sheet row number of the row they were generated from, so row numbers are no longer positions. -/

def number : Nat → List Cells → List (Nat × Cells)
  | _, [] => []
  | n, r :: rs => (n, r) :: number (n + 1) rs

def classifyNum (lists : List Str) : List (Nat × Cells) → Except String (List (Nat × RowK))
  | [] => .ok []
  | (n, r) :: rs =>
    match classify lists n r with
    | .unsupported w => .error w
    | .row k =>
      match classifyNum lists rs with
      | .ok ks => .ok ((n, k) :: ks)
      | .error w => .error w

def unknownTypeNum (lists : List Str) : List (Nat × Cells) → List Nat
  | [] => []
  | (n, r) :: rs =>
    let rest := unknownTypeNum lists rs
    match classify lists n r with
    | .row (.q _ _) =>
      (match get r "type" with
       | some t => if (matchSelect t).isNone && (matchControl "begin" true t).isNone && (qdata [] t r).isNone
                   then n :: rest else rest
       | none => rest)
    | _ => rest

/-- `formOut` on numbered rows -/
def formOutN (root : Str) (lists : List Str) (nrows : List (Nat × Cells)) (settings : Cells) : Except FormErr FormOut :=
  match classifyNum lists nrows with
  | .error w => .error (.unsupported w)
  | .ok ks =>
    match parseRows ks with
    | .error e => .error (.err e)
    | .ok items =>
      match unknownTypeNum lists nrows with
      | n :: _ => .error (.unknownType n)
      | [] =>
        let all := withMeta (nrows.map (·.2)) settings items
        match validate root all with
        | .error e => .error (.err e)
        | .ok () =>
          match (helperNames ks).find? (fun h => (allNamesL all).count h > 1) with
          | some h => .error (.err (.ambiguousRef h))
          | none =>
          .ok { items := items, inst := instanceOf root all, binds := bindPathsL [root] all,
                body := bodyPathsL [root] items, ctl := bodyCtlL [root] items }

end Pyxv.Rows
