import Pyxv.Model.Settings
/-!
# C11 spec: setting ↦ header location, with the documented defaults

The specification is written over a *lookup function* `σ : setting name → value` (the settings
after the documented spellings have been resolved), never over the dict machinery of the model.
Each header location is a function of the few settings the documentation ties to it; that the
model (`Settings.header`, which replays `json_dict.update`, slot assignment and `setAttribute`
order) computes exactly these functions is theorem `settings_header`; that a location ignores every
other setting is `no_leak` (Pyxv/Proofs/C11.lean).

| location (as read by an XML parser)                | settings                                  | default |
|----------------------------------------------------|-------------------------------------------|---------|
| `h:title` text                                     | `title`                                   | the id  |
| primary instance root: element name                | `name`                                    | `form_name` argument, else `data` |
| root `@id`                                         | `id_string`                               | file-name stem (fallback), else `data` |
| root `@version`                                    | `version` (else `attribute::version`)     | absent  |
| root `@xmlns`, `@odk:prefix`, `@odk:delimiter`     | `instance_xmlns`, `prefix`, `delimiter`   | absent  |
| root `@k` for any other `k`                        | `attribute::k`                            | absent  |
| `<submission>` present / its attributes            | `submission_url` (`action` + `method=post`), `public_key`, `auto_send`, `auto_delete` | no element |
| `h:body/@class`                                    | `style`                                   | absent  |
| `xmlns:p` on `h:html`                              | `namespaces` (`p=uri` items; standard prefixes win) | the 7 standard declarations |
| `meta/instanceID` present                          | `omit_instanceID` (a yes-spelling removes) | present |
| `calculate` of `meta/instanceName`                 | `instance_name` (yes/no spellings → `true()`/`false()`, as in every calculate) | no instanceName |
-/
namespace Pyxv.Settings
open Pyxv

/-- last binding of `k` (Python: the value a key ends up with after successive assignments) -/
def agetLast {κ β : Type} [DecidableEq κ] (k : κ) : List (κ × β) → Option β
  | [] => none
  | (k', v) :: r =>
    match agetLast k r with
    | some x => some x
    | none => if k = k' then some v else none

inductive Loc where
  | title | rootName
  | rootAttr (k : Str)
  | hasSubmission
  | subAttr (k : Str)
  | bodyClass
  | ns (q : Str)
  | instanceID
  | instanceName
deriving DecidableEq, Repr, Inhabited

/-- what an XML parser reads at a location of the header (presence flags: `some []` / `none`) -/
def Header.read (h : Header) : Loc → Option Str
  | .title => some h.title
  | .rootName => some h.rootName
  | .rootAttr k => aget k h.rootAttrs
  | .hasSubmission => if h.submission.isSome then some [] else none
  | .subAttr k => match h.submission with | some l => aget k l | none => none
  | .bodyClass => h.bodyClass
  | .ns q => aget q h.nsmap
  | .instanceID => if h.instanceID then some [] else none
  | .instanceName => h.instanceName

namespace Spec

abbrev Sigma := Str → Option SVal

/-- a text-valued setting (`""` when absent or not a text) -/
def txt : Option SVal → Str
  | some (.s v) => v
  | _ => []

/-- an optional text-valued setting: absent when empty -/
def opt : Option SVal → Option Str
  | some (.s (c :: cs)) => some (c :: cs)
  | _ => none

def idString (σ : Sigma) (a : Args) : Str :=
  match σ (S "id_string") with
  | some x => txt (some x)
  | none => a.fallback.getD (S "data")

def title (σ : Sigma) (a : Args) : Str :=
  match σ (S "title") with
  | some x => txt (some x)
  | none => idString σ a

def rootName (σ : Sigma) (a : Args) : Str :=
  match σ (S "name") with
  | some x => txt (some x)
  | none => a.formName.getD (S "data")

def attrs (σ : Sigma) : List (Str × Str) :=
  match σ (S "attribute") with
  | some (.d kv) => kv
  | _ => []

/-- `id`, `xmlns`, `version`, `odk:prefix`, `odk:delimiter` come from their own settings and win
    over an `attribute::` column of the same name -/
def rootAttr (σ : Sigma) (a : Args) (k : Str) : Option Str :=
  if k = S "odk:delimiter" ∧ (opt (σ (S "delimiter"))).isSome then opt (σ (S "delimiter"))
  else if k = S "odk:prefix" ∧ (opt (σ (S "prefix"))).isSome then opt (σ (S "prefix"))
  else if k = S "version" ∧ (txt (σ (S "version"))).isEmpty = false then some (txt (σ (S "version")))
  else if k = S "xmlns" ∧ (opt (σ (S "instance_xmlns"))).isSome then opt (σ (S "instance_xmlns"))
  else if k = S "id" then some (idString σ a)
  else agetLast k (attrs σ)

def hasSubmission (σ : Sigma) : Bool :=
  (opt (σ (S "submission_url"))).isSome || (opt (σ (S "public_key"))).isSome ||
  (opt (σ (S "auto_send"))).isSome || (opt (σ (S "auto_delete"))).isSome

def subAttr (σ : Sigma) (k : Str) : Option Str :=
  if k = S "orx:auto-delete" ∧ (opt (σ (S "auto_delete"))).isSome then opt (σ (S "auto_delete"))
  else if k = S "orx:auto-send" ∧ (opt (σ (S "auto_send"))).isSome then opt (σ (S "auto_send"))
  else if k = S "base64RsaPublicKey" ∧ (opt (σ (S "public_key"))).isSome then opt (σ (S "public_key"))
  else if k = S "method" ∧ (opt (σ (S "submission_url"))).isSome then some (S "post")
  else if k = S "action" ∧ (opt (σ (S "submission_url"))).isSome then opt (σ (S "submission_url"))
  else none

/-- the declarations a `namespaces` cell asks for -/
def declared (ns : Str) : List (Str × Str) :=
  (nsList ns).map fun kv => (S "xmlns:" ++ kv.1, dropQuotes kv.2)

def ns (σ : Sigma) (q : Str) : Option Str :=
  match aget q nsmapBase with
  | some v => some v
  | none =>
    match opt (σ (S "namespaces")) with
    | some s => agetLast q (declared s)
    | none => none

def omitId (σ : Sigma) : Bool :=
  match σ (S "omit_instanceID") with
  | some (.s v) => Pyxv.Rows.yesNoTrue v
  | _ => false

def instanceName (σ : Sigma) : Option Str :=
  match σ (S "instance_name") with
  | some (.s v) => some (bindConv v)
  | some (.d _) => some []
  | none => none

/-- the value every header location must have -/
def want (σ : Sigma) (a : Args) : Loc → Option Str
  | .title => some (title σ a)
  | .rootName => some (rootName σ a)
  | .rootAttr k => rootAttr σ a k
  | .hasSubmission => if hasSubmission σ then some [] else none
  | .subAttr k => subAttr σ k
  | .bodyClass => opt (σ (S "style"))
  | .ns q => ns σ q
  | .instanceID => if omitId σ then none else some []
  | .instanceName => instanceName σ

/-- the documented rejections that depend on the settings alone -/
def rejects (σ : Sigma) (a : Args) : Option Err :=
  if omitId σ && truthy (σ (S "public_key")) then some .omitWithKey
  else if idString σ a = S "None" then some .emptyId
  else if !Pyxv.Rows.isXmlTag (rootName σ a) then some (.badName (rootName σ a))
  else none

/-- the settings a location may depend on (everything else must not move it) -/
def deps : Loc → List String
  | .title => ["title", "id_string"]
  | .rootName => ["name"]
  | .rootAttr _ => ["attribute", "id_string", "instance_xmlns", "version", "prefix", "delimiter"]
  | .hasSubmission => ["submission_url", "public_key", "auto_send", "auto_delete"]
  | .subAttr _ => ["submission_url", "public_key", "auto_send", "auto_delete"]
  | .bodyClass => ["style"]
  | .ns _ => ["namespaces"]
  | .instanceID => ["omit_instanceID"]
  | .instanceName => ["instance_name"]

/-- attribute names at which `rootAttr` can be defined -/
def rootAttrKeys (σ : Sigma) : List Str :=
  [S "id", S "xmlns", S "version", S "odk:prefix", S "odk:delimiter"] ++ (attrs σ).map (·.1)

def subAttrKeys : List Str :=
  [S "action", S "method", S "base64RsaPublicKey", S "orx:auto-send", S "orx:auto-delete"]

def nsKeys (σ : Sigma) : List Str :=
  nsmapBase.map (·.1) ++ (match opt (σ (S "namespaces")) with | some s => (declared s).map (·.1) | none => [])

end Spec
end Pyxv.Settings
