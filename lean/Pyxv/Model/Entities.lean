import Pyxv.Model.Rows
import Pyxv.Generated.Tables
/-!
# Entities: entities sheet → entity declaration → `meta/entity`, its binds / setvalue; `save_to` cells

The *decision logic* of this mechanism is not hand-written here: `harness/translate_entities.py` reads
the Python AST of the functions below from /repo's working tree on every run and emits it as data
(`Pyxv.Gen.entityDeclBody`, `datasetNameBody`, `savetoBody`, `entityInstanceAttrs`, `entityInstanceKids`,
`entityBindSteps`, `entityNodeTemplates`, …).  This file is the **interpreter** that gives that data its
Python semantics (truthiness, `if … raise` chains, insertion-ordered attribute dicts, f-strings,
`node(tag, ref=…, **attrs)`), plus the hand-written surroundings:

* `entities_parsing.get_entity_declaration` / `get_validated_dataset_name` / `validate_entity_saveto`
  (entities_parsing.py 11-124)  → `runBody` over the generated statement lists;
* `entities_parsing.validate_entities_columns` (127-136) → `extraColumns` (hand-written; the column set is
  `Pyxv.Gen.entityColumns`);
* `EntityDeclaration.xml_instance` (entity_declaration.py 52-77) → `instanceNode`;
* `EntityDeclaration.xml_bindings`, `_get_id_bind_node`, `_get_id_setvalue_node`, `_get_bind_node`
  (79-146) → `bindings`, `mkNode`;
* `xls2json.workbook_to_json`, entities part (xls2json.py 447-470: header dealiasing of the entities sheet
  `sheet_headers.process_header` restricted to colon-free headers → `dealiasHeader`; 819-820: the
  `in_repeat` flag from the begin/end stack and the call of `validate_entity_saveto` before the
  begin-control parse → `walk`; 1415-1417: `entity_features` and the `meta/entity` child → `convert`);
* `Survey.get_nsmap` (survey.py 309-317) and `xml_model` (683-686): entities namespace declaration and
  `entities:entities-version` exactly when `entity_features` is set → `Out.xmlns`, `Out.version`.

`survey.insert_xpaths(expr, context=entity)` (C03's mechanism) is a *parameter* `sub : Str → Str` of the
model: the theorems hold for every substitution function; the driver instantiates it with the replacement
of `${name}` by ` /root/…/name ` (what `_var_repl_function` yields for a context outside any repeat).

Outside the fragment (`Rej.unsupported`): entities headers containing `:`, two entities headers that
dealias to the same column, survey rows without type or name, unbalanced begin/end rows, `begin loop`.
-/
namespace Pyxv.Entities
open Pyxv Pyxv.Gen

abbrev Cells := Rows.Cells

/-- why a form is not converted -/
inductive Rej where
  /-- `PyXFormError(msg)` -/
  | msg (m : Str)
  /-- `PyXFormError` of `validate_entities_columns`, naming the unexpected columns -/
  | columns (extra : List Str)
  /-- a non-PyXFormError exception (`KeyError` for an entities sheet without dataset column, F34) -/
  | internal (what : String)
  | unsupported (what : String)
deriving Repr, DecidableEq

/-- Python truthiness of a `str | None` value -/
def truthy : Option Str → Bool
  | some (_ :: _) => true
  | _ => false

/-- the local variables a translated function reads: `str | None` values by name, sequence lengths by name -/
structure Env where
  val : String → Option Str
  len : String → Nat := fun _ => 0

/-- `str(x)` as an f-string / `str()` renders it -/
def pyStr : Option Str → Str
  | some s => s
  | none => "None".toList

/-- conditions.  `in`, `startswith`, `lower`, `is_xml_tag` are only ever applied to values that are
    strings when the test is reached (`row["type"]`, the dataset cell, a truthy save_to); a `None` is
    read as the empty string here.  `lower()` is ASCII lower-casing: no non-ASCII character lower-cases
    into a string of the letters of the compared literals (checked by the harness over all code points). -/
def evalB (e : Env) : EB → Bool
  | .tt => true
  | .v n => truthy (e.val n)
  | .not a => !evalB e a
  | .and a b => evalB e a && evalB e b
  | .or a b => evalB e a || evalB e b
  | .lenGt n k => decide (e.len n > k)
  | .inStr l n => isInfix l.toList ((e.val n).getD [])
  | .eqLower n l => decide (lowerAscii ((e.val n).getD []) = l.toList)
  | .startsWith n l => startsWith ((e.val n).getD []) l.toList
  | .isXmlTag n => Rows.isXmlTag ((e.val n).getD [])
  | .eqLit n l => decide ((e.val n).getD [] = l.toList)
  | .endsWith n l => endsWith ((e.val n).getD []) l.toList

/-- f-string evaluation; `.sub n` is `survey.insert_xpaths(n, context=self)` (which applies `str()` first) -/
def evalP (e : Env) (sub : Str → Str) : List EP → Str
  | [] => []
  | .lit s :: r => s.toList ++ evalP e sub r
  | .var n :: r => pyStr (e.val n) ++ evalP e sub r
  | .sub n :: r => sub (pyStr (e.val n)) ++ evalP e sub r

/-- an argument expression: a bare variable keeps its value (possibly `None`), anything else is a string -/
def evalArg (e : Env) : List EP → Option Str
  | [.var n] => e.val n
  | ps => some (evalP e id ps)

/-- a validation function: statements in order, the first raising check wins -/
def runBody (e : Env) (call : String → Except Rej Unit) : List EStmt → Except Rej Unit
  | [] => .ok ()
  | .check c m :: r => if evalB e c then .error (.msg (evalP e id m)) else runBody e call r
  | .retIf c :: r => if evalB e c then .ok () else runBody e call r
  | .call f :: r =>
    match call f with
    | .ok () => runBody e call r
    | .error x => .error x

def noCall (f : String) : Except Rej Unit := .error (.unsupported f)

/-! ### entities sheet -/

def entityColumnsL : List Str := Gen.entityColumns.map String.toList

/-- `validate_entities_columns`: keys of the row that are not entity columns, in row order -/
def extraColumns (row : Cells) : List Str := (row.map (·.1)).filter fun k => !entityColumnsL.contains k

def rowEnv (row : Cells) (nrows : Nat) : Env :=
  { val := fun n => lookup n.toList row
    len := fun n => if n = "entities_sheet" then nrows else 0 }

/-- calls inside `get_validated_dataset_name`: `entity[EC.DATASET]` (translated as `getitem:dataset`) raises
    KeyError when the column is absent; the repaired source uses `.get` and has no such call -/
def datasetCall (row : Cells) (f : String) : Except Rej Unit :=
  if f = "getitem:dataset" then
    (match lookup "dataset".toList row with
     | none => .error (.internal "KeyError: dataset")
     | some _ => .ok ())
  else .error (.unsupported f)

/-- `get_validated_dataset_name(entity_row)` -/
def validatedDatasetName (row : Cells) : Except Rej Unit :=
  runBody (rowEnv row 1) (datasetCall row) Gen.datasetNameBody

def declCall (row : Cells) (f : String) : Except Rej Unit :=
  if f = "validate_entities_columns" then
    (match extraColumns row with
     | [] => .ok ()
     | x :: xs => .error (.columns (x :: xs)))
  else if f = "get_validated_dataset_name" then validatedDatasetName row
  else .error (.unsupported f)

/-- the `parameters` dict of the declaration -/
abbrev Params := List (String × Option Str)

/-- the returned `parameters` dict: key ↦ `entity_row.get(column, None)` -/
def declParams (row : Cells) : Params := Gen.entityDeclParams.map fun p => (p.1, lookup p.2.toList row)

/-- `get_entity_declaration(entities_sheet)` for a non-empty sheet `row :: rest` -/
def getEntityDeclaration (row : Cells) (rest : List Cells) : Except Rej Params :=
  match runBody (rowEnv row (rest.length + 1)) (declCall row) Gen.entityDeclBody with
  | .error e => .error e
  | .ok () => .ok (declParams row)

/-- `parameters.get(k, …)` -/
def paramEnv (ps : Params) : Env := { val := fun n => (ps.lookup n).bind id }

/-! ### header dealiasing of the entities sheet (`process_header`, colon-free headers) -/

/-- Python `s.split()` -/
def splitWsGo : Str → Str → List Str
  | cur, [] => if cur.isEmpty then [] else [cur.reverse]
  | cur, c :: r =>
    if pyIsSpace c then (if cur.isEmpty then splitWsGo [] r else cur.reverse :: splitWsGo [] r)
    else splitWsGo (c :: cur) r

def splitWs (s : Str) : List Str := splitWsGo [] s

/-- `to_snake_case` (ASCII) -/
def snake (h : Str) : Str := lowerAscii (joinWith ['_'] (splitWs h))

def entityHeaderColumns : List Str := (Gen.entityFields ++ Gen.entityColumns).map String.toList
def entityAliases : List (Str × Str) := Rows.gtab Gen.aliasEntitiesHeader

def dealiasHeader (h : Str) : Except Rej Str :=
  if entityHeaderColumns.contains h && (lookup h entityAliases).isNone then .ok h
  else
    let n := snake h
    if entityHeaderColumns.contains n && (lookup n entityAliases).isNone then .ok n
    else if h.contains ':' then .error (.unsupported "entities header with colon")
    else
      let n := snake (strip h)
      match lookup n entityAliases with
      | some a => .ok a
      | none => if entityHeaderColumns.contains n then .ok n else .ok (strip h)

def dealiasRow : Cells → Except Rej Cells
  | [] => .ok []
  | (k, v) :: r =>
    match dealiasHeader k, dealiasRow r with
    | .ok k', .ok r' =>
      if r'.any (fun p => p.1 = k') then .error (.unsupported "duplicate entities header") else .ok ((k', v) :: r')
    | .error e, _ => .error e
    | _, .error e => .error e

def dealiasRows : List Cells → Except Rej (List Cells)
  | [] => .ok []
  | r :: rs =>
    match dealiasRow r, dealiasRows rs with
    | .ok r', .ok rs' => .ok (r' :: rs')
    | .error e, _ => .error e
    | _, .error e => .error e

/-! ### output nodes -/

structure XNode where
  tag : String
  attrs : List (String × Str)
  kids : List String := []
deriving Repr, DecidableEq

/-- attributes are observed as a set: the model reports them sorted by name (insertion sort), so that a
    reordering of dict literals / keyword arguments in the source moves nothing the theorems talk about -/
def insAttr (p : String × Str) : List (String × Str) → List (String × Str)
  | [] => [p]
  | q :: r => if p.1 < q.1 then p :: q :: r else q :: insAttr p r

def sortAttrs : List (String × Str) → List (String × Str)
  | [] => []
  | p :: r => insAttr p (sortAttrs r)

/-- Python `d[k] = v` on an insertion-ordered dict -/
def dictSet (d : List (String × Str)) (k : String) (v : Str) : List (String × Str) :=
  if d.any (fun p => p.1 = k) then d.map (fun p => if p.1 = k then (k, v) else p) else d ++ [(k, v)]

def buildAttrs (e : Env) (sub : Str → Str) : List (String × Str) → List (EB × String × List EP) → List (String × Str)
  | d, [] => d
  | d, (g, k, v) :: r => buildAttrs e sub (if evalB e g then dictSet d k (evalP e sub v) else d) r

/-- `EntityDeclaration.xml_instance`, `e` = the `parameters` dict -/
def instanceNodeE (e : Env) : XNode :=
  { tag := Gen.entityInstanceTag
    attrs := sortAttrs (buildAttrs e id [] Gen.entityInstanceAttrs)
    kids := (Gen.entityInstanceKids.filter fun p => evalB e p.1).map (·.2) }

def instanceNode (ps : Params) : XNode := instanceNodeE (paramEnv ps)

/-- one of the `_get_*_node` helpers: `node(tag, refAttr=self.get_xpath() + suffix, **attrs)` -/
def mkNode (xpath : Str) (sub : Str → Str) (t : ENodeT) (expr : Option Str) (dest : Str) : XNode :=
  let e : Env := { val := fun n => if n = "expression" then expr else if n = "destination" then some dest else none }
  { tag := t.tag, attrs := sortAttrs ((t.refAttr, xpath ++ evalP e sub t.refSuffix) :: buildAttrs e sub [] t.attrs) }

def bindingsGo (xpath : Str) (sub : Str → Str) (e : Env) : List (EB × ECall) → Except Rej (List XNode)
  | [] => .ok []
  | (g, c) :: r =>
    if evalB e g then
      match Gen.entityNodeTemplates.lookup c.fn with
      | none => .error (.unsupported c.fn)
      | some t =>
        match bindingsGo xpath sub e r with
        | .ok ns => .ok (mkNode xpath sub t (evalArg e c.expr) c.dest.toList :: ns)
        | .error x => .error x
    else bindingsGo xpath sub e r

/-- `EntityDeclaration.xml_bindings(survey)` -/
def bindings (xpath : Str) (sub : Str → Str) (ps : Params) : Except Rej (List XNode) :=
  bindingsGo xpath sub (paramEnv ps) Gen.entityBindSteps

/-! ### survey rows: the `save_to` cells -/

/-- canonical cell key of the save_to column (`aliases.survey_header["save_to"]`, tokens joined by `::`) -/
def savetoKey : Str := joinWith "::".toList (Gen.savetoHeader.2.map String.toList)

structure Frame where
  ct : Str
  name : Str
deriving Repr, DecidableEq

def inRepeat (st : List Frame) : Bool := st.any fun f => f.ct = "repeat".toList

def flag (b : Bool) : Option Str := if b then some ['1'] else none

/-- the variables `validate_entity_saveto(row, row_number, in_repeat, entity_declaration)` reads -/
def savetoEnv (decl : Bool) (n : Nat) (st : List Frame) (r : Cells) (t : Str) : Env :=
  { val := fun k =>
      if k = "entities:saveto" then lookup savetoKey r
      else if k = "type" then some t
      else if k = "in_repeat" then flag (inRepeat st)
      else if k = "entity_declaration" then flag decl
      else if k = "row_number" then some (Rows.natToStr n)
      -- not read by the pinned source; provided so that the candidate repair of F25 (fixes/F25.diff: the caller
      -- passes `is_section=begin_control_parse is not None`) is interpreted faithfully as well
      else if k = "is_section" then flag (Rows.matchControl "begin" true t).isSome
      else none }

def auditType : Str := "audit".toList

def pathOf (root : Str) (st : List Frame) (name : Str) : Str :=
  Form.xpathStr (root :: (st.reverse.map (·.name)) ++ [name])

/-- the survey row loop as far as entities are concerned (xls2json.py 772-830): `end` rows pop the stack
    before anything is validated (a save_to cell on an `end` row is never looked at), every other row is
    validated by `validate_entity_saveto` *before* it is parsed as a begin-control row; returns
    `(xpath, save_to)` of every question row with a truthy save_to, in sheet order -/
def walk (decl : Bool) (root : Str) : Nat → List Frame → List Cells → Except Rej (List (Str × Str))
  | _, [], [] => .ok []
  | _, _ :: _, [] => .error (.unsupported "unmatched begin")
  | n, st, r :: rs =>
    match Rows.get r "type" with
    | none => .error (.unsupported "row without type")
    | some t =>
      match Rows.matchControl "end" false t with
      | some c =>
        (match st with
         | [] => .error (.unsupported "unmatched end")
         | f :: st' => if f.ct = c then walk decl root (n + 1) st' rs else .error (.unsupported "mismatched end"))
      | none =>
        -- `audit` rows go to the meta block and `continue` before any validation (xls2json.py 700-760)
        if t = auditType then walk decl root (n + 1) st rs else
        match Rows.get r "name" with
        | none => .error (.unsupported "row without name")
        | some name =>
          match runBody (savetoEnv decl n st r t) noCall Gen.savetoBody with
          | .error e => .error e
          | .ok () =>
            match Rows.matchControl "begin" true t with
            | some c =>
              if c = "loop".toList then .error (.unsupported "loop")
              else walk decl root (n + 1) ({ ct := c, name } :: st) rs
            | none =>
              match walk decl root (n + 1) st rs with
              | .error e => .error e
              | .ok out =>
                (match lookup savetoKey r with
                 | some (a :: s) => .ok ((pathOf root st name, a :: s) :: out)
                 | _ => .ok out)

/-! ### the whole mechanism -/

structure Out where
  /-- `meta/entity` -/
  entity : Option XNode
  /-- children of `<model>` produced by `EntityDeclaration.xml_bindings`, in order -/
  nodes : List XNode
  /-- `(nodeset, value)` of every `entities:saveto` bind attribute -/
  saveto : List (Str × Str)
  /-- `(attribute, value)` on `<model>` -/
  version : Option (String × String)
  /-- `(prefix, uri)` declared on the root element -/
  xmlns : Option (Str × Str)
  /-- names of the children of the generated `meta` group, in order (`[]`: no meta element) -/
  metaKids : List Str := []
deriving Repr, DecidableEq

/-! ### `Survey.get_nsmap` (survey.py 318-342) -/

/-- `v.replace('"', "").replace("'", "")` -/
def stripQuotes (v : Str) : Str := v.filter fun c => c != '"' && c != '\''

/-- `[ns.split("=") for ns in s.split() if len(ns.split("=")) == 2 and ns.split("=")[0] != ""]` -/
def nsToken (tok : Str) : Option (Str × Str) :=
  match splitOnChar '=' tok with
  | [k, v] => if k.isEmpty then none else some (k, v)
  | _ => none

def nsTokens (s : Str) : List (Str × Str) := (splitWs s).filterMap nsToken

/-- Python `d[k] = v` on an insertion-ordered dict with `Str` keys -/
def dictSetS (d : List (Str × Str)) (k v : Str) : List (Str × Str) :=
  if d.any (fun p => p.1 = k) then d.map (fun p => if p.1 = k then (k, v) else p) else d ++ [(k, v)]

/-- `f"xmlns:{k}" in NSMAP` -/
def inBaseNs (k : Str) : Bool := Gen.nsmap.any fun p => p.1.toList = "xmlns:".toList ++ k

def nsStep (d : List (Str × Str)) (kv : Str × Str) : List (Str × Str) :=
  if inBaseNs kv.1 then d else dictSetS d kv.1 (stripQuotes kv.2)

/-- the string `get_nsmap` splits: the settings value, with the entities declaration appended when
    `entity_features` is set -/
def nsString (namespaces : Option Str) (features : Bool) : Str :=
  if features then
    (match namespaces with
     | none => Gen.entitiesNsDecl.toList
     | some n => n ++ Gen.entitiesNsDecl.toList)
  else namespaces.getD []

/-- the `(prefix, uri)` declarations `get_nsmap` adds to `NSMAP`, in document order (a falsy string adds none,
    as does the empty token list) -/
def nsExtra (namespaces : Option Str) (features : Bool) : List (Str × Str) :=
  (nsTokens (nsString namespaces features)).foldl nsStep []

def entitiesPrefix : Str := "entities".toList

/-- what the settings `namespaces` cell alone declares for the prefix `entities` (last declaration wins) -/
def userEntitiesNs (namespaces : Option Str) : Option (Str × Str) :=
  (lookup entitiesPrefix (nsExtra namespaces false)).map fun u => (entitiesPrefix, u)

def entityName : Str := ((Gen.entityDeclTop.lookup "name").getD "").toList

/-- children of the generated `meta` group (xls2json.py 1404-1430): `meta_children` collects the audit row during
    the row loop, then `instanceID` (unless `omit_instanceID` is a yes-value), `instanceName` (if the setting
    exists), and last the entity declaration — `Rows.metaKids` is C04's model of the first three -/
def metaChildren (settings : Cells) (survey : List Cells) (hasEntity : Bool) : List Str :=
  (Rows.metaKids survey settings).map (·.name) ++ (if hasEntity then [entityName] else [])

/-- `workbook_to_json` + `Survey.xml`: entities sheet first, then the survey rows (rows numbered from 2),
    then the declaration's nodes.  `entities` are the data rows of the entities sheet after header dealiasing;
    `settings` is the settings row (cells `namespaces`, `omit_instanceID`, `instance_name` matter here). -/
def convert (root : Str) (sub : Str → Str) (settings : Cells) (entities : List Cells) (survey : List Cells) :
    Except Rej Out :=
  let namespaces := Rows.get settings "namespaces"
  match entities with
  | [] =>
    (match walk false root 2 [] survey with
     | .error e => .error e
     | .ok sv => .ok { entity := none, nodes := [], saveto := sv, version := none
                       xmlns := userEntitiesNs namespaces, metaKids := metaChildren settings survey false })
  | row :: rest =>
    match getEntityDeclaration row rest with
    | .error e => .error e
    | .ok ps =>
      match walk true root 2 [] survey with
      | .error e => .error e
      | .ok sv =>
        match bindings (Form.xpathStr [root, "meta".toList, entityName]) sub ps with
        | .error e => .error e
        | .ok ns =>
          let feats := !Gen.entityFeatures.isEmpty
          .ok { entity := some (instanceNode ps), nodes := ns, saveto := sv
                version := if feats then some (Gen.entitiesVersionAttr, Gen.entitiesOfflineVersion) else none
                xmlns := (lookup entitiesPrefix (nsExtra namespaces feats)).map fun u => (entitiesPrefix, u)
                metaKids := metaChildren settings survey true }

/-- the other namespace declarations on the root element (settings `namespaces`), for the correspondence run -/
def customNs (namespaces : Option Str) (hasEntity : Bool) : List (Str × Str) :=
  (nsExtra namespaces (hasEntity && !Gen.entityFeatures.isEmpty)).filter fun p => p.1 ≠ entitiesPrefix

/-! ### the driver's substitution: `${name}` ↦ ` /root/…/name ` for a context outside every repeat -/

/-- xpaths of every named row, first occurrence wins -/
def namePaths (root : Str) : List Frame → List Cells → List (Str × Str)
  | _, [] => []
  | st, r :: rs =>
    match Rows.get r "type", Rows.get r "name" with
    | some t, some name =>
      (match Rows.matchControl "end" false t with
       | some _ => namePaths root (st.drop 1) rs
       | none =>
         match Rows.matchControl "begin" true t with
         | some c => (name, pathOf root st name) :: namePaths root ({ ct := c, name } :: st) rs
         | none => (name, pathOf root st name) :: namePaths root st rs)
    | some t, none =>
      (match Rows.matchControl "end" false t with
       | some _ => namePaths root (st.drop 1) rs
       | none => namePaths root st rs)
    | _, _ => namePaths root st rs

/-- replace every `${name}` whose name is in `m` by `" " ++ path ++ " "` (fuel = length) -/
def substRefs (m : List (Str × Str)) : Nat → Str → Str
  | 0, s => s
  | _, [] => []
  | f + 1, '$' :: '{' :: r =>
    let nm := r.takeWhile (· ≠ '}')
    match r.dropWhile (· ≠ '}'), lookup nm m with
    | '}' :: tail, some p => ' ' :: p ++ ' ' :: substRefs m f tail
    | _, _ => '$' :: substRefs m f ('{' :: r)
  | f + 1, c :: r => c :: substRefs m f r

end Pyxv.Entities
