import Lean.Data.Json
import Pyxv.Model.OpsToJson
import Pyxv.Model.FromJsonChoices
import Pyxv.Model.FromJsonSelects
/-! Driver operation for the builder model with survey-level `choices`. -/
namespace Pyxv.ToJson
open Lean Pyxv Pyxv.JV

def opsFromJsonChoices (op : String) (j : Json) : Option (Except String Json) :=
  match op with
  | "tojson.reload_tree_choices" => some do
      -- the builder model (with survey-level choices) on a dumped dict, then the dump of what it built;
      -- `names`: the named parameters of `Option.__init__` of the source under test
      let d ← ofWire (← j.getObjVal? "d")
      let names ← (← (← j.getObjVal? "names").getArr?).toList.mapM fun x => do pure (← x.getStr?).toList
      match fromJsonC genCfg names 200 d with
      | none => pure (Json.mkObj [("ok", false)])
      | some e => pure (Json.mkObj [("ok", true), ("dump", toWire (toJson e []))])
  | "tojson.reload_tree_selects" => some do
      -- the builder model with the choices context (selects that carry their options)
      let d ← ofWire (← j.getObjVal? "d")
      let names ← (← (← j.getObjVal? "names").getArr?).toList.mapM fun x => do pure (← x.getStr?).toList
      match fromJsonS genCfg names 200 [] d with
      | none => pure (Json.mkObj [("ok", false)])
      | some e => pure (Json.mkObj [("ok", true), ("dump", toWire (toJson e []))])
  | _ => none

end Pyxv.ToJson
