import Pyxv.Model.FormFlat
/-!
# Code-shaped primary instance of a tree with flat groups

The three mutually recursive walks of section.py as they are now:
* `Section.xml_instance(append_template)` (124-154): a flat child is replaced by `child.xml_instance_array()`; a repeat
  met with `append_template = False` gets its `generate_repeating_template` inserted before it and switches the flag on
  for its own subtree;
* `Section.xml_instance_array` (170-181): flat children recursively spliced, every other child rendered with
  `child.xml_instance(survey)` — `append_template` **False**, and no template even if the child is a repeat;
* `generate_repeating_template` / `template_instance` (156-168): `flat` is **ignored** (the group's node is kept).

The last two are the two halves of the open finding C02-flat-group-in-repeat; `Pyxv.C02.instKidsF_eq_lift` proves that
under the guard `safeL` (no flat group inside a repeat, no repeat inside a flat group) the walk equals
`Form.instKids` of the lifted tree.
-/
namespace Pyxv.FormFlat
open Pyxv Pyxv.Form Pyxv.Rows

mutual
/-- children of `Section.xml_instance(append_template := app)` -/
def instKidsF (app : Bool) : List FItem → List NT
  | [] => []
  | .q d :: rest => (if d.node then [NT.node d.name false []] else []) ++ instKidsF app rest
  | .sec ct n _ fl ks :: rest =>
    if fl then arrF ks ++ instKidsF app rest
    else if ct = .rep then
      (if app then NT.node n false (instKidsF true ks) :: instKidsF true rest
       else NT.node n true (tmplKidsF ks) :: NT.node n false (instKidsF true ks) :: instKidsF false rest)
    else NT.node n false (instKidsF app ks) :: instKidsF app rest
/-- `Section.xml_instance_array` -/
def arrF : List FItem → List NT
  | [] => []
  | .q d :: rest => (if d.node then [NT.node d.name false []] else []) ++ arrF rest
  | .sec _ n _ fl ks :: rest =>
    if fl then arrF ks ++ arrF rest else NT.node n false (instKidsF false ks) :: arrF rest
/-- children of `generate_repeating_template` -/
def tmplKidsF : List FItem → List NT
  | [] => []
  | .q d :: rest => (if d.node then [NT.node d.name false []] else []) ++ tmplKidsF rest
  | .sec ct n _ _ ks :: rest =>
    if ct = .rep then NT.node n true (tmplKidsF ks) :: tmplKidsF rest
    else NT.node n false (instKidsF false ks) :: tmplKidsF rest
end

/-- the primary instance, walked as the code walks it -/
def instanceOfF (root : Str) (kids : List FItem) : NT := NT.node root false (instKidsF false kids)

/-- what the driver reports for `flat.model`: everything walked the way the code walks it -/
def walkOut (root : Str) (rows : List Cells) (settings : Cells) (o : FlatOut) : FlatOut :=
  { shapeOut root rows settings o with inst := instanceOfF root (withMetaF (rows.map dropFlat) settings o.items) }

open Lean in
def flatModelW (root : Str) (lists : List Str) (rows : List Cells) (settings : Cells) : Json :=
  let pj (ps : List (List Str)) : Json := Json.arr (ps.map fun p => jstr (xpathStr p)).toArray
  match formOutFlat root lists rows settings with
  | .error (.unsupported w) => Json.mkObj [("outcome", "unsupported"), ("why", Json.str w)]
  | .error (.err e) => Json.mkObj [("outcome", "error"), ("err", Json.str (reprStr e))]
  | .error (.unknownType n) => Json.mkObj [("outcome", "error"), ("err", Json.str s!"unknownType {n}")]
  | .ok o0 =>
    let o := walkOut root rows settings o0
    Json.mkObj [("outcome", "ok"), ("instance", ntJ o.inst), ("binds", pj o.binds), ("body", pj o.body),
      ("closed", Json.bool ((o.binds ++ o.body).all (resolves o.inst)))]

/-- the instance walk alone, **without** the flat×repeat guard (the walks are code-shaped there too: this is where the
    open finding C02-flat-group-in-repeat lives); `none` when the rows are outside the row model or do not nest -/
def walkUnguarded (root : Str) (lists : List Str) (rows : List Cells) (settings : Cells) : Option NT :=
  let rows' := rows.map dropFlat
  match classifyAll lists 2 rows' with
  | .error _ => none
  | .ok ks =>
    let fks := flagRows rows ks
    if strayFlat fks then none else
    match fparse fks with
    | .error _ => none
    | .ok items => some (instanceOfF root (withMetaF rows' settings items))

open Lean in
def opsFlatW (op : String) (j : Json) : Option (Except String Json) :=
  match op with
  | "flat.model" => some do
      let rows ← (← getArr j "rows").toList.mapM pairList
      let lists ← getStrList j "lists"
      let settings ← pairList (← j.getObjVal? "settings")
      pure (flatModelW (getStrD j "root" "data") lists rows settings)
  | "flat.walk" => some do
      let rows ← (← getArr j "rows").toList.mapM pairList
      let lists ← getStrList j "lists"
      let settings ← pairList (← j.getObjVal? "settings")
      pure (match walkUnguarded (getStrD j "root" "data") lists rows settings with
        | some t => Json.mkObj [("outcome", "ok"), ("instance", ntJ t)]
        | none => Json.mkObj [("outcome", "unsupported")])
  | _ => none

end Pyxv.FormFlat
