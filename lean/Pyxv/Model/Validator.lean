import Pyxv.Model.Base
import Pyxv.Generated.Tables
/-!
# C18 — the validator / clean-up state machine and the error cleaner

A model of (pinned lines of /repo):

* `pyxform/validators/error_cleaner.py:1-74`  `ErrorCleaner.odk_validate` and its helpers, on `List Char`;
* `pyxform/validators/odk_validate/__init__.py:53-101` `check_java_available`, `check_xform`
  (mapping of the `PopenResult` of `run_popen_with_timeout`, `validators/util.py:38-84`, to warnings / exception);
* `pyxform/survey.py:1261-1328` `print_xform_to_file`, `to_xml` (temp file creation and `finally` unlink);
* `pyxform/xls2xform.py:62-149,196-278` `convert` (only its file-system / exception skeleton: the conversion
  itself is an abstract `Form` outcome), `xls2xform_convert`, `get_xml_path`, `_validator_args_logic`, `main_cli`.

The file system is an association list `Path ↦ content`; the external validator is an `Env` (java missing, or
the `PopenResult` the subprocess call produced).  Literal texts and codes are looked up in `Pyxv.Gen.c18*`
(regenerated from the source), the logic is written here by hand.
-/
namespace Pyxv.Validator

/-! ## literals (dynamic look-ups into the regenerated tables) -/

def lit (l : List String) (i : Nat) : Str := (l.getD i "").toList

def msgTimeout : Str := lit Gen.c18CheckXformStrings 0
def msgErrorsPrefix : Str := lit Gen.c18CheckXformStrings 1
def msgWarningsPrefix : Str := lit Gen.c18CheckXformStrings 2
def msgBadReturn : Str := lit Gen.c18CheckXformStrings 3
def msgJavaMissing : Str := Gen.c18JavaMissingMsg.toList
def codeOk : Nat := Gen.c18CliCodes.getD 0 0
def codeWarn : Nat := Gen.c18CliCodes.getD 1 0
def codeFail : Nat := Gen.c18CliCodes.getD 2 0
def msgOk : Str := lit Gen.c18CliMessages 0
def msgOkWarn : Str := lit Gen.c18CliMessages 1
def itemsetsName : Str := Gen.c18ItemsetsName.toList
def itemsetsLogFmt : Str := Gen.c18ItemsetsLog.toList
def plainLogFor (cls : String) : Str :=
  match Gen.c18PlainHandlers.find? (fun h => h.1 == cls) with
  | some h => h.2.1.toList
  | none => []
def logWarningsHeader : Str := lit Gen.c18PlainWarnLog 0
def logComplete : Str := lit Gen.c18PlainInfoLog 0
def keepPrefixes : List Str := Gen.c18KeepPrefixes.map String.toList
def keepSuffixes : List Str := Gen.c18KeepSuffixes.map String.toList
def noiseMarkers : List Str := Gen.c18NoiseMarkers.map String.toList
def excPrefixes : List Str := Gen.c18ExcPrefixes.map String.toList
def jarfilePhrase : Str := Gen.c18JarfilePhrase.toList

/-! ## ErrorCleaner (error_cleaner.py) -/

/-- a character of the class `[a-z0-9\-_]` under `re.I` (Unicode case folding adds U+0130, U+0131, U+017F, U+212A);
the set is probed on the compiled `ERROR_MESSAGE_REGEX` by the translator. -/
def isSeg (c : Char) : Bool := Gen.c18SegRanges.any (fun r => r.1 ≤ c.toNat && c.toNat ≤ r.2)

/-- Tokens of the scan for `ERROR_MESSAGE_REGEX = (/seg+(?:/seg+)+)`: `unit s` is a `/` followed by the maximal
run `s` of segment characters, `run s` a maximal run of segment characters not preceded by `/`, `ch c` any other
character (including a `/` that is not followed by a segment character). -/
inductive Tok where
  | unit (seg : Str)
  | run (seg : Str)
  | ch (c : Char)
  deriving Repr, DecidableEq

def pushChar (c : Char) (t : List Tok) : List Tok :=
  if isSeg c then
    match t with
    | .run s :: rest => .run (c :: s) :: rest
    | _ => .run [c] :: t
  else if c = '/' then
    match t with
    | .run s :: rest => .unit s :: rest
    | _ => .ch c :: t
  else .ch c :: t

/-- tokenisation (a right fold: what follows a character decides its role, exactly as the greedy regex does) -/
def toks : Str → List Tok
  | [] => []
  | c :: cs => pushChar c (toks cs)

/-- the text of a chain of units: `/s1/s2/…` -/
def chainText : List Str → Str
  | [] => []
  | s :: rest => '/' :: s ++ chainText rest

/-- `ErrorCleaner._replace_xpath_with_tokens` (error_cleaner.py:13-24) on the matched text of a chain. -/
def keepMatch (m : Str) : Bool :=
  keepPrefixes.any (fun p => startsWith m p) || keepSuffixes.any (fun p => endsWith m p)

def replacement (chain : List Str) : Str :=
  let m := chainText chain
  if keepMatch m then m else '$' :: '{' :: (chain.getLastD []) ++ ['}']

/-- a maximal chain of units is a regex match iff it has at least two units -/
def flush (chain : List Str) : Str :=
  match chain with
  | _ :: _ :: _ => replacement chain
  | _ => chainText chain

structure Acc where
  chain : List Str
  out : Str

def stepTok : Tok → Acc → Acc
  | .unit s, a => ⟨s :: a.chain, a.out⟩
  | .run s, a => ⟨[], s ++ (flush a.chain ++ a.out)⟩
  | .ch c, a => ⟨[], c :: (flush a.chain ++ a.out)⟩

def renderToks (ts : List Tok) : Str :=
  let a := ts.foldr stepTok ⟨[], []⟩
  flush a.chain ++ a.out

/-- `ERROR_MESSAGE_REGEX.sub(_replace_xpath_with_tokens, msg)` (error_cleaner.py:27-31) -/
def subPaths (s : Str) : Str := renderToks (toks s)

/-- Python `str.splitlines()` line boundaries. -/
def isLineBreak (c : Char) : Bool :=
  let n := c.toNat
  n == 0x0A || n == 0x0D || n == 0x0B || n == 0x0C || n == 0x1C || n == 0x1D || n == 0x1E ||
  n == 0x85 || n == 0x2028 || n == 0x2029

/-- Python `str.splitlines()` (keepends=False): `\r\n` is one boundary; no empty last line. -/
def splitlines : Str → List Str
  | [] => []
  | '\r' :: '\n' :: r2 => [] :: splitlines r2
  | c :: rest =>
    if isLineBreak c then [] :: splitlines rest
    else
      match splitlines rest with
      | [] => [[c]]
      | l :: ls => (c :: l) :: ls

/-- `no_dupes` of `_cleanup_errors` (error_cleaner.py:33-36): a line equal to its predecessor is dropped. -/
def dedupAdj : List Str → List Str
  | [] => []
  | [x] => [x]
  | x :: y :: rest => if x = y then dedupAdj (y :: rest) else x :: dedupAdj (y :: rest)

/-- `ErrorCleaner._cleanup_errors` -/
def cleanupErrors (msg : Str) : List Str := dedupAdj (splitlines (strip (subPaths msg)))

/-- Python `s.replace(p, "")` for non-empty `p` (all non-overlapping occurrences, left to right);
`skip` counts the characters of an occurrence still to be dropped. -/
def removeAllGo (p : Str) : Nat → Str → Str
  | _, [] => []
  | skip + 1, _ :: cs => removeAllGo p skip cs
  | 0, c :: cs => if startsWith (c :: cs) p then removeAllGo p (p.length - 1) cs else c :: removeAllGo p 0 cs

def removeAll (p s : Str) : Str := removeAllGo p 0 s

def isNoisy (line : Str) : Bool := noiseMarkers.any (fun m => isInfix m line)

/-- the four sequential `if line.startswith(p): line = line.replace(p, "")` (error_cleaner.py:46-58) -/
def stripExc (line : Str) : Str :=
  excPrefixes.foldl (fun l p => if startsWith l p then removeAll p l else l) line

/-- `ErrorCleaner._remove_java_content`: `None` for a line with a java file name or a `\tat` frame; the test
is repeated after the exception names were deleted (the deletion can assemble a marker). -/
def removeJava (line : Str) : Option Str :=
  if isNoisy line then none
  else if isNoisy (stripExc line) then none
  else some (stripExc line)

def cleanLines (msg : Str) : List Str := (cleanupErrors msg).filterMap removeJava

/-- `ErrorCleaner.odk_validate` (error_cleaner.py:62-69) -/
def odkValidate (msg : Str) : Str :=
  if isInfix jarfilePhrase msg then msg else joinWith ['\n'] (cleanLines msg)

/-! ## check_xform (odk_validate/__init__.py:53-101) -/

/-- `PopenResult` of `run_popen_with_timeout`: return code (negative = killed by that signal), whether the
watchdog fired, decoded stderr. -/
structure Popen where
  rc : Int
  timeout : Bool
  stderr : Str
  deriving Repr, DecidableEq

inductive Env where
  | javaAbsent              -- `shutil.which("java")` is None
  | ran (r : Popen)
  deriving Repr, DecidableEq

inductive Exc where
  | osError (msg : Str)       -- OSError (java missing)
  | odkValidate (msg : Str)   -- ODKValidateError
  | pyxform (msg : Str)       -- PyXFormError (conversion error)
  | encode (msg : Str)        -- UnicodeEncodeError while writing the XForm text
  deriving Repr, DecidableEq

def Exc.cls : Exc → String
  | .osError _ => "OSError"
  | .odkValidate _ => "ODKValidateError"
  | .pyxform _ => "PyXFormError"
  | .encode _ => "UnicodeEncodeError"

def Exc.msg : Exc → Str
  | .osError m | .odkValidate m | .pyxform m | .encode m => m

def checkXform : Env → Except Exc (List Str)
  | .javaAbsent => .error (.osError msgJavaMissing)
  | .ran r =>
    if r.timeout then .ok [msgTimeout]
    else if r.rc > 0 then .error (.odkValidate (msgErrorsPrefix ++ odkValidate r.stderr))
    else if r.rc = 0 then .ok (if r.stderr ≠ [] then [msgWarningsPrefix ++ r.stderr] else [])
    else .ok [msgBadReturn]

/-! ## file system -/

inductive Path where
  | tmp (n : Nat)              -- a file created by `tempfile.NamedTemporaryFile` in the temp directory
  | file (dir name : Str)
  deriving Repr, DecidableEq

def Path.isTmp : Path → Bool
  | .tmp _ => true
  | .file _ _ => false

abbrev FS := List (Path × Str)

def FS.unlink (fs : FS) (p : Path) : FS := fs.filter (fun e => e.1 ≠ p)
def FS.write (fs : FS) (p : Path) (c : Str) : FS := (p, c) :: FS.unlink fs p
def FS.read (fs : FS) (p : Path) : Option Str := (fs.find? (fun e => e.1 = p)).map (·.2)
def FS.temps (fs : FS) : FS := fs.filter (fun e => e.1.isTmp)
def FS.files (fs : FS) : FS := fs.filter (fun e => !e.1.isTmp)

/-! ## conversion outcome (abstract), to_xml, convert -/

/-- What the conversion proper does, as far as this property can see. -/
inductive Form where
  | early (msg : Str)     -- PyXFormError from workbook_to_json / the builder: before `to_xml` is entered
  | late (msg : Str)      -- PyXFormError while rendering inside `print_xform_to_file` (the temp file exists)
  | unencodable (msg : Str) -- rendering succeeds, writing the text raises (lone surrogate): `except` branch of print_xform_to_file
  | diskFault (msg : Str)   -- rendering succeeds, `open`/`write` of the temp file raises OSError (disk full, file vanished): same branch
  | ok (ugly pretty : Str) (itemsets : Option Str) (preW postW : List Str)
  deriving Repr, DecidableEq

structure XmlOut where
  fs : FS
  seen : List Str                       -- contents the validator was shown
  res : Except Exc (Str × List Str)     -- xml, warnings appended by this call

/-- `Survey.print_xform_to_file` (survey.py:1261-1301) for a path that exists already (the temp file). -/
def printXformToFile (form : Form) (path : Path) (validate pretty : Bool) (env : Env) (fs : FS) : XmlOut :=
  match form with
  | .early m => ⟨fs, [], .error (.pyxform m)⟩       -- not reachable through `convert`
  | .late m => ⟨fs, [], .error (.pyxform m)⟩        -- `_to_pretty_xml` raises before `open`
  | .unencodable m =>
    -- `open(path, "w")` truncates, `write` raises; `except Exception: if exists: unlink; raise`
    ⟨FS.unlink (FS.write fs path []) path, [], .error (.encode m)⟩
  | .diskFault m =>
    -- the same `except Exception` branch with an OSError: whatever was created or partly written is unlinked
    ⟨FS.unlink (FS.write fs path []) path, [], .error (.osError m)⟩
  | .ok ugly prettyX _ _ postW =>
    let xml := if pretty then prettyX else ugly
    let fs1 := FS.write fs path xml
    if validate then
      -- the subprocess is started (and reads the file) only when `java` was found
      let seen := match env with
        | .javaAbsent => []
        | .ran _ => (FS.read fs1 path).toList
      match checkXform env with
      | .error e => ⟨fs1, seen, .error e⟩
      | .ok w => ⟨fs1, seen, .ok (xml, w ++ postW)⟩
    else ⟨fs1, [], .ok (xml, postW)⟩

/-- `Survey.to_xml` (survey.py:1303-1328): `NamedTemporaryFile(delete=False)`, close, `try … finally unlink`. -/
def toXml (form : Form) (t : Nat) (validate pretty : Bool) (env : Env) (fs : FS) : XmlOut :=
  let fs0 := FS.write fs (.tmp t) []
  let r := printXformToFile form (.tmp t) validate pretty env fs0
  { r with fs := FS.unlink r.fs (.tmp t) }

structure ConvertResult where
  xform : Str
  warnings : List Str
  itemsets : Option Str
  deriving Repr, DecidableEq

structure LibOut where
  fs : FS
  seen : List Str
  res : Except Exc ConvertResult

/-- `xls2xform.convert` (xls2xform.py:62-124), file-system / exception skeleton. -/
def convert (form : Form) (t : Nat) (validate pretty : Bool) (env : Env) (fs : FS) : LibOut :=
  match form with
  | .early m => ⟨fs, [], .error (.pyxform m)⟩
  | _ =>
    let r := toXml form t validate pretty env fs
    match r.res with
    | .error e => ⟨r.fs, r.seen, .error e⟩
    | .ok (xml, w) =>
      match form with
      | .ok _ _ items preW _ => ⟨r.fs, r.seen, .ok ⟨xml, preW ++ w, items⟩⟩
      | _ => ⟨r.fs, r.seen, .ok ⟨xml, w, none⟩⟩

/-! ## the command line (xls2xform.py) -/

inductive LogRec where
  | info (m : Str)
  | warning (m : Str)
  | exception (m : Str) (cls : String)     -- logger.exception: level ERROR with exc_info
  deriving Repr, DecidableEq

/-- Python `fmt % arg` for a format with one `%s`. -/
def fmt1 : Str → Str → Str
  | '%' :: 's' :: rest, a => a ++ rest
  | c :: rest, a => c :: fmt1 rest a
  | [], _ => []

def pathStr (dir name : Str) : Str := dir ++ '/' :: name

structure ConvOut where
  fs : FS
  seen : List Str
  logs : List LogRec
  res : Except Exc (List Str)

/-- the files `xls2xform_convert` writes once `convert` has returned: the XForm, then itemsets.csv beside it -/
def written (fs : FS) (outDir outName : Str) (cr : ConvertResult) : FS :=
  match cr.itemsets with
  | none => FS.write fs (.file outDir outName) cr.xform
  | some items => FS.write (FS.write fs (.file outDir outName) cr.xform) (.file outDir itemsetsName) items

def itemsLogs (outDir : Str) (cr : ConvertResult) : List LogRec :=
  match cr.itemsets with
  | none => []
  | some _ => [.info (fmt1 itemsetsLogFmt (pathStr outDir itemsetsName))]

/-- `xls2xform_convert` (xls2xform.py:127-149): outputs are written only after `convert` returned. -/
def xls2xformConvert (form : Form) (t : Nat) (outDir outName : Str) (validate pretty : Bool) (env : Env) (fs : FS) : ConvOut :=
  match (convert form t validate pretty env fs).res with
  | .error e => ⟨(convert form t validate pretty env fs).fs, (convert form t validate pretty env fs).seen, [], .error e⟩
  | .ok cr => ⟨written (convert form t validate pretty env fs).fs outDir outName cr,
               (convert form t validate pretty env fs).seen, itemsLogs outDir cr, .ok cr.warnings⟩

/-- the parsed command line.  `skipValidate` is the *stored* value (argparse `store_false`):
`true` unless `--skip_validate` was given. -/
structure Args where
  json : Bool := false
  skipValidate : Bool := true
  odkValidate : Bool := false
  enketoValidate : Bool := false
  prettyPrint : Bool := false
  deriving Repr, DecidableEq

/-- `_validator_args_logic` (xls2xform.py:196-217) -/
def validatorArgsLogic (a : Args) : Args :=
  if !a.skipValidate then { a with odkValidate := false, enketoValidate := false }
  else if a.skipValidate && !(a.odkValidate || a.enketoValidate) then
    { a with odkValidate := true, enketoValidate := false }
  else a

/-- `os.path.splitext(name)[0]` on a bare file name. -/
def splitextRoot (name : Str) : Str :=
  match name.reverse.span (· ≠ '.') with
  | (_, []) => name
  | (_, _ :: before) => if before.all (· = '.') then name else before.reverse

/-- `get_xml_path` (xls2xform.py:33-40) -/
def getXmlName (inName : Str) : Str := splitextRoot inName ++ ".xml".toList

structure JsonResp where
  code : Nat
  message : Str
  warnings : List Str
  deriving Repr, DecidableEq

structure CliOut where
  fs : FS
  seen : List Str
  logs : List LogRec
  json : Option JsonResp
  raised : Option Exc        -- exception propagating out of main_cli

/-- the output path `main_cli` uses: the one given, else `get_xml_path(input)` -/
def outPathOf (inDir inName : Str) (out : Option (Str × Str)) : Str × Str :=
  match out with
  | some p => p
  | none => (inDir, getXmlName inName)

/-- `main_cli`, `if args.json:` branch (xls2xform.py:231-256): everything is caught and reported as JSON. -/
def jsonReport (r : ConvOut) : CliOut :=
  match r.res with
  | .ok w =>
    let resp : JsonResp := if w ≠ [] then ⟨codeWarn, msgOkWarn, w⟩ else ⟨codeOk, msgOk, w⟩
    ⟨r.fs, r.seen, r.logs, some resp, none⟩
  | .error e => ⟨r.fs, r.seen, r.logs, some ⟨codeFail, e.msg, []⟩, none⟩

/-- `main_cli`, plain branch (xls2xform.py:257-278): OSError and ODKValidateError are logged (the latter after
unlinking the output path), any other exception propagates. -/
def plainReport (r : ConvOut) (outDir outName : Str) : CliOut :=
  match r.res with
  | .error (.osError m) =>
    ⟨r.fs, r.seen, r.logs ++ [.exception (plainLogFor "OSError") (Exc.osError m).cls], none, none⟩
  | .error (.odkValidate m) =>
    ⟨FS.unlink r.fs (.file outDir outName), r.seen,
     r.logs ++ [.exception (plainLogFor "ODKValidateError") (Exc.odkValidate m).cls], none, none⟩
  | .error e => ⟨r.fs, r.seen, r.logs, none, some e⟩
  | .ok w =>
    ⟨r.fs, r.seen,
     r.logs ++ (if w.length > 0 then [.warning logWarningsHeader] else []) ++ w.map .warning ++ [.info logComplete],
     none, none⟩

/-- `main_cli` (xls2xform.py:220-278).  `out = none`: no output path on the command line.
Enketo validation is outside the modelled fragment (`none`). -/
def mainCli (raw : Args) (inDir inName : Str) (out : Option (Str × Str)) (form : Form) (t : Nat) (env : Env) (fs : FS) :
    Option CliOut :=
  let a := validatorArgsLogic raw
  if a.enketoValidate then none else
  let outDir := (outPathOf inDir inName out).1
  let outName := (outPathOf inDir inName out).2
  let r := xls2xformConvert form t outDir outName a.odkValidate a.prettyPrint env fs
  some (if a.json then jsonReport r else plainReport r outDir outName)

end Pyxv.Validator
