import Pyxv.Model.Rows
import Pyxv.Generated.Tables
/-!
# Body-control attributes: type table ⊕ row cells ⊕ parameters

Mirrors, for one survey row,
* `validators/pyxform/parameters_generic.parse` / `validate` (split on `;`, else `,`, else whitespace;
  `k=v`; keys and values lower-cased and stripped, `label` / `value` values only stripped);
* the per-type parameter blocks of `xls2json.workbook_to_json` (xls2json.py 1205-1380): `range`
  (`process_range_question_type`, 172-213), `text` (`rows`), `photo` (`max-pixels` → bind, `app` →
  `control.intent` only when the appearance cell is absent or `annotate`,
  `validators/pyxform/android_package_name.py`), `audio` / `background-audio` (`quality`),
  `geopoint` / `geoshape` / `geotrace` (`capture-accuracy` → `accuracyThreshold`, `warning-accuracy` →
  `unacceptableAccuracyThreshold`, `allow-mock-accuracy` → bind), selects (`randomize`, `seed`: validity
  only — the itemset is C09's);
* `Question.__init__` (question.py 104-126): type-table `control` dict updated by the row's control dict;
* `Question._build_xml` (question.py 211-226): every key but `tag` becomes an attribute;
  `RangeQuestion.build_xml` (585-591): the parameters are set as attributes afterwards;
* `SurveyElement.xml_label_and_hint` (survey_element.py 511-545): a visible question needs a label, media or hint;
* `begin group|repeat` rows (xls2json.py 905-957): `jr:count` redirected to the generated `<name>_count`
  node, the `intent` column copied into the control dict; `GroupedSection.xml_control` (section.py 247-273:
  all control keys + `ref`), `RepeatingSection.xml_control` (section.py 186-220: the control keys go on the
  `repeat`; `xml_label` always returns a node, so the wrapping `group` carries only `ref`).

Python dicts are insertion-ordered association lists (`dset` = `d[k] = v`).  Outside the fragment
(`unsupported`): attribute values containing `${` (reference substitution is C03's), a `control::tag`
cell, non-ASCII parameter cells (`str.lower`), numbers that are not plain literals (`int()` / `float()`
accept more), `guidance_hint`, table-list, audit parameters, everything `Pyxv.Rows` leaves out.
-/
namespace Pyxv.Controls
open Pyxv Pyxv.Form Pyxv.Rows

abbrev Dict := List (Str × Str)

open Lean in
/-- `k!"lit"`: a string literal as an explicit `List Char` literal (`"lit".toList` is expensive to reduce) -/
macro:max "k!" s:str : term => do
  let cs : Array (TSyntax `term) := (s.getString.toList.map fun c => (⟨(Syntax.mkCharLit c).raw⟩ : TSyntax `term)).toArray
  `(([$cs,*] : List Char))

/-- Python `d[k] = v` -/
def dset : Dict → Str → Str → Dict
  | [], k, v => [(k, v)]
  | (k', v') :: rest, k, v => if k = k' then (k, v) :: rest else (k', v') :: dset rest k v

/-- Python `d.update(e)` -/
def dupdate (d e : Dict) : Dict := e.foldl (fun acc kv => dset acc kv.1 kv.2) d

def keysNodupB : Dict → Bool
  | [] => true
  | (k, _) :: rest => !(rest.any fun kv => kv.1 = k) && keysNodupB rest

inductive Fail where
  | err (what : String)
  | unsup (why : String)
deriving Repr

def isAscii (s : Str) : Bool := s.all fun c => c.toNat < 128
def isDigit (c : Char) : Bool := '0' ≤ c && c ≤ '9'

/-! ### `parameters_generic.parse` -/

/-- Python `s.split()` -/
def splitWsGo : Str → Str → List Str
  | [], cur => if cur.isEmpty then [] else [cur.reverse]
  | c :: cs, cur =>
    if pyIsSpace c then (if cur.isEmpty then splitWsGo cs [] else cur.reverse :: splitWsGo cs [])
    else splitWsGo cs (c :: cur)
def splitWs (s : Str) : List Str := splitWsGo s []

/-- one `k=v` part: `k, v = param.split("=")[:2]` -/
def parseOne (p : Str) : Option (Str × Str) :=
  match splitOnChar '=' p with
  | k :: v :: _ =>
    let key := strip (lowerAscii k)
    some (key, if key = (k!"label") || key = (k!"value") then strip v else strip (lowerAscii v))
  | _ => none        -- no `=` in the part

def parseParts (raw : Str) : List Str :=
  let p1 := splitOnChar ';' raw
  let p2 := if p1.length = 1 then splitOnChar ',' raw else p1
  if p2.length = 1 then splitWs raw else p2

def parseFold : List Str → Dict → Option Dict
  | [], acc => some acc
  | p :: ps, acc =>
    match parseOne p with
    | some (k, v) => parseFold ps (dset acc k v)
    | none => none

/-- `parameters_generic.parse`; `none` = "Expecting parameters to be in the form of …" -/
def parseParams (raw : Str) : Option Dict := parseFold (parseParts raw) []

/-! ### number literals (`int()` / `float()` accept more than these: three-valued) -/

def unsigned (s : Str) : Str :=
  match s with
  | '+' :: r => r
  | '-' :: r => r
  | _ => s

def allDigits (s : Str) : Bool := !s.isEmpty && s.all isDigit

/-- surely accepted by `int()` -/
def intLit (s : Str) : Bool := allDigits (unsigned s)

/-- surely accepted by `float()`: `d+`, `d+.d*`, `.d+` with optional sign -/
def floatLit (s : Str) : Bool :=
  let u := unsigned s
  match splitOnChar '.' u with
  | [a] => allDigits a
  | [a, b] => (allDigits a && (b.isEmpty || allDigits b)) || (a.isEmpty && allDigits b)
  | _ => false

/-- surely rejected by `int()` and `float()`: empty, or an ASCII string containing a character that no
    numeric literal contains (letters other than those of `inf`/`nan`/`infinity`/exponent, punctuation) -/
def notNumber (s : Str) : Bool :=
  s.isEmpty || (isAscii s && s.any fun c =>
    !(isDigit c || c == '+' || c == '-' || c == '.' || c == '_' || c == ' ' ||
      (k!"einfatyx").contains c || (9 ≤ c.toNat && c.toNat ≤ 13)))

/-- surely rejected by `int()`: as above, or a plain decimal literal with a point -/
def notInt (s : Str) : Bool := notNumber s || (floatLit s && s.contains '.')

def needInt (v : Str) (what : String) : Except Fail Unit :=
  if intLit v then .ok () else if notInt v then .error (.err what) else .error (.unsup "int() literal")

def needFloat (v : Str) (what : String) : Except Fail Unit :=
  if floatLit v then .ok () else if notNumber v then .error (.err what) else .error (.unsup "float() literal")

/-! ### `validate_android_package_name` -/

def pkgChar (c : Char) : Bool :=
  ('a' ≤ c && c ≤ 'z') || ('A' ≤ c && c ≤ 'Z') || isDigit c || c == '.' || c == '_'

/-- `validate_android_package_name(name) is None` (ASCII names) -/
def packageOk (name : Str) : Bool :=
  let segs := splitOnChar '.' name
  !(strip name).isEmpty && name.contains '.' && name.getLast? != some '.' &&
  segs.all (fun s => !s.isEmpty) &&
  segs.all (fun s => s.head? != some '_') &&
  segs.all (fun s => match s.head? with | some c => !isDigit c | none => true) &&
  segs.all (fun s => s.all pkgChar)

/-! ### per-type parameter blocks -/

def allowed (ps : Dict) (al : List String) : Except Fail Unit :=
  if ps.all (fun kv => al.any fun a => a.toList = kv.1) then .ok ()
  else .error (.err "invalid parameter(s)")

def const (n : String) : Str :=
  match Pyxv.Gen.c04Consts.find? (fun p => p.1 = n) with
  | some (_, v) => v.toList
  | none => []

/-- `aliases._type_alias_map` (`dealias_types`) -/
def dealias (t : Str) : Str :=
  match Pyxv.Gen.typeAliasMap.find? (fun p => p.1.toList = t) with
  | some (_, v) => v.toList
  | none => t

/-- the row's `control` dict as `dealias_and_group_headers` builds it: `control::x` cells, column order -/
def rowCtlCells (r : Cells) : Dict :=
  r.filterMap fun kv => if startsWith kv.1 (k!"control::") then some (kv.1.drop 9, kv.2) else none

def optCheck (o : Option Str) (f : Str → Except Fail Unit) : Except Fail Unit :=
  match o with
  | some v => f v
  | none => .ok ()

def isGeo (t : Str) : Bool := t = (k!"geopoint") || t = (k!"geoshape") || t = (k!"geotrace")

/-- may the `app` parameter become `intent`?  (appearance cell absent or `annotate`) -/
def appApplies (r : Cells) : Bool :=
  match get r "control::appearance" with
  | none => true
  | some a => a = (k!"annotate")

/-- validation part of the parameter block of (dealiased, non-select) type `t` -/
def validateParams (t : Str) (r : Cells) (ps : Dict) : Except Fail Unit :=
  if t = (k!"range") then do
    allowed ps ["start", "end", "step"]
    ps.forM fun kv => needFloat kv.2 "Range parameters must all be numbers"
  else if t = (k!"text") then do
    allowed ps ["rows"]
    optCheck (lookup (k!"rows") ps) fun v => needInt v "Parameter rows must have an integer value"
  else if t = (k!"photo") then do
    allowed ps ["max-pixels", "app"]
    optCheck (lookup (k!"max-pixels") ps) fun v => needInt v "Parameter max-pixels must have an integer value"
    optCheck (lookup (k!"app") ps) fun v =>
      if appApplies r && !packageOk v then .error (.err "invalid Android package name") else .ok ()
  else if t = (k!"audio") then do
    allowed ps ["quality"]
    optCheck (lookup (k!"quality") ps) fun v =>
      if [const "AUDIO_QUALITY_VOICE_ONLY", const "AUDIO_QUALITY_LOW", const "AUDIO_QUALITY_NORMAL",
          const "AUDIO_QUALITY_EXTERNAL"].contains v then .ok () else .error (.err "Invalid value for quality")
  else if t = (k!"background-audio") then do
    allowed ps ["quality"]
    optCheck (lookup (k!"quality") ps) fun v =>
      if [const "AUDIO_QUALITY_VOICE_ONLY", const "AUDIO_QUALITY_LOW", const "AUDIO_QUALITY_NORMAL"].contains v
      then .ok () else .error (.err "Invalid value for quality")
  else if isGeo t then do
    allowed ps (if t = (k!"geopoint") then ["allow-mock-accuracy", "capture-accuracy", "warning-accuracy"]
                else ["allow-mock-accuracy"])
    optCheck (lookup (k!"allow-mock-accuracy") ps) fun v =>
      if v = (k!"true") || v = (k!"false") then .ok () else .error (.err "Invalid value for allow-mock-accuracy")
    optCheck (lookup (k!"capture-accuracy") ps) fun v => needFloat v "capture-accuracy must be numeric"
    optCheck (lookup (k!"warning-accuracy") ps) fun v => needFloat v "warning-accuracy must be numeric"
  else .ok ()

/-- validation of a select row's parameters (xls2json.py 1103-1150; the itemset they shape is C09's) -/
def validateSelectParams (ps : Dict) : Except Fail Unit := do
  allowed ps ["randomize", "seed"]
  match lookup (k!"randomize") ps with
  | some v =>
    if !(v = (k!"true") || v = (k!"false")) then .error (.err "randomize must be set to true or false")
    else optCheck (lookup (k!"seed") ps) fun s =>
      if startsWith s (k!"${") then .error (.unsup "seed reference") else needFloat s "seed value must be a number"
  | none => if (lookup (k!"seed") ps).isSome then .error (.err "seed without randomize") else .ok ()

/-- the row's control dict after the parameter block of type `t` (the `.update({...})` calls) -/
def paramCtl (t : Str) (r : Cells) (ps : Dict) (c : Dict) : Dict :=
  if t = (k!"text") then
    (match lookup (k!"rows") ps with | some v => dset c (k!"rows") v | none => c)
  else if t = (k!"photo") then
    (match lookup (k!"app") ps with
     | some v => if appApplies r then dset c (k!"intent") v else c
     | none => c)
  else if isGeo t then
    let c1 := match lookup (k!"capture-accuracy") ps with
      | some v => dset c (k!"accuracyThreshold") v | none => c
    match lookup (k!"warning-accuracy") ps with
    | some v => dset c1 (k!"unacceptableAccuracyThreshold") v | none => c1
  else c

def rangeDefaults : Dict :=
  [((k!"start"), (k!"1")), ((k!"end"), (k!"10")), ((k!"step"), (k!"1"))]

/-- `if key not in parameters: parameters[key] = defaults[key]` -/
def fillDefault (acc : Dict) (kv : Str × Str) : Dict :=
  if (lookup kv.1 acc).isSome then acc else dset acc kv.1 kv.2

/-- `process_range_question_type`: missing `start` / `end` / `step` get their defaults (appended) -/
def rangeParams (ps : Dict) : Dict := rangeDefaults.foldl fillDefault ps

/-- the `control` section of a type-table entry -/
def typeCtl (e : List (String × String × String)) : Dict :=
  e.filterMap fun x => if x.1 = "control" then some (x.2.1.toList, x.2.2.toList) else none

/-- attributes (besides `ref`) of the body control of a question of dealiased type `t` with type-table
    entry `e`, cells `r` and parsed parameters `ps`: `Question.__init__` merge, `_build_xml`, and for
    `range` the parameters set afterwards -/
def qAttrs (t : Str) (e : List (String × String × String)) (r : Cells) (ps : Dict) : Dict :=
  let merged := dupdate (typeCtl e) (paramCtl t r ps (rowCtlCells r))
  let a := merged.filter fun kv => kv.1 ≠ (k!"tag")
  if t = (k!"range") then dupdate a (rangeParams ps) else a

/-- control dict of a `begin group|repeat` row: cells, `jr:count` redirected to the generated node, `intent` -/
def beginCtl (name : Str) (r : Cells) : Dict :=
  let c0 := rowCtlCells r
  let c1 := match lookup (k!"jr:count") c0 with
    | some e => if isPyxformRef e then c0
                else dset c0 (k!"jr:count") ((k!"${") ++ name ++ (k!"_count}"))
    | none => c0
  match get r "intent" with
  | some v => dset c1 (k!"intent") v
  | none => c1

/-- a body control as observed: element name and attributes other than `ref` / `nodeset` -/
abbrev Ctl := Str × Dict

/-- values pass through `survey.insert_xpaths`: the identity when there is no `${` -/
def refFree (d : Dict) : Bool := d.all fun kv => kv.1 = (k!"jr:count") || !isInfix (k!"${") kv.2

def hasLabel (r : Cells) : Bool :=
  has r "label" || hasPrefix r "label::" || get r "control::appearance" = some (k!"label")
def hasHintCell (r : Cells) : Bool := has r "hint" || hasPrefix r "hint::"
def hasMedia (r : Cells) : Bool := hasPrefix r "media::"

/-- `xml_label_and_hint` finds something to show -/
def labelled (e : List (String × String × String)) (r : Cells) : Bool :=
  hasLabel r || hasMedia r || hasHintCell r || entryHas e ""

def guard (b : Bool) (f : Fail) : Except Fail Unit := if b then .ok () else .error f

/-- the cells of a row after `disabled` is popped and the type is dealiased, `parameters` taken out -/
def prep (r0 : Cells) : Cells × Option Str :=
  let r := r0.filter fun kv => kv.1 ≠ (k!"parameters")
  let r := r.map fun kv => if kv.1 = (k!"type") then (kv.1, dealias kv.2) else kv
  (plainSaveto r, get r0 "parameters")

/-- guards on the raw row (outside the fragment) -/
def rowGuards (r0 r : Cells) : Except Fail Unit :=
  if !(keysNodupB r0 && keysNodupB r) then .error (.unsup "duplicate column")
  else if has r "control::tag" then .error (.unsup "control::tag")
  else if has r "guidance_hint" || hasPrefix r "guidance_hint::" then .error (.unsup "guidance_hint")
  else .ok ()

def parseRaw (raw : Str) : Except Fail Dict :=
  if !isAscii raw then .error (.unsup "non-ASCII parameters")
  else match parseParams raw with
    | some p => .ok p
    | none => .error (.err "parameters syntax")

/-- `parameters_generic.parse` runs for every row that has a type and is not disabled -/
def rowParams (r0 r : Cells) (praw : Option Str) (k : RowK) : Except Fail Dict :=
  match praw, k with
  | some raw, .skip =>
    if (get r "type").isSome && !(match get r0 "disabled" with | some v => yesNoTrue v | none => false)
    then (if (get r "type") = some (k!"audit") then .error (.unsup "audit parameters") else parseRaw raw)
    else .ok []
  | some raw, _ => if (get r "type").isNone then .ok [] else parseRaw raw
  | none, _ => .ok []

def optCtl : Option QData → List Ctl
  | some d => if d.control then [(d.tag, [])] else []
  | none => []

/-- attributes of a visible select row's control -/
def selAttrs (sel : Str) (r : Cells) : Dict :=
  (dupdate (typeCtl ((typeEntry sel).getD [])) (rowCtlCells r)).filter fun kv => kv.1 ≠ (k!"tag")

/-- validation of one classified row with its cells and parsed parameters (everything that can reject the
    row or put it outside the fragment) -/
def emitChecks (k : RowK) (r : Cells) (ps : Dict) : Except Fail Unit :=
  match k with
  | .q d _ =>
    let t := (get r "type").getD []
    (match matchSelect t with
     | some (sel, _, _) => do
       validateSelectParams ps
       if d.control then do
         guard (hasLabel r || hasMedia r || hasHintCell r) (.err "no label or hint")
         guard (refFree (rowCtlCells r) && !(lookup (k!"jr:count") (rowCtlCells r)).isSome) (.unsup "reference in attribute")
       else pure ()
     | none => do
       validateParams t r ps
       let e := (typeEntry t).getD []
       if d.control then do
         guard (labelled e r) (.err "no label or hint")
         let a := qAttrs t e r ps
         guard (refFree a && !(lookup (k!"jr:count") a).isSome) (.unsup "reference in attribute")
       else pure ())
  | .begin_ _ name _ _ => guard (refFree (beginCtl name r)) (.unsup "reference in attribute")
  | _ => .ok ()

/-- the body controls a classified row emits, in document order (element name, attributes) -/
def emitOut (k : RowK) (r : Cells) (ps : Dict) : List Ctl :=
  match k with
  | .q d other =>
    let t := (get r "type").getD []
    (if d.control then
      [(d.tag, match matchSelect t with
               | some (sel, _, _) => selAttrs sel r
               | none => qAttrs t ((typeEntry t).getD []) r ps)]
     else []) ++ optCtl other
  | .begin_ ct name _ helper =>
    optCtl helper ++
    (match ct with
     | .rep => [("group".toList, []), ("repeat".toList, beginCtl name r)]
     | _ => [("group".toList, beginCtl name r)])
  | _ => []

/-- the body controls one survey row emits, in document order -/
def rowControls (lists : List Str) (n : Nat) (r0 : Cells) : Except Fail (List Ctl) :=
  let r := (prep r0).1
  match rowGuards r0 r with
  | .error f => .error f
  | .ok _ =>
    match classify lists n r with
    | .unsupported w => .error (.unsup w)
    | .row k =>
      match rowParams r0 r (prep r0).2 k with
      | .error f => .error f
      | .ok ps =>
        if !keysNodupB ps then .error (.unsup "duplicate parameter") else
        match emitChecks k r ps with
        | .error f => .error f
        | .ok _ => .ok (emitOut k r ps)

def allControls (lists : List Str) : Nat → List Cells → Except Fail (List Ctl)
  | _, [] => .ok []
  | n, r :: rs =>
    match rowControls lists n r with
    | .error f => .error f
    | .ok cs =>
      match allControls lists (n + 1) rs with
      | .error f => .error f
      | .ok rest => .ok (cs ++ rest)

def allControlsN (lists : List Str) : List (Nat × Cells) → Except Fail (List Ctl)
  | [] => .ok []
  | (n, r) :: rs =>
    match rowControls lists n r with
    | .error f => .error f
    | .ok cs =>
      match allControlsN lists rs with
      | .error f => .error f
      | .ok rest => .ok (cs ++ rest)

/-- a `trigger` cell must be one reference to a question row that has a body control
    (`Survey._is_usable_trigger`, `validate_references`); anything else is outside the fragment -/
def triggersOk (lists : List Str) (rows : List Cells) : Bool :=
  rows.all fun r =>
    match get r "trigger" with
    | none => true
    | some t =>
      isPyxformRef t && !startsWith t (k!"${last-saved#") &&
      (let nm := (t.drop 2).dropLast
       let hits := rows.filter fun x => get x "name" = some nm
       match hits with
       | [x] => (match classify lists 2 (prep x).1 with
                 | .row (.q d _) => d.control
                 | _ => false)
       | _ => false)

mutual
/-- `Section.validate` (section.py 75-82): a group or repeat without children is rejected -/
def emptySec : Item → Bool
  | .q _ => false
  | .sec _ _ _ ks => ks.isEmpty || emptySecL ks
def emptySecL : List Item → Bool
  | [] => false
  | k :: ks => emptySec k || emptySecL ks
end

/-! ## Specification -/
namespace Spec

/-- parameter ↦ body attribute, per type (documented parameter vocabulary of the XLSForm spec) -/
def paramAttrTable : List (Str × Str × Str) :=
  [(k!"text", k!"rows", k!"rows"), (k!"photo", k!"app", k!"intent"),
   (k!"geopoint", k!"capture-accuracy", k!"accuracyThreshold"),
   (k!"geopoint", k!"warning-accuracy", k!"unacceptableAccuracyThreshold"),
   (k!"geoshape", k!"capture-accuracy", k!"accuracyThreshold"),
   (k!"geoshape", k!"warning-accuracy", k!"unacceptableAccuracyThreshold"),
   (k!"geotrace", k!"capture-accuracy", k!"accuracyThreshold"),
   (k!"geotrace", k!"warning-accuracy", k!"unacceptableAccuracyThreshold")]

/-- the parameter-derived value of attribute `k` -/
def paramAttr (t : Str) (r : Cells) (ps : Dict) (k : Str) : Option Str :=
  if t = (k!"range") then
    (match lookup k ps with | some v => some v | none => lookup k rangeDefaults)
  else
  match paramAttrTable.find? (fun x => x.1 = t && x.2.2 = k) with
  | none => none
  | some (_, p, _) => if t = (k!"photo") && !appApplies r then none else lookup p ps

/-- attribute `k` of the body control: parameter-derived value, else the row's `control::k`
    (`appearance`, `body::k`, …) cell, else the type table's entry; `tag` is the element name -/
def bodyAttr (t : Str) (e : List (String × String × String)) (r : Cells) (ps : Dict) (k : Str) : Option Str :=
  match paramAttr t r ps k with
  | some v => some v
  | none =>
    if k = (k!"tag") then none else
    match lookup k (rowCtlCells r) with
    | some v => some v
    | none => lookup k (typeCtl e)

/-- the keys that can occur -/
def candidateKeys (e : List (String × String × String)) (r : Cells) (ps : Dict) : List Str :=
  (typeCtl e).map (·.1) ++ (rowCtlCells r).map (·.1) ++ ps.map (·.1) ++ rangeDefaults.map (·.1) ++
  paramAttrTable.map (·.2.2)

def dedup : List Str → List Str
  | [] => []
  | x :: xs => x :: (dedup xs).filter (· ≠ x)

/-- the attribute map the property demands, as a list over the candidate keys -/
def bodyAttrs (t : Str) (e : List (String × String × String)) (r : Cells) (ps : Dict) : Dict :=
  (dedup (candidateKeys e r ps)).filterMap fun k => (bodyAttr t e r ps k).map fun v => (k, v)

/-- is the row user-visible?  (`Question.xml_control`; `hint` includes a type-table hint) -/
def visible (t : Str) (e : List (String × String × String)) (r : Cells) : Bool :=
  !(t = "calculate".toList) &&
  (!(has r "bind::calculate" || has r "trigger") || (hasLabelOrHint r || entryHas e ""))

end Spec
end Pyxv.Controls

namespace Pyxv.Controls
open Pyxv Pyxv.Form Pyxv.Rows

namespace Spec

/-- attribute `k` of a group / repeat: the `control::k` cell, except that `intent` comes from the `intent`
    column when filled and `jr:count` is the reference to the count node -/
def sectionAttr (name : Str) (r : Cells) (k : Str) : Option Str :=
  if k = (k!"intent") then
    (match get r "intent" with | some v => some v | none => lookup k (rowCtlCells r))
  else if k = (k!"jr:count") then
    (match lookup k (rowCtlCells r) with
     | some e => if isPyxformRef e then some e else some ((k!"${") ++ name ++ (k!"_count}"))
     | none => none)
  else lookup k (rowCtlCells r)

def sectionAttrs (name : Str) (r : Cells) : Dict :=
  (dedup ((rowCtlCells r).map (·.1) ++ [(k!"intent")])).filterMap fun k =>
    (sectionAttr name r k).map fun v => (k, v)

/-- the attribute maps the property demands for the controls of one row (document order): nothing for rows
    that are not user-visible; `group` + `repeat` for a repeat, the attributes on the `repeat` -/
def rowSpecs (lists : List Str) (n : Nat) (r0 : Cells) : List Dict :=
  let (r, praw) := prep r0
  let ps := (match praw with | some raw => (parseParams raw).getD [] | none => [])
  match classify lists n r with
  | .row (.q d other) =>
    let t := (get r "type").getD []
    let oc : List Dict := match other with | some _ => [[]] | none => []
    (match matchSelect t with
     | some (sel, _, _) =>
       let e := (typeEntry sel).getD []
       if visible sel e r then bodyAttrs sel e r [] :: oc else oc
     | none =>
       let e := (typeEntry t).getD []
       if visible t e r && tagHasControl d.tag.toString then bodyAttrs t e r ps :: oc else oc)
  | .row (.begin_ ct name _ _) =>
    (match ct with
     | .rep => [[], sectionAttrs name r]
     | _ => [sectionAttrs name r])
  | _ => []

end Spec
end Pyxv.Controls
