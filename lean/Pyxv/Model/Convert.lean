import Pyxv.Model.Rows
import Pyxv.Model.Rows17
import Pyxv.Model.Binds
import Pyxv.Model.Controls
import Pyxv.Model.Choices
import Pyxv.Model.Settings
import Pyxv.Model.Lexer
import Pyxv.Model.RefsText
import Pyxv.Model.Channel
import Pyxv.Model.Assemble
import Pyxv.Model.Xml
/-!
# Convert: the first end-to-end composition  workbook ↦ XForm text

`convert wb pretty` composes the slices into one function from the three sheets of a workbook (header rows
and raw cells, as `xls2xform.convert` receives them in a dict) to the *text* pyxform returns:

| stage of pyxform | slice reused |
|---|---|
| survey header row → column keys, cell cleaning (`dealias_and_group_headers`, `clean_text_values`) | `Binds.headerKey`, `Binds.cleanCell`, `Binds.refsSimple` |
| settings sheet → `Survey` fields (`workbook_to_json` 312-387) | `Settings.dealias`, `Settings.header`, `Settings.surveyOf` |
| choices sheet → lists, validation, secondary instances | `Choices.choicesOf`, `validateLists`, `staticInsts`, `instNode`, `itemsetOf` |
| row loop: classification, begin/end stack, meta block, validation | `Rows.classify` / `classifyAll`, `Rows.formOut` (→ `Form.parseRows`, `withMeta`, `validate`), `Rows17.validate17` |
| primary instance (`Section.xml_instance`, templates) | `Form.instKids` (through `formOut`'s `inst`) |
| binds (`xml_bindings`: type table ⊕ row, conversions, `${}` → path) | `Binds.typeBind`, `Binds.xmlBind` (`rawBind`, `convVal`, `subst`), `Binds.instanceID` |
| body controls (`_build_xml`, `GroupedSection` / `RepeatingSection.xml_control`) | `Controls.rowControls` (attributes and the "no label or hint" rejection) |
| static / dynamic default (`Question.xml_instance`) | `Lexer.defaultIsDynamic` |
| document (`Survey.xml`, `xml_model`, `get_nsmap`, `node`, `setAttribute`) | `Asm.assemble`, `Asm.pyNode` |
| `validate_xml_document` at the end of `Survey.xml()` | `Asm.validDoc` |
| `_to_ugly_xml` / `_to_pretty_xml` | `Xml.renderDoc` |

What this file adds is the glue the slices leave open: a *decorated* element tree (`DItem`: `Form.Item` plus the
row's cells, its body-control attributes and its bind source) built by the same begin/end stack machine
(`dparse`; `Pyxv.Proofs.Convert` proves that erasing the decoration gives exactly `Form.parseRows`), the label /
hint / itemset children of a control, the default text of an instance node, and the order of the model's children.

Fragment (everything else is answered `unsupported`, deterministically): question types text / integer / decimal /
date / note / calculate / select_one L / select_multiple L (with `or_other`), audit rows (→ `meta/audit`), begin/end group
and repeat (nested); survey columns type, name, label, hint, relevant, required, constraint, calculation, read_only,
constraint_message, required_message, appearance, default (static → instance text, dynamic → `setvalue` in the model or
in the enclosing repeat), repeat_count (`<repeat>_count` node / direct reference), disabled; one language; `${name}` in
logic cells, defaults, repeat counts, labels and hints to any element at any depth (`Refs.refFor`: absolute and relative
paths; `<output>` in labels through `Chan.mixedChannel`); choices columns list_name / name / label; settings form_title /
form_id / version / `attribute::x`.  See notes/design_E2E.md for the `unsupported` list and the guards.
-/
namespace Pyxv.Convert
open Pyxv Pyxv.Form Pyxv.Rows Pyxv.Xml

open Lean in
/-- `s!c"lit"`-style literal as an explicit `List Char` (cheap to reduce) -/
macro:max "l!" s:str : term => do
  let cs : Array (TSyntax `term) := (s.getString.toList.map fun c => (⟨(Syntax.mkCharLit c).raw⟩ : TSyntax `term)).toArray
  `(([$cs,*] : List Char))

/-- the workbook as `convert(xlsform=dict)` receives it: per sheet the header row and the rows as
    (header, cell) pairs of the non-empty cells, in column order -/
structure Workbook where
  surveyCols : List Str
  survey : List Cells
  choiceCols : List Str := []
  choices : List Cells := []
  settingsCols : List Str := []
  /-- row 0 of the settings sheet; `none` = no sheet / no data row -/
  settings : Option Cells := none
deriving Repr, Inhabited

inductive Err where
  /-- outside the modelled fragment -/
  | unsupported (why : String)
  /-- pyxform raises `PyXFormError` -/
  | rejected (what : String)
deriving Repr, Inhabited, DecidableEq

/-! ## 1. survey sheet: header keys and cleaned cells -/

def canonKey (toks : List Str) : Str := joinWith (l!"::") toks

/-- one raw row → canonical cells (`bind::relevant`, `control::appearance`, …), cleaned; every cell passes
    `validate_pyxform_reference_syntax` (`Lexer.refSyntaxOk`) or the form is rejected -/
def canonRow (key : List (Str × List Str)) : Cells → Except Err Cells
  | [] => .ok []
  | (h, v) :: rest =>
    let v' := Binds.cleanCell v
    if v'.isEmpty then .error (.unsupported "whitespace-only cell") else
    match Lexer.refSyntaxOk v' with
    | none => .error (.unsupported "lexer rule table is not the pinned one")
    | some false => .error (.rejected "reference syntax")
    | some true =>
    match lookup h key with
    | none => .error (.unsupported "cell under a column that is not in the header row")
    | some toks =>
      match canonRow key rest with
      | .ok r => .ok ((canonKey toks, v') :: r)
      | .error e => .error e

def canonRows (key : List (Str × List Str)) : List Cells → Except Err (List Cells)
  | [] => .ok []
  | r :: rs =>
    match canonRow key r with
    | .error e => .error e
    | .ok c =>
      match canonRows key rs with
      | .ok cs => .ok (c :: cs)
      | .error e => .error e

/-- canonical column keys of the fragment -/
def fragmentKeys : List Str :=
  [l!"type", l!"name", l!"label", l!"hint", l!"default", l!"bind::relevant", l!"bind::required",
   l!"bind::constraint", l!"bind::calculate", l!"bind::readonly", l!"bind::jr:constraintMsg",
   l!"bind::jr:requiredMsg", l!"control::appearance", l!"control::jr:count", l!"disabled"]

/-- cells that may contain `${name}` (they reach a bind through `insert_xpaths`) -/
def logicKeys : List Str :=
  [l!"bind::relevant", l!"bind::required", l!"bind::constraint", l!"bind::calculate", l!"bind::readonly"]

/-- cells whose `${name}` become `<output value=…/>` (`insert_output_values`) -/
def textKeys : List Str := [l!"label", l!"hint"]

/-- cells that are expressions of their own (`insert_xpaths` on a dynamic default / the repeat count) -/
def exprKeys : List Str := [l!"default", l!"control::jr:count"]

def plainTypes : List Str := [l!"text", l!"integer", l!"decimal", l!"date", l!"note", l!"calculate"]

def keysNodup : Cells → Bool
  | [] => true
  | (k, _) :: rest => !(rest.any fun kv => kv.1 = k) && keysNodup rest

/-- is the (canonical) row inside the fragment?  `none` = yes -/
def rowOutside (r : Cells) : Option String :=
  if !(r.all fun kv => fragmentKeys.contains kv.1) then some "column outside the fragment"
  else if !keysNodup r then some "duplicate column"
  else if r.any (fun kv => !logicKeys.contains kv.1 && !textKeys.contains kv.1 && !exprKeys.contains kv.1 &&
      isInfix (l!"${") kv.2) then
    some "reference outside a logic / label / hint cell"
  else
  match get r "type" with
  | none => none
  | some t =>
    if plainTypes.contains t then none
    else if t = l!"audit" then
      -- an audit row (→ `meta/audit`, bind type binary); its parameters (`odk:` bind attributes) are outside the fragment
      (if r.all (fun kv => kv.1 = l!"type" || kv.1 = l!"name" || kv.1 = l!"disabled") then none
       else some "audit row with further cells")
    else match matchSelect t with
    | some (sel, _, _) =>
      if sel = l!"select one" || sel = l!"select all that apply" then none
      else some "select type outside the fragment"
    | none =>
      if (matchControl "begin" true t).isSome then
        (if (get r "default").isSome then some "default on a section" else none)
      else if (matchControl "end" false t).isSome then none
      else some "question type outside the fragment"

/-! ## 2. the decorated element tree -/

/-- what the later stages need of the row an element came from -/
structure Pay where
  /-- the canonical cells of the row -/
  cells : Cells := []
  /-- attributes of the element's body control besides `ref` / `nodeset` (`Controls`) -/
  attrs : Controls.Dict := []
  /-- source of the element's bind: type-table section and the row's `bind` dict (`Binds.Q`) -/
  bq : Binds.Q := { name := [], tt := none, bind := none }
  /-- cells and bind source of the element the row *generates* beside its own
      (`<repeat>_count` before a repeat, `<select>_other` after an `or_other` select) -/
  hcells : Cells := []
  hbq : Binds.Q := { name := [], tt := none, bind := none }
deriving Repr, Inhabited

inductive DItem where
  | q (d : QData) (p : Pay)
  | sec (ct : Ctl) (name : Str) (bind : Bool) (p : Pay) (kids : List DItem)
deriving Repr, Inhabited

structure DFrame where
  ct : Ctl
  name : Str
  bind : Bool
  p : Pay
  kids : List DItem
deriving Repr

abbrev DSt := List DItem × List DFrame

def dpush (t : DItem) : DSt → DSt
  | (root, []) => (root ++ [t], [])
  | (root, f :: fs) => (root, { f with kids := f.kids ++ [t] } :: fs)

def dpushOpt (t : Option QData) (hp : Pay) (st : DSt) : DSt :=
  match t with
  | some d => dpush (.q d hp) st
  | none => st

/-- the decoration of the generated element of a row -/
def helperPay (p : Pay) : Pay := { cells := p.hcells, bq := p.hbq }

/-- `Form.step` on decorated items -/
def dstep (st : DSt) (n : Nat) (p : Pay) : RowK → Except Form.Err DSt
  | .skip => .ok st
  | .bad e => .error (.row n e)
  | .q d other => .ok (dpushOpt other (helperPay p) (dpush (.q d p) st))
  | .begin_ ct name bind helper =>
    let (root, fs) := dpushOpt helper (helperPay p) st
    .ok (root, ⟨ct, name, bind, p, []⟩ :: fs)
  | .end_ ct =>
    match st with
    | (_, []) => .error (.unmatchedEnd n)
    | (root, f :: fs) =>
      if f.ct = ct then .ok (dpush (.sec f.ct f.name f.bind f.p f.kids) (root, fs))
      else .error (.unmatchedEnd n)

def drun : DSt → List ((Nat × RowK) × Pay) → Except Form.Err DSt
  | st, [] => .ok st
  | st, ((n, r), p) :: rs =>
    match dstep st n p r with
    | .ok st' => drun st' rs
    | .error e => .error e

/-- `Form.parseRows` on decorated rows -/
def dparse (rows : List ((Nat × RowK) × Pay)) : Except Form.Err (List DItem) :=
  match drun ([], []) rows with
  | .ok (root, []) => .ok root
  | .ok (_, f :: _) => .error (.unmatchedBegin f.ct f.name)
  | .error e => .error e

mutual
def erase : DItem → Item
  | .q d _ => .q d
  | .sec ct n b _ ks => .sec ct n b (eraseL ks)
def eraseL : List DItem → List Item
  | [] => []
  | k :: ks => erase k :: eraseL ks
end

/-! ## 3. per-row decoration -/

/-- the row's `bind` dict as `dealias_and_group_headers` builds it: `bind::x` cells, column order -/
def rowBind (r : Cells) : Option Binds.BindDict :=
  let b := r.filterMap fun kv =>
    if startsWith kv.1 (l!"bind::") then some (kv.1.drop 6, Binds.BVal.s kv.2) else none
  if b.isEmpty then none else some b

/-- the bind source of the element a row creates (`Question.__init__` / `Section.__init__`) -/
def rowQ (name : Str) (r : Cells) : Binds.Q :=
  let tt := match get r "type" with
    | none => none
    | some t =>
      match matchSelect t with
      | some (sel, _, _) => Binds.typeBind sel
      | none => if (matchControl "begin" true t).isSome then none else Binds.typeBind t
  { name, tt, bind := rowBind r }

def kName : RowK → Str
  | .q d _ => d.name
  | .begin_ _ n _ _ => n
  | _ => []

/-- attributes of the element's own body control among the controls the row emits
    (`Controls.emitOut`: a question emits its control first; a group `group`; a repeat `group`, `repeat`) -/
def ownAttrs (k : RowK) (cs : List Controls.Ctl) : Controls.Dict :=
  match k with
  | .begin_ .rep _ _ _ => (cs.getLast?.map (·.2)).getD []
  | .begin_ _ _ _ _ => (cs.getLast?.map (·.2)).getD []
  | .q d _ => if d.control then (cs.head?.map (·.2)).getD [] else []
  | _ => []

def typeName (r : Cells) : Str :=
  match get r "type" with
  | some t => (match matchSelect t with | some (sel, _, _) => sel | none => t)
  | none => []

/-- `default_is_dynamic(self.default, self.type)`; `none` = no default cell / lexer table not the pinned one -/
def defaultDyn (r : Cells) : Option Bool :=
  match get r "default" with
  | none => none
  | some dv => Lexer.defaultIsDynamic dv (typeName r)

def isDynDefault (r : Cells) : Bool := defaultDyn r == some true
def isStaticDefault (r : Cells) : Bool := defaultDyn r == some false

/-- bind source and cells of the generated element of a row (xls2json.py 893-912, 1082-1100) -/
def helperOf (k : RowK) (r : Cells) : Cells × Binds.Q :=
  match k with
  | .begin_ _ name _ (some h) =>
    ([], { name := h.name, tt := Binds.typeBind (l!"calculate"),
           bind := some [(l!"readonly", .s (l!"true()")), (l!"calculate", .s ((get r "control::jr:count").getD []))] })
  | .q d (some o) =>
    ([(l!"label", l!"Specify other.")],
     { name := o.name, tt := Binds.typeBind (l!"text"),
       bind := some [(l!"relevant", .s (l!"selected(../" ++ d.name ++ l!", 'other')"))] })
  | _ => ([], { name := [], tt := none, bind := none })

/-- one canonical row (number `n`) ↦ its classification and decoration -/
def decorate (lists : List Str) (n : Nat) (r : Cells) : Except Err (RowK × Pay) :=
  match rowOutside r with
  | some w => .error (.unsupported w)
  | none =>
  if (get r "default").isSome && (defaultDyn r).isNone then .error (.unsupported "lexer rule table is not the pinned one") else
  match classify lists n r with
  | .unsupported w => .error (.unsupported w)
  | .row k =>
    match Controls.rowControls lists n r with
    | .error (.unsup w) => .error (.unsupported w)
    | .error (.err w) =>
      -- a row-level error of the row loop is reported by the structural stage
      (match k with
       | .bad _ => .ok (k, {})
       | _ => .error (.rejected w))
    | .ok cs => .ok (k, { cells := r, attrs := ownAttrs k cs, bq := rowQ (kName k) r,
                          hcells := (helperOf k r).1, hbq := (helperOf k r).2 })

def decorateAll (lists : List Str) : Nat → List Cells → Except Err (List ((Nat × RowK) × Pay))
  | _, [] => .ok []
  | n, r :: rs =>
    match decorate lists n r with
    | .error e => .error e
    | .ok (k, p) =>
      match decorateAll lists (n + 1) rs with
      | .ok ds => .ok (((n, k), p) :: ds)
      | .error e => .error e

/-- bind source of a generated child of the meta block: `instanceID` (xls2json.py 1393-1402), or `audit`
    (the type-table bind of `audit`: `type="binary"`) -/
def metaBq (root : Str) (d : QData) : Binds.Q :=
  if d.name = l!"instanceID" then (Binds.instanceID root).q
  else { name := d.name, tt := Binds.typeBind d.name, bind := none }

/-- the decorated counterpart of `Rows.withMeta` (default settings: the meta block holds one `audit` per enabled audit
    row and `instanceID`) -/
def dWithMeta (root : Str) (rows : List Cells) (items : List DItem) : List DItem :=
  let mk := metaKids rows []
  if mk.isEmpty then items
  else items ++ [DItem.sec .group (l!"meta") false {} (mk.map fun d => DItem.q d { bq := metaBq root d })]

/-! ## 4. names, references -/

mutual
def dNames : DItem → List Str
  | .q d _ => [d.name]
  | .sec _ n _ _ ks => n :: dNamesL ks
def dNamesL : List DItem → List Str
  | [] => []
  | k :: ks => dNames k ++ dNamesL ks
end

/-- names of the questions that are direct children of the survey (targets of `${name}`) -/
def topNames : List DItem → List Str
  | [] => []
  | .q d _ :: rest => d.name :: topNames rest
  | .sec _ _ _ _ _ :: rest => topNames rest

/-! ## 5. primary instance -/

mutual
/-- (path, default text) of every question with a `default` cell -/
def defaultsOf (pre : List Str) : DItem → List (List Str × Str)
  | .q d p =>
    (match get p.cells "default" with
     | some v => if isStaticDefault p.cells then [(pre ++ [d.name], v)] else []
     | none => [])
  | .sec _ n _ _ ks => defaultsOfL (pre ++ [n]) ks
def defaultsOfL (pre : List Str) : List DItem → List (List Str × Str)
  | [] => []
  | k :: ks => defaultsOf pre k ++ defaultsOfL pre ks
end

def lookupPath (p : List Str) : List (List Str × Str) → Option Str
  | [] => none
  | (q, v) :: rest => if p = q then some v else lookupPath p rest

def tmplAttrs (t : Bool) : List (Str × Str) := if t then [(l!"jr:template", [])] else []

mutual
/-- `xml_instance` of the element at `pre ++ [name]`: the node (with `jr:template=""` on template copies), the
    static default as its text (`Question.xml_instance`: every copy of the node carries it), its children -/
def instNode (defs : List (List Str × Str)) (pre : List Str) : NT → Node
  | .node n t ks =>
    .elem n (tmplAttrs t)
      (match ks with
       | [] => (match lookupPath (pre ++ [n]) defs with | some v => [.text false v] | none => [])
       | k :: ks' => instNodes defs (pre ++ [n]) (k :: ks'))
def instNodes (defs : List (List Str × Str)) (pre : List Str) : List NT → List Node
  | [] => []
  | k :: ks => instNode defs pre k :: instNodes defs pre ks
end

def ntKids : NT → List NT
  | .node _ _ ks => ks

/-! ## 6. binds -/

def kindOf : Ctl → Refs.Kind
  | .rep => .rep
  | _ => .group

mutual
/-- the element tree `Pyxv.Refs` reasons about (`iter_descendants` order, kinds) -/
def toEl : DItem → Refs.El
  | .q d _ => .mk .q d.name []
  | .sec ct n _ _ ks => .mk (kindOf ct) n (toElL ks)
def toElL : List DItem → List Refs.El
  | [] => []
  | k :: ks => toEl k :: toElL ks
end

/-- chains of all elements of the survey, root first (`_setup_xpath_dictionary`, `is_parent_a_repeat`) -/
def elsOf (root : Str) (dall : List DItem) : List Refs.Chain := (Refs.El.mk .group root (toElL dall)).chains []

/-- texts whose references need the lexer-level flags of `Refs.Flags` or the last-saved instance -/
def refUnsupported (s : Str) : Bool :=
  isInfix (l!"indexed-repeat(") s || isInfix (l!"instance(") s || isInfix (l!"${last-saved#") s

/-- the element's bind dict (`Question.__init__` merge); `none`: no dict, or a `nodeset` entry -/
def bindDict (q : Binds.Q) : Option Binds.BindDict :=
  match Binds.elemBind q with
  | some b => if (lookup (l!"nodeset") b).isSome then none else some b
  | none => none

/-- `xml_bindings`: value conversions, then `insert_xpaths(v, context=self)` through `Refs.refFor` -/
def attrsOfR (els : List Refs.Chain) (ctx : Refs.Chain) (path : Str) : Binds.BindDict → Option (List (Str × Str))
  | [] => some []
  | (k, v) :: rest =>
    match Binds.convVal path k v with
    | none => none
    | some s =>
      match Refs.insertXpaths els (some ctx) {} s, attrsOfR els ctx path rest with
      | some s', some r => some ((k, s') :: r)
      | _, _ => none

/-- the bind is inside the fragment (whether its references resolve is `bindAttrs`) -/
def bindSupported (ctx : Refs.Chain) (q : Binds.Q) : Bool :=
  match bindDict q with
  | none => false
  | some b =>
    b.all fun kv =>
      Asm.attrLocal kv.1 != l!"nodeset" &&
      (match Binds.convVal ctx.xpath kv.1 kv.2 with | some s => !refUnsupported s | none => false)

/-- `xml_bindings` of the element with chain `ctx` -/
def bindAttrs (els : List Refs.Chain) (ctx : Refs.Chain) (q : Binds.Q) : Option (List (Str × Str)) :=
  match (bindDict q).bind (attrsOfR els ctx ctx.xpath) with
  | some a =>
    -- `setAttribute` evicts an attribute of the same local name: `x:nodeset` would remove `nodeset` (outside the fragment)
    if a.all (fun kv => Asm.attrLocal kv.1 != l!"nodeset") then some a else none
  | none => none

def evFirstLoad : Str := l!"odk-instance-first-load"
def evNewRepeat : Str := l!"odk-instance-first-load odk-new-repeat"

/-- `get_setvalue_node_for_dynamic_default`: `node("setvalue", ref=…, value=insert_xpaths(default, self), event=…)` -/
def setvalueNode (els : List Refs.Chain) (ctx : Refs.Chain) (dv : Str) (inRepeat : Bool) : Node :=
  Asm.pyNode (l!"setvalue")
    [(l!"ref", xpathStr ctx.path), (l!"value", (Refs.insertXpaths els (some ctx) {} dv).getD dv),
     (l!"event", if inRepeat then evNewRepeat else evFirstLoad)] []

/-- the setvalue of an element's dynamic default, if it has one -/
def dynSetOf (els : List Refs.Chain) (ctx : Refs.Chain) (r : Cells) (inRepeat : Bool) : List Node :=
  match get r "default" with
  | some dv => if isDynDefault r then [setvalueNode els ctx dv inRepeat] else []
  | none => []

/-- an expression cell that goes through `insert_xpaths`: outside the fragment, or a reference that does not resolve -/
def exprErr (els : List Refs.Chain) (ctx : Refs.Chain) (v : Str) : Option Err :=
  if refUnsupported v then some (.unsupported "expression outside the fragment")
  else if (Refs.insertXpaths els (some ctx) {} v).isNone then some (.rejected "reference")
  else none

def inRep (pc : Refs.Chain) : Bool := pc.any fun s => s.2 == Refs.Kind.rep

def bindNode (els : List Refs.Chain) (ctx : Refs.Chain) (q : Binds.Q) : Node :=
  Asm.pyNode (l!"bind") ((l!"nodeset", xpathStr ctx.path) :: (bindAttrs els ctx q).getD []) []

mutual
/-- `xml_descendent_bindings`: one `<bind>` per element that has a bind dict, document order -/
def bindNodes (els : List Refs.Chain) (pc : Refs.Chain) : DItem → List Node
  | .q d p =>
    (if d.bind then [bindNode els (pc ++ [(d.name, .q)]) p.bq] else []) ++
    -- dynamic defaults of elements without a repeat ancestor go into the model, after the element's bind
    (if inRep pc then [] else dynSetOf els (pc ++ [(d.name, .q)]) p.cells false)
  | .sec ct n b p ks =>
    (if b then [bindNode els (pc ++ [(n, kindOf ct)]) p.bq] else []) ++ bindNodesL els (pc ++ [(n, kindOf ct)]) ks
def bindNodesL (els : List Refs.Chain) (pc : Refs.Chain) : List DItem → List Node
  | [] => []
  | k :: ks => bindNodes els pc k ++ bindNodesL els pc ks
end

mutual
/-- every bind the walk emits is inside the fragment -/
def bindsSup (pc : Refs.Chain) : DItem → Bool
  | .q d p => !d.bind || bindSupported (pc ++ [(d.name, .q)]) p.bq
  | .sec ct n b p ks =>
    (!b || bindSupported (pc ++ [(n, kindOf ct)]) p.bq) && bindsSupL (pc ++ [(n, kindOf ct)]) ks
def bindsSupL (pc : Refs.Chain) : List DItem → Bool
  | [] => true
  | k :: ks => bindsSup pc k && bindsSupL pc ks
end

mutual
/-- every reference of every bind resolves (otherwise pyxform raises) -/
def bindsOk (els : List Refs.Chain) (pc : Refs.Chain) : DItem → Bool
  | .q d p => !d.bind || (bindAttrs els (pc ++ [(d.name, .q)]) p.bq).isSome
  | .sec ct n b p ks =>
    (!b || (bindAttrs els (pc ++ [(n, kindOf ct)]) p.bq).isSome) && bindsOkL els (pc ++ [(n, kindOf ct)]) ks
def bindsOkL (els : List Refs.Chain) (pc : Refs.Chain) : List DItem → Bool
  | [] => true
  | k :: ks => bindsOk els pc k && bindsOkL els pc ks
end

/-! ## 7. body -/

/-- the chain of the element at `path` (sibling names are unique, so a path names one element) -/
def ctxOf (els : List Refs.Chain) (path : List Str) : Refs.Chain :=
  (els.find? fun c => c.path == path).getD []

/-- name ↦ path text `_var_repl_function` emits for it from the context `ctx` (absolute or relative; the blanks
    around it are added by `Chan.varRepl`); unknown / ambiguous names are absent -/
def refsTable (els : List Refs.Chain) (ctx : Refs.Chain) : List (Str × Str) :=
  els.filterMap fun c =>
    match c.getLast? with
    | some (n, _) =>
      (match Refs.refFor els (some ctx) n {} with
       | .ok _ e => some (n, e.render)
       | _ => none)
    | none => none

mutual
/-- every attribute list of the tree is a map (what `minidom` guarantees for a parsed fragment) -/
def domOk : Node → Bool
  | .text _ _ => true
  | .elem _ a ks => attrKeysNodup a && domOkL ks
def domOkL : List Node → Bool
  | [] => true
  | k :: ks => domOk k && domOkL ks
end

/-- text, or a childless `<output …/>` element -/
def outputKid : Node → Bool
  | .text _ _ => true
  | .elem t _ [] => t == l!"output"
  | .elem _ _ (_ :: _) => false

/-- children of a label / hint: text and childless `<output …/>` elements -/
def outputOnly : Node → Bool
  | .elem _ _ ks => ks.all outputKid
  | .text _ _ => false

/-- label / hint text through the mixed channel (`node(tag, *insert_output_values(text, self), toParseString=…)`) -/
def textOutcome (els : List Refs.Chain) (path : List Str) (tag s : Str) : Chan.Outcome Node :=
  if isInfix (l!"instance(") s || isInfix (l!"${last-saved#") s then .unsupported "instance() / last-saved in a label" else
  match Chan.mixedChannel (refsTable els (ctxOf els path)) tag s with
  | .ok n => if domOk n && outputOnly n then .ok n else .unsupported "markup in a label"
  | o => o

def emptyNode (tag : Str) : Node := Asm.pyNode tag [] []

def textNode (els : List Refs.Chain) (path : List Str) (tag : Str) (cell : Option Str) : Node :=
  match cell with
  | none => emptyNode tag
  | some s =>
    match textOutcome els path tag s with
    | .ok n => n
    | _ => emptyNode tag

/-- what goes wrong with a rendered text cell, if anything -/
def textErr (els : List Refs.Chain) (path : List Str) (tag : Str) (cell : Option Str) : Option Err :=
  match cell with
  | none => none
  | some s =>
    match textOutcome els path tag s with
    | .ok _ => none
    | .pyxformError => some (.rejected "reference in a label")
    | .reparseError => some (.unsupported "label does not reparse (internal error)")
    | .unsupported w => some (.unsupported w)

/-- `xml_label`: `<label>text</label>` (with `<output>` for references), or `<label/>` without a label cell -/
def labelNode (els : List Refs.Chain) (path : List Str) (r : Cells) : Node := textNode els path (l!"label") (get r "label")

def hintNode (els : List Refs.Chain) (path : List Str) (r : Cells) : Node := textNode els path (l!"hint") (get r "hint")

/-- `xml_label_and_hint` -/
def labelAndHint (els : List Refs.Chain) (path : List Str) (r : Cells) : List Node :=
  (if has r "label" || has r "hint" then [labelNode els path r] else []) ++
  (if has r "hint" then [hintNode els path r] else [])

def orErr (a b : Option Err) : Option Err :=
  match a with
  | some e => some e
  | none => b

/-- the `<itemset>` child of a select (`MultipleChoiceQuestion.build_xml`) -/
def itemsetNodes (r : Cells) : List Node :=
  match get r "type" with
  | none => []
  | some t =>
    match matchSelect t with
    | none => []
    | some (_, ln, _) =>
      let o := Choices.itemsetOf { itemset := ln, filter := [], params := [], seedSub := [], prevSub := [],
                                   choicesItext := false }
      [Asm.pyNode (l!"itemset") [(l!"nodeset", o.nodeset)]
        [Asm.pyNode (l!"value") [(l!"ref", o.value)] [], Asm.pyNode (l!"label") [(l!"ref", o.label)] []]]

mutual
/-- `RepeatingSection._dynamic_defaults_helper`: setvalues of a repeat's descendants that are not inside a nested repeat -/
def dynSets (els : List Refs.Chain) (pre : List Str) : DItem → List Node
  | .q d p => dynSetOf els (ctxOf els (pre ++ [d.name])) p.cells true
  | .sec .rep _ _ _ _ => []
  | .sec _ n _ _ ks => dynSetsL els (pre ++ [n]) ks
def dynSetsL (els : List Refs.Chain) (pre : List Str) : List DItem → List Node
  | [] => []
  | k :: ks => dynSets els pre k ++ dynSetsL els pre ks
end

/-- control attributes of a repeat through `insert_xpaths(value, self)` (`jr:count`) -/
def subAttrs (els : List Refs.Chain) (ctx : Refs.Chain) (a : Controls.Dict) : Controls.Dict :=
  a.map fun kv => (kv.1, (Refs.insertXpaths els (some ctx) {} kv.2).getD kv.2)

def attrsErr (els : List Refs.Chain) (ctx : Refs.Chain) : Controls.Dict → Option Err
  | [] => none
  | (_, v) :: rest => orErr (exprErr els ctx v) (attrsErr els ctx rest)

mutual
/-- `xml_control` of an element, document order -/
def bodyNodes (els : List Refs.Chain) (pre : List Str) : DItem → List Node
  | .q d p =>
    if d.control then
      [Asm.pyNode d.tag ((l!"ref", xpathStr (pre ++ [d.name])) :: p.attrs)
        (labelAndHint els (pre ++ [d.name]) p.cells ++ itemsetNodes p.cells)]
    else []
  | .sec .rep n _ p ks =>
    [Asm.pyNode (l!"group") [(l!"ref", xpathStr (pre ++ [n]))]
      [labelNode els (pre ++ [n]) p.cells,
       Asm.pyNode (l!"repeat") ((l!"nodeset", xpathStr (pre ++ [n])) :: subAttrs els (ctxOf els (pre ++ [n])) p.attrs)
         (bodyNodesL els (pre ++ [n]) ks ++ dynSetsL els (pre ++ [n]) ks)]]
  | .sec _ n _ p ks =>
    [Asm.pyNode (l!"group") (p.attrs ++ [(l!"ref", xpathStr (pre ++ [n]))])
      ((if has p.cells "label" then [labelNode els (pre ++ [n]) p.cells] else []) ++ bodyNodesL els (pre ++ [n]) ks)]
def bodyNodesL (els : List Refs.Chain) (pre : List Str) : List DItem → List Node
  | [] => []
  | k :: ks => bodyNodes els pre k ++ bodyNodesL els pre ks
end

mutual
/-- the first problem with a rendered label / hint / dynamic default / repeat count, document order -/
def textsErr (els : List Refs.Chain) (pre : List Str) : DItem → Option Err
  | .q d p =>
    orErr
      (if d.control then
        orErr (textErr els (pre ++ [d.name]) (l!"label") (get p.cells "label"))
              (textErr els (pre ++ [d.name]) (l!"hint") (get p.cells "hint"))
       else none)
      (match get p.cells "default" with
       | some dv => if isDynDefault p.cells then exprErr els (ctxOf els (pre ++ [d.name])) dv else none
       | none => none)
  | .sec ct n _ p ks =>
    orErr (textErr els (pre ++ [n]) (l!"label") (get p.cells "label"))
      (orErr (if ct = .rep then attrsErr els (ctxOf els (pre ++ [n])) p.attrs else none) (textsErrL els (pre ++ [n]) ks))
def textsErrL (els : List Refs.Chain) (pre : List Str) : List DItem → Option Err
  | [] => none
  | k :: ks => orErr (textsErr els pre k) (textsErrL els pre ks)
end

/-- element names of body controls (`control.tag` of the type table for the question types that render one) -/
def controlTags : List Str :=
  [l!"input", l!"select", l!"select1", l!"upload", l!"trigger", l!"range", l!"odk:rank", l!"group", l!"repeat"]

mutual
/-- the control tag is a control element name, and no control attribute has the local name `ref` / `nodeset` (`setAttribute` would evict the control's reference) -/
def ctlOk : DItem → Bool
  | .q d p => (!d.control || controlTags.contains d.tag) &&
    p.attrs.all fun kv => Asm.attrLocal kv.1 != l!"ref" && Asm.attrLocal kv.1 != l!"nodeset"
  | .sec _ _ _ p ks =>
    (p.attrs.all fun kv => Asm.attrLocal kv.1 != l!"ref" && Asm.attrLocal kv.1 != l!"nodeset") && ctlOkL ks
def ctlOkL : List DItem → Bool
  | [] => true
  | k :: ks => ctlOk k && ctlOkL ks
end

/-! ## 8. choices and settings -/

def choiceKeys : List (Str × Str) :=
  [(l!"list_name", Choices.listKey), (l!"name", l!"name"), (l!"label", l!"label")]

def canonChoice : Cells → Option Cells
  | [] => some []
  | (h, v) :: rest =>
    match lookup h choiceKeys, canonChoice rest with
    | some k, some r => some ((k, Choices.cleanCell v) :: r)
    | _, _ => none

def canonChoices : List Cells → Option (List Cells)
  | [] => some []
  | r :: rs =>
    match canonChoice r, canonChoices rs with
    | some c, some cs => some (c :: cs)
    | _, _ => none

def choiceOutside (r : Cells) : Bool :=
  !keysNodup r || (lookup Choices.listKey r).isNone || r.any fun kv => isInfix (l!"${") kv.2 || kv.2.isEmpty

def settingsCols : List Str := [l!"form_title", l!"form_id", l!"version"]

/-- the `Survey` fields the assembly reads (`Asm.Fields`) from the settings sheet -/
def fieldsOf (wb : Workbook) : Except Err Asm.Fields :=
  if !(wb.settingsCols.all fun h => settingsCols.contains h || startsWith h (l!"attribute::")) then
    .error (.unsupported "settings column outside the fragment") else
  let st? : Except Settings.Fail Settings.Dict := match wb.settings with
    | none => .ok []
    | some row => Settings.dealias wb.settingsCols row
  match st? with
  | .error (.unsupported w) => .error (.unsupported w)
  | .error (.err _) => .error (.rejected "settings")
  | .ok st =>
    match Settings.header st {} with
    | .error (.unsupported w) => .error (.unsupported w)
    | .error (.err _) => .error (.rejected "settings")
    | .ok _ =>
      let sv := Settings.surveyOf (Settings.jsonRoot st {})
      -- `attribute::x` settings columns go on the instance root (`Asm.rootAttrs`: before `id`, `setAttribute` eviction);
      -- no `instance::` columns in the fragment
      .ok { name := sv.name, title := sv.title, idString := sv.idString, version := sv.version, instAttrs := [],
            attrib := sv.attrib.getD [] }

/-- `aliases.yes_no.get(row["disabled"])` is truthy: the row loop skips the row before anything else -/
def rowDisabled (r : Cells) : Bool :=
  match get r "disabled" with
  | some v => yesNoTrue v
  | none => false

def activeRows (rows : List Cells) : List Cells := rows.filter fun r => !rowDisabled r

/-- or_other selects append the choice `other` to their (shared) list (xls2json.py 1036-1078) -/
def othersApplied : List Cells → List (Str × List Choices.Choice) → List (Str × List Choices.Choice)
  | [], lists => lists
  | r :: rs, lists =>
    othersApplied rs
      (match get r "type" with
       | some t => (match matchSelect t with | some (_, ln, true) => Choices.addOther ln lists | _ => lists)
       | none => lists)

/-! ## 9. the whole conversion -/

/-- the DOM tree `Survey.xml()` returns -/
def convertDoc (wb : Workbook) : Except Err Node :=
  match fieldsOf wb with
  | .error e => .error e
  | .ok f =>
  let root := f.name
  -- choices
  if !(wb.choiceCols.all fun h => (lookup h choiceKeys).isSome) then .error (.unsupported "choices column outside the fragment") else
  match canonChoices wb.choices with
  | none => .error (.unsupported "choices cell under an unknown column")
  | some ch =>
  if ch.any choiceOutside then .error (.unsupported "choices row outside the fragment") else
  match Choices.validateLists false (Choices.groupByKey Choices.listKey ch) with
  | some _ => .error (.rejected "choices")
  | none =>
  let lists := Choices.choicesOf (wb.choiceCols.filterMap fun h => lookup h choiceKeys) ch
  let listNames := lists.map (·.1)
  -- survey header and cells
  if !(wb.surveyCols.all Binds.isAscii) then .error (.unsupported "non-ASCII header") else
  match Binds.headerKey wb.surveyCols with
  | .error (.dup _ _) => .error (.rejected "duplicate header")
  | .error (.unsupported w) => .error (.unsupported w)
  | .ok key =>
  match canonRows key wb.survey with
  | .error e => .error e
  | .ok rows =>
  -- per-row classification and decoration
  match decorateAll listNames 2 rows with
  | .error e => .error e
  | .ok drows =>
  -- the structural pipeline of the `Form` / `Rows` slices (stack, meta block, validation)
  match formOut root listNames rows [] with
  | .error (.unsupported w) => .error (.unsupported w)
  | .error (.err _) => .error (.rejected "structure")
  | .error (.unknownType _) => .error (.rejected "unknown type")
  | .ok o =>
  match Rows17.validate17 root (withMeta rows [] o.items) with
  | .error _ => .error (.rejected "empty section or duplicate name")
  | .ok () =>
  match dparse drows with
  | .error _ => .error (.unsupported "decorated tree (unreachable)")
  | .ok ditems =>
  let dall := dWithMeta root rows ditems
  let els := elsOf root dall
  let rc : Refs.Chain := [(root, .group)]
  if !bindsSupL rc dall then .error (.unsupported "bind value outside the fragment") else
  if !bindsOkL els rc dall then .error (.rejected "reference") else
  if !ctlOkL ditems then .error (.unsupported "control attribute with the local name ref / nodeset") else
  match textsErrL els [root] ditems with
  | some e => .error e
  | none =>
  let rootKids := instNodes (defaultsOfL [root] ditems) [root] (ntKids o.inst)
  let insts := (Choices.staticInsts [] (othersApplied (activeRows rows) lists)).map Choices.instNode
  let binds := bindNodesL els rc dall
  let body := bodyNodesL els [root] ditems
  let doc := Asm.assemble f none rootKids (insts ++ binds) body
  if Asm.validDoc [] doc then .ok doc else .error (.rejected "validate_xml_document")

/-- the XForm text `convert(...).xform` -/
def convert (wb : Workbook) (pretty : Bool) : Except Err Str :=
  match convertDoc wb with
  | .ok doc => .ok (renderDoc pretty doc)
  | .error e => .error e

end Pyxv.Convert
