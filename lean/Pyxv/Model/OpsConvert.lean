import Pyxv.Model.Json
import Pyxv.Model.Convert
/-! Driver operations for the end-to-end composition (`convert.model`). -/
namespace Pyxv.Convert
open Lean Pyxv

def rowsOfJson (j : Json) (k : String) : Except String (List Rows.Cells) :=
  match j.getObjVal? k with
  | .ok (.arr a) => a.toList.mapM pairList
  | _ => pure []

def strListD (j : Json) (k : String) : List Str :=
  match getStrList j k with
  | .ok l => l
  | .error _ => []

def wbOfJson (j : Json) : Except String Workbook := do
  let survey ← rowsOfJson j "survey"
  let choices ← rowsOfJson j "choices"
  let settings ← match j.getObjVal? "settings" with
    | .ok (.arr a) => (pairList (.arr a)).map some
    | _ => pure none
  pure { surveyCols := strListD j "survey_cols", survey, choiceCols := strListD j "choice_cols", choices,
         settingsCols := strListD j "settings_cols", settings }

def errToJson : Err → Json
  | .unsupported w => Json.mkObj [("outcome", "unsupported"), ("why", Json.str w)]
  | .rejected w => Json.mkObj [("outcome", "rejected"), ("what", Json.str w)]

def opsConvert (op : String) (j : Json) : Option (Except String Json) :=
  match op with
  | "convert.model" => some do
      let wb ← wbOfJson j
      match convertDoc wb with
      | .error e => pure (errToJson e)
      | .ok doc =>
        pure (Json.mkObj [("outcome", "ok"), ("compact", jstr (Xml.renderDoc false doc)),
                          ("pretty", jstr (Xml.renderDoc true doc))])
  | _ => none

end Pyxv.Convert
