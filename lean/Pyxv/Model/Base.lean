/-!
# Base: Python-compatible helpers on `List Char`

Everything that is *proved about* is a function on `List Char` (Lean 4.33's `String`
API is slice based and awkward in proofs).  Conversion happens at the driver boundary.
No imports outside Lean core, so that the driver links without Mathlib.
-/
namespace Pyxv

abbrev Str := List Char

def str (s : String) : Str := s.toList
def Str.toString (s : Str) : String := String.ofList s

/-- Python `sep.join(parts)`. -/
def joinWith (sep : Str) : List Str → Str
  | [] => []
  | [x] => x
  | x :: y :: rest => x ++ sep ++ joinWith sep (y :: rest)

/-- Python `s.split(c)` for a one-character separator (keeps empty fields). -/
def splitOnChar (c : Char) : Str → List Str
  | [] => [[]]
  | x :: xs =>
    match splitOnChar c xs with
    | [] => [[]]            -- unreachable
    | f :: fs => if x = c then [] :: f :: fs else (x :: f) :: fs

/-- Python `a.startswith(p)`. -/
def startsWith : Str → Str → Bool
  | _, [] => true
  | [], _ :: _ => false
  | a :: as, p :: ps => a == p && startsWith as ps

/-- Python `p in a` (substring test). -/
def isInfix (p : Str) : Str → Bool
  | [] => p.isEmpty
  | a :: as => startsWith (a :: as) p || isInfix p as

/-- Python `a.endswith(p)`. -/
def endsWith (a p : Str) : Bool := startsWith a.reverse p.reverse

/-- The characters Python's `str.strip()` / `str.split()` / `str.isspace()` treat as whitespace. -/
def pyIsSpace (c : Char) : Bool :=
  let n := c.toNat
  (9 ≤ n && n ≤ 13) || (28 ≤ n && n ≤ 32) || n == 0x85 || n == 0xA0 || n == 0x1680 ||
  (0x2000 ≤ n && n ≤ 0x200A) || n == 0x2028 || n == 0x2029 || n == 0x202F || n == 0x205F || n == 0x3000

def lstrip (s : Str) : Str := s.dropWhile pyIsSpace
def rstrip (s : Str) : Str := (s.reverse.dropWhile pyIsSpace).reverse
def strip (s : Str) : Str := rstrip (lstrip s)

/-- ASCII lower-casing (Python `lower()` restricted to ASCII; the callers state the restriction). -/
def lowerAscii (s : Str) : Str := s.map fun c => if 'A' ≤ c ∧ c ≤ 'Z' then Char.ofNat (c.toNat + 32) else c

/-- association-list lookup (Python `dict.get`) -/
def lookup {β} (k : Str) : List (Str × β) → Option β
  | [] => none
  | (k', v) :: rest => if k = k' then some v else lookup k rest

end Pyxv
