import Pyxv.Model.Choices
/-!
# C09: what the property demands (declarative), evaluated on an observed XForm

`Spec.holds` takes the workbook and the observation of *any* XForm (the implementation's, in the
check) and returns the statements of property C09 that fail.  The definitions here are filters and
decision tables over the sheet; the model (`Pyxv.Choices`) is the fold / mutation-order reading of the
code.  The theorems of `Pyxv.Proofs.C09` relate the two.
-/
namespace Pyxv.Choices.Spec
open Pyxv Pyxv.Rows Pyxv.Choices

/-- rows of list `l`, in sheet order, without the grouping key -/
def listRows (key l : Str) (rows : List Cells) : List Cells :=
  (rows.filter fun r => lookup key r = some l).map (popKey key)

/-- distinct values in order of first occurrence -/
def dedup : List Str → List Str
  | [] => []
  | x :: xs => x :: (dedup xs).filter (· ≠ x)

def listNames (key : Str) (rows : List Cells) : List Str := dedup (rows.filterMap (lookup key))

/-- lists on which some select asks for or_other -/
def otherLists : List Elem → List Str
  | [] => []
  | .sel _ _ _ _ _ ln true :: es => ln :: otherLists es
  | _ :: es => otherLists es

/-- the choices of list `l` as the sheet states them, plus `other` exactly when an or_other select
    uses the list and the sheet has no choice of that name -/
def choicesOfList (inp : Input) (es : List Elem) (l : Str) : List Choice :=
  let cs := (listRows listKey l inp.choices).map (choiceOf (badHeaders inp.choiceCols))
  if (otherLists es).contains l then addOtherTo cs else cs

/-- items of the instance of a list: index-wise `itemOf` -/
def itemsOk (l : Str) (cs : List Choice) (items : List (List (Str × Str))) : Bool :=
  items.length = cs.length &&
  (List.range cs.length).all fun i =>
    match cs[i]?, items[i]? with
    | some c, some it => it = itemOf (requiresItext cs) l i c
    | _, _ => false

/-! ### the itemset decision table -/

inductive Source where
  | file (stem ext : Str)
  | prev (parent leaf : Str)
  | list (name : Str)
deriving Repr, DecidableEq

def sourceOf (q : SelIn) : Source :=
  if hasBraceRef q.itemset then
    let path := splitOnChar '/' q.prevSub
    .prev (joinWith (c!"/") path.dropLast) (path.getLast?.getD [])
  else if isFileExt (splitext q.itemset).2 then .file (splitext q.itemset).1 (splitext q.itemset).2
  else .list q.itemset

def base : Source → Str
  | .file stem _ => c!"instance('" ++ stem ++ c!"')/root/item"
  | .list n => c!"instance('" ++ n ++ c!"')/root/item"
  | .prev parent _ => parent

def pred (q : SelIn) : Source → Str
  | .prev parent leaf =>
    if q.filter.isEmpty then c!"./" ++ leaf ++ c!" != ''"
    else pyReplace (pyReplace q.filter (c!"current()/" ++ parent) (c!".")) parent (c!".")
  | _ => q.filter

def seedArg (q : SelIn) : Str :=
  match lookup (c!"seed") q.params with
  | some s => c!", " ++ (if startsWith s (c!"${") then q.seedSub else s)
  | none => []

def nodeset (q : SelIn) : Str :=
  let inner := base (sourceOf q) ++ bracket (pred q (sourceOf q))
  if lookup (c!"randomize") q.params = some (c!"true") then c!"randomize(" ++ inner ++ seedArg q ++ c!")" else inner

def valueRef (q : SelIn) : Str :=
  match sourceOf q with
  | .prev _ leaf => leaf
  | .file _ ext => (lookup (c!"value") q.params).getD (if ext = c!".geojson" then gref "value_geojson" else gref "value")
  | .list _ => (lookup (c!"value") q.params).getD (gref "value")

/-- `listItext`: the *list* named in the type cell requires itext -/
def labelRef (q : SelIn) (listItext : Bool) : Str :=
  match sourceOf q with
  | .prev _ leaf => leaf
  | .file _ ext => (lookup (c!"label") q.params).getD (if ext = c!".geojson" then gref "label_geojson" else gref "label")
  | .list _ => if listItext then c!"jr:itext(itextId)" else (lookup (c!"label") q.params).getD (gref "label")

/-! ### external sources -/

/-- (id, URI) of every external data source an element names -/
def sourcesOf : Elem → List (Str × Str)
  | .sec _ cells => (pulldataInsts true cells).map fun i => (i.name, i.src.getD [])
  | .q _ cells => (pulldataInsts false cells).map fun i => (i.name, i.src.getD [])
  | .sel _ _ _ cells sel ln _ =>
    ((pulldataInsts false cells).map fun i => (i.name, i.src.getD [])) ++
    (if isExternalSel sel || isSearch cells then [] else ((fromFileInst ln).toList.map fun i => (i.name, i.src.getD [])))
  | .ext name typ => [((externalInst name typ).name, (externalInst name typ).src.getD [])]

def sources (es : List Elem) : List (Str × Str) :=
  es.flatMap sourcesOf ++ (if anyLastSaved es || secLastSaved es then [(lastSavedInst.name, lastSavedInst.src.getD [])] else [])

/-! ### the oracle -/

structure ObsInst where
  id : Str
  src : Option Str
  items : Option (List (List (Str × Str)))
deriving Repr, Inhabited

structure ObsSel where
  ref : Str
  itemset : Option ItemsetOut
  items : List ((Bool × Str) × Str)
  query : Option Str
  other : Option (Str × Str × Str)
deriving Repr, Inhabited

structure ObsIn where
  instances : List ObsInst
  selects : List ObsSel
  csv : Option (List (List Str))
deriving Repr, Inhabited

structure Fail where
  kind : String
  detail : Str
  site : String := ""
deriving Repr, Inhabited

def showS (s : Str) : Str := c!"'" ++ s ++ c!"'"

def checkLists (inp : Input) (es : List Elem) (obs : ObsIn) : List Fail :=
  let search := searchLists es
  (listNames listKey inp.choices).flatMap fun l =>
    let found := obs.instances.filter fun i => i.id = l
    let src := sources es
    if search.contains l then
      (if found.any (fun i => i.src.isNone) then
        [{ kind := "search-inline", detail := c!"list consumed by search() also rendered as instance " ++ showS l,
           site := "survey._generate_instances" }] else [])
    else if src.any (fun p => p.1 = l) then []   -- id clash with an external source: rejected / decided by external-decl
    else match found with
      | [i] =>
        (if i.src.isSome then [{ kind := "list-instance", detail := c!"instance of list has a src " ++ showS l,
                                 site := "survey._generate_static_instances" }] else []) ++
        (match i.items with
         | some items => if itemsOk l (choicesOfList inp es l) items then [] else
           if itemsOk l (choicesOfList inp.cleaned es l) items then
             [{ kind := "items-smart-quotes", detail := c!"items of instance " ++ showS l ++ c!" differ from the sheet only by replaced smart quotes",
                site := "xls2json.clean_text_values" }] else
             [{ kind := "instance-items", detail := c!"items of instance " ++ showS l ++ c!" are not the list's choices in sheet order",
                site := "survey._generate_static_instances" }]
         | none => [{ kind := "instance-items", detail := c!"instance without root " ++ showS l, site := "survey._generate_static_instances" }])
      | [] => [{ kind := "list-instance", detail := c!"no instance for list " ++ showS l, site := "survey._generate_instances" }]
      | _ => [{ kind := "list-instance", detail := c!"more than one instance for list " ++ showS l, site := "survey._generate_instances" }]

def checkIds (obs : ObsIn) : List Fail :=
  let ids := obs.instances.map (·.id)
  if ids.all fun i => ids.count i ≤ 1 then [] else
    [{ kind := "instance-ids", detail := c!"instance ids are not unique", site := "survey._generate_instances" }]

def checkSources (inp : Input) (es : List Elem) (obs : ObsIn) : List Fail :=
  let src := sources es
  let lists := listNames listKey inp.choices
  (src.flatMap fun p =>
    match obs.instances.filter fun i => i.id = p.1 with
    | [i] => if i.src = some p.2 then [] else
        [{ kind := "external-decl", detail := c!"instance " ++ showS p.1 ++ c!" does not have the conventional URI " ++ showS p.2,
           site := "survey._generate_instances" }]
    | [] => [{ kind := "external-decl", detail := c!"external source not declared: " ++ showS p.1, site := "survey._generate_instances" }]
    | _ => [{ kind := "external-decl", detail := c!"external source declared more than once: " ++ showS p.1, site := "survey._generate_instances" }]) ++
  (obs.instances.flatMap fun i =>
    match i.src with
    | some u => if src.contains (i.id, u) then [] else
        [{ kind := "external-decl", detail := c!"instance not named by the form: " ++ showS i.id, site := "survey._generate_instances" }]
    | none => if lists.contains i.id then [] else
        [{ kind := "list-instance", detail := c!"instance for a list that is not on the choices sheet: " ++ showS i.id,
           site := "survey._generate_static_instances" }])

def checkSel (m : SelObs) (o : ObsSel) : List Fail :=
  (if m.ref = o.ref then [] else [{ kind := "select-ref", detail := c!"select ref " ++ showS o.ref ++ c!" expected " ++ showS m.ref }]) ++
  (match m.qin, o.itemset with
   | some q, some i =>
     (if i.nodeset = nodeset q then [] else
       [{ kind := "nodeset", detail := c!"itemset nodeset of " ++ m.ref ++ c!" is " ++ showS i.nodeset ++ c!" expected " ++ showS (nodeset q),
          site := "question.MultipleChoiceQuestion.build_xml" }]) ++
     (if i.value = valueRef q then [] else
       [{ kind := "value-ref", detail := c!"itemset value ref of " ++ m.ref ++ c!" is " ++ showS i.value ++ c!" expected " ++ showS (valueRef q),
          site := "question.MultipleChoiceQuestion.build_xml" }]) ++
     (if i.label = labelRef q m.listItext then [] else
       [{ kind := "label-ref", detail := c!"itemset label ref of " ++ m.ref ++ c!" is " ++ showS i.label ++ c!" expected " ++ showS (labelRef q m.listItext),
          site := "question.MultipleChoiceQuestion.build_xml" }]) ++
     (if o.items.isEmpty then [] else
       [{ kind := "search-inline", detail := c!"select without search() has inline items: " ++ m.ref, site := "question.MultipleChoiceQuestion.build_xml" }])
   | some _, none => [{ kind := "nodeset", detail := c!"select without itemset: " ++ m.ref, site := "question.MultipleChoiceQuestion.build_xml" }]
   | none, some _ => [{ kind := "search-inline", detail := c!"search() / external select with an itemset: " ++ m.ref, site := "question.MultipleChoiceQuestion.build_xml" }]
   | none, none =>
     (if m.items = o.items then [] else
       [{ kind := "search-inline", detail := c!"inline items of " ++ m.ref ++ c!" are not the list's choices", site := "question.MultipleChoiceQuestion.build_xml" }]) ++
     (if m.query = o.query then [] else
       [{ kind := "query", detail := c!"query of " ++ m.ref ++ c!" differs", site := "question.InputQuestion.build_xml" }])) ++
  (if m.other = o.other then [] else
    [{ kind := "or-other", detail := c!"or_other companion of " ++ m.ref ++ c!" missing or wrong", site := "xls2json.workbook_to_json" }])

def checkSels : List SelObs → List ObsSel → List Fail
  | [], [] => []
  | m :: ms, o :: os => checkSel m o ++ checkSels ms os
  | _, _ => [{ kind := "select-count", detail := c!"number of select controls differs from the number of select rows" }]

def checkCsv (inp : Input) (es : List Elem) (obs : ObsIn) : List Fail :=
  let want : Option (List (List Str)) :=
    if hasExternalSelect es then inp.extRows.map fun rows => inp.extHeader :: rows.map (rowByHeader inp.extHeader) else none
  let wantClean : Option (List (List Str)) :=
    if hasExternalSelect es then inp.cleaned.extRows.map fun rows => inp.extHeader :: rows.map (rowByHeader inp.extHeader) else none
  if obs.csv = want then [] else
  if obs.csv = wantClean then
    [{ kind := "csv-smart-quotes", detail := c!"itemsets CSV differs from the external_choices sheet only by replaced smart quotes",
       site := "xls2json.clean_text_values" }] else
    [{ kind := "csv-cells", detail := c!"itemsets CSV does not reproduce the external_choices sheet cell for cell",
       site := "utils.external_choices_to_csv" }]

/-- `none`: the workbook is outside the fragment in which the spec can read the select rows -/
def holds (inp : Input) (obs : ObsIn) : Except String (List Fail) :=
  match inp.canon with
  | none => .error "header / parameters cell"
  | some inp =>
  let ci := inp.cleaned
  match walk [] inp.survey with
  | .error w => .error w
  | .ok (es, tbl) =>
    let lists := applyOthers es (choicesOf ci.choiceCols ci.choices)
    match extListNames ci with
    | none => .error "external_choices header"
    | some extLists =>
    match selsObs ci tbl lists extLists es with
    | .error w => .error w
    | .ok sels =>
      .ok (checkLists inp es obs ++ checkIds obs ++ checkSources inp es obs ++ checkSels sels obs.selects ++ checkCsv inp es obs)

end Pyxv.Choices.Spec
