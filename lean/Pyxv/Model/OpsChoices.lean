import Pyxv.Model.Json
import Pyxv.Model.Choices
import Pyxv.Model.ChoicesSpec
/-! Driver operations for the choices slice (C09). -/
namespace Pyxv.Choices
open Lean Pyxv Pyxv.Rows

def cellsListOfJson (j : Json) : Except String (List Cells) := do
  let a ← j.getArr?
  a.toList.mapM pairList

def optStr (j : Json) (k : String) : Option Str :=
  match j.getObjVal? k with
  | .ok (.str s) => some s.toList
  | _ => none

def inputOfJson (j : Json) : Except String Input := do
  let choices ← cellsListOfJson (← j.getObjVal? "choices")
  let cols ← getStrList j "choices_cols"
  let survey ← cellsListOfJson (← j.getObjVal? "survey")
  let surveyCols ← getStrList j "survey_cols"
  let extHeader ← getStrList j "ext_header"
  let extRows ← match j.getObjVal? "ext_rows" with
    | .ok (.arr a) => (do let r ← a.toList.mapM pairList; pure (some r))
    | _ => pure none
  pure { root := getStrD j "root" "data", choices, choiceCols := cols, allowDup := optStr j "allow_dup",
         survey, surveyCols, extHeader, extRows }

def optJ (o : Option Str) : Json := match o with | some s => jstr s | none => Json.null

def gridToJson (g : List (List Str)) : Json := Json.arr (g.map fun r => Json.arr (r.map jstr).toArray).toArray

def instToJson (i : Inst) : Json :=
  Json.mkObj [("id", jstr i.name), ("src", optJ i.src), ("kind", jstr i.kind), ("xml", jstr (instText i)),
    ("items", if i.kind = c!"choice" then Json.arr (i.items.map pairsToJson).toArray else Json.null)]

def selToJson (s : SelObs) : Json :=
  Json.mkObj [("ref", jstr s.ref), ("tag", jstr s.tag),
    ("itemset", match s.itemset with
      | some i => Json.mkObj [("nodeset", jstr i.nodeset), ("value", jstr i.value), ("label", jstr i.label)]
      | none => Json.null),
    ("items", Json.arr (s.items.map fun ((isRef, l), v) =>
      Json.arr #[Json.arr #[Json.str (if isRef then "ref" else "text"), jstr l], jstr v]).toArray),
    ("query", optJ s.query),
    ("other", match s.other with
      | some (r, t, l) => Json.mkObj [("relevant", jstr r), ("type", jstr t), ("input", jstr l)]
      | none => Json.null)]

def errName : ErrK → String
  | .noChoiceName => "noChoiceName" | .dupChoice => "dupChoice" | .searchMixed => "searchMixed"
  | .dupExternal => "dupExternal" | .idClash => "idClash"

def outcomeToJson : Outcome → Json
  | .unsupported w => Json.mkObj [("outcome", "unsupported"), ("why", Json.str w)]
  | .error k => Json.mkObj [("outcome", "error"), ("kind", Json.str (errName k))]
  | .ok o => Json.mkObj [("outcome", "ok"),
      ("instances", Json.arr (o.instances.map instToJson).toArray),
      ("selects", Json.arr (o.selects.map selToJson).toArray),
      ("csv_text", optJ o.csv),
      ("csv", match o.csv with | some t => gridToJson (parseCsv t) | none => Json.null)]

/-! decoding an observed XForm (harness/c09obs.py) -/

def optStrJ (j : Json) : Option Str := match j with | .str s => some s.toList | _ => none

def gridOfJson (j : Json) : Except String (List (List Str)) := do
  let a ← j.getArr?
  a.toList.mapM strList

def obsInstOfJson (j : Json) : Except String Spec.ObsInst := do
  let id := (optStr j "id").getD []
  let items ← match j.getObjVal? "items" with
    | .ok (.arr a) => (do let r ← a.toList.mapM pairList; pure (some r))
    | _ => pure none
  pure { id, src := optStr j "src", items }

def obsSelOfJson (j : Json) : Except String Spec.ObsSel := do
  let itemset : Option ItemsetOut := match j.getObjVal? "itemset" with
    | .ok (.obj o) =>
      let jj := Json.obj o
      some { nodeset := (optStr jj "nodeset").getD [], value := (optStr jj "value").getD [], label := (optStr jj "label").getD [] }
    | _ => none
  let items ← (← getArr j "items").toList.mapM fun it => do
    let p ← it.getArr?
    if h : p.size = 2 then
      let lab ← p[0].getArr?
      let isRef := match lab[0]? with | some (.str "ref") => true | _ => false
      let l := match lab[1]? with | some (.str s) => s.toList | _ => []
      let v := (optStrJ p[1]).getD []
      pure ((isRef, l), v)
    else throw "item pair expected"
  let other : Option (Str × Str × Str) := match j.getObjVal? "other" with
    | .ok (.obj o) =>
      let jj := Json.obj o
      some ((optStr jj "relevant").getD [], (optStr jj "type").getD [], (optStr jj "input").getD [])
    | _ => none
  pure { ref := (optStr j "ref").getD [], itemset, items, query := optStr j "query", other }

def obsOfJson (j : Json) : Except String Spec.ObsIn := do
  let instances ← (← getArr j "instances").toList.mapM obsInstOfJson
  let selects ← (← getArr j "selects").toList.mapM obsSelOfJson
  let csv ← match j.getObjVal? "csv" with
    | .ok (.arr a) => (do let g ← gridOfJson (.arr a); pure (some g))
    | _ => pure none
  pure { instances, selects, csv }

def failToJson (f : Spec.Fail) : Json :=
  Json.mkObj [("kind", Json.str f.kind), ("detail", jstr f.detail), ("site", Json.str f.site)]

def opsChoices (op : String) (j : Json) : Option (Except String Json) :=
  match op with
  | "choices.model" => some do
      let inp ← inputOfJson j
      pure (outcomeToJson (run inp))
  | "choices.holds" => some do
      let inp ← inputOfJson j
      let obs ← obsOfJson (← j.getObjVal? "obs")
      match Spec.holds inp obs with
      | .error w => pure (Json.mkObj [("skipped", Json.str w)])
      | .ok fs => pure (Json.mkObj [("failures", Json.arr (fs.map failToJson).toArray)])
  | "choices.csv" => some do
      let rows ← cellsListOfJson (← j.getObjVal? "rows")
      let header ← match j.getObjVal? "header" with
        | .ok (.arr a) => strList (.arr a)
        | _ => pure (firstKeys rows)
      let t := itemsetsCsv header rows
      pure (Json.mkObj [("text", jstr t), ("grid", gridToJson (parseCsv t))])
  | "choices.parsecsv" => some do
      let t ← getStr j "text"
      pure (gridToJson (parseCsv t))
  | "choices.group" => some do
      let rows ← cellsListOfJson (← j.getObjVal? "rows")
      let key ← getStr j "key"
      pure (Json.arr ((groupByKey key rows).map fun g =>
        Json.arr #[jstr g.1, Json.arr (g.2.map pairsToJson).toArray]).toArray)
  | _ => none

end Pyxv.Choices
