import Pyxv.Model.OpsTexts
import Pyxv.Model.HeaderRules
/-! Driver operation `c17.sheet_headers`: the header stage of one sheet (`survey` / `choices`) with the text of
its diagnosis (`Pyxv.HeaderRules.sheetHeaders`); compared by the stream `c17.headers` with the message of `convert()`. -/
namespace Pyxv.HeaderRules
open Lean Pyxv Pyxv.Headers

def opsC17Headers (op : String) (j : Json) : Option (Except String Json) :=
  match op with
  | "c17.sheet_headers" => some do
      let cols ← getStrList j "cols"
      let rows ← Texts.rowsOfJson (← j.getObjVal? "rows")
      let sheet := getStrD j "sheet" "survey"
      let (al, hc, req) := Texts.tablesFor (String.ofList sheet)
      if !(cols.all Texts.isAscii) then return Json.mkObj [("outcome", "unsupported")]
      pure (match sheetHeaders sheet cols rows al hc req (getStrD j "dl" "default") with
        | .pass => Json.mkObj [("outcome", "pass")]
        | .reject m => Json.mkObj [("outcome", "reject"), ("msg", jstr m)]
        | .internal w => Json.mkObj [("outcome", "internal"), ("site", jstr w)]
        | .unsupported w => Json.mkObj [("outcome", "unsupported"), ("why", jstr w)])
  | _ => none

end Pyxv.HeaderRules
