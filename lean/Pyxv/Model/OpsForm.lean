import Pyxv.Model.Json
import Pyxv.Model.Rows
/-! Driver operations for the form core (rows → tree → instance / binds / body refs). -/
namespace Pyxv.Form
open Lean Pyxv Pyxv.Rows

partial def ntToJson : NT → Json
  | .node n t ks => Json.mkObj [("n", jstr n), ("t", Json.bool t), ("k", Json.arr (ks.map ntToJson).toArray)]

partial def ntOfJson (j : Json) : Except String NT := do
  let n ← getStr j "n"
  let ks ← getArr j "k"
  let kids ← ks.toList.mapM ntOfJson
  pure (.node n (getBoolD j "t" false) kids)

def pathsToJson (ps : List (List Str)) : Json :=
  Json.arr (ps.map fun p => jstr (xpathStr p)).toArray

def ctlStr : Ctl → String
  | .group => "group" | .rep => "repeat" | .loop => "loop"

def errToJson : Err → Json
  | .row n e => Json.mkObj [("kind", "row"), ("row", n), ("what", Json.str (match e with
      | .noType => "noType" | .noName => "noName" | .badName => "badName"
      | .missingCalculation => "missingCalculation" | .other w => String.ofList w))]
  | .unmatchedEnd n => Json.mkObj [("kind", "unmatchedEnd"), ("row", n)]
  | .unmatchedBegin ct nm => Json.mkObj [("kind", "unmatchedBegin"), ("ct", ctlStr ct), ("name", jstr nm)]
  | .dupSibling nm p => Json.mkObj [("kind", "dupSibling"), ("name", jstr nm), ("parent", jstr p)]
  | .dupSection nm => Json.mkObj [("kind", "dupSection"), ("name", jstr nm)]
  | .ambiguousRef nm => Json.mkObj [("kind", "ambiguousRef"), ("name", jstr nm)]

def cellsOfJson (j : Json) : Except String Cells := pairList j

/-- the whole structural pipeline on one form -/
def formModel (root : Str) (lists : List Str) (rows : List Cells) (settings : Cells) : Json :=
  match formOut root lists rows settings with
  | .error (.unsupported w) => Json.mkObj [("outcome", "unsupported"), ("why", Json.str w)]
  | .error (.err e) => Json.mkObj [("outcome", "error"), ("err", errToJson e)]
  | .error (.unknownType n) => Json.mkObj [("outcome", "error"), ("err", Json.mkObj [("kind", "unknownType"), ("row", n)])]
  | .ok o =>
    Json.mkObj [("outcome", "ok"), ("instance", ntToJson o.inst), ("binds", pathsToJson o.binds),
      ("body", pathsToJson o.body),
      ("ctl", Json.arr (o.ctl.map fun (t, p) => Json.arr #[jstr t, jstr (xpathStr p)]).toArray),
      ("closed", Json.bool ((o.binds ++ o.body).all (resolves o.inst)))]

def opsForm (op : String) (j : Json) : Option (Except String Json) :=
  match op with
  | "form.model" => some do
      let rows ← (← getArr j "rows").toList.mapM cellsOfJson
      let lists ← getStrList j "lists"
      let settings ← cellsOfJson (← j.getObjVal? "settings")
      pure (formModel (getStrD j "root" "data") lists rows settings)
  | "form.is_xml_tag" => some do
      let s ← getStr j "s"
      pure (Json.bool (isXmlTag s))
  | "form.is_pyxform_ref" => some do
      let s ← getStr j "s"
      pure (Json.bool (isPyxformRef s))
  | "form.closed" => some do
      -- oracle on an observed (implementation) instance tree and path strings
      let inst ← ntOfJson (← j.getObjVal? "instance")
      let ps ← getStrList j "paths"
      let bad := ps.filter fun p =>
        match p with
        | '/' :: rest => !(resolves inst (splitOnChar '/' rest))
        | _ => true
      pure (Json.mkObj [("ok", Json.bool bad.isEmpty), ("bad", Json.arr (bad.map jstr).toArray)])
  | _ => none

end Pyxv.Form
