import Pyxv.Model.Base
import Pyxv.Generated.Tables
/-!
# Spell: the normalisations that absorb documented spellings and layout noise (property C13)

Mirrors, on `List Char`:
* `sheet_headers.to_snake_case` (sheet_headers.py:80-86), `process_header` (89-145);
* `xls2json.clean_text_values` per cell (xls2json.py:89-113) with `RE_WHITESPACE = ( )+`
  (xls2json_backends.py:37) and `SMART_QUOTES` (xls2json.py:44);
* `xls2json.dealias_types` per cell (77-86), `aliases.yes_no.get`, `BINDING_CONVERSIONS`
  (survey_element.py:566-571);
* the sheet selection of `md_to_dict.process_md_data` / `xlsx_to_dict.process_workbook` /
  `xls_to_dict.process_workbook` (xls2json_backends.py:189-209, 280-300, 603-621);
* `process_row` for plain (one-token) columns (sheet_headers.py:148-182).

Python's `str.lower()` is modelled exactly on ASCII and Latin-1 (`lowerChar`); strings with other
cased characters are outside the fragment (`lowerSupported`; the driver answers `unsupported`).
-/
namespace Pyxv.Spell
open Pyxv

/-! ### `str.split()` (no argument), `str.lower()`, `to_snake_case` -/

/-- Python `s.split()`: maximal runs of non-whitespace characters. -/
def splitWs : Str → List Str
  | [] => []
  | c :: cs =>
    if pyIsSpace c then splitWs cs
    else match cs with
      | [] => [[c]]
      | d :: _ =>
        if pyIsSpace d then [c] :: splitWs cs
        else match splitWs cs with
          | w :: ws => (c :: w) :: ws
          | [] => [[c]]            -- unreachable: `cs` starts with a non-space character

/-- Python `str.lower()` on one character, exact for code points below U+0100. -/
def lowerChar (c : Char) : Char :=
  let n := c.toNat
  if 65 ≤ n ∧ n ≤ 90 then Char.ofNat (n + 32)
  else if 0xC0 ≤ n ∧ n ≤ 0xDE ∧ n ≠ 0xD7 then Char.ofNat (n + 32)
  else c

/-- characters on which `lowerChar` is Python's `lower()` (checked against CPython by the harness
    on every run): Latin-1, and the caseless blocks the generators draw from -/
def lowerSupported (c : Char) : Bool :=
  let n := c.toNat
  n < 0x100 || pyIsSpace c || (0x600 ≤ n && n ≤ 0x6FF) || (0x2010 ≤ n && n ≤ 0x2027) ||
  (0x4E00 ≤ n && n ≤ 0x9FFF) || (0x1F300 ≤ n && n ≤ 0x1FAFF)

def pyLower (s : Str) : Str := s.map lowerChar

/-- `"_".join(value.split()).lower()` -/
def toSnake (s : Str) : Str := pyLower (joinWith ['_'] (splitWs s))

/-! ### `process_header` -/

/-- Python `s.split("::")` -/
def splitDC : Str → List Str
  | [] => [[]]
  | ':' :: ':' :: rest => [] :: splitDC rest
  | c :: rest =>
    match splitDC rest with
    | f :: fs => (c :: f) :: fs
    | [] => [[c]]                  -- unreachable

def hasDC : Str → Bool
  | ':' :: ':' :: _ => true
  | _ :: rest => hasDC rest
  | [] => false

abbrev Aliases := List (Str × List Str)

/-- table with string values (`settings_header`, `entities_header`) as one-token tuples; the flag
    says whether the Python value is a `str` (then `new_header` is that string) or a tuple -/
structure HeaderTables where
  aliases : Aliases
  columns : List Str
  /-- aliases whose Python value is a plain string (not a tuple) -/
  strValued : List Str

inductive HdrErr where
  | jrLast          -- `IndexError`: a single-colon header whose last token is `jr`
deriving Repr, DecidableEq

/-- rewrite `…, jr, x, …` to `…, jr:x, …` at the first `jr` (sheet_headers.py:121-127) -/
def jrJoin : List Str → Except HdrErr (List Str)
  | [] => .ok []
  | t :: ts =>
    if t = ['j', 'r'] then
      match ts with
      | [] => .error .jrLast
      | x :: rest => .ok ((['j', 'r', ':'] ++ x) :: rest)
    else (jrJoin ts).map (t :: ·)

structure Hdr where
  /-- `new_header != header` (decides the duplicate-header error) -/
  changed : Bool
  tokens : List Str
deriving Repr, DecidableEq

def processHeader (T : HeaderTables) (useDouble : Bool) (header : Str) : Except HdrErr Hdr :=
  if T.columns.contains header && (lookup header T.aliases).isNone then .ok ⟨false, [header]⟩ else
  let hn := toSnake header
  if T.columns.contains hn && (lookup hn T.aliases).isNone then .ok ⟨hn != header, [hn]⟩ else
  let toks : Except HdrErr (List Str) :=
    if useDouble || hasDC header then .ok ((splitDC header).map strip)
    else jrJoin ((splitOnChar ':' header).map strip)
  match toks with
  | .error e => .error e
  | .ok [] => .ok ⟨false, []⟩        -- unreachable: split never returns an empty list
  | .ok (t0 :: rest) =>
    let nh := toSnake t0
    match lookup nh T.aliases with
    | some d =>
      if d.isEmpty || d = [[]] then
        -- falsy alias value: falls through to the column test (no such entry in the tables)
        if T.columns.contains nh then .ok ⟨nh != header, nh :: rest⟩ else .ok ⟨false, t0 :: rest⟩
      else
        let ch := if T.strValued.contains nh then (match d with | [x] => x != header | _ => true) else true
        .ok ⟨ch, d ++ rest⟩
    | none =>
      if T.columns.contains nh then .ok ⟨nh != header, nh :: rest⟩
      else .ok ⟨false, t0 :: rest⟩

def sl (l : List String) : List Str := l.map String.toList
def tabSS (t : List (String × String)) : Aliases := t.map fun (a, b) => (a.toList, [b.toList])
def tabSL (t : List (String × List String)) : Aliases := t.map fun (a, b) => (a.toList, sl b)
/-- keys of a `dict_sl` table whose Python value is a `str` cannot be told from one-tuples in the
    generated table; the survey/list tables' string-valued entries are those with one token -/
def oneTok (t : Aliases) : List Str := (t.filter fun p => p.2.length == 1).map (·.1)

def surveyT : HeaderTables :=
  { aliases := tabSL Pyxv.Gen.aliasSurveyHeader, columns := sl Pyxv.Gen.headerColumnsSurvey,
    strValued := oneTok (tabSL Pyxv.Gen.aliasSurveyHeader) }
def choicesT : HeaderTables :=
  { aliases := tabSL Pyxv.Gen.aliasListHeader, columns := sl Pyxv.Gen.headerColumnsChoices,
    strValued := oneTok (tabSL Pyxv.Gen.aliasListHeader) }
def settingsT : HeaderTables :=
  { aliases := tabSS Pyxv.Gen.aliasSettingsHeader, columns := sl Pyxv.Gen.headerColumnsSettings,
    strValued := (tabSS Pyxv.Gen.aliasSettingsHeader).map (·.1) }
def entitiesT : HeaderTables :=
  { aliases := tabSS Pyxv.Gen.aliasEntitiesHeader, columns := sl Pyxv.Gen.headerColumnsEntities,
    strValued := (tabSS Pyxv.Gen.aliasEntitiesHeader).map (·.1) }

def tablesOf (sheet : String) : Option HeaderTables :=
  match sheet with
  | "survey" => some surveyT
  | "choices" => some choicesT
  | "settings" => some settingsT
  | "entities" => some entitiesT
  | _ => none

/-! ### `clean_text_values` (one cell) -/

/-- `RE_WHITESPACE.sub(" ", s)` with `RE_WHITESPACE = ( )+`: runs of U+0020 become one -/
def collapse : Str → Str
  | [] => []
  | c :: r => if c = ' ' ∧ r.head? = some ' ' then collapse r else c :: collapse r

def smartTable : List (Char × Str) :=
  Pyxv.Gen.smartQuotes.filterMap fun (a, b) => match a.toList with | [c] => some (c, b.toList) | _ => none

def unsmartChar (tab : List (Char × Str)) (c : Char) : Str :=
  match tab.find? (fun p => p.1 = c) with
  | some (_, r) => r
  | none => [c]

/-- `RE_SMART_QUOTES.sub(lambda m: SMART_QUOTES[m.group(0)], s)` -/
def unsmartWith (tab : List (Char × Str)) (s : Str) : Str := s.flatMap (unsmartChar tab)
def unsmart (s : Str) : Str := unsmartWith smartTable s

/-- the value `clean_text_values` stores for a string cell -/
def cleanText (stripWs : Bool) (s : Str) : Str :=
  if stripWs then unsmart (collapse (strip s)) else unsmart s

/-! ### type / truth-value spellings -/

/-- `dealias_types` on one type cell -/
def dealiasType (t : Str) : Str :=
  match lookup t (Pyxv.Gen.typeAliasMap.map fun (a, b) => (a.toList, b.toList)) with
  | some v => v
  | none => t

/-- `aliases.yes_no.get(v)` -/
def yesNo (v : Str) : Option Bool := lookup v (Pyxv.Gen.yesNo.map fun (a, b) => (a.toList, b))

/-- bind value written for a convertible bind attribute (survey_element.py:566-571) -/
def bindConv (v : Str) : Str :=
  match lookup v (Pyxv.Gen.bindingConversions.map fun (a, b) => (a.toList, b.toList)) with
  | some r => r
  | none => v

/-- value written for bind attribute `attr` (survey_element.py xml_bindings: the yes/no conversion applies to
    `constants.CONVERTIBLE_BIND_ATTRIBUTES` only, on every element kind) -/
def bindValue (attr v : Str) : Str :=
  if (sl Pyxv.Gen.convertibleBindAttributes).contains attr then bindConv v else v

/-! ### sheet selection of the file backends -/

/-- Python `d[k] = v`: replace in place or append -/
def setKey {β} (k : Str) (v : β) : List (Str × β) → List (Str × β)
  | [] => [(k, v)]
  | (k', v') :: rest => if k = k' then (k, v) :: rest else (k', v') :: setKey k v rest

def supported : List Str := sl Pyxv.Gen.supportedSheetNames

/-- `process_workbook` / `process_md_data`: sheets in workbook order; a sheet whose lower-cased name
    is supported is stored under that name, a single unsupported sheet is read as `survey`, other
    sheets are skipped.  (`sheet_names` is the list of original names, kept separately.) -/
def selectSheets {β} (sheets : List (Str × β)) : List (Str × β) :=
  let n := sheets.length
  sheets.foldl (fun acc (nm, c) =>
    let l := pyLower nm
    if supported.contains l then setKey l c acc
    else if n = 1 then setKey "survey".toList c acc
    else acc) []

/-! ### `process_row` on plain columns (every header maps to one token) -/

/-- `out_row[tokens[0]] = val` for each cell in row order (one-token headers, no earlier dict value) -/
def processRowFlat (hdr : Str → Str) (row : List (Str × Str)) : List (Str × Str) :=
  row.foldl (fun acc (h, v) => setKey (hdr h) v acc) []

/-! ### header stage: raw sheet ↦ rows keyed by canonical flattened column names -/

/-- canonical flattened column key of a raw header: its token tuple joined by `::` (the key format of
    `Pyxv.Rows`: `bind::relevant`, `label::fr`, …); `none` when `process_header` raises -/
def canonKey (T : HeaderTables) (d : Bool) (h : Str) : Option Str :=
  match processHeader T d h with
  | .ok r => some (joinWith [':', ':'] r.tokens)
  | .error _ => none

/-- one raw row (cell values aligned with the header row; `[]` = empty cell) as canonical cells -/
def stageRow (T : HeaderTables) (d : Bool) (hs : List Str) (vals : List Str) : List (Str × Str) :=
  (hs.zip vals).filterMap fun p => if p.2 = [] then none else (canonKey T d p.1).map fun k => (k, p.2)

/-- **header stage** (`dealias_and_group_headers` seen from the row loop): raw sheet (header row + rows
    of cell values) ↦ the rows `Rows.formOut` reads -/
def headerStage (T : HeaderTables) (d : Bool) (hs : List Str) (rows : List (List Str)) : List (List (Str × Str)) :=
  rows.map (stageRow T d hs)

end Pyxv.Spell
