import Pyxv.Model.Backends
/-!
# Decidable well-formedness guards of the container round trips (C12)

`Md.MdOK` / `Csv.CsvOK`: the workbooks that `md_to_dict ∘ renderMd` / `csv_to_dict ∘ renderCsv` read
back exactly (theorems `md_roundtrip`, `csv_roundtrip` in Pyxv/Proofs/C12.lean).  They live in a model
file so that the driver can evaluate them on generated workbooks.
-/
namespace Pyxv.Backends
open Pyxv

/-- every run of empty rows that is *followed by a non-empty row* has length ≤ `lim`
(`k` = empties seen immediately before). Decidable form. -/
def runsInt {α} (lim : Nat) : Nat → List (List α) → Bool
  | _, [] => true
  | k, r :: rest => if r.isEmpty then runsInt lim (k + 1) rest else decide (k ≤ lim) && runsInt lim 0 rest

/-- the rows of a sheet as the dict container has them -/
def dictRows (s : Sheet) : List KRow := s.rows.map (sheetRow s.header)

/-- the last row of the sheet is not blank (trailing blank rows are dropped by every reader) -/
def noTrailingBlank (s : Sheet) : Bool := stripTrailing (·.isEmpty) (dictRows s) == dictRows s

end Pyxv.Backends

namespace Pyxv.Backends.Md
open Pyxv

/-- an abstract cell text as an optional value: `""` is the empty cell -/
def toOpt (c : Str) : Option Str := if c = [] then none else some c

def distinctB : List Str → Bool
  | [] => true
  | x :: xs => !xs.contains x && distinctB xs

/-- a cell / name that survives `strip` and the line split -/
def cellOK (c : Str) : Bool := strip c == c && !c.contains '\n'

/-- sheet name: stripped, one line, non-empty, ASCII (`lower()` is modelled on ASCII), and a
supported sheet (others are skipped, or read as `survey` when alone) -/
def nameOK (n : Str) : Bool :=
  cellOK n && n != [] && isAscii n && supported.contains (lowerAscii n)

/-- data row: cells stripped and one-line.  Blank rows are allowed (they are kept); cells beyond the
header row are ignored by `md_to_dict` exactly as by the dict container. -/
def rowOK (r : List Str) : Bool := r.all cellOK

/-- header non-empty, all header cells non-empty (an empty one becomes the key `None`); the last row
is not blank (trailing blank rows are dropped) -/
def sheetOK (s : Sheet) : Bool :=
  nameOK s.name && s.header != [] && s.header.all (fun c => cellOK c && c != []) &&
    s.rows.all rowOK && noTrailingBlank s

/-- the workbooks `md_to_dict ∘ renderMd` reads back exactly; names distinct after `lower()`.
(Non-emptiness of the workbook follows from `isMarkdownTable (renderMd wb)`.) -/
def MdOK (wb : Workbook) : Bool :=
  wb.all sheetOK && distinctB (wb.map fun s => lowerAscii s.name)

end Pyxv.Backends.Md

namespace Pyxv.Backends.Csv
open Pyxv

/-- cells of a header / data row as `csv_to_dict` keeps them: stripped, not all empty
(non-empty list follows). -/
def cellsOK (r : List Str) : Bool := r.all (fun c => strip c = c) && r.any (· ≠ [])

/-- a data row as `csv_to_dict` reads it: at least one cell (a record with only the title field is a
sheet-title record), the cells under the header stripped (cells beyond the header are ignored by
`zip`).  Blank rows are allowed (they are kept). -/
def rowOK (hdr r : List Str) : Bool :=
  !r.isEmpty && (r.take hdr.length).all (fun c => strip c = c)

/-- `okNames prev wb`: every sheet of `wb` has a non-empty name inside the modelled fragment
(`weirdName`), whose lower-cased form differs from those of `prev` and of the earlier sheets; a
header whose cells are stripped and not all empty; data rows satisfying `rowOK`. -/
def okNames : List Str → Workbook → Bool
  | _, [] => true
  | prev, s :: wb =>
    !s.name.isEmpty && !weirdName s.name && !(prev.map lowerAscii).contains (lowerAscii s.name)
      && cellsOK s.header && s.rows.all (rowOK s.header) && noTrailingBlank s && okNames (prev ++ [s.name]) wb

/-- The workbooks whose CSV rendering `csv_to_dict` reads back exactly. -/
def CsvOK (wb : Workbook) : Bool := okNames [] wb

end Pyxv.Backends.Csv

namespace Pyxv.Backends.Excel
open Pyxv

/-- no repeated header -/
def nodupB : List Str → Bool
  | [] => true
  | x :: xs => !xs.contains x && nodupB xs

/-- a sheet that `x*_to_dict_normal_sheet` reads back exactly from any typed grid showing it:
an XLSForm sheet name (others are skipped); header cells non-blank, already clean (stripped, no
double spaces) and pairwise different; every block of blank rows followed by data has at most 60
rows (the limit of `get_excel_rows`); no trailing blank row (those are trimmed); no U+00A0 in a data
cell (`cellText` never delivers one, so no cell could show it). Blank rows inside the data are kept. -/
def sheetOK (s : Sheet) : Bool :=
  isAscii s.name && supported.contains (lowerAscii s.name) &&
    s.header.all (fun h => !allSpace h && cleanHeader h == h) && nodupB s.header &&
    runsInt Gen.maxEmptyRowRun 0 (dictRows s) && noTrailingBlank s &&
    s.rows.all (fun r => r.all fun c => !c.contains nbsp)

/-- decidable form of `Excel.Shows`: the grid's first row is the header as text cells and every data
cell is read by `cellText` as the sheet's text -/
def showsB (s : Sheet) (g : Grid) : Bool :=
  match g with
  | [] => false
  | first :: rowsCells =>
    first == s.header.map Cell.text && rowsCells.map (·.map cellText) == s.rows.map (·.map Md.toOpt)

def showsAllB : Workbook → List Grid → Bool
  | [], [] => true
  | s :: wb, g :: gs => showsB s g && showsAllB wb gs
  | _, _ => false

def ExcelOK (wb : Workbook) : Bool :=
  wb.all sheetOK && Md.distinctB (wb.map fun s => lowerAscii s.name)

end Pyxv.Backends.Excel
