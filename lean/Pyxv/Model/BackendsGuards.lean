import Pyxv.Model.Backends
/-!
# Decidable well-formedness guards of the container round trips (C12)

`Md.MdOK` / `Csv.CsvOK`: the workbooks that `md_to_dict ∘ renderMd` / `csv_to_dict ∘ renderCsv` read
back exactly (theorems `md_roundtrip`, `csv_roundtrip` in Pyxv/Proofs/C12.lean).  They live in a model
file so that the driver can evaluate them on generated workbooks.
-/
namespace Pyxv.Backends.Md
open Pyxv

def distinctB : List Str → Bool
  | [] => true
  | x :: xs => !xs.contains x && distinctB xs

/-- a cell / name that survives `strip` and the line split -/
def cellOK (c : Str) : Bool := strip c == c && !c.contains '\n'

/-- sheet name: stripped, one line, non-empty, ASCII (`lower()` is modelled on ASCII), and a
supported sheet (others are skipped, or read as `survey` when alone) -/
def nameOK (n : Str) : Bool :=
  cellOK n && n != [] && isAscii n && supported.contains (lowerAscii n)

/-- data row: cells stripped and one-line; not blank (blank rows are dropped: F16).  Cells beyond
the header row are ignored by `md_to_dict` exactly as by the dict container. -/
def rowOK (r : List Str) : Bool :=
  r.all cellOK && r.any (· != [])

/-- header non-empty, all header cells non-empty (an empty one becomes the key `None`) -/
def sheetOK (s : Sheet) : Bool :=
  nameOK s.name && s.header != [] && s.header.all (fun c => cellOK c && c != []) &&
    s.rows.all rowOK

/-- the workbooks `md_to_dict ∘ renderMd` reads back exactly; names distinct after `lower()`.
(Non-emptiness of the workbook follows from `isMarkdownTable (renderMd wb)`.) -/
def MdOK (wb : Workbook) : Bool :=
  wb.all sheetOK && distinctB (wb.map fun s => lowerAscii s.name)

end Pyxv.Backends.Md

namespace Pyxv.Backends.Csv
open Pyxv

/-- cells of a header / data row as `csv_to_dict` keeps them: stripped, not all empty
(non-empty list follows). -/
def cellsOK (r : List Str) : Bool := r.all (fun c => strip c = c) && r.any (· ≠ [])

/-- a data row as `csv_to_dict` keeps it: the cells under the header are stripped (cells beyond the
header are ignored by `zip`), and some cell is non-blank (otherwise the row is dropped, F16). -/
def rowOK (hdr r : List Str) : Bool :=
  (r.take hdr.length).all (fun c => strip c = c) && r.any (fun c => strip c ≠ [])

/-- `okNames prev wb`: every sheet of `wb` has a non-empty name inside the modelled fragment
(`weirdName`), whose lower-cased form differs from those of `prev` and of the earlier sheets; a
header whose cells are stripped and not all empty; data rows satisfying `rowOK`. -/
def okNames : List Str → Workbook → Bool
  | _, [] => true
  | prev, s :: wb =>
    !s.name.isEmpty && !weirdName s.name && !(prev.map lowerAscii).contains (lowerAscii s.name)
      && cellsOK s.header && s.rows.all (rowOK s.header) && okNames (prev ++ [s.name]) wb

/-- The workbooks whose CSV rendering `csv_to_dict` reads back exactly. -/
def CsvOK (wb : Workbook) : Bool := okNames [] wb

end Pyxv.Backends.Csv
